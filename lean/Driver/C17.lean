import TapkeeVerif.Model.Util
import TapkeeVerif.Model.RatFn
import TapkeeVerif.Model.Tsne
import TapkeeVerif.Model.TsneRun
/-! Line-protocol driver for the t-SNE model (DESIGN §11, C17).  Each input line is a harness case line
(`sqd`, `zm`, `gpd`, `gpk`, `sym`, `vps`, `exg`, `bhg`, `api`) extended by the implementation's observation
fields prefixed with `o.` (`o.DD=…`, `o.P=…`, …).  The answer is one line of `key=verdict` tokens:

  * `cmp=`   implementation vs model (AS WRITTEN) — `ok:E<exact>:A<approx>`, `skip:<why>`, `BAD:<where>`;
  * other keys: the property oracle evaluated on the implementation's values in exact rational arithmetic
    (`spec`, `zero`, `rows`, `ent`, `gauss`, `nbrs`, `symm`, `tot`, `half`, `knn`, `wf`, `grad`, `fd`, `bh0`, `centred`, `pure`).

`exp`/`log` are the rational enclosures of `Model/RatFn.lean` (error ≤ 2⁻¹⁰⁰); approx-mode tolerance is 2⁻³⁰·scale
unless stated otherwise. -/
open TapkeeVerif TapkeeVerif.Util TapkeeVerif.Tsne TapkeeVerif.RatFn

def two (n : Nat) : Rat := ((2 ^ n : Nat) : Rat)
def maxR (a b : Rat) : Rat := if a < b then b else a
def absR (a : Rat) : Rat := if a < 0 then -a else a
def tol30 : Rat := 1 / two 30

/-- DBL_MIN = 2⁻¹⁰²² -/
def dblMin : Rat := 1 / two 1022
/-- the double nearest to 1e-5 (the padding of the default quadtree root cell) -/
def tol1em5 : Rat := (5902958103587057 : Rat) / (590295810358705651712 : Rat)
/-- the tolerance of the perplexity bisection, as the source has it -/
def tolBis : Rat := (Gen.TsneOps.bisectTol.1 : Rat) / (Gen.TsneOps.bisectTol.2 : Rat)

def ratsA (s : String) : Option (Array Rat) := (parseRats s ",").map List.toArray
def natsA (s : String) : Option (Array Nat) := (parseNats s ",").map List.toArray

def matOf (N D : Nat) (a : Array Rat) : Mat N D Rat := fun n d => a.getD (n.1 * D + d.1) 0

def flat {N D : Nat} (M : Mat N D Rat) : List Rat :=
  (List.finRange N).flatMap fun n => (List.finRange D).map fun d => M n d

/-- compare two flat lists: exact / within `tol` / first bad position -/
def cmpLists (impl model : List Rat) (tol : Rat) : String :=
  if impl.length ≠ model.length then s!"BAD:length:{impl.length}:{model.length}" else
  let rec go : List Rat → List Rat → Nat → Nat → Nat → String
    | a :: as, b :: bs, i, e, ap =>
      if a = b then go as bs (i + 1) (e + 1) ap
      else if absR (a - b) ≤ tol then go as bs (i + 1) e (ap + 1)
      else s!"BAD:at={i}:impl={showRat a}:model={showRat b}"
    | _, _, _, e, ap => s!"ok:E{e}:A{ap}"
  go impl model 0 0 0

def maxAbs (l : List Rat) : Rat := l.foldl (fun m x => maxR m (absR x)) 0

def trueSq (D : Nat) (x : Array Rat) (a b : Nat) : Rat :=
  (List.range D).foldl (fun s d => let t := x.getD (a * D + d) 0 - x.getD (b * D + d) 0; s + t * t) 0

/-! ### sqd / zm -/
def doSqd (N D : Nat) (x : Array Rat) (o : Option (Array Rat)) : String :=
  let X := matOf N D x
  let model := flat (sqDist X)
  let spec := flat (sqEuclid X)
  match o with
  | none => "cmp=BAD:nonfinite spec=BAD:nonfinite"
  | some dd =>
    let c := cmpLists dd.toList model 0
    let s := cmpLists dd.toList spec 0
    s!"cmp={c} spec={s}"

def doZm (N D : Nat) (x : Array Rat) (o : Option (Array Rat)) : String :=
  let X := matOf N D x
  let model := flat (zeroMean X)
  match o with
  | none => "cmp=BAD:nonfinite zero=BAD:nonfinite"
  | some y =>
    let sc := maxR 1 (maxAbs x.toList)
    let c := cmpLists y.toList model (sc / two 40)
    let Y := matOf N D y
    let bad := (List.finRange D).find? fun d => decide (absR (sumFin N fun n => Y n d) > (N : Rat) * sc / two 40)
    s!"cmp={c} zero={match bad with | none => "ok" | some d => s!"BAD:column={d.1}"}"

/-! ### perplexity rows -/

/-- oracle on one returned row: `ps` = probabilities, `ds` = TRUE squared distances of the same entries.
    → (row sum ok, entropy ok, Gaussian-in-the-true-distances ok, detail) -/
def rowOracle (ps ds : List Rat) (lnPerp : Rat) : Bool × Bool × Bool × String :=
  let s := ps.foldl (· + ·) 0
  let sumOk := decide (absR (s - 1) ≤ 1 / two 40)
  let H := ps.foldl (fun h p => if p ≤ 0 then h else h - p * lnR p) 0
  let entOk := decide (absR (H - lnPerp) ≤ 1 / 10000)
  -- Gaussian form: ln p_m + β d_m constant over entries with p ≥ 2⁻²⁰⁰
  let big := (ps.zip ds).filter fun pd => decide (pd.1 ≥ 1 / two 200)
  let lo := big.foldl (fun (a : Option (Rat × Rat)) pd => match a with
    | none => some pd | some q => if pd.2 < q.2 then some pd else some q) none
  let hi := big.foldl (fun (a : Option (Rat × Rat)) pd => match a with
    | none => some pd | some q => if q.2 < pd.2 then some pd else some q) none
  match lo, hi with
  | some a, some b =>
    if a.2 = b.2 then
      -- all distances equal: Gaussian ⇔ all probabilities equal
      let ok := big.all fun pd => decide (absR (pd.1 - a.1) ≤ tol30)
      (sumOk, entOk, ok, s!"H={showRat (((H * 1000000).floor : Int) / (1000000 : Rat))}")
    else
      let la := lnR a.1
      let beta := (la - lnR b.1) / (b.2 - a.2)
      let ok := big.all fun pd => decide (absR (lnR pd.1 - la + beta * (pd.2 - a.2)) ≤ (1 + absR beta * b.2) / two 20)
      (sumOk, entOk, ok, s!"H={showRat (((H * 1000000).floor : Int) / (1000000 : Rat))}")
  | _, _ => (sumOk, entOk, false, "empty-row")

/-- the model bisection with margin tracking: → (final state, smallest decision margin) -/
def bisectTracked (H : Rat → Rat) (lnPerp tol : Rat) : BisState Rat × Rat :=
  let rec go : Nat → BisState Rat → Rat → BisState Rat × Rat
    | 0, s, m => (s, m)
    | k + 1, s, m =>
      if s.found then (s, m) else
      let hv := H s.beta
      let hd := hv - lnPerp
      let m' := List.foldl (fun a b => if b < a then b else a) m [absR (hd - tol), absR (hd + tol), absR hd]
      -- `bisectStep` evaluates the oracle at `s.beta` only: hand it the value already computed
      go k (bisectStep (fun _ => hv) lnPerp tol s) m'
  go Gen.TsneOps.bisectIters bisectInit 1

def doGpd (N D : Nat) (x : Array Rat) (perp : Rat) (o : Option (Array Rat)) : String :=
  match o with
  | none => "cmp=BAD:nonfinite rows=BAD:nonfinite ent=BAD:nonfinite gauss=BAD:nonfinite"
  | some p =>
    let X := matOf N D x
    let lnPerp := lnR perp
    -- oracle, row by row, on the implementation's P (self entry excluded)
    let rows := (List.range N).map fun n =>
      let ms := (List.range N).filter (· ≠ n)
      (n, rowOracle (ms.map fun m => p.getD (n * N + m) 0) (ms.map fun m => trueSq D x n m) lnPerp)
    let sh (f : Bool × Bool × Bool × String → Bool) : String :=
      match rows.find? (fun r => !f r.2) with
      | none => s!"ok:{N}"
      | some r => s!"BAD:row={r.1}:{r.2.2.2.2}"
    -- model AS WRITTEN (distances from computeSquaredEuclideanDistance)
    let DD := Mat.materialize (sqDist X)
    let huge := (flat DD).any fun d => decide (absR d > 400)
    let cmp :=
      if huge then "skip:range" else
      let res := (List.finRange N).map fun n =>
        -- (the row is materialised once per evaluation; `rowEntropy` reads it three times)
        let ddA := Array.ofFn (ddShift (DD n) n)
        let dd : Fin N → Rat := fun m => ddA.getD m.1 0
        let Hn := fun b =>
          let arr := Array.ofFn (rowDense expR dblMin dd n b)
          rowEntropy lnR dblMin dd (fun m => arr.getD m.1 0) b
        let (st, margin) := bisectTracked Hn lnPerp tolBis
        let row := rowDense expR dblMin dd n st.beta
        let s := rowSum dblMin row
        (margin, absR st.beta, (List.finRange N).map fun m => row m / s)
      if res.any fun r => decide (r.1 < 1 / two 30) || decide (two 80 < r.2.1) then "skip:near-tie" else
      cmpLists p.toList (res.flatMap fun r => r.2.2) tol30
    s!"cmp={cmp} rows={sh (·.1)} ent={sh (·.2.1)} gauss={sh (·.2.2.1)}"

def doGpk (N D K Kspec : Nat) (x : Array Rat) (perp : Rat) (oc : Option (Array Nat)) (ov : Option (Array Rat)) : String :=
  match oc, ov with
  | some col, some val =>
    let lnPerp := lnR perp
    let rows := (List.range N).map fun n =>
      let cs := (List.range K).map fun j => col.getD (n * K + j) 0
      let ps := (List.range K).map fun j => val.getD (n * K + j) 0
      let ds := cs.map fun c => trueSq D x n c
      -- true neighbours: the K smallest distances to the OTHER samples
      let others := ((List.range N).filter (· ≠ n)).map fun m => trueSq D x n m
      -- the property: the row is over the true floor(3·perplexity) = Kspec nearest others
      let best := (others.mergeSort (· ≤ ·)).take Kspec
      let nbOk := decide (K = Kspec) && decide (ds.mergeSort (· ≤ ·) = best) && cs.all (· ≠ n) && decide (cs.eraseDups.length = cs.length)
      -- model row from the distances of the returned columns, in the returned order, as the routine sees them:
      -- the tree's distance, then `kernelDistance` (squared again when the tree works on the metric)
      let dist : Fin K → Rat := fun m =>
        let c := cs.getD m.1 0
        kernelDistance (vpDistance sqrtR ((List.range D).map fun d => x.getD (n * D + d) 0) ((List.range D).map fun d => x.getD (c * D + d) 0))
      let distA := Array.ofFn (knnShift dist)
      let dist : Fin K → Rat := fun m => distA.getD m.1 0
      let Hn := fun b =>
        let arr := Array.ofFn (rowKnn expR dist b)
        rowEntropy lnR dblMin dist (fun m => arr.getD m.1 0) b
      let (st, margin) := bisectTracked Hn lnPerp tolBis
      let row := rowKnn expR dist st.beta
      let s := rowSum dblMin row
      let mrow := (List.finRange K).map fun m => row m / s
      (n, nbOk, rowOracle ps ds lnPerp, margin, absR st.beta, ps, mrow)
    let first (f : _ → Bool) (g : _ → String) : String := match rows.find? (fun r => !f r) with
      | none => s!"ok:{N}" | some r => s!"BAD:row={r.1}:{g r}"
    let cmp :=
      if rows.any fun r => decide (r.2.2.2.1 < 1 / two 30) || decide (two 80 < r.2.2.2.2.1) then "skip:near-tie"
      else cmpLists (rows.flatMap (·.2.2.2.2.2.1)) (rows.flatMap (·.2.2.2.2.2.2)) tol30
    s!"cmp={cmp} nbrs={first (·.2.1) (fun _ => "not-the-K-nearest")} rows={first (·.2.2.1.1) (·.2.2.1.2.2.2)} ent={first (·.2.2.1.2.1) (·.2.2.1.2.2.2)} gauss={first (·.2.2.1.2.2.1) (·.2.2.1.2.2.2)}"
  | _, _ => "cmp=BAD:nonfinite nbrs=BAD:nonfinite rows=BAD:nonfinite ent=BAD:nonfinite gauss=BAD:nonfinite"

/-! ### CSR symmetriser -/
def showErr : Err → String
  | .oob w => s!"ERR:oob:{w.replace " " "_"}"
  | .uninit w => s!"ERR:uninit:{w}"

def doSym (N : Nat) (row col : Array Nat) (val : Array Rat) (hasObs : Bool) (orow ocol : Option (Array Nat)) (oval : Option (Array Rat)) : String :=
  let c : Csr Rat := ⟨row, col, val⟩
  let model := symmetrizeCsr N c
  let modelS := match model with
    | .error e => showErr e
    | .ok m => s!"row={String.intercalate "," (m.rowP.toList.map toString)}:col={String.intercalate "," (m.colP.toList.map toString)}:val={String.intercalate "," (m.valP.toList.map showRat)}"
  match orow, ocol, oval with
  | some r, some cc, some v =>
    let out : Csr Rat := ⟨r, cc, v⟩
    let cmp := match model with
      | .error e => s!"BAD:model-{showErr e}"
      | .ok m => if m.rowP == r && m.colP == cc && m.valP == v then s!"ok:E{v.size}:A0" else s!"BAD:differs:model={modelS}"
    let pairs := (List.range N).flatMap fun n => (List.range N).map fun m => (n, m)
    let symm := pairs.find? fun nm => decide (out.entry nm.1 nm.2 ≠ out.entry nm.2 nm.1)
    let half := pairs.find? fun nm => decide (out.entry nm.1 nm.2 * 2 ≠ c.entry nm.1 nm.2 + c.entry nm.2 nm.1)
    let tin := val.foldl (· + ·) 0
    let tout := v.foldl (· + ·) 0
    let sh (b : Option (Nat × Nat)) := match b with | none => "ok" | some nm => s!"BAD:n={nm.1}:m={nm.2}"
    s!"cmp={cmp} symm={sh symm} half={sh half} tot={if tin = tout then "ok" else s!"BAD:in={showRat tin}:out={showRat tout}"}"
  | _, _, _ =>
    -- an observation that does not parse (negative or huge column indices, non-finite values: cells of the malloc'ed
    -- result the routine never wrote) is a failure of the routine, not a missing observation
    if hasObs then s!"cmp=BAD:garbage-in-output symm=BAD:garbage-in-output:model={modelS}" else s!"cmp=noobs model={modelS}"

/-! ### VP tree -/
partial def parseVp (cs : List Char) : Option (VpNode Rat × List Char) :=
  match cs with
  | '-' :: rest => some (.nil, rest)
  | '(' :: rest =>
    let (idxS, r1) := rest.span (· ≠ '_')
    let (thrS, r2) := (r1.drop 1).span (· ≠ '_')
    match (String.ofList idxS).toNat?, parseRat (String.ofList thrS), parseVp (r2.drop 1) with
    | some idx, some thr, some (l, r3) =>
      match parseVp (r3.drop 1) with
      | some (r, r4) => match r4 with
        | ')' :: r5 => some (.node idx thr l r, r5)
        | _ => none
      | none => none
    | _, _, _ => none
  | _ => none

/-- the construction contract of `buildFromPoints(lower, upper)` checked on a dumped tree, in the tree's own distance
    (`tol = 0` when that distance is exact) -/
def vpWf (dist : List Rat → List Rat → Rat) (tol : Rat) (pt : Nat → List Rat) : VpNode Rat → Nat → Nat → Bool
  | .nil, lo, hi => lo == hi
  | .node idx thr l r, lo, hi =>
    if hi ≤ lo || idx ≠ lo then false
    else if hi - lo = 1 then l.isNil && r.isNil && decide (thr = 0)
    else
      let med := (hi + lo) / 2
      let t := tol * (1 + absR thr)
      -- `threshold = distance(items[lower], items[median])` at construction time; the right subtree may later move
      -- that item inside `[median, upper)` (its own vantage swap), so: the threshold is attained in the right range,
      -- nothing left of the median is farther, nothing right of it nearer (the nth_element postcondition)
      ((List.range' med (hi - med)).any fun j => decide (absR (thr - dist (pt lo) (pt j)) ≤ t)) &&
      ((List.range' (lo + 1) (med - lo - 1)).all fun j => decide (dist (pt lo) (pt j) ≤ thr + t)) &&
      ((List.range' med (hi - med)).all fun j => decide (thr - t ≤ dist (pt lo) (pt j))) &&
      vpWf dist tol pt l (lo + 1) med && vpWf dist tol pt r med hi

/-- the tree's distance with the square root perturbed by `eps` where it is not exact (the three runs `-eps, 0, +eps`
    agree unless some pruning decision of the search is a tie up to `eps`) -/
def distVar (eps : Rat) (a b : List Rat) : Rat :=
  vpDistance (fun x => sqrtR x + (if sqrtExact x then 0 else eps)) a b

def doVps (N D k : Nat) (x : Array Rat) (draws : Array Nat) (qs : List Nat) (oitems : Option (Array Nat)) (otree : Option String) (ores : Option String) : String :=
  let coords (i : Nat) : List Rat := (List.range D).map fun d => x.getD (i * D + d) 0
  -- the k smallest TRUE squared distances (exact)
  let brute (q : Nat) : List Rat := (((List.range N).map fun j => sqDistance (coords j) (coords q)).mergeSort (· ≤ ·)).take k
  let eps : Rat := 1 / two 60
  let dist0 := distVar 0
  let tol : Rat := 1 / two 40
  -- the model's own tree (same draw stream, nth_element = stable sort) and its searches: hunting on the model side
  let pick (draw cnt : Nat) : Nat := ((draws.getD (draw % (max draws.size 1)) 0 % 1048576) * cnt) / 1048576
  let (mroot, mseg, _) := vpBuild dist0 pick (N + 1) 0 0 ((List.range N).map fun i => (i, coords i))
  let msegA := mseg.toArray
  let mitems (pos : Nat) : List Rat := (msegA.getD pos (0, [])).2
  let mbad := qs.find? fun q =>
    let got := (vpSearchTop dist0 mitems mroot (coords q) k).map fun e => sqDistance (mitems e.1) (coords q)
    decide (got.mergeSort (· ≤ ·) ≠ brute q)
  let mknn := match mbad with | none => "ok" | some q => s!"BAD:q={q}"
  match oitems, otree >>= (fun s => parseVp s.toList), ores with
  | some items, some (root, _), some resS =>
    let pt (pos : Nat) : List Rat := coords (items.getD pos 0)
    let wf := vpWf dist0 tol pt root 0 N
    let obs : List (Nat × List (Nat × Rat)) := (splitNonEmpty resS ";").filterMap fun s =>
      match s.splitOn ":" with
      | q :: rest =>
        let body := String.intercalate ":" rest
        match q.toNat?, allSome ((splitNonEmpty body ",").map fun e => match e.splitOn "@" with
            | [i, d] => match i.toNat?, parseRat d with
              | some i, some d => some (i, d)
              | _, _ => none
            | _ => none) with
        | some q, some l => some (q, l)
        | _, _ => none
      | _ => none
    if obs.length ≠ qs.length then s!"cmp=BAD:unparsed-results mknn={mknn}" else
    let judged : List (Nat × Bool × Bool × Bool × Bool × Bool × List Rat × List Rat) := obs.map fun (ql : Nat × List (Nat × Rat)) =>
      let q := ql.1
      let l := ql.2
      -- the model search replayed on the implementation's tree, with the square root nudged down / not / up
      let run (e : Rat) := (vpSearchTop (distVar e) pt root (coords q) k).map fun en => (items.getD en.1 0, en.2)
      let m0 := run 0
      let stable := decide ((run (-eps)).map (·.1) = m0.map (·.1)) && decide ((run eps).map (·.1) = m0.map (·.1))
      let close (a b : List Rat) : Bool := a.length == b.length && (a.zip b).all fun ab => decide (absR (ab.1 - ab.2) ≤ tol * (1 + absR ab.2))
      let dOk := close (l.map (·.2)) (m0.map (·.2))
      let iOk := decide (m0.map (·.1) = l.map (·.1))
      let exact := decide (l.map (·.2) = m0.map (·.2))
      let consistent := l.all fun e => decide (absR (dist0 (coords e.1) (coords q) - e.2) ≤ tol * (1 + absR e.2))
      -- oracle on the returned *items*: their true squared distances are the k smallest (whatever the tree reports)
      let got := sortBy (fun a b => decide (a ≤ b)) (l.map fun e => sqDistance (coords e.1) (coords q))
      let knn := decide (got = brute q)
      (q, stable, dOk && consistent, iOk, exact, knn, got, brute q)
    let usable := judged.filter (·.2.1)
    let nExact := (usable.filter fun j => j.2.2.2.2.1).length
    let nApprox := usable.length - nExact
    let nSkip := judged.length - usable.length
    let cmp := match usable.find? (fun j => !j.2.2.1) with
      | none => s!"ok:E{nExact}:A{nApprox}:F{nSkip}"
      | some j => s!"BAD:q={j.1}"
    let fid := (usable.filter (·.2.2.2.1)).length
    let knn := match judged.find? (fun j => !j.2.2.2.2.2.1) with
      | none => s!"ok:{judged.length}"
      | some j => s!"BAD:q={j.1}:impl={String.intercalate "," (j.2.2.2.2.2.2.1.map showRat)}:true={String.intercalate "," (j.2.2.2.2.2.2.2.map showRat)}"
    s!"cmp={cmp} wf={if wf then "ok" else "BAD"} fid={fid}/{usable.length} knn={knn} mknn={mknn}"
  | _, _, _ => s!"cmp=noobs mknn={mknn}"

/-! ### gradients -/
/-- KL(P‖Q(Y)) with Student-t Q over the true distances (log enclosures) -/
def klTrue (N D : Nat) (p y : Array Rat) : Rat :=
  let pairs := (List.range N).flatMap fun n => ((List.range N).filter (· ≠ n)).map fun m => (n, m)
  let qs := pairs.map fun nm => 1 / (1 + trueSq D y nm.1 nm.2)
  let sq := qs.foldl (· + ·) 0
  (pairs.zip qs).foldl (fun c e =>
    let pv := p.getD (e.1.1 * N + e.1.2) 0
    if pv ≤ 0 then c else c + pv * (lnR pv - lnR (rnd (e.2 / sq)))) 0

def doExg (N D : Nat) (p y : Array Rat) (o : Option (Array Rat)) (fd : Bool) : String :=
  let P := matOf N N p
  let Y := matOf N D y
  let DDw := sqDist Y
  let div0 := (List.finRange N).any fun n => (List.finRange N).any fun m => n ≠ m && decide (1 + DDw n m = 0)
  let spec := flat (exactGradientSpec P Y)
  match o with
  | none => "cmp=BAD:nonfinite grad=BAD:nonfinite"
  | some g =>
    let model := flat (exactGradient P Y)
    let cmp := if div0 then "skip:div0" else cmpLists g.toList model (maxR 1 (maxAbs model) * tol30)
    let grad := cmpLists g.toList spec (maxR 1 (maxAbs spec) * tol30)
    let fdS :=
      if !fd then "skip" else
      let h : Rat := 1 / two 16
      let bad := (List.range (N * D)).find? fun i =>
        let yp := y.modify i (· + h)
        let ym := y.modify i (· - h)
        let d := (klTrue N D p yp - klTrue N D p ym) / (2 * h)
        decide (absR (4 * g.getD i 0 - d) > maxR 1 (absR d) / two 20)
      match bad with | none => s!"ok:{N * D}" | some i => s!"BAD:coordinate={i}"
    s!"cmp={cmp} grad={grad} fd={fdS}"

def csrDense (N : Nat) (c : Csr Rat) : Array Rat :=
  ((List.range N).flatMap fun n => (List.range N).map fun m => c.entry n m).toArray

/-- near-tie of a summary decision met by the traversal (see Driver/C18) -/
def fragileCrit (data : Nat → Rat × Rat) (θ M : Rat) (pi : Nat) : QuadTree.Tree Rat → Bool
  | .leaf .. => false
  | .node b cum com nw ne sw se =>
    if cum = 0 then false else
    let buff : Rat × Rat := ((data pi).1 - com.1, (data pi).2 - com.2)
    let D := QuadTree.sqNorm buff
    let m := QuadTree.stdMax b.hh b.hw
    let rhs := θ * θ * D
    let diff := absR (m * m - rhs)
    let near := decide (0 < θ) && decide (D ≠ 0) &&
      (decide (diff ≤ rhs / two 40) || decide (diff * diff ≤ θ * θ * θ * θ * M * M * D * 16 / two 80))
    if near then true
    else if QuadTree.useSummary θ b D then false
    else fragileCrit data θ M pi nw || fragileCrit data θ M pi ne || fragileCrit data θ M pi sw || fragileCrit data θ M pi se

def eps1em5 : Rat := tol1em5

def doBhg (N D : Nat) (row col : Array Nat) (val y : Array Rat) (θ : Rat) (o : Option (Array Rat)) : String :=
  let c : Csr Rat := ⟨row, col, val⟩
  let pts := (List.range N).map fun n => (y.getD (2 * n) 0, y.getD (2 * n + 1) 0)
  let root := QuadTree.rootCell eps1em5 pts
  let fuel := QuadTree.fuelBound root pts + 2
  let model := bhGradient fuel eps1em5 θ N D c y
  match model with
  | .error e => s!"cmp=model-{showErr e}"
  | .ok m =>
    match o with
    | none => "cmp=BAD:nonfinite bh0=BAD:nonfinite"
    | some g =>
      let parr := pts.toArray
      let data : Nat → Rat × Rat := fun i => parr.getD i (0, 0)
      let M := maxAbs y.toList
      let frag := match QuadTree.buildIn data fuel root (List.range N) with
        | none => true
        | some t => (List.range N).any fun n => fragileCrit data θ M n t
      let sc := maxR 1 (maxAbs m.toList)
      let cmp := if frag then "skip:near-tie" else cmpLists g.toList m.toList (sc * (tol30 + M / two 44))
      -- θ → 0 : the exact formula with the same P (dense view of the CSR matrix), true distances
      let bh0 :=
        -- coincident map points are NOT skipped: `bh_theta0_eq_exact` (Props/C17) holds for every map
        if D ≠ 2 || decide (θ > 1 / 100000) then "skip" else
        let spec := flat (exactGradientSpec (matOf N N (csrDense N c)) (matOf N D y))
        cmpLists g.toList spec (maxR 1 (maxAbs spec) * (tol30 + M / two 44))
      s!"cmp={cmp} bh0={bh0}"

/-- all cells of a tree -/
def qtCells : QuadTree.Tree Rat → List (QuadTree.Cell Rat)
  | .leaf b .. => [b]
  | .node b _ _ nw ne sw se => b :: (qtCells nw ++ qtCells ne ++ qtCells sw ++ qtCells se)

/-- some point within relative 2⁻⁴⁰ of (or exactly on) a cell boundary: with the non-dyadic default root the rounded
    child boxes of the double computation need not meet exactly on the dividing lines (see Driver/C18) -/
def fragileStructure (t : QuadTree.Tree Rat) (pts : List (Rat × Rat)) : Bool :=
  let r : Rat := 1 / two 40
  (qtCells t).any fun c =>
    pts.any fun p =>
      let sx := (absR c.x + c.hw + absR p.1) * r
      let sy := (absR c.y + c.hh + absR p.2) * r
      let near (a b s : Rat) : Bool := decide (absR (a - b) ≤ s)
      near p.1 (c.x - c.hw) sx || near p.1 (c.x + c.hw) sx || near p.2 (c.y - c.hh) sy || near p.2 (c.y + c.hh) sy

/-- the Barnes–Hut gradient at the map `y` depends on a decision (which child a point falls into, whether a cell is
    summarised) that is within rounding of a tie -/
def bhFragile (N : Nat) (θ : Rat) (y : Array Rat) : Bool :=
  let pts := (List.range N).map fun n => (y.getD (2 * n) 0, y.getD (2 * n + 1) 0)
  let parr := pts.toArray
  let data : Nat → Rat × Rat := fun i => parr.getD i (0, 0)
  let root := QuadTree.rootCell eps1em5 pts
  match QuadTree.buildIn data (QuadTree.fuelBound root pts + 4) root (List.range N) with
  | none => true
  | some t => fragileStructure t pts || (List.range N).any fun n => fragileCrit data θ (maxAbs y.toList) n t

/-! ### `TSNE::run`, observed through its progress log -/

def eps9 : Rat := (4835703278458517 : Rat) / (4835703278458516698824704 : Rat)   -- the double nearest to 1e-9
def fltMin : Rat := 1 / two 126

structure Snap where
  it : Nat
  C : Rat
  Y : Array Rat

def parseSnaps (s : String) : Option (List Snap) :=
  allSome ((splitNonEmpty s ";").map fun one =>
    match one.splitOn "/" with
    | [i, c, y] => match i.toNat?, parseRat c, ratsA y with
      | some i, some c, some y => some ⟨i, c, y⟩
      | _, _, _ => none
    | _ => none)

/-- exaggeration factor used by the GRADIENT of iteration `t` (the division happens at the end of iteration
    `stopLyingIter`) -/
def gradExag (t : Nat) : Rat :=
  if Gen.TsneRun.stopLyingSimple && decide (Gen.TsneRun.stopLyingIter < (t : Int)) then
    ofPair Gen.TsneRun.exaggeration / ofPair Gen.TsneRun.unExaggeration
  else ofPair Gen.TsneRun.exaggeration

def fxA (a : Array Rat) : Array Fx := a.map Fx.of
def unfxA (a : Array Fx) : Array Rat := a.map (·.v)
def lnFx (a : Fx) : Fx := Fx.of (lnR a.v)
def matFx (N D : Nat) (a : Array Rat) : Mat N D Fx := fun n d => Fx.of (a.getD (n.1 * D + d.1) 0)

/-! #### the per-iteration observer: every step of the real run against the SPECIFIED update rule

`traj` is the map after iterations `0..T` (observer hook of `run`, called right after `zeroMean(Y)`).  The replay is
*teacher forced*: the gradient of iteration `t` is evaluated at the implementation's own `Y_{t-1}` (the initial map for
`t = 0` is the replayed Gaussian stream times `1e-4`), the velocity and the gains are carried by the replay — their
error contracts with the momentum, so nothing is amplified and the tolerance stays tight over hundreds of iterations.
Constants are written down here (12 through iteration 250, momentum .5 through 250 then .8, `Sched.spec`), not read from
the translation: a `BAD` is a failing input of the specification, not a model/implementation disagreement. -/
def specExag (t : Nat) : Rat := if t ≤ 250 then 12 else 1
def specMomentum (t : Nat) : Rat := if t ≤ 250 then 1 / 2 else 4 / 5

def parseTraj (s : String) : Option (List (Array Rat)) := allSome ((splitNonEmpty s ";").map ratsA)

structure StepSt where
  yPrev : Array Fx
  uY : Array Fx
  gains : Array Fx
  bad : Option String := none
  frag : Option Nat := none
  done : Nat := 0

/-- the exact gradient formula (true squared distances) on flat `Fx` buffers -/
def exactGradFx (N dim : Nat) (pA y : Array Fx) : Array Fx :=
  let Ym : Mat N dim Fx := fun n d => y.getD (n.1 * dim + d.1) 0
  let P : Mat N N Fx := fun n m => pA.getD (n.1 * N + m.1) 0
  let ddY : Array Fx := ((List.finRange N).flatMap fun n => (List.finRange N).map fun m => sqEuclid Ym n m).toArray
  let DDy : Mat N N Fx := fun n m => ddY.getD (n.1 * N + m.1) 0
  let grad := exactGradientOf DDy P Ym
  ((List.finRange N).flatMap fun n => (List.finRange dim).map fun d => grad n d).toArray

def stepCheck (N dim : Nat) (g : Array Rat) (traj : List (Array Rat)) (grad : Nat → Array Fx → Except String (Array Fx)) :
    String :=
  let nd := N * dim
  let y0 : Array Fx := g.map fun v => Fx.of (v / 10000)
  let init : StepSt := { yPrev := y0, uY := g.map (fun _ => Fx.of 0), gains := g.map (fun _ => Fx.of 1) }
  let st := traj.zipIdx.foldl (fun (s : StepSt) (yt, t) =>
    if s.bad.isSome || s.frag.isSome then s else
    if yt.size ≠ nd then { s with bad := some s!"it={t}:observed-map-of-size-{yt.size}" } else
    match grad t s.yPrev with
    | .error "near-tie" => { s with frag := some t }
    | .error e => { s with bad := some s!"it={t}:gradient-not-evaluated:{e}" }
    | .ok dC =>
      let o' := updateStepWith Sched.spec N dim dC ⟨s.yPrev, s.uY, s.gains, Fx.of (specMomentum t)⟩
      -- a sign test of the gains rule within rounding of a tie: the replay cannot know which way the doubles went
      let mdC := maxAbs (unfxA dC).toList
      let muY := maxAbs (unfxA s.uY).toList
      let tie := (List.range nd).any fun i =>
        let d := absR (dC.getD i 0).v
        let u := absR (s.uY.getD i 0).v
        decide (d ≤ mdC / two 30) || (decide (u ≠ 0) && decide (u ≤ muY / two 30))
      if tie then { s with frag := some t } else
      let ym := unfxA o'.Y
      let tol := maxAbs (unfxA o'.uY).toList / two 30 + maxAbs yt.toList / two 46
      match (List.range nd).find? fun i => decide (absR (ym.getD i 0 - yt.getD i 0) > tol) with
      | some i => { s with bad := some s!"it={t}:cell={i}:impl={showRat (yt.getD i 0)}:specified={showRat (rnd (ym.getD i 0))}" }
      | none => { s with yPrev := fxA yt, uY := o'.uY, gains := o'.gains, done := t + 1 }) init
  match st.bad, st.frag with
  | some b, _ => "BAD:" ++ b
  | none, some t => s!"ok:{st.done}:near-tie-at-{t}"
  | none, none => s!"ok:{st.done}"

/-- the part of `run` after the conditional similarities is evaluated in the rounded scalar `Fx` (grid 2⁻¹²⁸): exact
    rationals grow without bound through the divisions of 50 gradient steps -/
def doRun (N D dim : Nat) (x g : Array Rat) (perp θ : Rat) (snapsS trajS : Option String) : String :=
  match snapsS >>= parseSnaps with
  | none => "cmp=BAD:unparsable-observation dyn=BAD:unparsable-observation"
  | some snaps =>
    -- (every stage is cached in an array: a `Mat` is a function and is re-evaluated on every access)
    let x0 : Array Rat := (flat (zeroMean (matOf N D x))).toArray
    let xn : Array Rat := (flat (maxNormalise (matOf N D x0))).toArray
    let X := matOf N D xn
    let lnPerp := lnR perp
    let cmpC (it : Nat) (C Cm : Rat) : Option String :=
      if absR (C - Cm) ≤ tol30 * (1 + absR Cm) then none else some s!"it={it}:impl={showRat C}:model={showRat (rnd Cm)}"
    let close (a b : Array Rat) (tol : Rat) : Bool :=
      a.size == b.size && (List.range a.size).all fun i => decide (absR (a.getD i 0 - b.getD i 0) ≤ tol)
    let t1 := (snaps.map (·.it)).foldl min 1000000
    -- 51 gradient steps amplify the rounding of the double computation (observed: up to ~2⁻¹⁸ relative); any change of a
    -- learning constant moves the map by O(1) relative
    let yTol (y : Array Rat) : Rat := maxR 1 (maxAbs y.toList) / two 12
    let g0 : OptState Fx := initState (fxA g)
    if θ = 0 then
      let ddA : Array Rat := (flat (sqDist X)).toArray
      -- one bisection per row
      let pcA : Array Rat := ((List.finRange N).flatMap fun n =>
        let dd : Fin N → Rat := fun m => ddA.getD (n.1 * N + m.1) 0
        let ddsA := Array.ofFn (ddShift dd n)
        let dds : Fin N → Rat := fun m => ddsA.getD m.1 0
        let b := (bisect (fun b =>
          let arr := Array.ofFn (rowDense expR dblMin dds n b)
          rowEntropy lnR dblMin dds (fun m => arr.getD m.1 0) b) lnPerp tolBis).beta
        let rowA := Array.ofFn (rowDense expR dblMin dds n b)
        let sm := rowSum dblMin fun (m : Fin N) => rowA.getD m.1 0
        (List.finRange N).map fun m => rowA.getD m.1 0 / sm).toArray
      let pA : Array Rat := (flat (jointDenseAsWritten (matOf N N pcA))).toArray
      let Pscaled (f : Rat) : Mat N N Fx :=
        let a : Array Fx := pA.map fun v => Fx.of (v * f)
        fun n m => a.getD (n.1 * N + m.1) 0
      let bad := snaps.findSome? fun sn =>
        cmpC sn.it sn.C (evaluateErrorDense lnFx (Fx.of dblMin) (Fx.of eps9) (Pscaled (exaggerationAt sn.it))
          (matFx N dim sn.Y)).v
      -- the same observation against the SPECIFICATION (symmetrised, normalised, exaggerated by 12 up to iteration 250):
      -- an oracle on the implementation's logged values that does not follow the source
      let pSpecA : Array Rat := (flat (jointDense (matOf N N pcA))).toArray
      let specBad := snaps.findSome? fun sn =>
        let f : Rat := if sn.it < 250 then 12 else 1
        let a : Array Fx := pSpecA.map fun v => Fx.of (v * f)
        let Ps : Mat N N Fx := fun n m => a.getD (n.1 * N + m.1) 0
        cmpC sn.it sn.C (evaluateErrorDense lnFx (Fx.of dblMin) (Fx.of eps9) Ps (matFx N dim sn.Y)).v
      -- the optimiser, replayed from the same Gaussian stream up to the first snapshot
      let fin := (List.range (t1 + 1)).foldl (fun (s : OptState Fx) t =>
        let Ym : Mat N dim Fx := fun n d => s.Y.getD (n.1 * dim + d.1) 0
        let Pt := Pscaled (gradExag t)
        let ddY : Array Fx := ((List.finRange N).flatMap fun n => (List.finRange N).map fun m => sqDist Ym n m).toArray
        let DDy : Mat N N Fx := fun n m => ddY.getD (n.1 * N + m.1) 0
        let grad := exactGradientOf DDy Pt Ym
        let dC := (((List.finRange N).flatMap fun n => (List.finRange dim).map fun d => grad n d)).toArray
        updateStep N dim dC { s with momentum := Fx.of (momentumAt t) }) g0
      let dyn := match snaps.find? (·.it == t1) with
        | none => "skip"
        | some sn => if t1 > 60 then "skip" else if close (unfxA fin.Y) sn.Y (yTol sn.Y) then "ok" else
            s!"BAD:it={t1}:impl={String.intercalate "," (sn.Y.toList.map showRat)}:model={String.intercalate "," ((unfxA fin.Y).toList.map showRat)}"
      let step := match trajS with
        | none => "skip"
        | some ts => match parseTraj ts with
          | none => "BAD:unparsable-trajectory"
          | some traj =>
            let p12 : Array Fx := pSpecA.map fun v => Fx.of (v * 12)
            let p1 : Array Fx := pSpecA.map Fx.of
            stepCheck N dim g traj fun t y => .ok (exactGradFx N dim (if specExag t = 12 then p12 else p1) y)
      s!"cmp={match bad with | none => s!"ok:E0:A{snaps.length}" | some b => "BAD:" ++ b} dyn={dyn} spec={match specBad with | none => "ok" | some b => "BAD:" ++ b} step={step}"
    else
      let Kn := neighbourCount perp.num.toNat perp.den
      let Kspec := (3 * perp.num.toNat) / perp.den
      let coords (i : Nat) : List Rat := (List.range D).map fun d => xn.getD (i * D + d) 0
      -- the K nearest others of every sample (distance ties at the cut make the neighbour set ambiguous: skipped)
      let rows := (List.range N).map fun n =>
        let others := ((List.range N).filter (· ≠ n)).map fun m => (m, sqDistance (coords n) (coords m))
        let sorted := others.mergeSort fun a b => decide (a.2 ≤ b.2)
        let nb := sorted.take Kn
        let tie := match sorted[Kn - 1]?, sorted[Kn]? with
          | some a, some b => decide (a.2 = b.2)
          | _, _ => false
        let distA := (nb.map fun e => kernelDistance (vpDistance sqrtR (coords n) (coords e.1))).toArray
        let dist : Fin Kn → Rat := fun m => distA.getD m.1 0
        let rowf := gaussianRowKnn expR lnR dblMin lnPerp tolBis dist
        let vals := (List.finRange Kn).map rowf
        (nb.map (·.1), vals, tie || decide (nb.length ≠ Kn))
      if rows.any (·.2.2) then "cmp=skip:neighbour-tie dyn=skip" else
      let c0 : Csr Rat := ⟨((List.range (N + 1)).map (· * Kn)).toArray, (rows.flatMap (·.1)).toArray, (rows.flatMap (·.2.1)).toArray⟩
      match jointCsrAsWritten N c0 with
      | .error e => s!"cmp=model-{showErr e} dyn=skip"
      | .ok cj =>
        let scaled (f : Rat) : Csr Fx := ⟨cj.rowP, cj.colP, cj.valP.map fun v => Fx.of (v * f)⟩
        let fuelOf (y : Array Rat) : Nat :=
          let pts := (List.range N).map fun n => (y.getD (2 * n) 0, y.getD (2 * n + 1) 0)
          QuadTree.fuelBound (QuadTree.rootCell eps1em5 pts) pts + 4
        let bad := snaps.findSome? fun sn =>
          match evaluateErrorBH lnFx (Fx.of fltMin) (Fx.of eps1em5) (Fx.of θ) (fuelOf sn.Y) N (scaled (exaggerationAt sn.it))
              (fxA sn.Y) with
          | .error e => some s!"it={sn.it}:model-{showErr e}"
          | .ok Cm => cmpC sn.it sn.C Cm.v
        let fin := (List.range (t1 + 1)).foldl (fun (s : Option (OptState Fx)) t =>
          match s with
          | none => none
          | some s =>
            match bhGradient (fuelOf (unfxA s.Y)) (Fx.of eps1em5) (Fx.of θ) N dim (scaled (gradExag t)) s.Y with
            | .error _ => none
            | .ok dC => some (updateStep N dim dC { s with momentum := Fx.of (momentumAt t) })) (some g0)
        let dyn := match snaps.find? (·.it == t1), fin with
          | some sn, some fs => if t1 > 60 || dim ≠ 2 then "skip" else if close (unfxA fs.Y) sn.Y (yTol sn.Y) then "ok" else
              s!"BAD:it={t1}:impl={String.intercalate "," (sn.Y.toList.map showRat)}:model={String.intercalate "," ((unfxA fs.Y).toList.map showRat)}"
          | _, _ => "skip"
        -- against the specification: K = floor(3·perplexity), normalised, exaggerated by 12 up to iteration 250
        let specBad : Option String :=
          if Kn ≠ Kspec then some s!"K={Kn}:spec={Kspec}" else
          match symmetrizeCsr N c0 with
          | .error e => some (showErr e)
          | .ok sj =>
            let sn0 := sj.normalise
            snaps.findSome? fun sn =>
              let f : Rat := if sn.it < 250 then 12 else 1
              let cs : Csr Fx := ⟨sn0.rowP, sn0.colP, sn0.valP.map fun v => Fx.of (v * f)⟩
              match evaluateErrorBH lnFx (Fx.of fltMin) (Fx.of eps1em5) (Fx.of θ) (fuelOf sn.Y) N cs (fxA sn.Y) with
              | .error e => some s!"it={sn.it}:model-{showErr e}"
              | .ok Cm => cmpC sn.it sn.C Cm.v
        -- per-iteration observation.  θ ≤ 2⁻²⁰: the specified step is the EXACT gradient formula on the specified joint
        -- distribution (`step`, a failing input).  Larger θ: the step of the model of `computeGradient` (`stepm`, a
        -- model/implementation correspondence)
        let stepS : String := match trajS with
          | none => "step=skip"
          | some ts =>
            if dim ≠ 2 then "step=skip" else
            if Kn ≠ Kspec then "step=skip" else
            match parseTraj ts, symmetrizeCsr N c0 with
            | none, _ => "step=BAD:unparsable-trajectory"
            | _, .error e => s!"step=skip:{showErr e}"
            | some traj, .ok sj =>
              let sn0 := sj.normalise
              if decide (θ ≤ 1 / two 20) then
                let dense := csrDense N sn0
                let p12 : Array Fx := dense.map fun v => Fx.of (v * 12)
                let p1 : Array Fx := dense.map Fx.of
                "step=" ++ stepCheck N dim g traj fun t y => .ok (exactGradFx N dim (if specExag t = 12 then p12 else p1) y)
              else
                let cs (f : Rat) : Csr Fx := ⟨sn0.rowP, sn0.colP, sn0.valP.map fun v => Fx.of (v * f)⟩
                let c12 := cs 12
                let c1 := cs 1
                "stepm=" ++ stepCheck N dim g traj fun t y =>
                  if bhFragile N θ (unfxA y) then .error "near-tie" else
                  match bhGradient (fuelOf (unfxA y)) (Fx.of eps1em5) (Fx.of θ) N dim (if specExag t = 12 then c12 else c1) y with
                  | .error e => .error (showErr e)
                  | .ok dC => .ok dC
        s!"cmp={match bad with | none => s!"ok:E0:A{snaps.length}" | some b => "BAD:" ++ b} dyn={dyn} K={Kn} spec={match specBad with | none => "ok" | some b => "BAD:" ++ b} {stepS}"

/-! ### public API smoke (test level) -/
def doApi (N dim : Nat) (labels : Array Nat) (o : Option (Array Rat)) : String :=
  match o with
  | none => "centred=BAD:nonfinite pure=BAD:nonfinite"
  | some y =>
    let Y := matOf N dim y
    let sc := maxR 1 (maxAbs y.toList)
    let bad := (List.finRange dim).find? fun d => decide (absR (sumFin N fun n => Y n d) > (N : Rat) * sc / two 30)
    let nn (i : Nat) : Option Nat :=
      ((List.range N).filter (· ≠ i)).foldl (fun (b : Option Nat) j => match b with
        | none => some j
        | some k => if trueSq dim y i j < trueSq dim y i k then some j else some k) none
    -- test-level criterion: at most one point in ten has its nearest neighbour in the other cluster (single points
    -- flung out by the stochastic optimisation are tolerated); evaluated for two target dimensions only
    let imp := (List.range N).filter fun i => match nn i with
      | none => false
      | some j => labels.getD i 0 ≠ labels.getD j 0
    let pureS := if dim ≠ 2 then "skip" else if imp.length * 10 ≤ N then s!"ok:{imp.length}" else s!"BAD:impure={imp.length}:of={N}"
    s!"centred={match bad with | none => "ok" | some d => s!"BAD:column={d.1}"} pure={pureS}"

def answer (line : String) : String :=
  let fs := fields line
  let topic := (line.splitOn " ").headD ""
  let nat (k : String) : Nat := (field? fs k >>= String.toNat?).getD 0
  let rats (k : String) : Option (Array Rat) := field? fs k >>= ratsA
  let nats (k : String) : Option (Array Nat) := field? fs k >>= natsA
  let N := nat "N"
  let D := nat "D"
  match topic with
  | "sqd" => match rats "X" with
    | some x => doSqd N D x (rats "o.DD")
    | none => "bad-case"
  | "zm" => match rats "X" with
    | some x => doZm N D x (rats "o.X")
    | none => "bad-case"
  | "gpd" => match rats "X", field? fs "perp" >>= parseRat with
    | some x, some perp => doGpd N D x perp (rats "o.P")
    | _, _ => "bad-case"
  | "gpk" => match rats "X", field? fs "perp" >>= parseRat with
    | some x, some perp => doGpk N D (nat "K") (if (field? fs "Kspec").isSome then nat "Kspec" else nat "K") x perp (nats "o.col") (rats "o.val")
    | _, _ => "bad-case"
  | "sym" => match nats "row", field? fs "col", field? fs "val" with
    | some r, some cS, some vS =>
      match natsA cS, ratsA vS with
      | some c, some v => doSym N r c v (field? fs "o.row").isSome (nats "o.row") (nats "o.col") (rats "o.val")
      | _, _ => "bad-case"
    | some r, none, none => doSym N r #[] #[] (field? fs "o.row").isSome (nats "o.row") (nats "o.col") (rats "o.val")
    | _, _, _ => "bad-case"
  | "vps" => match rats "X" with
    | some x => doVps N D (nat "k") x ((nats "rnd").getD #[]) (((field? fs "q") >>= (parseNats · ",")).getD []) (nats "o.items") (field? fs "o.tree") (field? fs "o.r")
    | none => "bad-case"
  | "exg" => match rats "P", rats "Y" with
    | some p, some y => doExg N D p y (rats "o.dC") (nat "fd" = 1)
    | _, _ => "bad-case"
  | "bhg" => match nats "row", rats "Y", field? fs "theta" >>= parseRat with
    | some r, some y, some θ => doBhg N D r ((nats "col").getD #[]) ((rats "val").getD #[]) y θ (rats "o.dC")
    | _, _, _ => "bad-case"
  | "run" => match rats "X", rats "g", field? fs "perp" >>= parseRat, field? fs "theta" >>= parseRat with
    | some x, some g, some perp, some θ => doRun N D (nat "dim") x g perp θ (field? fs "o.snaps") (field? fs "o.traj")
    | _, _, _, _ => "bad-case"
  | "api" => doApi N (nat "dim") ((nats "labels").getD #[]) (rats "o.Y")
  | _ => "bad-topic"

def main : IO Unit := runLines answer
