import Driver.Common0810
import TapkeeVerif.Model.LocallyLinear
/-! Running the locally-linear models (LLE / LTSA / HLLE weight matrices) on oracle values, with their contract
    checks; shared by the C08 and C10 drivers. -/
open TapkeeVerif TapkeeVerif.Util TapkeeVerif.Cert TapkeeVerif.LocallyLinear

/-- smallest `‖c'‖² / ‖c‖²` met by the Gram–Schmidt loop (conditioning of the HLLE basis) -/
def gsMinRatio {k : Nat} (cols : List (DVec k Fix)) : Fix := Id.run do
  let mut done : List (DVec k Fix) := []
  let mut worst : Fix := 1
  for c in cols do
    let c' := done.foldl gsSub c
    let n0 := Mat.dot c.get c.get
    let n1 := Mat.dot c'.get c'.get
    let ratio := if n0.m = 0 then 0 else n1 / n0
    if ratio < worst then worst := ratio
    done := done ++ [gsOne Fix.sqrt done c]
  return worst

/-! ### oracle contracts -/

/-- `G w = 1` within `tolS` (row-wise backward-error form); also `|Σw|` not negligible -/
def lleContract {N : Nat} (κ : Mat N N Fix) (nb : Nb N) (tshift : Fix) (wraw : Array (Array Fix)) : Option String := Id.run do
  let k := nb.k
  for hi : i in [0:N] do
    let ii : Fin N := ⟨i, hi.2.1⟩
    let G := (lleSystemD κ ii (nb.f ii) tshift).get
    let w : Vec k Fix := vecOf (wraw[i]!) k
    -- all neighbours coincide with the sample (zero local Gram matrix, zero trace): the system has no solution
    if (List.finRange k).all (fun a => (List.finRange k).all fun b => (G a b).m == 0) then return some "SINGULAR"
    for a in List.finRange k do
      let mut s : Fix := 0
      let mut sa : Fix := 0
      for b in List.finRange k do
        s := s + G a b * w b
        sa := sa + fabs (G a b * w b)
      if !(fabs (s - 1) ≤ tolS * (1 + sa)) then
        return some s!"ldlt-solve-contract sample {i} row {a.1}"
    let sw := sumFin k w
    let swa := sumFin k fun a => fabs (w a)
    if !(tolPow 20 * swa ≤ fabs sw) then return some s!"weights-sum-near-zero sample {i}"
  return none

inductive EigC where
  | ok
  | degenerate (i : Nat)
  | bad (msg : String)

/-- `U_i` = orthonormal eigenvectors of the model's centred local Gram matrix for its `d` largest eigenvalues -/
def eigContract {N : Nat} (κ : Mat N N Fix) (nb : Nb N) (d : Nat) (rsk : Fix)
    (U : Array (Array (Array Fix))) (ev : Array (Array Fix)) : EigC := Id.run do
  let k := nb.k
  if d > k then return .bad "d>k"
  if !(fabs (rsk * rsk * (k : Fix) - 1) ≤ tolPow 40) then return .bad "rsk-contract"
  for hi : i in [0:N] do
    let ii : Fin N := ⟨i, hi.2.1⟩
    let C := (localCenteredD κ (nb.f ii)).data
    let Ui := U[i]!
    let evi := ev[i]!
    if !(rect Ui k d) || evi.size ≠ k then return .bad s!"oracle-shape sample {i}"
    let cs := maxRowSum C
    if cs.m = 0 then return .degenerate i
    -- orthonormality
    let Ut := transposeArr Ui k d
    let G := mulArr Ut Ui d k d
    if !((cmpArr 0 G (identArr d)).maxdev ≤ tolS) then return .bad s!"eigvec-orthonormality sample {i}"
    -- residual
    let CU := mulArr C Ui k k d
    for a in [0:k] do
      for c in [0:d] do
        let lam := evi[k - d + c]!
        if !(fabs ((CU[a]!)[c]! - lam * (Ui[a]!)[c]!) ≤ tolS * cs) then
          return .bad s!"eigvec-residual sample {i}"
    -- top-d: exactly d eigenvalues above the midpoint of the boundary gap
    if d < k && 0 < d then
      let hi_ := evi[k - d]!
      let lo_ := evi[k - d - 1]!
      if !(tolPow 12 * cs ≤ hi_ - lo_) then return .degenerate i
      let σ := (hi_ + lo_) / (2 : Nat)
      -- eigenvalues of C above σ = eigenvalues of −C below −σ: at most the returned count (sound direction)
      let negC := C.map fun r => r.map fun x => (0 : Fix) - x
      match (if k ≤ 12 then countBelow k negC none ((0 : Fix) - σ) (tolPow 16 * cs)
             else countBelowFast k negC ((0 : Fix) - σ) (tolPow 16 * cs)) with
      | none => return .bad s!"inertia-singular sample {i}"
      | some c => if c ≠ d then return .bad s!"eigvecs-not-top-d sample {i}: {c} eigenvalues above the gap"
  return .ok

/-- neighbour contract under the kernel distance `κ_ii − 2κ_ij + κ_jj` -/
def knnContract {N : Nat} (κ : Mat N N Fix) (nb : Nb N) : Option String :=
  knnContractBy (fun i j => κ i i - (2 : Nat) * κ i j + κ j j) nb

structure Common (N : Nat) where
  κ : Mat N N Fix
  κa : Array (Array Fix)

def parse3 (s : String) : Option (Array (Array Fix)) := parseRows parseFix s

def runModelLle {N : Nat} (hN : 0 < N) (fs : List (String × String)) (κ : Mat N N Fix) (nb : Nb N) (kexp : Int := 0) :
    E (Array (Array Fix) × Nat × Fix × Option String) := do
  let shift ← needFix fs "shift"
  let tshift ← needFix fs "tshift"
  -- κ is the kernel divided by 2^kexp: the solve of the (homogeneous) local system scales by 2^kexp, exactly
  let wraw ← needSamples fs "wraw" N (parseVecScaled kexp)
  if !(wraw.all (·.size == nb.k)) then throw "wraw shape"
  match lleContract κ nb tshift wraw with
  | some "SINGULAR" => throw "SKIP:singular-local-system (coincident samples)"
  | some e => throw ("CONTRACT:" ++ e)
  | none => pure ()
  let w : Fin N → Vec nb.k Fix := fun i => vecOf (wraw[i.1]!) nb.k
  let M := lleMD nb.f w shift
  let ts := lleTriplets nb.f w shift
  pure (M.data, distinctPositions ts, tripletScale ts, none)

/-- the Hessian-estimator basis of the PROPERTY, written by hand — no generated index expression enters:
    `[1 | u_1 … u_d | u_a ∘ u_b for 1 ≤ a ≤ b ≤ d]` (the span, hence `H Hᵀ`, does not depend on the order of the products) -/
def hlleRefCols {k d : Nat} (U : Mat k d Fix) : List (DVec k Fix) :=
  ((DVec.ofFn fun _ => (1 : Fix)) :: (List.finRange d).map fun c => DVec.ofFn fun a => U a c)
    ++ (List.finRange d).flatMap fun a =>
        ((List.finRange d).filter fun b => decide (a ≤ b)).map fun b => DVec.ofFn fun r => U r a * U r b

/-- reference local Hessian projector: Gram–Schmidt of the hand-written basis, column-sum step, last d(d+1)/2 columns -/
def hlleRefProjD {k d : Nat} (thr : Fix) (U : Mat k d Fix) : DMat k k Fix :=
  let q := gramSchmidt Fix.sqrt [] (hlleRefCols U)
  let H := (q.drop (1 + d)).map (colsumNorm thr)
  DMat.ofFn fun a b => (H.map fun h => h.get a * h.get b).sum

/-- `(M, stored entries, summand scale, note)`: for HLLE `M` is the REFERENCE matrix (hand-written basis); `note` is set
    when the model built from the generated index expressions differs from it (the generated expressions do not describe
    the property's estimator: the tie through `Gen/HlleIndex.lean` is broken) -/
def runModelEig {N : Nat} (hN : 0 < N) (fs : List (String × String)) (κ : Mat N N Fix) (nb : Nb N) (hlle : Bool)
    (kexp : Int := 0) :
    E (Array (Array Fix) × Nat × Fix × Option String) := do
  let d ← needNat fs "d"
  if hlle then
    match hlleIndexErr d with
    | some (.oob c cols) => throw s!"MODEL-ERR:oob:col={c}:cols={cols}"
    | some (.uninit c) => throw s!"MODEL-ERR:uninit:col={c}"
    | some (.clobber c) => throw s!"MODEL-ERR:clobber:col={c}"
    | none => pure ()
  let rsk ← needFix fs "rsk"
  let U ← needSamples fs "U" N parse3
  -- κ is the kernel divided by 2^kexp: local eigenvalues scale by 2^-kexp (eigenvectors, rsk, M do not)
  let ev ← needSamples fs "ev" N (parseVecScaled (-kexp))
  match eigContract κ nb d rsk U ev with
  | .bad e => throw ("CONTRACT:" ++ e)
  | .degenerate i => throw s!"SKIP:degenerate-local-spectrum sample {i}"
  | .ok => pure ()
  let Uf : Fin N → Mat nb.k d Fix := fun i => matOf (U[i.1]!) nb.k d
  if hlle then
    if nb.k < hlleCols d then throw s!"SKIP:k<{hlleCols d} (below the method's minimum)"
    let thr : Fix := (1 : Fix) / (10000 : Nat)
    -- conditioning is judged on the hand-written basis (independent of the generated indices)
    for i in List.finRange N do
      if gsMinRatio (hlleRefCols (Uf i)) < tolPow 32 then
        throw s!"SKIP:ill-conditioned-hessian-basis sample {i.1}"
    let tsRef : List (Triplet N N Fix) := overFin N fun i => hlleTripletsAt (nb.f i) (hlleRefProjD thr (Uf i)).get
    let Mref := fromTripletsD tsRef
    let sc := tripletScale tsRef
    match hlleMD nb.f Fix.sqrt thr Uf with
    | .error _ => throw "MODEL-ERR:index"
    | .ok M =>
      let cg := cmpArr (tolPow 40) M.data Mref.data sc
      let note := if cg.ok then none else some s!"generated-index-model-differs-from-reference dev={relDev cg} at=({cg.at_.1},{cg.at_.2})"
      pure (Mref.data, distinctPositions tsRef, sc, note)
  else
    let shift ← needFix fs "shift"
    let M := ltsaMD nb.f rsk Uf shift
    let ts := ltsaTriplets nb.f rsk Uf shift
    pure (M.data, distinctPositions ts, tripletScale ts, none)

