import TapkeeVerif.Model.Util
import TapkeeVerif.Model.DMat
import TapkeeVerif.Model.Triplets
import TapkeeVerif.Model.CertGen
/-! Shared plumbing of the C08 / C09 / C10 drivers: field access, neighbour lists, tolerances. -/
open TapkeeVerif TapkeeVerif.Util TapkeeVerif.Cert

abbrev E := Except String

def need (fs : List (String × String)) (k : String) : E String :=
  match field? fs k with
  | some v => pure v
  | none => throw s!"missing field {k}"

def needNat (fs : List (String × String)) (k : String) : E Nat := do
  match (← need fs k).toNat? with
  | some v => pure v
  | none => throw s!"bad nat {k}"

def needFix (fs : List (String × String)) (k : String) : E Fix := do
  match parseFix (← need fs k) with
  | some v => pure v
  | none => throw s!"bad number {k}"

def needMat (fs : List (String × String)) (k : String) (n m : Nat) : E (Array (Array Fix)) := do
  match parseRows parseFix (← need fs k) with
  | some a => if rect a n m then pure a else throw s!"matrix {k} is not {n}x{m} (rows {a.size})"
  | none => throw s!"bad matrix {k}"

/-! ### inputs of the model: no silent precision loss

`Fix` has the ABSOLUTE resolution 2⁻¹⁹²; the contract / comparison tolerances are RELATIVE (2⁻³⁰ of the largest
magnitude).  Callback matrices whose result is scale invariant (`kern`) are therefore normalised by an exact power of two
so that the largest magnitude is ≈ 1 before they become `Fix` values (`needMatNorm`, the dependent oracle values are
mapped along exactly), an entry that would lose bits below 2⁻¹⁹² is refused (`SKIP:precision`, counted), and the inputs that
are not normalised are refused when their magnitude leaves fewer than 96 bits above the resolution (`needInput`). -/

/-- a double as `(m, e)` = `m·2^e` (`m:e` or a plain integer) -/
def parseDy (s : String) : Option (Int × Int) :=
  match s.splitOn ":" with
  | [m, e] =>
    match m.toInt?, e.toInt? with
    | some m, some e => some (m, e)
    | _, _ => none
  | [a] => a.toInt?.map fun m => (m, 0)
  | _ => none

/-- `m·2^(e+sh)` exactly; `none` when bits would fall below 2⁻¹⁹² -/
def dyToFixExact (sh : Int) (d : Int × Int) : Option Fix :=
  let t := d.2 + sh + (Fix.S : Int)
  if 0 ≤ t then some ⟨d.1 * pow2 t.toNat⟩
  else
    let k := (-t).toNat
    if d.1 % pow2 k = 0 then some ⟨d.1 >>> k⟩ else none

/-- `m·2^(e+sh)` floored at 2⁻¹⁹² (oracle values, implementation outputs) -/
def dyToFixFloor (sh : Int) (d : Int × Int) : Fix :=
  let t := d.2 + sh + (Fix.S : Int)
  if 0 ≤ t then ⟨d.1 * pow2 t.toNat⟩ else ⟨d.1 >>> (-t).toNat⟩

/-- smallest `c` with `|m·2^e| < 2^c` (0 for the value 0) -/
def dyMagnitude (d : Int × Int) : Option Int :=
  if d.1 = 0 then none else some ((Nat.log2 d.1.natAbs : Int) + 1 + d.2)

/-- a scale-invariant callback matrix, divided by the exact power of two `2^c` that brings its largest magnitude into
    `[1/2, 1)`; returns the normalised matrix and `c` -/
def needMatNorm (fs : List (String × String)) (k : String) (n m : Nat) : E (Array (Array Fix) × Int) := do
  match parseRows parseDy (← need fs k) with
  | none => throw s!"bad matrix {k}"
  | some a =>
    if !(rect a n m) then throw s!"matrix {k} is not {n}x{m} (rows {a.size})"
    let c : Int := a.foldl (fun acc r => r.foldl (fun acc d => match dyMagnitude d with
      | some g => if acc.isNone || acc.getD 0 < g then some g else acc
      | none => acc) acc) (none : Option Int) |>.getD 0
    let mut out : Array (Array Fix) := #[]
    for r in a do
      let mut row : Array Fix := #[]
      for d in r do
        match dyToFixExact (-c) d with
        | some x => row := row.push x
        | none => throw s!"SKIP:precision (an entry of {k} has bits below 2^-192 after normalisation by 2^{c})"
      out := out.push row
    pure (out, c)

/-- an oracle vector that scales with `2^sh` relative to the normalised callback matrix (floored) -/
def parseVecScaled (sh : Int) (s : String) : Option (Array Fix) :=
  if s == "-" then some #[] else
  (allSome ((splitNonEmpty s ",").map parseDy)).map fun l => (l.map (dyToFixFloor sh)).toArray

/-- an input that is NOT normalised: refused when its magnitude leaves fewer than 96 bits above the resolution -/
def needInput (fs : List (String × String)) (k : String) (n m : Nat) : E (Array (Array Fix)) := do
  let a ← needMat fs k n m
  let mx := maxAbsArr a
  if mx.m ≠ 0 && mx < tolPow 96 then
    throw s!"SKIP:precision (input {k} has magnitude below 2^-96: fewer than 96 significant bits at the model's resolution)"
  pure a

/-- per-sample objects separated by `|` -/
def needSamples {α} (fs : List (String × String)) (k : String) (n : Nat) (p : String → Option α) : E (Array α) := do
  let parts := (← need fs k).splitOn "|"
  if parts.length ≠ n then throw s!"{k}: expected {n} samples, got {parts.length}"
  match allSome (parts.map p) with
  | some l => pure l.toArray
  | none => throw s!"bad sample list {k}"

def mkFin (N : Nat) (h : 0 < N) (v : Nat) : Fin N := ⟨v % N, Nat.mod_lt _ h⟩

structure Nb (N : Nat) where
  k : Nat
  f : Fin N → Fin k → Fin N
  raw : Array (Array Nat)

def needNb (fs : List (String × String)) (key : String) (N : Nat) (hN : 0 < N) : E (Nb N) := do
  match parseRows String.toNat? (← need fs key) with
  | none => throw s!"bad neighbour lists {key}"
  | some a =>
    if a.size ≠ N then throw s!"{key}: {a.size} lists for {N} samples"
    let k := (a[0]!).size
    if !(a.all (·.size == k)) then throw "nonuniform"
    if !(a.all (·.all (· < N))) then throw "neighbour-index-out-of-range"
    pure { k := k, f := fun i c => mkFin N hN ((a[i.1]!)[c.1]!), raw := a }

def tolM : Fix := tolPow 30      -- matrices, model vs implementation
def tolS : Fix := tolPow 30      -- oracle contracts (residuals)
def tolY : Fix := tolPow 26      -- orthonormality / residual of the returned embedding
def tolC : Fix := tolPow 18      -- centring of the returned embedding (conditioned by the gap to the trivial eigenvalue)

/-- distinct positions among the triplets = `nonZeros()` of the assembled sparse matrix -/
def distinctPositions {N : Nat} (ts : List (Triplet N N Fix)) : Nat := Id.run do
  let mut seen : Array Bool := Array.replicate (N * N) false
  let mut c := 0
  for t in ts do
    let p := t.1.1 * N + t.2.1.1
    if !(seen[p]!) then
      seen := seen.set! p true
      c := c + 1
  return c

/-- magnitude of the summands: the largest entry of the matrix assembled from `|value|` (cancellation-aware scale) -/
def tripletScale {N : Nat} (ts : List (Triplet N N Fix)) : Fix :=
  maxAbsArr (fromTripletsD (ts.map fun t => (t.1, t.2.1, fabs t.2.2))).data


def describe (c : Cmp) : String :=
  s!"dev={relDev c} at=({c.at_.1},{c.at_.2})"

def certLine (c : CertOut) : String :=
  s!"orth={c.orth} resid={c.resid} centre={c.centre} count={c.count} inertia={c.inertia}"

/-- every list is a set of `k'` nearest others for the squared distance `d2` (exact comparison, 2⁻⁴⁰ relative slack
    because the implementation orders double-rounded values) -/
def knnContractBy {N : Nat} (d2 : Fin N → Fin N → Fix) (nb : Nb N) : Option String := Id.run do
  for hi : i in [0:N] do
    let ii : Fin N := ⟨i, hi.2.1⟩
    let lst := nb.raw[i]!
    if lst.contains i then return some s!"self-neighbour sample {i}"
    if lst.toList.eraseDups.length ≠ lst.size then return some s!"duplicate-neighbour sample {i}"
    let mut worstIn : Fix := 0
    for c in List.finRange nb.k do
      worstIn := fmax worstIn (d2 ii (nb.f ii c))
    for j in List.finRange N do
      if j.1 ≠ i && !(lst.contains j.1) then
        if d2 ii j + tolPow 40 * fabs (d2 ii j) < worstIn then return some s!"not-k-nearest sample {i}: {j.1} is closer"
  return none

def showArr (a : Array (Array Fix)) : String :=
  String.intercalate ";" (a.toList.map fun r => String.intercalate "," (r.toList.map showFix))
