import TapkeeVerif.Model.Util
import TapkeeVerif.Model.Mat
import TapkeeVerif.Model.DMat
import TapkeeVerif.Model.Spe
import TapkeeVerif.Gen.SpeVariant
import TapkeeVerif.Model.RandProj
import TapkeeVerif.Model.Fa
import TapkeeVerif.Model.RandomHpp
/-! Line-protocol driver for the C19 models (SPE, Random Projection, Factor Analysis) at `K := Rat`.

    spe   N= d= g= nup= T= tol= mode=idx|full [nb=] dm= [y0=] [unif=] perms= [yobs=]
          -> iters= nup= k= permsok= pairs=a-b,.. nu= [ycmp=eq|approx|far e2=..]   |  ERR:oob | ERR:divzero
    spedef N= g= T= nup=      -> iters= nup=
    rp    N= D= d= pts= gauss= Pobs= meanobs= yobs=     -> pcmp= mcmp= ycmp=   (model from the Gaussian stream)
    rpobs N= D= d= pts= Pobs= yobs=                     -> ycmp=               (centred samples × observed matrix)
    fa    N= D= d= T= eps= pts= a0= yobs= em=0|1        -> ycmp= span= colmean=
    The sqrt oracle of the driver is `sqrtR` (floor of the square root at 2^-100 resolution): exact on squares of
    dyadics, within 2^-100 otherwise.  Comparisons: `eq` (all entries equal as rationals), `approx`
    (max |impl − model| ≤ 2^-30 · max(1, max|impl|)), `far` otherwise; `e2` = ⌈log2 of the relative error⌉. -/
open TapkeeVerif TapkeeVerif.Util

def sqrtBits : Nat := 100

/-- `⌊√x · 2^100⌋ / 2^100` (0 for x ≤ 0) -/
def sqrtR (x : Rat) : Rat :=
  if x ≤ 0 then 0 else
    let p : Nat := 2 ^ sqrtBits
    let n : Nat := x.num.toNat * p * p / x.den
    ((Nat.sqrt n : Nat) : Rat) / (p : Rat)

def ratAbs (x : Rat) : Rat := if x < 0 then -x else x

def parseMatrix (s : String) : Option (List (List Rat)) :=
  allSome ((splitNonEmpty s ";").map fun row => parseRats row)

def parseNatRows (s : String) : Option (List (List Nat)) :=
  allSome ((s.splitOn ";").map fun row => parseNats row)

/-- ⌈log2 x⌉ for x > 0 (crude, for reporting) -/
def log2Ceil (x : Rat) : Int :=
  if x ≤ 0 then -9999 else
    let rec up (fuel : Nat) (e : Int) : Int :=
      match fuel with
      | 0 => e
      | fuel + 1 => if (2 : Rat) ^ e < x then up fuel (e + 1) else e
    let rec down (fuel : Nat) (e : Int) : Int :=
      match fuel with
      | 0 => e
      | fuel + 1 => if x ≤ (2 : Rat) ^ (e - 1) then down fuel (e - 1) else e
    down 4000 (up 4000 0)

/-- entrywise comparison of two matrices given as row lists -/
def cmpRows (impl model : List (List Rat)) : String :=
  if impl.length ≠ model.length ∨ (impl.zip model).any (fun (a, b) => a.length ≠ b.length) then "shape" else
    let fi := impl.flatten
    let fm := model.flatten
    if fi == fm then "eq" else
      let scale := fi.foldl (fun m x => if m < ratAbs x then ratAbs x else m) 1
      let err := (fi.zip fm).foldl (fun m (a, b) => if m < ratAbs (a - b) then ratAbs (a - b) else m) 0
      let rel := err / scale
      if rel ≤ (2 : Rat) ^ (-30 : Int) then s!"approx:{log2Ceil rel}" else s!"far:{log2Ceil rel}"

def showPairs (ps : List (Nat × Nat)) : String :=
  String.intercalate "," (ps.map fun (a, b) => s!"{a}-{b}")

def isPermOfRange (N : Nat) (π : List Nat) : Bool :=
  π.length == N && (List.range N).all fun i => π.contains i

/-- `floor(0.04 * N * N)` in IEEE double arithmetic, evaluated left to right as in the C++ source -/
def fl004 (N : Nat) : Nat :=
  (Float.floor ((0.04 : Float) * N.toFloat * N.toFloat)).toUInt64.toNat

def errName : Spe.Err → String
  | .oob => "ERR:oob"
  | .divzero => "ERR:divzero"

def answerSpeDef (fs : List (String × String)) : String :=
  match field? fs "N" >>= String.toNat?, field? fs "g" >>= String.toNat?, field? fs "T" >>= String.toNat?,
        field? fs "nup" >>= String.toNat? with
  | some N, some g, some T, some nup =>
    s!"iters={Spe.maxIter N T (g != 0) (fl004 N)} nup={Spe.clampUpdates N nup} flok={if Spe.defaultItersContract N (fl004 N) then 1 else 0}"
  | _, _, _, _ => "bad-case"

def answerSpe (fs : List (String × String)) : String :=
  let nat (k : String) := field? fs k >>= String.toNat?
  match nat "N", nat "d", nat "g", nat "nup", nat "T", field? fs "tol" >>= parseRat,
        field? fs "dm" >>= parseRats with
  | some N, some d, some g, some nup, some T, some tol, some dm =>
    let global := g != 0
    let nbO : Option (List (List Nat)) := if global then some [] else (field? fs "nb" >>= parseNatRows)
    let permsO : Option (List (List Nat)) :=
      match field? fs "perms" with
      | none => some []
      | some "" => some []
      | some s => parseNatRows s
    let unifO := match field? fs "unif" with
      | none => some []
      | some s => parseRats s
    let full := field? fs "mode" == some "full"
    let y0O : Option (List (List Rat)) := if full then (field? fs "y0" >>= parseMatrix) else some []
    match nbO, permsO, unifO, y0O with
    | some nb, some perms, some unif, some y0 =>
      let dmA := dm.toArray
      let permsA := perms.toArray
      let unifA := unif.toArray
      let y0A : Array (Array Rat) :=
        if full then (y0.map List.toArray).toArray else Array.replicate N (Array.replicate d 0)
      let inp : Spe.Input Rat :=
        { N := N, d := d, inPlace := Gen.spePartnersInPlace, zeroGuard := Gen.speAlphaZeroGuard, global := global, nb := nb, nupReq := nup, maxIterReq := T, tol := tol,
          dist := fun a b => dmA.getD (a * N + b) 0,
          y0 := y0A, shuffle := fun t => permsA.getD t [], unif := fun c => unifA.getD c 0,
          sqrtO := if full then sqrtR else fun _ => 0, floorO := Rat.floor, fl004 := fl004 N }
      let iters := Spe.maxIter N T global (fl004 N)
      let nupc := Spe.clampUpdates N nup
      let permsok := (perms.take iters).all (isPermOfRange N) && iters ≤ perms.length
      let kS := match Spe.kOf global nb with | .ok k => toString k | .error _ => "oob"
      let head := s!"iters={iters} nup={nupc} k={kS} permsok={if permsok then 1 else 0}"
      -- in idx mode the coordinates are irrelevant: distances 0 in the global strategy would be a divzero, so
      -- the index trajectory is produced by `indicesAt`-style iteration with a dummy positive alpha
      if full then
        match Spe.run inp with
        | .error e => head ++ " " ++ errName e
        | .ok st =>
          let pairs := showPairs st.trace.reverse.flatten
          let ymod : List (List Rat) := st.Y.toList.map Array.toList
          let ycmp := match field? fs "yobs" >>= parseMatrix with
            | some yobs => " ycmp=" ++ cmpRows yobs ymod
            | none => ""
          head ++ s!" pairs={pairs} nu={st.draws}" ++ ycmp
      else
        match Spe.kOf global nb with
        | .error e => head ++ " " ++ errName e
        | .ok k =>
          let fv := Spe.floorPick inp k
          let rec go (fuel t : Nat) (idx : List Nat) (acc : List (List (Nat × Nat))) : Except Spe.Err (List (List (Nat × Nat))) :=
            match fuel with
            | 0 => .ok acc
            | fuel + 1 =>
              match Spe.stepPairs Gen.spePartnersInPlace global nb k nupc (inp.shuffle t) fv
                      (t * Spe.drawsPerIter global nupc) idx with
              | .error e => .error e
              | .ok (idx', ps) => go fuel (t + 1) idx' (ps :: acc)
          match go iters 0 (List.range N) [] with
          | .error e => head ++ " " ++ errName e
          | .ok tr =>
            head ++ s!" pairs={showPairs tr.reverse.flatten} nu={iters * Spe.drawsPerIter global nupc}"
    | _, _, _, _ => "bad-streams"
  | _, _, _, _, _, _, _ => "bad-case"

/-! ### Random Projection -/

def dmatOfRows (n m : Nat) (rows : List (List Rat)) : DMat n m Rat := ⟨(rows.map List.toArray).toArray⟩

def rowsOf {n m : Nat} (A : Mat n m Rat) : List (List Rat) := Mat.toLists A

def answerRp (fs : List (String × String)) (fromStream : Bool) : String :=
  let nat (k : String) := field? fs k >>= String.toNat?
  match nat "N", nat "D", nat "d", field? fs "pts" >>= parseMatrix, field? fs "yobs" >>= parseMatrix,
        field? fs "Pobs" >>= parseMatrix with
  | some N, some D, some d, some pts, some yobs, some pobs =>
    let Xd : DMat N D Rat := dmatOfRows N D pts
    let X : Mat N D Rat := Xd.get
    if fromStream then
      match field? fs "gauss" >>= parseRats, field? fs "meanobs" >>= parseRats with
      | some g, some meanobs =>
        let gA := g.toArray
        let gauss : Nat → Rat := fun c => gA.getD c 0
        let sq := sqrtR (D : Rat)
        let P : DMat D d Rat := DMat.ofFn (RandProj.gaussianMatrix D d gauss sq)
        let mu : DVec D Rat := DVec.ofFn (RandProj.mean X)
        let Y : DMat N d Rat := DMat.ofFn (RandProj.embed gauss sq X)
        s!"pcmp={cmpRows pobs P.toLists} mcmp={cmpRows [meanobs] [Vec.toList mu.get]} ycmp={cmpRows yobs Y.toLists} ng={D * d}"
      | _, _ => "bad-case"
    else
      let P : DMat D d Rat := dmatOfRows D d pobs
      let mu : DVec D Rat := DVec.ofFn (RandProj.mean X)
      let Y : DMat N d Rat := DMat.ofFn (RandProj.project P.get mu.get X)
      s!"ycmp={cmpRows yobs Y.toLists}"
  | _, _, _, _, _, _ => "bad-case"

/-! ### Factor Analysis -/

/-- Gauss–Jordan inverse over `Rat`; `none` if singular -/
def invRows (n : Nat) (rows : List (List Rat)) : Option (Array (Array Rat)) := Id.run do
  let mut a : Array (Array Rat) := (rows.map List.toArray).toArray
  -- augment with the identity
  a := a.mapIdx fun i r => r ++ (Array.ofFn (n := n) fun j => if j.1 = i then (1 : Rat) else 0)
  for c in [0:n] do
    -- pivot search
    let mut p := n
    for r in [c:n] do
      if p = n ∧ (a.getD r #[]).getD c 0 ≠ 0 then p := r
    if p = n then return none
    let rp := a.getD p #[]
    let rc := a.getD c #[]
    a := (a.set! p rc).set! c rp
    let piv := rp.getD c 1
    let prow := rp.map (· / piv)
    a := a.set! c prow
    for r in [0:n] do
      if r ≠ c then
        let row := a.getD r #[]
        let f := row.getD c 0
        if f ≠ 0 then
          a := a.set! r (row.mapIdx fun j x => x - f * prow.getD j 0)
  return some (a.map fun r => r.extract n (2 * n))

def invD (n : Nat) (A : DMat n n Rat) : DMat n n Rat :=
  match invRows n A.toLists with
  | some a => ⟨a⟩
  | none => ⟨#[]⟩

def isInvertible (n : Nat) (A : DMat n n Rat) : Bool := (invRows n A.toLists).isSome

def answerFa (fs : List (String × String)) : String :=
  let nat (k : String) := field? fs k >>= String.toNat?
  match nat "N", nat "D", nat "d", nat "T", field? fs "eps" >>= parseRat, field? fs "pts" >>= parseMatrix,
        field? fs "yobs" >>= parseMatrix, field? fs "a0" >>= parseMatrix with
  | some N, some D, some d, some T, some eps, some pts, some yobs, some a0 =>
    let Xd : DMat N D Rat := dmatOfRows N D pts
    let X : Mat N D Rat := Xd.get
    let Xc : DMat N D Rat := DMat.ofFn (RandProj.centre X)
    let A0 : DMat D d Rat := dmatOfRows D d a0
    let runEm := field? fs "em" == some "1"
    -- (1) model value (T = 0: exact algebra; T > 0, eps = 0, em=1: the transcribed EM step with exact inverses)
    let ycmp :=
      if T = 0 ∨ runEm then
        let em := fun (Xc : DMat N D Rat) => Fa.emStep (invD D) (invD d) (fun _ => false) eps Xc
        let Y : DMat N d Rat := Fa.embedWith em A0 T X
        cmpRows yobs Y.toLists
      else "skip"
    -- (2) the output is (centred samples) × (some D × d matrix): least squares through the normal equations
    let G : DMat D D Rat := DMat.ofFn (Mat.mul (Mat.transpose Xc.get) Xc.get)
    let Yo : DMat N d Rat := dmatOfRows N d yobs
    let span :=
      if isInvertible D G then
        let XtY : DMat D d Rat := DMat.ofFn (Mat.mul (Mat.transpose Xc.get) Yo.get)
        let A : DMat D d Rat := DMat.ofFn (Mat.mul (invD D G).get XtY.get)
        cmpRows yobs (DMat.ofFn (Mat.mul Xc.get A.get)).toLists
      else "skip"
    -- (3) column means of the output vanish (the samples were centred)
    let cm : List Rat := (List.finRange d).map fun j => (sumFin N fun i => Yo.get i j) / (N : Rat)
    let colmean := cmpRows (yobs ++ [cm]) (yobs ++ [cm.map fun _ => 0])
    s!"ycmp={ycmp} span={span} colmean={colmean}"
  | _, _, _, _, _, _, _, _ => "bad-case"

/-! ### defines/random.hpp -/

/-- `grand n= used=<rand() values the implementation consumed> calls= rad= L= S= gobs=`:
    the polar method on the same stream — draws consumed per variate, accepted radius, returned value from the
    implementation's own log/sqrt values (checked against the oracle contracts) -/
def answerGrand (fs : List (String × String)) : String :=
  match field? fs "n" >>= String.toNat?, field? fs "used" >>= parseNats, field? fs "calls" >>= parseNats,
        field? fs "rad" >>= parseRats, field? fs "L" >>= parseRats, field? fs "S" >>= parseRats,
        field? fs "gobs" >>= parseRats with
  | some n, some used, some calls, some rad, some L, some S, some gobs =>
    let usedA := used.toArray
    let rand : Nat → Nat := fun c => usedA.getD c 0
    let rec go (todo i c : Nat) (acc : List String) : List String :=
      match todo with
      | 0 => acc.reverse
      | todo + 1 =>
        let l := (L.toArray).getD i 0
        let sq := (S.toArray).getD i 0
        match RandomHpp.polarLoop (K := Rat) rand (usedA.size + 2) c with
        | none => (s!"v{i}:model-does-not-return" :: acc).reverse
        | some (_x, radius, c') =>
          if c' > usedA.size then (s!"v{i}:model-needs-more-draws" :: acc).reverse else
          let callsOk := (calls.toArray).getD i 0 == c'
          let rcmp := cmpRows [[(rad.toArray).getD i 0]] [[radius]]
          let value := (RandomHpp.gaussianRandom (K := Rat) rand (fun _ => sq) (fun _ => l) (usedA.size + 2) c).map (·.1)
          let vcmp := match value with
            | some v => cmpRows [[(gobs.toArray).getD i 0]] [[v]]
            | none => "none"
          -- oracle contracts on the implementation's values: log negative on (0,1), sqrt >= 0 with s*s = argument
          let arg := -2 * l / radius
          let contract := decide (l < 0) && decide (0 ≤ sq) &&
            decide (ratAbs (sq * sq - arg) ≤ (2 : Rat) ^ (-40 : Int) * (if arg < 1 then 1 else arg))
          let okAll := callsOk && (rcmp == "eq" || rcmp.startsWith "approx") && (vcmp == "eq" || vcmp.startsWith "approx")
            && contract
          if okAll then go todo (i + 1) c' acc
          else go todo (i + 1) c'
            (s!"v{i}:calls={if callsOk then "ok" else s!"model{c'}"},radius={rcmp},value={vcmp},contract={contract}" :: acc)
    let bad := go n 0 0 []
    if bad.isEmpty then s!"ok n={n}" else "DIFF " ++ String.intercalate " " (bad.take 4)
  | _, _, _, _, _, _, _ => "bad-case"

def answerUrand (fs : List (String × String)) (index : Bool) : String :=
  match field? fs "used" >>= parseNats with
  | some used =>
    if index then
      match field? fs "upper" >>= String.toNat?, field? fs "uobs" >>= parseNats with
      | some upper, some uobs =>
        if used.map (RandomHpp.uniformIndexBounded · upper) == uobs then "ok" else "DIFF"
      | _, _ => "bad-case"
    else
      match field? fs "uobs" >>= parseRats with
      | some uobs =>
        let m : List Rat := used.map (RandomHpp.uniformRandom (K := Rat))
        if m == uobs then (if m.all (fun u => decide (0 ≤ u) && decide (u < 1)) then "ok" else "RANGE") else "DIFF"
      | none => "bad-case"
  | none => "bad-case"

def answer (line : String) : String :=
  let fs := fields line
  if line.startsWith "spedef " then answerSpeDef fs
  else if line.startsWith "spe " then answerSpe fs
  else if line.startsWith "rp " then answerRp fs true
  else if line.startsWith "rpobs " then answerRp fs false
  else if line.startsWith "fa " then answerFa fs
  else if line.startsWith "grand " then answerGrand fs
  else if line.startsWith "urand " then answerUrand fs false
  else if line.startsWith "uidx " then answerUrand fs true
  else "bad-op"

def main : IO Unit := runLines answer
