import TapkeeVerif.Model.Util
import TapkeeVerif.Model.Params
/-! Line-protocol driver for the front-end model (DESIGN §11, property C14).
    in : `front N=10 [D=10] cbs=kd stop=1 kw=method:meth:Isomap,num_neighbors:int:3,landmark_ratio:real:3/10`
         (value forms: int:<i> real:<dyadic|a/b|i> bool:0|1 meth:<ident> nbrs:<ident> eig:<ident> strat:<ident>
          cancel:null|true|false progress:null|fn other:<tag> default:-)
    out: `throw tapkee::wrong_parameter_error k=0 d=0 f=0 | echo=<ident>=<value>;…`   (`ok …`, `reached distance …`) -/
open TapkeeVerif TapkeeVerif.Util TapkeeVerif.Front TapkeeVerif.Gen TapkeeVerif.Params

def findBy {α} (all : List α) (ident : α → String) (s : String) : Option α := all.find? (fun a => ident a == s)

def parseVal (kw : Kw) (ty v : String) : Option Val :=
  match ty with
  | "int" => v.toInt?.map Val.int
  | "real" => if v == "nan" then some (.real .nan) else if v == "inf" then some (.real .posInf)
              else if v == "-inf" then some (.real .negInf) else (parseRat v).map (fun q => Val.real (.fin q))
  | "bool" => if v == "1" then some (.bool true) else if v == "0" then some (.bool false) else none
  | "meth" => (findBy Meth.all Meth.ident v).map Val.method
  | "nbrs" => (findBy NbrMeth.all NbrMeth.ident v).map Val.neighbors
  | "eig" => (findBy EigMeth.all EigMeth.ident v).map Val.eigen
  | "strat" => (findBy Strat.all Strat.ident v).map Val.strategy
  | "cancel" => if v == "null" then some (.cancelFn none) else if v == "true" then some (.cancelFn (some true))
                else if v == "false" then some (.cancelFn (some false)) else none
  | "progress" => if v == "null" then some (.progressFn true) else if v == "fn" then some (.progressFn false) else none
  | "other" => some (.other v)
  | "default" => some kw.default
  | _ => none

def parseItem (s : String) : Option Param :=
  match s.splitOn ":" with
  | k :: ty :: rest =>
    match findBy Kw.all Kw.ident k with
    | none => none
    | some kw => (parseVal kw ty (String.intercalate ":" rest)).map fun v => ⟨kw, v⟩
  | _ => none

def showVal : Val → String
  | .int i => "int:" ++ toString i
  | .real (.fin q) => "real:" ++ showRat q
  | .real .nan => "real:nan"
  | .real .posInf => "real:inf"
  | .real .negInf => "real:-inf"
  | .bool b => if b then "bool:1" else "bool:0"
  | .method m => "name:" ++ m.ident
  | .neighbors m => "name:" ++ m.ident
  | .eigen m => "name:" ++ m.ident
  | .strategy s => "name:" ++ s.ident
  | .progressFn null => if null then "fn:0" else "fn:1"
  | .cancelFn c => if c.isNone then "fn:0" else "fn:1"
  | .other t => "other:" ++ t

def sign (n : Nat) : String := if n = 0 then "0" else "+"

def cbName : Cb → String
  | .kernel => "kernel" | .distance => "distance" | .features => "features"

def showResult (r : Request) : String :=
  let res := frontEnd r
  let head := match res.outcome with
    | .ok => "ok"
    | .reached cb => "reached " ++ cbName cb
    | .threw e => "throw " ++ e.str
  let echo := match echoOf r with
    | none => "-"
    | some l => String.intercalate ";" (l.map fun (kv : Kw × Val) => kv.1.ident ++ "=" ++ showVal kv.2)
  s!"{head} k={sign res.counts.kernel} d={sign res.counts.distance} f={sign res.counts.features} | echo={echo}"

def answer (line : String) : String :=
  let fs := fields line
  match field? fs "N" >>= String.toNat? with
  | none => "bad-case"
  | some n =>
    let cbs := (field? fs "cbs").getD ""
    let stop := (field? fs "stop").getD "0" == "1"
    let dim := ((field? fs "D") >>= String.toNat?).getD 10
    match allSome ((splitNonEmpty ((field? fs "kw").getD "") ",").map parseItem) with
    | none => "bad-kw"
    | some kws =>
      showResult { n := n, kws := kws, hasK := cbs.contains 'k', hasD := cbs.contains 'd', hasF := cbs.contains 'f', stop := stop, dim := dim }

def main : IO Unit := runLines answer
