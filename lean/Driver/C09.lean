import Driver.Common0810
import TapkeeVerif.Model.Laplacian
import TapkeeVerif.Model.Diffusion
/-! Line-protocol driver for C09 (Laplacian Eigenmaps, Diffusion Map).  Input line = case fields + the observation
    fields of harness/c09_lap.cpp; output = verdict line (`res=ok | SKIP | BROKEN | FAIL`, see Driver/C08.lean).
    The model runs at `K := Fix` with `heat := Fix.exp`, `sqrtO := Fix.sqrt`; the implementation's mirrored `exp`
    values are cross-checked against `Fix.exp` (2⁻³⁶ relative). -/
open TapkeeVerif TapkeeVerif.Util TapkeeVerif.Cert

def vecToCol (v : Array Fix) : Array (Array Fix) := v.map fun x => #[x]

def diagArr (v : Array Fix) : Array (Array Fix) :=
  Array.ofFn fun i : Fin v.size => Array.ofFn fun j : Fin v.size => if i.1 = j.1 then v[i.1]! else 0

/-- mirrored `exp` values against the model's: relative 2⁻³⁶ (+ 2⁻¹⁸⁰ absolute) -/
def heatContract (impl model : Array (Array Fix)) : Option String := Id.run do
  for i in [0:model.size] do
    for a in [0:(model[i]!).size] do
      let x := (impl[i]!)[a]!
      let y := (model[i]!)[a]!
      if !(fabs (x - y) ≤ tolPow 36 * fabs y + tolPow 180) then return some s!"exp-contract sample {i} neighbour {a}"
      if !(0 < x.m) then
        -- exp underflows to 0 in double below about e^-745 (and below 2^-192 in the driver): not a contract violation
        if y ≤ tolPow 150 then return some "UNDERFLOW"
        return some s!"exp-not-positive sample {i} neighbour {a}"
  return none

def rabs (q : Rat) : Rat := if q < 0 then -q else q

/-- per-column comparison in exact rational arithmetic: `|impl − model| ≤ 2⁻³⁰ · max|column|` -/
def cmpColsRat (impl model : Array (Array Rat)) (n d : Nat) : Option String := Id.run do
  for c in [0:d] do
    let mut sc : Rat := 0
    for i in [0:n] do
      sc := max sc (max (rabs ((impl[i]!)[c]!)) (rabs ((model[i]!)[c]!)))
    for i in [0:n] do
      if !(rabs ((impl[i]!)[c]! - (model[i]!)[c]!) ≤ sc / (2 ^ 30 : Nat)) then return some s!"column {c} row {i}"
  return none

structure LapModel (N : Nat) where
  L : Array (Array Fix)
  D : Array Fix
  H : Array (Array Fix)
  nnz : Nat
  scale : Fix

def runLap {N : Nat} (dist : Mat N N Fix) (width : Fix) (nb : Nb N) : LapModel N :=
  let H := Laplacian.heatsD Fix.exp dist width nb.f
  let D := Laplacian.degreesD nb.f H.get
  let ts := Laplacian.lapTriplets nb.f H.get D.get
  let L := fromTripletsD ts
  { L := L.data, D := D.data, H := H.data,
    nnz := Id.run do
      let mut seen : Array Bool := Array.replicate (N * N) false
      let mut c := 0
      for t in ts do
        let p := t.1.1 * N + t.2.1.1
        if !(seen[p]!) then
          seen := seen.set! p true
          c := c + 1
      return c,
    scale := maxAbsArr (fromTripletsD (ts.map fun t => (t.1, t.2.1, fabs t.2.2))).data }

def exactlySymmetric (a : Array (Array Fix)) : Bool := Id.run do
  for i in [0:a.size] do
    for j in [0:i] do
      if (a[i]!)[j]! != (a[j]!)[i]! then return false
  return true

def answerCore (fs : List (String × String)) : E String := do
  let op ← need fs "op"
  let N ← needNat fs "N"
  if hN : 0 < N then
    let da ← needInput fs "dist" N N
    let dist : Mat N N Fix := matOf da N N
    let width ← needFix fs "width"
    if op == "lap" then
      let nb ← needNb fs "nb" N hN
      let m := runLap dist width nb
      if (field? fs "abort").isSome then return "res=FAIL:abort model=ok"
      let heat ← needMat fs "heat" N nb.k
      match heatContract heat m.H with
      | some "UNDERFLOW" => return "res=SKIP:heat-underflow"
      | some e => return s!"res=BROKEN:oracle-contract {e}"
      | none => pure ()
      let Li ← needMat fs "L" N N
      let Dv ← match parseVecA parseFix (← need fs "D") with
        | some v => if v.size = N then pure v else throw "D size"
        | none => throw "bad D"
      let c := cmpArr tolM Li m.L m.scale
      if !c.ok then return s!"res=FAIL:laplacian-differs-from-model {describe c}"
      let cD := cmpArr tolM (vecToCol Dv) (vecToCol m.D) m.scale
      if !cD.ok then return s!"res=FAIL:degrees-differ-from-model {describe cD}"
      if (← needNat fs "nnz") ≠ m.nnz then return s!"res=BROKEN:sparsity impl={← needNat fs "nnz"} model={m.nnz}"
      if !exactlySymmetric Li then return "res=BROKEN:laplacian-not-symmetric"
      -- row sums vanish (relative to the degree)
      for i in [0:N] do
        let s := (Li[i]!).foldl (· + ·) 0
        if !(fabs s ≤ tolPow 40 * m.scale) then return s!"res=FAIL:row-sum row {i}"
      return s!"res=ok {describe c} approx={N * N + N + N * nb.k} exact={N * (N - 1) / 2 + 1}"
    else if op == "dm" then
      let T := Diffusion.diffusionMatrixD Fix.exp Fix.sqrt dist width
      if (field? fs "abort").isSome then return "res=FAIL:abort model=ok"
      let Ti ← needMat fs "T" N N
      let c := cmpArr tolM Ti T.data
      if !c.ok then return s!"res=FAIL:diffusion-matrix-differs-from-model {describe c}"
      return s!"res=ok {describe c} approx={N * N}"
    else if op == "embed" then
      let method ← need fs "method"
      let d ← needNat fs "d"
      if (field? fs "abort").isSome then return "res=FAIL:abort model=ok"
      let threw ← need fs "threw"
      if method == "le" then
        if (← need fs "uniform") != "1" then return "res=SKIP:nonuniform-neighbour-lists"
        let nb ← needNb fs "nb" N hN
        match knnContractBy (fun i j => dist i j) nb with
        | some e => return s!"res=BROKEN:neighbours {e}"
        | none => pure ()
        let m := runLap dist width nb
        let heat ← needMat fs "heat" N nb.k
        match heatContract heat m.H with
        | some "UNDERFLOW" => return "res=SKIP:heat-underflow"
        | some e => return s!"res=BROKEN:oracle-contract {e}"
        | none => pure ()
        if threw != "-" then return s!"res=FAIL:threw what={threw}"
        let lhs ← needMat fs "lhs" N N
        let rhs ← match parseVecA parseFix (← need fs "rhs") with
          | some v => if v.size = N then pure v else throw "rhs size"
          | none => throw "bad rhs"
        let c := cmpArr tolM lhs m.L m.scale
        let cD := cmpArr tolM (vecToCol rhs) (vecToCol m.D) m.scale
        let hook := s!"{← need fs "calls"},{← need fs "skip"},{← need fs "smallest"},{← need fs "gen"},{← need fs "td"}"
        let Y ← needMat fs "Y" N d
        let vecs ← needMat fs "vecs" N d
        if m.D.any (fun x => x.m ≤ 0) then return "res=SKIP:zero-degree"
        -- the property's oracle: Y certified against the MODEL's (L, D)
        let B := diagArr m.D
        let Yt := transposeArr Y N d
        let AG := mulArr Yt (mulArr m.L Y N N d) d N d
        let BG := mulArr Yt (mulArr B Y N N d) d N d
        if (List.range d).any (fun c => ((BG[c]!)[c]!).m ≤ 0) then return "res=FAIL:certificate:non-positive-D-norm"
        let mu (c : Nat) : Fix := (AG[c]!)[c]! / (BG[c]!)[c]!
        let muMin := (List.range d).foldl (fun acc c => if mu c < acc then mu c else acc) (mu 0)
        let separated := decide (tolPow 12 < muMin)
        let co := certBottom N d m.L (some B) Y true separated (2 : Nat) tolY tolY tolC
        let nvals := ((← need fs "vals").splitOn ",").length
        if !co.ok then return s!"res=FAIL:certificate:{co.why} {certLine co} {describe c}"
        if !c.ok then return s!"res=BROKEN:solver-input-lhs {describe c}"
        if !cD.ok then return s!"res=BROKEN:solver-input-rhs {describe cD}"
        if (← need fs "rhsoff") != "0" then return "res=BROKEN:solver-input-rhs-not-diagonal"
        if hook != s!"1,1,1,1,{d}" then return s!"res=BROKEN:solver-call calls,skip,smallest,gen,td={hook}"
        if (cmpArr 0 Y vecs).maxdev.m ≠ 0 then return "res=BROKEN:embedding-is-not-the-solver-output"
        return s!"res=ok {describe c} {certLine co} sep={separated} nvals={nvals} approx={N * N + N + N * d}"
      else
        let t ← needNat fs "t"
        let T := Diffusion.diffusionMatrixD Fix.exp Fix.sqrt dist width
        if threw != "-" then return s!"res=FAIL:threw what={threw}"
        let lhs ← needMat fs "lhs" N N
        let c := cmpArr tolM lhs T.data
        let hook := s!"{← need fs "calls"},{← need fs "skip"},{← need fs "smallest"},{← need fs "gen"},{← need fs "td"}"
        if hook != s!"1,0,0,0,{d + 1}" then return s!"res=BROKEN:solver-call calls,skip,smallest,gen,td={hook}"
        let vecs ← needMat fs "vecs" N (d + 1)
        let vals ← match parseVecA parseFix (← need fs "vals") with
          | some v => if v.size = d + 1 then pure v else throw "vals size"
          | none => throw "bad vals"
        let Y ← needMat fs "Y" N d
        -- (1) the solver's output is a top-(d+1) orthonormal eigensystem of the model's matrix
        let negT := T.data.map fun r => r.map fun x => (0 : Fix) - x
        let co := certBottom N (d + 1) negT none vecs false false (1 : Nat) tolY tolY tolC
        if !co.ok then return s!"res=FAIL:eigensystem:{co.why} {certLine co}"
        for cc in [0:d + 1] do
          if !(fabs (co.mus[cc]! + vals[cc]!) ≤ tolPow 26) then return s!"res=FAIL:eigenvalue column {cc}"
        -- (2) the trivial pair: eigenvalue 1, eigenvector ∝ √q (column d)
        if !(fabs (vals[d]! - 1) ≤ tolPow 26) then return "res=FAIL:top-eigenvalue-not-1"
        let sq := (Diffusion.sqrtQD Fix.exp Fix.sqrt dist width).data
        let nrm := Fix.sqrt (sq.foldl (fun acc x => acc + x * x) 0)
        let sign : Fix := if ((vecs[0]!)[d]!).m < 0 then (0 : Fix) - 1 else 1
        -- the top eigenvector is determined to about ε / gap(1, λ₂): tolerance 2⁻⁴⁰ / gap, clause skipped below gap 2⁻²⁰
        let gap : Fix := if d = 0 then 1 else vals[d]! - vals[d - 1]!
        let mut trivS := "skipped(gap<2^-20)"
        if tolPow 20 < gap then
          let tolT := tolPow 40 / gap
          trivS := "checked"
          for i in [0:N] do
            if !(fabs ((vecs[i]!)[d]! * sign - sq[i]! / nrm) ≤ tolT) then
              return s!"res=FAIL:top-eigenvector-not-sqrt-q row {i}"
        -- (3) the returned coordinates are λ^t ψ_c/ψ_0 recomputed by the model from the observed (V, λ)
        --     (exact rational arithmetic: the coordinates span hundreds of binary orders of magnitude)
        let vecsQ ← match parseRows parseRat (← need fs "vecs") with
          | some a => if rect a N (d + 1) then pure a else throw "vecs shape"
          | none => throw "bad vecs"
        let valsQ ← match parseVecA parseRat (← need fs "vals") with
          | some a => if a.size = d + 1 then pure a else throw "vals shape"
          | none => throw "bad vals"
        let YQ ← match parseRows parseRat (← need fs "Y") with
          | some a => if rect a N d then pure a else throw "Y shape"
          | none => throw "bad Y"
        if (List.range N).any (fun i => (vecsQ[i]!)[d]! == 0) then return "res=SKIP:zero-in-top-eigenvector"
        let Vf : Mat N (d + 1) Rat := matOf vecsQ N (d + 1)
        let lamf : Vec (d + 1) Rat := vecOf valsQ (d + 1)
        let P := DMat.ofFn (Diffusion.dmPost Vf lamf t)
        match cmpColsRat YQ P.data N d with
        | some e => return s!"res=FAIL:coordinates {e}"
        | none => pure ()
        if !c.ok then return s!"res=BROKEN:solver-input {describe c}"
        let negsel := ((List.range d).filter fun cc => (vals[cc]!).m < 0).length
        return s!"res=ok {describe c} {certLine co} trivial={trivS} negsel={negsel} approx={N * N + N * d + N}"
    else throw s!"unknown op {op}"
  else throw "N=0"

def answer (line : String) : String :=
  let fs := fields line
  match answerCore fs with
  | .ok s => s
  | .error e =>
    if e.startsWith "SKIP:" then
      -- an implementation exception on an input the model skips is counted separately (never silently dropped)
      (if (field? fs "threw").isSome && field? fs "threw" != some "-" then "res=SKIP:impl-threw-on-skipped-input " else "res=") ++ e
    else if e == "nonuniform" then "res=SKIP:nonuniform-neighbour-lists"
    else "res=BADCASE:" ++ e

def main : IO Unit := runLines answer
