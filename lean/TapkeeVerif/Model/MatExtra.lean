import TapkeeVerif.Model.Mat
/-
Small additions to `Model/Mat.lean` used by the C08–C10 models (core Lean only):
column extraction, triangle views, natural powers.
-/
namespace TapkeeVerif

section
variable {K : Type} {n m : Nat}

namespace Vec
def ones [One K] : Vec n K := fun _ => 1
end Vec

namespace Mat
def col (A : Mat n m K) (j : Fin m) : Vec n K := fun i => A i j
def row (A : Mat n m K) (i : Fin n) : Vec m K := fun j => A i j

/-- what a reader of the **upper** triangle sees (`selfadjointView<Eigen::Upper>`) -/
def upperView (A : Mat n n K) : Mat n n K := fun i j => if i ≤ j then A i j else A j i
/-- what a reader of the **lower** triangle sees (`selfadjointView<Eigen::Lower>`, `LLT<_, Lower>`) -/
def lowerView (A : Mat n n K) : Mat n n K := fun i j => if j ≤ i then A i j else A j i
end Mat

/-- `x^t` for a natural exponent by repeated multiplication (`pow(x, int)` for `t ≥ 0`) -/
def npowK [Mul K] [One K] (x : K) : Nat → K
  | 0 => 1
  | t + 1 => npowK x t * x

end
end TapkeeVerif
