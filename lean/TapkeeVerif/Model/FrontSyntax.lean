import TapkeeVerif.Model.FrontVal
import TapkeeVerif.Gen.Keywords
/-
Shapes of the statements the translator recognises in `validate()`, `embed()`, `tapkee::embed`, the base
constructor and `embedUsing` (needs the generated keyword enumeration).  Core Lean only.
-/
namespace TapkeeVerif.Front
open TapkeeVerif.Gen

/-- `parameters[kw].checked().satisfies(pred)[.orThrow()];` -/
structure VStep where
  kw : Kw
  pred : Pred
  orThrow : Bool
  deriving DecidableEq, Repr, Inhabited

/-- events inside one statement of an `embed()` body, in evaluation order -/
inductive Ev where
  | read (kw : Kw)                    -- `parameters[kw]` converted to the keyword's type
  | check (v : VStep)                 -- a check (from the inlined `find_neighbors_with`)
  | use (cb : Cb) (via : String)      -- a callee is handed the member `via` and invokes callback `cb`
  | dimension                         -- `features.dimension()`
  deriving DecidableEq, Repr, Inhabited

inductive EStmt where
  | plain (callee : String) (evs : List Ev)
  /-- `if (parameters[kw].is(lit)) { thn } else { els }` – `.is` never throws (false on a type mismatch) -/
  | ifIs (kw : Kw) (lit : Val) (thn els : List (String × List Ev))
  deriving Repr, Inhabited

/-- steps of `tapkee::embed` with `initialize` and `embedUsing` inlined -/
inductive FrontStep where
  | checkDuplicates                   -- parameters.check()
  | mergeDefaults                     -- parameters.merge(defaults)
  | echo                              -- parameters.visit(debug message)
  | read (kw : Kw)                    -- T x = parameters[kw]
  | context                           -- Context(progress, cancel)
  | log
  | countN                            -- n_vectors = end - begin
  | noData                            -- if (n_vectors == 0) throw no_data_error()
  | check (v : VStep)
  | dimension                         -- current_dimension = features.dimension() unless dummy
  | cancel                            -- if (context.is_cancelled()) throw cancelled_exception()
  | needs (cb : Cb)                   -- if (method.needs_cb && is_dummy<Cb>) throw unsupported_method_error
  | dispatch                          -- the tapkee_method_handle chain
  deriving Repr, Inhabited

end TapkeeVerif.Front
