import TapkeeVerif.Model.FrontVal
import TapkeeVerif.Gen.Keywords
import TapkeeVerif.Gen.Predicates
/-
Shapes of the statements the translator recognises in `validate()`, `embed()`, `tapkee::embed`, the base
constructor and `embedUsing` (needs the generated keyword enumeration).  Core Lean only.
-/
namespace TapkeeVerif.Front
open TapkeeVerif.Gen

/-- Bound expressions occurring as predicate arguments / guards in `validate()`: C++ arithmetic over literals,
    `n_vectors`, `current_dimension` and the values of other parameters.  Typing follows C++: an operation on two
    `int` operands is an `int` operation (exact; truncating division), anything else is carried out in `double`: the
    exact result rounded to the nearest double (`XReal.round`); `static_cast<IndexType>` truncates toward zero. -/
inductive BExpr where
  | intLit (i : Int)
  | realLit (q : Rat)
  | nVectors
  | currentDimension
  | param (kw : Kw)                 -- `parameters[kw]` converted to the keyword's (numeric) type
  | toInt (a : BExpr)               -- static_cast<IndexType>(a)
  | toReal (a : BExpr)              -- static_cast<ScalarType>(a)
  | add (a b : BExpr) | sub (a b : BExpr) | mul (a b : BExpr) | div (a b : BExpr)
  | neg (a : BExpr)
  deriving DecidableEq, Repr, Inhabited

def BExpr.isInt : BExpr → Bool
  | .intLit _ => true
  | .realLit _ => false
  | .nVectors => true
  | .currentDimension => true
  | .param kw => decide (kw.ty = Ty.int)
  | .toInt _ => true
  | .toReal _ => false
  | .add a b | .sub a b | .mul a b | .div a b => a.isInt && b.isInt
  | .neg a => a.isInt

/-- the parameters an expression reads -/
def BExpr.params : BExpr → List Kw
  | .param kw => [kw]
  | .toInt a | .toReal a | .neg a => a.params
  | .add a b | .sub a b | .mul a b | .div a b => a.params ++ b.params
  | _ => []

/-- what a bound expression can see -/
structure BEnv where
  n : Int                 -- n_vectors
  dim : Int               -- current_dimension (0 when the features callback is a dummy)
  val : Kw → XReal        -- numeric value of a parameter

/-- `static_cast<IndexType>` of a `double`: truncation toward zero -/
abbrev truncRat (q : Rat) : Int := XReal.truncQ q

def BExpr.eval (env : BEnv) : BExpr → XReal
  | .intLit i => .fin (i : Rat)
  | .realLit q => .fin q
  | .nVectors => .fin (env.n : Rat)
  | .currentDimension => .fin (env.dim : Rat)
  | .param kw => env.val kw
  | .toInt a => XReal.trunc (a.eval env)
  | .toReal a => a.eval env
  | .add a b => if a.isInt && b.isInt then a.eval env + b.eval env else XReal.round (a.eval env + b.eval env)
  | .sub a b => if a.isInt && b.isInt then a.eval env - b.eval env else XReal.round (a.eval env - b.eval env)
  | .mul a b => if a.isInt && b.isInt then a.eval env * b.eval env else XReal.round (a.eval env * b.eval env)
  | .div a b =>
      if a.isInt && b.isInt then                     -- int / int truncates
        match a.eval env, b.eval env with
        | .fin x, .fin y => .fin ((Int.tdiv x.num y.num : Int) : Rat)
        | _, _ => .nan
      else XReal.round (a.eval env / b.eval env)
  | .neg a => - a.eval env

/-- predicates of tapkee/predicates.hpp with their template argument -/
inductive Pred where
  | positivity (ty : Ty)
  | nonNegativity (ty : Ty)
  | inRange (ty : Ty) (lo hi : BExpr)         -- lo ≤ v < hi
  | inClosedRange (ty : Ty) (lo hi : BExpr)   -- lo ≤ v ≤ hi
  deriving DecidableEq, Repr, Inhabited

def Pred.ty : Pred → Ty
  | .positivity t | .nonNegativity t | .inRange t _ _ | .inClosedRange t _ _ => t

def Pred.params : Pred → List Kw
  | .inRange _ lo hi | .inClosedRange _ lo hi => lo.params ++ hi.params
  | _ => []

def Pred.kind : Pred → PredKind
  | .positivity _ => .positivity
  | .nonNegativity _ => .nonNegativity
  | .inRange _ _ _ => .inRange
  | .inClosedRange _ _ _ => .inClosedRange

def Pred.lower (env : BEnv) : Pred → XReal
  | .inRange _ lo _ | .inClosedRange _ lo _ => lo.eval env
  | _ => 0

def Pred.upper (env : BEnv) : Pred → XReal
  | .inRange _ _ hi | .inClosedRange _ _ hi => hi.eval env
  | _ => 0

/-- does the value `v` satisfy the predicate?  The body of `operator()` is the generated `Gen.predBody`. -/
def Pred.holds (env : BEnv) (v : XReal) (p : Pred) : Prop :=
  (predBody p.kind).eval v (p.lower env) (p.upper env)

instance (env : BEnv) (v : XReal) (p : Pred) : Decidable (p.holds env v) := by
  unfold Pred.holds; infer_instance

/-- `parameters[kw].checked().satisfies(pred)[.orThrow()];` -/
structure VStep where
  kw : Kw
  pred : Pred
  orThrow : Bool
  deriving DecidableEq, Repr, Inhabited

/-- a statement of `validate()`: a check, or `if (lhs cmp rhs) check;` -/
inductive VStmt where
  | check (c : VStep)
  | guarded (lhs : BExpr) (cmp : Cmp) (rhs : BExpr) (c : VStep)
  /-- `Parameter::create(name, value).checked().satisfies(pred)[.orThrow()];` - a check of a computed value -/
  | checkValue (value : BExpr) (pred : Pred) (orThrow : Bool)
  deriving DecidableEq, Repr, Inhabited

/-- events inside one statement of an `embed()` body, in evaluation order -/
inductive Ev where
  | read (kw : Kw)                    -- `parameters[kw]` converted to the keyword's type
  | check (v : VStep)                 -- a check (from the inlined `find_neighbors_with`)
  | use (cb : Cb) (via : String)      -- a callee is handed the member `via` and invokes callback `cb`
  | dimension                         -- `features.dimension()`
  deriving DecidableEq, Repr, Inhabited

inductive EStmt where
  | plain (callee : String) (evs : List Ev)
  /-- `if (parameters[kw].is(lit)) { thn } else { els }` – `.is` never throws (false on a type mismatch) -/
  | ifIs (kw : Kw) (lit : Val) (thn els : List (String × List Ev))
  deriving Repr, Inhabited

/-- steps of `tapkee::embed` with `initialize` and `embedUsing` inlined -/
inductive FrontStep where
  | checkDuplicates                   -- parameters.check()
  | mergeDefaults                     -- parameters.merge(defaults)
  | echo                              -- parameters.visit(debug message)
  | read (kw : Kw)                    -- T x = parameters[kw]
  | context                           -- Context(progress, cancel)
  | log
  | countN                            -- n_vectors = end - begin
  | noData                            -- if (n_vectors == 0) throw no_data_error()
  | check (v : VStep)
  | dimension                         -- current_dimension = features.dimension() unless dummy
  | cancel                            -- if (context.is_cancelled()) throw cancelled_exception()
  | needs (cb : Cb)                   -- if (method.needs_cb && is_dummy<Cb>) throw unsupported_method_error
  | dispatch                          -- the tapkee_method_handle chain
  deriving Repr, Inhabited

end TapkeeVerif.Front
