import TapkeeVerif.Model.Mat
import TapkeeVerif.Model.DMat
/-!
`centerMatrix` of `include/tapkee/utils/matrix.hpp`, statement by statement:

    DenseVector col_means = matrix.colwise().mean().transpose();
    DenseMatrix::Scalar grand_mean = matrix.mean();
    matrix.array() += grand_mean;
    matrix.rowwise() -= col_means.transpose();
    matrix.colwise() -= col_means;

Core Lean only; `K` carries notation classes only (DESIGN §2.1).
-/
namespace TapkeeVerif
section
variable {K : Type} {n m : Nat}

/-- `matrix.colwise().mean()` : entry `j` is the mean of column `j` (Eigen: `sum / rows`) -/
def colMeans [Add K] [Zero K] [Div K] [NatCast K] (A : Mat n m K) : Vec m K :=
  fun j => sumFin n (fun i => A i j) / (n : K)

/-- `matrix.mean()` : `sum() / size()` -/
def grandMean [Add K] [Zero K] [Div K] [NatCast K] (A : Mat n m K) : K :=
  sumFin n (fun i => sumFin m fun j => A i j) / ((n * m : Nat) : K)

/-- the three in-place updates, in the order of the source, given the two means computed before them:
    `+= grand_mean`, then `rowwise() -= col_meansᵀ` (entry `(i,j)` loses `c j`),
    then `colwise() -= col_means` (entry `(i,j)` loses `c i`). -/
def centerWith [Add K] [Sub K] (A : Mat n n K) (c : Vec n K) (g : K) : Mat n n K :=
  fun i j => ((A i j + g) - c j) - c i

def centerMatrix [Add K] [Sub K] [Zero K] [Div K] [NatCast K] (A : Mat n n K) : Mat n n K :=
  centerWith A (colMeans A) (grandMean A)

/-- `matrix.array() *= s` -/
def scale [Mul K] (s : K) (A : Mat n m K) : Mat n m K := fun i j => A i j * s

/-- the literal `-0.5` -/
def negHalf [Neg K] [Div K] [NatCast K] : K := -(((1 : Nat) : K) / ((2 : Nat) : K))

/-- the centring matrix `J = I − (1/n)·11ᵀ` (specification side only) -/
def centering [Sub K] [Div K] [Zero K] [NatCast K] (n : Nat) : Mat n n K :=
  fun i j => (if i = j then ((1 : Nat) : K) else 0) - ((1 : Nat) : K) / (n : K)

/-- staged evaluation of `centerMatrix` for the drivers (means tabulated once) -/
def centerMatrixD [Add K] [Sub K] [Zero K] [Div K] [NatCast K] (A : DMat n n K) : DMat n n K :=
  let c := DVec.ofFn (colMeans A.get)
  let g := grandMean A.get
  DMat.ofFn (centerWith A.get c.get g)

theorem centerMatrixD_eq [Add K] [Sub K] [Zero K] [Div K] [NatCast K] (A : DMat n n K) :
    (centerMatrixD A).get = centerMatrix A.get := by
  simp [centerMatrixD, centerMatrix, DMat.get_ofFn, DVec.get_ofFn]

end
end TapkeeVerif
