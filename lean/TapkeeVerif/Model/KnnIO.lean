import TapkeeVerif.Model.Util
import TapkeeVerif.Model.Knn
/-! Parsing of the exact-mode sample-set descriptions shared by the C02 / C03 drivers (see harness/knn_common.hpp):
    integer points under L1 / L∞, precomputed integer metrics, integer kernels with perfect-square induced
    squared distances.  Core Lean only. -/
namespace TapkeeVerif.KnnIO
open TapkeeVerif.Util

structure Space where
  N : Nat
  dist : Nat → Nat → Int
  lt : Nat → Nat → Nat → Bool     -- DistanceComparator(callback, item)(a, b)

def parseRows (s : String) : Option (Array (Array Int)) :=
  (allSome ((s.splitOn ";").map fun r => (parseInts r).map List.toArray)).map List.toArray

def absI (x : Int) : Int := if x < 0 then -x else x

def l1 (p q : Array Int) : Int := Id.run do
  let mut acc : Int := 0
  for t in [0:p.size] do
    acc := acc + absI (p[t]! - q[t]!)
  return acc

def linf (p q : Array Int) : Int := Id.run do
  let mut acc : Int := 0
  for t in [0:p.size] do
    let d := absI (p[t]! - q[t]!)
    if acc < d then acc := d
  return acc

def sqL2 (p q : Array Int) : Int := Id.run do
  let mut acc : Int := 0
  for t in [0:p.size] do
    acc := acc + (p[t]! - q[t]!) * (p[t]! - q[t]!)
  return acc

def dot (p q : Array Int) : Int := Id.run do
  let mut acc : Int := 0
  for t in [0:p.size] do
    acc := acc + p[t]! * q[t]!
  return acc

/-- exact integer square root; `none` unless a perfect square -/
def isqrt? (x : Int) : Option Int :=
  if x < 0 then none else
    let r := Nat.sqrt x.toNat
    if r * r = x.toNat then some (r : Int) else none

def mkSpace (fs : List (String × String)) : Except String Space := do
  let cb := (field? fs "cb").getD "plain"
  let pts? := (field? fs "pts") >>= parseRows
  if cb == "kernel" then
    let kern := (field? fs "kern").getD "lin"
    let (n, kf) ← (match kern with
      | "matrix" =>
        match (field? fs "km") >>= parseRows with
        | some km => pure (km.size, fun (a b : Nat) => (km[a]!)[b]!)
        | none => throw "bad-km"
      | _ =>
        match pts? with
        | some pts => pure (pts.size, fun (a b : Nat) => dot pts[a]! pts[b]!)
        | none => throw "bad-pts" : Except String (Nat × (Nat → Nat → Int)))
    -- KernelDistance::distance = sqrt(k(l,l) - 2k(l,r) + k(r,r)); exact mode: a perfect square
    let sq := fun (a b : Nat) => kf a a - 2 * kf a b + kf b b
    for a in [0:n] do
      for b in [0:n] do
        if (isqrt? (sq a b)).isNone then throw "nonsquare-kernel-distance"
    -- cache the distances
    let tab : Array (Array Int) := Array.ofFn fun (a : Fin n) => Array.ofFn fun (b : Fin n) => (isqrt? (sq a b)).getD 0
    pure { N := n, dist := fun a b => (tab[a]!)[b]!,
           lt := fun item a b => decide ((-2) * kf item a + kf a a < (-2) * kf item b + kf b b) }
  else
    let metric := (field? fs "metric").getD "L1"
    match metric with
    | "matrix" =>
      match (field? fs "m") >>= parseRows with
      | some m =>
        let d := fun (a b : Nat) => (m[a]!)[b]!
        pure { N := m.size, dist := d, lt := fun item a b => decide (d item a < d item b) }
      | none => throw "bad-m"
    | _ =>
      match pts? with
      | some pts =>
        -- L2: the squared Euclidean distance stands for the Euclidean distance (same order; oracle-only leg)
        let d := if metric == "Linf" then fun (a b : Nat) => linf pts[a]! pts[b]!
          else if metric == "L2" then fun (a b : Nat) => sqL2 pts[a]! pts[b]!
          else fun (a b : Nat) => l1 pts[a]! pts[b]!
        pure { N := pts.size, dist := d, lt := fun item a b => decide (d item a < d item b) }
      | none => throw "bad-pts"

def parseLists (s : String) : Option (List (List Nat)) :=
  allSome ((s.splitOn ";").map fun r => parseNats r)


end TapkeeVerif.KnnIO
