import TapkeeVerif.Model.Mat
import TapkeeVerif.Model.DMat
import TapkeeVerif.Model.MatExtra
/-
Model of the feature-space eigenproblem construction of NPE, LLTSA and LPP (C10):
`routines/locally_linear.hpp: construct_neighborhood_preserving_eigenproblem, construct_lltsa_eigenproblem`,
`routines/laplacian_eigenmaps.hpp: construct_locality_preserving_eigenproblem`, and of what
`Eigen::GeneralizedSelfAdjointEigenSolver` (routines/generalized_eigendecomposition.hpp) reads of the pair.
Core Lean only; polymorphic in the scalar.

`F : Mat N D K` holds the samples as **rows** (`F r = feature_vector_callback.vector(begin[r])`), so the property's
`X M Xᵀ` (samples as columns) is `Fᵀ M F` here.  `W : Mat N N K` is the sparse weight matrix as a dense function;
iterating it entry by entry includes the structural zeros, whose rank updates add `0`.
-/
namespace TapkeeVerif.LinearGraph
open TapkeeVerif

section
variable {K : Type} [Add K] [Sub K] [Mul K] [Div K] [Neg K] [Zero K] [One K] [NatCast K]
variable {N D : Nat}

/-- `A.selfadjointView<Eigen::Upper>().rankUpdate(u, α)`: `A += α u uᵀ`, **upper triangle (with diagonal) only** -/
def rankUpdate1 (A : Mat D D K) (u : Vec D K) (α : K) : Mat D D K :=
  fun i j => if i ≤ j then A i j + α * (u i * u j) else A i j

/-- `A.selfadjointView<Eigen::Upper>().rankUpdate(u, v, α)`: `A += α (u vᵀ + v uᵀ)`, upper triangle only -/
def rankUpdate2 (A : Mat D D K) (u v : Vec D K) (α : K) : Mat D D K :=
  fun i j => if i ≤ j then A i j + α * (u i * v j + v i * u j) else A i j

def rankUpdate1D (A : DMat D D K) (u : Vec D K) (α : K) : DMat D D K := DMat.ofFn (rankUpdate1 A.get u α)
def rankUpdate2D (A : DMat D D K) (u v : Vec D K) (α : K) : DMat D D K := DMat.ofFn (rankUpdate2 A.get u v α)

def zeroD : DMat D D K := DMat.ofFn fun _ _ => 0

/-- `for iter: rhs.rankUpdate(x_iter, wt(iter))` -/
def sampleSumD (F : Mat N D K) (wt : Vec N K) : DMat D D K :=
  (List.finRange N).foldl (fun A r => rankUpdate1D A (F r) (wt r)) zeroD

/-- the stored entries of the sparse matrix in iteration order (outer = column, inner = row): `(row, col, value)` -/
def sparseEntries (W : Mat N N K) : List (Fin N × Fin N × K) :=
  (List.finRange N).flatMap fun c => (List.finRange N).map fun r => (r, c, W r c)

/-- `for (it over W): lhs.rankUpdate(x_{it.row}, x_{it.col}, it.value)` -/
def weightSumD (W : Mat N N K) (F : Mat N D K) : DMat D D K :=
  (sparseEntries W).foldl (fun A e => rankUpdate2D A (F e.1) (F e.2.1) e.2.2) zeroD

/-- `sum += x_iter` -/
def featureSum (F : Mat N D K) : Vec D K := fun j => sumFin N fun r => F r j

/-- `lhs = DenseSymmetricMatrix(lhs.selfadjointView<Eigen::Upper>())`: the full symmetric matrix read off the
    accumulated upper triangle (fix F-LIN-TRI; before it the pair was returned upper-only / half-symmetrised) -/
def mirrorUpperD (A : DMat D D K) : DMat D D K := DMat.ofFn (Mat.upperView A.get)

/-- `construct_neighborhood_preserving_eigenproblem`: `(lhs, rhs)` exactly as returned -/
def npeProblemD (W : Mat N N K) (F : Mat N D K) : DMat D D K × DMat D D K :=
  (mirrorUpperD (weightSumD W F), mirrorUpperD (sampleSumD F (fun _ => 1)))

/-- `w_ones = W * Ones`: row sums of the sparse matrix -/
def rowSums (W : Mat N N K) : Vec N K := fun r => sumFin N fun c => W r c

/-- `weighted_sum += w_ones(iter) * x_iter` -/
def weightedFeatureSum (W : Mat N N K) (F : Mat N D K) : Vec D K :=
  fun j => sumFin N fun r => rowSums W r * F r j

/-- `construct_lltsa_eigenproblem`: `rhs` gets `rankUpdate(sum, -1/N)` (centring); `lhs` gets, after the sparse loop,
    `rankUpdate(weighted_sum, sum, -2/N)` and `rankUpdate(sum, 2 * w_ones.sum() / (N*N))`, i.e. the alignment matrix
    acts on the CENTRED features (fix F-LLTSA-SHIFT; before it `lhs` was `2 X W Xᵀ` of the uncentred features, and
    before F-LLTSA-CENTRE it carried a spurious `- s sᵀ/N`); both matrices are mirrored before returning -/
def lltsaProblemD (W : Mat N N K) (F : Mat N D K) : DMat D D K × DMat D D K :=
  let s := DVec.ofFn (featureSum F)
  let c : K := (-1) / (N : K)
  let ws := DVec.ofFn (rowSums W)
  let u := DVec.ofFn fun j => sumFin N fun r => ws.get r * F r j
  let wsum : K := sumFin N ws.get
  let lhs1 := rankUpdate2D (weightSumD W F) u.get s.get ((-((2 : Nat) : K)) / (N : K))
  let lhs2 := rankUpdate1D lhs1 s.get (((2 : Nat) : K) * wsum / ((N : K) * (N : K)))
  (mirrorUpperD lhs2, mirrorUpperD (rankUpdate1D (sampleSumD F (fun _ => 1)) s.get c))

/-- `construct_locality_preserving_eigenproblem` (`L` sparse Laplacian, `Dg` the degree diagonal) -/
def lppProblemD (L : Mat N N K) (Dg : Vec N K) (F : Mat N D K) : DMat D D K × DMat D D K :=
  (mirrorUpperD (weightSumD L F), mirrorUpperD (sampleSumD F Dg))

def npeProblem (W : Mat N N K) (F : Mat N D K) : Mat D D K × Mat D D K :=
  ((npeProblemD W F).1.get, (npeProblemD W F).2.get)
def lltsaProblem (W : Mat N N K) (F : Mat N D K) : Mat D D K × Mat D D K :=
  ((lltsaProblemD W F).1.get, (lltsaProblemD W F).2.get)
def lppProblem (L : Mat N N K) (Dg : Vec N K) (F : Mat N D K) : Mat D D K × Mat D D K :=
  ((lppProblemD L Dg F).1.get, (lppProblemD L Dg F).2.get)

/-- what `Eigen::GeneralizedSelfAdjointEigenSolver(A, B)` works with: `LLT<_, Lower>` of `B` and
    `A.selfadjointView<Lower>()` — the **lower** triangles, mirrored -/
def genSolveLower (P : Mat D D K × Mat D D K) : Mat D D K × Mat D D K := (Mat.lowerView P.1, Mat.lowerView P.2)

/-- the full feature-space matrix `Fᵀ M F` (`X M Xᵀ` of the property) -/
def fullForm (M : Mat N N K) (F : Mat N D K) : Mat D D K :=
  fun i j => sumFin N fun r => sumFin N fun c => F r i * M r c * F c j

/-- `Fᵀ diag(w) F` -/
def fullDiagForm (w : Vec N K) (F : Mat N D K) : Mat D D K :=
  fun i j => sumFin N fun r => F r i * w r * F r j

/-- the centring matrix `1 − 11ᵀ/N` -/
def centering : Mat N N K := fun r c => (if r = c then 1 else 0) - 1 / (N : K)

/-- `routines/pca.hpp: compute_mean`, `project`: row `r` of the embedding is `Pᵀ (x_r − mean)` -/
def meanVec (F : Mat N D K) : Vec D K := fun j => (sumFin N fun r => F r j) / (N : K)
def project {d : Nat} (P : Mat D d K) (F : Mat N D K) : Mat N d K :=
  fun r c => sumFin D fun j => P j c * (F r j - meanVec F j)

end
end TapkeeVerif.LinearGraph
