/-
Model of `include/tapkee/neighbors/connected.hpp` (`is_connected`) and of the recursion of
`neighbors.hpp::find_neighbors` (clamp k, search, test, recurse with 2k).  Core Lean only.

A neighbourhood graph is the `Neighbors` value: `g[u]` is the list of neighbour indices of sample `u`.
Both `is_connected` and the Dijkstra of `routines/isomap.hpp` read `k := g[0].size()` and then the first
`k` entries of every list, so the edge relation is `w ∈ (g[u]).take k`.

Undefined behaviour is explicit: `oob` = an index outside a `std::vector` (a list shorter than `k`, a
neighbour index ≥ N, `neighbors[0]` of an empty graph); `fuelOut` = the fuel of the modelled loop ran out
(never happens with the fuel the model passes: `dfs_total` / `reachesAll_total`, `findNeighbors_total`).
-/
namespace TapkeeVerif.Connected

abbrev Graph := List (List Nat)

inductive Res (β : Type) where
  | ok (b : β) : Res β
  | oob : Res β
  | fuelOut : Res β
  deriving Repr, DecidableEq, Inhabited

/-! ### specification -/

/-- `u → w` is an edge of `g` (`w` occurs in the list of `u`) -/
def Edge (g : Graph) (u w : Nat) : Prop := ∃ nb, g[u]? = some nb ∧ w ∈ nb

inductive Reach (g : Graph) : Nat → Nat → Prop where
  | refl (u : Nat) : Reach g u u
  | step {u v w : Nat} : Reach g u v → Edge g v w → Reach g u w

/-- degree used by the code: `neighbors[0].size()` -/
def degree (g : Graph) : Nat := (g.headD []).length

/-- the edges the code follows (`is_connected` and the Dijkstra of `routines/isomap.hpp` alike): the first
    `degree g` entries of the lists of the samples `0..N-1` -/
def followed (g : Graph) (N : Nat) : Graph := (g.take N).map (·.take (degree g))

/-- every sample reaches every other sample along the edges the method follows (⇔ every Dijkstra distance finite) -/
def StronglyConnected (g : Graph) (N : Nat) : Prop :=
  ∀ u, u < N → ∀ v, v < N → Reach (followed g N) u v

/-! ### `is_connected` -/

/-- the `for (j = 0; j < current_neighbors.size(); ++j)` loop of `reaches_all_from_first`:
    push every not yet visited neighbour (`none` = a neighbour index outside `visited`) -/
def pushNbrs (N : Nat) (visited : List Nat) : List Nat → List Nat → Option (List Nat)
  | [], stack => some stack
  | w :: rest, stack =>
    if w < N then pushNbrs N visited rest (if w ∈ visited then stack else w :: stack)
    else none

/-- the `while (!stack.empty())` loop of `reaches_all_from_first`; `visited` lists the marked vertices
    (`nvisited = visited.length`), head of `stack` = `stack.top()` -/
def dfs (N : Nat) (g : Graph) : Nat → List Nat → List Nat → Res Bool
  | 0, _, _ => .fuelOut
  | _ + 1, visited, [] => .ok (visited.length == N)
  | fuel + 1, visited, cur :: st =>
    if cur < N then
      if cur ∈ visited then dfs N g fuel visited st
      else
        let visited' := cur :: visited
        if visited'.length = N then .ok true
        else
          match g[cur]? with
          | none => .oob
          | some nb =>
            match pushNbrs N visited' nb st with
            | none => .oob
            | some st' => dfs N g fuel visited' st'
    else .oob

/-- fuel that always suffices: every iteration pops one entry, at most `1 + (number of edges)` entries are ever pushed -/
def dfsFuel (g : Graph) : Nat := (g.map List.length).sum + 2

/-- `reaches_all_from_first(N, edges)` -/
def reachesAll (N : Nat) (g : Graph) : Res Bool := dfs N g (dfsFuel g) [] [0]

/-- the construction of `forward` in `is_connected`: the first `k` entries of the lists of samples `0..N-1`
    (`none` = `neighbors[i][j]` outside the vectors, or a neighbour index outside `backward`) -/
def forwardOf (N k : Nat) (g : Graph) : Option Graph :=
  if g.length < N then none
  else if (g.take N).all (fun l => decide (k ≤ l.length) && (l.take k).all (fun w => decide (w < N))) then
    some ((g.take N).map (·.take k))
  else none

/-- `backward[neighbor].push_back(i)` for `i = 0..N-1`, `j = 0..k-1`: list `v` of the result enumerates, in
    increasing order of `u` (with multiplicity), the `u` that have `v` among their forward neighbours -/
def backwardOf (N : Nat) (fwd : Graph) : Graph :=
  (List.range N).map fun v =>
    (fwd.zipIdx.map fun (l, u) => List.replicate (l.count v) u).flatten

/-- `is_connected(begin, end, neighbors)` with `N = end - begin`: every vertex is reached from sample 0 along
    the edges and along the reversed edges -/
def isConnected (N : Nat) (g : Graph) : Res Bool :=
  match g with
  | [] => .oob
  | nb0 :: _ =>
    match forwardOf N nb0.length g with
    | none => .oob
    | some fwd =>
      match reachesAll N fwd with
      | .ok true => reachesAll N (backwardOf N fwd)
      | r => r

/-! ### `find_neighbors` (the recursion; the search itself is a parameter) -/

structure Found where
  graph : Graph
  k : Nat            -- the k of the last search
  tried : List Nat   -- every k that was searched, in order
  deriving Repr, DecidableEq

/-- `search k` is the neighbour computation for `k` neighbours (C02 is its specification).
    `N - 1` is `end - begin - 1` (N ≥ 1). -/
def findNeighbors (search : Nat → Graph) (N : Nat) (check : Bool) : Nat → Nat → List Nat → Res Found
  | 0, _, _ => .fuelOut
  | fuel + 1, k, tried =>
    let k' := if k > N - 1 then N - 1 else k
    let g := search k'
    if check then
      match isConnected N g with
      | .ok true => .ok ⟨g, k', tried ++ [k']⟩
      | .ok false => findNeighbors search N check fuel (2 * k') (tried ++ [k'])
      | .oob => .oob
      | .fuelOut => .fuelOut
    else .ok ⟨g, k', tried ++ [k']⟩

/-- fuel that suffices for `k ≥ 1`: the k sequence doubles until it is clamped at `N-1` -/
def findFuel (N : Nat) : Nat := N + 2

/-! ### executable oracles (driver) -/

/-- worklist closure: `seen` = discovered vertices, `work` = discovered but not yet expanded -/
def closure (g : Graph) (k : Nat) : Nat → List Nat → List Nat → List Nat
  | 0, seen, _ => seen
  | _ + 1, seen, [] => seen
  | fuel + 1, seen, u :: work =>
    let nb := ((g[u]?).getD []).take k
    let fresh := (nb.filter fun w => !seen.contains w).eraseDups
    closure g k fuel (fresh ++ seen) (fresh ++ work)

/-- vertices reachable from `u` -/
def reachSet (g : Graph) (k N : Nat) (u : Nat) : List Nat :=
  closure g k (N * k + 2) [u] [u]

/-- Bool version of `StronglyConnected` (`stronglyConnected_sound`, Props/C03) -/
def stronglyConnected (g : Graph) (N : Nat) : Bool :=
  (List.range N).all fun u => let r := reachSet g (degree g) N u; (List.range N).all fun v => r.contains v

/-- all vertices reachable from `0` -/
def reachFromZero (g : Graph) (N : Nat) : Bool :=
  let r := reachSet g (degree g) N 0; (List.range N).all fun v => r.contains v

/-- relabel a graph: sample `u` of the new order is sample `π[u]` of the old one (`π` a permutation of 0..N-1,
    `inv` its inverse): `relabel g π inv` is the graph the same data produces when supplied in the order `π`. -/
def relabel (g : Graph) (π inv : List Nat) : Graph :=
  π.map fun old => ((g[old]?).getD []).map fun w => inv.getD w 0

end TapkeeVerif.Connected
