/-
Model of `include/tapkee/neighbors/connected.hpp` (`is_connected`) and of the recursion of
`neighbors.hpp::find_neighbors` (clamp k, search, test, recurse with 2k).  Core Lean only.

A neighbourhood graph is the `Neighbors` value: `g[u]` is the list of neighbour indices of sample `u`.
Both `is_connected` and the Dijkstra of `routines/isomap.hpp` read `k := g[0].size()` and then the first
`k` entries of every list, so the edge relation is `w ∈ (g[u]).take k`.

Undefined behaviour is explicit: `oob` = an index outside a `std::vector` (a list shorter than `k`, a
neighbour index ≥ N, `neighbors[0]` of an empty graph); `fuelOut` = the fuel of the modelled loop ran out
(never happens with the fuel the drivers pass: `dfs_fuel_suffices`, `findNeighbors_fuel_suffices`).
-/
namespace TapkeeVerif.Connected

abbrev Graph := List (List Nat)

inductive Res (β : Type) where
  | ok (b : β) : Res β
  | oob : Res β
  | fuelOut : Res β
  deriving Repr, DecidableEq, Inhabited

/-! ### specification -/

/-- `u → w` is an edge the code follows (`k = g[0].size()`) -/
def Edge (g : Graph) (k u w : Nat) : Prop := ∃ nb, g[u]? = some nb ∧ w ∈ nb.take k

inductive Reach (g : Graph) (k : Nat) : Nat → Nat → Prop where
  | refl (u : Nat) : Reach g k u u
  | step {u v w : Nat} : Reach g k u v → Edge g k v w → Reach g k u w

/-- degree used by the code -/
def degree (g : Graph) : Nat := (g.headD []).length

/-- every sample reaches every other sample along the edges the method follows (⇔ every Dijkstra distance finite) -/
def StronglyConnected (g : Graph) (N : Nat) : Prop := ∀ u, u < N → ∀ v, v < N → Reach g (degree g) u v

/-! ### `is_connected` -/

/-- the `for (j = 0; j < k; ++j)` loop: push every not yet visited neighbour (`none` = out of bounds) -/
def pushNbrs (N : Nat) (visited : List Nat) (nb : List Nat) : Nat → Nat → List Nat → Option (List Nat)
  | 0, _, stack => some stack
  | cnt + 1, j, stack =>
    match nb[j]? with
    | none => none
    | some w =>
      if w < N then
        pushNbrs N visited nb cnt (j + 1) (if w ∈ visited then stack else w :: stack)
      else none

/-- the `while (!stack.empty())` loop; `visited` lists the marked vertices (`nvisited = visited.length`),
    head of `stack` = `stack.top()` -/
def dfs (N k : Nat) (g : Graph) : Nat → List Nat → List Nat → Res Bool
  | 0, _, _ => .fuelOut
  | _ + 1, visited, [] => .ok (visited.length == N)
  | fuel + 1, visited, cur :: st =>
    if cur < N then
      if cur ∈ visited then dfs N k g fuel visited st
      else
        let visited' := cur :: visited
        if visited'.length = N then .ok true
        else
          match g[cur]? with
          | none => .oob
          | some nb =>
            match pushNbrs N visited' nb k 0 st with
            | none => .oob
            | some st' => dfs N k g fuel visited' st'
    else .oob

/-- fuel that always suffices: every iteration pops one entry, at most `1 + N*k` entries are ever pushed -/
def dfsFuel (N k : Nat) : Nat := N * k + 2

/-- `is_connected(begin, end, neighbors)` with `N = end - begin` -/
def isConnected (N : Nat) (g : Graph) : Res Bool :=
  match g with
  | [] => .oob
  | nb0 :: _ => dfs N nb0.length g (dfsFuel N nb0.length) [] [0]

/-! ### `find_neighbors` (the recursion; the search itself is a parameter) -/

structure Found where
  graph : Graph
  k : Nat            -- the k of the last search
  tried : List Nat   -- every k that was searched, in order
  deriving Repr

/-- `search k` is the neighbour computation for `k` neighbours (C02 is its specification).
    `N - 1` is `end - begin - 1` (N ≥ 1). -/
def findNeighbors (search : Nat → Graph) (N : Nat) (check : Bool) : Nat → Nat → List Nat → Res Found
  | 0, _, _ => .fuelOut
  | fuel + 1, k, tried =>
    let k' := if k > N - 1 then N - 1 else k
    let g := search k'
    if check then
      match isConnected N g with
      | .ok true => .ok ⟨g, k', tried ++ [k']⟩
      | .ok false => findNeighbors search N check fuel (2 * k') (tried ++ [k'])
      | .oob => .oob
      | .fuelOut => .fuelOut
    else .ok ⟨g, k', tried ++ [k']⟩

/-- fuel that suffices for `k ≥ 1`: the k sequence doubles until it is clamped at `N-1` -/
def findFuel (N : Nat) : Nat := N + 2

/-! ### executable oracles (driver) -/

/-- worklist closure: `seen` = discovered vertices, `work` = discovered but not yet expanded -/
def closure (g : Graph) (k : Nat) : Nat → List Nat → List Nat → List Nat
  | 0, seen, _ => seen
  | _ + 1, seen, [] => seen
  | fuel + 1, seen, u :: work =>
    let nb := ((g[u]?).getD []).take k
    let fresh := (nb.filter fun w => !seen.contains w).eraseDups
    closure g k fuel (fresh ++ seen) (fresh ++ work)

/-- vertices reachable from `u` -/
def reachSet (g : Graph) (k N : Nat) (u : Nat) : List Nat :=
  closure g k (N * k + 2) [u] [u]

/-- Bool version of `StronglyConnected` (`stronglyConnected_iff`, Props/C03) -/
def stronglyConnected (g : Graph) (N : Nat) : Bool :=
  (List.range N).all fun u => let r := reachSet g (degree g) N u; (List.range N).all fun v => r.contains v

/-- all vertices reachable from `0` -/
def reachFromZero (g : Graph) (N : Nat) : Bool :=
  let r := reachSet g (degree g) N 0; (List.range N).all fun v => r.contains v

/-- relabel a graph: sample `u` of the new order is sample `π[u]` of the old one (`π` a permutation of 0..N-1,
    `inv` its inverse): `relabel g π inv` is the graph the same data produces when supplied in the order `π`. -/
def relabel (g : Graph) (π inv : List Nat) : Graph :=
  π.map fun old => ((g[old]?).getD []).map fun w => inv.getD w 0

end TapkeeVerif.Connected
