import TapkeeVerif.Model.Mat
import TapkeeVerif.Model.QuadTree
import TapkeeVerif.Gen.TsneOps
/-
Model of `tsne::TSNE` (include/tapkee/external/barnes_hut_sne/tsne.hpp) and `tsne::VpTree`
(vptree.hpp), core Lean only, polymorphic in the scalar `K`.

Conventions
  * a data buffer `X[n*D + d]` is the matrix `X n d : Mat N D K`; flat buffers whose strides matter
    (the Barnes–Hut gradient: `QT_NO_DIMS` vs `no_dims`) are `Array K` with explicit bounds checks;
  * `exp`, `log`, `DBL_MIN` are parameters (`expf`, `logf`, `dblMin`): theorems hold for every function
    meeting the stated contract, the driver instantiates them with rational enclosures;
  * `±DBL_MAX` sentinels of the bisection and of the VP-tree's `_tau` are `Option.none`;
  * undefined behaviour (a read or write outside a buffer, a never-written `malloc` cell) is the
    explicit error state `Err.oob` / `Err.uninit`, never a default value.
-/
namespace TapkeeVerif.Tsne
open TapkeeVerif

inductive Err where
  | oob (what : String)
  | uninit (what : String)
  deriving Repr, BEq, DecidableEq

section Dense
variable {K : Type} {N D : Nat}
variable [Add K] [Sub K] [Mul K] [Div K] [Neg K] [Zero K] [One K] [NatCast K] [LT K] [DecidableLT K]

/-- `mean[d] = (Σ_n X[n*D+d]) / N` -/
def colMean (X : Mat N D K) (d : Fin D) : K := sumFin N (fun n => X n d) / (N : K)

/-- `zeroMean(X, N, D)` -/
def zeroMean (X : Mat N D K) : Mat N D K := fun n d => X n d - colMean X d

/-- Eigen's `maxCoeff()`: the largest coefficient (not the largest magnitude); `0` stands for the
    (undefined) maximum of an empty matrix -/
def maxCoeff (X : Mat N D K) : K :=
  match (List.finRange N).flatMap (fun n => (List.finRange D).map (fun d => X n d)) with
  | [] => 0
  | a :: rest => rest.foldl (fun m x => if m < x then x else m) a

/-- `if (X.maxCoeff() > 0) X.array() /= X.maxCoeff()` (the guard is regenerated from the source) -/
def maxNormalise (X : Mat N D K) : Mat N D K :=
  let m := maxCoeff X
  if Gen.TsneOps.maxGuard && !decide (0 < m) then X else fun n d => X n d / m

/-- `dataSums[n] = Σ_d X[n*D+d]²` -/
def dataSums (X : Mat N D K) (n : Fin N) : K := sumFin D (fun d => X n d * X n d)

/-- `computeSquaredEuclideanDistance` with the operator of its last statement as a parameter:
    `DD[n*N+m] = dataSums[n] + dataSums[m]`, then `DD_map.noalias() (=|+=) -2.0 * Xᵀ * X`. -/
def sqDistWith (accumulate : Bool) (X : Mat N D K) : Mat N N K := fun n m =>
  let gram : K := (-(1 + 1)) * sumFin D (fun d => X n d * X m d)
  if accumulate then (dataSums X n + dataSums X m) + gram else gram

/-- `computeSquaredEuclideanDistance` AS WRITTEN (operator regenerated from the source on every run) -/
def sqDist (X : Mat N D K) : Mat N N K := sqDistWith Gen.TsneOps.ddAccumulate X

/-- what the routine is meant to compute: `‖x_n − x_m‖²` -/
def sqEuclid (X : Mat N D K) : Mat N N K := fun n m => sumFin D (fun d => (X n d - X m d) * (X n d - X m d))

end Dense

/-! ### the perplexity bisection over an abstract entropy oracle -/
section Bisect
variable {K : Type}
variable [Add K] [Sub K] [Mul K] [Div K] [Neg K] [Zero K] [One K] [LT K] [DecidableLT K]

structure BisState (K : Type) where
  beta : K
  minB : Option K      -- `none` = `-DBL_MAX`
  maxB : Option K      -- `none` = `DBL_MAX`
  found : Bool

def bisectInit : BisState K := ⟨1, none, none, false⟩

/-- one pass of the body of `while (!found && iter < 200)`; `H beta` is the entropy of the row at `beta` -/
def bisectStep (H : K → K) (logPerp tol : K) (s : BisState K) : BisState K :=
  if s.found then s else
  let Hdiff := H s.beta - logPerp
  if Hdiff < tol ∧ -Hdiff < tol then { s with found := true }
  else if 0 < Hdiff then
    { beta := (match s.maxB with
               | none => s.beta * (1 + 1)
               | some mx => (s.beta + mx) / (1 + 1)),
      minB := some s.beta, maxB := s.maxB, found := false }
  else
    { beta := (match s.minB with
               | none => s.beta / (1 + 1)
               | some mn => (s.beta + mn) / (1 + 1)),
      minB := s.minB, maxB := some s.beta, found := false }

def bisectIter (H : K → K) (logPerp tol : K) : Nat → BisState K → BisState K
  | 0, s => s
  | n + 1, s => bisectIter H logPerp tol n (bisectStep H logPerp tol s)

/-- the whole loop (200 passes at most; a found state is a fixed point of `bisectStep`) -/
def bisect (H : K → K) (logPerp tol : K) : BisState K :=
  bisectIter H logPerp tol Gen.TsneOps.bisectIters bisectInit

end Bisect

/-! ### Gaussian rows -/
section Rows
variable {K : Type} {N : Nat}
variable [Add K] [Sub K] [Mul K] [Div K] [Neg K] [Zero K] [One K] [LT K] [DecidableLT K]

/-- row of the dense routine at `beta`: `P[m] = exp(-beta*DD[m])`, `P[self] = DBL_MIN` -/
def rowDense (expf : K → K) (dblMin : K) (dd : Fin N → K) (self : Fin N) (beta : K) : Fin N → K :=
  fun m => if m = self then dblMin else expf (-beta * dd m)

/-- `sum_P = DBL_MIN; for m: sum_P += P[m]` -/
def rowSum (dblMin : K) (row : Fin N → K) : K := dblMin + sumFin N row

/-- `H = (Σ_m beta * (DD[m] * P[m])) / sum_P + log(sum_P)` -/
def rowEntropy (logf : K → K) (dblMin : K) (dd row : Fin N → K) (beta : K) : K :=
  sumFin N (fun m => beta * (dd m * row m)) / rowSum dblMin row + logf (rowSum dblMin row)

/-- `min_DD`: the smallest entry of the row over the OTHER samples (`DBL_MAX` start value, `0` when there is no other
    sample), subtracted from every distance of the row when the source does so (regenerated flag): the normalised row
    and its entropy are unchanged, `exp` no longer underflows before `beta` separates nearly equidistant neighbours -/
def ddShift (dd : Fin N → K) (self : Fin N) : Fin N → K :=
  if Gen.TsneOps.shiftByNearest then
    let others := (List.finRange N).filter (· ≠ self)
    match others with
    | [] => dd
    | a :: rest =>
      let mn := rest.foldl (fun m j => if dd j < m then dd j else m) (dd a)
      fun m => dd m - mn
  else dd

/-- dense overload of `computeGaussianPerplexity`: the returned `beta` of row `n` -/
def betaDense (expf logf : K → K) (dblMin logPerp tol : K) (DD : Mat N N K) (n : Fin N) : BisState K :=
  let dd := ddShift (DD n) n
  bisect (fun b => rowEntropy logf dblMin dd (rowDense expf dblMin dd n b) b) logPerp tol

/-- dense overload of `computeGaussianPerplexity` (row-normalised conditional similarities) -/
def gaussianPerplexityDense (expf logf : K → K) (dblMin logPerp tol : K) (DD : Mat N N K) : Mat N N K :=
  fun n =>
    let b := (betaDense expf logf dblMin logPerp tol DD n).beta
    let row := rowDense expf dblMin (ddShift (DD n) n) n b
    let s := rowSum dblMin row
    fun m => row m / s

/-- K-NN overload: `distances[m+1] - distances[1]` (the nearest neighbour comes first) when the source shifts -/
def knnShift (dist : Fin N → K) : Fin N → K :=
  if Gen.TsneOps.shiftByNearest then
    match (List.finRange N).head? with
    | none => dist
    | some i0 => fun m => dist m - dist i0
  else dist

/-- K-NN overload, one row: `dist` are `distances[1..K]` (the K entries after the query itself) -/
def rowKnn (expf : K → K) (dist : Fin N → K) (beta : K) : Fin N → K := fun m => expf (-beta * dist m)

def betaKnn (expf logf : K → K) (dblMin logPerp tol : K) (dist : Fin N → K) : BisState K :=
  let dist := knnShift dist
  bisect (fun b => rowEntropy logf dblMin dist (rowKnn expf dist b) b) logPerp tol

def gaussianRowKnn (expf logf : K → K) (dblMin logPerp tol : K) (dist : Fin N → K) : Fin N → K :=
  let b := (betaKnn expf logf dblMin logPerp tol dist).beta
  let row := rowKnn expf (knnShift dist) b
  let s := rowSum dblMin row
  fun m => row m / s

/-- the dense symmetrisation loop of `run`: for `n < m`: `P[n][m] += P[m][n]; P[m][n] = P[n][m]`
    (each unordered pair is touched exactly once, the diagonal never) -/
def symDense (P : Mat N N K) : Mat N N K := fun n m =>
  if n.1 < m.1 then P n m + P m n
  else if m.1 < n.1 then P m n + P n m
  else P n m

/-- `P.array().sum()` -/
def total (P : Mat N N K) : K := sumFin N (fun n => sumFin N (fun m => P n m))

/-- `P.array() /= P.array().sum()` -/
def normalise (P : Mat N N K) : Mat N N K :=
  let s := total P
  fun n m => P n m / s

/-- joint similarities of the exact branch -/
def jointDense (P : Mat N N K) : Mat N N K := normalise (symDense P)

end Rows

/-! ### the CSR symmetriser (`symmetrizeMatrix`), statement by statement on arrays -/
section Csr
variable {K : Type}

structure Csr (K : Type) where
  rowP : Array Nat
  colP : Array Nat
  valP : Array K

def rd {α : Type} (a : Array α) (i : Nat) (what : String) : Except Err α :=
  if h : i < a.size then .ok a[i] else .error (.oob what)

def wr {α : Type} (a : Array α) (i : Nat) (v : α) (what : String) : Except Err (Array α) :=
  if h : i < a.size then .ok (a.set i v) else .error (.oob what)

/-- `for (m = row_P[c]; m < row_P[c+1]; m++) if (col_P[m] == n) present = true;` -/
def presentIn (c : Csr K) (col n : Nat) : Except Err Bool := do
  let lo ← rd c.rowP col "row_P[col_P[i]]"
  let hi ← rd c.rowP (col + 1) "row_P[col_P[i]+1]"
  (List.range' lo (hi - lo)).foldlM (fun acc m => do
    let cm ← rd c.colP m "col_P[m]"
    pure (acc || cm == n)) false

/-- all `(n, i)` with `row_P[n] ≤ i < row_P[n+1]`, in loop order -/
def entries (N : Nat) (c : Csr K) : Except Err (List (Nat × Nat)) :=
  (List.range N).foldlM (fun acc n => do
    let lo ← rd c.rowP n "row_P[n]"
    let hi ← rd c.rowP (n + 1) "row_P[n+1]"
    pure (acc ++ (List.range' lo (hi - lo)).map (fun i => (n, i)))) []

/-! #### `symmetrizeMatrix`
Memory model: a `malloc`/`calloc`ed result array is a `Mem` — its allocated size and a partial content function
(`none` = never written).  Every write is checked against the size (`Err.oob`), every cell read by the final
`sym_val_P[i] /= 2.0` loop must have been written (`Err.uninit`).  The input arrays are validated once
(`Csr.wellFormed`: the shape `computeGaussianPerplexity` produces — `row_P` of length `N+1`, starting at 0, non-decreasing,
ending at the length of `col_P`/`val_P`, columns below `N`); on a malformed input the C++ reads out of bounds, which is the
single explicit error `oob "malformed CSR input"`; on a well-formed one every read below is in bounds, so reads are plain
`getD`.  `sym_col_P` and `sym_val_P` are always written at the same index in adjacent statements and are modelled as one
array of pairs. -/

structure Mem (α : Type) where
  size : Nat
  get : Nat → Option α

def Mem.alloc {α : Type} (n : Nat) : Mem α := ⟨n, fun _ => none⟩

def Mem.write {α : Type} (m : Mem α) (i : Nat) (v : α) (what : String) : Except Err (Mem α) :=
  if i < m.size then .ok ⟨m.size, fun j => if j = i then some v else m.get j⟩ else .error (.oob what)

def Csr.R (c : Csr K) (i : Nat) : Nat := c.rowP.getD i 0
def Csr.C (c : Csr K) (i : Nat) : Nat := c.colP.getD i 0
def Csr.V [Zero K] (c : Csr K) (i : Nat) : K := c.valP.getD i 0

def Csr.wellFormed (N : Nat) (c : Csr K) : Bool :=
  c.rowP.size == N + 1 && c.R 0 == 0 && (List.range N).all (fun n => c.R n ≤ c.R (n + 1)) &&
  c.R N == c.colP.size && c.colP.size == c.valP.size && (List.range c.colP.size).all (fun i => c.C i < N)

/-- all `(n, i)` with `row_P[n] ≤ i < row_P[n+1]`, in loop order -/
def csrEntries (N : Nat) (c : Csr K) : List (Nat × Nat) :=
  (List.range N).flatMap fun n => (List.range' (c.R n) (c.R (n + 1) - c.R n)).map fun i => (n, i)

/-- `for (m = row_P[col]; m < row_P[col+1]; m++) if (col_P[m] == n) present = true;` -/
def csrPresent (c : Csr K) (col n : Nat) : Bool :=
  (List.range' (c.R col) (c.R (col + 1) - c.R col)).any fun m => c.C m == n

/-- `f[a]++` -/
def inc (f : Nat → Nat) (a : Nat) : Nat → Nat := fun j => if j = a then f a + 1 else f j

/-- first pass, one element: `if (present) row_counts[n]++; else { row_counts[n]++; row_counts[col_P[i]]++; }` -/
def countStep (c : Csr K) (rc : Nat → Nat) (e : Nat × Nat) : Nat → Nat :=
  if csrPresent c (c.C e.2) e.1 then inc rc e.1 else inc (inc rc e.1) (c.C e.2)

/-- `sym_row_P[0] = 0; sym_row_P[n+1] = sym_row_P[n] + row_counts[n]` -/
def symRowOf (rc : Nat → Nat) : Nat → Nat
  | 0 => 0
  | n + 1 => symRowOf rc n + rc n

structure SymSt (K : Type) where
  mem : Mem (Nat × K)       -- (sym_col_P[p], sym_val_P[p])
  off : Nat → Nat           -- offset[]

variable [Add K] [Div K] [NatCast K] [Zero K]

/-- `sym_col_P[sym_row_P[a] + offset[a]] = b; sym_val_P[sym_row_P[a] + offset[a]] = v` -/
def put (S : Nat → Nat) (st : SymSt K) (a b : Nat) (v : K) : Except Err (SymSt K) :=
  match st.mem.write (S a + st.off a) (b, v) "sym_*_P[sym_row_P[·]+offset[·]]" with
  | .error e => .error e
  | .ok m => .ok { st with mem := m }

/-- the body of the `m` loop of the second pass for the element `(n, col_P[i])` -/
def mStep (c : Csr K) (S : Nat → Nat) (n i : Nat) (sp : SymSt K × Bool) (m : Nat) : Except Err (SymSt K × Bool) :=
  if c.C m = n then
    if n ≤ c.C i then
      match put S sp.1 n (c.C i) (c.V i + c.V m) with
      | .error e => .error e
      | .ok s1 =>
        match put S s1 (c.C i) n (c.V i + c.V m) with
        | .error e => .error e
        | .ok s2 => .ok (s2, true)
    else .ok (sp.1, true)
  else .ok sp

/-- second pass, one element `(n, col_P[i])` -/
def fillStep (c : Csr K) (S : Nat → Nat) (st : SymSt K) (e : Nat × Nat) : Except Err (SymSt K) :=
  let n := e.1
  let i := e.2
  let col := c.C i
  match (List.range' (c.R col) (c.R (col + 1) - c.R col)).foldlM (mStep c S n i) (st, false) with
  | .error err => .error err
  | .ok (st1, present) =>
    -- if (!present) { four writes }
    match (if present then Except.ok st1 else
            match put S st1 n col (c.V i) with
            | .error err => .error err
            | .ok s1 => put S s1 col n (c.V i)) with
    | .error err => .error err
    | .ok st2 =>
      -- if (!present || (present && n <= col_P[i])) { offset[n]++; if (col_P[i] != n) offset[col_P[i]]++; }
      if !present || decide (n ≤ col) then
        .ok { st2 with off := if col ≠ n then inc (inc st2.off n) col else inc st2.off n }
      else .ok st2

/-- one pass of `for (i = 0; i < no_elem; i++) sym_val_P[i] /= 2.0;` (the cell is read: an unwritten one is an
    uninitialised read) -/
def readCell (st : SymSt K) (p : Nat) : Except Err (Nat × K) :=
  match st.mem.get p with
  | some cv => .ok (cv.1, cv.2 / ((Gen.TsneOps.symDivisor : Nat) : K))
  | none => .error (Err.uninit "sym_val_P")

/-- `symmetrizeMatrix(&row_P, &col_P, &val_P, N)` -/
def symmetrizeCsr (N : Nat) (c : Csr K) : Except Err (Csr K) :=
  if c.wellFormed N = false then .error (.oob "malformed CSR input") else
  let es := csrEntries N c
  let rc := es.foldl (countStep c) (fun _ => 0)
  let S := symRowOf rc
  let noElem := S N                       -- no_elem = Σ row_counts[n]
  match es.foldlM (fillStep c S) (⟨Mem.alloc noElem, fun _ => 0⟩ : SymSt K) with
  | .error e => .error e
  | .ok st =>
    -- sym_val_P[i] /= 2.0  (every cell is read: an unwritten one is an uninitialised read)
    match (List.range noElem).mapM (readCell st) with
    | .error e => .error e
    | .ok cells =>
      .ok ⟨((List.range (N + 1)).map S).toArray, (cells.map (·.1)).toArray, (cells.map (·.2)).toArray⟩

/-- the CSR matrix as a dense function (entries of a row with the same column add up) -/
def Csr.entry [Zero K] (c : Csr K) (n m : Nat) : K :=
  let lo := c.rowP.getD n 0
  let hi := c.rowP.getD (n + 1) 0
  (List.range' lo (hi - lo)).foldl (fun acc i => if c.colP.getD i 0 = m then acc + c.valP.getD i 0 else acc) 0

/-- `sum_P = Σ val_P[i]; val_P[i] /= sum_P` -/
def Csr.normalise [Zero K] (c : Csr K) : Csr K :=
  let s := c.valP.foldl (· + ·) 0
  { c with valP := c.valP.map (· / s) }

end Csr

/-! ### gradients -/
section Grad
variable {K : Type} {N D : Nat}
variable [Add K] [Sub K] [Mul K] [Div K] [Neg K] [Zero K] [One K] [NatCast K] [LT K] [DecidableLT K] [DecidableEq K]

/-- `computeExactGradient(P, Y, N, D, dC)` with the distance matrix as a parameter -/
def exactGradientOf (DD P : Mat N N K) (Y : Mat N D K) : Mat N D K :=
  let Q : Mat N N K := fun n m => 1 / (1 + DD n m)
  let sumQ : K := sumFin N (fun n => sumFin N (fun m => if n = m then 0 else Q n m))
  fun n d => sumFin N (fun m =>
    if n = m then 0 else (Y n d - Y m d) * ((P n m - Q n m / sumQ) * Q n m))

/-- `computeExactGradient` AS WRITTEN: the distances come from `computeSquaredEuclideanDistance` -/
def exactGradient (P : Mat N N K) (Y : Mat N D K) : Mat N D K := exactGradientOf (sqDist Y) P Y

/-- the same formula over the true squared distances -/
def exactGradientSpec (P : Mat N N K) (Y : Mat N D K) : Mat N D K := exactGradientOf (sqEuclid Y) P Y

/-- `QuadTree(Y, N)` reads `Y[n*QT_NO_DIMS + d]` -/
def bhPoints (N : Nat) (Y : Array K) : Except Err (List (K × K)) :=
  let q := Gen.TsneOps.qtNoDims
  (List.range N).mapM (fun n => do
    let x ← rd Y (n * q) "Y[n*QT_NO_DIMS]"
    let y ← rd Y (n * q + 1) "Y[n*QT_NO_DIMS+1]"
    pure (x, y))

/-- `computeEdgeForces`, the body for one stored element `(n, i)`, `row_P[n] ≤ i < row_P[n+1]` -/
def edgeStep (c : Csr K) (parr : Array (K × K)) (pf : Array K) (e : Nat × Nat) : Except Err (Array K) := do
  let q := Gen.TsneOps.qtNoDims
  let (n, i) := e
  let col ← rd c.colP i "col_P[i]"
  let v ← rd c.valP i "val_P[i]"
  let a ← rd parr n "Y[ind1]"
  let b ← rd parr col "Y[ind2]"
  let buff : K × K := (a.1 - b.1, a.2 - b.2)
  let w := v / (1 + QuadTree.sqNorm buff)
  let p0 ← rd pf (n * q) "pos_f[ind1]"
  let pf ← wr pf (n * q) (p0 + w * buff.1) "pos_f[ind1]"
  let p1 ← rd pf (n * q + 1) "pos_f[ind1+1]"
  wr pf (n * q + 1) (p1 + w * buff.2) "pos_f[ind1+1]"

/-- `computeNonEdgeForces(n, theta, neg_f + n*D, &sum_Q)`: one running `sum_Q` for all `n` -/
def nonEdgeStep (data : Nat → K × K) (θ : K) (D : Nat) (tree : QuadTree.Tree K) (st : Array K × K) (n : Nat) :
    Except Err (Array K × K) := do
  let (nf, sq) := st
  let n0 ← rd nf (n * D) "neg_f[n*D]"
  let n1 ← rd nf (n * D + 1) "neg_f[n*D+1]"
  let r := QuadTree.forces data θ n tree ((n0, n1), sq)
  let nf ← wr nf (n * D) r.1.1 "neg_f[n*D]"
  let nf ← wr nf (n * D + 1) r.1.2 "neg_f[n*D+1]"
  pure (nf, r.2)

/-- `dC[i] = pos_f[i] - neg_f[i] / sum_Q` -/
def combineStep (posF negF : Array K) (sumQ : K) (dC : Array K) (i : Nat) : Except Err (Array K) := do
  let p ← rd posF i "pos_f[i]"
  let g ← rd negF i "neg_f[i]"
  wr dC i (p - g / sumQ) "dC[i]"

/-- `computeGradient(…, Y, N, D, dC, theta)` on flat buffers.  The quadtree and `computeEdgeForces` address `Y` and
    `pos_f` with stride `QT_NO_DIMS`, `computeGradient` addresses `neg_f` with stride `D` and combines `N*D` cells. -/
def bhGradient (fuel : Nat) (eps θ : K) (N D : Nat) (c : Csr K) (Y : Array K) : Except Err (Array K) := do
  -- QuadTree(Y, N) reads Y[n*QT_NO_DIMS + d]
  let pts ← bhPoints N Y
  let parr := pts.toArray
  let data : Nat → K × K := fun i => parr.getD i (0, 0)
  let root := QuadTree.rootCell eps pts
  match QuadTree.buildIn data fuel root (List.range N) with
  | none => .error (.oob "quadtree: out of fuel")
  | some tree =>
    -- computeEdgeForces
    let es ← entries N c
    let posF ← es.foldlM (edgeStep c parr) (Array.replicate (N * D) 0)
    -- computeNonEdgeForces(n, theta, neg_f + n*D, &sum_Q): one running sum_Q for all n
    let (negF, sumQ) ← (List.range N).foldlM (nonEdgeStep data θ D tree) (Array.replicate (N * D) 0, 0)
    -- dC[i] = pos_f[i] - neg_f[i] / sum_Q
    (List.range (N * D)).foldlM (combineStep posF negF sumQ) (Array.replicate (N * D) 0)

end Grad

/-! ### `tsne::VpTree<DataPoint, euclidean_distance>` -/
section Vp
variable {K : Type}
variable [Add K] [Sub K] [Mul K] [Zero K] [LT K] [DecidableLT K] [LE K] [DecidableLE K]

/-- stable insertion sort (structural, so that the kernel can evaluate the model on concrete witnesses) -/
def insertBy {α : Type} (le : α → α → Bool) (x : α) : List α → List α
  | [] => [x]
  | y :: ys => if le y x then y :: insertBy le x ys else x :: y :: ys

def sortBy {α : Type} (le : α → α → Bool) (l : List α) : List α := l.foldl (fun acc x => insertBy le x acc) []

/-- the accumulator of `tsne::euclidean_distance`: `dd += (a_d - b_d)*(a_d - b_d)` -/
def sqDistance (a b : List K) : K := (List.zipWith (fun x y => (x - y) * (x - y)) a b).foldl (· + ·) 0

/-- `tsne::euclidean_distance` AS WRITTEN: `return sqrt(dd)` or `return dd` (regenerated from the source);
    `sqrtf` is the square-root kernel (contract: `sqrtf x ≥ 0`, `sqrtf x * sqrtf x = x` for `x ≥ 0`) -/
def vpDistance (sqrtf : K → K) (a b : List K) : K :=
  if Gen.TsneOps.vpMetric then sqrtf (sqDistance a b) else sqDistance a b

/-- what the K-NN perplexity routine feeds to the Gaussian kernel for a distance `d` returned by the search -/
def kernelDistance [Mul K] (d : K) : K := if Gen.TsneOps.squareAfterSearch then d * d else d

inductive VpNode (K : Type) where
  | nil : VpNode K
  | node (index : Nat) (threshold : K) (left right : VpNode K) : VpNode K

def VpNode.isNil : VpNode K → Bool
  | .nil => true
  | _ => false

/-- heap item `(index, dist)`; the `std::priority_queue` is a list, `top` = largest `dist` -/
abbrev Heap (K : Type) := List (Nat × K)

def heapTop : Heap K → Option K
  | [] => none
  | x :: t =>
    match heapTop t with
    | none => some x.2
    | some m => if m < x.2 then some x.2 else some m

/-- `pop`: remove one item of largest `dist` (the first one met) -/
def heapPop : Heap K → Heap K
  | [] => []
  | x :: t =>
    match heapTop t with
    | none => t
    | some m => if m < x.2 then t else x :: heapPop t

structure SearchState (K : Type) where
  tau : Option K          -- `none` = `DBL_MAX`
  heap : Heap K

/-- `search(Node*, target, k, heap)` AS WRITTEN -/
def vpSearch (distf : List K → List K → K) (items : Nat → List K) (target : List K) (k : Nat) :
    VpNode K → SearchState K → SearchState K
  | .nil, s => s
  | .node idx thr l r, s =>
    let dist := distf (items idx) target
    -- if (dist < _tau) { if (heap.size() == k) heap.pop(); heap.push(...); if (heap.size() == k) _tau = heap.top().dist; }
    let s1 : SearchState K :=
      if (match s.tau with | none => true | some t => decide (dist < t)) then
        let h1 := if s.heap.length = k then heapPop s.heap else s.heap
        let h2 := (idx, dist) :: h1
        ⟨if h2.length = k then heapTop h2 else s.tau, h2⟩
      else s
    if l.isNil && r.isNil then s1
    else if dist < thr then
      let s2 := vpSearch distf items target k l s1
      -- if (dist + _tau >= node->threshold)
      if (match s2.tau with | none => true | some t => decide (thr ≤ dist + t)) then vpSearch distf items target k r s2 else s2
    else
      let s2 := vpSearch distf items target k r s1
      -- if (dist - _tau <= node->threshold)
      if (match s2.tau with | none => true | some t => decide (dist - t ≤ thr)) then vpSearch distf items target k l s2 else s2

/-- public `search(target, k, &results, &distances)`: the heap drained and reversed — nearest first -/
def vpSearchTop (dist : List K → List K → K) (items : Nat → List K) (root : VpNode K) (target : List K) (k : Nat) :
    List (Nat × K) :=
  sortBy (fun a b => decide (a.2 ≤ b.2)) (vpSearch dist items target k root ⟨none, []⟩).heap

/-- `std::swap(items[lower], items[i])` on the segment `x :: rest`: the vantage point and the tail -/
def vpSwap {α : Type} (x : α) (rest : List α) (i : Nat) : α × List α :=
  match i with
  | 0 => (x, rest)
  | j + 1 => match rest[j]? with
    | none => (x, rest)
    | some y => (y, rest.set j x)

/-- the node built from a chosen vantage point `vp` and the `tail` of its segment (`cnt` items in all); `recur` builds
    the two subtrees -/
def vpNodeOf (dist : List K → List K → K)
    (recur : Nat → Nat → List (Nat × List K) → VpNode K × List (Nat × List K) × Nat)
    (base draw cnt : Nat) (vp : Nat × List K) (tail : List (Nat × List K)) :
    VpNode K × List (Nat × List K) × Nat :=
  let sorted := sortBy (fun a b => decide (dist vp.2 a.2 ≤ dist vp.2 b.2)) tail
  let medRel := cnt / 2 - 1      -- position of `median` inside the tail
  let thr := match sorted[medRel]? with
    | some m => dist vp.2 m.2
    | none => 0
  let L := recur (base + 1) (draw + 1) (sorted.take medRel)
  let R := recur (base + 1 + medRel) L.2.2 (sorted.drop medRel)
  (.node base thr L.1 R.1, vp :: (L.2.1 ++ R.2.1), R.2.2)

/-- `buildFromPoints(lower, upper)` on the item segment, positions relative to `lower = base`.
    `pick cnt` models `(int)(uniform_random() * (upper-lower-1))`; `std::nth_element` is modelled by one admissible
    outcome (a stable sort of the tail by distance to the vantage point).  Returns the node and the reordered segment. -/
def vpBuild (dist : List K → List K → K) (pick : Nat → Nat → Nat) :
    Nat → Nat → Nat → List (Nat × List K) → VpNode K × List (Nat × List K) × Nat
  | 0, _, draw, seg => (.nil, seg, draw)
  | fuel + 1, base, draw, seg =>
    match seg with
    | [] => (.nil, [], draw)
    | [x] => (.node base 0 .nil .nil, [x], draw)
    | x :: rest =>
      let cnt := rest.length + 1
      -- swap(items[lower], items[i])
      let pr := vpSwap x rest (pick draw (cnt - 1))
      vpNodeOf dist (vpBuild dist pick fuel) base draw cnt pr.1 pr.2

/-! #### the same build with EVERY outcome of `std::nth_element`
`nth draw vp tail k` is the tail of the segment as the `draw`-th call of `std::nth_element(items+lower+1, items+median,
items+upper, DistanceComparator(items[lower]))` leaves it (`k = median − lower − 1`); its contract (`NthOK`,
Proofs/TsneVpBuildNth.lean: a permutation whose position `k` holds an element not nearer to the vantage point than the
ones before and not farther than the ones after) is all the theorems use.  `vpBuild` is the instance `sortNth`. -/

/-- the node built from the vantage point `vp` and the arranged tail `arr` of its segment (`cnt` items in all) -/
def vpNodeArr (dist : List K → List K → K)
    (recur : Nat → Nat → List (Nat × List K) → VpNode K × List (Nat × List K) × Nat)
    (base draw cnt : Nat) (vp : Nat × List K) (arr : List (Nat × List K)) :
    VpNode K × List (Nat × List K) × Nat :=
  let medRel := cnt / 2 - 1      -- position of `median` inside the tail
  let thr := match arr[medRel]? with
    | some m => dist vp.2 m.2
    | none => 0
  let L := recur (base + 1) (draw + 1) (arr.take medRel)
  let R := recur (base + 1 + medRel) L.2.2 (arr.drop medRel)
  (.node base thr L.1 R.1, vp :: (L.2.1 ++ R.2.1), R.2.2)

def vpBuildWith (dist : List K → List K → K) (pick : Nat → Nat → Nat)
    (nth : Nat → Nat × List K → List (Nat × List K) → Nat → List (Nat × List K)) :
    Nat → Nat → Nat → List (Nat × List K) → VpNode K × List (Nat × List K) × Nat
  | 0, _, draw, seg => (.nil, seg, draw)
  | fuel + 1, base, draw, seg =>
    match seg with
    | [] => (.nil, [], draw)
    | [x] => (.node base 0 .nil .nil, [x], draw)
    | x :: rest =>
      let cnt := rest.length + 1
      let pr := vpSwap x rest (pick draw (cnt - 1))
      vpNodeArr dist (vpBuildWith dist pick nth fuel) base draw cnt pr.1 (nth draw pr.1 pr.2 (cnt / 2 - 1))

/-- the outcome `vpBuild` uses: a stable sort of the tail by distance to the vantage point -/
def sortNth (dist : List K → List K → K) :
    Nat → Nat × List K → List (Nat × List K) → Nat → List (Nat × List K) :=
  fun _ vp tail _ => sortBy (fun a b => decide (dist vp.2 a.2 ≤ dist vp.2 b.2)) tail

end Vp

end TapkeeVerif.Tsne
