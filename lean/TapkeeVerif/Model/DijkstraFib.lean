import TapkeeVerif.Model.Dijkstra
import TapkeeVerif.Model.FibHeap
/-!
The Fibonacci-heap build of `compute_shortest_distances_matrix` with the *concrete* heap: the same statements as
the `indexed` discipline of `Model/Dijkstra.lean`, but `heap` is the model of `tapkee_internal::fibonacci_heap`
itself (`Model/FibHeap.lean`, property C16: root/child rings, `consolidate`, cascading cuts) instead of an abstract
indexed queue with a choice stream.  Keys are `Int` as in C16 (the heap only compares and copies keys).

`Proofs/DijkstraFib.lean` shows by forward simulation, using C16's one-step refinement theorem `step_ok`, that every
run of this model is a run of the abstract `indexed` discipline for *some* choice stream — hence inherits
`dijkstra_exact`.  Core Lean only.
-/
namespace TapkeeVerif.Dijkstra
open FibHeap (Heap)

/-- per-source state with the concrete heap -/
structure FSt (N : Nat) where
  dist : Vector (Option Int) N
  s : Vector Bool N
  f : Vector Bool N
  h : Heap

variable {N : Nat}

/-- body of the edge loop for `w = x`, Fibonacci-heap build, concrete heap -/
def fibEdge (w : Nat → Nat → Int) (u : Nat) (hu : u < N) (x : Nat) (hx : x < N) (σ : FSt N) : Except Err (FSt N) :=
  if σ.s[x] = false then
    match σ.dist[u] with
    | none => .ok σ
    | some du =>
      let d := du + w u x
      if ltDist d σ.dist[x] then
        if σ.f[x] then
          match σ.h.decreaseKey (x : Int) d with
          | .ok h' => .ok { σ with dist := σ.dist.set x (some d), h := h' }
          | .error _ => .error .heap
        else
          .ok { σ with dist := σ.dist.set x (some d), h := σ.h.insert (x : Int) d, f := σ.f.set x true }
      else .ok σ
  else .ok σ

def fibEdges (P : Problem Int) (u : Nat) (hu : u < P.N) : List Nat → FSt P.N → Except Err (FSt P.N)
  | [], σ => .ok σ
  | i :: is, σ =>
    match P.nbr u i with
    | none => .error .oob
    | some x =>
      if hx : x < P.N then
        match fibEdge P.w u hu x hx σ with
        | .ok σ' => fibEdges P u hu is σ'
        | .error e => .error e
      else .error .oob

/-- `while (!heap.empty())` with `heap.extract_min` -/
def fibLoop (P : Problem Int) (k : Nat) : Nat → FSt P.N → Except Err (FSt P.N)
  | 0, _ => .error .fuel
  | fuel + 1, σ =>
    if σ.h.numNodes = 0 then .ok σ
    else
      match σ.h.extractMin with
      | .error _ => .error .heap
      | .ok (_, none) => .error .oob          -- `extract_min` returned `-1`: `s[-1] = true`
      | .ok (h', some (u, _)) =>
        if hu : u < P.N then
          match fibEdges P u hu (List.range k) { σ with h := h', s := σ.s.set u true, f := σ.f.set u false } with
          | .error e => .error e
          | .ok σ' => fibLoop P k fuel σ'
        else .error .oob

def fibInit (src : Nat) (hs : src < N) (flag : Nat) (hf : flag < N) : FSt N :=
  { dist := (Vector.replicate N none).set src (some 0),
    s := Vector.replicate N false,
    f := (Vector.replicate N false).set flag true,
    h := (Heap.init N).insert (src : Int) 0 }

def fibRow (P : Problem Int) (k : Nat) (src flag : Nat) : Except Err (Vector (Option Int) P.N) :=
  if hs : src < P.N then
    if hf : flag < P.N then
      match fibLoop P k (fuelFor P.N k) (fibInit src hs flag hf) with
      | .ok σ => .ok σ.dist
      | .error e => .error e
    else .error .oob
  else .error .oob

def fibAllPairs (P : Problem Int) : Except Err (List (Vector (Option Int) P.N)) :=
  match P.k? with
  | none => .error .oob
  | some k => (List.range P.N).mapM fun s => fibRow P k s s

def fibLandmarkRows (P : Problem Int) (lm : List Nat) : Except Err (List (Vector (Option Int) P.N)) :=
  match P.k? with
  | none => .error .oob
  | some k => lm.zipIdx.mapM fun (l, r) => fibRow P k l (Gen.Isomap.landmarkFlag r l)

end TapkeeVerif.Dijkstra
