/-
Model of tapkee's OpenMP worksharing loops (property C15), core Lean only.

Two layers.

1. **Operational model.**  A parallel loop is `(n, body : Fin n → Prog)`: one program per loop
   iteration.  A program is a list of effects `Eff` (`read loc | write loc val | criticalAppend x`,
   the value written / appended may depend on what the iteration has read so far) or, more
   generally, an interaction tree `Prog` (what is accessed next may depend on the values read: the
   Dijkstra loops of `routines/isomap.hpp` branch on `shortest_distances(k, w)`).
   `runSched σ` executes the loop under an arbitrary schedule `σ : List (Fin n)` — at every step the
   scheduler picks an iteration and executes its next effect, so the schedules are exactly the
   interleavings of the per-iteration effect sequences that respect program order inside an
   iteration; a `critical` section is one atomic step (mutual exclusion).  Iterations are the unit of
   interleaving, which over-approximates every assignment of iterations to OpenMP threads
   (static, dynamic, guided, any chunk size, any thread count).  Variables declared inside the
   region (thread-private scratch) are not locations.  `sequential` is the single-threaded loop.

2. **Access tables.**  `Region` / `Access` is the shape of the table `Gen/OmpRegions.lean` that
   `tools/translate_omp.py` regenerates from the source: for every `#pragma omp parallel` region the
   accesses to variables declared outside the region, as `(array, row, column)` with the row / column
   given as functions of the loop variable `i`, of loop-invariant shared scalars `s k` and of
   iteration-private values `v k` (inner loop variables with their ranges in `guard`, other private
   or opaque values unconstrained).  `Region.RaceFree` is the disjointness statement the per-region
   theorems of `Props/C15.lean` prove.
-/
namespace TapkeeVerif.Omp

/-- a memory location: (array id, row, column) -/
structure Loc where
  arr : Nat
  row : Nat
  col : Nat
deriving DecidableEq, Repr

/-! ### 1. operational model -/

/-- effects of one loop iteration in program order; `hist` = values this iteration has read so far,
    most recent first -/
inductive Eff (V E : Type) where
  | read (l : Loc)
  | write (l : Loc) (val : List V → V)
  | criticalAppend (x : List V → E)

/-- interaction-tree form of an iteration -/
inductive Prog (V E : Type) where
  | done
  | read (l : Loc) (k : V → Prog V E)
  | write (l : Loc) (v : V) (k : Prog V E)
  | crit (x : E) (k : Prog V E)

variable {V E : Type}

/-- a straight-line effect list as a program -/
def Prog.ofEffs : List (Eff V E) → List V → Prog V E
  | [], _ => .done
  | .read l :: es, h => .read l (fun v => Prog.ofEffs es (v :: h))
  | .write l f :: es, h => .write l (f h) (Prog.ofEffs es h)
  | .criticalAppend f :: es, h => .crit (f h) (Prog.ofEffs es h)

/-- shared state: memory and the container that is appended to inside `omp critical`
    (entries tagged with the iteration that appended them) -/
structure State (V E : Type) where
  mem : Loc → V
  log : List (Nat × E)

def setMem (m : Loc → V) (l : Loc) (v : V) : Loc → V := fun l' => if l' = l then v else m l'

/-- run one iteration to completion (single-threaded semantics) -/
def Prog.exec : Prog V E → Nat → State V E → State V E
  | .done, _, st => st
  | .read l k, t, st => (k (st.mem l)).exec t st
  | .write l v k, t, st => k.exec t { st with mem := setMem st.mem l v }
  | .crit x k, t, st => k.exec t { st with log := st.log ++ [(t, x)] }

/-- locations an iteration may write / read on some control path -/
inductive Prog.Writes : Prog V E → Loc → Prop
  | here {l v k} : Prog.Writes (.write l v k) l
  | write_k {l v k l'} : Prog.Writes k l' → Prog.Writes (.write l v k) l'
  | read_k {l0 k v l} : Prog.Writes (k v) l → Prog.Writes (.read l0 k) l
  | crit_k {x k l} : Prog.Writes k l → Prog.Writes (.crit x k) l

inductive Prog.Reads : Prog V E → Loc → Prop
  | here {l k} : Prog.Reads (.read l k) l
  | read_k {l0 k v l} : Prog.Reads (k v) l → Prog.Reads (.read l0 k) l
  | write_k {l v k l'} : Prog.Reads k l' → Prog.Reads (.write l v k) l'
  | crit_k {x k l} : Prog.Reads k l → Prog.Reads (.crit x k) l

structure ParLoop (V E : Type) where
  n : Nat
  body : Fin n → Prog V E

/-- configuration of a running loop: shared state and the residual program of every iteration -/
structure Config (V E : Type) (n : Nat) where
  st : State V E
  threads : Fin n → Prog V E

def updThread {n : Nat} (f : Fin n → Prog V E) (i : Fin n) (p : Prog V E) : Fin n → Prog V E :=
  fun j => if j = i then p else f j

/-- iteration `t` executes its next effect (a finished iteration does nothing) -/
def Config.step {n : Nat} (c : Config V E n) (t : Fin n) : Config V E n :=
  match c.threads t with
  | .done => c
  | .read l k => { c with threads := updThread c.threads t (k (c.st.mem l)) }
  | .write l v k => { st := { c.st with mem := setMem c.st.mem l v }, threads := updThread c.threads t k }
  | .crit x k => { st := { c.st with log := c.st.log ++ [(t.val, x)] }, threads := updThread c.threads t k }

def ParLoop.init (p : ParLoop V E) (m0 : Loc → V) : Config V E p.n := ⟨⟨m0, []⟩, p.body⟩

/-- execute under the schedule `σ` -/
def ParLoop.runSched (p : ParLoop V E) (m0 : Loc → V) (σ : List (Fin p.n)) : Config V E p.n :=
  σ.foldl Config.step (p.init m0)

/-- the schedule runs every iteration to its end -/
def ParLoop.Complete (p : ParLoop V E) (m0 : Loc → V) (σ : List (Fin p.n)) : Prop :=
  ∀ i, (p.runSched m0 σ).threads i = .done

/-- the loop executed by one thread, iterations in increasing order -/
def ParLoop.sequential (p : ParLoop V E) (m0 : Loc → V) : State V E :=
  (List.finRange p.n).foldl (fun st i => (p.body i).exec i.val st) ⟨m0, []⟩

/-- result of iteration `i` run alone on the initial memory -/
def ParLoop.solo (p : ParLoop V E) (m0 : Loc → V) (i : Fin p.n) : State V E :=
  (p.body i).exec i.val ⟨m0, []⟩

/-- `∀ i ≠ j, W i ∩ (W j ∪ R j) = ∅` : no location written by one iteration is written or read by another -/
def ParLoop.RaceFree (p : ParLoop V E) : Prop :=
  ∀ i j : Fin p.n, i ≠ j → ∀ l, (p.body i).Writes l → ¬ (p.body j).Writes l ∧ ¬ (p.body j).Reads l

/-- sparse matrix assembled from triplets `(row, col, value)`: duplicates are summed -/
def fromTriplets {K : Type} [Add K] [Zero K] (l : List (Nat × Nat × K)) (r c : Nat) : K :=
  ((l.filter (fun t => t.1 == r && t.2.1 == c)).map (fun t => t.2.2)).foldr (· + ·) 0

/-! ### 2. access tables (shape of `Gen/OmpRegions.lean`) -/

inductive Kind where
  | read | write | append
deriving DecidableEq, Repr

def Kind.isWrite : Kind → Bool
  | .read => false
  | _ => true

/-- One access to a variable declared outside the parallel region.
    `s k` : loop-invariant shared scalars (`Region.syms`), the same in all iterations;
    `v k` : iteration-private values (`vars`: inner loop variables, private scalars, opaque
    sub-expressions), arbitrary unless constrained by `guard`;  `i` : the worksharing loop variable.
    `row`/`col` = `none` means the whole dimension (e.g. `M.row(i)`, a whole container). -/
structure Access where
  arr : Nat
  arrName : String
  kind : Kind
  /-- inside `#pragma omp critical` -/
  critical : Bool
  /-- inside the worksharing loop (false: executed once by every thread of the team) -/
  inLoop : Bool
  /-- the access belongs to ANOTHER worksharing loop of the same parallel region that may run concurrently with this
      one (`nowait`); its location does not depend on this region's loop variable.  Pairs of foreign accesses are
      checked in that loop's own region, pairs (own, foreign) here. -/
  foreign : Bool := false
  vars : List String
  guard : (s v : Nat → Nat) → (i : Nat) → Bool
  row : (s v : Nat → Nat) → (i : Nat) → Option Nat
  col : (s v : Nat → Nat) → (i : Nat) → Option Nat
  src : String

structure Region where
  name : String
  file : String
  func : String
  /-- configuration macro under which the region was read ("" = default build) -/
  config : String
  loopVar : String
  loopLo : String
  loopHi : String
  /-- source text of the loop-invariant shared scalars `s 0, s 1, …` -/
  syms : List String
  lo : (s : Nat → Nat) → Nat
  hi : (s : Nat → Nat) → Nat
  /-- names of the shared arrays, indexed by `Access.arr` -/
  arrays : List String
  /-- variables declared inside the region or listed in `private(...)` (not locations) -/
  privateVars : List String
  /-- shared variables that no iteration writes -/
  sharedReadOnly : List String
  /-- user callbacks invoked concurrently (assumed re-entrant; outside the model) -/
  reentrantCalls : List String
  /-- raw clause text of the pragmas -/
  clauses : List String
  accesses : List Access

def dimOverlap : Option Nat → Option Nat → Prop
  | some a, some b => a = b
  | _, _ => True

@[simp] theorem dimOverlap_some (a b : Nat) : dimOverlap (some a) (some b) ↔ a = b := Iff.rfl
@[simp] theorem dimOverlap_none_left (x : Option Nat) : dimOverlap none x ↔ True := by
  cases x <;> exact Iff.rfl
@[simp] theorem dimOverlap_none_right (x : Option Nat) : dimOverlap x none ↔ True := by
  cases x <;> exact Iff.rfl

/-- accesses `a` (in iteration `i`) and `b` (in a different iteration `j`) can touch the same
    location without both being inside a critical section, `a` being a write -/
def Access.ConflictsWith (lo hi : (Nat → Nat) → Nat) (a b : Access) : Prop :=
  a.kind.isWrite = true ∧ a.arr = b.arr ∧ ¬ (a.critical = true ∧ b.critical = true) ∧
  ¬ (a.foreign = true ∧ b.foreign = true) ∧
  ∃ (s : Nat → Nat) (i j : Nat) (va vb : Nat → Nat), i ≠ j ∧ lo s ≤ i ∧ i < hi s ∧ lo s ≤ j ∧ j < hi s ∧
    a.guard s va i = true ∧ b.guard s vb j = true ∧
    dimOverlap (a.row s va i) (b.row s vb j) ∧ dimOverlap (a.col s va i) (b.col s vb j)

/-- No two different iterations access the same shared location without synchronisation when at
    least one of them writes. -/
def Region.RaceFree (r : Region) : Prop :=
  ∀ a ∈ r.accesses, ∀ b ∈ r.accesses, ¬ a.ConflictsWith r.lo r.hi b

/-- the table lists at least one write (an empty table would make `RaceFree` vacuous) -/
def Region.hasWrite (r : Region) : Bool := r.accesses.any fun a => a.kind.isWrite

/-- everything done under `omp critical` is an append to a container -/
def Region.criticalAppendOnly (r : Region) : Bool :=
  r.accesses.all fun a => (!a.critical) || a.kind == .append

/-- the region has no critical section at all: schedule-independent bit for bit -/
def Region.noCritical (r : Region) : Bool :=
  r.accesses.all fun a => !a.critical

/-- the location set of an access in iteration `i` -/
def Access.covers (a : Access) (s : Nat → Nat) (i : Nat) (l : Loc) : Prop :=
  a.arr = l.arr ∧ ∃ v : Nat → Nat, a.guard s v i = true ∧
    dimOverlap (a.row s v i) (some l.row) ∧ dimOverlap (a.col s v i) (some l.col)

/-- uncritical write / read footprint of iteration `i` according to the table -/
def Region.writeSet (r : Region) (s : Nat → Nat) (i : Nat) (l : Loc) : Prop :=
  ∃ a ∈ r.accesses, a.kind.isWrite = true ∧ a.critical = false ∧ a.foreign = false ∧ a.covers s i l
def Region.readSet (r : Region) (s : Nat → Nat) (i : Nat) (l : Loc) : Prop :=
  ∃ a ∈ r.accesses, a.kind = .read ∧ a.critical = false ∧ a.foreign = false ∧ a.covers s i l

/-- a concrete loop performs only the accesses listed in the region's table: iteration `k` of the
    loop is the value `lo + k` of the loop variable; writes stay inside the table's write set;
    reads of locations that some iteration may write stay inside the table's read set -/
structure ParLoop.Conforms (p : ParLoop V E) (r : Region) (s : Nat → Nat) : Prop where
  size : r.lo s + p.n ≤ r.hi s
  writes : ∀ (k : Fin p.n) l, (p.body k).Writes l → r.writeSet s (r.lo s + k.val) l
  reads : ∀ (k : Fin p.n) l, (p.body k).Reads l →
    (∃ k' : Fin p.n, (p.body k').Writes l) → r.readSet s (r.lo s + k.val) l ∨ r.writeSet s (r.lo s + k.val) l

end TapkeeVerif.Omp
