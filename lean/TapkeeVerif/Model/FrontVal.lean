import TapkeeVerif.Model.FrontTypes
import TapkeeVerif.Gen.Methods
/-
Values a parameter can carry (needs the generated method enumerations).  Core Lean only.
-/
namespace TapkeeVerif.Front
open TapkeeVerif.Gen

inductive Val where
  | int (i : Int)                       -- IndexType
  | real (x : XReal)                    -- ScalarType: a double - an exact (dyadic) rational, NaN or ±inf
  | bool (b : Bool)
  | method (m : Meth)
  | neighbors (m : NbrMeth)
  | eigen (m : EigMeth)
  | strategy (s : Strat)
  | progressFn (null : Bool)            -- void (*)(double)
  | cancelFn (returns : Option Bool)    -- bool (*)():  none = NULL, some b = a function returning b
  | other (tag : String)                -- a value of any other C++ type
  deriving DecidableEq, Repr, Inhabited

def Val.ty : Val → Ty
  | .int _ => .int | .real _ => .real | .bool _ => .bool | .method _ => .method | .neighbors _ => .neighbors
  | .eigen _ => .eigen | .strategy _ => .strategy | .progressFn _ => .progressFn | .cancelFn _ => .cancelFn
  | .other t => .other t

/-- numeric content of an `int` / `real` value -/
def Val.num? : Val → Option XReal
  | .int i => some (XReal.fin (i : Rat))
  | .real x => some x
  | _ => none

end TapkeeVerif.Front
