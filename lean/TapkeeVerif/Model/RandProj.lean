import TapkeeVerif.Model.Mat
/-!
Model of Random Projection (`methods/random_projection.hpp`, `routines/random_projection.hpp`,
`compute_mean` / `project` of `routines/pca.hpp`), core Lean only.  Samples are the ROWS of `X : Mat N D K`.

The Gaussian stream is an input: `gauss c` is the `c`-th value returned by `tapkee::gaussian_random()`.
`gaussian_projection_matrix(rows, cols)` fills a `rows × cols` matrix row by row with `gauss / sqrt(rows)`;
the method calls it AS WRITTEN with `(current_dimension, target_dimension)`, i.e. the matrix is `D × d` and every
entry is divided by `sqrt(D)` (`sqrtRows` is the value the sqrt oracle returned for `D`).
-/
namespace TapkeeVerif.RandProj
variable {K : Type} {N D d : Nat}

/-- `projection_matrix(i, j) = gaussian_random() / sqrt(rows)`, `i` outer loop, `j` inner loop -/
def gaussianMatrix [Div K] (rows cols : Nat) (gauss : Nat → K) (sqrtRows : K) : Mat rows cols K :=
  fun i j => gauss (i.1 * cols + j.1) / sqrtRows

/-- `compute_mean`: sum of the feature vectors divided by the number of samples -/
def mean [Add K] [Zero K] [Div K] [NatCast K] (X : Mat N D K) : Vec D K :=
  fun c => (sumFin N fun i => X i c) / (N : K)

/-- the centred samples `x_i − mean` -/
def centre [Add K] [Zero K] [Sub K] [Div K] [NatCast K] (X : Mat N D K) : Mat N D K :=
  fun i c => X i c - mean X c

/-- `project`: row `i` of the embedding is `Pᵀ (x_i − μ)` -/
def project [Add K] [Zero K] [Sub K] [Mul K] (P : Mat D d K) (mu : Vec D K) (X : Mat N D K) : Mat N d K :=
  fun i j => sumFin D fun c => P c j * (X i c - mu c)

/-- `RandomProjectionImplementation::embed` -/
def embed [Add K] [Zero K] [Sub K] [Mul K] [Div K] [NatCast K] (gauss : Nat → K) (sqrtD : K) (X : Mat N D K) :
    Mat N d K :=
  project (gaussianMatrix D d gauss sqrtD) (mean X) X

end TapkeeVerif.RandProj
