/-
Rational enclosures of `exp` and `log` for the model drivers (core Lean only; DESIGN §3).
Every intermediate value is rounded down to a multiple of 2⁻¹²⁸, the series are cut after the
remainder is below 2⁻¹²⁰, so `|expR x − eˣ| ≤ 2⁻¹⁰⁰·eˣ` (relative: the 2ᵏ scaling is exact) and `|lnR x − ln x| ≤ 2⁻¹⁰⁰` on the
argument ranges the drivers use (|x| ≤ 2000 for `expR`, 2⁻¹¹⁰⁰ ≤ x ≤ 2¹¹⁰⁰ for `lnR`).  These bounds
are twenty decades below every tolerance they are used under; they are part of the trusted base of
the approx-mode comparisons, not of any theorem.
-/
namespace TapkeeVerif.RatFn

def scale : Rat := ((2 ^ 128 : Nat) : Rat)

/-- round down to a multiple of 2⁻¹²⁸ -/
def rnd (x : Rat) : Rat := ((x * scale).floor : Int) / scale

def absQ (a : Rat) : Rat := if a < 0 then -a else a

/-! Fixed-point kernel: an `Int` `a` stands for `a·2⁻¹²⁸` (no gcd normalisation inside the series). -/
def fxOne : Int := (2 : Int) ^ 128
def toFx (x : Rat) : Int := (x * scale).floor
def ofFx (a : Int) : Rat := (a : Rat) / scale
def fxMul (a b : Int) : Int := (a * b) / fxOne      -- Int division rounds toward −∞ for positive divisor (`Int.div`: T-rounding is fine too)

/-- `Σ_{j<terms} z^(2j+1)/(2j+1)` = atanh z, for |z| ≤ 1/3 (fixed point) -/
def atanhFx (z : Int) (terms : Nat) : Int :=
  let z2 := fxMul z z
  let rec go : Nat → Nat → Int → Int → Int
    | 0, _, _, acc => acc
    | k + 1, j, pw, acc => go k (j + 1) (fxMul pw z2) (acc + pw / ((2 * j + 1 : Nat) : Int))
  go terms 0 z 0

def atanhSeries (z : Rat) (terms : Nat) : Rat := ofFx (atanhFx (toFx z) terms)

/-- ln 2 = 2·atanh(1/3) -/
def ln2 : Rat := 2 * atanhSeries (1 / 3) 44

/-- ⌊log₂ x⌋ for x > 0 -/
def ilog2 (x : Rat) : Int :=
  let e : Int := (Nat.log2 x.num.toNat : Int) - (Nat.log2 x.den : Int)
  let p : Rat := (2 : Rat) ^ e
  if x < p then e - 1 else if p * 2 ≤ x then e + 1 else e

/-- natural logarithm of a positive rational (`0` for `x ≤ 0`: callers never ask) -/
def lnR (x : Rat) : Rat :=
  if x ≤ 0 then 0 else
  let e := ilog2 x
  let m := x / (2 : Rat) ^ e            -- in [1, 2)
  let z := (m - 1) / (m + 1)            -- in [0, 1/3]
  (e : Rat) * ln2 + 2 * atanhSeries z 44

/-- `Σ_{j<terms} r^j/j!` (fixed point) -/
def expFx (r : Int) (terms : Nat) : Int :=
  let rec go : Nat → Nat → Int → Int → Int
    | 0, _, _, acc => acc
    | k + 1, j, term, acc => go k (j + 1) (fxMul term r / ((j + 1 : Nat) : Int)) (acc + term)
  go terms 0 fxOne 0

/-- ln 2 in fixed point -/
def ln2Fx : Int := toFx ln2

/-- exponential of a rational; arguments below −1500 give 0 (below every double, DBL_MIN included).
    The argument is taken to fixed point once (absolute error 2⁻¹²⁸, i.e. relative error 2⁻¹²⁸ in the result), the
    reduction `x = k·ln 2 + r` and the series run on integers, the final scaling by `2ᵏ` is exact. -/
def expR (x : Rat) : Rat :=
  if x < -1500 then 0 else
  let xf := toFx x
  let k : Int := xf / ln2Fx              -- Int division rounds toward zero for negative `xf`: `r` may be in (−ln 2, ln 2)
  let r := xf - k * ln2Fx
  let s := ofFx (expFx r 40)
  s * (2 : Rat) ^ k

/-- ⌊√n⌋ (Newton iteration from above) -/
def isqrt (n : Nat) : Nat :=
  if n = 0 then 0 else
  let rec go : Nat → Nat → Nat
    | 0, x => x
    | k + 1, x =>
      let y := (x + n / x) / 2
      if y < x then go k y else x
  go 400 (2 ^ (Nat.log2 n / 2 + 1))

/-- square root of a non-negative rational: exact when numerator and denominator are perfect squares, otherwise the
    value rounded down to relative precision 2⁻¹²⁸ (`0` for negative arguments: callers never ask) -/
def sqrtR (x : Rat) : Rat :=
  if x ≤ 0 then 0 else
  let n := x.num.toNat
  let d := x.den
  let sn := isqrt n
  let sd := isqrt d
  if sn * sn = n ∧ sd * sd = d then (sn : Rat) / (sd : Rat)
  else
    -- √(n/d) = √(n·d)/d, scaled so that the integer root carries 128 extra bits plus the size of the argument
    let e := 128 + Nat.log2 d + 1
    ((isqrt (n * d * 4 ^ e) : Nat) : Rat) / ((d * 2 ^ e : Nat) : Rat)

/-- was `sqrtR x` exact? -/
def sqrtExact (x : Rat) : Bool :=
  decide (x ≤ 0) || (let n := x.num.toNat; let d := x.den; decide (isqrt n * isqrt n = n) && decide (isqrt d * isqrt d = d))

/-! ### a rounded rational scalar for long computations

`Fx` wraps a rational that is kept on the grid 2⁻¹²⁸·ℤ: products and quotients are rounded down to the grid, sums and
differences of grid values stay on it.  Instantiating the polymorphic model at `Fx` keeps the size of every number
bounded over hundreds of arithmetic steps (the exact `Rat` instance grows without bound through divisions); the price is an
absolute error of 2⁻¹²⁸ per operation, negligible against the declared tolerances. -/
structure Fx where
  v : Rat
  deriving BEq, DecidableEq

instance : Add Fx := ⟨fun a b => ⟨a.v + b.v⟩⟩
instance : Sub Fx := ⟨fun a b => ⟨a.v - b.v⟩⟩
instance : Neg Fx := ⟨fun a => ⟨-a.v⟩⟩
instance : Mul Fx := ⟨fun a b => ⟨rnd (a.v * b.v)⟩⟩
instance : Div Fx := ⟨fun a b => ⟨rnd (a.v / b.v)⟩⟩
instance : Zero Fx := ⟨⟨0⟩⟩
instance : One Fx := ⟨⟨1⟩⟩
instance : NatCast Fx := ⟨fun n => ⟨(n : Rat)⟩⟩
instance : LT Fx := ⟨fun a b => a.v < b.v⟩
instance : DecidableLT Fx := fun a b => inferInstanceAs (Decidable (a.v < b.v))
instance : LE Fx := ⟨fun a b => a.v ≤ b.v⟩
instance : DecidableLE Fx := fun a b => inferInstanceAs (Decidable (a.v ≤ b.v))

def Fx.of (q : Rat) : Fx := ⟨rnd q⟩

end TapkeeVerif.RatFn
