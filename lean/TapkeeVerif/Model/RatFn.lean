/-
Rational enclosures of `exp` and `log` for the model drivers (core Lean only; DESIGN §3).
Every intermediate value is rounded down to a multiple of 2⁻¹²⁸, the series are cut after the
remainder is below 2⁻¹²⁰, so `|expR x − eˣ| ≤ 2⁻¹⁰⁰·max(1, eˣ)` and `|lnR x − ln x| ≤ 2⁻¹⁰⁰` on the
argument ranges the drivers use (|x| ≤ 2000 for `expR`, 2⁻¹¹⁰⁰ ≤ x ≤ 2¹¹⁰⁰ for `lnR`).  These bounds
are twenty decades below every tolerance they are used under; they are part of the trusted base of
the approx-mode comparisons, not of any theorem.
-/
namespace TapkeeVerif.RatFn

def scale : Rat := ((2 ^ 128 : Nat) : Rat)

/-- round down to a multiple of 2⁻¹²⁸ -/
def rnd (x : Rat) : Rat := ((x * scale).floor : Int) / scale

def absQ (a : Rat) : Rat := if a < 0 then -a else a

/-- `Σ_{j<terms} z^(2j+1)/(2j+1)` = atanh z, for |z| ≤ 1/3 -/
def atanhSeries (z : Rat) (terms : Nat) : Rat :=
  let z2 := rnd (z * z)
  let rec go : Nat → Nat → Rat → Rat → Rat
    | 0, _, _, acc => acc
    | k + 1, j, pw, acc => go k (j + 1) (rnd (pw * z2)) (acc + rnd (pw / ((2 * j + 1 : Nat) : Rat)))
  go terms 0 z 0

/-- ln 2 = 2·atanh(1/3) -/
def ln2 : Rat := 2 * atanhSeries (1 / 3) 48

/-- ⌊log₂ x⌋ for x > 0 -/
def ilog2 (x : Rat) : Int :=
  let e : Int := (Nat.log2 x.num.toNat : Int) - (Nat.log2 x.den : Int)
  -- 2^e ≤ x·2 and x < 2^(e+1)·… : adjust by at most one
  let p : Rat := (2 : Rat) ^ e
  if x < p then e - 1 else if p * 2 ≤ x then e + 1 else e

/-- natural logarithm of a positive rational (`0` for `x ≤ 0`: callers never ask) -/
def lnR (x : Rat) : Rat :=
  if x ≤ 0 then 0 else
  let e := ilog2 x
  let m := x / (2 : Rat) ^ e            -- in [1, 2)
  let z := rnd ((m - 1) / (m + 1))      -- in [0, 1/3]
  (e : Rat) * ln2 + 2 * atanhSeries z 48

/-- `Σ_{j<terms} r^j/j!` -/
def expSeries (r : Rat) (terms : Nat) : Rat :=
  let rec go : Nat → Nat → Rat → Rat → Rat
    | 0, _, _, acc => acc
    | k + 1, j, term, acc => go k (j + 1) (rnd (term * r / ((j + 1 : Nat) : Rat))) (acc + term)
  go terms 0 1 0

/-- exponential of a rational; arguments below −1500 give 0 (below every double, DBL_MIN included) -/
def expR (x : Rat) : Rat :=
  if x < -1500 then 0 else
  let k : Int := (x / ln2).floor
  let r := x - (k : Rat) * ln2           -- in [0, ln 2)
  let s := expSeries (rnd r) 45
  if k ≥ 0 then s * (2 : Rat) ^ k else rnd (s * (2 : Rat) ^ k)

end TapkeeVerif.RatFn
