/-
Syntax-independent vocabulary of the keyword / validation / dispatch front end (properties C13, C14).
Core Lean only.  The generated tables (`Gen/*.lean`, written by tools/translate_front.py) are *data* over these types;
`Model/Params.lean` gives them their meaning.
-/
namespace TapkeeVerif.Front

/-- C++ value types a `stichwort::Parameter` can hold, as far as the front end distinguishes them
    (`ValueKeeper` compares type policies by address: one policy per C++ type) -/
inductive Ty where
  | int | real | bool | method | neighbors | eigen | strategy | progressFn | cancelFn
  | other (tag : String)          -- any further C++ type (`long`, `float`, `const char*`, …)
  deriving DecidableEq, Repr, Inhabited

/-- the three user callbacks -/
inductive Cb where
  | kernel | distance | features
  deriving DecidableEq, Repr, Inhabited

/-- `DimensionReductionTraits` -/
structure Traits where
  needsKernel : Bool
  needsDistance : Bool
  needsFeatures : Bool
  deriving DecidableEq, Repr, Inhabited

def Traits.needs (t : Traits) : Cb → Bool
  | .kernel => t.needsKernel
  | .distance => t.needsDistance
  | .features => t.needsFeatures

/-- namespaces of exception classes -/
inductive Ns where
  | std | stichwort | tapkee
  deriving DecidableEq, Repr, Inhabited

inductive ErrClass where
  | no_data_error | unsupported_method_error | not_enough_memory_error | cancelled_exception
  | eigendecomposition_error | missed_parameter_error | wrong_parameter_error | wrong_parameter_type_error
  | multiple_parameter_error | bad_alloc
  deriving DecidableEq, Repr, Inhabited

structure Err where
  ns : Ns
  cls : ErrClass
  deriving DecidableEq, Repr, Inhabited

def Ns.str : Ns → String
  | .std => "std" | .stichwort => "stichwort" | .tapkee => "tapkee"

def ErrClass.str : ErrClass → String
  | .no_data_error => "no_data_error" | .unsupported_method_error => "unsupported_method_error"
  | .not_enough_memory_error => "not_enough_memory_error" | .cancelled_exception => "cancelled_exception"
  | .eigendecomposition_error => "eigendecomposition_error" | .missed_parameter_error => "missed_parameter_error"
  | .wrong_parameter_error => "wrong_parameter_error" | .wrong_parameter_type_error => "wrong_parameter_type_error"
  | .multiple_parameter_error => "multiple_parameter_error" | .bad_alloc => "bad_alloc"

def Err.str (e : Err) : String := e.ns.str ++ "::" ++ e.cls.str

/-- `double` values as the front end can see them: a finite (dyadic) rational or one of the three non-finite values.
    Order and equality are IEEE-754: every comparison with `nan` is false, `-inf < finite < +inf`. -/
inductive XReal where
  | fin (q : Rat)
  | nan
  | posInf
  | negInf
  deriving DecidableEq, Repr, Inhabited

namespace XReal

def lt : XReal → XReal → Prop
  | .fin a, .fin b => a < b
  | .negInf, .fin _ => True
  | .negInf, .posInf => True
  | .fin _, .posInf => True
  | _, _ => False

def le : XReal → XReal → Prop
  | .fin a, .fin b => a ≤ b
  | .negInf, .fin _ => True
  | .negInf, .posInf => True
  | .fin _, .posInf => True
  | .negInf, .negInf => True
  | .posInf, .posInf => True
  | _, _ => False

/-- IEEE `==` -/
def eqv : XReal → XReal → Prop
  | .fin a, .fin b => a = b
  | .negInf, .negInf => True
  | .posInf, .posInf => True
  | _, _ => False

instance : LT XReal := ⟨lt⟩
instance : LE XReal := ⟨le⟩
instance (a b : XReal) : Decidable (a < b) := by
  show Decidable (lt a b); cases a <;> cases b <;> unfold lt <;> infer_instance
instance (a b : XReal) : Decidable (a ≤ b) := by
  show Decidable (le a b); cases a <;> cases b <;> unfold le <;> infer_instance
instance (a b : XReal) : Decidable (eqv a b) := by
  cases a <;> cases b <;> unfold eqv <;> infer_instance

instance : OfNat XReal n := ⟨.fin (OfNat.ofNat n)⟩
instance : NatCast XReal := ⟨fun n => .fin (n : Rat)⟩
instance : IntCast XReal := ⟨fun i => .fin (i : Rat)⟩
instance : Coe Rat XReal := ⟨.fin⟩

/-- arithmetic is modelled on finite operands only; an operation with a non-finite operand yields `nan`
    (no bound expression of the front end does arithmetic on a value that an earlier check has not confined to a
    bounded range; the correspondence grid contains non-finite values for every real keyword) -/
def lift2 (f : Rat → Rat → Rat) : XReal → XReal → XReal
  | .fin a, .fin b => .fin (f a b)
  | _, _ => .nan

instance : Add XReal := ⟨lift2 (· + ·)⟩
instance : Sub XReal := ⟨lift2 (· - ·)⟩
instance : Mul XReal := ⟨lift2 (· * ·)⟩
instance : Div XReal := ⟨lift2 (· / ·)⟩
instance : Neg XReal := ⟨fun | .fin a => .fin (-a) | .nan => .nan | .posInf => .negInf | .negInf => .posInf⟩

/-- `static_cast<IndexType>` of a `double`: truncation toward zero -/
def truncQ (q : Rat) : Int := Int.tdiv q.num q.den

/-- … lifted: a non-finite argument is undefined behaviour in C++ and never reached (see `lift2`) -/
def trunc : XReal → XReal
  | .fin q => .fin (truncQ q : Rat)
  | _ => .nan

/-! IEEE-754 binary64 rounding of an exact rational (nearest, ties to even; normal range, no overflow / underflow
    modelled).  Ported from `Model/Landmarks.lean` (C11), where its properties are proved. -/

/-- `2^e` as a rational -/
def pow2 (e : Int) : Rat :=
  if 0 ≤ e then (((2 : Nat) ^ e.toNat : Nat) : Rat) else 1 / (((2 : Nat) ^ (-e).toNat : Nat) : Rat)

/-- the exponent `e` of the 53-bit grid `2^e·ℤ` on which a positive `q` is rounded -/
def rneExp (q : Rat) : Int :=
  let e0 : Int := (Nat.log2 q.num.toNat : Int) - (Nat.log2 q.den : Int) - 52
  let e1 : Int := if q / pow2 e0 < pow2 52 then e0 - 1 else e0
  if pow2 53 ≤ q / pow2 e1 then e1 + 1 else e1

/-- round `q` to the nearest point of the grid `2^e·ℤ`, ties to the even multiple -/
def roundAt (e : Int) (q : Rat) : Rat :=
  let t := q / pow2 e
  let m : Int := t.floor
  let frac := t - (m : Rat)
  let half : Rat := 1 / 2
  let m' : Int := if half < frac then m + 1 else if frac < half then m else if m % 2 = 0 then m else m + 1
  (m' : Rat) * pow2 e

/-- the `double` nearest to an exact rational -/
def rne53 (q : Rat) : Rat :=
  if q = 0 then 0 else if 0 < q then roundAt (rneExp q) q else - roundAt (rneExp (-q)) (-q)

/-- the result of a `double` operation whose exact result is `x` -/
def round : XReal → XReal
  | .fin q => .fin (rne53 q)
  | x => x

def isFinite : XReal → Bool
  | .fin _ => true
  | _ => false

/-- the finite value, 0 for a non-finite one (only used for printing / numeric views of integer keywords) -/
def toRat : XReal → Rat
  | .fin q => q
  | _ => 0

end XReal

/-- comparison operators of C++ -/
inductive Cmp where
  | gt | ge | lt | le | eq
  deriving DecidableEq, Repr, Inhabited

def Cmp.holds (c : Cmp) (a b : XReal) : Prop :=
  match c with
  | .gt => b < a | .ge => b ≤ a | .lt => a < b | .le => a ≤ b | .eq => XReal.eqv a b

instance (c : Cmp) (a b : XReal) : Decidable (c.holds a b) := by
  cases c <;> unfold Cmp.holds <;> infer_instance

/-- the four predicate templates of tapkee/predicates.hpp -/
inductive PredKind where
  | positivity | nonNegativity | inRange | inClosedRange
  deriving DecidableEq, Repr, Inhabited

/-- operands of a comparison inside `operator()(T v)` of a predicate -/
inductive PAtom where
  | v | lower | upper | lit (q : Rat)
  deriving DecidableEq, Repr, Inhabited

/-- the returned expression of `operator()(T v)`: comparisons combined by `&&`, `||`, `!` -/
inductive PBody where
  | cmp (a : PAtom) (c : Cmp) (b : PAtom)
  | and (x y : PBody)
  | or (x y : PBody)
  | not (x : PBody)
  deriving DecidableEq, Repr, Inhabited

def PAtom.eval (v lo hi : XReal) : PAtom → XReal
  | .v => v | .lower => lo | .upper => hi | .lit q => .fin q

def PBody.eval (v lo hi : XReal) : PBody → Prop
  | .cmp a c b => c.holds (a.eval v lo hi) (b.eval v lo hi)
  | .and x y => x.eval v lo hi ∧ y.eval v lo hi
  | .or x y => x.eval v lo hi ∨ y.eval v lo hi
  | .not x => ¬ x.eval v lo hi

def PBody.decEval (v lo hi : XReal) : (b : PBody) → Decidable (b.eval v lo hi)
  | .cmp a c b => by unfold PBody.eval; infer_instance
  | .and x y => by unfold PBody.eval; exact @instDecidableAnd _ _ (decEval v lo hi x) (decEval v lo hi y)
  | .or x y => by unfold PBody.eval; exact @instDecidableOr _ _ (decEval v lo hi x) (decEval v lo hi y)
  | .not x => by unfold PBody.eval; exact @instDecidableNot _ (decEval v lo hi x)

instance (v lo hi : XReal) (b : PBody) : Decidable (b.eval v lo hi) := PBody.decEval v lo hi b

/-- calls a `tapkee_method_handle(X)` block makes on the implementation object -/
inductive DispatchStep where
  | validate | embed
  deriving DecidableEq, Repr, Inhabited

end TapkeeVerif.Front
