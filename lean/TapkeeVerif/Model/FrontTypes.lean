/-
Syntax-independent vocabulary of the keyword / validation / dispatch front end (properties C13, C14).
Core Lean only.  The generated tables (`Gen/*.lean`, written by tools/translate_front.py) are *data* over these types;
`Model/Params.lean` gives them their meaning.
-/
namespace TapkeeVerif.Front

/-- C++ value types a `stichwort::Parameter` can hold, as far as the front end distinguishes them
    (`ValueKeeper` compares type policies by address: one policy per C++ type) -/
inductive Ty where
  | int | real | bool | method | neighbors | eigen | strategy | progressFn | cancelFn
  | other (tag : String)          -- any further C++ type (`long`, `float`, `const char*`, …)
  deriving DecidableEq, Repr, Inhabited

/-- the three user callbacks -/
inductive Cb where
  | kernel | distance | features
  deriving DecidableEq, Repr, Inhabited

/-- `DimensionReductionTraits` -/
structure Traits where
  needsKernel : Bool
  needsDistance : Bool
  needsFeatures : Bool
  deriving DecidableEq, Repr, Inhabited

def Traits.needs (t : Traits) : Cb → Bool
  | .kernel => t.needsKernel
  | .distance => t.needsDistance
  | .features => t.needsFeatures

/-- namespaces of exception classes -/
inductive Ns where
  | std | stichwort | tapkee
  deriving DecidableEq, Repr, Inhabited

inductive ErrClass where
  | no_data_error | unsupported_method_error | not_enough_memory_error | cancelled_exception
  | eigendecomposition_error | missed_parameter_error | wrong_parameter_error | wrong_parameter_type_error
  | multiple_parameter_error | bad_alloc
  deriving DecidableEq, Repr, Inhabited

structure Err where
  ns : Ns
  cls : ErrClass
  deriving DecidableEq, Repr, Inhabited

def Ns.str : Ns → String
  | .std => "std" | .stichwort => "stichwort" | .tapkee => "tapkee"

def ErrClass.str : ErrClass → String
  | .no_data_error => "no_data_error" | .unsupported_method_error => "unsupported_method_error"
  | .not_enough_memory_error => "not_enough_memory_error" | .cancelled_exception => "cancelled_exception"
  | .eigendecomposition_error => "eigendecomposition_error" | .missed_parameter_error => "missed_parameter_error"
  | .wrong_parameter_error => "wrong_parameter_error" | .wrong_parameter_type_error => "wrong_parameter_type_error"
  | .multiple_parameter_error => "multiple_parameter_error" | .bad_alloc => "bad_alloc"

def Err.str (e : Err) : String := e.ns.str ++ "::" ++ e.cls.str

/-- calls a `tapkee_method_handle(X)` block makes on the implementation object -/
inductive DispatchStep where
  | validate | embed
  deriving DecidableEq, Repr, Inhabited

end TapkeeVerif.Front
