/-
Syntax-independent vocabulary of the keyword / validation / dispatch front end (properties C13, C14).
Core Lean only.  The generated tables (`Gen/*.lean`, written by tools/translate_front.py) are *data* over these types;
`Model/Params.lean` gives them their meaning.
-/
namespace TapkeeVerif.Front

/-- C++ value types a `stichwort::Parameter` can hold, as far as the front end distinguishes them
    (`ValueKeeper` compares type policies by address: one policy per C++ type) -/
inductive Ty where
  | int | real | bool | method | neighbors | eigen | strategy | progressFn | cancelFn
  | other (tag : String)          -- any further C++ type (`long`, `float`, `const char*`, …)
  deriving DecidableEq, Repr, Inhabited

/-- the three user callbacks -/
inductive Cb where
  | kernel | distance | features
  deriving DecidableEq, Repr, Inhabited

/-- `DimensionReductionTraits` -/
structure Traits where
  needsKernel : Bool
  needsDistance : Bool
  needsFeatures : Bool
  deriving DecidableEq, Repr, Inhabited

def Traits.needs (t : Traits) : Cb → Bool
  | .kernel => t.needsKernel
  | .distance => t.needsDistance
  | .features => t.needsFeatures

/-- namespaces of exception classes -/
inductive Ns where
  | std | stichwort | tapkee
  deriving DecidableEq, Repr, Inhabited

inductive ErrClass where
  | no_data_error | unsupported_method_error | not_enough_memory_error | cancelled_exception
  | eigendecomposition_error | missed_parameter_error | wrong_parameter_error | wrong_parameter_type_error
  | multiple_parameter_error | bad_alloc
  deriving DecidableEq, Repr, Inhabited

structure Err where
  ns : Ns
  cls : ErrClass
  deriving DecidableEq, Repr, Inhabited

def Ns.str : Ns → String
  | .std => "std" | .stichwort => "stichwort" | .tapkee => "tapkee"

def ErrClass.str : ErrClass → String
  | .no_data_error => "no_data_error" | .unsupported_method_error => "unsupported_method_error"
  | .not_enough_memory_error => "not_enough_memory_error" | .cancelled_exception => "cancelled_exception"
  | .eigendecomposition_error => "eigendecomposition_error" | .missed_parameter_error => "missed_parameter_error"
  | .wrong_parameter_error => "wrong_parameter_error" | .wrong_parameter_type_error => "wrong_parameter_type_error"
  | .multiple_parameter_error => "multiple_parameter_error" | .bad_alloc => "bad_alloc"

def Err.str (e : Err) : String := e.ns.str ++ "::" ++ e.cls.str

/-- Bound expressions occurring as predicate arguments in `validate()`: C++ arithmetic over literals and
    `n_vectors`.  Typing follows C++: an operation on two `int` operands is an `int` operation (truncating
    division), anything else is carried out in `double`, which the model takes to be exact (DESIGN §9). -/
inductive BExpr where
  | intLit (i : Int)
  | realLit (q : Rat)
  | nVectors
  | add (a b : BExpr) | sub (a b : BExpr) | mul (a b : BExpr) | div (a b : BExpr)
  | neg (a : BExpr)
  deriving DecidableEq, Repr, Inhabited

def BExpr.isInt : BExpr → Bool
  | .intLit _ => true
  | .realLit _ => false
  | .nVectors => true
  | .add a b | .sub a b | .mul a b | .div a b => a.isInt && b.isInt
  | .neg a => a.isInt

/-- value of a bound expression for `n_vectors = n` -/
def BExpr.eval (n : Int) : BExpr → Rat
  | .intLit i => (i : Rat)
  | .realLit q => q
  | .nVectors => (n : Rat)
  | .add a b => a.eval n + b.eval n
  | .sub a b => a.eval n - b.eval n
  | .mul a b => a.eval n * b.eval n
  | .div a b =>
      if a.isInt && b.isInt then ((Int.tdiv (a.eval n).num (b.eval n).num : Int) : Rat)   -- int / int truncates
      else a.eval n / b.eval n
  | .neg a => - a.eval n

/-- predicates of tapkee/predicates.hpp with their template argument -/
inductive Pred where
  | positivity (ty : Ty)
  | nonNegativity (ty : Ty)
  | inRange (ty : Ty) (lo hi : BExpr)         -- lo ≤ v < hi
  | inClosedRange (ty : Ty) (lo hi : BExpr)   -- lo ≤ v ≤ hi
  deriving DecidableEq, Repr, Inhabited

def Pred.ty : Pred → Ty
  | .positivity t | .nonNegativity t | .inRange t _ _ | .inClosedRange t _ _ => t

/-- does the numeric value `v` satisfy the predicate when `n_vectors = n`? -/
def Pred.holds (n : Int) (v : Rat) : Pred → Prop
  | .positivity _ => 0 < v
  | .nonNegativity _ => 0 ≤ v
  | .inRange _ lo hi => lo.eval n ≤ v ∧ v < hi.eval n
  | .inClosedRange _ lo hi => lo.eval n ≤ v ∧ v ≤ hi.eval n

instance (n : Int) (v : Rat) (p : Pred) : Decidable (p.holds n v) := by
  cases p <;> unfold Pred.holds <;> infer_instance

/-- calls a `tapkee_method_handle(X)` block makes on the implementation object -/
inductive DispatchStep where
  | validate | embed
  deriving DecidableEq, Repr, Inhabited

end TapkeeVerif.Front
