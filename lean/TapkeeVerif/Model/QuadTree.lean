/-
Model of `tsne::Cell` / `tsne::QuadTree` (include/tapkee/external/barnes_hut_sne/quadtree.hpp),
core Lean only, polymorphic in the scalar `K` (runs at `Rat` in `model_c18`, proved at any
linearly ordered field in `Proofs/QuadTree*.lean`, `Props/C18.lean`).

State of one C++ node and how it is represented
  * `is_leaf = true`,  `size ∈ {0,1}` (`QT_NODE_CAPACITY = 1`), `index[0]`  →  `Tree.leaf b cum com res`,
    `res : Option Nat` (`none` ⇔ `size = 0`);
  * `is_leaf = false`, `size = 0`, four children                         →  `Tree.node b cum com nw ne sw se`;
  * `cum_size`, `center_of_mass[2]`, `boundary` are the fields `cum`, `com`, `b`; the explicit edges
    `x_lo … y_hi` a cell carries since the fix of F-QT-ROUND are `x ∓ hw`, `y ∓ hh` in exact arithmetic (they exist to make
    the double computation agree with this model on points lying on a dividing line), so `containsPoint` is unchanged;
`data` (the `ScalarType*` the tree points into) is a function `Nat → K × K`.

`insert` follows the C++ statement by statement (containment test, online centre-of-mass update,
leaf with room, duplicate test against the resident, `subdivide()` moving the resident to the first
accepting child in the order NW, NE, SW, SE, then the same order for the new point).  The only
non-structural recursion (a full leaf splitting again and again while two distinct points fall into the
same quadrant) is driven by fuel; `none` means "out of fuel", never a made-up result, and
`fuel_suffices` (Props/C18) shows that the fuel computed by `fuelBound` is enough.
-/
namespace TapkeeVerif.QuadTree

structure Cell (K : Type) where
  x : K
  y : K
  hw : K
  hh : K

inductive Tree (K : Type) where
  | leaf (b : Cell K) (cum : Nat) (com : K × K) (res : Option Nat) : Tree K
  | node (b : Cell K) (cum : Nat) (com : K × K) (nw ne sw se : Tree K) : Tree K

section
variable {K : Type}
variable [Add K] [Sub K] [Mul K] [Div K] [Zero K] [One K] [NatCast K] [LT K] [DecidableLT K] [DecidableEq K]

/-- `Cell::containsPoint` — four strict comparisons, i.e. the *closed* box -/
def Cell.containsPoint (c : Cell K) (p : K × K) : Bool :=
  if c.x - c.hw > p.1 then false
  else if c.x + c.hw < p.1 then false
  else if c.y - c.hh > p.2 then false
  else if c.y + c.hh < p.2 then false
  else true

namespace Tree
def cell : Tree K → Cell K
  | leaf b _ _ _ => b
  | node b _ _ _ _ _ _ => b
def cum : Tree K → Nat
  | leaf _ c _ _ => c
  | node _ c _ _ _ _ _ => c
def com : Tree K → K × K
  | leaf _ _ m _ => m
  | node _ _ m _ _ _ _ => m
def isLeaf : Tree K → Bool
  | leaf .. => true
  | node .. => false
end Tree

/-- `.5 * a` (exact halving) -/
def half (a : K) : K := a / (1 + 1)

/-- a freshly `init`-ed node: leaf, empty, mass 0, centre of mass (0,0) -/
def emptyLeaf (b : Cell K) : Tree K := .leaf b 0 (0, 0) none

/-- the four cells created by `subdivide()`, in the order NW, NE, SW, SE -/
def cellNW (b : Cell K) : Cell K := ⟨b.x - half b.hw, b.y - half b.hh, half b.hw, half b.hh⟩
def cellNE (b : Cell K) : Cell K := ⟨b.x + half b.hw, b.y - half b.hh, half b.hw, half b.hh⟩
def cellSW (b : Cell K) : Cell K := ⟨b.x - half b.hw, b.y + half b.hh, half b.hw, half b.hh⟩
def cellSE (b : Cell K) : Cell K := ⟨b.x + half b.hw, b.y + half b.hh, half b.hw, half b.hh⟩

/-- online update: `cum_size++; com *= (cum_size-1)/cum_size; com += (1/cum_size) * point`
    (`c` is the value of `cum_size` *after* the increment) -/
def updCom (c : Nat) (com p : K × K) : K × K :=
  let mult1 : K := ((c - 1 : Nat) : K) / (c : K)
  let mult2 : K := 1 / (c : K)
  (com.1 * mult1 + mult2 * p.1, com.2 * mult1 + mult2 * p.2)

/-- the duplicate test: all `QT_NO_DIMS` coordinates equal -/
def samePoint (p q : K × K) : Bool := decide (p.1 = q.1) && decide (p.2 = q.2)

/-- `if (NW->insert) return true; if (NE->insert) …` : the children are tried in order; the first one
    whose `insert` returns true stops the scan.  `ins` is `insert` on one child. -/
def tryChildren (ins : Tree K → Option (Tree K × Bool)) (nw ne sw se : Tree K) :
    Option ((Tree K × Tree K × Tree K × Tree K) × Bool) :=
  match ins nw with
  | none => none
  | some (nw', true) => some ((nw', ne, sw, se), true)
  | some (nw', false) =>
    match ins ne with
    | none => none
    | some (ne', true) => some ((nw', ne', sw, se), true)
    | some (ne', false) =>
      match ins sw with
      | none => none
      | some (sw', true) => some ((nw', ne', sw', se), true)
      | some (sw', false) =>
        match ins se with
        | none => none
        | some (se', ok) => some ((nw', ne', sw', se'), ok)

/-- `subdivide()`: `for (c = 0; c < multiplicity[i]; c++) { try NW, NE, SW, SE }` — the resident is handed down once for
    itself and once for every coincident point it absorbed (the first pass stores it, the later ones are absorbed by the
    child as duplicates of itself, which keeps the child's own count right) -/
def handDown (ins : Tree K → Option (Tree K × Bool)) :
    Nat → Tree K × Tree K × Tree K × Tree K → Option (Tree K × Tree K × Tree K × Tree K)
  | 0, kids => some kids
  | n + 1, (nw, ne, sw, se) =>
    match tryChildren ins nw ne sw se with
    | none => none
    | some (kids', _) => handDown ins n kids'

/-- `QuadTree::insert(new_index)`; result = (tree afterwards, returned bool); `none` = out of fuel.
    `multiplicity[0]` of a leaf moves in lock-step with its `cum_size` (both are set to 1 by the first accepted point and
    incremented by every absorbed duplicate), so the model reads it off `cum` (the value *before* the new point). -/
def insert (data : Nat → K × K) : Nat → Tree K → Nat → Option (Tree K × Bool)
  | fuel, .leaf b cum com res, i =>
    let p := data i
    -- Ignore objects which do not belong in this quad tree
    if b.containsPoint p = false then some (.leaf b cum com res, false) else
    -- Online update of cumulative size and center-of-mass
    let cum' := cum + 1
    let com' := updCom cum' com p
    match res with
    | none => some (.leaf b cum' com' (some i), true)        -- is_leaf && size < QT_NODE_CAPACITY
    | some r =>
      -- Don't add duplicates
      if samePoint p (data r) then some (.leaf b cum' com' (some r), true) else
      -- subdivide(): four empty children; the resident goes to the first child that accepts it, `multiplicity` times
      match fuel with
      | 0 => none
      | fuel + 1 =>
        match handDown (fun c => insert data fuel c r) cum
            (emptyLeaf (cellNW b), emptyLeaf (cellNE b), emptyLeaf (cellSW b), emptyLeaf (cellSE b)) with
        | none => none
        | some (nw, ne, sw, se) =>
          -- size = 0; is_leaf = false; now find out where the new point can be inserted
          match tryChildren (fun c => insert data fuel c i) nw ne sw se with
          | none => none
          | some ((nw', ne', sw', se'), ok) => some (.node b cum' com' nw' ne' sw' se', ok)
  | fuel, .node b cum com nw ne sw se, i =>
    let p := data i
    if b.containsPoint p = false then some (.node b cum com nw ne sw se, false) else
    let cum' := cum + 1
    let com' := updCom cum' com p
    -- size = 0 here: the duplicate loop is empty
    match fuel with
    | 0 => none
    | fuel + 1 =>
      match tryChildren (fun c => insert data fuel c i) nw ne sw se with
      | none => none
      | some ((nw', ne', sw', se'), ok) => some (.node b cum' com' nw' ne' sw' se', ok)

/-- `fill`: `for i in is: insert(i)` (the returned bool is ignored, as in the C++).  The C++ inserts
    `0 … N-1`; every insertion order is a list `is`. -/
def fillList (data : Nat → K × K) (fuel : Nat) : Tree K → List Nat → Option (Tree K)
  | t, [] => some t
  | t, i :: is =>
    match insert data fuel t i with
    | none => none
    | some (t', _) => fillList data fuel t' is

/-- `std::max(a, b)` = `(a < b) ? b : a` -/
def stdMax (a b : K) : K := if a < b then b else a

/-- the default constructor's root cell: centre = mean, half sizes = largest deviation from the mean `+ 1e-5`
    (`eps`).  `min_Y`/`max_Y` start at `±DBL_MAX`; for a non-empty finite input that is the running min/max. -/
def rootCell (eps : K) (pts : List (K × K)) : Cell K :=
  let n : K := (pts.length : K)
  let sx := pts.foldl (fun a p => a + p.1) 0
  let sy := pts.foldl (fun a p => a + p.2) 0
  let mx := sx / n
  let my := sy / n
  match pts with
  | [] => ⟨mx, my, eps, eps⟩
  | p0 :: rest =>
    let minx := rest.foldl (fun m p => if p.1 < m then p.1 else m) p0.1
    let maxx := rest.foldl (fun m p => if p.1 > m then p.1 else m) p0.1
    let miny := rest.foldl (fun m p => if p.2 < m then p.2 else m) p0.2
    let maxy := rest.foldl (fun m p => if p.2 > m then p.2 else m) p0.2
    ⟨mx, my, stdMax (maxx - mx) (mx - minx) + eps, stdMax (maxy - my) (my - miny) + eps⟩

/-- `QuadTree(data, N, x, y, hw, hh)` generalised to any insertion order -/
def buildIn (data : Nat → K × K) (fuel : Nat) (root : Cell K) (is : List Nat) : Option (Tree K) :=
  fillList data fuel (emptyLeaf root) is

/-- `QuadTree(data, N)` -/
def buildDefault (data : Nat → K × K) (fuel : Nat) (eps : K) (n : Nat) : Option (Tree K) :=
  buildIn data fuel (rootCell eps ((List.range n).map data)) (List.range n)

/-- `getAllIndices`: own residents, then NW, NE, SW, SE -/
def allIndices : Tree K → List Nat
  | .leaf _ _ _ none => []
  | .leaf _ _ _ (some r) => [r]
  | .node _ _ _ nw ne sw se => allIndices nw ++ allIndices ne ++ allIndices sw ++ allIndices se

/-- `isCorrect` -/
def isCorrect (data : Nat → K × K) : Tree K → Bool
  | .leaf _ _ _ none => true
  | .leaf b _ _ (some r) => b.containsPoint (data r)
  | .node _ _ _ nw ne sw se => isCorrect data nw && isCorrect data ne && isCorrect data sw && isCorrect data se

/-- `getDepth` -/
def depth : Tree K → Nat
  | .leaf .. => 1
  | .node _ _ _ nw ne sw se => 1 + Nat.max (Nat.max (depth nw) (depth ne)) (Nat.max (depth sw) (depth se))

/-- squared distance as accumulated by the C++: `D = .0; D += b0*b0; D += b1*b1` -/
def sqNorm (b : K × K) : K := 0 + b.1 * b.1 + b.2 * b.2

/-- `std::max(hh, hw) / sqrt(D) < theta`, without the square root.
    `D = 0`: IEEE gives `+inf` (or NaN for `0/0`), the comparison is false — explicit branch.
    `D > 0`, half sizes ≥ 0: equivalent to `0 < θ ∧ max² < θ²·D` (lemma `summary_iff_sqrt`). -/
def useSummary (θ : K) (b : Cell K) (D : K) : Bool :=
  if D = 0 then false
  else
    let m := stdMax b.hh b.hw
    decide (0 < θ) && decide (m * m < θ * θ * D)

/-- accumulator of `computeNonEdgeForces`: (`neg_f[0]`, `neg_f[1]`), `*sum_Q` -/
abbrev Acc (K : Type) := (K × K) × K

/-- the summary branch: `Q = 1/(1+D); *sum_Q += cum_size*Q; mult = cum_size*Q*Q; neg_f[d] += mult*buff[d]` -/
def addSummary (cum : Nat) (buff : K × K) (D : K) (acc : Acc K) : Acc K :=
  let Q : K := 1 / (1 + D)
  let mult : K := (cum : K) * Q * Q
  ((acc.1.1 + mult * buff.1, acc.1.2 + mult * buff.2), acc.2 + (cum : K) * Q)

/-- `computeNonEdgeForces(point_index, theta, neg_f, sum_Q)` -/
def forces (data : Nat → K × K) (θ : K) (pi : Nat) : Tree K → Acc K → Acc K
  | .leaf _ cum com res, acc =>
    -- no time spent on empty nodes or self-interactions
    if cum = 0 ∨ res = some pi then acc else
    let buff : K × K := ((data pi).1 - com.1, (data pi).2 - com.2)
    addSummary cum buff (sqNorm buff) acc          -- is_leaf: always a summary
  | .node b cum com nw ne sw se, acc =>
    if cum = 0 then acc else
    let buff : K × K := ((data pi).1 - com.1, (data pi).2 - com.2)
    let D := sqNorm buff
    if useSummary θ b D then addSummary cum buff D acc
    else forces data θ pi se (forces data θ pi sw (forces data θ pi ne (forces data θ pi nw acc)))

/-- the exact all-pairs Student-t sums for point `i` over the index list `js`:
    `(Σ_{j≠i} q²·(y_i − y_j), Σ_{j≠i} q)`, `q = 1/(1+‖y_i − y_j‖²)` -/
def exactForces (data : Nat → K × K) (js : List Nat) (i : Nat) : Acc K :=
  js.foldl (fun acc j =>
    if j = i then acc else
    let buff : K × K := ((data i).1 - (data j).1, (data i).2 - (data j).2)
    addSummary 1 buff (sqNorm buff) acc) ((0, 0), 0)

/-- the geometric route of a point: the resident of the leaf reached by always taking the first child
    (NW, NE, SW, SE) whose closed cell contains `p` (specification-level; not part of the C++) -/
def locate (p : K × K) : Tree K → Option Nat
  | .leaf b _ _ res => if b.containsPoint p then res else none
  | .node b _ _ nw ne sw se =>
    if b.containsPoint p = false then none
    else if nw.cell.containsPoint p then locate p nw
    else if ne.cell.containsPoint p then locate p ne
    else if sw.cell.containsPoint p then locate p sw
    else locate p se

end

/-! ### fuel for the driver (Rat only): the smallest `n` with `2·max(hw,hh) < g·2ⁿ`,
    `g` = the smallest positive coordinate gap between two of the points; `fuel_suffices` is stated for it. -/

def absR (a : Rat) : Rat := if a < 0 then -a else a

/-- smallest `max(|Δx|,|Δy|)` over pairs with different coordinates (`none`: all points coincide) -/
def minGap (pts : List (Rat × Rat)) : Option Rat :=
  let rec go : List (Rat × Rat) → Option Rat → Option Rat
    | [], acc => acc
    | p :: rest, acc =>
      let acc' := rest.foldl (fun a q =>
        let dx := absR (p.1 - q.1)
        let dy := absR (p.2 - q.2)
        let d := if dx < dy then dy else dx
        if d = 0 then a else
        match a with
        | none => some d
        | some m => some (if d < m then d else m)) acc
      go rest acc'
  go pts none

/-- least `n ≤ cap` with `a < g·2ⁿ` -/
def log2Ceil (a g : Rat) (cap : Nat) : Nat :=
  let rec go : Nat → Nat → Rat → Nat
    | 0, n, _ => n
    | k + 1, n, pow => if a < g * pow then n else go k (n + 1) (pow * 2)
  go cap 0 1

def fuelBound (root : Cell Rat) (pts : List (Rat × Rat)) : Nat :=
  match minGap pts with
  | none => 0
  | some g => log2Ceil (2 * (if root.hw < root.hh then root.hh else root.hw)) g 4000

end TapkeeVerif.QuadTree
