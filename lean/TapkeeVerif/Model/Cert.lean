import TapkeeVerif.Model.Mat
import TapkeeVerif.Model.DMat
/-!
Exact-arithmetic certificate checker for eigen-systems (DESIGN §3), run by the drivers at `K := Rat`
on the dyadic values the real eigensolver returned, against the *model's* matrix.

* `residMax B V lam`  = max_ij |(B V − V diag lam)_ij|
* `orthoMax V`        = max_ab |(Vᵀ V − 1)_ab|
* `ldlRun M`          : n rank-one elimination steps `M ← M − p·l·lᵀ` (`p = M k k`, `l = M[:,k]/p`);
                        `M = Σ_k p_k l_k l_kᵀ + remainder` holds by construction (`Proofs/Spectral.ldlRun_decomp`),
                        the checker *tests* `remainder = 0`, so no property of the elimination is assumed.
* `extremal B lam σ`  : Sylvester inertia — the number of positive pivots of `B − σ·1` is at most the number of
                        `lam j > σ`: no eigenvalue above `σ` other than the returned ones (`Proofs/Spectral.inertia_sound`).

Core Lean only; `K` carries notation classes and decidable order.
-/
namespace TapkeeVerif
namespace Cert
section
variable {K : Type} {n d : Nat}

def absK [Neg K] [Zero K] [LT K] [DecidableLT K] (x : K) : K := if x < 0 then -x else x
def maxK [LT K] [DecidableLT K] (x y : K) : K := if x < y then y else x

/-- `max_i f i` over `Fin n`, starting from `0` -/
def maxFin [Zero K] [LT K] [DecidableLT K] (n : Nat) (f : Fin n → K) : K :=
  (List.finRange n).foldl (fun acc i => maxK acc (f i)) 0

def maxAbs [Neg K] [Zero K] [LT K] [DecidableLT K] {m : Nat} (A : Mat n m K) : K :=
  maxFin n fun i => maxFin m fun j => absK (A i j)

def countFin (n : Nat) (p : Fin n → Bool) : Nat := ((List.finRange n).filter p).length

variable [Add K] [Sub K] [Mul K] [Div K] [Neg K] [Zero K] [NatCast K]
variable [LT K] [DecidableLT K] [LE K] [DecidableLE K] [DecidableEq K]

/-- `(B V − V diag lam) i j` -/
def resid (B : Mat n n K) (V : Mat n d K) (lam : Vec d K) : Mat n d K :=
  fun i j => sumFin n (fun k => B i k * V k j) - V i j * lam j

def residMax (B : Mat n n K) (V : Mat n d K) (lam : Vec d K) : K := maxAbs (resid B V lam)

/-- `(Vᵀ V − 1) a b` -/
def orthoDefect (V : Mat n d K) : Mat d d K :=
  fun a b => sumFin n (fun i => V i a * V i b) - (if a = b then ((1 : Nat) : K) else 0)

def orthoMax (V : Mat n d K) : K := maxAbs (orthoDefect V)

/-- `(Yᵀ Y − diag lam) a b` -/
def gramDefect (Y : Mat n d K) (lam : Vec d K) : Mat d d K :=
  fun a b => sumFin n (fun i => Y i a * Y i b) - (if a = b then lam a else 0)

/-! ### LDLᵀ by rank-one elimination, with an explicit remainder -/

structure LdlState (n : Nat) (K : Type) where
  M : DMat n n K
  pivots : List K
  cols : List (DVec n K)

/-- function-level step: deflate `M` by its `k`-th pivot -/
def deflate (M : Mat n n K) (p : K) (l : Vec n K) : Mat n n K := fun i j => M i j - p * l i * l j

def ldlStep (s : LdlState n K) (k : Fin n) : LdlState n K :=
  let p := s.M.get k k
  let l := DVec.ofFn (fun i => s.M.get i k / p)
  ⟨DMat.ofFn (deflate s.M.get p l.get), p :: s.pivots, l :: s.cols⟩

def ldlRun (M : Mat n n K) : LdlState n K :=
  (List.finRange n).foldl ldlStep ⟨DMat.ofFn M, [], []⟩

def isZeroMat {m : Nat} (A : Mat n m K) : Bool :=
  (List.finRange n).all fun i => (List.finRange m).all fun j => A i j == 0

def posCount (ps : List K) : Nat := (ps.filter fun p => decide (0 < p)).length

def shifted (B : Mat n n K) (σ : K) : Mat n n K := fun i j => B i j - (if i = j then σ else 0)

/-- `some p` : the elimination of `B − σ·1` closed (remainder zero) with `p` positive pivots;
    `none` : it did not close (a zero pivot with a non-zero column) — inconclusive, try another shift -/
def inertiaPos (B : Mat n n K) (σ : K) : Option Nat :=
  let s := ldlRun (shifted B σ)
  if isZeroMat s.M.get then some (posCount s.pivots) else none

/-- number of returned eigenvalues above the shift -/
def countAbove (lam : Vec d K) (σ : K) : Nat := countFin d fun j => decide (σ < lam j)

/-- no eigenvalue of `B` above `σ` besides the returned ones above `σ` -/
def extremalAt (B : Mat n n K) (lam : Vec d K) (σ : K) : Bool :=
  match inertiaPos B σ with
  | some p => decide (p ≤ countAbove lam σ)
  | none => false

/-! ### A certificate of extremality that is sound for APPROXIMATE eigenvectors

`S = σ·1 − B + Σ_j c j · v_j v_jᵀ`.  If the exact elimination of `S` closes with all pivots `≥ 0`, `S` is positive
semi-definite, hence for every `x` orthogonal to the columns of `V`:  `xᵀ B x ≤ σ·xᵀ x` — whatever `V`, `c` are
(`Proofs/Inertia.extremalDeflated_sound`: no exactness of the eigenpairs is assumed). -/

def deflated (B : Mat n n K) (V : Mat n d K) (c : Vec d K) (σ : K) : Mat n n K :=
  fun i k => ((if i = k then σ else 0) - B i k) + sumFin d fun j => c j * V i j * V k j

def nonnegAll (ps : List K) : Bool := ps.all fun p => decide (0 ≤ p)

/-- exact positive-semi-definiteness certificate: the elimination closes and no pivot is negative -/
def psdCert (M : Mat n n K) : Bool :=
  let s := ldlRun M
  isZeroMat s.M.get && nonnegAll s.pivots

def extremalDeflated (B : Mat n n K) (V : Mat n d K) (c : Vec d K) (σ : K) : Bool :=
  psdCert (deflated B V c σ)

/-- smallest entry of `lam` (`0` for `d = 0`) -/
def minVec (lam : Vec d K) : K :=
  match List.finRange d with
  | [] => 0
  | j :: js => js.foldl (fun acc i => if lam i < acc then lam i else acc) (lam j)

/-- the certificate: residual, orthonormality and extremality at `σ = min lam + εs` -/
def certTopEig (B : Mat n n K) (V : Mat n d K) (lam : Vec d K) (εr εo εs : K) : Bool :=
  decide (residMax B V lam ≤ εr) && decide (orthoMax V ≤ εo) && extremalAt B lam (minVec lam + εs)

end
end Cert
end TapkeeVerif
