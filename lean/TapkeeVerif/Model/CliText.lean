/-
C20 — text layer of the CLI (`/repo/src/cli/util.hpp`): `read_data`, `write_matrix`, `write_vector`,
`transposeInPlace`, and the number printing / parsing of libstdc++ that they go through.  Core Lean only.

Everything is written over `List Char` (`Str`) so that the functions are ordinary structural recursions that the
theorems of `Props/C20.lean` can talk about; the driver converts with `String.toList` / `String.ofList`.

The reader and writer are polymorphic in the scalar `α` and take the number parser / printer as ORACLES
(`parse : Str → Option α`, `print : α → Str`); the contract the theorems need is the structure
`PrintParse` of `Proofs/CliText.lean`.  The concrete pair used by the driver (`parseNum`, `printG6` at `α = Rat`) follows libstdc++'s
`num_get::_M_extract_float` + `strtod` acceptance and `printf("%g")` with the default precision 6.
-/
namespace TapkeeVerif.Cli

abbrev Str := List Char

/-! ## splitting -/

/-- split at every occurrence of `d` (always at least one segment) -/
def splitOn (d : Char) : Str → List Str
  | [] => [[]]
  | c :: cs =>
    if c = d then [] :: splitOn d cs
    else
      match splitOn d cs with
      | h :: t => (c :: h) :: t
      | [] => [[c]]

/-- the tokens that the inner loop of `read_data` sees on one line:
    `while (ss) { string v; if (!getline(ss, v, delimiter)) break; … }`.
    `getline` yields the segments between delimiters; after the last delimiter an EMPTY remainder makes `getline`
    extract nothing (failbit) and the loop ends, so a trailing delimiter does not produce a token. -/
def fields (d : Char) (s : Str) : List Str :=
  let segs := splitOn d s
  if segs.getLast? = some [] then segs.dropLast else segs

/-- the successive values of `str` that the body of the outer loop of `read_data` observes:
    `while (ifs) { getline(ifs, str); BODY }`.
    * every `'\n'`-terminated line is observed once;
    * if the input ends right after a `'\n'` (or is empty) the last `getline` extracts nothing, sets
      eofbit|failbit, and `str` has been erased: BODY sees `""`;
    * if the last line is NOT terminated, `getline` sets eofbit only, `while (ifs)` (= `!fail()`) is still true, the
      next `getline` fails in its sentry WITHOUT erasing `str`, and BODY sees the last line a second time. -/
def observedLines (s : Str) : List Str :=
  let segs := splitOn '\n' s
  match segs.getLast? with
  | some [] => segs
  | some l => segs ++ [l]
  | none => []

/-! ## matrices as the CLI holds them -/

/-- a dense matrix with `rows.length` rows and `cols` columns (an Eigen matrix keeps its column count even when it has
    no rows, and its row count even when it has no columns) -/
structure DMat (α : Type) where
  cols : Nat
  rows : List (List α)
  deriving Repr, DecidableEq

def DMat.nrows {α} (M : DMat α) : Nat := M.rows.length

/-- every stored row has `cols` entries -/
def DMat.WF {α} (M : DMat α) : Prop := ∀ r ∈ M.rows, r.length = M.cols

def DMat.get? {α} (M : DMat α) (i j : Nat) : Option α := (M.rows[i]?).bind (·[j]?)

/-- `transposeInPlace()` -/
def DMat.transpose {α} (M : DMat α) : DMat α :=
  { cols := M.rows.length
    rows := (List.range M.cols).map (fun j => M.rows.filterMap (fun r => r[j]?)) }

inductive ReadError where
  /-- `throw std::runtime_error("Wrong data at line i")` -/
  | ragged (line : Nat)
  deriving Repr, DecidableEq

/-- rows as `read_data` collects them: non-empty observed lines; on each the tokens that parse (`if (value_stream >>
    value) row.push_back(value)` — a token that does not parse is DROPPED, as written) -/
def readRows {α} (parse : Str → Option α) (d : Char) (s : Str) : List (List α) :=
  ((observedLines s).filter (fun l => !l.isEmpty)).map (fun l => (fields d l).filterMap parse)

/-- the same with the outer loop written `while (getline(ifs, str)) BODY`: BODY runs once per successfully extracted
    line, i.e. on the segments between newlines except an empty remainder after the last newline -/
def readRowsWith {α} (rereadsLastLine : Bool) (parse : Str → Option α) (d : Char) (s : Str) : List (List α) :=
  if rereadsLastLine then readRows parse d s
  else ((fields '\n' s).filter (fun l => !l.isEmpty)).map (fun l => (fields d l).filterMap parse)

def firstRagged {α} (c : Nat) : List (List α) → Nat → Option Nat
  | [], _ => none
  | r :: rs, i => if r.length ≠ c then some i else firstRagged c rs (i + 1)

/-- the matrix construction at the end of `read_data` -/
def matrixOfRows {α} : List (List α) → Except ReadError (DMat α)
  | [] => .ok { cols := 0, rows := [] }
  | r0 :: rs =>
    match firstRagged r0.length (r0 :: rs) 0 with
    | some i => .error (.ragged i)
    | none => .ok { cols := r0.length, rows := r0 :: rs }

/-- `read_data(ifs, delimiter)` on the full content of an opened stream -/
def readData {α} (parse : Str → Option α) (d : Char) (s : Str) : Except ReadError (DMat α) :=
  matrixOfRows (readRows parse d s)

/-- one output line of `write_matrix` without its `endl` -/
def writeLine {α} (print : α → Str) (d : Char) (row : List α) : Str :=
  List.intercalate [d] (row.map print)

/-- `write_matrix(&M, of, delimiter)` -/
def writeMatrix {α} (print : α → Str) (d : Char) (M : DMat α) : Str :=
  (M.rows.map (fun r => writeLine print d r ++ ['\n'])).flatten

/-- `write_vector(&v, of)` -/
def writeVector {α} (print : α → Str) (v : List α) : Str :=
  (v.map (fun x => print x ++ ['\n'])).flatten

/-! ## numbers: the concrete oracle pair of the driver -/

def isSpaceC (c : Char) : Bool :=
  c = ' ' || c = '\t' || c = '\n' || c = '\x0b' || c = '\x0c' || c = '\r'

def isDigitC (c : Char) : Bool := '0' ≤ c && c ≤ '9'

def digitVal (c : Char) : Nat := c.toNat - '0'.toNat

def digitsToNat (ds : Str) : Nat := ds.foldl (fun a c => a * 10 + digitVal c) 0

def pow10 (e : Int) : Rat :=
  if e ≥ 0 then (10 : Rat) ^ e.toNat else 1 / (10 : Rat) ^ (-e).toNat

/-- magnitudes from here on are `±HUGE_VAL` for `strtod` (the half-ulp above `DBL_MAX` that still rounds down is
    ignored) -/
def dblOverflow : Rat := (2 : Rat) ^ 1024

/-- `istringstream(token) >> double` of libstdc++ in the "C" locale, with the value kept as the exact decimal:
    skip leading white space; optional sign; digits; optional `.` digits; if a mantissa digit was seen, optional
    `e|E`, optional sign, digits; stop at the first other character (the rest of the token is IGNORED);
    then `strtod` must consume the whole accumulated text: at least one mantissa digit, and at least one exponent
    digit when `e` was taken — otherwise failbit (`none`); a value that overflows to ±HUGE_VAL is failbit too.
    Not modelled: the rounding of the decimal to the nearest `double`. -/
def parseNum (s : Str) : Option Rat :=
  let s := s.dropWhile isSpaceC
  let (neg, s) :=
    match s with
    | '+' :: t => (false, t)
    | '-' :: t => (true, t)
    | _ => (false, s)
  let (ip, s) := s.span isDigitC
  let (fp, s) :=
    match s with
    | '.' :: t => t.span isDigitC
    | _ => ([], s)
  if ip.isEmpty && fp.isEmpty then none
  else
    let mant : Rat := (digitsToNat (ip ++ fp) : Nat) / (10 : Rat) ^ fp.length
    let signed (q : Rat) : Rat := if neg then -q else q
    let finite (q : Rat) : Option Rat := if q ≥ dblOverflow || q ≤ -dblOverflow then none else some q
    match s with
    | c :: t =>
      if c = 'e' || c = 'E' then
        let (eneg, t) :=
          match t with
          | '+' :: u => (false, u)
          | '-' :: u => (true, u)
          | _ => (false, t)
        let (ed, _) := t.span isDigitC
        if ed.isEmpty then none
        else
          let e := digitsToNat ed
          -- `strtod` overflow (±HUGE_VAL) makes libstdc++ set failbit; underflow does not
          if e > 100000 then (if eneg || mant = 0 then some 0 else none)
          else finite (signed (if eneg then mant / (10 : Rat) ^ e else mant * (10 : Rat) ^ e))
      else finite (signed mant)
    | [] => finite (signed mant)

def natDigits (n : Nat) : Str := Nat.toDigits 10 n

/-- number of decimal digits of a positive natural number -/
def numDigits (n : Nat) : Nat := (natDigits n).length

def roundHalfEven (q : Rat) : Int :=
  let f := q.floor
  let r := q - f
  if r < 1 / 2 then f
  else if r > 1 / 2 then f + 1
  else if f % 2 = 0 then f else f + 1

/-- decimal exponent `E` with `10^E ≤ a < 10^(E+1)` for `a > 0` -/
def decExponent (a : Rat) : Int :=
  let e : Int := (numDigits a.num.natAbs : Int) - (numDigits a.den : Int)
  if a ≥ pow10 e then e else e - 1

def stripTrailingZeros (ds : Str) : Str :=
  (ds.reverse.dropWhile (· = '0')).reverse

def padLeft (n : Nat) (ds : Str) : Str := List.replicate (n - ds.length) '0' ++ ds

/-- `os << x` for a `double` with the default stream state = `printf("%g")` with precision 6, on the exact value
    (round half to even at the sixth significant digit) -/
def printG6 (x : Rat) : Str :=
  if x = 0 then ['0']
  else
    let neg := x < 0
    let a := if neg then -x else x
    let e0 := decExponent a
    let m0 := roundHalfEven (a / pow10 (e0 - 5))
    let (m, e) := if m0 = 1000000 then ((100000 : Int), e0 + 1) else (m0, e0)
    let ds := padLeft 6 (natDigits m.toNat)
    let body : Str :=
      if e < -4 || e ≥ 6 then
        let frac := stripTrailingZeros (ds.drop 1)
        let mant := ds.take 1 ++ (if frac.isEmpty then [] else '.' :: frac)
        let ea := padLeft 2 (natDigits e.natAbs)
        mant ++ ['e', (if e < 0 then '-' else '+')] ++ ea
      else if e ≥ 0 then
        let k := e.toNat + 1
        let frac := stripTrailingZeros (ds.drop k)
        ds.take k ++ (if frac.isEmpty then [] else '.' :: frac)
      else
        let frac := stripTrailingZeros (List.replicate ((-e).toNat - 1) '0' ++ ds)
        '0' :: '.' :: frac
    if neg then '-' :: body else body

/-- `std::to_string(double)` = `printf("%f")`: six decimals, on the exact value -/
def toStringF (x : Rat) : Str :=
  let neg := x < 0
  let a := if neg then -x else x
  let n := (roundHalfEven (a * 1000000)).toNat
  let ip := natDigits (n / 1000000)
  let fp := padLeft 6 (natDigits (n % 1000000))
  (if neg then ['-'] else []) ++ ip ++ ['.'] ++ fp

/-- exact finite decimal expansion of a rational whose denominator divides a power of ten (every value `parseNum`
    returns); used to hand matrices to the C++ harness, which reads them with `strtod` like the CLI -/
def showDecimal (x : Rat) : Str :=
  let neg := x < 0
  let a := if neg then -x else x
  -- smallest k ≤ 400 with a·10^k integral
  let rec go (fuel : Nat) (k : Nat) : Nat :=
    match fuel with
    | 0 => k
    | fuel + 1 => if (a * (10 : Rat) ^ k).den = 1 then k else go fuel (k + 1)
  let k := go 400 0
  let n := (a * (10 : Rat) ^ k).num.natAbs
  let ds := padLeft (k + 1) (natDigits n)
  let ip := ds.take (ds.length - k)
  let fp := ds.drop (ds.length - k)
  (if neg then ['-'] else []) ++ ip ++ (if fp.isEmpty then [] else '.' :: fp)

def isAlnumC (c : Char) : Bool := isDigitC c || ('a' ≤ c && c ≤ 'z') || ('A' ≤ c && c ≤ 'Z')

def hexVal (c : Char) : Option Nat :=
  if isDigitC c then some (digitVal c)
  else if 'a' ≤ c && c ≤ 'f' then some (c.toNat - 'a'.toNat + 10)
  else if 'A' ≤ c && c ≤ 'F' then some (c.toNat - 'A'.toNat + 10)
  else none

/-- the accumulation loop of `cxxopts::values::integer_parser<int>` AS WRITTEN: arithmetic modulo 2^32 with the
    `result > next` wrap test -/
def cxxAccum (base : Nat) : Str → Nat → Option Nat
  | [], acc => some acc
  | c :: cs, acc =>
    let dig : Option Nat := if base = 16 then hexVal c else if isDigitC c then some (digitVal c) else none
    match dig with
    | none => none
    | some d =>
      let next := (acc * base + d) % 4294967296
      if acc > next then none else cxxAccum base cs next

/-- `cxxopts::values::parse_value(text, int&)`: regex `(-)?(0x)?([0-9a-zA-Z]+)|((0x)?0)`, then the accumulation and
    the signed range check; `none` = `incorrect_argument_type` is thrown -/
def parseIntCxx (s : Str) : Option Int :=
  let (neg, s) :=
    match s with
    | '-' :: t => (true, t)
    | _ => (false, s)
  let (base, ds) :=
    match s with
    | '0' :: 'x' :: t => if t.isEmpty then (10, s) else (16, t)
    | _ => (10, s)
  if ds.isEmpty || !(ds.all isAlnumC) then none
  else
    match cxxAccum base ds 0 with
    | none => none
    | some u =>
      if neg then (if u > 2147483648 then none else some (-(u : Int)))
      else (if u > 2147483647 then none else some (u : Int))

end TapkeeVerif.Cli
