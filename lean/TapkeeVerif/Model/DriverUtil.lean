import TapkeeVerif.Model.Util
import TapkeeVerif.Model.DMat
import TapkeeVerif.Model.Cert
/-!
Helpers shared by the spectral drivers (C05, C06, C07): matrix parsing, exact / tolerance comparison on
rationals with counting of exact vs approximate comparisons, power-of-two magnitudes for diagnostics.
Core Lean only.
-/
namespace TapkeeVerif.DriverUtil
open TapkeeVerif TapkeeVerif.Util

def pow2 (e : Int) : Rat := (2 : Rat) ^ e

def absR (x : Rat) : Rat := if x < 0 then -x else x

/-- smallest `e` with `|x| ≤ 2^e` up to one unit (diagnostic print only); `-9999` for zero -/
def log2Approx (x : Rat) : Int :=
  if x == 0 then -9999 else (x.num.natAbs.log2 : Int) - (x.den.log2 : Int) + 1

def showMag (x : Rat) : String := if x == 0 then "0" else s!"2^{log2Approx x}"

/-- rows separated by `;`, entries by `,` -/
def parseMat (n m : Nat) (s : String) : Option (DMat n m Rat) := do
  let rows ← allSome ((splitNonEmpty s ";").map (fun r => parseRats r ","))
  DMat.ofLists? n m rows

def parseVec (n : Nat) (s : String) : Option (DVec n Rat) := do
  DVec.ofList? n (← parseRats s ",")

def maxAbsM {n m : Nat} (A : Mat n m Rat) : Rat := Cert.maxAbs A

inductive Cmp where
  | exact
  | approx (err : Rat)
  | mismatch (i j : Nat) (impl model : Rat)

/-- entrywise comparison: all equal → `exact`; else max |impl − model| ≤ tol → `approx`; else first offending entry -/
def cmpMat {n m : Nat} (impl model : Mat n m Rat) (tol : Rat) : Cmp :=
  let diffs := DMat.ofFn (fun i j => absR (impl i j - model i j))
  let mx := maxAbsM diffs.get
  if mx == 0 then .exact
  else if mx ≤ tol then .approx mx
  else
    let bad := (List.finRange n).findSome? fun i => (List.finRange m).findSome? fun j =>
      if diffs.get i j > tol then some (i.1, j.1, impl i j, model i j) else none
    match bad with
    | some (i, j, a, b) => .mismatch i j a b
    | none => .approx mx

def Cmp.isBad : Cmp → Bool
  | .mismatch .. => true
  | _ => false

def Cmp.isExact : Cmp → Bool
  | .exact => true
  | _ => false

def Cmp.show : Cmp → String
  | .exact => "exact"
  | .approx e => s!"approx:{showMag e}"
  | .mismatch i j a b => s!"MISMATCH@{i},{j}:impl~{showMag a}:diff~{showMag (absR (a - b))}"

def vecAsMat {n : Nat} (v : Vec n Rat) : Mat 1 n Rat := fun _ j => v j

/-- result of the eigen-certificate with magnitudes for the log -/
structure CertOut where
  ok : Bool
  text : String

/-- the tolerance-proof extremality certificate (`Cert.extremalDeflated`, sound for approximate eigenvectors:
    `Proofs/Inertia.extremalDeflated_sound`) at `σ = min lam + εs`, retried once with a doubled slack -/
def robustExtremal {n d : Nat} (B : Mat n n Rat) (V : Mat n d Rat) (lam : Vec d Rat) (scale εrel : Rat) : String :=
  let lmin := Cert.minVec lam
  let εs := εrel * scale
  let tryAt (σ : Rat) : Bool :=
    let c : DVec d Rat := DVec.ofFn fun j => (if σ < lam j then 2 * (lam j - σ) else 0) + εs
    Cert.extremalDeflated B V c.get σ
  if tryAt (lmin + εs) then "ok" else if tryAt (lmin + 2 * εs) then "ok2" else "inconclusive"

/-- certificate of `(V, lam)` as a top-`d` eigensystem of `B`, tolerances relative to `scale`;
    retries the inertia with a slightly larger shift if the exact elimination hits a zero pivot -/
def certify {n d : Nat} (B : Mat n n Rat) (V : Mat n d Rat) (lam : Vec d Rat)
    (scale εrel : Rat) (bracket : Bool) : CertOut :=
  let r := Cert.residMax B V lam
  let o := Cert.orthoMax V
  let vmax := maxAbsM V
  let εr := εrel * scale * (if vmax < 1 then 1 else vmax)
  let lmin := Cert.minVec lam
  let εs := εrel * scale
  let tryShift (σ : Rat) : Option Bool :=
    match Cert.inertiaPos B σ with
    | some p => some (decide (p ≤ Cert.countAbove lam σ))
    | none => none
  let ext : Option Bool :=
    match tryShift (lmin + εs) with
    | some b => some b
    | none => match tryShift (lmin + εs * (9/8)) with
      | some b => some b
      | none => tryShift (lmin + εs * (5/4))
  -- lower bracket: at least d eigenvalues above lmin − εs
  let low : Option Bool :=
    if bracket then
      match Cert.inertiaPos B (lmin - εs) with
      | some p => some (decide (d ≤ p))
      | none => match Cert.inertiaPos B (lmin - εs * (9/8)) with
        | some p => some (decide (d ≤ p))
        | none => none
    else some true
  if r > εr then ⟨false, s!"FAIL-resid:{showMag r}>{showMag εr}"⟩
  else if o > εrel then ⟨false, s!"FAIL-ortho:{showMag o}"⟩
  else match ext, low with
    | some true, some true => ⟨true, s!"ok:resid{showMag r}:ortho{showMag o}"⟩
    | some false, _ => ⟨false, "FAIL-extremal:eigenvalue-above-the-returned-ones"⟩
    | _, some false => ⟨false, "FAIL-bracket:fewer-than-d-eigenvalues-above-lmin"⟩
    | _, _ => ⟨false, "inconclusive:zero-pivot"⟩

end TapkeeVerif.DriverUtil
