/-
Model of the cover tree *batch query* of `include/tapkee/neighbors/covertree.hpp`
(`k_nearest_neighbor` → `batch_nearest_neighbor` → `internal_batch_nearest_neighbor`, `descend`,
`copy_zero_set`, `copy_cover_sets`, `brute_nearest`, `update`, `setter`, `shell`) on a given tree, and
the well-formedness predicate of trees.  Core Lean only.

* A tree node is `CNode.mk p maxDist parentDist scale children` (`num_children = children.length`);
  points are sample indices, `δ a b` is `distance(dcb, a, b, ·)` (0 for identical points).
* `upper_bound` (an array of `internal_k` doubles, sorted descending, initialised with DBL_MAX) is the list
  of its *finite* entries; `ub0` is `upper_bound[0]` (`none` = DBL_MAX, i.e. fewer than `internal_k` finite
  entries).  Sums with DBL_MAX stay "infinite" (`addInf`).
* `cover_sets` is a function from scale to the list of `(distance, node)` pairs in insertion order.
* `halfsort` only reorders a cover set: it is a parameter `hsort` of the model, the theorems hold for every
  `hsort` that returns a permutation of its argument (the real `halfsort` only swaps entries); the driver runs
  the identity and compares candidate *sets*.  In the code as it stands `halfsort(v_array<d_node<P>> cover_set)` takes
  its argument BY VALUE and `v_array::elements` is a `std::vector` (deep copy): the caller's set is left as it was, so
  the identity is the exact model (the driver's `mqorder` diagnostic: identical candidate ORDER on every tree).
* batch construction (`batch_create`) is modelled in `Model/CoverBuild.lean` (theorem `batchCreate_wf`: its tree
  satisfies `wfTree`); the driver runs this model on the tree the real code built (dumped by the harness) after
  checking `wfTree` on it, and compares that tree with the one `CoverBuild.batchCreate` builds.
-/
namespace TapkeeVerif.CoverTree

inductive CNode (K : Type) where
  | mk (p : Nat) (maxDist parentDist : K) (scale : Nat) (children : List (CNode K)) : CNode K

namespace CNode
variable {K : Type}
def p : CNode K → Nat | mk p _ _ _ _ => p
def maxDist : CNode K → K | mk _ m _ _ _ => m
def parentDist : CNode K → K | mk _ _ d _ _ => d
def scale : CNode K → Nat | mk _ _ _ s _ => s
def children : CNode K → List (CNode K) | mk _ _ _ _ c => c
def isLeaf (n : CNode K) : Bool := n.children.isEmpty

mutual
/-- the points stored below a node (its leaves) -/
def leaves : CNode K → List Nat
  | mk p _ _ _ cs =>
    match cs with
    | [] => [p]
    | c :: rest => leaves c ++ leavesL rest
def leavesL : List (CNode K) → List Nat
  | [] => []
  | c :: rest => leaves c ++ leavesL rest
end

mutual
def size : CNode K → Nat
  | mk _ _ _ _ cs => 1 + sizeL cs
def sizeL : List (CNode K) → Nat
  | [] => 0
  | c :: rest => size c + sizeL rest
end

mutual
/-- number of levels (a node without children has height 1) -/
def height : CNode K → Nat
  | mk _ _ _ _ cs => 1 + heightL cs
def heightL : List (CNode K) → Nat
  | [] => 0
  | c :: rest => max (height c) (heightL rest)
end

mutual
/-- the largest `scale` of a node with children (0 when there is none): the scales at which `descend` can file a
    reference node into `cover_sets`, hence a bound of `max_scale` throughout the query -/
def innerScale : CNode K → Nat
  | mk _ _ _ s cs => max (if cs.isEmpty then 0 else s) (innerScaleL cs)
def innerScaleL : List (CNode K) → Nat
  | [] => 0
  | c :: rest => max (innerScale c) (innerScaleL rest)
end

mutual
/-- every node without children carries the scale `ls` (the member `leaf_scale`; what `set_leaf_scale` establishes).
    The query splits a query node when `scale <= current_scale && scale != leaf_scale` and then reads
    `children[0]`: on a childless node of another scale that is undefined behaviour (`none` in `internalBatch`). -/
def leavesAt (ls : Nat) : CNode K → Bool
  | mk _ _ _ s cs => (!cs.isEmpty || s == ls) && leavesAtL ls cs
def leavesAtL (ls : Nat) : List (CNode K) → Bool
  | [] => true
  | c :: rest => leavesAt ls c && leavesAtL ls rest
end

/-- recursion depth of the batch query on `top` (as query and reference tree): one frame per scale `0 .. innerScale`
    descended, one per level of the query tree split or walked by `brute_nearest` (attained, e.g., on `exTree` of
    `Props/C02.lean`)
    (`Proofs/CoverFuel.lean`: this fuel suffices and no larger fuel changes the answer) -/
def queryFuel (top : CNode K) : Nat := top.height + top.innerScale + 1
end CNode

variable {K : Type}

/-- `(distance to the current query point, reference node)` — `d_node` -/
structure DN (K : Type) where
  dist : K
  node : CNode K

abbrev Cover (K : Type) := Nat → List (DN K)

def Cover.push (c : Cover K) (s : Nat) (x : DN K) : Cover K := fun t => if t = s then c t ++ [x] else c t
def Cover.clear (c : Cover K) (s : Nat) : Cover K := fun t => if t = s then [] else c t
def Cover.empty : Cover K := fun _ => []

/-! ### `upper_bound` -/

section
variable [LT K] [DecidableLT K] [LE K] [DecidableLE K] [Add K] [Sub K]

/-- `upper_bound[0]` -/
def ub0 (K0 : Nat) (ub : List K) : Option K := if ub.length < K0 then none else ub.head?

def insertDesc (d : K) : List K → List K
  | [] => [d]
  | x :: xs => if d < x then x :: insertDesc d xs else d :: x :: xs

/-- `update(upper_bound, d)` (called only when `d < upper_bound[0]`) -/
def update (K0 : Nat) (ub : List K) (d : K) : List K :=
  if ub.length < K0 then insertDesc d ub else insertDesc d ub.tail

/-- `setter(new_upper_bound, upper_bound[0] + parent_dist)` -/
def fill (K0 : Nat) (v : Option K) : List K :=
  match v with
  | none => []
  | some x => List.replicate K0 x

def addInf (a : Option K) (x : K) : Option K := a.map (· + x)
def subInf (a : Option K) (x : K) : Option K := a.map (· - x)
def leInf (d : K) : Option K → Bool
  | none => true
  | some u => decide (d ≤ u)
def ltInf (d : K) : Option K → Bool
  | none => true
  | some u => decide (d < u)

/-- `shell(parent_query_dist, child_parent_dist, upper_bound)` -/
def shell (pq cp : K) (u : Option K) : Bool := leInf (pq - cp) u

/-- `if (d < upper_bound[0]) update(upper_bound, d)` -/
def offer (K0 : Nat) (ub : List K) (d : K) : List K := if ltInf d (ub0 K0 ub) then update K0 ub d else ub

/-! ### `descend` -/

structure DState (K : Type) where
  ub : List K
  maxScale : Nat
  cover : Cover K
  zero : List (DN K)

/-- body of the loop over the non-first children `chi` of a parent at distance `pd` -/
def descendChild (δ : Nat → Nat → K) (K0 : Nat) (Q : CNode K) (pd : K) (st : DState K) (chi : CNode K) :
    DState K :=
  let upperChi := addInf (addInf (addInf (ub0 K0 st.ub) chi.maxDist) Q.maxDist) Q.maxDist
  if shell pd chi.parentDist upperChi then
    let d := δ Q.p chi.p
    if leInf d upperChi then
      let ub' := offer K0 st.ub d
      if !chi.isLeaf then
        { ub := ub', maxScale := max st.maxScale chi.scale, cover := st.cover.push chi.scale ⟨d, chi⟩, zero := st.zero }
      else if leInf d (subInf upperChi chi.maxDist) then
        { st with ub := ub', zero := st.zero ++ [⟨d, chi⟩] }
      else { st with ub := ub' }
    else st
  else st

/-- body of the loop over the parents of `cover_sets[current_scale]` -/
def descendParent (δ : Nat → Nat → K) (K0 : Nat) (Q : CNode K) (st : DState K) (par : DN K) : DState K :=
  let upperDist := addInf (addInf (ub0 K0 st.ub) Q.maxDist) Q.maxDist
  if leInf par.dist (addInf upperDist par.node.maxDist) then
    match par.node.children with
    | [] => st
    | chi :: rest =>
      let st1 :=
        if leInf par.dist (addInf upperDist chi.maxDist) then
          if !chi.isLeaf then
            { st with maxScale := max st.maxScale chi.scale, cover := st.cover.push chi.scale ⟨par.dist, chi⟩ }
          else if leInf par.dist upperDist then { st with zero := st.zero ++ [⟨par.dist, chi⟩] }
          else st
        else st
      rest.foldl (descendChild δ K0 Q par.dist) st1
  else st

/-! ### `copy_zero_set`, `copy_cover_sets` -/

/-- one element of `copy_zero_set` / `copy_cover_sets`; `extra` = `ele->n->max_dist` for cover sets, absent for the zero
    set; `query_chi->max_dist` counts twice (repair F-COVER-COPY) -/
def copyElem (δ : Nat → Nat → K) (K0 : Nat) (C : CNode K) (extra : Option K) (acc : List K × List (DN K)) (ele : DN K) :
    List K × List (DN K) :=
  let u1 := addInf (addInf (ub0 K0 acc.1) C.maxDist) C.maxDist
  let upperDist := match extra with | none => u1 | some e => addInf u1 e
  if shell ele.dist C.parentDist upperDist then
    let d := δ C.p ele.node.p
    if leInf d upperDist then (offer K0 acc.1 d, acc.2 ++ [⟨d, ele.node⟩]) else acc
  else acc

def copyZero (δ : Nat → Nat → K) (K0 : Nat) (C : CNode K) (ub : List K) (zero : List (DN K)) : List K × List (DN K) :=
  zero.foldl (copyElem δ K0 C none) (ub, [])

/-- scales `cur, cur+1, …` (`cnt` of them) -/
def copyCover (δ : Nat → Nat → K) (K0 : Nat) (C : CNode K) (cover : Cover K) :
    Nat → Nat → List K × Cover K → List K × Cover K
  | 0, _, acc => acc
  | cnt + 1, s, acc =>
    let r := (cover s).foldl (fun a ele => copyElem δ K0 C (some ele.node.maxDist) a ele) (acc.1, [])
    copyCover δ K0 C cover cnt (s + 1) (r.1, fun t => if t = s then r.2 else acc.2 t)

/-! ### `brute_nearest`, `internal_batch_nearest_neighbor` -/

/-- `none` = the fuel ran out (it does not when `fuel ≥ Q.height`: `Proofs/CoverFuel.lean`) -/
def bruteNearest (δ : Nat → Nat → K) (K0 : Nat) : Nat → CNode K → List (DN K) → List K → Option (List (List Nat))
  | 0, _, _, _ => none
  | fuel + 1, Q, zero, ub =>
    match Q.children with
    | [] => some [Q.p :: (zero.filter (fun e => leInf e.dist (ub0 K0 ub))).map (·.node.p)]
    | c0 :: rest =>
      match bruteNearest δ K0 fuel c0 zero ub with
      | none => none
      | some r0 =>
        rest.foldl (fun acc C =>
          match acc with
          | none => none
          | some rs =>
            let nu := fill K0 (addInf (ub0 K0 ub) C.parentDist)
            let (ub', nz) := copyZero δ K0 C nu zero
            match bruteNearest δ K0 fuel C nz ub' with
            | none => none
            | some r => some (rs ++ r)) (some r0)

/-- `none` = the fuel ran out, or a query node without children is to be split (`query->children[0]` of a leaf: undefined
    behaviour in the C++).  Neither happens on a tree whose childless nodes carry `leafScale` when
    `fuel ≥ top.queryFuel` (`cover_query_fuel_suffices`). -/
def internalBatch (δ : Nat → Nat → K) (hsort : List (DN K) → List (DN K)) (K0 leafScale : Nat) :
    Nat → CNode K → Cover K → List (DN K) → Nat → Nat → List K → Option (List (List Nat))
  | 0, _, _, _, _, _, _ => none
  | fuel + 1, Q, cover, zero, cur, maxScale, ub =>
    if cur > maxScale then bruteNearest δ K0 (fuel + 1) Q zero ub
    else if Q.scale ≤ cur ∧ Q.scale ≠ leafScale then
      match Q.children with
      | [] => none
      | c0 :: rest =>
        let rs := rest.foldl (fun acc C =>
          match acc with
          | none => none
          | some rs =>
            let nu := fill K0 (addInf (ub0 K0 ub) C.parentDist)
            let (ub1, nz) := copyZero δ K0 C nu zero
            let (ub2, nc) := copyCover δ K0 C cover (maxScale + 1 - cur) cur (ub1, Cover.empty)
            match internalBatch δ hsort K0 leafScale fuel C nc nz cur maxScale ub2 with
            | none => none
            | some r => some (rs ++ r)) (some [])
        match rs with
        | none => none
        | some rs =>
          match internalBatch δ hsort K0 leafScale fuel c0 cover zero cur maxScale ub with
          | none => none
          | some r0 => some (rs ++ r0)
    else
      let st := (hsort (cover cur)).foldl (descendParent δ K0 Q) ⟨ub, maxScale, cover, zero⟩
      internalBatch δ hsort K0 leafScale fuel Q (st.cover.clear cur) st.zero (cur + 1) st.maxScale st.ub

/-- `k_nearest_neighbor(dcb, top, top, results, K0)` with recursion depth at most `fuel` -/
def batchQueryFuel (δ : Nat → Nat → K) (hsort : List (DN K) → List (DN K)) (K0 leafScale fuel : Nat) (top : CNode K) :
    Option (List (List Nat)) :=
  let d0 := δ top.p top.p
  internalBatch δ hsort K0 leafScale fuel top (Cover.empty.push 0 ⟨d0, top⟩) [] 0 0 (update K0 [] d0)

/-- `k_nearest_neighbor(dcb, top, top, results, K0)` (`hsort` = `halfsort`): one result `query :: candidates` per leaf of
    the query tree.  The fuel is `top.queryFuel`; by `cover_query_fuel_suffices` it never runs out on a tree whose
    childless nodes all carry `leafScale`, and no larger fuel gives another answer. -/
def batchQuery (δ : Nat → Nat → K) (hsort : List (DN K) → List (DN K)) (K0 leafScale : Nat) (top : CNode K) :
    Option (List (List Nat)) :=
  batchQueryFuel δ hsort K0 leafScale top.queryFuel top

end

/-! ### well-formed trees (hypothesis of `cover_query_exact`; evaluated on the real tree by the driver) -/

section
variable [LE K] [DecidableLE K] [DecidableEq K]

mutual
/-- every node: the first child carries the node's point, the other children store their true distance to it,
    `max_dist` bounds the distance to every point below (and is not below `δ p p = 0`), scales increase
    towards the leaves -/
def wfNode (δ : Nat → Nat → K) : CNode K → Bool
  | .mk p m _ s cs =>
    (match cs with
     | [] => true
     | c0 :: rest => c0.p == p && rest.all (fun c => c.parentDist == δ p c.p)) &&
    decide (δ p p ≤ m) && (CNode.leavesL cs).all (fun x => decide (δ p x ≤ m)) &&
    cs.all (fun c => s < c.scale || c.isLeaf) &&
    wfNodeL δ cs
def wfNodeL (δ : Nat → Nat → K) : List (CNode K) → Bool
  | [] => true
  | c :: rest => wfNode δ c && wfNodeL δ rest
end

/-- the whole tree: well-formed nodes and every sample exactly once among the leaves -/
def wfTree (δ : Nat → Nat → K) (N : Nat) (top : CNode K) : Bool :=
  wfNode δ top && decide (top.leaves.Nodup) && top.leaves.length == N && top.leaves.all (· < N)
end

end TapkeeVerif.CoverTree
