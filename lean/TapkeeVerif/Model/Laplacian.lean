import TapkeeVerif.Model.Mat
import TapkeeVerif.Model.DMat
import TapkeeVerif.Model.MatExtra
import TapkeeVerif.Model.Triplets
/-
Model of `routines/laplacian_eigenmaps.hpp: compute_laplacian` (C09, C10), transcribed statement by statement.
Core Lean only; polymorphic in the scalar.

Inputs: `dist i j = callback.distance(begin[i], begin[j])`, neighbour lists `nb` (uniform length `k`), `width`.
`exp` enters as the oracle `heat : K → K` (contract: positive, strictly monotone, `heat 0 = 1`).
-/
namespace TapkeeVerif.Laplacian
open TapkeeVerif

section
variable {K : Type} [Add K] [Sub K] [Mul K] [Div K] [Neg K] [Zero K] [One K]
variable {N k : Nat}

/-- the argument of `exp` as written: `-distance * distance / width` -/
def heatArg (dist width : K) : K := (-dist) * dist / width

/-- `heat = exp(-distance*distance/width)` for sample `i` and its `a`-th neighbour (tabulated) -/
def heatsD (heat : K → K) (dist : Mat N N K) (width : K) (nb : Fin N → Fin k → Fin N) : DMat N k K :=
  DMat.ofFn fun i a => heat (heatArg (dist i (nb i a)) width)

def heats (heat : K → K) (dist : Mat N N K) (width : K) (nb : Fin N → Fin k → Fin N) : Mat N k K :=
  (heatsD heat dist width nb).get

/-- `D(i) += heat; D(n) += heat` in program order -/
def degPairs (nb : Fin N → Fin k → Fin N) (h : Mat N k K) : List (Fin N × K) :=
  overFin N fun i => (List.finRange k).flatMap fun a => [(i, h i a), (nb i a, h i a)]

def degrees (nb : Fin N → Fin k → Fin N) (h : Mat N k K) : Vec N K := vecFromPairs (degPairs nb h)
def degreesD (nb : Fin N → Fin k → Fin N) (h : Mat N k K) : DVec N K := vecFromPairsD (degPairs nb h)

/-- `(n, i, -heat) (i, n, -heat)` for every sample and neighbour, then `(i, i, D(i))` -/
def lapTriplets (nb : Fin N → Fin k → Fin N) (h : Mat N k K) (D : Vec N K) : List (Triplet N N K) :=
  (overFin N fun i => (List.finRange k).flatMap fun a => [(nb i a, i, - h i a), (i, nb i a, - h i a)])
    ++ (List.finRange N).map fun i => (i, i, D i)

/-- the sparse matrix returned in `Laplacian.first` -/
def laplacianL (nb : Fin N → Fin k → Fin N) (h : Mat N k K) : Mat N N K :=
  fromTriplets (lapTriplets nb h (degrees nb h))

def laplacianLD (nb : Fin N → Fin k → Fin N) (h : Mat N k K) : DMat N N K :=
  let D := degreesD nb h
  fromTripletsD (lapTriplets nb h D.get)

/-- `compute_laplacian`: `(L, D)` -/
def computeLaplacian (heat : K → K) (dist : Mat N N K) (width : K) (nb : Fin N → Fin k → Fin N) :
    Mat N N K × Vec N K :=
  (laplacianL nb (heats heat dist width nb), degrees nb (heats heat dist width nb))

end
end TapkeeVerif.Laplacian
