/-
Configuration-level model of `tapkee::embed` for property C01 (core Lean only, executable).

  * `validated`   – the checks the code performs, evaluated through the GENERATED bounds of `Gen/IndexExprs.lean`
  * `violatedSites` – the generated index / size expressions evaluated on a concrete configuration: which container
                      accesses of the selected pipeline fall outside their container
  * `prediction`  – the set of permitted observations: `ok N d` (PassThru: `N x D`) or documented exception classes
  * `mustBeFinite` – the general-position clause (distinct samples, d within the rank of the problem, parameters
                      strictly inside their ranges)
-/
import TapkeeVerif.Model.PipelineTypes
import TapkeeVerif.Gen.IndexExprs

namespace TapkeeVerif.Pipeline
open TapkeeVerif.Gen.IndexExprs

/-! ### in-bounds predicates for the container accesses that occur -/

/-- `v[idx]`, `M.col(idx)`, `M.row(idx)` on a container with `size` entries -/
def InIdx (idx size : Int) : Prop := 0 ≤ idx ∧ idx < size
/-- `M.leftCols(n)`, `M.rightCols(n)`, `v.tail(n)`, `begin + n` (one past the end allowed) -/
def InCount (n size : Int) : Prop := 0 ≤ n ∧ n ≤ size
/-- `v.segment(start, len)`, `M.block(_, start, _, len)` -/
def InBlock (start len size : Int) : Prop := 0 ≤ start ∧ 0 ≤ len ∧ start + len ≤ size

instance (a b : Int) : Decidable (InIdx a b) := by unfold InIdx; infer_instance
instance (a b : Int) : Decidable (InCount a b) := by unfold InCount; infer_instance
instance (a b c : Int) : Decidable (InBlock a b c) := by unfold InBlock; infer_instance

/-! ### validation, as the code performs it -/

/-- the configuration passes the base constructor, the method's `validate()` and (if `embed()` searches for
    neighbours) `find_neighbors_with` -/
def validated (c : Config) : Bool :=
  decide (0 < c.N) && validateBase c && validateMethod c.method c &&
    (!usesNeighbors c.method c || validateNeighbors c)

/-! ### HLLE: the `ct` recurrence -/

/-- value of `ct` at the start of outer iteration `j` (generated initial value and step) -/
def hlleCt (d : Int) : Nat → Int
  | 0 => hlle_ct_init
  | j + 1 => hlle_ct_step (hlleCt d j) d j

/-- all `(j, p)` of the generated loop nest, for `d ≥ 0` -/
def hlleLoop (d : Int) : List (Nat × Nat) :=
  (List.range (hlle_j_hi d).toNat).flatMap fun (j : Nat) =>
    (List.range (hlle_p_hi d (j : Int)).toNat).map fun (p : Nat) => (j, p)

def hlleColsInBounds (d : Int) : Bool :=
  (hlleLoop d).all fun (j, p) =>
    decide (InIdx (hlle_col_idx (hlleCt d j) (p : Int) d) (hlle_yi_cols d (hlle_dp d)))

/-! ### neighbour-list lengths (brute force, VP-tree) -/

/-- length of the list the brute-force search produces: the first `brute_take_end k` records minus the query if it
    is among them (`found`), trimmed to k if the source does so -/
def bruteLen (found : Bool) (k : Int) : Int :=
  let l := brute_take_end k - (if found then 1 else 0)
  if brute_trims_to_k && decide (k < l) then l - 1 else l

/-- VP-tree: `vptree_requested k` results, the query removed if present, trimmed to k if the source does so -/
def vptreeLen (found : Bool) (k : Int) : Int :=
  let l := vptree_requested k - (if found then 1 else 0)
  if vptree_trims_to_k && decide (k < l) then l - 1 else l

/-! ### k-doubling (`find_neighbors`) -/

/-- `if (k > bound) k = bound` -/
def clampK (N k : Int) : Int := if k > knn_clamp_bound N then knn_clamp_bound N else k

/-- the value of `k` used in round `r` of the recursion `find_neighbors(…, knn_next_k k, …)` -/
def kSeq (N k : Int) : Nat → Int
  | 0 => clampK N k
  | r + 1 => clampK N (knn_next_k (kSeq N k r))

/-- the recursion itself: `conn k` = "the k-neighbour graph passes the connectivity test";
    returns the number of enlargements performed, `none` if the fuel runs out -/
def findNeighborsRounds (conn : Int → Bool) (N : Int) : Nat → Int → Option Nat
  | 0, _ => none
  | fuel + 1, k =>
    let ke := clampK N k
    if conn ke then some 0 else (findNeighborsRounds conn N fuel (knn_next_k ke)).map (· + 1)

/-! ### loops bounded by a literal or a parameter -/

/-- `iter = 0; while (!found && iter < bound) { body; iter++; }` — returns the number of rounds and the state -/
def boundedLoop {σ : Type} (body : σ → σ × Bool) : Nat → σ → Nat × σ
  | 0, s => (0, s)
  | fuel + 1, s =>
    let (s', found) := body s
    if found then (1, s') else
      let (n, s'') := boundedLoop body fuel s'
      (n + 1, s'')

/-! ### size of the eigenproblem each method hands to the solver -/

def nLandmarks (c : Config) : Int := landmark_count c.N c.ratio

/-- order `n` of the (square) eigenproblem, requested number of eigenvectors, skip, generalized? -/
structure EigProblem where
  tag : String
  n : Int
  want : Int
  skip : Int
  smallest : Bool
  generalized : Bool

def eigProblem (c : Config) : Option EigProblem :=
  match c.method with
  | .klle | .kltsa | .hlle => some ⟨"dense", c.N, c.d, skip_SmallestEigenvalues, true, false⟩
  | .le => some ⟨"gen", c.N, c.d, gen_sparse_diag_skip, true, true⟩
  | .npe | .lltsa | .lpp => some ⟨"gen_linear", c.D, c.d, gen_dense_dense_skip, true, true⟩
  | .mds | .isomap | .kpca => some ⟨"dense", c.N, c.d, skip_LargestEigenvalues, false, false⟩
  | .dm => some ⟨"dense", c.N, dm_requested c.d, skip_LargestEigenvalues, false, false⟩
  | .pca => some ⟨"pca", c.D, c.d, skip_LargestEigenvalues, false, false⟩
  | .lmds | .lisomap => some ⟨"landmark", nLandmarks c, c.d, skip_LargestEigenvalues, false, false⟩
  | _ => none

/-- the sites of the dense / generalized solver that fall outside the `n x n` eigenvector matrix or the
    `n`-vector of eigenvalues -/
def solverSites (c : Config) (p : EigProblem) : List String :=
  if c.em = .randomized then
    -- sketch of `want + skip` columns: the column selections stay inside it by construction
    (if p.smallest then
      (if decide (InCount (rand_smallest_leftCols p.want p.skip) (rand_sketch_cols p.want p.skip)) &&
          decide (InCount (rand_smallest_rightCols p.want p.skip) (rand_smallest_leftCols p.want p.skip))
        then [] else [p.tag ++ "_rand_cols"])
    else
      (if decide (InCount (rand_largest_rightCols p.want) (rand_sketch_cols p.want p.skip)) then [] else [p.tag ++ "_rand_cols"]))
  else if p.generalized then
    (if decide (InCount (gen_smallest_leftCols p.want p.skip) p.n) &&
        decide (InCount (gen_smallest_rightCols p.want p.skip) (gen_smallest_leftCols p.want p.skip))
      then [] else [p.tag ++ "_cols"]) ++
    (if decide (InBlock (gen_segment_start p.want p.skip) (gen_segment_len p.want p.skip p.n) p.n) then [] else [p.tag ++ "_segment"])
  else if p.smallest then
    (if decide (InCount (dense_smallest_leftCols p.want p.skip) p.n) &&
        decide (InCount (dense_smallest_rightCols p.want p.skip) (dense_smallest_leftCols p.want p.skip))
      then [] else [p.tag ++ "_cols"]) ++
    (if decide (InBlock (dense_segment_start p.want p.skip) (dense_segment_len p.want p.skip p.n) p.n) then [] else [p.tag ++ "_segment"])
  else
    (if decide (InCount (dense_largest_rightCols p.want) p.n) && decide (InCount (dense_largest_tail p.want) p.n)
      then [] else [p.tag ++ "_cols"])

/-- t-SNE: the quadtree / force buffers (θ > 0) and the exact error evaluation (θ = 0) against the `N x no_dims` map -/
def tsneSites (c : Config) : List String :=
  let N := c.N
  let last := N - 1
  if c.theta = 0 then
    (if decide (InIdx (tsne_sqdist_idx last (tsne_exact_error_dims c.d - 1) (tsne_exact_error_dims c.d)) (tsne_y_size N c.d))
      then [] else ["tsne_exact_error_read"])
  else
    (if decide (InIdx (qt_read_idx last (qt_no_dims - 1)) (tsne_y_size N c.d)) then [] else ["tsne_quadtree_read"]) ++
    (if decide (InIdx (qt_posf_idx last (qt_no_dims - 1)) (tsne_force_size N c.d)) then [] else ["tsne_posf"]) ++
    (if decide (InIdx (tsne_negf_offset last c.d + (qt_no_dims - 1)) (tsne_force_size N c.d)) then [] else ["tsne_negf"]) ++
    (if decide (InCount (tsne_knn_requested (tsne_K c.perp)) N) &&
        decide (tsne_K c.perp ≤ 0 ∨ InIdx (tsne_dist_idx (tsne_K c.perp - 1)) (tsne_knn_requested (tsne_K c.perp))) &&
        decide (InCount (tsne_K c.perp) (tsne_curP_size N))
      then [] else ["tsne_knn_buffers"])

/-- index sites of the selected pipeline whose in-bounds condition FAILS for this (validated) configuration.
    `k` is the validated `num_neighbors` (a connectivity-driven enlargement of k can only remove entries). -/
def violatedSites (c : Config) : List String :=
  let eig := match eigProblem c with
    | some p => solverSites c p
    | none => []
  let local_ := match c.method with
    | .kltsa | .lltsa =>
        (if decide (InCount (ltsa_eigvec_rightCols c.d) c.k) then [] else ["ltsa_eigvec_rightCols"]) ++
        (if decide (InCount (ltsa_g_rightCols c.d) (ltsa_g_cols c.d)) then [] else ["ltsa_g_rightCols"])
    | .hlle =>
        (if decide (InCount (hlle_eigvec_rightCols c.d) c.k) then [] else ["hlle_eigvec_rightCols"]) ++
        (if hlleColsInBounds c.d then [] else ["hlle_col"]) ++
        (if decide (InCount (hlle_yi_rightCols (hlle_dp c.d)) (hlle_yi_cols c.d (hlle_dp c.d))) &&
            decide (InBlock (hlle_block_start c.d) (hlle_block_cols c.d) (hlle_yi_cols c.d (hlle_dp c.d)))
          then [] else ["hlle_yi_blocks"])
    | .dm =>
        (if decide (InIdx (dm_norm_col c.d) (dm_requested c.d)) && decide (InCount (dm_leftCols c.d) (dm_requested c.d))
          then [] else ["dm_cols"])
    | .ms =>
        (if decide (InCount (ms_row_hi c.d) c.D) && decide (InCount (ms_bottomRows c.D c.d) c.D) &&
            decide (InCount (ms_topRows c.d) c.D) then [] else ["ms_rows"])
    | .tsne => tsneSites c
    | .lmds | .lisomap =>
        (if decide (InCount (nLandmarks c) (landmark_vector_size c.N)) then [] else ["landmark_erase"])
    | _ => []
  -- local stages run before the global eigenproblem
  local_ ++ eig

/-! ### prediction -/

def usesEig (m : Method) : Bool := usesStandardEig m || usesGeneralizedEig m

/-- shape of a successful result -/
def okShape (c : Config) : Int × Int :=
  if c.method = .passthru then (c.N, c.D) else (c.N, c.d)

structure Prediction where
  validated : Bool
  ok : Option (Int × Int)
  throws : List Err
  deriving Repr

/-- permitted observations of one call.  Not validated: exactly the exception class the failing check raises.
    Validated: the `N x d` result, `eigendecomposition_error` where an eigensolver is involved; a generalized
    problem with the Randomized solver can only answer `unsupported_method_error`. -/
def prediction (c : Config) : Prediction :=
  if c.N ≤ 0 then ⟨false, none, [.no_data_error]⟩
  else if !validated c then ⟨false, none, [.wrong_parameter_error]⟩
  else if usesGeneralizedEig c.method && c.em = .randomized then ⟨true, none, [.unsupported_method_error]⟩
  else ⟨true, some (okShape c), if usesEig c.method then [.eigendecomposition_error] else []⟩

/-! ### general position -/

def Rat.strictlyBetween (lo x hi : Rat) : Bool := decide (lo < x) && decide (x < hi)

/-- the number of retained directions does not exceed the rank of the problem the method solves for GENERIC data
    (feature dimension for linear methods, `min(D, N-1)` positive eigenvalues of a centred Euclidean Gram matrix,
    number of landmarks, neighbourhood size for the local tangent methods) -/
def withinRank (c : Config) : Bool :=
  match c.method with
  | .pca | .rp | .fa | .ms | .npe | .lpp | .lltsa => decide (c.d ≤ c.D)
  -- MDS, kernel PCA, Isomap clamp the retained eigenvalues at zero before the square root, the landmark methods use a
  -- pseudo-inverse for vanishing eigenvalues: every validated target_dimension yields finite coordinates
  | .mds | .kpca | .isomap => true
  | .lmds | .lisomap => true
  | .kltsa => decide (c.d ≤ min c.k c.D)
  | .hlle => decide (hlle_yi_cols c.d (hlle_dp c.d) ≤ c.k) && decide (c.d ≤ c.D)
  | .klle | .le | .dm => decide (c.d + 2 ≤ c.N)
  | .spe | .passthru => true
  | .tsne => decide (c.d = qt_no_dims) || decide (c.theta = 0 ∧ 2 ≤ c.d)

/-- no numeric parameter sits on the boundary of its range -/
def interior (c : Config) : Bool :=
  match c.method with
  | .lmds | .lisomap => Rat.strictlyBetween (3 / (c.N : Rat)) c.ratio 1
  | .tsne => Rat.strictlyBetween 0 c.perp (((c.N : Rat) - 1) / 3) && decide (1 ≤ tsne_K c.perp || c.theta = 0)
  | .ms => Rat.strictlyBetween 0 c.squish 1
  | .fa => decide (0 < c.faEps) && decide (0 < c.maxIter)
  -- heat / diffusion kernels: the width is commensurate with the generic data class (coordinates in (-4, 4), squared
  -- distances ≤ 64 D), so that exp(-dist²/width) stays far above the rounding unit (a float-level condition)
  | .dm | .le | .lpp => decide (64 * (c.D : Rat) ≤ 40 * c.width)
  -- regularisers of the local problems: strictly positive and not dominating (the documented defaults are 1e-9, 1e-3)
  | .klle | .npe => Rat.strictlyBetween 0 c.nullShift 1 && Rat.strictlyBetween 0 c.klleShift 1
  | .kltsa | .lltsa => Rat.strictlyBetween 0 c.nullShift 1
  | _ => true

/-- the finiteness clause of the property applies -/
def mustBeFinite (c : Config) (data : DataClass) : Bool :=
  decide (data = .generic) && validated c && (violatedSites c).isEmpty && withinRank c && interior c &&
    (prediction c).ok.isSome

/-- permitted observations of one call ON A GIVEN DATA CLASS: in general position (`mustBeFinite`) a validated call must
    return its embedding — no exception class is permitted there, `eigendecomposition_error` is the answer to degenerate
    data only.  Elsewhere `prediction`. -/
def predictionOn (c : Config) (data : DataClass) : Prediction :=
  let p := prediction c
  if mustBeFinite c data then { p with throws := [] } else p

end TapkeeVerif.Pipeline
