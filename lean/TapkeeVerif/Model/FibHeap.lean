/-
Model of `tapkee_internal::fibonacci_heap` (include/tapkee/utils/fibonacci_heap.hpp), core Lean only.

The C++ keeps circular doubly linked sibling lists.  A sibling list is modelled as the
sequence of its nodes read *rightwards* starting from the node the owning pointer designates
(`min_root` for the root list, `parent->child` for a child list).  A forest `F` is such a
sequence; every node carries its own child forest, so `F` is a plain (non-nested) inductive
type and all functions below are structural.

Keys are `Int`: the heap only compares keys with `<`/`>` and copies them, so the behaviour on
any finite set of non-NaN doubles is the behaviour on their order-isomorphic integers.

Two explicit error states replace undefined behaviour instead of totalising it away:
  * `oob`      – `A[d]` is accessed with `d ≥ Dn` in `consolidate`;
  * `corrupt`  – `decrease_key` would make `min_root` point to a non-root node.
-/
namespace TapkeeVerif.FibHeap

/-- sibling list; `cons idx key rank marked kids rest` -/
inductive F where
  | nil : F
  | cons (idx : Nat) (key : Int) (rank : Nat) (marked : Bool) (kids : F) (rest : F) : F
  deriving Repr, BEq, Inhabited

/-- one tree (a node with its child forest) -/
structure Tr where
  idx : Nat
  key : Int
  rank : Nat
  marked : Bool
  kids : F
  deriving Repr, BEq, Inhabited

namespace F

def push (t : Tr) (rest : F) : F := .cons t.idx t.key t.rank t.marked t.kids rest

/-- top-level trees of a sibling list, in order -/
def trees : F → List Tr
  | nil => []
  | cons i k r m kids rest => ⟨i, k, r, m, kids⟩ :: trees rest

def ofTrees : List Tr → F
  | [] => nil
  | t :: ts => push t (ofTrees ts)

/-- all `(index, key)` pairs stored in the forest (every level) -/
def entries : F → List (Nat × Int)
  | nil => []
  | cons i k _ _ kids rest => (i, k) :: (entries kids ++ entries rest)

def size : F → Nat
  | nil => 0
  | cons _ _ _ _ kids rest => 1 + size kids + size rest

/-- key stored for `idx` (`nodes[idx]->index != -1` and its key) -/
def lookup (idx : Nat) : F → Option Int
  | nil => none
  | cons i k _ _ kids rest =>
    if i = idx then some k else
      match lookup idx kids with
      | some v => some v
      | none => lookup idx rest

end F

/-- `add_to_roots` on the tree list of the root ring (head = `min_root`):
    insert right of `min_root`; the new node becomes `min_root` if its key is strictly smaller,
    i.e. the ring is re-read starting from it. -/
def addToRoots (roots : List Tr) (up : Tr) : List Tr :=
  match roots with
  | [] => [up]
  | m :: rs => if up.key < m.key then up :: (rs ++ [m]) else m :: up :: rs

/-- `link_nodes(y, x)`: `y` becomes a child of `x`, inserted right of `x->child` -/
def link (y x : Tr) : Tr :=
  let y' : Tr := { y with marked := false }
  let kids' : F :=
    match x.kids with
    | .nil => F.push y' .nil
    | .cons i k r m kk rest => .cons i k r m kk (F.push y' rest)
  { x with kids := kids', rank := x.rank + 1 }

/-- the auxiliary array `A` of `consolidate` -/
abbrev Slots := List (Option Tr)

def slotGet (a : Slots) (d : Nat) : Option (Option Tr) := a[d]?   -- outer `none` = out of bounds
def slotSet (a : Slots) (d : Nat) (v : Option Tr) : Slots := a.set d v

/-- inner `while (A[d] != NULL)` loop for the current root `x`; `fuel` ≥ number of slots suffices.
    Returns `none` when an index `≥ Dn` is touched. -/
def carry : Nat → Slots → Tr → Nat → Option Slots
  | 0, _, _, _ => none
  | fuel + 1, a, x, d =>
    match slotGet a d with
    | none => none                                  -- A[d] with d ≥ Dn : out of bounds
    | some none => some (slotSet a d (some x))      -- A[d] = x
    | some (some y) =>
      let (y, x) := if y.key < x.key then (x, y) else (y, x)
      carry fuel (slotSet a d none) (link y x) (d + 1)

/-- the `do … while (w != NULL)` loop over the root ring -/
def consolidateLoop : List Tr → Slots → Option Slots
  | [], a => some a
  | x :: ws, a =>
    match carry (a.length + 1) a x x.rank with
    | none => none
    | some a' => consolidateLoop ws a'

/-- final loop of `consolidate`: rebuild the root ring from `A[0..Dn)` -/
def rebuild : Slots → List Tr → List Tr
  | [], roots => roots
  | none :: a, roots => rebuild a roots
  | some t :: a, roots => rebuild a (addToRoots roots { t with marked := false })

def consolidate (dn : Nat) (roots : List Tr) : Option (List Tr) :=
  match consolidateLoop roots (List.replicate dn none) with
  | none => none
  | some a => some (rebuild a [])

/-! ### decrease_key: descent to the node, `cut` and `cascading_cut` on the way back up -/

inductive DkRes where
  | notFound
  /-- handled; `cuts` are the subtrees handed to `add_to_roots`, in call order -/
  | done (f : F) (cuts : List Tr) (isRoot : Bool) (larger : Bool)
  /-- a node of *this* sibling list was cut out (`f` is the list without it): the owner of the
      list must decrement its rank and undergo `cascading_cut` -/
  | cutHere (f : F) (cuts : List Tr)
  deriving Inhabited

/-- `pk` = key of the parent owning this sibling list (`none` for the root ring).
    `larger` reports the guard `key > nodes[index]->key` (nothing changes then). -/
def dk (idx : Nat) (newKey : Int) : Option Int → F → DkRes
  | _, .nil => .notFound
  | pk, .cons i k r m kids rest =>
    if i = idx then
      if newKey > k then .done (.cons i k r m kids rest) [] pk.isNone true
      else
        match pk with
        | some p =>
          if newKey < p then .cutHere rest [⟨i, newKey, r, false, kids⟩]
          else .done (.cons i newKey r m kids rest) [] false false
        | none => .done (.cons i newKey r m kids rest) [] true false
    else
      match dk idx newKey (some k) kids with
      | .done kids' cuts _ larger => .done (.cons i k r m kids' rest) cuts false larger
      | .cutHere kids' cuts =>
        -- parent->rank--, then cascading_cut(this node)
        match pk with
        | none => .done (.cons i k (r - 1) m kids' rest) cuts false false
        | some _ =>
          if !m then .done (.cons i k (r - 1) true kids' rest) cuts false false
          else .cutHere rest (cuts ++ [⟨i, k, r - 1, false, kids'⟩])
      | .notFound =>
        match dk idx newKey pk rest with
        | .notFound => .notFound
        | .done rest' cuts isRoot larger => .done (.cons i k r m kids rest') cuts isRoot larger
        | .cutHere rest' cuts => .cutHere (.cons i k r m kids rest') cuts

/-- rotate the ring so that it is read starting from the tree with index `idx` -/
def rotateTo (idx : Nat) (roots : List Tr) : List Tr :=
  let pre := roots.takeWhile (·.idx ≠ idx)
  let post := roots.dropWhile (·.idx ≠ idx)
  post ++ pre

/-! ### the heap -/

structure Heap where
  cap : Nat
  dn : Nat
  roots : List Tr          -- root ring read rightwards from `min_root`
  numNodes : Nat
  numTrees : Int
  deriving Repr, Inhabited

inductive Err where
  | oob | corrupt
  deriving Repr, BEq, DecidableEq

def Heap.forest (h : Heap) : F := F.ofTrees h.roots
def Heap.lookup (h : Heap) (i : Nat) : Option Int := h.forest.lookup i

/-- the constructor's loop `Dn = 1; for (fib_prev = 1, fib = 2; fib <= capacity; Dn++) …`:
    `a`, `b` are consecutive Fibonacci numbers, the loop stops at the first `b > cap`.
    `fuel = cap + 1` iterations always suffice (`b` grows by at least one each round). -/
def dnGo (cap : Nat) : Nat → Nat → Nat → Nat → Nat
  | 0, _, _, dn => dn
  | fuel + 1, a, b, dn => if b ≤ cap then dnGo cap fuel b (a + b) (dn + 1) else dn

/-- size of the consolidation array for a heap of capacity `cap`
    (compared with the C++ value for every capacity the harness uses) -/
def dnOf (cap : Nat) : Nat := dnGo cap (cap + 1) 1 2 1

def Heap.init (cap : Nat) (dn : Nat := dnOf cap) : Heap :=
  { cap := cap, dn := dn, roots := [], numNodes := 0, numTrees := 0 }

def Heap.insert (h : Heap) (idx : Int) (key : Int) : Heap :=
  if idx < 0 ∨ idx ≥ h.cap then h else
  let i := idx.toNat
  if (h.lookup i).isSome then h else
  { h with roots := addToRoots h.roots ⟨i, key, 0, false, .nil⟩,
           numNodes := h.numNodes + 1, numTrees := h.numTrees + 1 }

def Heap.decreaseKey (h : Heap) (idx : Int) (key : Int) : Except Err Heap :=
  if idx < 0 ∨ idx ≥ h.cap then .ok h else
  let i := idx.toNat
  match dk i key none h.forest with
  | .notFound => .ok h
  | .cutHere _ _ => .error .corrupt      -- impossible for the root ring (pk = none)
  | .done f cuts isRoot larger =>
    if larger then .ok h else
    let roots := cuts.foldl addToRoots f.trees
    let nt := h.numTrees + cuts.length
    match roots with
    | [] => .error .corrupt
    | m :: _ =>
      if key < m.key then
        -- `min_root = nodes[index]`: only meaningful when that node is a root
        if isRoot ∨ cuts.any (·.idx == i) then
          .ok { h with roots := rotateTo i roots, numTrees := nt }
        else .error .corrupt
      else .ok { h with roots := roots, numTrees := nt }

/-- returns the new heap and `(index, key)`; index `-1` when empty -/
def Heap.extractMin (h : Heap) : Except Err (Heap × Option (Nat × Int)) :=
  if h.numNodes = 0 then .ok (h, none) else
  match h.roots with
  | [] => .ok (h, none)
  | m :: _ =>
    -- children of min_node go to the root ring one by one
    let roots1 := m.kids.trees.foldl addToRoots h.roots
    let nt1 := h.numTrees + m.kids.trees.length
    -- unlink min_node; min_root = min_node->right
    let ring := rotateTo m.idx roots1
    let rest := ring.drop 1
    let nt2 := nt1 - 1
    match rest with
    | [] => .ok ({ h with roots := [], numNodes := h.numNodes - 1, numTrees := nt2 }, some (m.idx, m.key))
    | _ =>
      match consolidate h.dn rest with
      | none => .error .oob
      | some roots' =>
        .ok ({ h with roots := roots', numNodes := h.numNodes - 1, numTrees := roots'.length },
             some (m.idx, m.key))

def Heap.clear (h : Heap) : Heap := { h with roots := [], numNodes := 0, numTrees := 0 }

def Heap.getKey (h : Heap) (idx : Int) : Option Int :=
  if idx < 0 ∨ idx ≥ h.cap then none else h.lookup idx.toNat

/-! ### histories -/

inductive Op where
  | insert (i : Int) (k : Int)
  | decrease (i : Int) (k : Int)
  | extract
  | clear
  | getKey (i : Int)
  deriving Repr, BEq, DecidableEq

/-- observable output of one operation -/
inductive Out where
  | size (n : Nat)                         -- after insert/decrease/clear: reported size
  | extracted (n : Nat) (r : Option (Nat × Int))
  | key (r : Option Int)
  deriving Repr, BEq, DecidableEq

def step (h : Heap) : Op → Except Err (Heap × Out)
  | .insert i k => let h' := h.insert i k; .ok (h', .size h'.numNodes)
  | .decrease i k => do let h' ← h.decreaseKey i k; pure (h', .size h'.numNodes)
  | .extract => do let (h', r) ← h.extractMin; pure (h', .extracted h'.numNodes r)
  | .clear => let h' := h.clear; .ok (h', .size h'.numNodes)
  | .getKey i => .ok (h, .key (h.getKey i))

def run (h : Heap) : List Op → Except Err (Heap × List Out)
  | [] => .ok (h, [])
  | op :: ops => do
    let (h', o) ← step h op
    let (h'', os) ← run h' ops
    pure (h'', o :: os)

end TapkeeVerif.FibHeap
