import TapkeeVerif.Model.Dijkstra
/-!
Threads.  `compute_shortest_distances_matrix` runs its source loop as `#pragma omp for nowait` inside
`#pragma omp parallel`; each thread owns `f`, `s` (`new bool[N]`, uninitialised) and a heap, which survive from
one iteration the thread executes to the next, and all threads write into the shared result matrix.

`iteration` is the loop body *as written*, started from whatever the thread's scratch state and the matrix row
contain; a schedule is any sequence of events "thread `th` executes loop index `r`".  `Props/C04.lean` proves
(`rows_independent`) that every schedule that executes each loop index once, with any number of threads and any
initial garbage, produces exactly the rows `row … r`, i.e. the matrix of `allPairs` / `landmarkRows`.
Core Lean only.
-/
namespace TapkeeVerif.Dijkstra

/-- thread-private state surviving between the iterations executed by one thread -/
structure Scratch (K : Type) (N : Nat) where
  s : Vector Bool N
  f : Vector Bool N
  heap : List (Nat × K)

section
variable {K : Type} [Add K] [Zero K] [LT K] [DecidableLT K]

/-- `heap.push(HeapElement(src, 0.0))` resp. `heap.insert(src, 0.0)` on the thread's heap as found -/
def pushInit (disc : Disc) (N : Nat) (heap : List (Nat × K)) (src : Nat) : List (Nat × K) :=
  match disc with
  | .lazy => heap ++ [(src, 0)]
  | .indexed => idxInsert N heap src 0

/-- the body of the `omp for` loop for one loop index: the fill loop overwrites the row and the scratch arrays
    entry by entry, `shortest_distances(r, src) = 0`, the source is pushed, `f[flag] = true`, the relax loop,
    `heap.clear()`.  Returns the thread's scratch state and the new content of the row (the only row written). -/
def iteration (P : Problem K) (disc : Disc) (k : Nat) (ch : Nat → Nat) (src flag : Nat)
    (scr : Scratch K P.N) (rowOld : Vector (Option K) P.N) :
    Except Err (Scratch K P.N × Vector (Option K) P.N) :=
  if hs : src < P.N then
    if hf : flag < P.N then
      match loop P disc k ch (fuelFor P.N k) 0
          { dist := (rowOld.map fun _ => none).set src (some 0),
            s := scr.s.map fun _ => false,
            f := (scr.f.map fun _ => false).set flag true,
            q := pushInit disc P.N scr.heap src } with
      | .ok σ => .ok ({ s := σ.s, f := σ.f, heap := [] }, σ.dist)
      | .error e => .error e
    else .error .oob
  else .error .oob

/-- the shared matrix (row by row) and the scratch state of every thread -/
structure World (K : Type) (N : Nat) where
  rows : List (Vector (Option K) N)
  scr : List (Scratch K N)

/-- thread `th` executes loop index `r` (source vertex `srcOf r`, flag index `flagOf r`) -/
def event (P : Problem K) (disc : Disc) (k : Nat) (ch : Nat → Nat → Nat) (srcOf flagOf : Nat → Nat)
    (W : World K P.N) (e : Nat × Nat) : Except Err (World K P.N) :=
  match W.scr[e.1]?, W.rows[e.2]? with
  | some scr, some rowOld =>
    match iteration P disc k (ch e.2) (srcOf e.2) (flagOf e.2) scr rowOld with
    | .ok (scr', row') => .ok { rows := W.rows.set e.2 row', scr := W.scr.set e.1 scr' }
    | .error err => .error err
  | _, _ => .error .oob

/-- a schedule: events in the order in which they happen -/
def runSchedule (P : Problem K) (disc : Disc) (k : Nat) (ch : Nat → Nat → Nat) (srcOf flagOf : Nat → Nat) :
    List (Nat × Nat) → World K P.N → Except Err (World K P.N)
  | [], W => .ok W
  | e :: es, W =>
    match event P disc k ch srcOf flagOf W e with
    | .ok W' => runSchedule P disc k ch srcOf flagOf es W'
    | .error err => .error err

end
end TapkeeVerif.Dijkstra
