/-
Configuration-level vocabulary of property C01 (core Lean only): methods, back-ends, the configuration record
the generated validation functions (`Gen/IndexExprs.lean`) are stated over, data classes, exception classes.
-/
namespace TapkeeVerif.Pipeline

/-- the 20 reduction methods, in the dispatch order of `methods.hpp` -/
inductive Method
  | klle | kltsa | dm | mds | lmds | isomap | lisomap | npe | lltsa | hlle | le | lpp | pca | kpca | rp | spe
  | passthru | fa | tsne | ms
  deriving DecidableEq, Repr, Inhabited

def Method.all : List Method :=
  [.klle, .kltsa, .dm, .mds, .lmds, .isomap, .lisomap, .npe, .lltsa, .hlle, .le, .lpp, .pca, .kpca, .rp, .spe,
   .passthru, .fa, .tsne, .ms]

def Method.name : Method → String
  | .klle => "klle" | .kltsa => "kltsa" | .dm => "dm" | .mds => "mds" | .lmds => "lmds" | .isomap => "isomap"
  | .lisomap => "lisomap" | .npe => "npe" | .lltsa => "lltsa" | .hlle => "hlle" | .le => "le" | .lpp => "lpp"
  | .pca => "pca" | .kpca => "kpca" | .rp => "rp" | .spe => "spe" | .passthru => "passthru" | .fa => "fa"
  | .tsne => "tsne" | .ms => "ms"

def Method.ofName? (s : String) : Option Method := Method.all.find? (·.name == s)

inductive NeighborsMethod | brute | vptree | covertree
  deriving DecidableEq, Repr, Inhabited

inductive EigenMethod | dense | randomized
  deriving DecidableEq, Repr, Inhabited

/-- one call of the public API: method, back-ends, sizes and every keyword a `validate()` looks at.
    `N` samples of feature dimension `D`; `d` = target_dimension, `k` = num_neighbors.  `double` keywords are exact
    rationals. -/
structure Config where
  method : Method
  nm : NeighborsMethod
  em : EigenMethod
  N : Int
  D : Int
  d : Int
  k : Int
  ratio : Rat
  perp : Rat
  theta : Rat
  width : Rat
  squish : Rat
  speTol : Rat
  faEps : Rat
  nullShift : Rat
  klleShift : Rat
  timesteps : Int
  speUpd : Int
  maxIter : Int
  speGlobal : Bool
  checkConn : Bool
  deriving Repr, Inhabited

/-- the data classes of the sweep -/
inductive DataClass | generic | dup | lattice | collinear | constant | widerange
  deriving DecidableEq, Repr, Inhabited

def DataClass.ofName? : String → Option DataClass
  | "generic" => some .generic | "dup" => some .dup | "lattice" => some .lattice
  | "collinear" => some .collinear | "collinear_last" => some .collinear
  | "constant" => some .constant | "widerange" => some .widerange | _ => none

/-- tapkee's exception classes (`exceptions.hpp`) -/
inductive Err
  | wrong_parameter_error | wrong_parameter_type_error | missed_parameter_error | multiple_parameter_error
  | unsupported_method_error | not_enough_memory_error | cancelled_exception | eigendecomposition_error
  | no_data_error
  deriving DecidableEq, Repr, Inhabited

def Err.name : Err → String
  | .wrong_parameter_error => "wrong_parameter_error"
  | .wrong_parameter_type_error => "wrong_parameter_type_error"
  | .missed_parameter_error => "missed_parameter_error"
  | .multiple_parameter_error => "multiple_parameter_error"
  | .unsupported_method_error => "unsupported_method_error"
  | .not_enough_memory_error => "not_enough_memory_error"
  | .cancelled_exception => "cancelled_exception"
  | .eigendecomposition_error => "eigendecomposition_error"
  | .no_data_error => "no_data_error"

def Err.all : List Err :=
  [.wrong_parameter_error, .wrong_parameter_type_error, .missed_parameter_error, .multiple_parameter_error,
   .unsupported_method_error, .not_enough_memory_error, .cancelled_exception, .eigendecomposition_error,
   .no_data_error]

end TapkeeVerif.Pipeline
