/-!
C12 (history independence) — the vocabulary in which `tools/translate_statics.py` describes every object of
static storage duration (and every use of the C library's hidden `std::rand` state) that it finds in
`include/tapkee`, and the decidable predicate `accounted` over which `Props/C12.no_hidden_state` is stated.
Core Lean only.  The *table* itself is regenerated from the source on every run (`Gen/Statics.lean`).
-/
namespace TapkeeVerif.Statics

/-- why an object of static storage duration cannot carry information from one `embed` call into the
    *result* of a later one.  Every role except `unknown` is established by a mechanical check of the
    translator on the source text (described next to each constructor). -/
inductive Role
  /-- declared `const` / `constexpr`: immutable once static initialisation is over -/
  | constant
  /-- mutable, but never named inside any function body of the library: only initialisers of `const`
      objects read it, at load time -/
  | initOnly
  /-- the `Logging` singleton: every use of `Logging::instance()` in the library is a `.message_*(…)` call,
      whose only effect is output -/
  | loggingOnly
  /-- random-generator state (the seedable shuffle generator, `std::rand`) drawn by a randomised stage:
      SPE, landmark selection, random projection, t-SNE, manifold sculpting, the randomized eigensolver -/
  | randomStream
  /-- a draw from the global stream inside the VP-tree's `#ifdef CUSTOM_UNIFORM_RANDOM_FUNCTION` branch (the documented
      override; without it the tree uses a generator it owns, F-VP-RAND): does not influence an exact search.  Any other
      rand() / uniform_random() call in the VP-tree is a `randomStream` on a deterministic path, i.e. not accounted for -/
  | vantageChoice
  /-- the `TAPKEE_VERIF`-only observer hook (the library hands copies to it and reads nothing back) -/
  | verifHook
  /-- a function-local `static` literal that is only returned (`static std::string foo("SM")`) -/
  | readOnlyLiteral
  /-- anything the translator cannot place: a potential hidden state -/
  | unknown
  deriving DecidableEq, Repr, Inhabited

structure Obj where
  name : String
  file : String
  line : Nat
  /-- enclosing function (`""` at namespace / class scope) -/
  scope : String
  decl : String
  isMutable : Bool
  role : Role
  /-- named (directly or through its accessor function) in code that a deterministic method's `embed()`
      can reach: everything except the stages that only randomised methods / the randomized eigensolver use -/
  onDeterministicPath : Bool
  deriving Repr, Inhabited

/-- the object is explained, and if it is mutable and reachable from a deterministic method then its role is
    one that cannot influence the returned embedding -/
def accounted (o : Obj) : Bool :=
  o.role != .unknown &&
    (!(o.isMutable && o.onDeterministicPath) ||
      (o.role == .initOnly || o.role == .loggingOnly || o.role == .vantageChoice ||
       o.role == .verifHook || o.role == .readOnlyLiteral))

end TapkeeVerif.Statics
