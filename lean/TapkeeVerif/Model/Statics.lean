/-!
C12 (history independence) — the vocabulary in which `tools/translate_statics.py` describes every object of
static storage duration (and every use of the C library's hidden `std::rand` state) that it finds in
`include/tapkee`, and the decidable predicate `accounted` over which `Props/C12.no_hidden_state` is stated.
Core Lean only.  The *table* itself is regenerated from the source on every run (`Gen/Statics.lean`).
-/
namespace TapkeeVerif.Statics

/-- why an object of static storage duration cannot carry information from one `embed` call into the
    *result* of a later one.  Every role except `unknown` is established by a mechanical check of the
    translator on the source text (described next to each constructor). -/
inductive Role
  /-- declared `const` / `constexpr`: immutable once static initialisation is over -/
  | constant
  /-- mutable, but never named inside any function body of the library: only initialisers of `const`
      objects read it, at load time -/
  | initOnly
  /-- the `Logging` singleton: every use of `Logging::instance()` in the library is a `.message_*(…)` call,
      whose only effect is output -/
  | loggingOnly
  /-- random-generator state (the seedable shuffle generator, `std::rand`) drawn by a randomised stage:
      SPE, landmark selection, random projection, t-SNE, manifold sculpting, the randomized eigensolver -/
  | randomStream
  /-- a draw from the global stream inside the VP-tree's `#ifdef CUSTOM_UNIFORM_RANDOM_FUNCTION` branch (the documented
      override; without it the tree uses a generator it owns, F-VP-RAND): does not influence an exact search.  Any other
      rand() / uniform_random() call in the VP-tree is a `randomStream` on a deterministic path, i.e. not accounted for -/
  | vantageChoice
  /-- the `TAPKEE_VERIF`-only observer hook (the library hands copies to it and reads nothing back) -/
  | verifHook
  /-- a function-local `static` literal that is only returned (`static std::string foo("SM")`) -/
  | readOnlyLiteral
  /-- anything the translator cannot place: a potential hidden state -/
  | unknown
  deriving DecidableEq, Repr, Inhabited

/-- the three-way classification over which `Props/C12.statics_constant_or_accepted` is stated -/
inductive Cls
  /-- immutable AND its initialiser is fixed before any `embed` call can run (a literal / load-time expression) -/
  | constant
  /-- a documented process-wide setting: the logger singleton, the `TAPKEE_VERIF` hooks, the seedable generators -/
  | config
  /-- everything else: a cache, a counter, a value frozen by the first call (`static const T x = f(argument)`), … -/
  | state
  deriving DecidableEq, Repr, Inhabited

structure Obj where
  name : String
  file : String
  line : Nat
  /-- enclosing function (`""` at namespace / class scope) -/
  scope : String
  decl : String
  /-- declared type as written (tokens between the storage-class keyword and the name) -/
  type : String := ""
  /-- declared `const` / `constexpr` (top level) -/
  isConst : Bool := false
  /-- function-local static whose initialiser names anything but literals (a parameter, a local, a call): it is
      evaluated by the FIRST call that reaches the declaration and frozen for the rest of the process -/
  rtInit : Bool := false
  /-- function-local static that its function hands out (`return x;` / `return &x;`): a singleton -/
  returned : Bool := false
  /-- a declared object (false for the rows that record a *use* of the C library's generator state) -/
  isObject : Bool := true
  isMutable : Bool
  role : Role
  /-- named (directly or through its accessor function) in code that a deterministic method's `embed()`
      can reach: everything except the stages that only randomised methods / the randomized eigensolver use -/
  onDeterministicPath : Bool
  deriving Repr, Inhabited

/-- the object is explained, and if it is mutable and reachable from a deterministic method then its role is
    one that cannot influence the returned embedding -/
def accounted (o : Obj) : Bool :=
  o.role != .unknown &&
    (!(o.isMutable && o.onDeterministicPath) ||
      (o.role == .initOnly || o.role == .loggingOnly || o.role == .vantageChoice ||
       o.role == .verifHook || o.role == .readOnlyLiteral))

/-- constant = immutable with an initialiser that no call can influence; config = the roles the translator establishes
    for the documented process-wide settings; state = anything else -/
def cls (o : Obj) : Cls :=
  if !o.isMutable && o.isConst && !o.rtInit then .constant
  else if o.role == .loggingOnly || o.role == .verifHook || (o.role == .randomStream && o.isObject) then .config
  else .state

/-- identity of an object for the hand-kept accepted list: (file, enclosing function, name) — not the line, so that
    moving code around inside a file is not an alarm -/
def key (o : Obj) : String × String × String := (o.file, o.scope, o.name)

end TapkeeVerif.Statics
