/-
C20 — the CLI front end `run()` of `/repo/src/cli/main.cpp`, INTERPRETED from the generated tables of
`Gen/Cli.lean` (option rows, `kwargs` wiring, guards and file/data steps, name maps, library keywords).
Core Lean only.  The text layer (`read_data`, `write_matrix`, numbers) is `Model/CliText.lean`.

What is NOT generated and therefore hand-written here (tied to the code by the correspondence of checks/c20.py):
the meaning of an `Expr` (`eval`), cxxopts' treatment of defaults (`defaultText`: `with_default` passes
`std::to_string(literal)` for numbers), the conversion of a wired value to the keyword's C++ type, and the order
"cxxopts parse errors → steps in source order → exceptions are caught in main()".
The library call itself is an ORACLE (`Lib`): the model says which parameters and which matrix it receives and
what is done with its result.
-/
import TapkeeVerif.Model.CliSyntax
import TapkeeVerif.Model.CliText
import TapkeeVerif.Gen.Cli

namespace TapkeeVerif.Cli
open TapkeeVerif.Gen.Cli

/-! ## options as cxxopts hands them to `run()` -/

/-- one option as parsed from argv: canonical name, number of occurrences, text of the last occurrence -/
structure Given where
  name : String
  count : Nat
  value : String
  deriving Repr, DecidableEq

abbrev Opts := List Given

def optRow? (rows : List OptRow) (name : String) : Option OptRow :=
  rows.find? (fun r => r.canonical == name)

/-- the text cxxopts stores as default: `with_default(defs)` = `default_value(defs)` for `std::string`,
    `default_value(std::to_string(defs))` otherwise (so a `double` literal goes through `"%f"`) -/
def defaultTextVia (via : String) (r : OptRow) : String :=
  match r.ty with
  | .dbl =>
    if via == "std::to_string" then
      match parseNum r.default.toList with
      | some q => String.ofList (toStringF q)
      | none => r.default
    else r.default      -- `fmt::format("{}", x)`: shortest text that reads back as x; the literal's own text stands for it
  | _ => r.default

def defaultText (r : OptRow) : String := defaultTextVia doubleDefaultsVia r

def countOf (o : Opts) (name : String) : Nat :=
  match o.find? (fun g => g.name == name) with
  | some g => g.count
  | none => 0

/-- `opt[name]` as text: the given value, else the stored default -/
def textOf (rows : List OptRow) (o : Opts) (name : String) : String :=
  match o.find? (fun g => g.name == name && g.count > 0) with
  | some g => g.value
  | none =>
    match optRow? rows name with
    | some r => defaultText r
    | none => ""

/-! ## values -/

inductive Val where
  | b (x : Bool)
  | i (x : Int)
  | d (x : Rat)
  | s (x : String)
  /-- a named library constant -/
  | c (ident : String)
  | err (why : String)
  deriving Repr, DecidableEq, Inhabited

/-- run-time facts that are not functions of the options -/
structure Runtime where
  /-- `output.projection.implementation` is non-null -/
  hasProjection : Bool := false
  /-- the `dynamic_cast<MatrixProjectionImplementation*>` succeeds -/
  castOk : Bool := true
  deriving Repr

def Val.truthy : Val → Option Bool
  | .b x => some x
  | .i x => some (x != 0)
  | .d x => some (x != 0)
  | _ => none

def Val.num : Val → Option Rat
  | .i x => some (x : Rat)
  | .d x => some x
  | .b x => some (if x then 1 else 0)
  | _ => none

def lookupName (maps : List NameMap) (map key : String) : Option String :=
  match maps.find? (fun m => m.name == map) with
  | some m => (m.entries.find? (fun e => e.1 == key)).map (·.2)
  | none => none

def traitOf (ident field : String) : Option Bool :=
  match libConsts.find? (fun c => c.ident == ident) with
  | some c =>
    match libTraits.find? (fun t => t.name == c.traits) with
    | some t =>
      if field == "needs_kernel" then some t.kernel
      else if field == "needs_distance" then some t.distance
      else if field == "needs_features" then some t.features
      else none
    | none => none
  | none => none

def cmpOp (op : BinOp) (a b : Rat) : Bool :=
  match op with
  | .eq => a == b
  | .ne => a != b
  | .lt => a < b
  | .le => a ≤ b
  | .gt => a > b
  | .ge => a ≥ b
  | _ => false

def litVal (ty : Ty) (s : String) : Val :=
  match ty with
  | .flag => if s == "true" then .b true else if s == "false" then .b false else .err ("literal " ++ s)
  | .int =>
    match parseIntCxx s.toList with
    | some n => .i n
    | none => .err ("literal " ++ s)
  | .dbl =>
    match parseNum s.toList with
    | some q => .d q
    | none => .err ("literal " ++ s)
  | .str => .s s

/-- meaning of a generated expression for given options -/
def eval (rows : List OptRow) (maps : List NameMap) (rt : Runtime) (o : Opts) : Expr → Val
  | .count opt => .i (countOf o opt)
  | .value opt ty =>
    let t := textOf rows o opt
    match ty with
    | .str => .s t
    | .int =>
      match parseIntCxx t.toList with
      | some n => .i n
      | none => .err ("cxxopts cannot parse `" ++ t ++ "` as int")
    | .dbl =>
      match parseNum t.toList with
      | some q => .d q
      | none => .err ("cxxopts cannot parse `" ++ t ++ "` as double")
    | .flag => .b (countOf o opt > 0)
  | .lookup map e =>
    match eval rows maps rt o e with
    | .s k =>
      match lookupName maps map k with
      | some c => .c c
      | none => .err ("parse_multiple: unknown value `" ++ k ++ "`")
    | v => .err ("lookup of a non-string " ++ reprStr v)
  | .lookupFails map e =>
    match eval rows maps rt o e with
    | .s k => .b (lookupName maps map k).isNone
    | v => .err ("lookup of a non-string " ++ reprStr v)
  | .lit ty s => litVal ty s
  | .const n => .c n
  | .not e =>
    match (eval rows maps rt o e).truthy with
    | some x => .b (!x)
    | none => .err "not: operand is not a condition"
  | .neg e =>
    match eval rows maps rt o e with
    | .i x => .i (-x)
    | .d x => .d (-x)
    | _ => .err "neg: operand is not a number"
  | .bin op a b =>
    let va := eval rows maps rt o a
    let vb := eval rows maps rt o b
    match op with
    | .and =>
      match va.truthy, vb.truthy with
      | some x, some y => .b (x && y)
      | some false, _ => .b false           -- short circuit: the right operand is not evaluated
      | _, _ => .err "and: operand is not a condition"
    | .or =>
      match va.truthy, vb.truthy with
      | some x, some y => .b (x || y)
      | some true, _ => .b true
      | _, _ => .err "or: operand is not a condition"
    | .add | .sub | .mul | .div =>
      match va, vb with
      | .i x, .i y =>
        (match op with
         | .add => .i (x + y) | .sub => .i (x - y) | .mul => .i (x * y)
         | _ => if y = 0 then .err "division by zero" else .i (x.tdiv y))
      | _, _ =>
        match va.num, vb.num with
        | some x, some y =>
          (match op with
           | .add => .d (x + y) | .sub => .d (x - y) | .mul => .d (x * y)
           | _ => if y = 0 then .err "division by zero" else .d (x / y))
        | _, _ => .err "arithmetic on a non-number"
    | _ =>
      match va, vb with
      | .s x, .s y => (match op with | .eq => .b (x == y) | .ne => .b (x != y) | _ => .err "string comparison")
      | _, _ =>
        match va.num, vb.num with
        | some x, some y => .b (cmpOp op x y)
        | _, _ => .err "comparison of non-numbers"
  | .ite c a b =>
    match (eval rows maps rt o c).truthy with
    | some true => eval rows maps rt o a
    | some false => eval rows maps rt o b
    | none => .err "ite: condition"
  | .index0 e =>
    match eval rows maps rt o e with
    | .s x => .s (String.ofList [x.toList.headD '\x00'])    -- `std::string::operator[](0)`: '\0' for the empty string
    | _ => .err "index0 of a non-string"
  | .field e name =>
    match eval rows maps rt o e with
    | .c ident =>
      match traitOf ident name with
      | some x => .b x
      | none => .err ("unknown field " ++ ident ++ "." ++ name)
    | _ => .err "field of a non-constant"
  | .sym name =>
    if name == "output.projection.implementation" then .b rt.hasProjection
    else if name == "projection" then .b rt.castOk
    else .err ("unknown run-time symbol " ++ name)

/-- condition of an `if`: `none` when it cannot be evaluated -/
def evalCond (rows : List OptRow) (maps : List NameMap) (rt : Runtime) (o : Opts) (e : Expr) : Option Bool :=
  (eval rows maps rt o e).truthy

/-! ## `Options → parameter set` -/

abbrev ParamSet := List (String × Val)

/-- conversion of the wired value to the keyword's C++ type (`ParameterKeyword<T>::operator=(const T&)`) -/
def convertTo (cppType : String) (v : Val) : Val :=
  if cppType == "bool" then
    match v.truthy with
    | some x => .b x
    | none => .err "not convertible to bool"
  else if cppType == "IndexType" then
    match v with
    | .i x => .i x
    | .b x => .i (if x then 1 else 0)
    | .d x => .i (if x ≥ 0 then x.floor else -((-x).floor))     -- double → int truncates
    | _ => .err "not convertible to IndexType"
  else if cppType == "ScalarType" then
    match v.num with
    | some x => .d x
    | none => .err "not convertible to ScalarType"
  else
    match v with
    | .c x => .c x
    | .err w => .err w
    | _ => .err ("not convertible to " ++ cppType)

def keywordRow? (kw : String) : Option KeywordRow := libKeywords.find? (fun k => k.ident == kw)

/-- the parameter set built by `tapkee::kwargs[( … )]`, from ANY wiring table -/
def paramsOf (wiring : List WireRow) (rows : List OptRow) (maps : List NameMap) (o : Opts) : ParamSet :=
  wiring.map fun w =>
    let v := eval rows maps {} o w.expr
    match keywordRow? w.keyword with
    | some k => (w.keyword, convertTo k.cppType v)
    | none => (w.keyword, .err "unknown keyword")

/-- the parameter set of the code that exists -/
def cliParams (o : Opts) : ParamSet := paramsOf cliWiring cliOptions nameMaps o

def displayOfConst (ident : String) : String :=
  match libConsts.find? (fun c => c.ident == ident) with
  | some c => c.display
  | none => "?" ++ ident

/-- `Parameter::repr()` : `stringstream << value` -/
def reprVal : Val → String
  | .b x => if x then "1" else "0"
  | .i x => toString x
  | .d x => String.ofList (printG6 x)
  | .s x => x
  | .c x => displayOfConst x
  | .err w => "ERR(" ++ w ++ ")"

/-- default of a library keyword as a value -/
def keywordDefault (k : KeywordRow) : Val :=
  if k.cppType == "bool" then litVal .flag k.default
  else if k.cppType == "IndexType" then litVal .int k.default
  else if k.cppType == "ScalarType" then litVal .dbl k.default
  else if k.default == "NULL" then .i 0
  else .c k.default

/-- what `embed()` echoes under `--debug` after `parameters.merge(defaults)`: (display name, repr) -/
def debugEcho (p : ParamSet) : List (String × String) :=
  let given := p.filterMap fun (kw, v) => (keywordRow? kw).map fun k => (k.display, reprVal v)
  let dfl := libDefaults.filterMap fun kw =>
    if p.any (fun e => e.1 == kw) then none
    else (keywordRow? kw).map fun k => (k.display, reprVal (keywordDefault k))
  given ++ dfl

/-! ## the library as an oracle -/

structure EmbedResult where
  /-- N × d -/
  embedding : DMat Rat
  /-- `MatrixProjectionImplementation`: `proj_mat` (D × d) and `mean_vec` (D) -/
  projection : Option (DMat Rat × List Rat)
  deriving Repr

/-- `tapkee::with(parameters)…embed…` : parameters, the D × N data matrix (columns are samples), whether the
    precomputed-callback branch is taken; an `.error` is an exception escaping to `main()` -/
abbrev Lib := ParamSet → DMat Rat → Bool → Except String EmbedResult

/-! ## `run()` / `main()` -/

structure Outcome where
  exit : Nat
  /-- files in the order they were opened, with their final contents (an `ofstream` truncates on open) -/
  files : List (String × Str)
  effects : List String
  /-- the parameter set, when `run()` got as far as building it -/
  params : Option ParamSet
  /-- the matrix handed to the library (D × N), when `run()` got that far -/
  data : Option (DMat Rat)
  why : String
  deriving Repr

structure St where
  files : List (String × Str) := []
  effects : List String := []
  input : Option (DMat Rat) := none
  output : Option EmbedResult := none
  params : Option ParamSet := none
  data : Option (DMat Rat) := none

def St.done (s : St) (exit : Nat) (why : String) : Outcome :=
  { exit := exit, files := s.files, effects := s.effects, params := s.params, data := s.data, why := why }

def appendFile (files : List (String × Str)) (f : String) (txt : Str) : List (String × Str) :=
  if files.any (fun e => e.1 == f) then files.map (fun e => if e.1 == f then (e.1, e.2 ++ txt) else e)
  else files ++ [(f, txt)]

def truncFile (files : List (String × Str)) (f : String) : List (String × Str) :=
  if files.any (fun e => e.1 == f) then files.map (fun e => if e.1 == f then (e.1, []) else e)
  else files ++ [(f, [])]

def fileName (rows : List OptRow) (maps : List NameMap) (o : Opts) (e : Expr) : Option String :=
  match eval rows maps {} o e with
  | .s x => some x
  | _ => none

def delimOf (rows : List OptRow) (maps : List NameMap) (o : Opts) (e : Expr) : Option Char :=
  match eval rows maps {} o e with
  | .s x => some (x.toList.headD '\x00')
  | _ => none

/-- the exit code `main()` returns when an exception escapes `run()` -/
def catchExit (catches : List (String × Nat)) : Nat :=
  match catches with
  | (_, n) :: _ => n
  | [] => 134      -- no handler: std::terminate

/-- the named matrices / vectors a write step can refer to -/
def matrixNamed (s : St) (what : String) : Option (DMat Rat) :=
  if what == "input" then s.input
  else if what == "output.embedding" then s.output.map (·.embedding)
  else if what == "projection.proj_mat" then s.output.bind (fun r => r.projection.map (·.1))
  else none

def vectorNamed (s : St) (what : String) : Option (List Rat) :=
  if what == "projection.mean_vec" then s.output.bind (fun r => r.projection.map (·.2))
  else none

def rtOf (s : St) : Runtime :=
  { hasProjection := (s.output.bind (·.projection)).isSome }

/-- the steps of `run()` in source order (structural recursion over the generated list) -/
def runSteps (rows : List OptRow) (maps : List NameMap) (wiring : List WireRow) (catches : List (String × Nat))
    (readFile : String → Option Str) (lib : Lib) (o : Opts) : List Step → St → Outcome
  | [], s => s.done 0 "fell off the end of run()"
  | step :: rest, s =>
    let continue_ (s' : St) := runSteps rows maps wiring catches readFile lib o rest s'
    let cond (e : Expr) : Option Bool := evalCond rows maps (rtOf s) o e
    match step with
    | .guard g =>
      match cond g.cond with
      | some true => s.done g.exit g.message
      | some false => continue_ s
      | none => s.done 255 "model: guard condition cannot be evaluated"
    | .effect c what =>
      match cond c with
      | some true => continue_ { s with effects := s.effects ++ [what] }
      | some false => continue_ s
      | none => s.done 255 "model: effect condition cannot be evaluated"
    | .openIn _ => continue_ s
    | .openOut f =>
      match fileName rows maps o f with
      | some name => continue_ { s with files := truncFile s.files name }
      | none => s.done 255 "model: file name cannot be evaluated"
    | .readData c target f d =>
      match cond c, fileName rows maps o f, delimOf rows maps o d with
      | some true, some name, some dl =>
        if target != "input" then s.done 255 "model: unknown read target" else
        -- a file that cannot be opened leaves the stream in a failed state: the loop body never runs
        let content := (readFile name).getD []
        let rowsRead := if (readFile name).isSome then readRowsWith readLoopRereadsLastLine parseNum dl content else []
        match matrixOfRows rowsRead with
        | .ok M => continue_ { s with input := some M }
        | .error (.ragged i) => s.done (catchExit catches) ("Wrong data at line " ++ toString i)
      | some false, _, _ => continue_ s
      | _, _, _ => s.done 255 "model: read step cannot be evaluated"
    | .transpose c target =>
      match cond c with
      | some true =>
        if target == "input" then continue_ { s with input := s.input.map DMat.transpose }
        else if target == "output.embedding" then
          continue_ { s with output := s.output.map (fun r => { r with embedding := r.embedding.transpose }) }
        else s.done 255 "model: unknown transpose target"
      | some false => continue_ s
      | none => s.done 255 "model: transpose condition cannot be evaluated"
    | .embed c params data _ _ _ =>
      match cond c with
      | some true =>
        if params != "parameters" then s.done 255 "model: embed with an unknown parameter set" else
        let pre := data != "input"
        let p := paramsOf wiring rows maps o
        match s.input with
        | none => s.done 255 "model: embed before read"
        | some M =>
          let s := { s with params := some p, data := some M }
          match lib p M pre with
          | .ok r => continue_ { s with output := some r }
          | .error w => s.done (catchExit catches) ("library: " ++ w)
      | some false => continue_ s
      | none => s.done 255 "model: embed condition cannot be evaluated"
    | .writeMatrix c what f d =>
      match cond c with
      | some true =>
        match matrixNamed s what, fileName rows maps o f, delimOf rows maps o d with
        | some M, some name, some dl => continue_ { s with files := appendFile s.files name (writeMatrix printG6 dl M) }
        | _, _, _ => s.done 255 "model: write step cannot be evaluated"
      | some false => continue_ s
      | none => s.done 255 "model: write condition cannot be evaluated"
    | .writeVector c what f =>
      match cond c with
      | some true =>
        match vectorNamed s what, fileName rows maps o f with
        | some v, some name => continue_ { s with files := appendFile s.files name (writeVector printG6 v) }
        | _, _ => s.done 255 "model: write step cannot be evaluated"
      | some false => continue_ s
      | none => s.done 255 "model: write condition cannot be evaluated"
    | .ret n => s.done n "return"

/-- every option value the user gave must parse (`options.parse(argc, argv)` parses eagerly and throws) -/
def argvParses (rows : List OptRow) (o : Opts) : Bool :=
  o.all fun g =>
    match optRow? rows g.name with
    | none => false                                   -- `no_such_option`
    | some r =>
      g.count == 0 ||
      (match r.ty with
       | .int => (parseIntCxx g.value.toList).isSome
       | .dbl => (parseNum g.value.toList).isSome
       | _ => true)

/-- `main()` for ANY tables -/
def mainWith (rows : List OptRow) (maps : List NameMap) (wiring : List WireRow) (steps : List Step)
    (catches : List (String × Nat)) (readFile : String → Option Str) (lib : Lib) (o : Opts) : Outcome :=
  if !argvParses rows o then
    { exit := catchExit catches, files := [], effects := [], params := none, data := none,
      why := "cxxopts: option does not exist / argument failed to parse" }
  else runSteps rows maps wiring catches readFile lib o steps {}

/-- `main()` of the code that exists -/
def cliMain (readFile : String → Option Str) (lib : Lib) (o : Opts) : Outcome :=
  mainWith cliOptions nameMaps cliWiring cliSteps cliMainCatch readFile lib o

/-- the library's `PassThru`: the embedding is the sample matrix itself (N × D), no projection -/
def passThruLib : Lib := fun _ M _ => .ok { embedding := M.transpose, projection := none }

end TapkeeVerif.Cli
