import TapkeeVerif.Model.FrontSyntax
import TapkeeVerif.Gen.Validate
import TapkeeVerif.Gen.EmbedBodies
import TapkeeVerif.Gen.EmbedFront
/-
Model of the keyword front end of tapkee (properties C14, C13):

* `Parameter`, `ParametersSet` (`add`, `check`, `merge`, `operator[]`) transcribed from stichwort/parameter.hpp;
  the comma expression is a left fold of `add`;
* conversions / `checked().satisfies(..).orThrow()` from stichwort/value_keeper.hpp and tapkee/predicates.hpp;
* `frontEnd`, which runs the steps of `tapkee::embed` **in the order the generated list `Gen.frontSteps` gives**,
  interprets `Gen.validate`, `Gen.embedBody`, `Gen.dispatch`, and maps exceptions through `Gen.rethrow`;
* a counting monad `M`: every hand-over of a callback to a callee counts one use of that callback; a use of a
  dummy callback raises `tapkee::unsupported_method_error` (dummy_callbacks.hpp).

Core Lean only: this file is compiled into the native driver `model_c14`.
-/
namespace TapkeeVerif.Params
open TapkeeVerif.Front TapkeeVerif.Gen

/-! ## stichwort -/

/-- a `stichwort::Parameter` as produced by `keyword = value` / `Parameter::create(name, value)` -/
structure Param where
  kw : Kw
  val : Val
  deriving DecidableEq, Repr, Inhabited

/-- `std::map::find` on an association list with unique keys -/
def lookup (k : Kw) : List (Kw × Val) → Option Val
  | [] => none
  | (k', v) :: t => if k' = k then some v else lookup k t

/-- `pmap[k] = v` : overwrite if present, insert otherwise -/
def assign (k : Kw) (v : Val) : List (Kw × Val) → List (Kw × Val)
  | [] => [(k, v)]
  | (k', v') :: t => if k' = k then (k, v) :: t else (k', v') :: assign k v t

/-- `stichwort::ParametersSet` : the name → parameter map and the list of names added more than once -/
structure PSet where
  pmap : List (Kw × Val)
  dups : List Kw
  deriving Repr, Inhabited

def PSet.empty : PSet := { pmap := [], dups := [] }

def PSet.contains (s : PSet) (k : Kw) : Bool := (lookup k s.pmap).isSome

/-- `add`: records a duplicate *and* overwrites -/
def PSet.add (s : PSet) (p : Param) : PSet :=
  { pmap := assign p.kw p.val s.pmap
    dups := if s.contains p.kw then s.dups ++ [p.kw] else s.dups }

/-- the comma expression `(p₁, p₂, …, pₙ)` (also `Parameter::operator ParametersSet` for n = 1) -/
def PSet.ofList (l : List Param) : PSet := l.foldl PSet.add PSet.empty

def errS (c : ErrClass) : Err := ⟨.stichwort, c⟩
def errT (c : ErrClass) : Err := ⟨.tapkee, c⟩

/-- the loop of `merge`: a name that is absent is inserted; a name that is present must hold a value of the same
    C++ type as the parameter merged in (`hasSameTypeAs`: the type policies are the same object), otherwise
    `wrong_parameter_type_error` (repository commit 6b3b662) -/
def mergeInto (m : List (Kw × Val)) : List (Kw × Val) → Except Err (List (Kw × Val))
  | [] => .ok m
  | kv :: t =>
    match lookup kv.1 m with
    | none => mergeInto (m ++ [kv]) t
    | some v => if v.ty = kv.2.ty then mergeInto m t else .error (errS .wrong_parameter_type_error)

/-- `merge` -/
def PSet.merge (s : PSet) (pg : PSet) : Except Err PSet :=
  match mergeInto s.pmap pg.pmap with
  | .ok m => .ok { s with pmap := m }
  | .error e => .error e

/-- what `merge` yields when it does not throw: only absent names are inserted -/
def PSet.mergeRaw (s : PSet) (pg : PSet) : PSet :=
  { s with pmap := pg.pmap.foldl (fun m kv => if (lookup kv.1 m).isSome then m else m ++ [kv]) s.pmap }

/-- `check()` -/
def PSet.check (s : PSet) : Except Err Unit :=
  if s.dups.isEmpty then .ok () else .error (errS .multiple_parameter_error)

/-- `operator[]` -/
def PSet.get (s : PSet) (k : Kw) : Except Err Val :=
  match lookup k s.pmap with
  | some v => .ok v
  | none => .error (errS .missed_parameter_error)

/-- `tapkee_internal::defaults` : every listed keyword assigned `by_default` -/
def defaults : PSet := PSet.ofList (defaultsList.map fun k => ⟨k, k.default⟩)

/-- `Parameter::operator T()` / `ValueKeeper::getValue<T>()` : the stored type must be exactly `T` -/
def convert (v : Val) (t : Ty) : Except Err Val :=
  if v.ty = t then .ok v else .error (errS .wrong_parameter_type_error)

/-- sizes the checks can see: `n_vectors` and `current_dimension` -/
structure Sizes where
  n : Nat
  dim : Nat
  deriving DecidableEq, Repr, Inhabited

/-- numeric value of a parameter as seen by a bound expression (`static_cast<T>(parameters[kw])`) -/
def numView (get : Kw → Except Err Val) (kw : Kw) : XReal :=
  match get kw with
  | .ok v => (v.num?).getD 0
  | .error _ => 0

def bEnv (sz : Sizes) (get : Kw → Except Err Val) : BEnv := ⟨(sz.n : Int), (sz.dim : Int), numView get⟩

/-- conversions `T x = parameters[kw]` of the parameters a predicate / guard reads -/
def readAll (get : Kw → Except Err Val) : List Kw → Except Err Unit
  | [] => .ok ()
  | kw :: t =>
    match get kw with
    | .error e => .error e
    | .ok v => if v.ty = kw.ty then readAll get t else .error (errS .wrong_parameter_type_error)

/-- `parameters[kw].checked().satisfies(pred)[.orThrow()]` on a temporary copy of the parameter:
    `operator[]` may miss; constructing the predicate converts the parameters its bounds mention; `isCondition` converts
    to the predicate's template argument (type error); a failed predicate invalidates the temporary, which only
    `orThrow()` turns into an exception. -/
def runCheck (sz : Sizes) (get : Kw → Except Err Val) (c : VStep) : Except Err Unit :=
  match get c.kw with
  | .error e => .error e
  | .ok v =>
    match readAll get c.pred.params with
    | .error e => .error e
    | .ok _ =>
      if v.ty = c.pred.ty then
        match v.num? with
        | some x => if c.pred.holds (bEnv sz get) x then .ok () else if c.orThrow then .error (errS .wrong_parameter_error) else .ok ()
        | none => .ok ()      -- predicates are only instantiated at IndexType / ScalarType (checked by the translator)
      else .error (errS .wrong_parameter_type_error)

/-- a statement of `validate()` -/
def runVStmt (sz : Sizes) (get : Kw → Except Err Val) : VStmt → Except Err Unit
  | .check c => runCheck sz get c
  | .guarded lhs cmp rhs c =>
    match readAll get (lhs.params ++ rhs.params) with
    | .error e => .error e
    | .ok _ => if cmp.holds (lhs.eval (bEnv sz get)) (rhs.eval (bEnv sz get)) then runCheck sz get c else .ok ()
  | .checkValue e p orThrow =>
    match readAll get (e.params ++ p.params) with
    | .error err => .error err
    | .ok _ =>
      if p.holds (bEnv sz get) (e.eval (bEnv sz get)) then .ok ()
      else if orThrow then .error (errS .wrong_parameter_error) else .ok ()

/-! ## the counting monad -/

structure Counts where
  kernel : Nat
  distance : Nat
  features : Nat
  deriving DecidableEq, Repr, Inhabited

def Counts.zero : Counts := ⟨0, 0, 0⟩

def Counts.bump (c : Counts) : Cb → Counts
  | .kernel => { c with kernel := c.kernel + 1 }
  | .distance => { c with distance := c.distance + 1 }
  | .features => { c with features := c.features + 1 }

def Counts.get (c : Counts) : Cb → Nat
  | .kernel => c.kernel
  | .distance => c.distance
  | .features => c.features

/-- why a run ended early: an exception, or (harness mode `stop`) the first kernel / distance evaluation -/
inductive Stop where
  | threw (e : Err)
  | reached (cb : Cb)
  deriving DecidableEq, Repr, Inhabited

/-- computations that count callback uses; the counts survive an exception -/
def M (α : Type) : Type := Counts → Except Stop α × Counts

def M.pure {α} (a : α) : M α := fun c => (.ok a, c)
def M.bind {α β} (x : M α) (f : α → M β) : M β := fun c =>
  match x c with
  | (.ok a, c') => f a c'
  | (.error s, c') => (.error s, c')
instance : Monad M where
  pure := M.pure
  bind := M.bind

def M.stop {α} (s : Stop) : M α := fun c => (.error s, c)
def M.throw {α} (e : Err) : M α := M.stop (.threw e)
def M.lift {α} : Except Err α → M α
  | .ok a => M.pure a
  | .error e => M.throw e
def M.count (cb : Cb) : M Unit := fun c => (.ok (), c.bump cb)

/-! ## the request and its environment -/

/-- one call of `tapkee::embed(begin, end, k, d, f, (kw₁ = v₁, …))` -/
structure Request where
  n : Nat                       -- end - begin
  kws : List Param              -- the keyword expression, in order
  hasK : Bool                   -- kernel callback is not a dummy
  hasD : Bool
  hasF : Bool
  stop : Bool := false          -- harness mode: the first kernel / distance evaluation ends the run
  dim : Nat := 10               -- what `features.dimension()` returns (when the features callback is supplied)
  deriving Repr, Inhabited

def Request.has (r : Request) : Cb → Bool
  | .kernel => r.hasK
  | .distance => r.hasD
  | .features => r.hasF

/-- a callee invokes callback `cb` -/
def useCb (r : Request) (cb : Cb) : M Unit :=
  if r.has cb then
    if r.stop && cb ≠ Cb.features then M.stop (.reached cb) else M.count cb
  else M.throw (errT .unsupported_method_error)      -- the dummy callback throws

/-- one event of an `embed()` statement -/
def runEv (r : Request) (n : Sizes) (get : Kw → Except Err Val) : Ev → M Unit
  | .read kw => M.lift (match get kw with
      | .error e => .error e
      | .ok v => match convert v kw.ty with | .ok _ => .ok () | .error e => .error e)
  | .check c => M.lift (runCheck n get c)
  | .use cb _ => useCb r cb
  | .dimension => if r.hasF then M.pure () else M.throw (errT .unsupported_method_error)

def runEvs (r : Request) (n : Sizes) (get : Kw → Except Err Val) : List Ev → M Unit
  | [] => M.pure ()
  | e :: es => M.bind (runEv r n get e) fun _ => runEvs r n get es

def runBlock (r : Request) (n : Sizes) (get : Kw → Except Err Val) : List (String × List Ev) → M Unit
  | [] => M.pure ()
  | b :: bs => M.bind (runEvs r n get b.2) fun _ => runBlock r n get bs

/-- `Parameter::is(lit)`: false on a type mismatch or an absent value, never throws -/
def isLit (get : Kw → Except Err Val) (kw : Kw) (lit : Val) : Bool :=
  match get kw with
  | .ok v => decide (v = lit)
  | .error _ => false

def runStmt (r : Request) (n : Sizes) (get : Kw → Except Err Val) : EStmt → M Unit
  | .plain _ evs => runEvs r n get evs
  | .ifIs kw lit thn els => if isLit get kw lit then runBlock r n get thn else runBlock r n get els

def runStmts (r : Request) (n : Sizes) (get : Kw → Except Err Val) : List EStmt → M Unit
  | [] => M.pure ()
  | s :: ss => M.bind (runStmt r n get s) fun _ => runStmts r n get ss

/-- sequencing of two throwing statements -/
def seqE (x k : Except Err Unit) : Except Err Unit :=
  match x with
  | .ok _ => k
  | .error e => .error e

def runChecks (n : Sizes) (get : Kw → Except Err Val) : List VStmt → Except Err Unit
  | [] => .ok ()
  | c :: cs => seqE (runVStmt n get c) (runChecks n get cs)

/-- `implementation.validate(); return implementation.embed();` as listed in the dispatch block -/
def runDispatchSteps (r : Request) (n : Sizes) (get : Kw → Except Err Val) (m : Meth) : List DispatchStep → M Unit
  | [] => M.pure ()
  | .validate :: ds => M.bind (M.lift (runChecks n get (validate m))) fun _ => runDispatchSteps r n get m ds
  | .embed :: _ => runStmts r n get (embedBody m)         -- `return`: nothing after it runs

/-- the `if (method == X) {…}` chain: the first block whose constant equals the selected method -/
def findDispatch (m : Meth) : List (Meth × List DispatchStep) → Option (List DispatchStep)
  | [] => none
  | (x, ds) :: t => if x = m then some ds else findDispatch m t

/-! ## `tapkee::embed` -/

structure FState where
  ps : PSet
  meth : Option Meth := none              -- selected_method
  cancelFn : Option Bool := none          -- cancel_function_ptr (none = NULL)
  nvec : Nat := 0                         -- n_vectors (0 until the constructor runs)
  curDim : Nat := 0                       -- current_dimension
  echo : Option (List (Kw × Val)) := none -- what the debug-level visit printed
  deriving Repr, Inhabited

def runStep (r : Request) (st : FState) : FrontStep → M FState
  | .checkDuplicates => M.bind (M.lift st.ps.check) fun _ => M.pure st
  | .mergeDefaults => M.bind (M.lift (st.ps.merge defaults)) fun ps' => M.pure { st with ps := ps' }
  | .echo => M.pure { st with echo := some st.ps.pmap }
  | .read kw =>
    M.bind (M.lift (match st.ps.get kw with
      | .error e => .error e
      | .ok v => convert v kw.ty)) fun v =>
    match v with
    | .method m => M.pure { st with meth := some m }
    | .cancelFn c => M.pure { st with cancelFn := c }
    | _ => M.pure st
  | .context => M.pure st
  | .log => M.pure st
  | .countN => M.pure { st with nvec := r.n }
  | .noData => if st.nvec = 0 then M.throw (errT .no_data_error) else M.pure st
  | .check c => M.bind (M.lift (runCheck ⟨st.nvec, st.curDim⟩ st.ps.get c)) fun _ => M.pure st
  | .dimension => M.pure { st with curDim := if r.hasF then r.dim else 0 }
  | .cancel => if st.cancelFn = some true then M.throw (errT .cancelled_exception) else M.pure st
  | .needs cb =>
    match st.meth with
    | some m => if m.traits.needs cb && !r.has cb then M.throw (errT .unsupported_method_error) else M.pure st
    | none => M.pure st
  | .dispatch =>
    match st.meth with
    | some m =>
      match findDispatch m dispatch with
      | some ds => M.bind (runDispatchSteps r ⟨st.nvec, st.curDim⟩ st.ps.get m ds) fun _ => M.pure st
      | none => M.pure st                -- falls through to `return TapkeeOutput()`
    | none => M.pure st

def runSteps (r : Request) : List FrontStep → FState → M FState
  | [], st => M.pure st
  | s :: ss, st => M.bind (runStep r st s) fun st' => runSteps r ss st'

/-- the catch clauses of `tapkee::embed` -/
def mapErr (e : Err) : List (Err × Err) → Err
  | [] => e
  | (a, b) :: t => if a = e then b else mapErr e t

inductive Outcome where
  | ok
  | reached (cb : Cb)
  | threw (e : Err)
  deriving DecidableEq, Repr, Inhabited

structure Result where
  outcome : Outcome
  counts : Counts
  deriving DecidableEq, Repr, Inhabited

/-- the state before the first step: the keyword expression has been folded into a `ParametersSet` -/
def initState (r : Request) : FState := { ps := PSet.ofList r.kws }

/-- `tapkee::embed` up to (and abstractly including) the method's `embed()` -/
def frontEnd (r : Request) : Result :=
  match runSteps r frontSteps (initState r) Counts.zero with
  | (.ok _, c) => ⟨.ok, c⟩
  | (.error (.reached cb), c) => ⟨.reached cb, c⟩
  | (.error (.threw e), c) => ⟨.threw (mapErr e rethrow), c⟩

/-- what the debug-level echo shows: the merged map (if `check()` and `merge()` passed) -/
def echoOf (r : Request) : Option (List (Kw × Val)) :=
  match (PSet.ofList r.kws).check with
  | .ok _ =>
    match (PSet.ofList r.kws).merge defaults with
    | .ok ps => some ps.pmap
    | .error _ => none
  | .error _ => none

/-- the merged parameter set the method sees (when `merge` does not throw) -/
def merged (r : Request) : PSet := (PSet.ofList r.kws).mergeRaw defaults

/-! ## declared and mentioned callbacks (C13) -/

def evCallbacks : List Ev → List Cb
  | [] => []
  | .use cb _ :: t => cb :: evCallbacks t
  | .dimension :: t => Cb.features :: evCallbacks t
  | _ :: t => evCallbacks t

def blockCallbacks : List (String × List Ev) → List Cb
  | [] => []
  | b :: t => evCallbacks b.2 ++ blockCallbacks t

def stmtCallbacks : EStmt → List Cb
  | .plain _ evs => evCallbacks evs
  | .ifIs _ _ thn els => blockCallbacks thn ++ blockCallbacks els

/-- callbacks mentioned anywhere in the `embed()` body of a method -/
def callbacksMentioned (m : Meth) : List Cb := ((embedBody m).map stmtCallbacks).flatten

def declaredNeeds (m : Meth) : List Cb :=
  [Cb.kernel, Cb.distance, Cb.features].filter m.traits.needs

end TapkeeVerif.Params
