import TapkeeVerif.Model.Center
import TapkeeVerif.Model.Project
/-!
`routines/pca.hpp` : `compute_mean`, `compute_covariance_matrix`, and what each eigensolver path reads
(`eigendecomposition_impl_dense`: `(A + Aᵀ)/2`; `DenseMatrixOperation`: `selfadjointView<Upper>`).

    mean = 0; for each sample: mean += x; mean /= N
    C = 0;    for each sample: x -= mean; C.selfadjointView<Upper>().rankUpdate(x, 1.0);   -- upper triangle only
    C /= N;                                              -- (centred two-pass form: fix F-PCA-CANCEL)
    C.triangularView<StrictlyLower>() = C.transpose();                             -- mirror (fix F-PCA-TRI, 8822822)
    return C

`X : Mat N D K`, row `i` = feature vector of sample `i`.
-/
namespace TapkeeVerif
section
variable {K : Type} {N D n : Nat}
variable [Add K] [Sub K] [Mul K] [Div K] [Zero K] [NatCast K]

def computeMean (X : Mat N D K) : Vec D K := fun a => sumFin N (fun i => X i a) / (N : K)

/-- the state of `covariance_matrix` after the `rankUpdate`s of the centred samples and `/= N`: the upper triangle holds
    `(1/N) Σ (x − mean)(x − mean)ᵀ`, the strictly lower triangle is still zero -/
def covarianceUpper (X : Mat N D K) (μ : Vec D K) : Mat D D K :=
  fun a b => if a ≤ b then sumFin N (fun i => (X i a - μ a) * (X i b - μ b)) / (N : K) else 0

/-- `M.triangularView<StrictlyLower>() = M.transpose()` : entry `(a,b)` with `b < a` is overwritten by `M b a` -/
def mirrorLower (A : Mat n n K) : Mat n n K := fun a b => if b < a then A b a else A a b

/-- exactly what `compute_covariance_matrix(begin, end, mean, …)` returns -/
def covarianceMatrix (X : Mat N D K) (μ : Vec D K) : Mat D D K := mirrorLower (covarianceUpper X μ)

/-- `dense_wm += dense_wm.transpose(); dense_wm /= 2.0` in `eigendecomposition_impl_dense` -/
def denseSym (A : Mat n n K) : Mat n n K := fun i j => (A i j + A j i) / ((2 : Nat) : K)

/-- `_matrix.selfadjointView<Eigen::Upper>()` in `DenseMatrixOperation` (randomized path) -/
def upperView (A : Mat n n K) : Mat n n K := fun i j => if i ≤ j then A i j else A j i

/-- the sample covariance `(1/N) Σ (x_i − μ)(x_i − μ)ᵀ` (specification) -/
def cov (X : Mat N D K) : Mat D D K :=
  fun a b => sumFin N (fun i => (X i a - computeMean X a) * (X i b - computeMean X b)) / (N : K)

/-- centred samples -/
def centred (X : Mat N D K) : Mat N D K := fun i a => X i a - computeMean X a

/-- what PCA hands to the eigensolver -/
def pcaPre (X : Mat N D K) : Mat D D K := covarianceMatrix X (computeMean X)

/-! staged versions for the drivers -/
def covarianceMatrixD (X : DMat N D K) (μ : DVec D K) : DMat D D K :=
  let U := DMat.ofFn (covarianceUpper X.get μ.get)
  DMat.ofFn (mirrorLower U.get)

theorem covarianceMatrixD_eq (X : DMat N D K) (μ : DVec D K) :
    (covarianceMatrixD X μ).get = covarianceMatrix X.get μ.get := by
  simp only [covarianceMatrixD, covarianceMatrix, DMat.get_ofFn]

def covD (X : DMat N D K) : DMat D D K :=
  let μ := DVec.ofFn (computeMean X.get)
  let Xc := DMat.ofFn (fun i a => X.get i a - μ.get a)
  DMat.ofFn (fun a b => sumFin N (fun i => Xc.get i a * Xc.get i b) / (N : K))

theorem covD_eq (X : DMat N D K) : (covD X).get = cov X.get := by
  simp only [covD, DMat.get_ofFn, DVec.get_ofFn]
  rfl

end
end TapkeeVerif
