import TapkeeVerif.Model.Mat
import TapkeeVerif.Model.DMat
/-!
`project` of `routines/pca.hpp` and `MatrixProjectionImplementation::project` of `projection.hpp`:
both are `proj_mat.transpose() * (vec - mean_vec)`.
-/
namespace TapkeeVerif
section
variable {K : Type} {N D d : Nat} [Add K] [Sub K] [Mul K] [Zero K]

/-- `Pᵀ (x − μ)` -/
def project (P : Mat D d K) (μ : Vec D K) (x : Vec D K) : Vec d K :=
  fun j => sumFin D fun a => P a j * (x a - μ a)

/-- `routines/pca.hpp: project(...)` : row `i` of the embedding is `Pᵀ (x_i − μ)` (`X i` = sample `i`) -/
def embedRows (P : Mat D d K) (μ : Vec D K) (X : Mat N D K) : Mat N d K :=
  fun i => project P μ (X i)

end
end TapkeeVerif
