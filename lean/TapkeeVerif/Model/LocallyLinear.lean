import TapkeeVerif.Model.Mat
import TapkeeVerif.Model.DMat
import TapkeeVerif.Model.MatExtra
import TapkeeVerif.Model.Triplets
import TapkeeVerif.Gen.HlleIndex
/-
Model of `include/tapkee/routines/locally_linear.hpp` (C08): `linear_weight_matrix`, `tangent_weight_matrix`,
`hessian_weight_matrix`, transcribed statement by statement.  Core Lean only; polymorphic in the scalar `K`
(run at `Rat` / `Fix` by `Driver/C08.lean`, proved over ordered fields in `Proofs/LocallyLinear*.lean`).

Inputs: `κ : Mat N N K` the kernel callback values `κ i j = callback.kernel(begin[i], begin[j])`
(NOT assumed symmetric: argument order is kept as written), `nb : Fin N → Fin k → Fin N` the neighbour lists
(uniform length `k = neighbors[0].size()`).

External numerical kernels enter as **oracle values with contracts** (DESIGN §1, §3):
* `wraw i`  = `gram.selfadjointView<Upper>().ldlt().solve(ones)`        contract `IsLleSolve`
* `U i`     = `solver.eigenvectors().rightCols(d)` of the centred local Gram    contract `IsTopEig`
* `rsk`     = `1/sqrt(k)`                                                 contract `rsk*rsk*k = 1`
* `sqrtO`   = `sqrt` (HLLE column norms)                                  contract `sqrtO x ≥ 0 ∧ sqrtO x ^2 = x`
-/
namespace TapkeeVerif.LocallyLinear
open TapkeeVerif

inductive Err where
  | oob (col : Int) (cols : Nat)      -- `Yi.col(c)` with `c` outside `[0, cols)`: write outside the matrix
  | uninit (col : Nat)                -- a column of `Yi` is read without ever having been written
  | clobber (col : Int)               -- a product column lands on the constant / tangent columns
deriving Repr, DecidableEq

section
variable {K : Type} [Add K] [Sub K] [Mul K] [Div K] [Neg K] [Zero K] [One K] [NatCast K]
variable {N k : Nat}

/-! ### linear_weight_matrix (KLLE, NPE)

Staging: definitions whose result is a function recompute their `let`s on every entry access in compiled code
(`Model/DMat.lean`), so every stage that is worth caching returns first-order data (`DMat`, `DVec`, `List`);
`DMat.get_ofFn` / `DVec.get_ofFn` erase the staging in proofs. -/

/-- `gram_matrix(i,j) = kernel_value - dots(i) - dots(j) + kernel(n_i, n_j)` for `j ≥ i` **only**;
    the buffer is zero-initialised once and its strictly lower triangle is never written. -/
def lleLocalGram (κ : Mat N N K) (i : Fin N) (nb : Fin k → Fin N) : Mat k k K :=
  fun a b => if a ≤ b then κ i i - κ i (nb a) - κ i (nb b) + κ (nb a) (nb b) else 0

/-- `gram.diagonal().array() += s` -/
def addDiag (s : K) (G : Mat k k K) : Mat k k K := fun a b => if a = b then G a b + s else G a b

/-- the matrix `ldlt()` factorises: `trace = gram.trace(); gram.diagonal() += trace_shift*trace;`
    then `selfadjointView<Eigen::Upper>` of the buffer -/
def lleSystemD (κ : Mat N N K) (i : Fin N) (nb : Fin k → Fin N) (tshift : K) : DMat k k K :=
  let G := DMat.ofFn (lleLocalGram κ i nb)
  let tr := Mat.trace G.get
  DMat.ofFn (Mat.upperView (addDiag (tshift * tr) G.get))

def lleSystem (κ : Mat N N K) (i : Fin N) (nb : Fin k → Fin N) (tshift : K) : Mat k k K :=
  (lleSystemD κ i nb tshift).get

/-- `weights /= weights.sum()` -/
def lleWeightsD (wraw : Vec k K) : DVec k K :=
  let s := sumFin k wraw
  DVec.ofFn fun a => wraw a / s

def lleWeights (wraw : Vec k K) : Vec k K := (lleWeightsD wraw).get

/-- the triplets pushed for sample `i`, in program order -/
def lleTripletsAt (i : Fin N) (nb : Fin k → Fin N) (w : Vec k K) (shift : K) : List (Triplet N N K) :=
  (i, i, 1 + shift) ::
    (List.finRange k).flatMap fun a =>
      (nb a, i, - w a) :: (i, nb a, - w a) :: (List.finRange k).map fun b => (nb a, nb b, w a * w b)

/-- all triplets, given the raw `ldlt().solve` results -/
def lleTriplets (nb : Fin N → Fin k → Fin N) (wraw : Fin N → Vec k K) (shift : K) : List (Triplet N N K) :=
  overFin N fun i => lleTripletsAt i (nb i) (lleWeightsD (wraw i)).get shift

/-- `linear_weight_matrix` -/
def lleM (nb : Fin N → Fin k → Fin N) (wraw : Fin N → Vec k K) (shift : K) : Mat N N K :=
  fromTriplets (lleTriplets nb wraw shift)

/-- same, accumulating form (what the driver runs; `.get` of it equals `lleM` by `fromTripletsD_get`) -/
def lleMD (nb : Fin N → Fin k → Fin N) (wraw : Fin N → Vec k K) (shift : K) : DMat N N K :=
  fromTripletsD (lleTriplets nb wraw shift)

/-! ### tangent_weight_matrix (KLTSA, LLTSA) -/

/-- `gram(i,j) = gram(j,i) = kernel(n_i, n_j)` for `j ≥ i` -/
def localGramSym (κ : Mat N N K) (nb : Fin k → Fin N) : Mat k k K :=
  fun a b => if a ≤ b then κ (nb a) (nb b) else κ (nb b) (nb a)

/-- `utils/matrix.hpp: centerMatrix`, as written: `+ grand_mean`, `- col_means[j]`, `- col_means[i]` -/
def centerMatrixD (A : Mat k k K) : DMat k k K :=
  let colMean : DVec k K := DVec.ofFn fun j => (sumFin k fun i => A i j) / (k : K)
  let grand : K := (sumFin k fun i => sumFin k fun j => A i j) / ((k * k : Nat) : K)
  DMat.ofFn fun i j => A i j + grand - colMean.get j - colMean.get i

def centerMatrix (A : Mat k k K) : Mat k k K := (centerMatrixD A).get

def localCenteredD (κ : Mat N N K) (nb : Fin k → Fin N) : DMat k k K :=
  centerMatrixD (localGramSym κ nb)

def localCentered (κ : Mat N N K) (nb : Fin k → Fin N) : Mat k k K := (localCenteredD κ nb).get

/-- `G = [ 1/sqrt(k) | eigenvectors().rightCols(d) ]` -/
def ltsaG {d : Nat} (rsk : K) (U : Mat k d K) : Mat k (d + 1) K :=
  fun a c => if h : c.1 = 0 then rsk else U a ⟨c.1 - 1, by have := c.2; omega⟩

/-- `gram_matrix.noalias() = G * G.transpose()` -/
def ltsaProjD {d : Nat} (rsk : K) (U : Mat k d K) : DMat k k K :=
  DMat.ofFn (Mat.mul (ltsaG rsk U) (Mat.transpose (ltsaG rsk U)))

def ltsaProj {d : Nat} (rsk : K) (U : Mat k d K) : Mat k k K := (ltsaProjD rsk U).get

def ltsaTripletsAt (i : Fin N) (nb : Fin k → Fin N) (P : Mat k k K) (shift : K) : List (Triplet N N K) :=
  (i, i, shift) ::
    (List.finRange k).flatMap fun a =>
      (nb a, nb a, 1) :: (List.finRange k).map fun b => (nb a, nb b, - P a b)

def ltsaTriplets {d : Nat} (nb : Fin N → Fin k → Fin N) (rsk : K) (U : Fin N → Mat k d K) (shift : K) :
    List (Triplet N N K) :=
  overFin N fun i => ltsaTripletsAt i (nb i) (ltsaProjD rsk (U i)).get shift

def ltsaM {d : Nat} (nb : Fin N → Fin k → Fin N) (rsk : K) (U : Fin N → Mat k d K) (shift : K) : Mat N N K :=
  fromTriplets (ltsaTriplets nb rsk U shift)

def ltsaMD {d : Nat} (nb : Fin N → Fin k → Fin N) (rsk : K) (U : Fin N → Mat k d K) (shift : K) : DMat N N K :=
  fromTripletsD (ltsaTriplets nb rsk U shift)

end

/-! ### hessian_weight_matrix (HLLE) — index arithmetic from `Gen/HlleIndex.lean` -/
open Gen.HlleIndex

def hlleDp (d : Nat) : Nat := (dpExpr d).toNat
def hlleCols (d : Nat) : Nat := (colsExpr d (dpExpr d)).toNat

/-- the sequence of column assignments `Yi.col(c) = Yi.col(a) ∘ Yi.col(b)` in program order: `(c, a, b)`;
    the loop bounds, the column expression and the `ct` update are the generated expressions -/
def hlleWritesGo (d : Nat) : Nat → Int → Int → List (Int × Int × Int)
  | 0, _, _ => []
  | r + 1, j, ct =>
    ((List.range (pHi d j - pLo).toNat).map fun (pi : Nat) =>
        let p : Int := pLo + (pi : Int)
        (colIndex ct p d j, srcA p d j, srcB p d j))
      ++ hlleWritesGo d r (j + 1) (ctUpdate ct d j)

def hlleWrites (d : Nat) : List (Int × Int × Int) :=
  hlleWritesGo d (jHi d - jLo).toNat jLo ctInit

def hlleWrittenCols (d : Nat) : List Int := (hlleWrites d).map (·.1)

/-- first defect of the column bookkeeping, if any: a write outside the matrix (undefined behaviour),
    a write onto the constant/tangent columns, a product column never written (read uninitialised) -/
def hlleIndexErr (d : Nat) : Option Err :=
  let cols := hlleCols d
  let ws := hlleWrites d
  match ws.find? (fun w => decide (w.1 < 0 ∨ (cols : Int) ≤ w.1)) with
  | some w => some (.oob w.1 cols)
  | none =>
    match ws.find? (fun w => decide (w.1 < 1 + (d : Int) ∨ w.2.1 < 1 ∨ (d : Int) < w.2.1 ∨ w.2.2 < 1 ∨ (d : Int) < w.2.2)) with
    | some w => some (.clobber w.1)
    | none =>
      match (List.range cols).find? (fun c => decide (1 + d ≤ c) && !(ws.any fun w => w.1 == (c : Int))) with
      | some c => some (.uninit c)
      | none => none

section
variable {K : Type} [Add K] [Sub K] [Mul K] [Div K] [Neg K] [Zero K] [One K] [NatCast K] [LT K] [DecidableLT K]
variable {N k : Nat}

def colOf {d : Nat} (U : Mat k d K) (c : Int) : Vec k K :=
  if h : 1 ≤ c ∧ c.toNat ≤ d then fun a => U a ⟨c.toNat - 1, by omega⟩ else fun _ => 0

/-- `Yi` before orthogonalisation, as a list of (tabulated) columns (valid when `hlleIndexErr d = none`):
    `[1 | U | products]`, the last assignment to a column wins -/
def hlleYi0 {d : Nat} (U : Mat k d K) : List (DVec k K) :=
  let ws := (hlleWrites d).reverse
  (List.range (hlleCols d)).map fun c =>
    if c = 0 then DVec.ofFn fun _ => 1
    else if c ≤ d then DVec.ofFn (colOf U c)
    else match ws.find? (fun w => w.1 == (c : Int)) with
      | some w => DVec.ofFn fun a => colOf U w.2.1 a * colOf U w.2.2 a
      | none => DVec.ofFn fun _ => 0

/-- `r = col_i.dot(col_j); col_i -= r * col_j` -/
def gsSub (v q : DVec k K) : DVec k K :=
  let r := Mat.dot v.get q.get
  DVec.ofFn fun a => v.get a - r * q.get a

/-- inner loops of the orthogonalisation: subtract the component along every finished column in order,
    then `col_i *= 1/norm` -/
def gsOne (sqrtO : K → K) (done : List (DVec k K)) (c : DVec k K) : DVec k K :=
  let c' := done.foldl gsSub c
  let nrm := sqrtO (Mat.dot c'.get c'.get)
  let s := 1 / nrm
  DVec.ofFn fun a => c'.get a * s

def gramSchmidt (sqrtO : K → K) : List (DVec k K) → List (DVec k K) → List (DVec k K)
  | done, [] => done
  | done, c :: rest => gramSchmidt sqrtO (done ++ [gsOne sqrtO done c]) rest

/-- `colsum = col.sum(); if (colsum > 1e-4) col /= colsum` -/
def colsumNorm (thr : K) (v : DVec k K) : DVec k K :=
  let s := sumFin k v.get
  if thr < s then DVec.ofFn fun a => v.get a / s else v

/-- `Yi.rightCols(dp)` after Gram–Schmidt and the column-sum step -/
def hlleH {d : Nat} (sqrtO : K → K) (thr : K) (U : Mat k d K) : List (DVec k K) :=
  let q := gramSchmidt sqrtO [] (hlleYi0 U)
  let q := q.mapIdx fun c v => if 1 + d ≤ c ∧ c < 1 + d + hlleDp d then colsumNorm thr v else v
  q.drop (q.length - (rightColsArg d (dpExpr d)).toNat)

/-- `gram_matrix = Yi.rightCols(dp) * Yi.rightCols(dp)ᵀ` -/
def hlleProjD {d : Nat} (sqrtO : K → K) (thr : K) (U : Mat k d K) : DMat k k K :=
  let H := hlleH sqrtO thr U
  DMat.ofFn fun a b => (H.map fun h => h.get a * h.get b).sum

def hlleProj {d : Nat} (sqrtO : K → K) (thr : K) (U : Mat k d K) : Mat k k K := (hlleProjD sqrtO thr U).get

def hlleTripletsAt (nb : Fin k → Fin N) (P : Mat k k K) : List (Triplet N N K) :=
  (List.finRange k).flatMap fun a => (List.finRange k).map fun b => (nb a, nb b, P a b)

def hlleTriplets {d : Nat} (nb : Fin N → Fin k → Fin N) (sqrtO : K → K) (thr : K) (U : Fin N → Mat k d K) :
    List (Triplet N N K) :=
  overFin N fun i => hlleTripletsAt (nb i) (hlleProjD sqrtO thr (U i)).get

/-- `hessian_weight_matrix`; the index defect (if any) is an explicit error, never a totalised default -/
def hlleM {d : Nat} (nb : Fin N → Fin k → Fin N) (sqrtO : K → K) (thr : K) (U : Fin N → Mat k d K) :
    Except Err (Mat N N K) :=
  match hlleIndexErr d with
  | some e => .error e
  | none => .ok (fromTriplets (hlleTriplets nb sqrtO thr U))

def hlleMD {d : Nat} (nb : Fin N → Fin k → Fin N) (sqrtO : K → K) (thr : K) (U : Fin N → Mat k d K) :
    Except Err (DMat N N K) :=
  match hlleIndexErr d with
  | some e => .error e
  | none => .ok (fromTripletsD (hlleTriplets nb sqrtO thr U))

end
end TapkeeVerif.LocallyLinear
