import TapkeeVerif.Model.Center
/-!
What `methods/multidimensional_scaling.hpp`, `methods/kernel_pca.hpp` (and `methods/isomap.hpp` after the
geodesics) hand to the eigensolver, and the post-processing of its result.

    compute_distance_matrix : for i, for j ≥ i : d = distance(i,j); d *= d; D(i,j) = D(j,i) = d
    centerMatrix(D); D.array() *= -0.5;                                   -- mdsPre
    compute_centered_kernel_matrix : for i, for j ≥ i : K(i,j) = K(j,i) = kernel(i,j); centerMatrix(K)   -- kpcaPre
    embedding.first.col(i).array() *= sqrt(embedding.second(i))           -- post
-/
namespace TapkeeVerif
section
variable {K : Type} {n d : Nat}

/-- the callback is evaluated for `j ≥ i` only and mirrored -/
def sqDistMatrix [Mul K] (δ : Fin n → Fin n → K) : Mat n n K :=
  fun i j => if i ≤ j then δ i j * δ i j else δ j i * δ j i

def kernelMatrix (κ : Fin n → Fin n → K) : Mat n n K :=
  fun i j => if i ≤ j then κ i j else κ j i

variable [Add K] [Sub K] [Mul K] [Div K] [Neg K] [Zero K] [NatCast K]

def mdsPre (δ : Fin n → Fin n → K) : Mat n n K :=
  scale negHalf (centerMatrix (sqDistMatrix δ))

def kpcaPre (κ : Fin n → Fin n → K) : Mat n n K :=
  centerMatrix (kernelMatrix κ)

/-- Isomap after the geodesic matrix `G` (any square matrix):
    `S = G.array().square(); S = (S + Sᵀ)/2.0; centerMatrix(S); S *= -0.5`  (the averaging is fix F-ISOMAP-ASYM, 2c74a55) -/
def isomapPreOfGeodesics (G : Mat n n K) : Mat n n K :=
  scale negHalf (centerMatrix (fun i j => (G i j * G i j + G j i * G j i) / ((2 : Nat) : K)))

/-- `col(j) *= s j`  (the code passes `s j = sqrt (max (λ j) 0)`; `sqrt` enters as the contract `0 ≤ s j ∧ s j ² = clamp0 (λ j)`) -/
def post (V : Mat n d K) (s : Vec d K) : Mat n d K := fun i j => V i j * s j

/-- `std::max<ScalarType>(x, 0.0)` (fix F-SQRT-NEG, c99fb7c) -/
def clamp0 [LT K] [DecidableLT K] (x : K) : K := if x < 0 then 0 else x

/-- Gram matrix of row vectors `Y Yᵀ` and of columns `Yᵀ Y` -/
def gramRows (Y : Mat n d K) : Mat n n K := fun i j => sumFin d fun a => Y i a * Y j a
def gramCols (Y : Mat n d K) : Mat d d K := fun a b => sumFin n fun i => Y i a * Y i b

/-- squared Euclidean distance between rows `i`, `j` -/
def rowSqDist (Y : Mat n d K) (i j : Fin n) : K := sumFin d fun a => (Y i a - Y j a) * (Y i a - Y j a)

/-! staged versions for the drivers -/
def mdsPreD (δ : DMat n n K) : DMat n n K :=
  let D := DMat.ofFn (sqDistMatrix δ.get)
  let C := centerMatrixD D
  DMat.ofFn (scale negHalf C.get)

def kpcaPreD (κ : DMat n n K) : DMat n n K :=
  centerMatrixD (DMat.ofFn (kernelMatrix κ.get))

omit [Mul K] [Neg K] in
theorem kpcaPreD_eq (κ : DMat n n K) : (kpcaPreD κ).get = kpcaPre κ.get := by
  simp [kpcaPreD, kpcaPre, DMat.get_ofFn, centerMatrixD_eq]

theorem mdsPreD_eq (δ : DMat n n K) : (mdsPreD δ).get = mdsPre δ.get := by
  simp [mdsPreD, mdsPre, DMat.get_ofFn, centerMatrixD_eq]

end
end TapkeeVerif
