/-
C20 — data types of the tables that `tools/translate_cli.py` regenerates from
`/repo/src/cli/main.cpp`, `/repo/src/cli/util.hpp`, `include/tapkee/defines/{keywords,methods}.hpp`
and `include/tapkee/parameters/defaults.hpp` (DESIGN §2.2 (T)).  Core Lean only.

`Gen/Cli.lean` contains *data of these types and nothing else*; `Model/Cli.lean` interprets it.
-/
namespace TapkeeVerif.Cli

/-- the `T` of `cxxopts::value<T>()` (`flag` = an option declared without a value) -/
inductive Ty where
  | flag | str | int | dbl
  deriving DecidableEq, Repr, Inhabited

/-- a help string is a concatenation of literals and `comma_separated_keys(MAP.begin(), MAP.end())` -/
inductive HelpPiece where
  | lit (s : String)
  | keysOf (map : String)
  deriving DecidableEq, Repr

/-- one group `( names, description [, with_default(lit)] )` of `options.add_options()` -/
structure OptRow where
  /-- the comma separated names handed to cxxopts, in source order (`either(short, long)`); the LAST one is
      the canonical name used everywhere else in the tables -/
  names : List String
  ty : Ty
  /-- the literal inside `with_default(…)` exactly as written in the source (`""` when there is none) -/
  default : String
  hasValue : Bool
  help : List HelpPiece
  deriving DecidableEq, Repr

def OptRow.canonical (r : OptRow) : String := r.names.getLast?.getD ""

inductive BinOp where
  | and | or | eq | ne | lt | le | gt | ge | add | sub | mul | div
  deriving DecidableEq, Repr

/-- value expressions of `run()` after every local variable has been replaced by its definition -/
inductive Expr where
  /-- `opt.count("name")` -/
  | count (opt : String)
  /-- `opt["name"].as<T>()` -/
  | value (opt : String) (ty : Ty)
  /-- `parse_multiple(MAP, e)` — the mapped constant -/
  | lookup (map : String) (e : Expr)
  /-- "`parse_multiple(MAP, e)` throws" (the `catch` branch of the enclosing `try`) -/
  | lookupFails (map : String) (e : Expr)
  /-- literal; `Ty.flag` marks `true`/`false` -/
  | lit (ty : Ty) (s : String)
  /-- a named library constant (`tapkee::PassThru`) -/
  | const (name : String)
  | not (e : Expr)
  | neg (e : Expr)
  | bin (op : BinOp) (a b : Expr)
  | ite (c a b : Expr)
  /-- `e[0]` on a `std::string` -/
  | index0 (e : Expr)
  /-- `e.field` of a method constant (`tapkee_method.needs_kernel`) -/
  | field (e : Expr) (name : String)
  /-- a run-time quantity that is not a function of the options (`output.projection.implementation`) -/
  | sym (name : String)
  deriving DecidableEq, Repr, Inhabited

/-- `if (cond) { …; return exit; }` -/
structure GuardRow where
  cond : Expr
  exit : Nat
  message : String
  deriving DecidableEq, Repr

/-- `tapkee::keyword = expr` inside `tapkee::kwargs[( … )]` -/
structure WireRow where
  keyword : String
  expr : Expr
  deriving DecidableEq, Repr

/-- the statements of `run()` that touch files or data, in source order; every row carries the conjunction of the
    enclosing `if` conditions -/
inductive Step where
  /-- `ifstream v(file)` / `ofstream v(file)` (an `ofstream` truncates) -/
  | openIn (file : Expr)
  | openOut (file : Expr)
  /-- `target = read_data(stream(file), delim)` -/
  | readData (cond : Expr) (target : String) (file : Expr) (delim : Expr)
  /-- `target.transposeInPlace()` -/
  | transpose (cond : Expr) (target : String)
  /-- `output = tapkee::with(params)…embedUsing(data)` resp. `.withKernel(k).withDistance(d).withFeatures(f).embedRange(..)` -/
  | embed (cond : Expr) (params : String) (data : String) (kernel distance features : String)
  /-- `write_matrix(&what, stream(file), delim)` -/
  | writeMatrix (cond : Expr) (what : String) (file : Expr) (delim : Expr)
  /-- `write_vector(&what, stream(file))` -/
  | writeVector (cond : Expr) (what : String) (file : Expr)
  | guard (g : GuardRow)
  /-- `if (cond) Logging::instance().enable_x()` -/
  | effect (cond : Expr) (what : String)
  /-- `return n;` at the end of `run()` -/
  | ret (n : Nat)
  deriving DecidableEq, Repr

structure NameMap where
  name : String
  /-- text → constant, in source order -/
  entries : List (String × String)
  deriving DecidableEq, Repr

/-- `static const DimensionReductionMethod Ident("display name", Traits)` etc. -/
structure ConstRow where
  ident : String
  cls : String
  display : String
  traits : String
  deriving DecidableEq, Repr

/-- `static const DimensionReductionTraits Name{needs_kernel, needs_distance, needs_features}` -/
structure TraitsRow where
  name : String
  kernel : Bool
  distance : Bool
  features : Bool
  deriving DecidableEq, Repr

/-- `const stichwort::ParameterKeyword<cppType> ident("display", default)` -/
structure KeywordRow where
  ident : String
  cppType : String
  display : String
  default : String
  deriving DecidableEq, Repr

end TapkeeVerif.Cli
