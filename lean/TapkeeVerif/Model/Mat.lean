/-
Matrices for the executable model (DESIGN §2.1), core Lean only.

A matrix is a function `Fin n → Fin m → K`; `K` carries only core notation classes, so the same
definitions run at `K := Rat` in the native drivers and are the subjects of the theorems at any
ordered field, where `Fin n → Fin m → K` is definitionally Mathlib's `Matrix (Fin n) (Fin m) K`
(bridge lemmas: `Proofs/MatBridge.lean`).
-/
namespace TapkeeVerif

abbrev Vec (n : Nat) (K : Type) := Fin n → K
abbrev Mat (n m : Nat) (K : Type) := Fin n → Fin m → K

section
variable {K : Type}

/-- `Σ_{i<n} f i`, as the core `List.sum` of `(List.finRange n).map f`
    (equal to Mathlib's `∑ i, f i` by `Fin.sum_univ_def`). -/
def sumFin [Add K] [Zero K] (n : Nat) (f : Fin n → K) : K := ((List.finRange n).map f).sum

namespace Mat
variable {n m p : Nat}

def transpose (A : Mat n m K) : Mat m n K := fun j i => A i j
def mul [Add K] [Zero K] [Mul K] (A : Mat n m K) (B : Mat m p K) : Mat n p K :=
  fun i j => sumFin m fun k => A i k * B k j
def mulVec [Add K] [Zero K] [Mul K] (A : Mat n m K) (v : Vec m K) : Vec n K :=
  fun i => sumFin m fun k => A i k * v k
def add [Add K] (A B : Mat n m K) : Mat n m K := fun i j => A i j + B i j
def sub [Sub K] (A B : Mat n m K) : Mat n m K := fun i j => A i j - B i j
def smul [Mul K] (c : K) (A : Mat n m K) : Mat n m K := fun i j => c * A i j
def diag [Zero K] (d : Vec n K) : Mat n n K := fun i j => if i = j then d i else 0
def one [Zero K] [One K] : Mat n n K := fun i j => if i = j then 1 else 0
def trace [Add K] [Zero K] (A : Mat n n K) : K := sumFin n fun i => A i i
def dot [Add K] [Zero K] [Mul K] (u v : Vec n K) : K := sumFin n fun i => u i * v i

/-- cache a function matrix in arrays between pipeline stages (keeps the drivers O(n³));
    the identity function as far as proofs are concerned (`materialize_eq`). -/
def materialize (A : Mat n m K) : Mat n m K :=
  let arr : Array (Array K) := Array.ofFn fun i : Fin n => Array.ofFn fun j : Fin m => A i j
  fun i j =>
    if h : i.1 < arr.size then
      let row := arr[i.1]
      if h' : j.1 < row.size then row[j.1] else A i j
    else A i j

theorem materialize_eq (A : Mat n m K) : materialize A = A := by
  funext i j
  simp [materialize]

def toLists (A : Mat n m K) : List (List K) :=
  (List.finRange n).map fun i => (List.finRange m).map fun j => A i j

/-- matrix from row lists; `none` unless exactly `n` rows of exactly `m` entries
    (list access is linear: wrap the result in `materialize`) -/
def ofLists? (n m : Nat) (rows : List (List K)) : Option (Mat n m K) :=
  if h : rows.length = n ∧ ∀ r ∈ rows, r.length = m then
    some (materialize fun i j =>
      (rows[i.1]'(h.1 ▸ i.2))[j.1]'(by
        have := h.2 _ (List.getElem_mem (h.1 ▸ i.2 : i.1 < rows.length))
        omega))
  else none

end Mat

namespace Vec
variable {n : Nat}
def toList (v : Vec n K) : List K := (List.finRange n).map v
def ofList? (n : Nat) (l : List K) : Option (Vec n K) :=
  if h : l.length = n then some fun i => l[i.1]'(h ▸ i.2) else none
end Vec

end
end TapkeeVerif
