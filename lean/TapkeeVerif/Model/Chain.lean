/-
The call-chain interface of tapkee/chain_interface.hpp as a state machine (property C13).  Core Lean only.

`tapkee::with(parameters)` yields `ParametersInitializedState`; `withKernel / withDistance / withFeatures` move
through the eight state classes (each member function exists only where the callback is still missing, so a
repeated attachment is a *compile* error: `step` returns `none`); `embedRange` fills the missing callbacks with
dummy callbacks (`none`) and calls `tapkee::embed(begin, end, kernel, distance, features, parameters)`.
Every transition below is transcribed from the member-initialiser list of the class it constructs.
-/
namespace TapkeeVerif.Chain

/-- the eight state classes with the members they store -/
inductive State (π κ δ φ : Type) where
  | P (p : π)                               -- ParametersInitializedState
  | K (p : π) (k : κ)                       -- KernelFirstInitializedState
  | D (p : π) (d : δ)                       -- DistanceFirstInitializedState
  | F (p : π) (f : φ)                       -- FeaturesFirstInitializedState
  | KD (p : π) (k : κ) (d : δ)              -- KernelAndDistanceInitializedState
  | KF (p : π) (k : κ) (f : φ)              -- KernelAndFeaturesInitializedState
  | DF (p : π) (d : δ) (f : φ)              -- DistanceAndFeaturesInitializedState
  | KDF (p : π) (k : κ) (d : δ) (f : φ)     -- CallbacksInitializedState
  deriving Repr, DecidableEq

inductive Op (κ δ φ : Type) where
  | withKernel (k : κ)
  | withDistance (d : δ)
  | withFeatures (f : φ)
  deriving Repr, DecidableEq

/-- which callback an operation attaches: 0 kernel, 1 distance, 2 features -/
def Op.kind {κ δ φ} : Op κ δ φ → Nat
  | .withKernel _ => 0
  | .withDistance _ => 1
  | .withFeatures _ => 2

variable {π κ δ φ : Type}

/-- one member-function call; `none` = the class has no such member -/
def step : State π κ δ φ → Op κ δ φ → Option (State π κ δ φ)
  | .P p, .withKernel k => some (.K p k)
  | .P p, .withDistance d => some (.D p d)
  | .P p, .withFeatures f => some (.F p f)
  | .K p k, .withDistance d => some (.KD p k d)
  | .K p k, .withFeatures f => some (.KF p k f)
  | .D p d, .withKernel k => some (.KD p k d)
  | .D p d, .withFeatures f => some (.DF p d f)
  | .F p f, .withKernel k => some (.KF p k f)
  | .F p f, .withDistance d => some (.DF p d f)
  | .KD p k d, .withFeatures f => some (.KDF p k d f)
  | .KF p k f, .withDistance d => some (.KDF p k d f)
  | .DF p d f, .withKernel k => some (.KDF p k d f)
  | _, _ => none

def run : State π κ δ φ → List (Op κ δ φ) → Option (State π κ δ φ)
  | s, [] => some s
  | s, o :: os => match step s o with
    | some s' => run s' os
    | none => none

/-- what `tapkee::embed` finally receives: the parameters and the three callbacks (`none` = dummy callback) -/
structure Call (π κ δ φ : Type) where
  params : π
  kernel : Option κ
  distance : Option δ
  features : Option φ
  deriving Repr, DecidableEq

/-- `embedRange(begin, end)` of each state class (`ParametersInitializedState` has none: `embedUsing(matrix)`
    there supplies the three eigen callbacks, see `embedMatrix`) -/
def embedRange : State π κ δ φ → Option (Call π κ δ φ)
  | .P _ => none
  | .K p k => some ⟨p, some k, none, none⟩          -- .withDistance(dummy).withFeatures(dummy).embedRange
  | .D p d => some ⟨p, none, some d, none⟩
  | .F p f => some ⟨p, none, none, some f⟩
  | .KD p k d => some ⟨p, some k, some d, none⟩
  | .KF p k f => some ⟨p, some k, none, some f⟩
  | .DF p d f => some ⟨p, none, some d, some f⟩
  | .KDF p k d f => some ⟨p, some k, some d, some f⟩

/-- `with(parameters).embedUsing(matrix)`: indices 0..N-1 and the three eigen callbacks of the matrix -/
def embedMatrix (p : π) (eigenK : κ) (eigenD : δ) (eigenF : φ) : Call π κ δ φ :=
  ⟨p, some eigenK, some eigenD, some eigenF⟩

/-- the chain `with(p).op₁.op₂….embedRange(begin, end)` -/
def chain (p : π) (ops : List (Op κ δ φ)) : Option (Call π κ δ φ) :=
  match run (.P p) ops with
  | some s => embedRange s
  | none => none

end TapkeeVerif.Chain
