/-
The call-chain interface of tapkee/chain_interface.hpp as a state machine (property C13).  Core Lean only.

`tapkee::with(parameters)` yields `ParametersInitializedState`; `withKernel / withDistance / withFeatures` move
through the eight state classes (each member function exists only where the callback is still missing, so a
repeated attachment is a *compile* error: `step` returns `none`); `embedRange` fills the missing callbacks with
dummy callbacks (`none`) and calls `tapkee::embed(begin, end, kernel, distance, features, parameters)`.
Every transition below is transcribed from the member-initialiser list of the class it constructs.
-/
namespace TapkeeVerif.Chain

/-- the eight state classes with the members they store -/
inductive State (π κ δ φ : Type) where
  | P (p : π)                               -- ParametersInitializedState
  | K (p : π) (k : κ)                       -- KernelFirstInitializedState
  | D (p : π) (d : δ)                       -- DistanceFirstInitializedState
  | F (p : π) (f : φ)                       -- FeaturesFirstInitializedState
  | KD (p : π) (k : κ) (d : δ)              -- KernelAndDistanceInitializedState
  | KF (p : π) (k : κ) (f : φ)              -- KernelAndFeaturesInitializedState
  | DF (p : π) (d : δ) (f : φ)              -- DistanceAndFeaturesInitializedState
  | KDF (p : π) (k : κ) (d : δ) (f : φ)     -- CallbacksInitializedState
  deriving Repr, DecidableEq

inductive Op (κ δ φ : Type) where
  | withKernel (k : κ)
  | withDistance (d : δ)
  | withFeatures (f : φ)
  deriving Repr, DecidableEq

/-- which callback an operation attaches: 0 kernel, 1 distance, 2 features -/
def Op.kind {κ δ φ} : Op κ δ φ → Nat
  | .withKernel _ => 0
  | .withDistance _ => 1
  | .withFeatures _ => 2

variable {π κ δ φ : Type}

/-- one member-function call; `none` = the class has no such member -/
def step : State π κ δ φ → Op κ δ φ → Option (State π κ δ φ)
  | .P p, .withKernel k => some (.K p k)
  | .P p, .withDistance d => some (.D p d)
  | .P p, .withFeatures f => some (.F p f)
  | .K p k, .withDistance d => some (.KD p k d)
  | .K p k, .withFeatures f => some (.KF p k f)
  | .D p d, .withKernel k => some (.KD p k d)
  | .D p d, .withFeatures f => some (.DF p d f)
  | .F p f, .withKernel k => some (.KF p k f)
  | .F p f, .withDistance d => some (.DF p d f)
  | .KD p k d, .withFeatures f => some (.KDF p k d f)
  | .KF p k f, .withDistance d => some (.KDF p k d f)
  | .DF p d f, .withKernel k => some (.KDF p k d f)
  | _, _ => none

def run : State π κ δ φ → List (Op κ δ φ) → Option (State π κ δ φ)
  | s, [] => some s
  | s, o :: os => match step s o with
    | some s' => run s' os
    | none => none

/-- what `tapkee::embed` finally receives: the parameters and the three callbacks (`none` = dummy callback) -/
structure Call (π κ δ φ : Type) where
  params : π
  kernel : Option κ
  distance : Option δ
  features : Option φ
  deriving Repr, DecidableEq

/-- `embedRange(begin, end)` of each state class (`ParametersInitializedState` has none: `embedUsing(matrix)`
    there supplies the three eigen callbacks, see `embedMatrix`) -/
def embedRange : State π κ δ φ → Option (Call π κ δ φ)
  | .P _ => none
  | .K p k => some ⟨p, some k, none, none⟩          -- .withDistance(dummy).withFeatures(dummy).embedRange
  | .D p d => some ⟨p, none, some d, none⟩
  | .F p f => some ⟨p, none, none, some f⟩
  | .KD p k d => some ⟨p, some k, some d, none⟩
  | .KF p k f => some ⟨p, some k, none, some f⟩
  | .DF p d f => some ⟨p, none, some d, some f⟩
  | .KDF p k d f => some ⟨p, some k, some d, some f⟩

/-- `with(parameters).embedUsing(matrix)`: indices 0..N-1 and the three eigen callbacks of the matrix -/
def embedMatrix (p : π) (eigenK : κ) (eigenD : δ) (eigenF : φ) : Call π κ δ φ :=
  ⟨p, some eigenK, some eigenD, some eigenF⟩

/-- the chain `with(p).op₁.op₂….embedRange(begin, end)` -/
def chain (p : π) (ops : List (Op κ δ φ)) : Option (Call π κ δ φ) :=
  match run (.P p) ops with
  | some s => embedRange s
  | none => none

/-! ## multi-step use: chain states kept in variables

`auto s = with(p).withKernel(cb);  …  s.withFeatures(cb2).embedUsing(data);` — every member function of the state
classes is `const` and returns a new state object **by value**, holding its own copies of the parameters and of the
callbacks (member-initialiser lists above), so a state is a *value*: it can be stored, copied, outlive the temporaries
it was built from, be finished more than once and be extended more than once.  The statements below are the
operations of such a use; `Sem` is the interface shared by the state machine itself (`stateSem`: what the classes
store and hand to `tapkee::embed`) and the bookkeeping of *what a variable was given* (`givenSem`: the parameters and
the list of attachments, nothing else).  Using a variable that holds no state (never defined, destroyed) is undefined
behaviour / does not compile: `none`. -/

abbrev Var := Nat

inductive Stmt (π κ δ φ : Type) where
  | start (v : Var) (p : π)                               -- auto v = tapkee::with(<temporary ParametersSet p>);
  | attach (v w : Var) (o : Op κ δ φ)                     -- auto w = v.withX(<temporary callback>);   (v stays usable)
  | copy (v w : Var)                                      -- auto w = v;
  | destroy (v : Var)                                     -- v goes out of scope / `delete`
  | finish (v : Var)                                      -- v.embedRange(begin, end) / v.embedUsing(container)
  | finishMatrix (v : Var) (ek : κ) (ed : δ) (ef : φ)     -- v.embedUsing(matrix)  (ParametersInitializedState only)
  | scribble                                              -- unrelated code runs, the stack is reused
  deriving Repr

def Env (α : Type) := Var → Option α
def Env.empty {α : Type} : Env α := fun _ => none
def Env.set {α : Type} (e : Env α) (v : Var) (a : α) : Env α := fun w => if w = v then some a else e w
def Env.unset {α : Type} (e : Env α) (v : Var) : Env α := fun w => if w = v then none else e w

/-- what a variable holds (`α`) and what a finished chain yields (`β`) -/
structure Sem (π κ δ φ α β : Type) where
  start : π → α
  attach : α → Op κ δ φ → Option α
  fin : α → Option β
  finM : α → κ → δ → φ → Option β

/-- the state classes themselves -/
def stateSem : Sem π κ δ φ (State π κ δ φ) (Call π κ δ φ) where
  start := .P
  attach := step
  fin := embedRange
  finM := fun s ek ed ef => match s with
    | .P p => some (embedMatrix p ek ed ef)
    | _ => none

/-- only what was given along the chain: the parameters and the attachments, in the order they were made;
    `embedUsing(matrix)` gives the three eigen callbacks of the matrix -/
def givenSem : Sem π κ δ φ (π × List (Op κ δ φ)) (π × List (Op κ δ φ)) where
  start := fun p => (p, [])
  attach := fun g o => some (g.1, g.2 ++ [o])
  fin := some
  finM := fun g ek ed ef => match g.2 with
    | [] => some (g.1, [.withKernel ek, .withDistance ed, .withFeatures ef])
    | _ :: _ => none

variable {α β : Type}

/-- one statement: the variables and the results of the finished chains so far (oldest first) -/
def execStmt (S : Sem π κ δ φ α β) (e : Env α) (outs : List β) : Stmt π κ δ φ → Option (Env α × List β)
  | .start v p => some (e.set v (S.start p), outs)
  | .attach v w o => match e v with
    | some a => match S.attach a o with
      | some a' => some (e.set w a', outs)
      | none => none
    | none => none
  | .copy v w => match e v with
    | some a => some (e.set w a, outs)
    | none => none
  | .destroy v => match e v with
    | some _ => some (e.unset v, outs)
    | none => none
  | .finish v => match e v with
    | some a => match S.fin a with
      | some b => some (e, outs ++ [b])
      | none => none
    | none => none
  | .finishMatrix v ek ed ef => match e v with
    | some a => match S.finM a ek ed ef with
      | some b => some (e, outs ++ [b])
      | none => none
    | none => none
  | .scribble => some (e, outs)

def execFrom (S : Sem π κ δ φ α β) (e : Env α) (outs : List β) : List (Stmt π κ δ φ) → Option (Env α × List β)
  | [] => some (e, outs)
  | st :: rest => match execStmt S e outs st with
    | some (e', outs') => execFrom S e' outs' rest
    | none => none

/-- the calls `tapkee::embed` receives, one per finished chain, in program order -/
def exec (prog : List (Stmt π κ δ φ)) : Option (List (Call π κ δ φ)) :=
  (execFrom stateSem Env.empty [] prog).map (·.2)

/-- what each finished chain had been given: (parameters, attachments) -/
def given (prog : List (Stmt π κ δ φ)) : Option (List (π × List (Op κ δ φ))) :=
  (execFrom givenSem Env.empty [] prog).map (·.2)

end TapkeeVerif.Chain
