/-
Model of `include/tapkee/neighbors/neighbors.hpp` (brute force search, the wrappers of the VP-tree and
cover-tree searches) and the specification `IsExactKnn` of property C02.  Core Lean only.

Samples are values of an arbitrary type `α` with decidable equality (the driver uses `Nat` indices,
`pts = List.range N`), a callback is a function `δ : α → α → K` into a scalar type `K` that carries
only `<`, `≤` (+ decidability).  `δ i j` is `callback.distance(begin+i, begin+j)`.

`std::nth_element` is modelled by its **postcondition** (`IsNthElement`): theorems quantify over every
output that satisfies it; the executable instance used by the driver is a stable merge sort.
-/
namespace TapkeeVerif.Knn

variable {α β K : Type}

/-! ### specification (property C02) -/

/-- ascending sort of a list of distances -/
def sortK [LE K] [DecidableLE K] (l : List K) : List K := l.mergeSort (fun a b => decide (a ≤ b))

/-- all samples except `i` (`pts` lists every sample once) -/
def others [DecidableEq α] (pts : List α) (i : α) : List α := pts.filter (fun j => j ≠ i)

/-- C02 for one sample `i`: `l` consists of exactly `k` distinct other samples and the sorted distances to
    them are the `k` smallest distances from `i` to all other samples. -/
def IsExactKnn [DecidableEq α] [LE K] [DecidableLE K] (δ : α → α → K) (pts : List α) (k : Nat) (i : α)
    (l : List α) : Prop :=
  l.length = k ∧ l.Nodup ∧ i ∉ l ∧ (∀ j ∈ l, j ∈ pts) ∧
    sortK (l.map (δ i)) = (sortK ((others pts i).map (δ i))).take k

instance [DecidableEq α] [DecidableEq K] [LE K] [DecidableLE K] (δ : α → α → K) (pts : List α) (k : Nat) (i : α)
    (l : List α) : Decidable (IsExactKnn δ pts k i l) := by
  unfold IsExactKnn; exact inferInstance

/-- the oracle the driver runs on implementation output; `isExactKnn_iff` (Props/C02) ties it to `IsExactKnn` -/
def isExactKnn [DecidableEq α] [DecidableEq K] [LE K] [DecidableLE K] (δ : α → α → K) (pts : List α) (k : Nat)
    (i : α) (l : List α) : Bool := decide (IsExactKnn δ pts k i l)

/-! ### `std::nth_element` -/

/-- Postcondition of `std::nth_element(first, first + n, last, lt)` on the range `inp`, result `out`:
    a permutation; nothing in `[first+n, last)` is less than anything in `[first, first+n)`; the element at
    position `n` (if `n` is inside the range) is not greater than anything after it. -/
def IsNthElement (lt : β → β → Bool) (n : Nat) (inp out : List β) : Prop :=
  out.Perm inp ∧ (∀ a ∈ out.take n, ∀ b ∈ out.drop n, lt b a = false) ∧
    (∀ x, out[n]? = some x → ∀ b ∈ out.drop (n + 1), lt b x = false)

/-- executable instance: a stable sort w.r.t. `¬ (b < a)` -/
def nthElementExec (lt : β → β → Bool) (_n : Nat) (inp : List β) : List β :=
  inp.mergeSort (fun a b => !lt b a)

/-! ### brute force (`find_neighbors_bruteforce_impl`) -/

/-- comparator `distances_comparator` on `(sample, distance)` records -/
def recLt [LT K] [DecidableLT K] (a b : α × K) : Bool := decide (a.2 < b.2)

/-- the records `distances` of one outer iteration -/
def bruteRecords (δ : α → α → K) (pts : List α) (i : α) : List (α × K) := pts.map fun j => (j, δ i j)

/-- the loop over `distances.begin() .. distances.begin()+k+1` that skips the query -/
def bruteLoop [DecidableEq α] (i : α) (k : Nat) (out : List (α × K)) : List α :=
  ((out.take (k + 1)).filter (fun r => r.1 ≠ i)).map (·.1)

/-- `if (local_neighbors.size() > k) local_neighbors.pop_back();` -/
def popIfLonger (k : Nat) (l : List α) : List α := if l.length > k then l.dropLast else l

/-- the loop followed by the length repair (the query is missing from its k+1 closest records only if
    all of them coincide with it) -/
def bruteSelect [DecidableEq α] (i : α) (k : Nat) (out : List (α × K)) : List α :=
  popIfLonger k (bruteLoop i k out)

/-- every neighbour list the code can produce for sample `i` (one for each admissible `nth_element` outcome) -/
def BruteOut [DecidableEq α] [LT K] [DecidableLT K] (δ : α → α → K) (pts : List α) (k : Nat) (i : α)
    (l : List α) : Prop :=
  ∃ out, IsNthElement recLt (k + 1) (bruteRecords δ pts i) out ∧ l = bruteSelect i k out

/-- executable instance -/
def bruteKnn [DecidableEq α] [LT K] [DecidableLT K] (δ : α → α → K) (pts : List α) (k : Nat) (i : α) : List α :=
  bruteSelect i k (nthElementExec recLt (k + 1) (bruteRecords δ pts i))

/-! ### cover tree wrapper (`find_neighbors_covertree_impl`, the loop over the returned candidate sets) -/

/-- Postcondition of `std::partial_sort(first, first + n, last)` with comparator `lt`: a permutation whose
    first `n` entries are sorted and not greater than any later entry. -/
def IsPartialSort (lt : β → β → Bool) (n : Nat) (inp out : List β) : Prop :=
  out.Perm inp ∧ (out.take n).Pairwise (fun a b => lt b a = false) ∧
    (∀ a ∈ out.take n, ∀ b ∈ out.drop n, lt b a = false)

/-- executable instance: a stable sort -/
def partialSortExec (lt : β → β → Bool) (_n : Nat) (inp : List β) : List β :=
  inp.mergeSort (fun a b => !lt b a)

/-- `candidates`: `(callback.distance(query, c), c)` for every returned candidate `c` other than the query;
    `cands` = `res[i][1..]`, the candidate set returned by the batch query for query point `i` -/
def coverCandidates [DecidableEq α] (δ : α → α → K) (i : α) (cands : List α) : List (K × α) :=
  (cands.filter (fun j => j ≠ i)).map fun j => (δ i j, j)

/-- `n_selected = min(k, candidates.size())`, then the first `n_selected` entries after `partial_sort` -/
def coverTake (k : Nat) (sorted : List (K × α)) : List α := (sorted.take (min k sorted.length)).map (·.2)

/-- every list the wrapper can produce from the candidate set `cands` (`lt` = `operator<` of `std::pair`) -/
def CoverOut [DecidableEq α] (δ : α → α → K) (lt : K × α → K × α → Bool) (i : α) (k : Nat) (cands : List α)
    (l : List α) : Prop :=
  ∃ out, IsPartialSort lt (min k (coverCandidates δ i cands).length) (coverCandidates δ i cands) out ∧
    l = coverTake k out

/-- What the wrapper needs from the batch query's candidate set for query `i` (hypothesis of
    `cover_wrapper_exact`, evaluated by the driver on the candidate sets the real query returns): distinct
    samples, at least `k` of them besides the query, and nothing outside the set nearer than something inside. -/
def CandsOk [DecidableEq α] [LE K] (δ : α → α → K) (pts : List α) (i : α) (k : Nat) (cands : List α) : Prop :=
  cands.Nodup ∧ (∀ a ∈ cands, a ∈ pts) ∧ k ≤ (cands.filter (fun j => j ≠ i)).length ∧
    ∀ a ∈ cands, ∀ b ∈ pts, b ∉ cands → δ i a ≤ δ i b

instance [DecidableEq α] [LE K] [DecidableLE K] (δ : α → α → K) (pts : List α) (i : α) (k : Nat) (cands : List α) :
    Decidable (CandsOk δ pts i k cands) := by
  unfold CandsOk; exact inferInstance

/-- `operator<` of `std::pair<ScalarType, IndexType>` -/
def pairLt [LT K] [DecidableLT K] [LT α] [DecidableLT α] (a b : K × α) : Bool :=
  decide (a.1 < b.1) || (!decide (b.1 < a.1) && decide (a.2 < b.2))

/-- executable instance -/
def coverSelect [DecidableEq α] [LT K] [DecidableLT K] [LT α] [DecidableLT α] (δ : α → α → K) (i : α) (k : Nat)
    (cands : List α) : List α :=
  let c := coverCandidates δ i cands
  coverTake k (partialSortExec pairLt (min k c.length) c)

/-! ### VP-tree wrapper (`find_neighbors_vptree_impl`) -/

/-- `std::remove(.., i)` + `erase` on the search result -/
def removeSelf [DecidableEq α] (i : α) (res : List α) : List α := res.filter (fun j => j ≠ i)

/-- `if (local_neighbors.size() > k) local_neighbors.erase(local_neighbors.begin());`
    (results are ordered from the farthest to the nearest) -/
def dropFirstIfLonger (k : Nat) (l : List α) : List α := if l.length > k then l.drop 1 else l

end TapkeeVerif.Knn
