import TapkeeVerif.Model.Mat
import TapkeeVerif.Model.RandProj
/-!
Model of Factor Analysis (`methods/factor_analysis.hpp`, `routines/fa.hpp`), core Lean only.
Samples are the ROWS of `X : Mat N D K`; the code's `X` (D × N, centred) is `(centre X)ᵀ`.

Inputs that the exact-arithmetic model cannot compute are parameters:
* `rnd c` — the `c`-th entry of `DenseMatrix::Random(D, d)` (column-major fill), so `A₀ = |rnd|`;
* the EM step is an ABSTRACT map `em : (centred data) → (A, sig) → iteration → (A', sig') × stop?`;
  the translation-invariance theorem holds for every such map.  `emStep` below is the transcription of the code's
  step with the matrix inverses as oracles (contract `M * inv M = 1`) and the convergence test
  `(iter > 1) && fabs(newll - ll) < epsilon` (which needs `log` and `determinant`) as an oracle stream `stop`.
-/
namespace TapkeeVerif.Fa
open TapkeeVerif.RandProj
variable {K : Type} {N D d : Nat}

/-- `DenseMatrix::Random(dimension, target_dimension).cwiseAbs()` -/
def initLoading (absO : K → K) (rnd : Nat → K) : Mat D d K := fun i j => absO (rnd (j.1 * D + i.1))

/-- the loop `while (iter < max_iter) { ++iter; …; if (converged) break; }` over an abstract EM step -/
def emLoop (em : Mat D d K × Mat D D K → Nat → (Mat D d K × Mat D D K) × Bool) :
    (todo iter : Nat) → Mat D d K × Mat D D K → Mat D d K × Mat D D K
  | 0, _, s => s
  | todo + 1, iter, s =>
    let r := em s (iter + 1)
    if r.2 then r.1 else emLoop em todo (iter + 1) r.1

/-- `project(...)` of `routines/fa.hpp`: `X.transpose() * A` for the centred data and the fitted loading matrix -/
def embedWith [Add K] [Zero K] [Sub K] [Mul K] [Div K] [NatCast K] [One K]
    (em : Mat N D K → Mat D d K × Mat D D K → Nat → (Mat D d K × Mat D D K) × Bool)
    (A0 : Mat D d K) (maxIt : Nat) (X : Mat N D K) : Mat N d K :=
  let Xc := Mat.materialize (centre X)
  let fit := emLoop (em Xc) maxIt 0 (A0, Mat.one)
  Mat.mul Xc fit.1

/-- the EM step as written (`Xc` = centred samples as rows, so the code's `X` is `Xcᵀ`) -/
def emStep [Add K] [Zero K] [Sub K] [Mul K] [Div K] [NatCast K] [One K]
    (invD : Mat D D K → Mat D D K) (invd : Mat d d K → Mat d d K) (stop : Nat → Bool) (eps : K)
    (Xc : Mat N D K) (s : Mat D d K × Mat D D K) (iter : Nat) : (Mat D d K × Mat D D K) × Bool :=
  let A := s.1
  let sig := s.2
  let Xt : Mat D N K := Mat.transpose Xc                       -- the code's X
  -- invC = (A * A.transpose() + sig).inverse()
  let invC := Mat.materialize (invD (Mat.materialize (Mat.add (Mat.mul A (Mat.transpose A)) sig)))
  -- M = A.transpose() * invC * X
  let AtC := Mat.materialize (Mat.mul (Mat.transpose A) invC)
  let M : Mat d N K := Mat.materialize (Mat.mul AtC Xt)
  -- SC = n * (I - A.transpose() * invC * A) + M * M.transpose()
  let SC : Mat d d K := Mat.materialize
    (Mat.add (Mat.smul (N : K) (Mat.sub Mat.one (Mat.mul AtC A))) (Mat.mul M (Mat.transpose M)))
  -- A = (X * M.transpose()) * SC.inverse()
  let A' : Mat D d K := Mat.materialize (Mat.mul (Mat.materialize (Mat.mul Xt (Mat.transpose M))) (invd SC))
  -- sig = DenseMatrix(((X*X.transpose() - A*M*X.transpose()).diagonal() / n).asDiagonal()).array() + epsilon
  let XXt : Mat D D K := Mat.mul Xt Xc
  let AMXt : Mat D D K := Mat.mul (Mat.materialize (Mat.mul A' M)) Xc
  let sig' : Mat D D K := Mat.materialize fun i j =>
    (if i = j then (XXt i i - AMXt i i) / (N : K) else 0) + eps
  ((A', sig'), stop iter)

end TapkeeVerif.Fa
