import TapkeeVerif.Model.Mat
import TapkeeVerif.Model.DMat
import TapkeeVerif.Model.RandProj
/-!
Model of Factor Analysis (`methods/factor_analysis.hpp`, `routines/fa.hpp`), core Lean only.
Samples are the ROWS of `X : Mat N D K`; the code's `X` (D × N, centred) is `(centre X)ᵀ`.
Pipeline stages are cached as first-order data (`DMat`, `DMat.get_ofFn : (DMat.ofFn A).get = A`).

Inputs that the exact-arithmetic model cannot compute are parameters:
* `A0` — `DenseMatrix::Random(D, d).cwiseAbs()` (`initLoading` from the stream of `Random()` entries);
* the EM step is an ABSTRACT map `em : (centred data) → (A, sig) → iteration → (A', sig') × stop?`;
  the translation-invariance theorem holds for every such map.  `emStep` below is the transcription of the code's
  step with the matrix inverses as oracles (contract `M * inv M = 1`) and the convergence test
  `(iter > 1) && fabs(newll - ll) < epsilon` (which needs `log` and `determinant`) as an oracle stream `stop`.
-/
namespace TapkeeVerif.Fa
open TapkeeVerif.RandProj
variable {K : Type} {N D d : Nat}

/-- `(A, sig)` : loading matrix and noise matrix carried by the EM loop -/
abbrev EmState (K : Type) (D d : Nat) := DMat D d K × DMat D D K

/-- `DenseMatrix::Random(dimension, target_dimension).cwiseAbs()` (column-major fill) -/
def initLoading (absO : K → K) (rnd : Nat → K) : DMat D d K := DMat.ofFn fun i j => absO (rnd (j.1 * D + i.1))

/-- the loop `while (iter < max_iter) { ++iter; …; if (converged) break; }` over an abstract EM step -/
def emLoop (em : EmState K D d → Nat → EmState K D d × Bool) :
    (todo iter : Nat) → EmState K D d → EmState K D d
  | 0, _, s => s
  | todo + 1, iter, s =>
    let r := em s (iter + 1)
    if r.2 then r.1 else emLoop em todo (iter + 1) r.1

/-- `project(...)` of `routines/fa.hpp`: `X.transpose() * A` for the centred data and the fitted loading matrix;
    `sig` starts as the identity -/
def embedWith [Add K] [Zero K] [Sub K] [Mul K] [Div K] [NatCast K] [One K]
    (em : DMat N D K → EmState K D d → Nat → EmState K D d × Bool)
    (A0 : DMat D d K) (maxIt : Nat) (X : Mat N D K) : DMat N d K :=
  let Xc : DMat N D K := DMat.ofFn (centre X)
  let fit := emLoop (em Xc) maxIt 0 (A0, DMat.ofFn Mat.one)
  DMat.ofFn (Mat.mul Xc.get fit.1.get)

/-- the EM step as written (`Xc` = centred samples as rows, so the code's `X` is `Xcᵀ`) -/
def emStep [Add K] [Zero K] [Sub K] [Mul K] [Div K] [NatCast K] [One K]
    (invD : DMat D D K → DMat D D K) (invd : DMat d d K → DMat d d K) (stop : Nat → Bool) (eps : K)
    (Xc : DMat N D K) (s : EmState K D d) (iter : Nat) : EmState K D d × Bool :=
  let A : Mat D d K := s.1.get
  let sig : Mat D D K := s.2.get
  let Xr : Mat N D K := Xc.get
  let Xt : Mat D N K := Mat.transpose Xr                       -- the code's X
  -- invC = (A * A.transpose() + sig).inverse()
  let invC : DMat D D K := invD (DMat.ofFn (Mat.add (Mat.mul A (Mat.transpose A)) sig))
  -- M = A.transpose() * invC * X
  let AtC : DMat d D K := DMat.ofFn (Mat.mul (Mat.transpose A) invC.get)
  let M : DMat d N K := DMat.ofFn (Mat.mul AtC.get Xt)
  -- SC = n * (I - A.transpose() * invC * A) + M * M.transpose()
  let SC : DMat d d K := DMat.ofFn
    (Mat.add (Mat.smul (N : K) (Mat.sub Mat.one (Mat.mul AtC.get A))) (Mat.mul M.get (Mat.transpose M.get)))
  -- A = (X * M.transpose()) * SC.inverse()
  let XMt : DMat D d K := DMat.ofFn (Mat.mul Xt (Mat.transpose M.get))
  let A' : DMat D d K := DMat.ofFn (Mat.mul XMt.get (invd SC).get)
  -- sig = DenseMatrix(((X*X.transpose() - A*M*X.transpose()).diagonal() / n).asDiagonal()).array() + epsilon
  --       (`.array() + epsilon` adds epsilon to EVERY entry of the dense matrix, off-diagonal ones included)
  let AM : DMat D N K := DMat.ofFn (Mat.mul A'.get M.get)
  let sig' : DMat D D K := DMat.ofFn fun i j =>
    (if i = j then ((sumFin N fun n => Xt i n * Xr n i) - (sumFin N fun n => AM.get i n * Xr n i)) / (N : K) else 0) + eps
  ((A', sig'), stop iter)

end TapkeeVerif.Fa
