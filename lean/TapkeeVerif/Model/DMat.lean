import TapkeeVerif.Model.Mat
/-!
Array-backed caches for the native drivers (core Lean only).

Lean's compiler eta-expands every definition whose result type is a function, and `Mat n m K` is
`Fin n → Fin m → K`: a `let arr := …` inside a `Mat`-valued definition is therefore re-evaluated on
every entry access.  A cache must be first-order *data*: `DMat.ofFn A` tabulates a function matrix
once (O(n·m) evaluations of `A`), `d.get` reads it back in O(1) per entry.  `get_ofFn` says that the
round trip is the identity, so a staged pipeline `let B := DMat.ofFn (stage A); … B.get …` is
provably the un-staged model term.
-/
namespace TapkeeVerif

structure DMat (n m : Nat) (K : Type) where
  data : Array (Array K)

structure DVec (n : Nat) (K : Type) where
  data : Array K

variable {K : Type} {n m : Nat}

namespace DMat
@[noinline] def ofFn (A : Mat n m K) : DMat n m K :=
  ⟨Array.ofFn fun i : Fin n => Array.ofFn fun j : Fin m => A i j⟩

@[noinline] def get [Zero K] (d : DMat n m K) : Mat n m K :=
  fun i j => ((d.data[i.1]?).bind (·[j.1]?)).getD 0

theorem get_ofFn [Zero K] (A : Mat n m K) : (ofFn A).get = A := by
  funext i j
  simp [ofFn, get]

def toLists [Zero K] (d : DMat n m K) : List (List K) := Mat.toLists d.get
end DMat

namespace DVec
@[noinline] def ofFn (v : Vec n K) : DVec n K := ⟨Array.ofFn v⟩
@[noinline] def get [Zero K] (d : DVec n K) : Vec n K := fun i => (d.data[i.1]?).getD 0
theorem get_ofFn [Zero K] (v : Vec n K) : (ofFn v).get = v := by
  funext i
  simp [ofFn, get]
end DVec

/-- rows as lists → cached matrix; `none` unless exactly `n` rows of exactly `m` entries -/
def DMat.ofLists? (n m : Nat) (rows : List (List K)) : Option (DMat n m K) :=
  if rows.length = n ∧ rows.all (fun r => r.length = m) then
    some ⟨(rows.map List.toArray).toArray⟩
  else none

def DVec.ofList? (n : Nat) (l : List K) : Option (DVec n K) :=
  if l.length = n then some ⟨l.toArray⟩ else none

end TapkeeVerif
