import TapkeeVerif.Model.Mat
import TapkeeVerif.Gen.IsomapSteps
/-!
Model of what `IsomapImplementation::embed` (include/tapkee/methods/isomap.hpp) does between the geodesic
matrix and the eigensolver, statement by statement, plus the dense solver's symmetrisation
(`eigendecomposition_impl_dense`, routines/eigendecomposition.hpp).  Core Lean only; polymorphic in the
scalar (runs at `Rat` in the driver, proved over any field in `Props/C04.lean`).

`centerMatrixIso` is C04's own transcription of `utils/matrix.hpp::centerMatrix` (C05 has its own in
`Model/Center.lean`): note that the code subtracts the *column* means along both directions.
-/
namespace TapkeeVerif.IsomapPre

variable {K : Type} {n : Nat}

section
variable [Add K] [Zero K] [Sub K] [Mul K] [Div K] [Neg K] [NatCast K] [IntCast K]

/-- `matrix.colwise().mean()` : mean of every column -/
def colMeans (A : Mat n n K) : Vec n K := fun j => sumFin n (fun i => A i j) / ((n : Nat) : K)

/-- `matrix.mean()` : sum of all coefficients divided by `size() = rows*cols` -/
def grandMean (A : Mat n n K) : K := sumFin n (fun i => sumFin n fun j => A i j) / ((n * n : Nat) : K)

/-- `centerMatrix(matrix)`:
    ```
    col_means = matrix.colwise().mean().transpose();  grand_mean = matrix.mean();
    matrix.array() += grand_mean;
    matrix.rowwise() -= col_means.transpose();     // entry (i,j) -= col_means(j)
    matrix.colwise() -= col_means;                 // entry (i,j) -= col_means(i)
    ``` -/
def centerMatrixIso (A : Mat n n K) : Mat n n K :=
  let col_means : Vec n K := colMeans A
  let grand_mean : K := grandMean A
  let a1 : Mat n n K := fun i j => A i j + grand_mean
  let a2 : Mat n n K := fun i j => a1 i j - col_means j
  let a3 : Mat n n K := fun i j => a2 i j - col_means i
  a3

/-- `.array().square()` -/
def squareEntries (D : Mat n n K) : Mat n n K := fun i j => D i j * D i j

/-- `m = (m + m.transpose()) / 2` -/
def denseSym (A : Mat n n K) : Mat n n K := fun i j => (A i j + A j i) / ((2 : Nat) : K)

open Gen.Isomap in
/-- one generated statement of `IsomapImplementation::embed` -/
def applyStep (A : Mat n n K) : Gen.Isomap.Step → Mat n n K
  | .square => squareEntries A
  | .symmetrise => denseSym A
  | .center => centerMatrixIso A
  | .scale num den => fun i j => A i j * (((num : Int) : K) / ((den : Nat) : K))

/-- the matrix `IsomapImplementation::embed` hands to `eigendecomposition_via`: the generated statement list
    (as written: `.array().square()`, `(m + mᵀ)/2`, `centerMatrix`, `.array() *= -0.5`) applied to the geodesic matrix -/
def isomapPre (D : Mat n n K) : Mat n n K := Gen.Isomap.isomapSteps.foldl applyStep D

/-- what the dense eigensolver decomposes: `(A + Aᵀ)/2` if `eigendecomposition_impl_dense` symmetrises -/
def denseSolverInput (A : Mat n n K) : Mat n n K :=
  if Gen.Isomap.denseSolverSymmetrises then denseSym A else A

/-- squared geodesics with the two directions averaged (the `S` of the property statement) -/
def avgSquares (D : Mat n n K) : Mat n n K :=
  fun i j => (D i j * D i j + D j i * D j i) / ((2 : Nat) : K)

/-- the centring matrix `J = I − (1/n)·11ᵀ` -/
def centering : Mat n n K := fun i j => (if i = j then ((1 : Nat) : K) else 0) - ((1 : Nat) : K) / ((n : Nat) : K)

/-- classical MDS matrix of a squared-dissimilarity matrix `S`: `−½ J S J` -/
def cmds (S : Mat n n K) : Mat n n K :=
  fun i j => (-(((1 : Nat) : K) / ((2 : Nat) : K))) * Mat.mul (Mat.mul centering S) centering i j

end

end TapkeeVerif.IsomapPre
