/-
Reference values of the library-provided callbacks (callbacks/eigen_callbacks.hpp, precomputed_callbacks.hpp),
computed exactly from the raw columns (property C13: "the result depends on the data only through callback values" -
the values the library's own callbacks return must be the values of the textbook formulas).  Core Lean only.
-/
namespace TapkeeVerif.Callbacks

def absR (x : Rat) : Rat := if x < 0 then -x else x

/-- linear kernel of two columns -/
def dot (a b : List Rat) : Rat := (List.zipWith (· * ·) a b).foldl (· + ·) 0

/-- Σ |aᵣ bᵣ| : the scale of the rounding error of a floating-point dot product -/
def absDot (a b : List Rat) : Rat := (List.zipWith (fun x y => absR (x * y)) a b).foldl (· + ·) 0

/-- squared euclidean distance of two columns -/
def sqDist (a b : List Rat) : Rat := (List.zipWith (fun x y => (x - y) * (x - y)) a b).foldl (· + ·) 0

/-- `d` is an acceptable `double` for the distance of two columns of length `dim` whose exact squared distance is `S`,
    for `eigen_distance_callback` as written (norm of the difference vector), **without assuming that anything is exact**:
    each difference `a_r - b_r` is one rounded subtraction of two doubles (relative error ≤ u = 2⁻⁵³, twice in the square),
    each square is rounded (u), the sum of `dim` non-negative terms is rounded `dim - 1` times in any order (≤ (dim-1)u),
    the square root is rounded (u, twice in d²): d² = S(1+θ), |θ| ≤ (1+u)^(dim+4) - 1 < (dim+5)·2⁻⁵³.
    (The cached-norm variant of seeded change C13-s2 errs by 10⁻⁴ … 10⁻³ relative: more than 2³⁵ times this bound.) -/
def sqrtOk (dim : Nat) (d S : Rat) : Bool :=
  decide (0 ≤ d) && decide (absR (d * d - S) ≤ ((dim : Rat) + 5) * S / (2 : Rat) ^ (53 : Nat))

/-- `k` is an acceptable `double` for the dot product K of two columns of length D: the standard error bound
    D·2⁻⁵²·Σ|aᵣbᵣ| (which is 0, i.e. equality, when nothing is rounded is not required here) -/
def dotOk (dim : Nat) (k K scale : Rat) : Bool :=
  decide (absR (k - K) ≤ (dim : Rat) * scale / (2 : Rat) ^ (52 : Nat))

/-- matrices the harness stores in the precomputed callbacks: entry (i, j) -/
def preKernelEntry (i j : Nat) : Rat := (((i * 31 + j * 17) % 97 : Nat) : Rat) / 8
def preDistanceEntry (i j : Nat) : Rat := (((j * 13 + i * 7) % 89 : Nat) : Rat) / 4

/-- first disagreement of observed callback values with the reference, or `none`.
    `exactKernel`: every product and partial sum of the dot products is exactly representable (small dyadic data),
    so equality is demanded. -/
def judge (pts : List (List Rat)) (ks ds fs pk pd : List Rat) (exactKernel : Bool) : Option String :=
  let n := pts.length
  let dim := (pts.head?.map List.length).getD 0
  let idx := List.range n
  let pairs := idx.flatMap fun i => idx.map fun j => (i, j)
  if ks.length ≠ n * n ∨ ds.length ≠ n * n ∨ pk.length ≠ n * n ∨ pd.length ≠ n * n ∨ fs.length ≠ n * dim then
    some "wrong-number-of-values"
  else
    let bad := pairs.findSome? fun (i, j) =>
      let a := pts.getD i []
      let b := pts.getD j []
      let k := ks.getD (i * n + j) 0
      let d := ds.getD (i * n + j) 0
      if exactKernel && k ≠ dot a b then some s!"kernel({i},{j})"
      else if !dotOk dim k (dot a b) (absDot a b) then some s!"kernel({i},{j})"
      else if !sqrtOk dim d (sqDist a b) then some s!"distance({i},{j})"
      else if pk.getD (i * n + j) 0 ≠ preKernelEntry i j then some s!"precomputed_kernel({i},{j})"
      else if pd.getD (i * n + j) 0 ≠ preDistanceEntry i j then some s!"precomputed_distance({i},{j})"
      else none
    match bad with
    | some b => some b
    | none => if fs = pts.flatten then none else some "features"

end TapkeeVerif.Callbacks
