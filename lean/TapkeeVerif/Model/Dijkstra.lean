import TapkeeVerif.Gen.IsomapSteps
/-
Model of `compute_shortest_distances_matrix` (include/tapkee/routines/isomap.hpp): both overloads
(all sources / landmark sources), both priority-queue back-ends selected by the preprocessor
(`TAPKEE_USE_PRIORITY_QUEUE`: a `std::priority_queue` with lazy deletion; `TAPKEE_USE_FIBONACCI_HEAP`:
an indexed heap with `insert` / `decrease_key` / `extract_min`).  Core Lean only.

Scalars: `K` carries only `+`, `0`, `<` (decidable).  `numeric_limits<double>::max()` ("not reached
yet") is `none`; it is only ever compared and, as a summand, only read for a vertex that was pushed with a
finite key, so `none` behaves as +∞ (`dblmax + w < x` is false for every finite `x`).

The priority queue is the list of its `(index, key)` entries.  `extract_min` / `top`+`pop` removes an entry
of minimal key; *which* one among equal keys is not determined by the interface, so the loop takes a choice
stream `ch : Nat → Nat` (iteration number ↦ which of the minimal entries is taken) and every theorem
quantifies over all streams.

Undefined behaviour is an explicit error (`Err.oob`): `neighbors[v][i]` beyond a list, a vertex `≥ N` used as
an index of `s`, `f`, or of the row, `neighbors[0]` of an empty vector, `f[k]` / `landmarks[k]` out of range.
-/
namespace TapkeeVerif.Dijkstra

inductive Err where
  /-- an array is indexed outside its bounds -/
  | oob
  /-- the model's loop budget ran out (never happens with `fuelFor`: theorem `fuel_suffices`) -/
  | fuel
  /-- the Fibonacci-heap model (`Model/FibHeap.lean`, property C16) reached one of its own error states
      (only in `Model/DijkstraFib.lean`; never happens: C16 `no_oob`, `no_corrupt`) -/
  | heap
  deriving Repr, BEq, DecidableEq

/-- the queue discipline compiled in -/
inductive Disc where
  /-- `TAPKEE_USE_PRIORITY_QUEUE` (default): push on every relaxation, skip stale entries on pop -/
  | lazy
  /-- `TAPKEE_USE_FIBONACCI_HEAP`: one entry per frontier vertex, `decrease_key` on relaxation -/
  | indexed
  deriving Repr, BEq, DecidableEq

/-- the arguments of `compute_shortest_distances_matrix` -/
structure Problem (K : Type) where
  /-- `end - begin` -/
  N : Nat
  /-- `neighbors` -/
  nbrs : Array (Array Nat)
  /-- `callback.distance(begin[u], begin[x])` -/
  w : Nat → Nat → K

namespace Problem
variable {K : Type}

/-- `neighbors[u][i]` (`none`: out of bounds) -/
def nbr (P : Problem K) (u i : Nat) : Option Nat := (P.nbrs[u]?).bind (·[i]?)

/-- `n_neighbors = neighbors[0].size()` (`none`: `neighbors` is empty) -/
def k? (P : Problem K) : Option Nat := (P.nbrs[0]?).map (·.size)

end Problem

/-- per-source state: the row being written and the thread's scratch arrays -/
structure St (K : Type) (N : Nat) where
  /-- `shortest_distances(k, ·)`; `none` = `numeric_limits::max()` -/
  dist : Vector (Option K) N
  /-- `s[]` solution flags -/
  s : Vector Bool N
  /-- `f[]` frontier flags -/
  f : Vector Bool N
  /-- contents of `heap`: `(index, key)` -/
  q : List (Nat × K)

section Queue
variable {K : Type} [LT K] [DecidableLT K]

/-- smallest key stored in the queue -/
def keyMin : List (Nat × K) → Option K
  | [] => none
  | e :: q =>
    match keyMin q with
    | none => some e.2
    | some m => if e.2 < m then some e.2 else some m

/-- the entries of minimal key, with their positions -/
def minEntries (q : List (Nat × K)) : List ((Nat × K) × Nat) :=
  match keyMin q with
  | none => []
  | some m => q.zipIdx.filter fun p => !(decide (m < p.1.2))

/-- remove one entry of minimal key; `c` selects which (`top()`+`pop()` resp. `extract_min`).
    `none` iff the queue is empty. -/
def popMin (c : Nat) (q : List (Nat × K)) : Option ((Nat × K) × List (Nat × K)) :=
  let cs := minEntries q
  match cs[c % cs.length]? with
  | none => none
  | some (e, i) => some (e, q.eraseIdx i)

/-- `fibonacci_heap::insert(index, key)`: ignored when out of range or already present -/
def idxInsert (cap : Nat) (q : List (Nat × K)) (i : Nat) (key : K) : List (Nat × K) :=
  if i < cap then (if q.any (·.1 == i) then q else q ++ [(i, key)]) else q

/-- `fibonacci_heap::decrease_key(index, key)`: ignored when out of range, absent, or `key` larger -/
def idxDecrease (cap : Nat) (q : List (Nat × K)) (i : Nat) (key : K) : List (Nat × K) :=
  if i < cap then q.map (fun e => if e.1 = i then (if e.2 < key then e else (i, key)) else e) else q

/-- `dist < shortest_distances(k, w)` -/
def ltDist (d : K) : Option K → Bool
  | none => true
  | some dx => decide (d < dx)

/-- `min_item_d > shortest_distances(k, min_item)` -/
def gtDist (key : K) : Option K → Bool
  | none => false
  | some dv => decide (dv < key)

end Queue

section Loop
variable {K : Type} [Add K] [Zero K] [LT K] [DecidableLT K] {N : Nat}

/-- body of the edge loop for `w = x` (already fetched and in range), priority-queue build -/
def edgeLazy (w : Nat → Nat → K) (u : Nat) (hu : u < N) (x : Nat) (hx : x < N) (σ : St K N) : St K N :=
  if σ.s[x] = false then
    match σ.dist[u] with
    | none => σ
    | some du =>
      let d := du + w u x
      if ltDist d σ.dist[x] then
        { σ with dist := σ.dist.set x (some d), q := σ.q ++ [(x, d)], f := σ.f.set x true }
      else σ
  else σ

/-- body of the edge loop for `w = x`, Fibonacci-heap build -/
def edgeIdx (w : Nat → Nat → K) (u : Nat) (hu : u < N) (x : Nat) (hx : x < N) (σ : St K N) : St K N :=
  if σ.s[x] = false then
    match σ.dist[u] with
    | none => σ
    | some du =>
      let d := du + w u x
      if ltDist d σ.dist[x] then
        if σ.f[x] then
          { σ with dist := σ.dist.set x (some d), q := idxDecrease N σ.q x d }
        else
          { σ with dist := σ.dist.set x (some d), q := idxInsert N σ.q x d, f := σ.f.set x true }
      else σ
  else σ

def edge (disc : Disc) (w : Nat → Nat → K) (u : Nat) (hu : u < N) (x : Nat) (hx : x < N) (σ : St K N) : St K N :=
  match disc with
  | .lazy => edgeLazy w u hu x hx σ
  | .indexed => edgeIdx w u hu x hx σ

/-- `for (i = 0; i < n_neighbors; i++)` over the remaining values of `i` -/
def edges (P : Problem K) (disc : Disc) (u : Nat) (hu : u < P.N) :
    List Nat → St K P.N → Except Err (St K P.N)
  | [], σ => .ok σ
  | i :: is, σ =>
    match P.nbr u i with
    | none => .error .oob
    | some x =>
      if hx : x < P.N then edges P disc u hu is (edge disc P.w u hu x hx σ) else .error .oob

/-- `while (!heap.empty())`; `t` counts iterations (argument of the choice stream) -/
def loop (P : Problem K) (disc : Disc) (k : Nat) (ch : Nat → Nat) :
    Nat → Nat → St K P.N → Except Err (St K P.N)
  | 0, _, _ => .error .fuel
  | fuel + 1, t, σ =>
    match popMin (ch t) σ.q with
    | none => .ok σ
    | some ((u, key), q') =>
      if hu : u < P.N then
        if disc = .lazy ∧ gtDist key σ.dist[u] = true then
          loop P disc k ch fuel (t + 1) { σ with q := q' }          -- `continue`
        else
          match edges P disc u hu (List.range k)
              { σ with q := q', s := σ.s.set u true, f := σ.f.set u false } with
          | .error e => .error e
          | .ok σ' => loop P disc k ch fuel (t + 1) σ'
      else .error .oob

/-- iterations that always suffice (`fuel_suffices`) -/
def fuelFor (N k : Nat) : Nat := (k + 1) * N + 2

/-- state after the fill loop, `shortest_distances(k, src) = 0`, `heap.push/insert(src, 0)`, `f[flag] = true` -/
def initSt (src : Nat) (hs : src < N) (flag : Nat) (hf : flag < N) : St K N :=
  { dist := (Vector.replicate N none).set src (some 0),
    s := Vector.replicate N false,
    f := (Vector.replicate N false).set flag true,
    q := [(src, 0)] }

/-- one iteration of the `omp for` loop: the finished row for source vertex `src`;
    `flag` is the index whose frontier flag is set initially (the source vertex in both overloads:
    `f[k]` resp. `f[landmarks[k]]`; generated, see `landmarkRows`). -/
def row (P : Problem K) (disc : Disc) (k : Nat) (ch : Nat → Nat) (src flag : Nat) :
    Except Err (Vector (Option K) P.N) :=
  if hs : src < P.N then
    if hf : flag < P.N then
      match loop P disc k ch (fuelFor P.N k) 0 (initSt src hs flag hf) with
      | .ok σ => .ok σ.dist
      | .error e => .error e
    else .error .oob
  else .error .oob

/-- first overload: `for (k = 0; k < N; k++)`; `ch s` is the choice stream used for source `s` -/
def allPairs (P : Problem K) (disc : Disc) (ch : Nat → Nat → Nat) :
    Except Err (List (Vector (Option K) P.N)) :=
  match P.k? with
  | none => .error .oob
  | some k => (List.range P.N).mapM fun s => row P disc k (ch s) s s

/-- second overload: `for (k = 0; k < N_landmarks; k++)`; the index of the frontier flag set before the relax
    loop is the generated `Gen.Isomap.landmarkFlag r l` (position `r` = C++ `k`, vertex `l` = `landmarks[k]`; the source
    now uses the vertex) -/
def landmarkRows (P : Problem K) (disc : Disc) (ch : Nat → Nat → Nat) (lm : List Nat) :
    Except Err (List (Vector (Option K) P.N)) :=
  match P.k? with
  | none => .error .oob
  | some k => lm.zipIdx.mapM fun (l, r) => row P disc k (ch r) l (Gen.Isomap.landmarkFlag r l)

end Loop

end TapkeeVerif.Dijkstra
