/-
Shared helpers for the model drivers (core Lean only): the number protocol of DESIGN §3
(doubles cross the boundary as exact dyadic rationals), field splitting, the stdin line loop.
-/
namespace TapkeeVerif.Util

/-- `a/b`, `m:e` (= m·2^e), or a plain integer, read as an exact rational.  `none` on anything else. -/
def parseRat (s : String) : Option Rat :=
  match s.splitOn ":" with
  | [m, e] =>
    match m.toInt?, e.toInt? with
    | some m, some e => some ((m : Rat) * (2 : Rat) ^ e)
    | _, _ => none
  | _ =>
    match s.splitOn "/" with
    | [a] => a.toInt?.map (fun (n : Int) => (n : Rat))
    | [a, b] =>
      match a.toInt?, b.toInt? with
      | some a, some b => if b = 0 then none else some ((a : Rat) / (b : Rat))
      | _, _ => none
    | _ => none

def parseInt (s : String) : Option Int := s.toInt?
def parseNat (s : String) : Option Nat := s.toNat?

/-- split `k=v` fields of a case line into an association list -/
def fields (line : String) : List (String × String) :=
  (line.trimAscii.toString.splitOn " ").filterMap fun tok =>
    match tok.splitOn "=" with
    | k :: v :: rest => some (k, String.intercalate "=" (v :: rest))
    | _ => none

def field? (fs : List (String × String)) (k : String) : Option String :=
  (fs.find? (·.1 == k)).map (·.2)

def splitNonEmpty (s : String) (sep : String) : List String :=
  (s.splitOn sep).filter (· ≠ "")

/-- print a rational canonically: integer, or `num/den` in lowest terms -/
def showRat (q : Rat) : String :=
  if q.den = 1 then toString q.num else s!"{q.num}/{q.den}"

def allSome {α} : List (Option α) → Option (List α)
  | [] => some []
  | none :: _ => none
  | some a :: t => (allSome t).map (a :: ·)

def parseRats (s : String) (sep : String := ",") : Option (List Rat) :=
  allSome ((splitNonEmpty s sep).map parseRat)

def parseInts (s : String) (sep : String := ",") : Option (List Int) :=
  allSome ((splitNonEmpty s sep).map parseInt)

def parseNats (s : String) (sep : String := ",") : Option (List Nat) :=
  allSome ((splitNonEmpty s sep).map parseNat)

/-- one answer (possibly several output lines joined by `\n`) per input line -/
partial def lineLoop (h : IO.FS.Stream) (out : IO.FS.Stream) (f : String → String) : IO Unit := do
  let line ← h.getLine
  if line.isEmpty then
    out.flush
    return ()
  let l := line.trimAscii.toString
  if l ≠ "" then
    out.putStrLn (f l)
  lineLoop h out f

def runLines (f : String → String) : IO Unit := do
  lineLoop (← IO.getStdin) (← IO.getStdout) f

end TapkeeVerif.Util
