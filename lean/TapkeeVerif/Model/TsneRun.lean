import TapkeeVerif.Model.Tsne
import TapkeeVerif.Gen.TsneRun
/-
Model of `tsne::TSNE::run` (tsne.hpp), core Lean only: the input stage (centring, max-normalisation, conditional
similarities, symmetrisation, normalisation, early exaggeration), the random initialisation, the gradient loop (gains,
momentum, update, centring, end of the exaggeration, momentum switch) and the two `evaluateError` routines whose values
`run` logs every 50 iterations — the channel through which the correspondence run observes the state of the real `run`.

Every learning constant is the regenerated one (`Gen/TsneRun.lean`, token-level translation of the body of `run`);
`Props/C17.lean` states what they have to be (the schedule of van der Maaten's Barnes–Hut-SNE and the property text).
-/
namespace TapkeeVerif.Tsne
open TapkeeVerif

section
variable {K : Type}
variable [Add K] [Sub K] [Mul K] [Div K] [Neg K] [Zero K] [One K] [NatCast K] [LT K] [DecidableLT K] [DecidableEq K]

/-- a generated rational constant -/
def ofPair (p : Nat × Nat) : K := (p.1 : K) / (p.2 : K)

/-- `sign(x)` of tsne.hpp: `x == 0 ? 0 : (x < 0 ? -1 : 1)` -/
def sgn (x : K) : K := if x = 0 then 0 else if x < 0 then -1 else 1

/-- the optimiser state: map, velocity `uY`, gains (flat, row-major `N × no_dims`) and the current momentum -/
structure OptState (K : Type) where
  Y : Array K
  uY : Array K
  gains : Array K
  momentum : K

/-- `Y[i] = gaussian_random() * .0001`, `uY = 0`, `gains = 1` -/
def initState (g : Array K) : OptState K :=
  ⟨g.map (· * ofPair Gen.TsneRun.initScale), g.map (fun _ => 0), g.map (fun _ => 1), ofPair Gen.TsneRun.momentum⟩

/-- `zeroMean(Y, N, no_dims)` on the flat buffer -/
def zeroMeanFlat (N D : Nat) (Y : Array K) : Array K :=
  let means := (List.range D).map fun d => ((List.range N).foldl (fun s n => s + Y.getD (n * D + d) 0) 0) / (N : K)
  Array.ofFn fun (i : Fin (N * D)) => Y.getD i.1 0 - means.getD (i.1 % D) 0

/-- the constants of the update rule -/
structure Sched (K : Type) where
  eta : K
  gainAdd : K
  gainMul : K
  gainMin : K

/-- … as `run` has them (regenerated) -/
def Sched.asWritten : Sched K :=
  ⟨ofPair Gen.TsneRun.eta, ofPair Gen.TsneRun.gainAdd, ofPair Gen.TsneRun.gainMul, ofPair Gen.TsneRun.gainMin⟩

/-- … as specified (van der Maaten's reference implementation: learning rate 200, gains `+0.2` / `×0.8`, floor `0.01`) -/
def Sched.spec : Sched K := ⟨ofPair (200, 1), ofPair (1, 5), ofPair (4, 5), ofPair (1, 100)⟩

/-- the body of the main loop after the gradient `dC` has been computed: gains, gains floor, velocity, position,
    centring -/
def updateStepWith (sc : Sched K) (N D : Nat) (dC : Array K) (s : OptState K) : OptState K :=
  let n := N * D
  let gains := Array.ofFn fun (i : Fin n) =>
    let gi := s.gains.getD i.1 0
    let g' := if sgn (dC.getD i.1 0) ≠ sgn (s.uY.getD i.1 0) then gi + sc.gainAdd else gi * sc.gainMul
    if g' < sc.gainMin then sc.gainMin else g'
  let uY := Array.ofFn fun (i : Fin n) =>
    s.momentum * s.uY.getD i.1 0 - sc.eta * gains.getD i.1 0 * dC.getD i.1 0
  let Y := Array.ofFn fun (i : Fin n) => s.Y.getD i.1 0 + uY.getD i.1 0
  ⟨zeroMeanFlat N D Y, uY, gains, s.momentum⟩

def updateStep (N D : Nat) (dC : Array K) (s : OptState K) : OptState K := updateStepWith Sched.asWritten N D dC s

/-- the factor by which the similarities are still exaggerated when iteration `iter` logs its error (the division
    happens in iteration `stopLyingIter`, before the log line of that iteration) -/
def exaggerationAt (iter : Nat) : K :=
  if Gen.TsneRun.stopLyingSimple && decide ((iter : Int) < Gen.TsneRun.stopLyingIter) then
    ofPair Gen.TsneRun.exaggeration
  else if Gen.TsneRun.stopLyingSimple then ofPair Gen.TsneRun.exaggeration / ofPair Gen.TsneRun.unExaggeration
  else ofPair Gen.TsneRun.exaggeration       -- the test never fires: exaggerated to the end

/-- momentum used by iteration `iter` (switched at the end of iteration `momSwitchIter`) -/
def momentumAt (iter : Nat) : K :=
  if Gen.TsneRun.momSwitchSimple && decide (Gen.TsneRun.momSwitchIter < (iter : Int)) then
    ofPair Gen.TsneRun.finalMomentum
  else ofPair Gen.TsneRun.momentum

/-! ### the input stage -/

/-- dense branch: `P` after symmetrisation and normalisation (each step only if the source has it) -/
def jointDenseAsWritten {N : Nat} (P : Mat N N K) : Mat N N K :=
  let P1 := if Gen.TsneRun.denseSymmetriseBody then symDense P else P
  if Gen.TsneRun.denseNormalise then normalise P1 else P1

/-- sparse branch: `val_P` after `symmetrizeMatrix` and `val_P /= Σ val_P` -/
def jointCsrAsWritten (N : Nat) (c : Csr K) : Except Err (Csr K) :=
  match symmetrizeCsr N c with
  | .error e => .error e
  | .ok s => .ok (if Gen.TsneRun.sparseNormalise then s.normalise else s)

/-- `K = (int)(kMult * perplexity)` -/
def neighbourCount (perpNum perpDen : Nat) : Nat :=
  (Gen.TsneRun.kMult.1 * perpNum) / (Gen.TsneRun.kMult.2 * perpDen)

/-! ### `evaluateError` -/

/-- exact branch: `C = Σ_{n,m} P log((P + 1e-9)/(Q + 1e-9))`, `Q` the normalised Student-t similarities with `DBL_MIN`
    on the diagonal and in the normaliser -/
def evaluateErrorDense {N D : Nat} (logf : K → K) (dblMin eps9 : K) (P : Mat N N K) (Y : Mat N D K) : K :=
  let DD := sqDist Y
  let Q : Mat N N K := fun n m => if n = m then dblMin else 1 / (1 + DD n m)
  let sumQ := dblMin + sumFin N fun n => sumFin N fun m => if n = m then 0 else Q n m
  sumFin N fun n => sumFin N fun m => P n m * logf ((P n m + eps9) / (Q n m / sumQ + eps9))

/-- Barnes–Hut branch: `sum_Q` from the tree, `C = Σ_edges val log((val + FLT_MIN)/(Q + FLT_MIN))` -/
def evaluateErrorBH (logf : K → K) (fltMin eps θ : K) (fuel N : Nat) (c : Csr K) (Y : Array K) : Except Err K := do
  let pts := (List.range N).map fun n => (Y.getD (2 * n) 0, Y.getD (2 * n + 1) 0)
  let parr := pts.toArray
  let data : Nat → K × K := fun i => parr.getD i (0, 0)
  match QuadTree.buildIn data fuel (QuadTree.rootCell eps pts) (List.range N) with
  | none => .error (.oob "quadtree: out of fuel")
  | some tree =>
    let sumQ := (List.range N).foldl (fun sq n => (QuadTree.forces data θ n tree ((0, 0), sq)).2) 0
    let es ← entries N c
    es.foldlM (fun (C : K) (e : Nat × Nat) => do
      let col ← rd c.colP e.2 "col_P[i]"
      let v ← rd c.valP e.2 "val_P[i]"
      let a := data e.1
      let b := data col
      let q := (1 / (1 + QuadTree.sqNorm (a.1 - b.1, a.2 - b.2))) / sumQ
      pure (C + v * logf ((v + fltMin) / (q + fltMin)))) 0

end
end TapkeeVerif.Tsne
