import TapkeeVerif.Model.Mat
/-!
Model of `tapkee_internal::spe_embedding` (`routines/spe.hpp`), core Lean only.

The randomness is an INPUT of the model:
* `shuffle t : List Nat` — the position permutation that `tapkee::random_shuffle` (= `std::shuffle`) applies to
  `indices` at iteration `t` (`new[i] = old[π[i]]`); contract of the oracle: `π.Perm (List.range N)`;
* `unif c : K` — the `c`-th value returned by `tapkee::uniform_random()` (contract `0 ≤ u < 1`), entering the
  index computation through `⌊u·(k−1)⌋` (the model takes the floor function as a parameter);
* `y0` — the initial configuration `(DenseMatrix::Random + Ones)/2`;
* `sqrtO` — `sqrt`, any function with `0 ≤ sqrtO x ∧ sqrtO x * sqrtO x = x` (used by `norm()` and for `sqrt(2.0)`).

The loop is transcribed statement by statement; every vector access of the code is a checked access here and an
out-of-range index is the explicit error `Err.oob`; a division by zero (all input distances `0` in the global
strategy, `D + tolerance = 0`) is `Err.divzero` (the code would continue with `inf`/`nan`).
-/
namespace TapkeeVerif.Spe

inductive Err
  | oob       -- a vector would be indexed out of range (undefined behaviour in the code)
  | divzero   -- a division by zero (inf/nan in the code)
  deriving DecidableEq, Repr

/-! ## Sizes -/

/-- `while (nupdates > N / 2) nupdates = N / 2;` -/
def clampUpdates (N nup : Nat) : Nat := if nup > N / 2 then N / 2 else nup

/-- `floor(0.04 * N * N)` is evaluated in `double`: the model takes its value `fl` as an oracle.  Contract: the exact
    value `⌊N²/25⌋`, or one less when `N²/25` is an integer and the rounded product fell below it (first at
    `N = 205`: `0.04*205*205 = 1680.9999999999998`). -/
def defaultItersContract (N fl : Nat) : Bool :=
  fl == N * N / 25 || (N * N % 25 == 0 && fl + 1 == N * N / 25)

/-- `if (max_iter == 0) { max_iter = 2000 + floor(0.04*N*N); if (!global) max_iter *= 3; }` -/
def maxIter (_N req : Nat) (global : Bool) (fl : Nat) : Nat :=
  if req = 0 then
    let m := 2000 + fl
    if global then m else m * 3
  else req

/-- `k = neighbors[0].size()` in the local strategy, `0` in the global one -/
def kOf (global : Bool) (nb : List (List Nat)) : Except Err Nat :=
  if global then .ok 0 else
    match nb with
    | [] => .error .oob
    | l :: _ => .ok l.length

/-! ## Index bookkeeping (independent of the coordinates) -/

/-- `std::shuffle` with position permutation `π`: `new[i] = old[π[i]]` -/
def applyShuffle (π idx : List Nat) : List Nat := π.map fun p => idx.getD p 0

/-- the `k` entries `current_neighbors[0..k)` of `neighbors[i]` (checked accesses) -/
def neighborRow (nb : List (List Nat)) (k i : Nat) : Except Err (List Nat) :=
  match nb[i]? with
  | none => .error .oob
  | some row => if k ≤ row.length then .ok (row.take k) else .error .oob

/-- first loop of the local branch: `ind1Neighbors[kk + j*k] = neighbors[indices[j]][kk]`, `j < nup`, `kk < k`;
    the result is the flat array `ind1Neighbors` (length `k*nup`) -/
def gatherNeighbors (nb : List (List Nat)) (k : Nat) (idx : List Nat) : (todo j : Nat) → Except Err (List Nat)
  | 0, _ => .ok []
  | todo + 1, j =>
    match idx[j]? with
    | none => .error .oob
    | some i =>
      match neighborRow nb k i with
      | .error e => .error e
      | .ok row =>
        match gatherNeighbors nb k idx todo (j + 1) with
        | .error e => .error e
        | .ok rest => .ok (row ++ rest)

/-- second loop of the local branch:
    `r = floor(uniform_random()*(k-1)) + k*j;  indices[nupdates + j] = ind1Neighbors[r];`
    `fv c` is the value of `floor(u_c * (k-1))` for the `c`-th uniform draw -/
def overwriteLoop (k nup : Nat) (flat : List Nat) (fv : Nat → Int) (c0 : Nat) :
    (todo j : Nat) → List Nat → Except Err (List Nat)
  | 0, _, idx => .ok idx
  | todo + 1, j, idx =>
    let r : Int := fv (c0 + j) + ((k * j : Nat) : Int)
    if r < 0 then .error .oob else
      match flat[r.toNat]? with
      | none => .error .oob
      | some v =>
        if nup + j < idx.length then overwriteLoop k nup flat fv c0 todo (j + 1) (idx.set (nup + j) v)
        else .error .oob

/-- one iteration of the index bookkeeping: shuffle, then (local strategy) overwrite `indices[nup .. 2nup)` -/
def idxStep (global : Bool) (nb : List (List Nat)) (k nup : Nat) (π : List Nat) (fv : Nat → Int) (c0 : Nat)
    (idx : List Nat) : Except Err (List Nat) :=
  let idx1 := applyShuffle π idx
  if global then .ok idx1 else
    match gatherNeighbors nb k idx1 nup 0 with
    | .error e => .error e
    | .ok flat => overwriteLoop k nup flat fv c0 nup 0 idx1

/-- variant of the second loop that keeps the chosen partners in a vector of their own
    (`partners[j] = ind1Neighbors[r]`, the repair proposed for F-SPE-LOCAL): `indices` is only shuffled -/
def partnersLoop (k : Nat) (flat : List Nat) (fv : Nat → Int) (c0 : Nat) : (todo j : Nat) → Except Err (List Nat)
  | 0, _ => .ok []
  | todo + 1, j =>
    let r : Int := fv (c0 + j) + ((k * j : Nat) : Int)
    if r < 0 then .error .oob else
      match flat[r.toNat]? with
      | none => .error .oob
      | some v =>
        match partnersLoop k flat fv c0 todo (j + 1) with
        | .error e => .error e
        | .ok rest => .ok (v :: rest)

/-- `(*ind1, *ind2)` for `j < nup` when `ind2` walks over the separate `partners` vector -/
def pairsSep (idx partners : List Nat) : (todo j : Nat) → Except Err (List (Nat × Nat))
  | 0, _ => .ok []
  | todo + 1, j =>
    match idx[j]?, partners[j]? with
    | some a, some b =>
      match pairsSep idx partners todo (j + 1) with
      | .error e => .error e
      | .ok rest => .ok ((a, b) :: rest)
    | _, _ => .error .oob

/-- number of `uniform_random()` calls per iteration -/
def drawsPerIter (global : Bool) (nup : Nat) : Nat := if global then 0 else nup

/-- the index vector after the bookkeeping of iteration `t` (i.e. as used by the updates of iteration `t`),
    starting from `indices = [0, …, N-1]` -/
def indicesAt (global : Bool) (nb : List (List Nat)) (k N nup : Nat) (shuffle : Nat → List Nat) (fv : Nat → Int) :
    Nat → Except Err (List Nat)
  | 0 => idxStep global nb k nup (shuffle 0) fv 0 (List.range N)
  | t + 1 =>
    match indicesAt global nb k N nup shuffle fv t with
    | .error e => .error e
    | .ok idx => idxStep global nb k nup (shuffle (t + 1)) fv ((t + 1) * drawsPerIter global nup) idx

/-- `*ind1` / `*ind2` for `j < nup`: `ind1 = indices.begin()`, `ind2 = indices.begin() + nupdates` -/
def ind1 (idx : List Nat) (j : Nat) : Nat := idx.getD j 0
def ind2 (nup : Nat) (idx : List Nat) (j : Nat) : Nat := idx.getD (nup + j) 0

/-- the pairs `(ind1[j], ind2[j])`, `j < nup`, checked -/
def pairsOf (nup : Nat) (idx : List Nat) : (todo j : Nat) → Except Err (List (Nat × Nat))
  | 0, _ => .ok []
  | todo + 1, j =>
    match idx[j]?, idx[nup + j]? with
    | some a, some b =>
      match pairsOf nup idx todo (j + 1) with
      | .error e => .error e
      | .ok rest => .ok ((a, b) :: rest)
    | _, _ => .error .oob

/-- One iteration of the index bookkeeping for either shape of the local strategy, returning the new index vector
    and the pairs to update.  `inPlace = true`: the code as written at the pinned commit (partners overwrite
    `indices[nup .. 2nup)`); `inPlace = false`: partners in a separate vector.  Which one the working tree has is
    regenerated into `Gen/SpeVariant.lean` on every check. -/
def stepPairs (inPlace global : Bool) (nb : List (List Nat)) (k nup : Nat) (π : List Nat) (fv : Nat → Int) (c0 : Nat)
    (idx : List Nat) : Except Err (List Nat × List (Nat × Nat)) :=
  if inPlace || global then
    match idxStep global nb k nup π fv c0 idx with
    | .error e => .error e
    | .ok idx' =>
      match pairsOf nup idx' nup 0 with
      | .error e => .error e
      | .ok ps => .ok (idx', ps)
  else
    let idx1 := applyShuffle π idx
    match gatherNeighbors nb k idx1 nup 0 with
    | .error e => .error e
    | .ok flat =>
      match partnersLoop k flat fv c0 nup 0 with
      | .error e => .error e
      | .ok partners =>
        match pairsSep idx1 partners nup 0 with
        | .error e => .error e
        | .ok ps => .ok (idx1, ps)

/-- index vector and pairs of iteration `t` for either variant -/
def stepAt (inPlace global : Bool) (nb : List (List Nat)) (k N nup : Nat) (shuffle : Nat → List Nat)
    (fv : Nat → Int) : Nat → Except Err (List Nat × List (Nat × Nat))
  | 0 => stepPairs inPlace global nb k nup (shuffle 0) fv 0 (List.range N)
  | t + 1 =>
    match stepAt inPlace global nb k N nup shuffle fv t with
    | .error e => .error e
    | .ok (idx, _) => stepPairs inPlace global nb k nup (shuffle (t + 1)) fv ((t + 1) * drawsPerIter global nup) idx

/-! ## Coordinates -/
section coords
variable {K : Type} {d : Nat}

/-- a point is stored as first-order data (`Array K`, one entry per embedding coordinate) so that the native driver
    evaluates every coordinate once; `ptVec`/`vecPt` convert from/to the function vectors the algebra is stated on -/
def ptVec [Zero K] (p : Array K) : Vec d K := fun c => (p[c.1]?).getD 0
def vecPt (v : Vec d K) : Array K := Array.ofFn v

theorem ptVec_vecPt [Zero K] (v : Vec d K) : ptVec (vecPt v) = v := by
  funext c
  simp [ptVec, vecPt]

def vsub [Sub K] (a b : Vec d K) : Vec d K := fun c => a c - b c
def sqNorm [Add K] [Zero K] [Mul K] (v : Vec d K) : K := sumFin d fun c => v c * v c

/-- `D.array() += tolerance; scale = (Rt - D).cwiseQuotient(D)` for one entry -/
def scaleOf [Add K] [Sub K] [Div K] (R D tol : K) : K := (R - (D + tol)) / (D + tol)

/-- `Y.col(*ind1) += lambda / 2 * scale[j] * Yd.col(j)` -/
def moveI [Add K] [Mul K] [Div K] [NatCast K] (lam s : K) (y yd : Vec d K) : Vec d K :=
  fun c => y c + lam / ((2 : Nat) : K) * s * yd c
/-- `Y.col(*ind2) -= lambda / 2 * scale[j] * Yd.col(j)` -/
def moveJ [Sub K] [Mul K] [Div K] [NatCast K] (lam s : K) (y yd : Vec d K) : Vec d K :=
  fun c => y c - lam / ((2 : Nat) : K) * s * yd c

/-- the update of ONE pair as the code performs it, from the embedded distance `D` the sqrt oracle returned -/
def pairStep [Add K] [Sub K] [Mul K] [Div K] [NatCast K] (lam R D tol : K) (yi yj : Vec d K) : Vec d K × Vec d K :=
  let yd := vsub yi yj
  let s := scaleOf R D tol
  (moveI lam s yi yd, moveJ lam s yj yd)

/-- `lambda = lambda - (lambda / max_iter)` -/
def decay [Sub K] [Div K] [NatCast K] (lam : K) (maxIt : Nat) : K := lam - lam / (maxIt : K)

variable [Add K] [Sub K] [Mul K] [Div K] [Zero K] [One K] [NatCast K] [IntCast K] [DecidableEq K] [LT K]
  [DecidableLT K]

/-- the scan `max = std::max(max, callback.distance(i, j))` over `i < j`, from `max = 0.0` -/
def maxDist (N : Nat) (dist : Nat → Nat → K) : K :=
  (List.range N).foldl (fun m i =>
    ((List.range N).filter (fun j => i < j)).foldl (fun m j => if m < dist i j then dist i j else m) m) 0

/-- `alpha` in the global strategy; the factor `1` of `Rt.fill(1)` in the local one.
    `zeroGuard = false`: `alpha = 1.0 / max * sqrt(2.0)` — a division by zero (`inf`, then `inf * 0 = nan` everywhere)
    when all input distances vanish, modelled as `Err.divzero`;
    `zeroGuard = true` : `alpha = max > 0.0 ? 1.0 / max * sqrt(2.0) : 0.0` (repair F-SPE-ZERODIST).
    Which one the working tree has is regenerated into `Gen/SpeVariant.lean`. -/
def alphaOf (zeroGuard global : Bool) (N : Nat) (dist : Nat → Nat → K) (sqrtO : K → K) : Except Err K :=
  if global then
    let m := maxDist N dist
    if m = 0 then (if zeroGuard then .ok 0 else .error .divzero) else .ok (1 / m * sqrtO ((2 : Nat) : K))
  else .ok 1

/-- `D[j] = (Y.col(*ind1) - Y.col(*ind2)).norm()`, `Rt[j] = alpha * distance(ind1, ind2)`,
    `D += tolerance`, `scale = (Rt - D)/D`, `Yd.col(j) = Y.col(*ind1) - Y.col(*ind2)` — all from the configuration
    BEFORE any update of this iteration -/
def pairTerms (d : Nat) (Y : Array (Array K)) (dist : Nat → Nat → K) (sqrtO : K → K) (alpha tol : K) :
    List (Nat × Nat) → Except Err (List (K × Array K))
  | [] => .ok []
  | (a, b) :: ps =>
    match Y[a]?, Y[b]? with
    | some ya, some yb =>
      let yd : Array K := vecPt (vsub (ptVec (d := d) ya) (ptVec yb))
      let D := sqrtO (sqNorm (ptVec (d := d) yd))
      let R := alpha * dist a b
      if D + tol = 0 then .error .divzero else
        match pairTerms d Y dist sqrtO alpha tol ps with
        | .error e => .error e
        | .ok rest => .ok ((scaleOf R D tol, yd) :: rest)
    | _, _ => .error .oob

/-- the sequential update loop over the pairs -/
def applyMoves (d : Nat) (lam : K) : List (Nat × Nat) → List (K × Array K) → Array (Array K) → Array (Array K)
  | (a, b) :: ps, (s, yd) :: ts, Y =>
    let Y1 := Y.modify a fun y => vecPt (moveI lam s (ptVec (d := d) y) (ptVec yd))
    let Y2 := Y1.modify b fun y => vecPt (moveJ lam s (ptVec (d := d) y) (ptVec yd))
    applyMoves d lam ps ts Y2
  | _, _, Y => Y

/-- the configuration-side of one iteration for the given pairs -/
def coordStep (d : Nat) (Y : Array (Array K)) (dist : Nat → Nat → K) (sqrtO : K → K) (alpha tol lam : K)
    (ps : List (Nat × Nat)) : Except Err (Array (Array K)) :=
  match pairTerms d Y dist sqrtO alpha tol ps with
  | .error e => .error e
  | .ok ts => .ok (applyMoves d lam ps ts Y)

/-- everything the loop carries from one iteration to the next -/
structure State (K : Type) where
  idx : List Nat
  Y : Array (Array K)              -- one array of `d` coordinates per point
  lam : K
  draws : Nat                      -- uniform_random() calls so far
  trace : List (List (Nat × Nat))  -- pairs evaluated, most recent iteration first (observable through the callback)

structure Input (K : Type) where
  N : Nat
  d : Nat
  inPlace : Bool                   -- shape of the local strategy in the working tree (`Gen.spePartnersInPlace`)
  zeroGuard : Bool                 -- `alpha` guarded against a vanishing maximum distance (`Gen.speAlphaZeroGuard`)
  global : Bool
  nb : List (List Nat)
  nupReq : Nat
  maxIterReq : Nat
  tol : K
  dist : Nat → Nat → K
  y0 : Array (Array K)
  shuffle : Nat → List Nat
  unif : Nat → K
  sqrtO : K → K
  floorO : K → Int
  fl004 : Nat                      -- the value of `floor(0.04*N*N)` (double arithmetic; `defaultItersContract`)

/-- `floor(uniform_random() * (k - 1))` for the `c`-th draw (`k - 1` is computed in `int`) -/
def floorPick (inp : Input K) (k : Nat) (c : Nat) : Int :=
  inp.floorO (inp.unif c * ((((k : Int) - 1 : Int)) : K))

/-- one full iteration `t` -/
def iterate (inp : Input K) (k nup maxIt : Nat) (alpha : K) (t : Nat) (s : State K) : Except Err (State K) :=
  match stepPairs inp.inPlace inp.global inp.nb k nup (inp.shuffle t) (floorPick inp k) s.draws s.idx with
  | .error e => .error e
  | .ok (idx, ps) =>
    match coordStep inp.d s.Y inp.dist inp.sqrtO alpha inp.tol s.lam ps with
    | .error e => .error e
    | .ok Y => .ok { idx := idx, Y := Y, lam := decay s.lam maxIt,
                     draws := s.draws + drawsPerIter inp.global nup, trace := ps :: s.trace }

def loop (inp : Input K) (k nup maxIt : Nat) (alpha : K) : (todo t : Nat) → State K → Except Err (State K)
  | 0, _, s => .ok s
  | todo + 1, t, s =>
    match iterate inp k nup maxIt alpha t s with
    | .error e => .error e
    | .ok s' => loop inp k nup maxIt alpha todo (t + 1) s'

/-- `spe_embedding` -/
def run (inp : Input K) : Except Err (State K) :=
  match kOf inp.global inp.nb with
  | .error e => .error e
  | .ok k =>
    let nup := clampUpdates inp.N inp.nupReq
    match alphaOf inp.zeroGuard inp.global inp.N inp.dist inp.sqrtO with
    | .error e => .error e
    | .ok alpha =>
      let maxIt := maxIter inp.N inp.maxIterReq inp.global inp.fl004
      loop inp k nup maxIt alpha maxIt 0
        { idx := List.range inp.N, Y := inp.y0, lam := 1, draws := 0, trace := [] }

end coords
end TapkeeVerif.Spe
