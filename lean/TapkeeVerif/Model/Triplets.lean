import TapkeeVerif.Model.Mat
/-
Sparse-triplet assembly (`utils/sparse.hpp: sparse_matrix_from_triplets`, i.e.
`Eigen::SparseMatrix::setFromTriplets`): the matrix whose entry `(i,j)` is the **sum of all
triplets** with that position.  Core Lean only.

* `fromTriplets`     – the defining form (entry = sum over the list of the matching values);
* `fromTripletsArr`  – the accumulating form the drivers run (one pass, `+=` into a zero array,
                       which is literally what the C++ does); `Proofs/Triplets.lean` proves the two equal.
* `vecFromPairs`     – the same for a vector (`D(i) += h`).
-/
namespace TapkeeVerif

abbrev Triplet (n m : Nat) (K : Type) := Fin n × Fin m × K

section
variable {K : Type} {n m : Nat}

/-- entry `(i,j)` = sum of the values of all triplets `(i,j,·)` (duplicates are summed) -/
def fromTriplets [Add K] [Zero K] (ts : List (Triplet n m K)) : Mat n m K :=
  fun i j => (ts.map fun t => if t.1 = i ∧ t.2.1 = j then t.2.2 else 0).sum

/-- `acc(r,c) += v` on an array of rows -/
def accumStep [Add K] (acc : Array (Array K)) (t : Triplet n m K) : Array (Array K) :=
  acc.modify t.1.1 fun row => row.modify t.2.1.1 (· + t.2.2)

def readArr [Zero K] (arr : Array (Array K)) (i j : Nat) : K :=
  match arr[i]? with
  | none => 0
  | some row => (row[j]?).getD 0

/-- one pass over the triplets, `+=` into a zero matrix -/
def fromTripletsArr [Add K] [Zero K] (ts : List (Triplet n m K)) : Mat n m K :=
  let arr := ts.foldl accumStep (Array.replicate n (Array.replicate m (0 : K)))
  fun i j => readArr arr i.1 j.1

/-- `D(i) += v` for every pair `(i, v)`, starting from the zero vector -/
def vecFromPairs [Add K] [Zero K] (ps : List (Fin n × K)) : Vec n K :=
  fun i => (ps.map fun p => if p.1 = i then p.2 else 0).sum

def vecFromPairsArr [Add K] [Zero K] (ps : List (Fin n × K)) : Vec n K :=
  let arr := ps.foldl (fun (acc : Array K) p => acc.modify p.1.1 (· + p.2)) (Array.replicate n (0 : K))
  fun i => (arr[i.1]?).getD 0

/-- `rows.flatMap f` over all `i : Fin n` in increasing order (the sample loop) -/
def overFin (n : Nat) {α : Type} (f : Fin n → List α) : List α := (List.finRange n).flatMap f

end
end TapkeeVerif
