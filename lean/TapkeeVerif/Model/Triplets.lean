import TapkeeVerif.Model.Mat
import TapkeeVerif.Model.DMat
/-
Sparse-triplet assembly (`utils/sparse.hpp: sparse_matrix_from_triplets`, i.e.
`Eigen::SparseMatrix::setFromTriplets`): the matrix whose entry `(i,j)` is the **sum of all
triplets** with that position.  Core Lean only.

* `fromTriplets`     – the defining form (entry = sum over the list of the matching values);
* `fromTripletsD`    – the accumulating form the drivers run (one pass, `+=` into a zero array, which is
                       literally what the C++ does), returned as first-order data (`DMat`, see `Model/DMat.lean`:
                       function-valued definitions do not cache in compiled code);
                       `Proofs/Triplets.lean` proves `(fromTripletsD ts).get = fromTriplets ts`.
* `vecFromPairs`     – the same for a vector (`D(i) += h`).
-/
namespace TapkeeVerif

abbrev Triplet (n m : Nat) (K : Type) := Fin n × Fin m × K

section
variable {K : Type} {n m : Nat}

/-- entry `(i,j)` = sum of the values of all triplets `(i,j,·)` (duplicates are summed) -/
def fromTriplets [Add K] [Zero K] (ts : List (Triplet n m K)) : Mat n m K :=
  fun i j => (ts.map fun t => if t.1 = i ∧ t.2.1 = j then t.2.2 else 0).sum

/-- `acc(r,c) += v` on an array of rows -/
def accumStep [Add K] (acc : Array (Array K)) (t : Triplet n m K) : Array (Array K) :=
  acc.modify t.1.1 fun row => row.modify t.2.1.1 (· + t.2.2)

/-- one pass over the triplets, `+=` into a zero matrix -/
def fromTripletsD [Add K] [Zero K] (ts : List (Triplet n m K)) : DMat n m K :=
  ⟨ts.foldl accumStep (Array.replicate n (Array.replicate m (0 : K)))⟩

/-- `D(i) += v` for every pair `(i, v)`, starting from the zero vector -/
def vecFromPairs [Add K] [Zero K] (ps : List (Fin n × K)) : Vec n K :=
  fun i => (ps.map fun p => if p.1 = i then p.2 else 0).sum

def vecFromPairsD [Add K] [Zero K] (ps : List (Fin n × K)) : DVec n K :=
  ⟨ps.foldl (fun (acc : Array K) p => acc.modify p.1.1 (· + p.2)) (Array.replicate n (0 : K))⟩

/-- `rows.flatMap f` over all `i : Fin n` in increasing order (the sample loop) -/
def overFin (n : Nat) {α : Type} (f : Fin n → List α) : List α := (List.finRange n).flatMap f

end
end TapkeeVerif
