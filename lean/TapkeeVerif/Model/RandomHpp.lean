/-!
Model of `defines/random.hpp` (default paths, no `CUSTOM_*` macro), core Lean only.  `std::rand()` is an INPUT stream
`rand : Nat → Nat` (contract `rand c ≤ RAND_MAX`); `sqrt` and `log` are oracles.

* `uniform_random()              = rand() / ((double)RAND_MAX + 1)`
* `uniform_random_index_bounded(u) = rand() % u`
* `gaussian_random()`: Marsaglia's polar method —
  `do { x = 2u₀−1; y = 2u₁−1; radius = x² + y²; } while (radius >= 1.0 || radius == 0.0);`
  `return x * sqrt(-2 * log(radius) / radius);`
  The rejection loop is modelled with fuel (`none` = fuel exhausted; a stream that never offers an acceptable pair makes
  the real loop spin for ever — `polarLoop_terminates` says this is the only way to exhaust the fuel).
-/
namespace TapkeeVerif.RandomHpp

/-- glibc's `RAND_MAX` -/
def randMax : Nat := 2147483647

section
variable {K : Type} [Add K] [Sub K] [Mul K] [Div K] [Neg K] [NatCast K] [Zero K] [One K] [DecidableEq K] [LE K]
  [DecidableLE K]

/-- `std::rand() / ((double)RAND_MAX + 1)` -/
def uniformRandom (r : Nat) : K := (r : K) / ((randMax : K) + 1)

/-- `2 * (std::rand() / ((double)RAND_MAX + 1)) - 1` -/
def toUnit (r : Nat) : K := ((2 : Nat) : K) * uniformRandom r - 1

/-- the rejection loop from draw `c` on: the accepted `x`, its `radius`, and the index of the next unused draw -/
def polarLoop (rand : Nat → Nat) : (fuel c : Nat) → Option (K × K × Nat)
  | 0, _ => none
  | fuel + 1, c =>
    let x : K := toUnit (rand c)
    let y : K := toUnit (rand (c + 1))
    let radius : K := x * x + y * y
    if 1 ≤ radius ∨ radius = 0 then polarLoop rand fuel (c + 2) else some (x, radius, c + 2)

/-- `gaussian_random()`: value and index of the next unused draw -/
def gaussianRandom (rand : Nat → Nat) (sqrtO logO : K → K) (fuel c : Nat) : Option (K × Nat) :=
  match polarLoop (K := K) rand fuel c with
  | none => none
  | some (x, radius, c') => some (x * sqrtO (-(((2 : Nat) : K)) * logO radius / radius), c')

end

/-- `uniform_random_index_bounded(upper)` (`rand() % upper`) -/
def uniformIndexBounded (r upper : Nat) : Nat := r % upper

end TapkeeVerif.RandomHpp
