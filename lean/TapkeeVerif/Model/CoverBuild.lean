import TapkeeVerif.Model.CoverTree
/-
Model of the cover tree *batch construction* of `include/tapkee/neighbors/covertree.hpp`
(`batch_create` → `batch_insert`, `split`, `dist_split`, `max_set`, `set_leaf_scale`, with `new_leaf` / `new_node` of
`covertree/structures.hpp` and `v_array` / `pop` of `covertree_point.hpp`), statement by statement, into the tree type
`CoverTree.CNode` the query model (`Model/CoverTree.lean`) runs on.  Code as of the repairs F-COVER-ZERO (e2bbcb6:
`max_dist == 0.` tested directly), F-COVER-SCALE (e30d89e: `leaf_scale`, `set_leaf_scale`) and F-COVER-TOP (7615484:
the top scale is raised until `dist_of_scale(top_scale) >= max_dist`).  Core Lean only.

* points are sample indices, `δ a b` is `distance(dcb, a, b, ·)`;
* `get_scale(d) = (int)ceil(il2 * log(d))` and `dist_of_scale(s) = pow(base, s)` are floating-point functions: they
  are PARAMETERS `getScale : K → Int`, `distOfScale : Int → K` of the model (the driver feeds the values the real code
  computes, printed by the harness).  The theorems (`Props/C02.lean`) need of them only `0 ≤ distOfScale s`
  (well-formedness) and that `distOfScale` eventually exceeds / falls below the distances that occur (termination);
* a `v_array<T>` is the list of its live elements `elements[0..index)` in index order (`last()` = last entry, `decr()` =
  drop it, `push` = append); the `dist` stack of a `ds_node` is kept head-first (`dist.last()` = head);
  arrays have value semantics here as in the C++ (`std::vector` members are copied);
* `stack` (the pool of spare arrays, top = head) is modelled as is: `pop` of an empty pool is a fresh empty array;
* reading `last()` of / `decr()` on an empty array is undefined behaviour in the C++: error state `none`;
  a negative `top_scale - max_scale` (not representable in the query model's `scale : Nat`) is an error state too;
* recursion depth is bounded by `fuel`, the `while (size(point_set) != 0)` loop by its own counter
  (`|point_set| + |far|`, which every iteration decreases), the loop raising the top scale by `fuel` again;
  `none` when one of them runs out
  (`Proofs/CoverBuildFuel.lean`: it does not, given enough `fuel`);
* width abstractions: `int` scales are `Int`, `short scale` / `unsigned short num_children` are unbounded `Nat`
  (|scale| < 5600 for doubles; `num_children < 65536` is an assumption of the tie).
-/
namespace TapkeeVerif.CoverBuild
open TapkeeVerif.CoverTree

variable {K : Type}

/-- `ds_node<P>`: a sample with its stack of distances to the points of the enclosing `batch_insert` frames
    (`dist.last()` = head) -/
structure DS (K : Type) where
  dist : List K
  p : Nat

/-- `new_leaf(p)` = `node(p, 0., 0., {}, 0, 100)` -/
def newLeaf [Zero K] (p : Nat) : CNode K := .mk p 0 0 100 []

/-- `n.parent_dist = d` -/
def setParentDist (d : K) : CNode K → CNode K
  | .mk p m _ s cs => .mk p m d s cs

/-- `pop(stack)` -/
def pop {α : Type} : List (List α) → List α × List (List α)
  | [] => ([], [])
  | a :: r => (a, r)

section
variable [Zero K] [LT K] [DecidableLT K] [LE K] [DecidableLE K]

/-- `max_set(v)`: `max = 0; for i: if (max < v[i].dist.last()) max = v[i].dist.last()` -/
def maxSetFrom : K → List (DS K) → Option K
  | m, [] => some m
  | m, e :: r =>
    match e.dist with
    | [] => none
    | d :: _ => maxSetFrom (if m < d then d else m) r

def maxSet (v : List (DS K)) : Option K := maxSetFrom 0 v

/-- `split(point_set, far_set, max_scale)` with `fmax = dist_of_scale(max_scale)`:
    returns (what stays in `point_set`, what is pushed to `far_set`), both in index order -/
def split (fmax : K) : List (DS K) → Option (List (DS K) × List (DS K))
  | [] => some ([], [])
  | e :: r =>
    match e.dist, split fmax r with
    | d :: _, some (keep, far) => if d ≤ fmax then some (e :: keep, far) else some (keep, e :: far)
    | _, _ => none

/-- `dist_split(dcb, point_set, new_point_set, new_point, max_scale)`:
    returns (what is pushed to `new_point_set` — with the new distance pushed on its `dist` —, what stays) -/
def distSplit (δ : Nat → Nat → K) (fmax : K) (q : Nat) : List (DS K) → List (DS K) × List (DS K)
  | [] => ([], [])
  | e :: r =>
    let (mv, keep) := distSplit δ fmax q r
    let d := δ q e.p
    if d ≤ fmax then (⟨d :: e.dist, e.p⟩ :: mv, keep) else (mv, e :: keep)

/-- `for i: new_point_set[i].dist.decr(); if (new_point_set[i].dist.last() <= fmax) push(point_set, ·) else push(far, ·)`:
    returns (pushed to `point_set`, pushed to `far`) -/
def unsplit (fmax : K) : List (DS K) → Option (List (DS K) × List (DS K))
  | [] => some ([], [])
  | e :: r =>
    match e.dist, unsplit fmax r with
    | _ :: d :: rest, some (toPS, toFar) =>
      if d ≤ fmax then some (⟨d :: rest, e.p⟩ :: toPS, toFar) else some (toPS, ⟨d :: rest, e.p⟩ :: toFar)
    | _, _ => none

/-- `for i: new_consumed_set[i].dist.decr(); push(consumed_set, new_consumed_set[i])` -/
def decrAll : List (DS K) → Option (List (DS K))
  | [] => some []
  | e :: r =>
    match e.dist, decrAll r with
    | _ :: rest, some cs => some (⟨rest, e.p⟩ :: cs)
    | _, _ => none

/-- what `batch_insert` returns and leaves in its reference arguments / the member `leaf_scale` -/
structure BRes (K : Type) where
  node : CNode K
  pointSet : List (DS K)
  consumed : List (DS K)
  stack : List (List (DS K))
  leafScale : Nat

/-- the variables of the loop `while (size(point_set) != 0)` of `batch_insert` -/
structure LoopSt (K : Type) where
  pointSet : List (DS K)
  far : List (DS K)
  consumed : List (DS K)
  newPS : List (DS K)
  newCS : List (DS K)
  children : List (CNode K)
  stack : List (List (DS K))
  leafScale : Nat

/-- one iteration of the loop `while (size(point_set) != 0)` with `e = point_set.last()`;
    `ins q new_point_set new_consumed_set stack leaf_scale` is the recursive call
    `batch_insert(dcb, q, next_scale, top_scale, new_point_set, new_consumed_set, stack)` -/
def loopStep (δ : Nat → Nat → K) (fmax : K)
    (ins : Nat → List (DS K) → List (DS K) → List (List (DS K)) → Nat → Option (BRes K))
    (st : LoopSt K) (e : DS K) : Option (LoopSt K) :=
  match e.dist with
  | [] => none                                                    -- point_set.last().dist.last()
  | newDist :: _ =>
    let consumed := st.consumed ++ [e]                            -- push(consumed_set, point_set.last())
    let ps := st.pointSet.dropLast                                -- point_set.decr()
    let s1 := distSplit δ fmax e.p ps                             -- dist_split(dcb, point_set, new_point_set, ..)
    let s2 := distSplit δ fmax e.p st.far                         -- dist_split(dcb, far, new_point_set, ..)
    match ins e.p (st.newPS ++ s1.1 ++ s2.1) st.newCS st.stack st.leafScale with
    | none => none
    | some r =>
      let child := setParentDist newDist r.node                   -- new_child.parent_dist = new_dist
      match unsplit fmax r.pointSet, decrAll r.consumed with
      | some (toPS, toFar), some cs =>
        some { pointSet := s1.2 ++ toPS, far := s2.2 ++ toFar, consumed := consumed ++ cs,
               newPS := [], newCS := [],                          -- resize(.., 0)
               children := st.children ++ [child], stack := r.stack, leafScale := r.leafScale }
      | _, _ => none

/-- the loop `while (size(point_set) != 0)` -/
def childLoop (δ : Nat → Nat → K) (fmax : K)
    (ins : Nat → List (DS K) → List (DS K) → List (List (DS K)) → Nat → Option (BRes K)) :
    Nat → LoopSt K → Option (LoopSt K)
  | cnt, st =>
    match st.pointSet.getLast? with
    | none => some st
    | some e =>
      match cnt with
      | 0 => none
      | cnt + 1 =>
        match loopStep δ fmax ins st e with
        | none => none
        | some st' => childLoop δ fmax ins cnt st'

/-- the end of `batch_insert` after the loop: the arrays go back to the pool, `point_set = far`, the node is filled in -/
def finishNode (p : Nat) (maxScale topScale : Int) (st : LoopSt K) : Option (BRes K) :=
  let sc := topScale - maxScale
  if sc < 0 then none
  else
    let scale := sc.toNat                                         -- n.scale = top_scale - max_scale
    let ls' := if st.leafScale ≤ scale then scale + 1 else st.leafScale
    match maxSet st.consumed with                                 -- n.max_dist = max_set(consumed_set)
    | none => none
    | some md =>
      some ⟨.mk p md 0 scale st.children, st.far, st.consumed, st.pointSet :: st.newCS :: st.newPS :: st.stack, ls'⟩

variable [DecidableEq K]

/-- `batch_insert(dcb, p, max_scale, top_scale, point_set, consumed_set, stack)` (`ls` = the member `leaf_scale`) -/
def batchInsert (δ : Nat → Nat → K) (getScale : K → Int) (distOfScale : Int → K) :
    Nat → Nat → Int → Int → List (DS K) → List (DS K) → List (List (DS K)) → Nat → Option (BRes K)
  | 0, _, _, _, _, _, _, _ => none
  | fuel + 1, p, maxScale, topScale, ps, cs, stack, ls =>
    if ps.isEmpty then some ⟨newLeaf p, ps, cs, stack, ls⟩
    else
      match maxSet ps with
      | none => none
      | some maxDist =>
        if maxDist = 0 then
          -- children = new_leaf(p), then new_leaf(point_set.last().p) while the set is emptied from its end
          some ⟨.mk p 0 0 100 (newLeaf p :: ps.reverse.map fun e => newLeaf e.p), [], cs ++ ps.reverse, stack, ls⟩
        else
          let nextScale := min (maxScale - 1) (getScale maxDist)
          match split (distOfScale maxScale) ps with               -- far = pop(stack); split(point_set, far, max_scale)
          | none => none
          | some (ps1, farNew) =>
            let far := (pop stack).1 ++ farNew
            match batchInsert δ getScale distOfScale fuel p nextScale topScale ps1 cs (pop stack).2 ls with
            | none => none
            | some r =>
              if r.pointSet.isEmpty then
                some ⟨r.node, far, r.consumed, r.pointSet :: r.stack, r.leafScale⟩
              else
                let nps := pop r.stack                             -- new_point_set = pop(stack)
                let ncs := pop nps.2                               -- new_consumed_set = pop(stack)
                match childLoop δ (distOfScale maxScale)
                    (fun q a b s l => batchInsert δ getScale distOfScale fuel q nextScale topScale a b s l)
                    (r.pointSet.length + far.length)
                    ⟨r.pointSet, far, r.consumed, nps.1, ncs.1, [r.node], ncs.2, r.leafScale⟩ with
                | none => none
                | some st => finishNode p maxScale topScale st

mutual
/-- `set_leaf_scale(n, leaf_scale)` -/
def setLeafScale (ls : Nat) : CNode K → CNode K
  | .mk p m d s cs => .mk p m d (if cs.isEmpty || decide (m = 0) then ls else s) (setLeafScaleL ls cs)
def setLeafScaleL (ls : Nat) : List (CNode K) → List (CNode K)
  | [] => []
  | c :: rest => setLeafScale ls c :: setLeafScaleL ls rest
end

/-- `while (dist_of_scale(top_scale) < max_dist) top_scale++;` (at most `cnt` increments) -/
def raiseTop (distOfScale : Int → K) (maxDist : K) : Nat → Int → Option Int
  | cnt, s =>
    if distOfScale s < maxDist then
      match cnt with
      | 0 => none
      | cnt + 1 => raiseTop distOfScale maxDist cnt (s + 1)
    else some s

/-- `batch_create(dcb, points)`; returns the tree and the member `leaf_scale` the query then uses -/
def batchCreate (δ : Nat → Nat → K) (getScale : K → Int) (distOfScale : Int → K) (fuel : Nat) (pts : List Nat) :
    Option (CNode K × Nat) :=
  match pts with
  | [] => none                                                     -- assert(size(points) > 0)
  | p0 :: rest =>
    let ps : List (DS K) := rest.map fun x => ⟨[δ p0 x], x⟩
    match maxSet ps with
    | none => none
    | some maxDist =>
      match raiseTop distOfScale maxDist fuel (getScale maxDist) with   -- int top_scale = get_scale(max_dist); while ..
      | none => none
      | some topScale =>
        match batchInsert δ getScale distOfScale fuel p0 topScale topScale ps [] [] 100 with
        | none => none
        | some r => some (if 100 < r.leafScale then setLeafScale r.leafScale r.node else r.node, r.leafScale)

end

end TapkeeVerif.CoverBuild
