import TapkeeVerif.Model.Dijkstra
/-!
What property C04 says about `compute_shortest_distances_matrix`, independently of how it is computed:

* `Edge`, `Walk`, `IsGeodesic` – the neighbourhood graph (an edge from each sample to each of its
  `n_neighbors` neighbours, weighted by the distance callback), directed walks with their lengths, and
  "`o` is the length of a shortest walk from `s` to `v`, `none` iff there is none";
* `isShortestPathMatrix` – the decidable oracle run on the implementation's output: Floyd–Warshall over
  `Option K` (`none` = +∞) followed by a certificate check of its own result (zero diagonal, closed under
  every edge).  `Props/C04.lean` proves that the oracle accepts only the matrix of `IsGeodesic` values
  (`isShortestPathMatrix_sound`, no assumption on the weights) and that the model's output is that
  matrix (`dijkstra_exact`).

Core Lean only (the oracle is compiled into the driver).
-/
namespace TapkeeVerif.Dijkstra

section Spec
variable {K : Type}

/-- directed edge `u → x`: `x = neighbors[u][i]` for some `i < n_neighbors` -/
def Edge (P : Problem K) (k : Nat) (u x : Nat) : Prop :=
  u < P.N ∧ x < P.N ∧ ∃ i, i < k ∧ P.nbr u i = some x

/-- `Walk P k s v d`: there is a directed walk from `s` to `v` whose weights sum to `d` -/
inductive Walk [Add K] [Zero K] (P : Problem K) (k : Nat) (s : Nat) : Nat → K → Prop where
  | nil : s < P.N → Walk P k s s 0
  | snoc {u x : Nat} {d : K} : Walk P k s u d → Edge P k u x → Walk P k s x (d + P.w u x)

/-- `o` is the geodesic distance from `s` to `v`: the least walk length, `none` iff `v` is unreachable -/
def IsGeodesic [Add K] [Zero K] [LE K] (P : Problem K) (k : Nat) (s v : Nat) : Option K → Prop
  | some d => Walk P k s v d ∧ ∀ d', Walk P k s v d' → d ≤ d'
  | none => ∀ d', ¬ Walk P k s v d'

/-- the neighbour lists are usable by the code: `N` lists, each with at least `k` entries, entries `< N`
    ("uniform lists": `k = neighbors[0].size()` is taken for every vertex) -/
def WF (P : Problem K) (k : Nat) : Prop :=
  ∀ u, u < P.N → ∀ i, i < k → ∃ x, P.nbr u i = some x ∧ x < P.N

end Spec

section Oracle
variable {K : Type}

/-- a matrix of extended distances, as printed by the harness / computed by the oracle -/
abbrev Tab (K : Type) := Array (Array (Option K))

/-- entry `(i, j)`; `none` also outside the table -/
def Tab.get (D : Tab K) (i j : Nat) : Option K := ((D[i]?).bind (·[j]?)).join

def minE [LT K] [DecidableLT K] : Option K → Option K → Option K
  | none, b => b
  | some x, none => some x
  | some x, some y => if y < x then some y else some x

def addE [Add K] : Option K → Option K → Option K
  | some a, some b => some (a + b)
  | _, _ => none

/-- heads of the edges leaving `u` -/
def targets (P : Problem K) (k : Nat) (u : Nat) : List Nat := (List.range k).filterMap (P.nbr u)

variable [Add K] [Zero K] [LT K] [DecidableLT K]

def fwInit (P : Problem K) (k : Nat) : Tab K :=
  Array.ofFn (n := P.N) fun i => Array.ofFn (n := P.N) fun j =>
    minE (if i.1 = j.1 then some 0 else none)
         (if (targets P k i.1).contains j.1 then some (P.w i.1 j.1) else none)

/-- allow `t` as an intermediate vertex -/
def fwStep (N : Nat) (D : Tab K) (t : Nat) : Tab K :=
  Array.ofFn (n := N) fun i => Array.ofFn (n := N) fun j =>
    minE (D.get i.1 j.1) (addE (D.get i.1 t) (D.get t j.1))

/-- Floyd–Warshall -/
def fw (P : Problem K) (k : Nat) : Tab K := (List.range P.N).foldl (fwStep P.N) (fwInit P k)

def tabEq [DecidableEq K] (n m : Nat) (A B : Tab K) : Bool :=
  (List.range n).all fun i => (List.range m).all fun j => A.get i j == B.get i j

def diagZero [DecidableEq K] (N : Nat) (R : Tab K) : Bool :=
  (List.range N).all fun i => R.get i i == some 0

/-- `R s x ≤ R s u + w u x` for every source `s` and every edge `u → x` (with +∞ conventions) -/
def edgeClosed (P : Problem K) (k : Nat) (R : Tab K) : Bool :=
  (List.range P.N).all fun s => (List.range P.N).all fun u =>
    match R.get s u with
    | none => true
    | some du => (targets P k u).all fun x =>
      match R.get s x with
      | none => false
      | some dx => !(decide (du + P.w u x < dx))

/-- the oracle of property C04: `D` is the matrix of shortest-path lengths of the graph `(P, k)` -/
def isShortestPathMatrix [DecidableEq K] (P : Problem K) (k : Nat) (D : Tab K) : Bool :=
  let R := fw P k
  tabEq P.N P.N D R && diagZero P.N R && edgeClosed P k R

/-- rows of the landmark matrix equal the corresponding rows of the full matrix -/
def landmarkRowsAgree [DecidableEq K] (N : Nat) (lm : List Nat) (L D : Tab K) : Bool :=
  lm.zipIdx.all fun (l, r) => (List.range N).all fun j => L.get r j == D.get l j

/-- `w` satisfies the triangle inequality and vanishes on the diagonal (then "never below the direct
    distance" is a consequence of being shortest-path lengths) -/
def isMetric (N : Nat) (w : Nat → Nat → K) : Bool :=
  (List.range N).all fun i => (!(decide (w i i < 0)) && !(decide (0 < w i i))) &&
    (List.range N).all fun j => (List.range N).all fun l => !(decide (w i j + w j l < w i l))

/-- no entry is below the direct distance -/
def geDirect (N : Nat) (w : Nat → Nat → K) (D : Tab K) : Bool :=
  (List.range N).all fun i => (List.range N).all fun j =>
    match D.get i j with
    | none => true
    | some d => !(decide (d < w i j))

end Oracle

end TapkeeVerif.Dijkstra
