import TapkeeVerif.Model.Mat
/-!
C12 — the small, pure stages through which every deterministic method of tapkee sees the data, transcribed
from the source, together with the *relabelling* operations under which they are equivariant.
Core Lean only: the same terms run at `K := Rat` in `Driver/C12.lean` and are the subjects of the theorems in
`Props/C12.lean` (any ordered field, through `Proofs/MatBridge.lean`).

| definition            | source                                                                            |
|-----------------------|-----------------------------------------------------------------------------------|
| `sqDistMatrix`        | `routines/multidimensional_scaling.hpp` `compute_distance_matrix` (j ≥ i, mirrored, `d *= d`) |
| `centerMatrix`        | `utils/matrix.hpp` `centerMatrix` (column means on both sides, + grand mean)      |
| `mdsPre`              | `methods/multidimensional_scaling.hpp` `embed()` : centre, `*= -0.5`              |
| `gram` / `kpcaPre`    | `routines/pca.hpp` `compute_centered_kernel_matrix` with the linear kernel callback |
| `fromTriplets`        | `utils/sparse.hpp` `sparse_matrix_from_triplets` (Eigen `setFromTriplets`: duplicates are summed) |
| `connectedCode`       | `neighbors/connected.hpp` `is_connected` (DFS from sample 0 along the edges and along the reversed edges) |
-/
namespace TapkeeVerif.Equivariance
open TapkeeVerif

variable {K : Type}

/-! ### relabelling -/

/-- the matrix seen after the samples have been re-ordered by `p` (new sample `i` is old sample `p i`) -/
def relabel {n : Nat} (p : Fin n → Fin n) (A : Mat n n K) : Mat n n K := fun i j => A (p i) (p j)

/-- rows of an embedding / a data matrix re-ordered by `p` -/
def permRows {n d : Nat} (p : Fin n → Fin n) (Y : Mat n d K) : Mat n d K := fun i c => Y (p i) c

/-- a pairwise callback (distance or kernel) after the samples have been re-ordered by `p` -/
def relabelFn {n : Nat} (p : Fin n → Fin n) (δ : Fin n → Fin n → K) : Fin n → Fin n → K :=
  fun i j => δ (p i) (p j)

/-! ### squared distances (MDS) -/

/-- `compute_distance_matrix`: the callback is evaluated for `j ≥ i` only and mirrored; `d *= d` -/
def sqDistMatrix [Mul K] {n : Nat} (δ : Fin n → Fin n → K) : Mat n n K :=
  fun i j => if i.1 ≤ j.1 then δ i j * δ i j else δ j i * δ j i

/-! ### double centring exactly as `utils/matrix.hpp` does it -/

/-- `matrix.colwise().mean()` : mean of column `j` -/
def colMean [Add K] [Zero K] [Div K] [NatCast K] {n m : Nat} (A : Mat n m K) (j : Fin m) : K :=
  (sumFin n fun i => A i j) / (n : K)

/-- `matrix.mean()` : sum of all coefficients divided by their number -/
def grandMean [Add K] [Zero K] [Div K] [NatCast K] [Mul K] {n m : Nat} (A : Mat n m K) : K :=
  (sumFin n fun i => sumFin m fun j => A i j) / ((n : K) * (m : K))

/-- `A i j + g - cm j - cm i` for given column means `cm` and grand mean `g` (the drivers pass tabulated means) -/
def centerWith [Add K] [Sub K] {n : Nat} (cm : Vec n K) (g : K) (A : Mat n n K) : Mat n n K :=
  fun i j => A i j + g - cm j - cm i

/-- `centerMatrix`: `+= grand_mean; rowwise -= col_meansᵀ; colwise -= col_means`
    (NB: the *column* means are subtracted on both sides, also for a non-symmetric argument) -/
def centerMatrix [Add K] [Sub K] [Zero K] [Div K] [NatCast K] [Mul K] {n : Nat} (A : Mat n n K) : Mat n n K :=
  centerWith (colMean A) (grandMean A) A

/-- the constant `-0.5` -/
def negHalf [Neg K] [Div K] [NatCast K] : K := -((1 : Nat) : K) / ((2 : Nat) : K)

/-- MDS: the matrix handed to the eigensolver (`centerMatrix`, then `*= -0.5`) -/
def mdsPre [Add K] [Sub K] [Zero K] [Div K] [NatCast K] [Mul K] [Neg K] {n : Nat} (S : Mat n n K) : Mat n n K :=
  fun i j => centerMatrix S i j * negHalf

/-! ### linear kernel (Gram) matrix and Kernel PCA -/

/-- rows of `X` are samples: `gram X i j = ⟨x_i, x_j⟩` (the linear kernel callback) -/
def gram [Add K] [Zero K] [Mul K] {n D : Nat} (X : Mat n D K) : Mat n n K :=
  fun i j => sumFin D fun t => X i t * X j t

/-- every sample shifted by `t` -/
def translate [Add K] {n D : Nat} (X : Mat n D K) (t : Vec D K) : Mat n D K := fun i c => X i c + t c

/-- every sample multiplied by `c` -/
def scaleData [Mul K] {n D : Nat} (c : K) (X : Mat n D K) : Mat n D K := fun i t => c * X i t

/-- `compute_centered_kernel_matrix` (kernel evaluated for `j ≥ i`, mirrored, then centred) -/
def kernelMatrix {n : Nat} (κ : Fin n → Fin n → K) : Mat n n K :=
  fun i j => if i.1 ≤ j.1 then κ i j else κ j i

def kpcaPre [Add K] [Sub K] [Zero K] [Div K] [NatCast K] [Mul K] {n : Nat} (κ : Fin n → Fin n → K) : Mat n n K :=
  centerMatrix (kernelMatrix κ)

/-- squared Euclidean distance between rows (the square of what `eigen_distance_callback` returns) -/
def sqEuclid [Add K] [Sub K] [Zero K] [Mul K] {n D : Nat} (X : Mat n D K) (i j : Fin n) : K :=
  sumFin D fun t => (X i t - X j t) * (X i t - X j t)

/-- pairwise squared distances between the rows of an embedding: the level at which two embeddings are compared -/
def rowSqDist [Add K] [Sub K] [Zero K] [Mul K] {n d : Nat} (Y : Mat n d K) : Mat n n K := sqEuclid Y

/-! ### how the kernel-based local methods see the data -/

/-- `KernelDistance::distance` squared (neighbors.hpp): `κ(l,l) − 2·κ(l,r) + κ(r,r)` — what the neighbour search of
    KLLE, KLTSA, HLLE, NPE, LLTSA compares -/
def kernelSqDist [Add K] [Sub K] [Mul K] [NatCast K] {n : Nat} (κ : Fin n → Fin n → K) (l r : Fin n) : K :=
  κ l l - ((2 : Nat) : K) * κ l r + κ r r

/-- the local Gram matrix of `linear_weight_matrix` (KLLE, NPE) for sample `q` with neighbours `nb`:
    `kernel_value − dots(a) − dots(b) + κ(nb a, nb b)` -/
def lleLocalGram [Add K] [Sub K] {n k : Nat} (κ : Fin n → Fin n → K) (q : Fin n) (nb : Fin k → Fin n) : Mat k k K :=
  fun a b => κ q q - κ q (nb a) - κ q (nb b) + κ (nb a) (nb b)

/-- the local step of `tangent_weight_matrix` / `hessian_weight_matrix` (KLTSA, LLTSA, HLLE): the kernel values
    among the neighbours, then `centerMatrix(gram_matrix)` -/
def localCenteredGram [Add K] [Sub K] [Zero K] [Div K] [NatCast K] [Mul K] {n k : Nat} (κ : Fin n → Fin n → K)
    (nb : Fin k → Fin n) : Mat k k K :=
  centerMatrix fun a b => κ (nb a) (nb b)

/-! ### eigen-systems (the eigensolver is a parameter with a contract, DESIGN §1) -/

/-- `(V, lam)` is an orthonormal eigen-system of `B`: `B V = V diag(lam)` and `Vᵀ V = 1` -/
def IsEigSys [Add K] [Zero K] [Mul K] [One K] {n d : Nat} (B : Mat n n K) (V : Mat n d K) (lam : Vec d K) : Prop :=
  (∀ i c, (sumFin n fun j => B i j * V j c) = lam c * V i c) ∧
  (∀ c c', (sumFin n fun i => V i c * V i c') = if c = c' then 1 else 0)

/-- … and it is a *top* one: an eigenvector of `B` orthogonal to all columns of `V` has an eigenvalue
    that does not exceed any of the selected ones -/
def IsTopEig [Add K] [Zero K] [Mul K] [One K] [LE K] {n d : Nat} (B : Mat n n K) (V : Mat n d K) (lam : Vec d K) : Prop :=
  IsEigSys B V lam ∧
  ∀ (μ : K) (w : Vec n K), (∃ i, w i ≠ 0) → (∀ i, (sumFin n fun j => B i j * w j) = μ * w i) →
    (∀ c, (sumFin n fun i => w i * V i c) = 0) → ∀ c, μ ≤ lam c

/-- the mirror image for the methods that take the *smallest* eigenvalues (KLLE, KLTSA, HLLE, Laplacian
    eigenmaps, NPE, LLTSA, LPP): an eigenvector orthogonal to all columns of `V` has an eigenvalue that is not
    below any of the selected ones -/
def IsBottomEig [Add K] [Zero K] [Mul K] [One K] [LE K] {n d : Nat} (B : Mat n n K) (V : Mat n d K) (lam : Vec d K) : Prop :=
  IsEigSys B V lam ∧
  ∀ (μ : K) (w : Vec n K), (∃ i, w i ≠ 0) → (∀ i, (sumFin n fun j => B i j * w j) = μ * w i) →
    (∀ c, (sumFin n fun i => w i * V i c) = 0) → ∀ c, lam c ≤ μ

/-- the embedding built from an eigen-system: column `c` of `V` scaled by `s c` (`s c = sqrt (lam c)` in MDS,
    Isomap, Kernel PCA; `sqrt` enters as any `s ≥ 0` with `s² = lam`) -/
def embedOf [Mul K] {n d : Nat} (V : Mat n d K) (s : Vec d K) : Mat n d K := fun i c => V i c * s c

/-! ### triplet assembly -/

abbrev Triplet (n : Nat) (K : Type) := Fin n × Fin n × K

/-- `setFromTriplets`: entry `(i,j)` is the sum of the values of all triplets addressed to `(i,j)` -/
def fromTriplets [Add K] [Zero K] {n : Nat} (ts : List (Triplet n K)) : Mat n n K :=
  fun i j => ((ts.filter fun t => t.1 = i ∧ t.2.1 = j).map fun t => t.2.2).sum

/-- a triplet after the samples have been renamed by `q` (old index `a` is now called `q a`) -/
def renameTriplet {n : Nat} (q : Fin n → Fin n) (t : Triplet n K) : Triplet n K := (q t.1, q t.2.1, t.2.2)

/-! ### neighbour graphs -/

/-- neighbour lists, as `Neighbors` (`std::vector<std::vector<IndexType>>`) -/
abbrev Graph (n : Nat) := Fin n → List (Fin n)

/-- the graph seen after re-ordering the samples: new sample `i` is old sample `p i`, and an old index `a`
    is now called `q a` (`q` the inverse of `p`) -/
def relabelGraph {n : Nat} (p q : Fin n → Fin n) (G : Graph n) : Graph n := fun i => (G (p i)).map q

/-- `b` is reachable from `a` along directed edges `u → v`, `v ∈ G u` -/
inductive Reach {n : Nat} (G : Graph n) : Fin n → Fin n → Prop
  | refl (a : Fin n) : Reach G a a
  | step {a b c : Fin n} : Reach G a b → c ∈ G b → Reach G a c

/-- what Dijkstra over the lists needs: every ordered pair is joined by a directed path -/
def StronglyConnected {n : Nat} (G : Graph n) : Prop := ∀ a b, Reach G a b

/-- what `is_connected` decides: everything is reachable *from sample 0* -/
def ReachFromFirst {n : Nat} (G : Graph n) : Prop := ∀ (h : 0 < n) (b : Fin n), Reach G ⟨0, h⟩ b

/-- append `b` unless it is already there -/
def addNew {α : Type} [DecidableEq α] (acc : List α) (b : α) : List α := if b ∈ acc then acc else acc ++ [b]

/-- one round of expansion of a vertex set: add every out-neighbour of a member (no duplicates added) -/
def expand {n : Nat} (G : Graph n) (S : List (Fin n)) : List (Fin n) := (S.flatMap G).foldl addNew S

def expandN {n : Nat} (G : Graph n) : Nat → List (Fin n) → List (Fin n)
  | 0, S => S
  | k + 1, S => expandN G k (expand G S)

/-- `S` contains every out-neighbour of each of its members -/
def closed {n : Nat} (G : Graph n) (S : List (Fin n)) : Bool := S.all fun a => (G a).all fun b => S.contains b

/-- vertices reachable from `a`, with a run-time *certificate* that the set is closed under edges
    (`Proofs/Equivariance.lean`: if the flag is true the list is exactly the reachable set;
    no unproved fuel assumption) -/
def reachSet {n : Nat} (G : Graph n) (a : Fin n) : List (Fin n) × Bool :=
  let S := expandN G n [a]
  (S, closed G S)

/-- all `n` samples reached from sample 0 along the directed edges (`reaches_all_from_first`; before the repair of
    F-CONN-DIR this alone was the decision of `is_connected`); `none`: certificate failed -/
def reachCode {n : Nat} (G : Graph n) : Option Bool :=
  if h : 0 < n then
    let r := reachSet G ⟨0, h⟩
    if r.2 then some ((List.finRange n).all fun b => r.1.contains b) else none
  else some false

/-- the reversed graph (`backward[neighbor].push_back(i)` in `is_connected`): `i ∈ reverseGraph G j ↔ j ∈ G i` -/
def reverseGraph {n : Nat} (G : Graph n) : Graph n := fun j => (List.finRange n).filter fun i => (G i).contains j

/-- what `is_connected` decides (neighbors/connected.hpp after the repair of F-CONN-DIR, for lists of uniform
    length): sample 0 reaches every sample along the edges and along the reversed edges -/
def ConnectedDecision {n : Nat} (G : Graph n) : Prop := ReachFromFirst G ∧ ReachFromFirst (reverseGraph G)

/-- the executable decision of `is_connected` -/
def connectedCode {n : Nat} (G : Graph n) : Option Bool :=
  match reachCode G, reachCode (reverseGraph G) with
  | some a, some b => some (a && b)
  | _, _ => none

/-- strong connectivity, decided with the same certificate -/
def strongCode {n : Nat} (G : Graph n) : Option Bool :=
  let rs := (List.finRange n).map fun a => reachSet G a
  if rs.all (·.2) then some (rs.all fun r => (List.finRange n).all fun b => r.1.contains b) else none

end TapkeeVerif.Equivariance
