import TapkeeVerif.Model.Mat
/-!
# C11 — landmark selection, Landmark MDS, triangulation, Landmark Isomap (executable model, core Lean only)

Transcribed statement by statement from

* `routines/landmarks.hpp`            `select_landmarks_random`, `triangulate`
* `routines/multidimensional_scaling.hpp` `compute_distance_matrix` (both overloads)
* `utils/matrix.hpp`                  `centerMatrix`
* `methods/landmark_multidimensional_scaling.hpp`, `methods/multidimensional_scaling.hpp`
* `methods/landmark_isomap.hpp`, `methods/isomap.hpp` (everything after the geodesic matrix; the Dijkstra stage is C04's)

The scalar `K` carries core notation classes only, so the same terms run at `K := Rat` in `model_c11` and are the
subjects of the theorems of `Props/C11.lean` over any field.  External kernels are parameters: the shuffle is a
permutation supplied by an oracle (`perm`), the eigensolver is a pair `(V, lam)`, `sqrt` / fourth root are vectors of
oracle values `s` / `q`; their contracts are hypotheses of the theorems and are checked on the observed values in every
correspondence run.  Behaviour that is undefined or non-finite in the code is an explicit error state (`Err`).
-/
namespace TapkeeVerif.Landmarks
open TapkeeVerif

/-! ## landmark count and selection (`select_landmarks_random`) -/

/-- `static_cast<IndexType>(landmarks.size() * ratio)` in exact arithmetic: the integer part of `N·ratio`
    (for `ratio ≥ 0`, the only case `selectLandmarks` lets through). -/
def landmarkCount (N : Nat) (ratio : Rat) : Nat := (((N : Nat) : Rat) * ratio).floor.toNat

/-- `2^e` as a rational, `e` an integer -/
def pow2 (e : Int) : Rat := (2 : Rat) ^ e

/-- round a positive rational to the nearest rational with a 53-bit significand, ties to even
    (IEEE-754 binary64 multiplication/division result in the normal range; no overflow/underflow modelled). -/
def rne53Pos (q : Rat) : Rat :=
  -- first guess of the exponent from the bit lengths, then corrected so that 2^52 ≤ q / 2^e < 2^53
  let e0 : Int := (Nat.log2 q.num.toNat : Int) - (Nat.log2 q.den : Int) - 52
  let e1 : Int := if q / pow2 e0 < pow2 52 then e0 - 1 else e0
  let e : Int := if pow2 53 ≤ q / pow2 e1 then e1 + 1 else e1
  let t := q / pow2 e
  let m : Int := t.floor
  let frac := t - (m : Rat)
  let half : Rat := 1 / 2
  let m' : Int := if half < frac then m + 1 else if frac < half then m else if m % 2 = 0 then m else m + 1
  (m' : Rat) * pow2 e

/-- IEEE-754 binary64 rounding (nearest, ties to even) of an exact rational, normal range -/
def rne53 (q : Rat) : Rat :=
  if q = 0 then 0 else if 0 < q then rne53Pos q else - rne53Pos (-q)

/-- what the *compiled* expression yields for a `double` ratio `r` (given by its exact value):
    the `double` product `N * r` is rounded to nearest before the truncating cast. -/
def landmarkCountFl (N : Nat) (r : Rat) : Nat := (rne53 (((N : Nat) : Rat) * r)).floor.toNat

/-- `select_landmarks_random`: `0..N-1` is shuffled (the oracle's answer is `perm`, `N = perm.length`) and
    everything from position `count` on is erased.  `begin() + count` past `end()` (ratio > 1) or before `begin()`
    (ratio < 0) is undefined behaviour: `none`. -/
def selectLandmarksWith (count : Nat) (neg : Bool) (perm : List Nat) : Option (List Nat) :=
  if neg || perm.length < count then none else some (perm.take count)

def selectLandmarks (perm : List Nat) (ratio : Rat) : Option (List Nat) :=
  selectLandmarksWith (landmarkCount perm.length ratio) (decide (ratio < 0)) perm

/-- the same with the `double` product of the compiled code -/
def selectLandmarksFl (perm : List Nat) (r : Rat) : Option (List Nat) :=
  selectLandmarksWith (landmarkCountFl perm.length r) (decide (r < 0)) perm

/-- `InClosedRange<ScalarType>(3.0 / n_vectors, 1.0)` of both `validate()`s, in exact arithmetic -/
def ratioValid (N : Nat) (ratio : Rat) : Prop := (3 : Rat) / ((N : Nat) : Rat) ≤ ratio ∧ ratio ≤ 1

/-! ## linear algebra over a scalar with core notation only -/
section
variable {K : Type} [Add K] [Sub K] [Mul K] [Div K] [Neg K] [Zero K] [NatCast K]
variable {N nl d : Nat}

/-- `x * -0.5` (`array() *= -0.5`) -/
def negHalf (x : K) : K := -(x / ((2 : Nat) : K))

/-- `d *= d` -/
def sq (x : K) : K := x * x

/-- `matrix.colwise().mean()` : entry `j` is the mean of column `j` -/
def colMeans {n m : Nat} (A : Mat n m K) : Vec m K := fun j => (sumFin n fun i => A i j) / ((n : Nat) : K)

/-- `matrix.rowwise().mean()` : entry `i` is the mean of row `i` -/
def rowMeans {n m : Nat} (A : Mat n m K) : Vec n K := fun i => (sumFin m fun j => A i j) / ((m : Nat) : K)

/-- `matrix.mean()` : sum of all coefficients over their number -/
def grandMean {n m : Nat} (A : Mat n m K) : K :=
  (sumFin n fun i => sumFin m fun j => A i j) / ((n * m : Nat) : K)

/-- `centerMatrix` of `utils/matrix.hpp`, in the order written:
    `col_means`, `grand_mean` (both of the *input*), `+= grand_mean`, `rowwise() -= col_meansᵀ`, `colwise() -= col_means`. -/
def centerMatrix {n : Nat} (A : Mat n n K) : Mat n n K :=
  let c := colMeans A
  let g := grandMean A
  fun i j => A i j + g - c j - c i

/-- `compute_distance_matrix(begin, end, landmarks, callback)`: the callback is evaluated for `i ≤ j` only, squared,
    and written to both `(i, j)` and `(j, i)`. -/
def landmarkSqDist (δ : Mat N N K) (lm : Fin nl → Fin N) : Mat nl nl K :=
  fun i j => if i.1 ≤ j.1 then sq (δ (lm i) (lm j)) else sq (δ (lm j) (lm i))

/-- `compute_distance_matrix(begin, end, callback)` (all samples) -/
def fullSqDist (δ : Mat N N K) : Mat N N K :=
  fun i j => if i.1 ≤ j.1 then sq (δ i j) else sq (δ j i)

/-- `landmark_distances_squared = distance_matrix.colwise().mean()` — taken BEFORE centring and kept for triangulation -/
def lmdsMu (δ : Mat N N K) (lm : Fin nl → Fin N) : Vec nl K := colMeans (landmarkSqDist δ lm)

/-- the matrix Landmark MDS hands to the eigensolver: `centerMatrix`, then `array() *= -0.5` -/
def lmdsB (δ : Mat N N K) (lm : Fin nl → Fin N) : Mat nl nl K :=
  let C := centerMatrix (landmarkSqDist δ lm)
  fun i j => negHalf (C i j)

/-- the matrix (plain) MDS hands to the eigensolver -/
def mdsB (δ : Mat N N K) : Mat N N K :=
  let C := centerMatrix (fullSqDist δ)
  fun i j => negHalf (C i j)

/-- `embedding.first.col(i).array() *= sqrt(embedding.second(i))` with `s i` the value `sqrt` returned -/
def scaleCols {n : Nat} (V : Mat n d K) (s : Vec d K) : Mat n d K := fun a i => V a i * s i

/-- `col(i).array() /= second(i)` -/
def divCols {n : Nat} (V : Mat n d K) (lam : Vec d K) : Mat n d K := fun a i => V a i / lam i

/-- the position `a` whose row is copied to sample `x` by the first loop of `triangulate`
    (`for a: to_process[lm a] = false; embedding.row(lm a) = first.row(a)` — the LAST such `a` wins) -/
def landmarkPos? (lm : Fin nl → Fin N) (x : Fin N) : Option (Fin nl) :=
  (List.finRange nl).foldl (fun acc a => if lm a = x then some a else acc) none

/-- the expression of the second loop of `triangulate` for sample `x`:
    `-0.5 * first.transpose() * (distances_to_landmarks - landmark_distances_squared)` with
    `distances_to_landmarks(a) = distance(x, lm a)²` and `first` already divided by the eigenvalues. -/
def triangulateRow (δ : Mat N N K) (lm : Fin nl → Fin N) (mu : Vec nl K) (W : Mat nl d K) (x : Fin N) : Vec d K :=
  fun i => negHalf (sumFin nl fun a => W a i * (sq (δ x (lm a)) - mu a))

/-- error states of the landmark pipelines -/
inductive Err where
  /-- `rightCols(d)` / `tail(d)` of an `n_l`-column result with `d > n_l` (reads outside the matrix) -/
  | oob
  /-- division by an eigenvalue (or its fourth root) that is zero: the result is not finite -/
  | divZero
  deriving DecidableEq, Repr

/-- `triangulate(begin, end, distance, landmarks, landmark_distances_squared, landmarks_embedding, d)`.
    `Y` is `landmarks_embedding.first` on entry, `lam` is `.second`. -/
def triangulate [DecidableEq K] (δ : Mat N N K) (lm : Fin nl → Fin N) (mu : Vec nl K) (Y : Mat nl d K)
    (lam : Vec d K) : Except Err (Mat N d K) :=
  if (List.finRange d).any (fun i => decide (lam i = 0)) then .error .divZero
  else
    let W := Mat.materialize (divCols Y lam)
    .ok fun x =>
      match landmarkPos? lm x with
      | some a => Y a
      | none => triangulateRow δ lm mu W x

/-- `rightCols(target_dimension)` of the `n × n` eigenvector matrix is inside the matrix iff `d ≤ n` -/
def rightColsInBounds (n d : Nat) : Bool := decide (d ≤ n)

/-- `LandmarkMultidimensionalScalingImplementation::embed()` after landmark selection, given what the eigensolver
    returned for `lmdsB` (`V`, `lam`) and what `sqrt` returned for the eigenvalues (`s`). -/
def lmdsEmbed [DecidableEq K] (δ : Mat N N K) (lm : Fin nl → Fin N) (V : Mat nl d K) (lam s : Vec d K) :
    Except Err (Mat N d K) :=
  if !rightColsInBounds nl d then .error .oob
  else triangulate δ lm (lmdsMu δ lm) (Mat.materialize (scaleCols V s)) lam

/-- `MultidimensionalScalingImplementation::embed()` given the solver's answer for `mdsB` -/
def mdsEmbed (V : Mat N d K) (s : Vec d K) : Except Err (Mat N d K) :=
  if !rightColsInBounds N d then .error .oob else .ok (scaleCols V s)

/-! ## Landmark Isomap after the geodesic stage -/

/-- `distance_matrix = distance_matrix.array().square()` then the separate row / column centring of the
    `n_l × N` matrix exactly as written in `methods/landmark_isomap.hpp`:
    `col_means`, `row_means`, `grand_mean` of the squared matrix, `+= grand_mean`, `colwise() -= row_means`,
    `rowwise() -= col_meansᵀ`, `*= -0.5`. -/
def lisomapPre (G : Mat nl N K) : Mat nl N K :=
  let D : Mat nl N K := Mat.materialize fun k j => sq (G k j)
  let c := colMeans D
  let r := rowMeans D
  let g := grandMean D
  fun k j => negHalf (D k j + g - r k - c j)

/-- dense path: `distance_matrix * distance_matrix.transpose()` is what the solver sees -/
def lisomapSym (B : Mat nl N K) : Mat nl nl K := Mat.mul B (Mat.transpose B)

/-- `embedding = distance_matrixᵀ * V; embedding.col(i) /= sqrt(sqrt(lam i))` with `q i` the value of the double `sqrt` -/
def lisomapPost [DecidableEq K] (B : Mat nl N K) (V : Mat nl d K) (q : Vec d K) : Except Err (Mat N d K) :=
  if !rightColsInBounds nl d then .error .oob
  else if (List.finRange d).any (fun i => decide (q i = 0)) then .error .divZero
  else
    let E := Mat.materialize (Mat.mul (Mat.transpose B) V)
    .ok fun x i => E x i / q i

/-- `IsomapImplementation::embed()` after the geodesic stage: `square`, `centerMatrix`, `*= -0.5` -/
def isomapB (G : Mat N N K) : Mat N N K :=
  let C := centerMatrix (Mat.materialize fun i j => sq (G i j))
  fun i j => negHalf (C i j)

end
end TapkeeVerif.Landmarks
