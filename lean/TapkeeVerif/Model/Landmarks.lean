import TapkeeVerif.Model.Mat
import TapkeeVerif.Model.DMat
import TapkeeVerif.Model.Center
import TapkeeVerif.Model.Mds
/-!
# C11 — landmark selection, Landmark MDS, triangulation, Landmark Isomap (executable model, core Lean only)

Transcribed statement by statement from

* `routines/landmarks.hpp`            `select_landmarks_random`, `triangulate`
* `routines/multidimensional_scaling.hpp` `compute_distance_matrix` (landmark overload)
* `methods/landmark_multidimensional_scaling.hpp`
* `methods/landmark_isomap.hpp` (everything after the geodesic matrix; the Dijkstra stage is C04's)

`centerMatrix`, `colMeans`, `grandMean`, `negHalf`, `scale` (Model/Center.lean) and `sqDistMatrix`, `mdsPre`, `post`
(Model/Mds.lean) are the C05 transcriptions of `utils/matrix.hpp` and of plain MDS and are reused as they are.

The scalar `K` carries core notation classes only, so the same terms run at `K := Rat` in `model_c11` and are the
subjects of the theorems of `Props/C11.lean` over any field.  External kernels are parameters: the shuffle is a
permutation supplied by an oracle (`perm`), the eigensolver is a pair `(V, lam)`, `sqrt` / fourth root are vectors of
oracle values `s` / `q`; their contracts are hypotheses of the theorems and are checked on the observed values in every
correspondence run.  Behaviour that is undefined in the code is an explicit error state (`Err`).

The model follows the tree AFTER the fixes F-LANDMARK-DIM (c5e886d: `validate()` requires `d ≤ n_landmarks`),
F-LMDS-RANKDEF (745a460: pseudo-inverse with the tolerance `n_l · ε · max|λ|` in `triangulate` and in Landmark Isomap's
post-processing) and F-SQRT-NEG (c99fb7c: `sqrt(max(λ, 0))`); machine epsilon `ε` is a parameter `eps` of the model
(the driver passes `2⁻⁵²`).

Every stage has a `…D` twin on array-backed `DMat`/`DVec` (what the driver runs, each intermediate tabulated once) with a
theorem `…D_eq` saying that it is the function-level term.
-/
set_option linter.unusedSectionVars false
namespace TapkeeVerif.Landmarks
open TapkeeVerif

/-! ## landmark count and selection (`select_landmarks_random`) -/

/-- `static_cast<IndexType>(landmarks.size() * ratio)` in exact arithmetic: the integer part of `N·ratio`
    (for `ratio ≥ 0`, the only case `selectLandmarks` lets through). -/
def landmarkCount (N : Nat) (ratio : Rat) : Nat := (((N : Nat) : Rat) * ratio).floor.toNat

/-- `2^e` as a rational, `e` an integer (through natural powers, so that positivity is elementary) -/
def pow2 (e : Int) : Rat :=
  if 0 ≤ e then (((2 : Nat) ^ e.toNat : Nat) : Rat) else 1 / (((2 : Nat) ^ (-e).toNat : Nat) : Rat)

/-- the exponent `e` of the 53-bit grid `2^e·ℤ` on which a positive `q` is rounded:
    a first guess from the bit lengths, corrected so that `2^52 ≤ q / 2^e < 2^53` -/
def rneExp (q : Rat) : Int :=
  let e0 : Int := (Nat.log2 q.num.toNat : Int) - (Nat.log2 q.den : Int) - 52
  let e1 : Int := if q / pow2 e0 < pow2 52 then e0 - 1 else e0
  if pow2 53 ≤ q / pow2 e1 then e1 + 1 else e1

/-- round `q` to the nearest point of the grid `2^e·ℤ`, ties to the even multiple -/
def roundAt (e : Int) (q : Rat) : Rat :=
  let t := q / pow2 e
  let m : Int := t.floor
  let frac := t - (m : Rat)
  let half : Rat := 1 / 2
  let m' : Int := if half < frac then m + 1 else if frac < half then m else if m % 2 = 0 then m else m + 1
  (m' : Rat) * pow2 e

/-- round a positive rational to the nearest rational with a 53-bit significand, ties to even
    (IEEE-754 binary64 multiplication/division result in the normal range; no overflow/underflow modelled). -/
def rne53Pos (q : Rat) : Rat := roundAt (rneExp q) q

/-- IEEE-754 binary64 rounding (nearest, ties to even) of an exact rational, normal range -/
def rne53 (q : Rat) : Rat :=
  if q = 0 then 0 else if 0 < q then rne53Pos q else - rne53Pos (-q)

/-- what the *compiled* expression yields for a `double` ratio `r` (given by its exact value):
    the `double` product `N * r` is rounded to nearest before the truncating cast. -/
def landmarkCountFl (N : Nat) (r : Rat) : Nat := (rne53 (((N : Nat) : Rat) * r)).floor.toNat

/-- `select_landmarks_random`: `0..N-1` is shuffled (the oracle's answer is `perm`, `N = perm.length`) and
    everything from position `count` on is erased.  `begin() + count` past `end()` (ratio > 1) or before `begin()`
    (ratio < 0) is undefined behaviour: `none`. -/
def selectLandmarksWith (count : Nat) (neg : Bool) (perm : List Nat) : Option (List Nat) :=
  if neg || decide (perm.length < count) then none else some (perm.take count)

def selectLandmarks (perm : List Nat) (ratio : Rat) : Option (List Nat) :=
  selectLandmarksWith (landmarkCount perm.length ratio) (decide (ratio < 0)) perm

/-- the same with the `double` product of the compiled code -/
def selectLandmarksFl (perm : List Nat) (r : Rat) : Option (List Nat) :=
  selectLandmarksWith (landmarkCountFl perm.length r) (decide (r < 0)) perm

/-- `InClosedRange<ScalarType>(3.0 / n_vectors, 1.0)` of both `validate()`s, in exact arithmetic -/
def ratioValid (N : Nat) (ratio : Rat) : Prop := (3 : Rat) / ((N : Nat) : Rat) ≤ ratio ∧ ratio ≤ 1

/-- `InRange<IndexType>(1, n_vectors)` on `target_dimension` in the `ImplementationBase` constructor -/
def dimValid (N d : Nat) : Prop := 1 ≤ d ∧ d < N

/-- `InRange<IndexType>(1, static_cast<IndexType>(n_vectors * landmark_ratio) + 1)` on `target_dimension` in both
    landmark `validate()`s (fix F-LANDMARK-DIM); `count` is the value of the cast -/
def dimValidLandmark (count d : Nat) : Prop := 1 ≤ d ∧ d < count + 1

/-! ## Landmark MDS -/
section
variable {K : Type} [Add K] [Sub K] [Mul K] [Div K] [Neg K] [Zero K] [NatCast K]
variable {N nl d : Nat}

/-- What the library is handed: an iterator range `begin[0..N-1]` whose ELEMENTS `ids x = begin[x]` are ids of an
    arbitrary id space `0..M-1` (not necessarily `0, 1, .., N-1`), and a callback `cb` defined on ids.  Every routine
    below works with POSITIONS `x, y : Fin N` in the range and evaluates the callback as
    `callback.distance(begin[x], begin[y])`: this is the `δ` all of them take.  (The correspondence hands the real code
    such non-identity ranges with NaN / far-away decoy ids in between, `checks/c11.py`.) -/
def rangeCallback {M : Nat} (cb : Mat M M K) (ids : Fin N → Fin M) : Mat N N K := fun x y => cb (ids x) (ids y)

/-- the callback restricted to the landmarks: `callback.distance(begin[landmarks[i]], begin[landmarks[j]])` -/
def subCallback (δ : Mat N N K) (lm : Fin nl → Fin N) : Mat nl nl K := fun a b => δ (lm a) (lm b)

/-- `compute_distance_matrix(begin, end, landmarks, callback)`: the callback is evaluated for `i ≤ j` only, squared
    (`d *= d`) and written to both `(i, j)` and `(j, i)` — the same loop as the all-samples overload -/
def landmarkSqDist (δ : Mat N N K) (lm : Fin nl → Fin N) : Mat nl nl K := sqDistMatrix (subCallback δ lm)

/-- `landmark_distances_squared = distance_matrix.colwise().mean()` — taken BEFORE centring and kept for triangulation -/
def lmdsMu (δ : Mat N N K) (lm : Fin nl → Fin N) : Vec nl K := colMeans (landmarkSqDist δ lm)

/-- the matrix Landmark MDS hands to the eigensolver: `centerMatrix(distance_matrix); distance_matrix.array() *= -0.5` -/
def lmdsB (δ : Mat N N K) (lm : Fin nl → Fin N) : Mat nl nl K :=
  scale negHalf (centerMatrix (landmarkSqDist δ lm))

/-- `|x|` and the largest `|lam i|` (`second.cwiseAbs().maxCoeff()`; `0` for the empty vector, which validation excludes) -/
def absK [LT K] [DecidableLT K] (x : K) : K := if x < 0 then -x else x
def maxAbsVec [LT K] [DecidableLT K] (lam : Vec d K) : K :=
  (List.finRange d).foldl (fun acc i => if acc < absK (lam i) then absK (lam i) else acc) 0

/-- `n * std::numeric_limits<ScalarType>::epsilon() * second.cwiseAbs().maxCoeff()` -/
def eigTol [LT K] [DecidableLT K] (n : Nat) (eps : K) (lam : Vec d K) : K := ((n : Nat) : K) * eps * maxAbsVec lam

/-- the pseudo-inverse loop of `triangulate`:
    `if (second(i) > tolerance) first.col(i) /= second(i); else first.col(i).setZero();` -/
def pinvCols [LT K] [DecidableLT K] {n : Nat} (tol : K) (V : Mat n d K) (lam : Vec d K) : Mat n d K :=
  fun a i => if tol < lam i then V a i / lam i else 0

/-- the position `a` whose row is copied to sample `x` by the first loop of `triangulate`
    (`for a: to_process[lm a] = false; embedding.row(lm a) = first.row(a)` — the LAST such `a` wins) -/
def landmarkPos? (lm : Fin nl → Fin N) (x : Fin N) : Option (Fin nl) :=
  (List.finRange nl).foldl (fun acc a => if lm a = x then some a else acc) none

/-- the expression of the second loop of `triangulate` for sample `x`:
    `-0.5 * first.transpose() * (distances_to_landmarks - landmark_distances_squared)` with
    `distances_to_landmarks(a) = distance(x, lm a)²` (`d * d`) and `first` already divided by the eigenvalues (`W`). -/
def triangulateRow (δ : Mat N N K) (lm : Fin nl → Fin N) (mu : Vec nl K) (W : Mat nl d K) (x : Fin N) : Vec d K :=
  fun i => negHalf * sumFin nl fun a => W a i * (δ x (lm a) * δ x (lm a) - mu a)

/-- both loops of `triangulate`: landmark rows copied from `Y`, the others triangulated against `W` -/
def triangulateRows (δ : Mat N N K) (lm : Fin nl → Fin N) (mu : Vec nl K) (Y W : Mat nl d K) : Mat N d K :=
  fun x =>
    match landmarkPos? lm x with
    | some a => Y a
    | none => triangulateRow δ lm mu W x

/-- error state of the landmark pipelines -/
inductive Err where
  /-- `rightCols(d)` / `tail(d)` of an `n_l`-column result with `d > n_l` (reads outside the matrix);
      excluded by `validate()` since F-LANDMARK-DIM (`validated_inbounds`) -/
  | oob
  deriving DecidableEq, Repr

/-- `triangulate(begin, end, distance, landmarks, landmark_distances_squared, landmarks_embedding, d)`.
    `Y` is `landmarks_embedding.first` on entry, `lam` is `.second`. -/
def triangulate [LT K] [DecidableLT K] (eps : K) (δ : Mat N N K) (lm : Fin nl → Fin N) (mu : Vec nl K)
    (Y : Mat nl d K) (lam : Vec d K) : Mat N d K :=
  triangulateRows δ lm mu Y (pinvCols (eigTol nl eps lam) Y lam)

/-- `rightCols(target_dimension)` of the `n × n` eigenvector matrix is inside the matrix iff `d ≤ n` -/
def rightColsInBounds (n d : Nat) : Bool := decide (d ≤ n)

/-- `LandmarkMultidimensionalScalingImplementation::embed()` after landmark selection, given what the eigensolver
    returned for `lmdsB` (`V`, `lam`) and what `sqrt(max(·, 0))` returned for the eigenvalues (`s`):
    `first.col(i) *= sqrt(max(second(i), 0))` (`post`), then `triangulate`. -/
def lmdsEmbed [LT K] [DecidableLT K] (eps : K) (δ : Mat N N K) (lm : Fin nl → Fin N) (V : Mat nl d K)
    (lam s : Vec d K) : Except Err (Mat N d K) :=
  if !rightColsInBounds nl d then .error .oob
  else .ok (triangulate eps δ lm (lmdsMu δ lm) (post V s) lam)

/-- `MultidimensionalScalingImplementation::embed()` given the solver's answer for `mdsPre` -/
def mdsEmbed (V : Mat N d K) (s : Vec d K) : Except Err (Mat N d K) :=
  if !rightColsInBounds N d then .error .oob else .ok (post V s)

/-! ### staged twins for the driver -/

def lmdsMuD (δ : DMat N N K) (lm : Fin nl → Fin N) : DVec nl K :=
  let D := DMat.ofFn (landmarkSqDist δ.get lm)
  DVec.ofFn (colMeans D.get)

def lmdsBD (δ : DMat N N K) (lm : Fin nl → Fin N) : DMat nl nl K :=
  let D := DMat.ofFn (landmarkSqDist δ.get lm)
  let C := centerMatrixD D
  DMat.ofFn (scale negHalf C.get)

def triangulateD [LT K] [DecidableLT K] (eps : K) (δ : DMat N N K) (lm : Fin nl → Fin N) (mu : DVec nl K)
    (Y : DMat nl d K) (lam : DVec d K) : DMat N d K :=
  let tol := eigTol nl eps lam.get
  let W := DMat.ofFn (pinvCols tol Y.get lam.get)
  DMat.ofFn (triangulateRows δ.get lm mu.get Y.get W.get)

def lmdsEmbedD [LT K] [DecidableLT K] (eps : K) (δ : DMat N N K) (lm : Fin nl → Fin N) (V : DMat nl d K)
    (lam s : DVec d K) : Except Err (DMat N d K) :=
  if !rightColsInBounds nl d then .error .oob
  else .ok (triangulateD eps δ lm (lmdsMuD δ lm) (DMat.ofFn (post V.get s.get)) lam)

/-- the result of an `Except`-valued staged computation read back as a function matrix -/
def getE {n m : Nat} (r : Except Err (DMat n m K)) : Except Err (Mat n m K) :=
  match r with
  | .error e => .error e
  | .ok A => .ok A.get

theorem lmdsMuD_eq (δ : DMat N N K) (lm : Fin nl → Fin N) : (lmdsMuD δ lm).get = lmdsMu δ.get lm := by
  simp [lmdsMuD, lmdsMu, DMat.get_ofFn, DVec.get_ofFn]

theorem lmdsBD_eq (δ : DMat N N K) (lm : Fin nl → Fin N) : (lmdsBD δ lm).get = lmdsB δ.get lm := by
  simp [lmdsBD, lmdsB, DMat.get_ofFn, centerMatrixD_eq]

theorem triangulateD_eq [LT K] [DecidableLT K] (eps : K) (δ : DMat N N K) (lm : Fin nl → Fin N) (mu : DVec nl K)
    (Y : DMat nl d K) (lam : DVec d K) :
    (triangulateD eps δ lm mu Y lam).get = triangulate eps δ.get lm mu.get Y.get lam.get := by
  simp [triangulateD, triangulate, DMat.get_ofFn]

theorem lmdsEmbedD_eq [LT K] [DecidableLT K] (eps : K) (δ : DMat N N K) (lm : Fin nl → Fin N) (V : DMat nl d K)
    (lam s : DVec d K) : getE (lmdsEmbedD eps δ lm V lam s) = lmdsEmbed eps δ.get lm V.get lam.get s.get := by
  unfold lmdsEmbedD lmdsEmbed
  split
  · simp [getE]
  · simp [getE, triangulateD_eq, lmdsMuD_eq, DMat.get_ofFn]

/-! ## Landmark Isomap after the geodesic stage -/

/-- `matrix.rowwise().mean()` : entry `i` is the mean of row `i` -/
def rowMeans {n m : Nat} (A : Mat n m K) : Vec n K := fun i => (sumFin m fun j => A i j) / ((m : Nat) : K)

/-- `distance_matrix = distance_matrix.array().square()` -/
def sqMat {n m : Nat} (G : Mat n m K) : Mat n m K := fun k j => G k j * G k j

/-- the four in-place updates of `methods/landmark_isomap.hpp` given the three means computed before them:
    `+= grand_mean`, `colwise() -= row_means` (entry `(k,j)` loses `r k`), `rowwise() -= col_meansᵀ` (loses `c j`),
    `*= -0.5` -/
def lisomapWith (D : Mat nl N K) (c : Vec N K) (r : Vec nl K) (g : K) : Mat nl N K :=
  fun k j => (((D k j + g) - r k) - c j) * negHalf

/-- what Landmark Isomap builds from the `n_l × N` matrix of geodesic distances `G` -/
def lisomapPre (G : Mat nl N K) : Mat nl N K :=
  lisomapWith (sqMat G) (colMeans (sqMat G)) (rowMeans (sqMat G)) (grandMean (sqMat G))

/-- dense path: `distance_matrix * distance_matrix.transpose()` is what the solver sees -/
def lisomapSym (B : Mat nl N K) : Mat nl nl K := Mat.mul B (Mat.transpose B)

/-- `embedding = distance_matrixᵀ * V;` then `if (lam i > tolerance) embedding.col(i) /= sqrt(sqrt(lam i)); else
    embedding.col(i).setZero();` — `q i` the value of the double `sqrt` -/
def lisomapRows [LT K] [DecidableLT K] (tol : K) (B : Mat nl N K) (V : Mat nl d K) (lam q : Vec d K) : Mat N d K :=
  fun x i => if tol < lam i then (sumFin nl fun a => B a x * V a i) / q i else 0

def lisomapPost [LT K] [DecidableLT K] (eps : K) (B : Mat nl N K) (V : Mat nl d K) (lam q : Vec d K) :
    Except Err (Mat N d K) :=
  if !rightColsInBounds nl d then .error .oob
  else .ok (lisomapRows (eigTol nl eps lam) B V lam q)

def lisomapPreD (G : DMat nl N K) : DMat nl N K :=
  let D := DMat.ofFn (sqMat G.get)
  let c := DVec.ofFn (colMeans D.get)
  let r := DVec.ofFn (rowMeans D.get)
  let g := grandMean D.get
  DMat.ofFn (lisomapWith D.get c.get r.get g)

def lisomapSymD (B : DMat nl N K) : DMat nl nl K := DMat.ofFn (lisomapSym B.get)

def lisomapPostD [LT K] [DecidableLT K] (eps : K) (B : DMat nl N K) (V : DMat nl d K) (lam q : DVec d K) :
    Except Err (DMat N d K) :=
  if !rightColsInBounds nl d then .error .oob
  else .ok (DMat.ofFn (lisomapRows (eigTol nl eps lam.get) B.get V.get lam.get q.get))

theorem lisomapPreD_eq (G : DMat nl N K) : (lisomapPreD G).get = lisomapPre G.get := by
  simp [lisomapPreD, lisomapPre, DMat.get_ofFn, DVec.get_ofFn]

theorem lisomapPostD_eq [LT K] [DecidableLT K] (eps : K) (B : DMat nl N K) (V : DMat nl d K) (lam q : DVec d K) :
    getE (lisomapPostD eps B V lam q) = lisomapPost eps B.get V.get lam.get q.get := by
  unfold lisomapPostD lisomapPost
  split <;> simp [getE, DMat.get_ofFn]

end
end TapkeeVerif.Landmarks

/-! ## contracts of the external kernels and the specification vocabulary of the theorems (core Lean only) -/
namespace TapkeeVerif.Landmarks
open TapkeeVerif
section
variable {K : Type} [Add K] [Sub K] [Mul K] [Zero K]
variable {n m d : Nat}

/-- eigen-relation `B V = V diag(lam)` (what the residual check of the certificate tests) -/
def IsEig (B : Mat n n K) (V : Mat n d K) (lam : Vec d K) : Prop :=
  ∀ a i, (sumFin n fun b => B a b * V b i) = lam i * V a i

/-- `Vᵀ V = 1` -/
def IsOrthonormal [One K] (V : Mat n d K) : Prop :=
  ∀ i j, (sumFin n fun a => V a i * V a j) = if i = j then 1 else 0

/-- `B = V diag(lam) Vᵀ`: the selected eigenpairs carry all of `B` (for an orthonormal eigen-system with nonzero
    eigenvalues this says `rank B ≤ d`) -/
def IsFactored (B : Mat n n K) (V : Mat n d K) (lam : Vec d K) : Prop :=
  ∀ a b, B a b = sumFin d fun i => V a i * lam i * V b i

/-- `s` is what `sqrt` returned for `lam`: `s i * s i = lam i` -/
def IsSqrt (s lam : Vec d K) : Prop := ∀ i, s i * s i = lam i

/-- `s` is what `sqrt(std::max(lam i, 0.0))` returned (fix F-SQRT-NEG; `clamp0` is Model/Mds.lean's `max(·, 0)`) -/
def IsSqrtClamped [LT K] [DecidableLT K] (s lam : Vec d K) : Prop := ∀ i, s i * s i = clamp0 (lam i)

/-- `q` is what `sqrt(sqrt(·))` returned for `lam` -/
def IsFourthRoot (q lam : Vec d K) : Prop := ∀ i, (q i * q i) * (q i * q i) = lam i

/-- squared Euclidean distance between rows `x`, `y` of a coordinate matrix -/
def sqDistRows (X : Mat n m K) (x y : Fin n) : K := sumFin m fun k => (X x k - X y k) * (X x k - X y k)

/-- the callback returns Euclidean distances of the rows of `X` (only its square is ever used) -/
def IsEuclidean (δ : Mat n n K) (X : Mat n m K) : Prop := ∀ x y, δ x y * δ x y = sqDistRows X x y

/-- Gram matrix of the rows `Y Yᵀ` — the level at which embeddings are compared ("up to column signs") -/
def gramRows (Y : Mat n d K) : Mat n n K := fun x y => sumFin d fun i => Y x i * Y y i

end
end TapkeeVerif.Landmarks
