import TapkeeVerif.Model.Mat
import TapkeeVerif.Model.DMat
import TapkeeVerif.Model.MatExtra
/-
Model of `routines/diffusion_maps.hpp: compute_diffusion_matrix` and of the post-processing in
`methods/diffusion_map.hpp` (C09).  Core Lean only; polymorphic in the scalar.
`exp` and `sqrt` enter as oracles `heat`, `sqrtO` (contracts: `heat > 0`, monotone; `sqrtO x ≥ 0 ∧ sqrtO x ^ 2 = x`).
-/
namespace TapkeeVerif.Diffusion
open TapkeeVerif

section
variable {K : Type} [Add K] [Sub K] [Mul K] [Div K] [Neg K] [Zero K] [One K]
variable {N : Nat}

/-- the argument of `exp` as written: `-(k * k) / width` -/
def heatArg (dist width : K) : K := (-(dist * dist)) / width

/-- `gk = exp(-(k*k)/width)` with `k = distance(begin[i], begin[j])` evaluated for `j ≥ i` and mirrored -/
def kernel0 (heat : K → K) (dist : Mat N N K) (width : K) : Mat N N K :=
  fun i j => if i ≤ j then heat (heatArg (dist i j) width) else heat (heatArg (dist j i) width)

/-- `p = M.colwise().sum()` -/
def colSums (A : Mat N N K) : Vec N K := fun j => sumFin N fun i => A i j

/-- `M(i,j) /= p(i) * p(j)` -/
def normBy (A : Mat N N K) (p : Vec N K) : Mat N N K := fun i j => A i j / (p i * p j)

/-- `compute_diffusion_matrix`, stage by stage (each stage tabulated) -/
def diffusionMatrixD (heat sqrtO : K → K) (dist : Mat N N K) (width : K) : DMat N N K :=
  let K0 := DMat.ofFn (kernel0 heat dist width)
  let p := DVec.ofFn (colSums K0.get)
  let K1 := DMat.ofFn (normBy K0.get p.get)
  let q := DVec.ofFn (colSums K1.get)
  let s := DVec.ofFn fun i => sqrtO (q.get i)
  DMat.ofFn (normBy K1.get s.get)

def diffusionMatrix (heat sqrtO : K → K) (dist : Mat N N K) (width : K) : Mat N N K :=
  (diffusionMatrixD heat sqrtO dist width).get

/-- the vector `√q` the second normalisation divides by (the trivial eigenvector of the result) -/
def sqrtQD (heat sqrtO : K → K) (dist : Mat N N K) (width : K) : DVec N K :=
  let K0 := DMat.ofFn (kernel0 heat dist width)
  let p := DVec.ofFn (colSums K0.get)
  let K1 := DMat.ofFn (normBy K0.get p.get)
  DVec.ofFn fun i => sqrtO (colSums K1.get i)

/-- `methods/diffusion_map.hpp`: `V` = the `d+1` eigenvectors of the largest eigenvalues (ascending, so column `d`
    belongs to the largest), `lam` their eigenvalues; column `c < d` is scaled by `lam c ^ t` and divided by column `d` -/
def dmPost {d : Nat} (V : Mat N (d + 1) K) (lam : Vec (d + 1) K) (t : Nat) : Mat N d K :=
  fun i c => V i c.castSucc * npowK (lam c.castSucc) t / V i (Fin.last d)

end
end TapkeeVerif.Diffusion
