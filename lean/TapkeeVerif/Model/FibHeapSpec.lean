import TapkeeVerif.Model.FibHeap
/-!
Abstract specification of an indexed min-priority queue of capacity `cap` (property C16):
a finite map from indices `< cap` to keys.  `accepts` decides whether a sequence of observed
outputs is one the specification allows for a history (`extract_min` may return *any* index
whose key is minimal).  The same checker is run on the real implementation's outputs by the
correspondence harness and is the statement of the refinement theorem in `Props/C16.lean`.
-/
namespace TapkeeVerif.FibHeap

/-- association list without duplicate indices -/
abbrev Spec := List (Nat × Int)

namespace Spec

def get (s : Spec) (i : Nat) : Option Int := (s.find? (·.1 == i)).map (·.2)
def erase (s : Spec) (i : Nat) : Spec := s.filter (·.1 != i)
def set (s : Spec) (i : Nat) (k : Int) : Spec := (i, k) :: erase s i
def isMin (s : Spec) (k : Int) : Bool := s.all (fun e => decide (k ≤ e.2))

/-- the state after `op` if `out` is an allowed observation for it, `none` otherwise -/
def stepCheck (cap : Nat) (s : Spec) : Op → Out → Option Spec
  | .insert i k, .size n =>
    let s' := if i < 0 ∨ i ≥ cap ∨ (get s i.toNat).isSome then s else set s i.toNat k
    if n = s'.length then some s' else none
  | .decrease i k, .size n =>
    let s' := if i < 0 ∨ i ≥ cap then s else
      match get s i.toNat with
      | none => s
      | some old => if k > old then s else set s i.toNat k
    if n = s'.length then some s' else none
  | .extract, .extracted n none => if s.isEmpty ∧ n = 0 then some s else none
  | .extract, .extracted n (some (i, k)) =>
    if get s i = some k ∧ isMin s k ∧ n + 1 = s.length then some (erase s i) else none
  | .clear, .size n => if n = 0 then some [] else none
  | .getKey i, .key r =>
    let want := if i < 0 ∨ i ≥ cap then none else get s i.toNat
    if r = want then some s else none
  | _, _ => none

def accepts (cap : Nat) : Spec → List Op → List Out → Bool
  | _, [], [] => true
  | s, op :: ops, o :: os =>
    match stepCheck cap s op o with
    | some s' => accepts cap s' ops os
    | none => false
  | _, _, _ => false

/-- position of the first output the specification rejects (diagnostics) -/
def firstReject (cap : Nat) : Spec → List Op → List Out → Nat → Option Nat
  | _, [], [], _ => none
  | s, op :: ops, o :: os, n =>
    match stepCheck cap s op o with
    | some s' => firstReject cap s' ops os (n + 1)
    | none => some n
  | _, _, _, n => some n

end Spec
end TapkeeVerif.FibHeap
