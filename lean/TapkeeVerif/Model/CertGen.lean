import TapkeeVerif.Model.Mat
import TapkeeVerif.Model.MatExtra
import TapkeeVerif.Model.FixPoint
import TapkeeVerif.Model.Util
import TapkeeVerif.Model.Cert
/-
Exact certificate checks used by the C08–C10 drivers (core Lean only; DESIGN §3).

* number protocol: doubles arrive as exact dyadics `m:e`; `parseFix` reads them into `Fix` exactly
  (exponents below 2⁻¹⁹² are floored), `parseRatQ` into `Rat`;
* entrywise comparison with a declared tolerance relative to the largest magnitude (`cmpMat`);
* **Sylvester inertia**: `negCount A` = number of negative eigenvalues of the symmetric matrix `A`, computed as the
  number of sign changes in the sequence of leading principal minors `1, D₁, …, D_n` (Jacobi's rule; minors by
  fraction-free Bareiss elimination in exact integer arithmetic on `A` rounded to 64 significant bits of its largest
  entry).  `none` when a minor vanishes (the caller then moves the shift).  By Sylvester's law of inertia
  `negCount (A − σB)` (B positive definite) is the number of generalised eigenvalues of `(A, B)` below `σ`.
-/
namespace TapkeeVerif.Cert
open TapkeeVerif

/-! ### parsing -/

def pow2 (n : Nat) : Int := (2 : Int) ^ n

/-- `m:e`, `a/b` or an integer, exactly (up to flooring at 2⁻¹⁹²) -/
def parseFix (s : String) : Option Fix :=
  match s.splitOn ":" with
  | [m, e] =>
    match m.toInt?, e.toInt? with
    | some m, some e =>
      let t : Int := e + (Fix.S : Int)
      if 0 ≤ t then some ⟨m * pow2 t.toNat⟩ else some ⟨m >>> (-t).toNat⟩
    | _, _ => none
  | _ =>
    match s.splitOn "/" with
    | [a] => a.toInt?.map Fix.ofInt
    | [a, b] =>
      match a.toInt?, b.toInt? with
      | some a, some b => if b = 0 then none else some ⟨Int.fdiv (a * Fix.scale) b⟩
      | _, _ => none
    | _ => none

/-- a flat array-of-rows matrix (rows `;`, entries `,`); `-` is the empty matrix -/
def parseRows {α} (p : String → Option α) (s : String) : Option (Array (Array α)) :=
  if s == "-" then some #[] else
  (s.splitOn ";").foldl (init := some #[]) fun acc row =>
    match acc with
    | none => none
    | some a =>
      match Util.allSome ((Util.splitNonEmpty row ",").map p) with
      | none => none
      | some r => some (a.push r.toArray)

def parseVecA {α} (p : String → Option α) (s : String) : Option (Array α) :=
  if s == "-" then some #[] else (Util.allSome ((Util.splitNonEmpty s ",").map p)).map List.toArray

def rect {α} (a : Array (Array α)) (n m : Nat) : Bool := a.size == n && a.all (·.size == m)

/-- function view of a checked rectangular array -/
def matOf {α} [Inhabited α] (a : Array (Array α)) (n m : Nat) : Mat n m α := fun i j => (a[i.1]!)[j.1]!
def vecOf {α} [Inhabited α] (a : Array α) (n : Nat) : Vec n α := fun i => a[i.1]!

def toArr {α} {n m : Nat} (A : Mat n m α) : Array (Array α) :=
  Array.ofFn fun i : Fin n => Array.ofFn fun j : Fin m => A i j

/-! ### comparison -/

def fabs (a : Fix) : Fix := Fix.abs a
def fmax (a b : Fix) : Fix := Fix.max a b

def maxAbsArr (a : Array (Array Fix)) : Fix :=
  a.foldl (fun acc r => r.foldl (fun acc x => fmax acc (fabs x)) acc) 0

structure Cmp where
  ok : Bool
  maxdev : Fix          -- largest |impl − model|
  scale : Fix
  at_ : Nat × Nat
deriving Inhabited

/-- `|impl − model| ≤ tol · max(|impl|,|model|)` entrywise, `tol = 0` for the exact mode -/
def cmpArr (tol : Fix) (impl model : Array (Array Fix)) (minScale : Fix := 0) : Cmp := Id.run do
  let scale := fmax (fmax (maxAbsArr impl) (maxAbsArr model)) minScale
  let bound := tol * scale
  let mut worst : Fix := 0
  let mut pos := (0, 0)
  for i in [0:impl.size] do
    let ri := impl[i]!
    let rm := model[i]!
    for j in [0:ri.size] do
      let dv := fabs (ri[j]! - rm[j]!)
      if worst < dv then
        worst := dv
        pos := (i, j)
  return { ok := decide (worst ≤ bound), maxdev := worst, scale := scale, at_ := pos }

/-- relative deviation as a short string `2^-n` (diagnostics) -/
def relDev (c : Cmp) : String :=
  if c.maxdev.m = 0 then "0" else
  if c.scale.m = 0 then "inf" else
  let r := c.maxdev / c.scale
  if r.m = 0 then "2^-192" else s!"2^{(Nat.log2 r.m.natAbs : Int) - (Fix.S : Int)}"

/-! ### Sylvester inertia by exact integer Bareiss elimination -/

/-- number of sign changes in `1, D₁, …, D_n`; `none` if some leading principal minor is zero -/
def negCountInt (n : Nat) (A0 : Array (Array Int)) : Option Nat := Id.run do
  let mut A := A0
  let mut prev : Int := 1
  let mut changes : Nat := 0
  for kk in [0:n] do
    let p := (A[kk]!)[kk]!
    if p = 0 then return none
    if (p < 0) != (prev < 0) then changes := changes + 1
    let rowk := A[kk]!
    for i in [kk+1:n] do
      let rowi := A[i]!
      let aik := rowi[kk]!
      let mut newrow := rowi
      for j in [kk+1:n] do
        newrow := newrow.set! j ((rowi[j]! * p - aik * rowk[j]!) / prev)
      A := A.set! i newrow
    prev := p
  return some changes

/-- round a `Fix` matrix to integers carrying 64 significant bits of its largest entry -/
def toIntMat (a : Array (Array Fix)) : Array (Array Int) :=
  let mx := (maxAbsArr a).m.natAbs
  let bits := if mx = 0 then 0 else Nat.log2 mx + 1
  let sh : Nat := bits - 64
  a.map fun r => r.map fun (x : Fix) => (x.m >>> sh : Int)

/-- number of negative eigenvalues of the symmetric `A` (lower triangle mirrored first) -/
def negCount (n : Nat) (a : Array (Array Fix)) : Option Nat :=
  let sym : Array (Array Fix) := Array.ofFn fun i : Fin n => Array.ofFn fun j : Fin n =>
    if j.1 ≤ i.1 then (a[i.1]!)[j.1]! else (a[j.1]!)[i.1]!
  negCountInt n (toIntMat sym)

/-- **The inertia count used by every spectral verdict** — the exact LDLᵀ elimination of `Model/Cert.lean`
    (`Cert.inertiaPos`, sound by `Proofs/Inertia.inertiaPos_sound`) run at `K := Rat` on `S = σ·B − A`:
    `some p` ⇒ `S` is positive definite on no family of more than `p` independent directions, i.e. the pencil `(A, B)`
    has at most `p` eigenvalues below `σ` (`Proofs/CertGenSound.lean`: `belowCount_sound`, `belowCount_bounds_eigenvalues`).
    `none`: the elimination did not close (zero pivot) — the caller moves the shift. -/
def belowCount {n : Nat} (S : Mat n n Rat) : Option Nat := Cert.inertiaPos S 0

/-- `σ·B − A` as an exact rational matrix: entries rounded to 64 significant bits of the largest one, lower triangle
    mirrored (scaling by a power of two changes no sign) -/
def pencilRat (n : Nat) (a : Array (Array Fix)) (b : Option (Array (Array Fix))) (σ : Fix) : DMat n n Rat :=
  -- congruence by a positive power-of-two diagonal `E` (inertia is unchanged): `E_i ≈ B_ii^{-1/2}`, so that a pencil
  -- whose metric spans many orders of magnitude is not flattened by the rounding below
  let e : Array Int := Array.ofFn fun i : Fin n =>
    match b with
    | none => (0 : Int)
    | some b =>
      let m := ((b[i.1]!)[i.1]!).m.natAbs
      if m = 0 then 0 else -(((Nat.log2 m : Int) - (Fix.S : Int)) / 2)
  let scaleBy (x : Fix) (k : Int) : Fix := if 0 ≤ k then ⟨x.m * pow2 k.toNat⟩ else ⟨x.m >>> (-k).toNat⟩
  let S : Array (Array Fix) := Array.ofFn fun i : Fin n => Array.ofFn fun j : Fin n =>
    let (r, c) := if j.1 ≤ i.1 then (i.1, j.1) else (j.1, i.1)
    let bij : Fix := match b with
      | none => if r = c then 1 else 0
      | some b => (b[r]!)[c]!
    scaleBy (σ * bij - (a[r]!)[c]!) (e[r]! + e[c]!)
  let I := toIntMat S
  DMat.ofFn fun i j => (((I[i.1]!)[j.1]! : Int) : Rat)

/-- #{generalised eigenvalues of (A, B) below σ} ≤ the returned count (`B = none`: identity).  If the elimination does
    not close the shift is moved by `nudge` (at most 3 times). -/
def countBelow (n : Nat) (a : Array (Array Fix)) (b : Option (Array (Array Fix))) (σ nudge : Fix) : Option Nat :=
  let at_ (s : Fix) : Option Nat := belowCount (pencilRat n a b s).get
  match at_ σ with
  | some c => some c
  | none =>
    match at_ (σ + nudge) with
    | some c => some c
    | none =>
      match at_ (σ - nudge) with
      | some c => some c
      | none => at_ (σ + nudge + nudge + nudge)

/-- fast variant for the per-sample ORACLE-CONTRACT checks on large neighbourhoods only (not used by any verdict about
    the property): sign changes of the leading principal minors by integer Bareiss elimination (Jacobi's rule, no Lean
    soundness theorem) — the exact rational LDLᵀ costs ~0.4 s per 39×39 matrix, times N samples -/
def countBelowFast (n : Nat) (a : Array (Array Fix)) (σ nudge : Fix) : Option Nat :=
  let shifted (s : Fix) : Array (Array Fix) := Array.ofFn fun i : Fin n => Array.ofFn fun j : Fin n =>
    (a[i.1]!)[j.1]! - (if i.1 = j.1 then s else 0)
  match negCount n (shifted σ) with
  | some c => some c
  | none =>
    match negCount n (shifted (σ + nudge)) with
    | some c => some c
    | none => negCount n (shifted (σ - nudge))

/-! ### small dense helpers on arrays -/

def mulArr (a b : Array (Array Fix)) (n m p : Nat) : Array (Array Fix) :=
  Array.ofFn fun i : Fin n => Array.ofFn fun j : Fin p => Id.run do
    let mut s : Fix := 0
    let ri := a[i.1]!
    for l in [0:m] do
      s := s + ri[l]! * (b[l]!)[j.1]!
    return s

def transposeArr (a : Array (Array Fix)) (n m : Nat) : Array (Array Fix) :=
  Array.ofFn fun j : Fin m => Array.ofFn fun i : Fin n => (a[i.1]!)[j.1]!

def identArr (n : Nat) : Array (Array Fix) :=
  Array.ofFn fun i : Fin n => Array.ofFn fun j : Fin n => if i.1 = j.1 then (1 : Fix) else 0

def maxRowSum (a : Array (Array Fix)) : Fix :=
  a.foldl (fun acc r => fmax acc (r.foldl (fun s x => s + fabs x) 0)) 0

def showFix (x : Fix) : String := Fix.toDecimal x

/-- `2^-n` as a `Fix` -/
def tolPow (n : Nat) : Fix := ⟨pow2 (Fix.S - n)⟩



/-! ### the generalised bottom-eigenpair certificate (C08, C09, C10)

`certBottom n d A B Y skipTrivial s` checks, in exact fixed-point/integer arithmetic, that the `n × d` matrix `Y`
is a `B`-orthonormal set of eigenvectors of the symmetric pencil `(A, B)` (`B = none`: identity) belonging to the `d`
smallest eigenvalues — after the single trivial one when `skipTrivial` (then also `1ᵀ B Y = 0`):

* `|Yᵀ B Y − 1| ≤ tolO`, `|1ᵀ B Y| ≤ tolC·√(1ᵀB1)` (only when the trivial eigenvalue `s` is separated from the rest),
* residual `|A Y − B Y diag μ| ≤ tolR · scale`, `μ_c` the Rayleigh quotients,
* extremality by inertia: `#{λ < μ_max + δ} = d + t`; when that count is larger (a near-tie at the boundary) the
  per-column brackets `#{λ < μ_(c) − δ} ≤ c − 1 + t` are required instead.
-/

structure CertOut where
  ok : Bool
  why : String            -- first failed clause ("" if ok)
  orth : String           -- |YᵀBY − 1| as 2^-n
  resid : String
  centre : String
  count : String
  inertia : Nat           -- number of exact inertia computations performed
  mus : Array Fix
  below : Option Nat := none   -- #{eigenvalues < μ_max + δ}
deriving Inhabited

def log2Str (x scale : Fix) : String :=
  if x.m = 0 then "0" else
  if scale.m = 0 then "inf" else
  let r := x / scale
  if r.m = 0 then "2^-192" else s!"2^{(Nat.log2 r.m.natAbs : Int) - (Fix.S : Int)}"

def insertSorted (x : Fix) : List Fix → List Fix
  | [] => [x]
  | y :: ys => if x < y then x :: y :: ys else y :: insertSorted x ys

def sortFix (l : List Fix) : List Fix := l.foldl (fun acc x => insertSorted x acc) []

/-- `evScale`: a magnitude for the eigenvalues of the pencil (slack δ = 2⁻²² · evScale) -/
def certBottom (n d : Nat) (A : Array (Array Fix)) (B : Option (Array (Array Fix))) (Y : Array (Array Fix))
    (skipTrivial : Bool) (trivialSeparated : Bool) (evScale : Fix)
    (tolO tolR tolC : Fix) : CertOut := Id.run do
  let Yt := transposeArr Y n d
  let BY := match B with
    | none => Y
    | some b => mulArr b Y n n d
  let AY := mulArr A Y n n d
  -- B-orthonormality
  let G := mulArr Yt BY d n d
  let cO := cmpArr 0 G (identArr d)
  let orthS := log2Str cO.maxdev 1
  let mut why := ""
  if !(cO.maxdev ≤ tolO) then why := "orthonormality"
  -- Rayleigh quotients and residual
  let AG := mulArr Yt AY d n d
  let mus : Array Fix := Array.ofFn fun c : Fin d => (AG[c.1]!)[c.1]! / (G[c.1]!)[c.1]!
  let mut worst : Fix := 0
  for i in [0:n] do
    for c in [0:d] do
      let r := fabs ((AY[i]!)[c]! - (BY[i]!)[c]! * mus[c]!)
      if worst < r then worst := r
  let ymax := maxAbsArr Y
  let bscale := match B with
    | none => (1 : Fix)
    | some b => maxRowSum b
  let rscale := (maxRowSum A + evScale * bscale) * ymax
  let residS := log2Str worst rscale
  if why == "" && !(worst ≤ tolR * rscale) then why := "residual"
  -- centring: 1ᵀ B Y
  let mut centreS := "-"
  if skipTrivial then
    let mut cw : Fix := 0
    let mut cscale : Fix := 0
    for c in [0:d] do
      let mut s : Fix := 0
      let mut sa : Fix := 0
      for i in [0:n] do
        s := s + (BY[i]!)[c]!
        sa := sa + fabs ((BY[i]!)[c]!)
      if cw < fabs s then cw := fabs s
      if cscale < sa then cscale := sa
    centreS := log2Str cw cscale
    if why == "" && trivialSeparated && !(cw ≤ tolC * cscale) then why := "centring"
  -- extremality by inertia
  let t := if skipTrivial then 1 else 0
  let δ := tolPow 22 * evScale
  let nudge := tolPow 26 * evScale
  let sorted := sortFix mus.toList
  let mut inertia := 0
  let mut countS := "-"
  let mut below : Option Nat := none
  match sorted.getLast? with
  | none => pure ()
  | some muMax =>
    inertia := inertia + 1
    match countBelow n A B (muMax + δ) nudge with
    | none =>
      countS := "singular"
      if why == "" then why := "inertia-singular"
    | some c =>
      below := some c
      countS := s!"{c}/{d + t}"
      if c < d + t then
        if why == "" then why := s!"extremality(count {c} < {d + t})"
      else if c > d + t then
        -- near-tie at the boundary or a skipped eigenvalue: per-column brackets decide
        let mut idx := 0
        for mu in sorted do
          inertia := inertia + 1
          match countBelow n A B (mu - δ) nudge with
          | none => if why == "" then why := "inertia-singular"
          | some cb =>
            if cb > idx + t then
              if why == "" then why := s!"extremality({cb} eigenvalues below the {idx + 1}-th returned one, expected at most {idx + t})"
          idx := idx + 1
  return { ok := why == "", why := why, orth := orthS, resid := residS, centre := centreS, count := countS,
           inertia := inertia, mus := mus, below := below }

end TapkeeVerif.Cert
