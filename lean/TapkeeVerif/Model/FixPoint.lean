/-
`Fix` : binary fixed-point numbers `m · 2^(-192)` (core Lean only).

The executable models are polymorphic in the scalar (DESIGN §2.1).  They are *proved* over any ordered field and
*run* at `Rat` wherever the compared stage is exact.  Stages whose exact rational evaluation has exponential
bit growth (Gram–Schmidt, long chains of divisions by non-dyadic oracle values) are run at `K := Fix` instead:
`+ −` are exact, `× ÷ √` round towards −∞ at 2⁻¹⁹², i.e. ≥ 40 decimal digits beyond `double`; the declared
comparison tolerances of the approx mode (2⁻³⁰ · scale and coarser) are more than 10³⁰ times larger.
-/
namespace TapkeeVerif

structure Fix where
  m : Int
deriving DecidableEq, Repr, Inhabited

namespace Fix

def S : Nat := 192
def scale : Int := (2 : Int) ^ S

instance : Add Fix := ⟨fun a b => ⟨a.m + b.m⟩⟩
instance : Sub Fix := ⟨fun a b => ⟨a.m - b.m⟩⟩
instance : Neg Fix := ⟨fun a => ⟨-a.m⟩⟩
instance : Mul Fix := ⟨fun a b => ⟨(a.m * b.m) >>> S⟩⟩
instance : Div Fix := ⟨fun a b => if b.m = 0 then ⟨0⟩ else ⟨Int.fdiv (a.m * scale) b.m⟩⟩
instance : Zero Fix := ⟨⟨0⟩⟩
instance : One Fix := ⟨⟨scale⟩⟩
instance : NatCast Fix := ⟨fun n => ⟨(n : Int) * scale⟩⟩
instance : LT Fix := ⟨fun a b => a.m < b.m⟩
instance : LE Fix := ⟨fun a b => a.m ≤ b.m⟩
instance : DecidableLT Fix := fun a b => inferInstanceAs (Decidable (a.m < b.m))
instance : DecidableLE Fix := fun a b => inferInstanceAs (Decidable (a.m ≤ b.m))

def abs (a : Fix) : Fix := ⟨Int.ofNat a.m.natAbs⟩
def max (a b : Fix) : Fix := if a.m < b.m then b else a

/-- ⌊√a⌋ at the working precision (0 for a ≤ 0) -/
def sqrt (a : Fix) : Fix :=
  if a.m ≤ 0 then ⟨0⟩ else ⟨Int.ofNat (Nat.sqrt (a.m.toNat * scale.toNat))⟩

def ofRat (q : Rat) : Fix := ⟨Int.fdiv (q.num * scale) (q.den : Int)⟩
def toRat (a : Fix) : Rat := (a.m : Rat) / (scale : Rat)
def ofInt (z : Int) : Fix := ⟨z * scale⟩

/-- `a^n` by repeated multiplication -/
def npow (a : Fix) : Nat → Fix
  | 0 => 1
  | n + 1 => npow a n * a

/-- `exp x` at the working precision: argument halving until `|y| ≤ 1/2`, 48 Taylor terms (remainder < 2⁻²³⁰),
    then repeated squaring.  Arguments are clamped to `[-4096, 1024]` (results below 2⁻¹⁹² are 0 anyway). -/
def exp (x : Fix) : Fix :=
  let x : Fix := if x.m < -(4096 * scale) then ⟨-(4096 * scale)⟩ else if 1024 * scale < x.m then ⟨1024 * scale⟩ else x
  let a := x.m.natAbs
  let bl := if a = 0 then 0 else Nat.log2 a + 1
  let m := bl - (S - 1)
  let y : Fix := ⟨x.m >>> m⟩
  let rec taylor (fuel : Nat) (n : Nat) (term acc : Fix) : Fix :=
    match fuel with
    | 0 => acc
    | fuel + 1 =>
      let term' : Fix := (term * y) / ((n + 1 : Nat) : Fix)
      taylor fuel (n + 1) term' (acc + term')
  let e0 := taylor 48 0 1 1
  let rec sq (fuel : Nat) (v : Fix) : Fix :=
    match fuel with
    | 0 => v
    | fuel + 1 => sq fuel (v * v)
  sq m e0

/-- short decimal rendering (≈ 12 significant digits) for diagnostics only -/
def toDecimal (a : Fix) : String :=
  let neg := a.m < 0
  let n := a.m.natAbs
  let ip := n / scale.toNat
  let fp := ((n % scale.toNat) * 10 ^ 18) / scale.toNat
  let fs := toString fp
  let fs := String.ofList (List.replicate (18 - fs.length) '0') ++ fs
  (if neg then "-" else "") ++ toString ip ++ "." ++ fs

end Fix
end TapkeeVerif
