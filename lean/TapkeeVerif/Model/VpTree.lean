import TapkeeVerif.Model.Knn
/-
Model of `include/tapkee/neighbors/vptree.hpp` (class `VantagePointTree`), core Lean only.

* `items[lower, upper)` is a list; `(upper+lower)/2 - lower = (upper-lower)/2`, so the median position
  depends on the length of the range only.
* the vantage point is `items[lower + (int)(next_vantage_fraction() * (upper-lower-1))]`; the fraction comes
  from the tree's own generator (or `uniform_random()` under `CUSTOM_UNIFORM_RANDOM_FUNCTION`) and is an
  oracle stream here (`draws`, numerators of multiples of 2^-20, consumed cyclically — the harness installs the
  same stream through `CUSTOM_UNIFORM_RANDOM_FUNCTION`).  `Built` admits *any* in-range vantage index.
* `std::nth_element` is any function/outcome satisfying `Knn.IsNthElement` (`Built` is the relation
  "the constructor can produce this tree"; `build` is the executable instance).
* `tau = std::numeric_limits<double>::max()` is `none` (every distance is below it, `d - tau <= thr` and
  `d + tau >= thr` hold); `std::priority_queue<HeapItem>` is a list with `pop` = remove *a* maximal item.
-/
namespace TapkeeVerif.VpTree
open TapkeeVerif.Knn

variable {α K : Type}

inductive Tree (α K : Type) where
  | nil : Tree α K
  | node (vp : α) (thr : K) (left right : Tree α K) : Tree α K
  deriving Repr, Inhabited

namespace Tree
def points : Tree α K → List α
  | nil => []
  | node vp _ l r => vp :: (points l ++ points r)

def isNil : Tree α K → Bool
  | nil => true
  | _ => false
end Tree

/-- a distance callback as the tree sees it: `dist a b = callback.distance(a, b)` and the comparator
    `DistanceComparator(callback, item)(a, b)` (for `KernelDistance` it compares `-2k(item,a)+k(a,a)`). -/
structure Cb (α K : Type) where
  dist : α → α → K
  lt : α → α → α → Bool

/-- `std::swap(items[lower], items[lower+i])` -/
def swap0 (l : List α) (i : Nat) : List α :=
  match l with
  | [] => []
  | x :: t =>
    match i with
    | 0 => x :: t
    | j + 1 =>
      match t[j]? with
      | none => x :: t
      | some y => y :: t.set j x

/-- `(int)(uniform_random() * (cnt - 1))` for `uniform_random() = m * 2^-20` -/
def vantageOffset (m cnt : Nat) : Nat := ((m % 1048576) * (cnt - 1)) / 1048576

/-- "the constructor can return this tree for this item range": any vantage choice, any `nth_element` outcome -/
inductive Built [Zero K] (cb : Cb α K) : List α → Tree α K → Prop where
  | nil : Built cb [] .nil
  | leaf (x : α) : Built cb [x] (.node x 0 .nil .nil)
  | node (items : List α) (i : Nat) (vp : α) (tail out : List α) (m : α) (l r : Tree α K) :
      2 ≤ items.length → i < items.length →
      swap0 items i = vp :: tail →
      IsNthElement (cb.lt vp) (items.length / 2 - 1) tail out →
      out[items.length / 2 - 1]? = some m →
      Built cb (out.take (items.length / 2 - 1)) l →
      Built cb (out.drop (items.length / 2 - 1)) r →
      Built cb items (.node vp (cb.dist vp m) l r)

/-- executable `buildFromPoints`; returns the tree and the position in the draw stream.
    `fuel` bounds the recursion depth (`items.length` suffices: `build_built`). -/
def build [Zero K] (cb : Cb α K) (draws : List Nat) : Nat → Nat → List α → Tree α K × Nat
  | 0, pos, _ => (.nil, pos)
  | fuel + 1, pos, items =>
    match items with
    | [] => (.nil, pos)
    | [x] => (.node x 0 .nil .nil, pos)
    | _ :: _ :: _ =>
      let cnt := items.length
      let m := draws.getD (pos % draws.length) 0
      match swap0 items (vantageOffset m cnt) with
      | [] => (.nil, pos)
      | vp :: tail =>
        let n := cnt / 2 - 1
        let out := nthElementExec (cb.lt vp) n tail
        let thr := match out[n]? with
          | some med => cb.dist vp med
          | none => 0
        let (l, pos1) := build cb draws fuel (pos + 1) (out.take n)
        let (r, pos2) := build cb draws fuel pos1 (out.drop n)
        (.node vp thr l r, pos2)

/-! ### search -/

structure SState (α K : Type) where
  tau : Option K
  heap : List (α × K)
  deriving Repr

/-- `distance < tau` -/
def ltTau [LT K] [DecidableLT K] (d : K) : Option K → Bool
  | none => true
  | some t => decide (d < t)

/-- `(distance - tau) <= threshold` -/
def leftTest [LE K] [DecidableLE K] [Sub K] (d thr : K) : Option K → Bool
  | none => true
  | some t => decide (d - t ≤ thr)

/-- `(distance + tau) >= threshold` -/
def rightTest [LE K] [DecidableLE K] [Add K] (d thr : K) : Option K → Bool
  | none => true
  | some t => decide (thr ≤ d + t)

/-- `heap.top().distance` -/
def maxDist [LT K] [DecidableLT K] : List (α × K) → Option K
  | [] => none
  | x :: t =>
    match maxDist t with
    | none => some x.2
    | some m => if m < x.2 then some x.2 else some m

/-- executable `pop`: remove the first item of maximal distance -/
def popMaxFirst [LT K] [DecidableLT K] : List (α × K) → List (α × K)
  | [] => []
  | x :: t =>
    match maxDist t with
    | none => t
    | some m => if m < x.2 then t else x :: popMaxFirst t

/-- the admission block `if (distance < tau) { ... }` of `search` -/
def admission [LT K] [DecidableLT K] (pop : List (α × K) → List (α × K)) (k : Nat) (vp : α) (d : K)
    (s : SState α K) : SState α K :=
  if ltTau d s.tau then
    let h1 := if s.heap.length = k then pop s.heap else s.heap
    let h2 := (vp, d) :: h1
    let tau := if h2.length = k then maxDist h2 else s.tau
    ⟨tau, h2⟩
  else s

/-- `search(Node*, target, k, heap)`; `q` is the target, `k` the requested number of results (the wrapper
    passes the user's k plus one). -/
def search [LT K] [DecidableLT K] [LE K] [DecidableLE K] [Add K] [Sub K] (cb : Cb α K)
    (pop : List (α × K) → List (α × K)) (q : α) (k : Nat) : Tree α K → SState α K → SState α K
  | .nil, s => s
  | .node vp thr l r, s =>
    let d := cb.dist vp q
    let s1 := admission pop k vp d s
    if l.isNil && r.isNil then s1
    else if d < thr then
      let s2 := if leftTest d thr s1.tau then search cb pop q k l s1 else s1
      if rightTest d thr s2.tau then search cb pop q k r s2 else s2
    else
      let s2 := if rightTest d thr s1.tau then search cb pop q k r s1 else s1
      if leftTest d thr s2.tau then search cb pop q k l s2 else s2

/-- draining the heap: `results.push_back(top); pop` — farthest first -/
def drain [LT K] [DecidableLT K] (h : List (α × K)) : List α :=
  (h.mergeSort (fun a b => !decide (a.2 < b.2))).map (·.1)

/-- public `search(target, k)` -/
def searchTop [LT K] [DecidableLT K] [LE K] [DecidableLE K] [Add K] [Sub K] (cb : Cb α K)
    (pop : List (α × K) → List (α × K)) (t : Tree α K) (q : α) (k : Nat) : List α :=
  drain (search cb pop q k t ⟨none, []⟩).heap

/-- `find_neighbors_vptree_impl` for one sample -/
def vpKnn [DecidableEq α] [LT K] [DecidableLT K] [LE K] [DecidableLE K] [Add K] [Sub K] (cb : Cb α K)
    (pop : List (α × K) → List (α × K)) (t : Tree α K) (k : Nat) (i : α) : List α :=
  dropFirstIfLonger k (removeSelf i (searchTop cb pop t i (k + 1)))

end TapkeeVerif.VpTree
