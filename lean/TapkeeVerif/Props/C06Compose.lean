import TapkeeVerif.Props.C06
import TapkeeVerif.Props.C07
import TapkeeVerif.Proofs.Inertia
/-!
# Property C06 (composition) — PCA end to end: the stage models composed into one `embed` model, joined with C07

`pcaEmbedModel` is `PrincipalComponentAnalysisImplementation::embed` (include/tapkee/methods/pca.hpp) as ONE function,
defined by composing the stage models that are proved (and tied to the code) separately:

    features(id) for id in begin..end                 parameter `feat` (callback on sample ids `0..N-1`)          —
    compute_mean(begin, end, features, D)             computeMean                      (Model/Pca.lean)           C06
    compute_covariance_matrix(.., mean_vector, ..)    covarianceMatrix X mean          (Model/Pca.lean)           C06
    eigendecomposition_via(LargestEigenvalues, ..)    parameter `solver` (contract Spectral.IsTopEig)             C05/C06
    project(P, mean_vector, begin, end, ..)           embedRows P mean X               (Model/Project.lean)       C06/C07
    new MatrixProjectionImplementation(P, mean)       project P mean                   (Model/Project.lean)       C07

Nothing is re-defined here.  `pca_end_to_end` obtains every conjunct by instantiating the stage theorem of that stage
(C06 `covarianceMatrix_eq_cov`, `dense_sees_cov`, `randomized_sees_cov`, `pca_optimal`; C07 `embedding_row_eq_projection`
over the GENERATED table row of `pca.hpp`, `projection_affine`, `projection_linear_plus_const`, `projection_of_mean_zero`,
`mean_is_training_mean`).

Interfaces that needed an explicit statement to meet:
* the eigensolver may have no exact answer in the scalar field, so its contract is a hypothesis *at the matrix actually
  handed over* (`o.C`), not a universally quantified property of `solver` (as in `isomap_end_to_end`);
* C07 speaks about program variables by source text (`Env`): the composed model's `(o.P, o.mean)` are the values of the
  identifiers `projection_result.first` / `mean_vector` of the generated row — stated as the hypotheses `hmat`, `hvec` on the
  environment in conjunct 5 (every other identifier of the environment is arbitrary);
* `N > 0` is needed by the centring conjunct only (`compute_mean` divides by `N`).
-/
namespace TapkeeVerif.PcaCompose
open TapkeeVerif TapkeeVerif.Spectral TapkeeVerif.Gen Matrix Finset

variable {K : Type} [Field K] [LinearOrder K] [IsStrictOrderedRing K]

/-- everything `embed` computes on the way, and the two things it returns (`Y`, `proj`) -/
structure Out (N D d : Nat) (K : Type) where
  /-- the feature vectors read through the callback, one row per sample id -/
  X : Mat N D K
  /-- `mean_vector` -/
  mean : Vec D K
  /-- `centered_covariance_matrix`: the matrix handed to `eigendecomposition_via` -/
  C : Mat D D K
  /-- `projection_result.first` / `.second` -/
  P : Mat D d K
  lam : Vec d K
  /-- the embedding returned by `project(...)` -/
  Y : Mat N d K
  /-- the returned `ProjectingFunction` -/
  proj : Vec D K → Vec d K

/-- **`PrincipalComponentAnalysisImplementation::embed`, composed.**  `feat` feature callback on sample ids `0..N-1`,
    `d` target dimension, `solver` the eigensolver outcome (largest `d`) on the matrix it is handed. -/
def pcaEmbedModel {D : Nat} (feat : Nat → Vec D K) (N d : Nat) (solver : Mat D D K → Mat D d K × Vec d K) :
    Out N D d K :=
  { X := fun i => feat i.1
    mean := computeMean (fun i : Fin N => feat i.1)
    C := covarianceMatrix (fun i : Fin N => feat i.1) (computeMean (fun i : Fin N => feat i.1))
    P := (solver (covarianceMatrix (fun i : Fin N => feat i.1) (computeMean (fun i : Fin N => feat i.1)))).1
    lam := (solver (covarianceMatrix (fun i : Fin N => feat i.1) (computeMean (fun i : Fin N => feat i.1)))).2
    Y := embedRows
      (solver (covarianceMatrix (fun i : Fin N => feat i.1) (computeMean (fun i : Fin N => feat i.1)))).1
      (computeMean (fun i : Fin N => feat i.1)) (fun i : Fin N => feat i.1)
    proj := project
      (solver (covarianceMatrix (fun i : Fin N => feat i.1) (computeMean (fun i : Fin N => feat i.1)))).1
      (computeMean (fun i : Fin N => feat i.1)) }

/-- the generated row of `methods/pca.hpp` in C07's table -/
def pcaRow : String × String × ProjReturn :=
  ("PrincipalComponentAnalysis", "pca.hpp",
    ProjReturn.matrix "projection_result.first" "mean_vector" "projection_result.first" "mean_vector"
      "compute_mean(begin,end,features,current_dimension)")

theorem pcaRow_mem : pcaRow ∈ projectionTable := by decide

/-- **pca_end_to_end** (C06 and C07 joined).  For every `N > 0`, `D`, `d`, every feature callback, every solver outcome,
    with `o = pcaEmbedModel feat N d solver`:

    1. `o.X i = feat i`, `o.mean = (Σ_i x_i)/N` (the training mean);
    2. the matrix handed to the solver IS the sample covariance `(1/N) Σ (x_i − mean)(x_i − mean)ᵀ` of the given samples,
       both triangles, and so is what the Dense solver (`(M+Mᵀ)/2`) and the Randomized solver (`selfadjointView<Upper>`)
       read of it;
    3. `(o.P, o.lam) = solver o.C` and row `i` of the embedding is `Pᵀ (x_i − mean)`;
    4. whenever `(P, lam)` meets the solver contract `IsTopEig` on that matrix: `PᵀP = 1`, the embedding columns are
       centred, uncorrelated with variances `lam` (`(1/N)·YᵀY = diag lam`), and no other orthonormal `d`-column projection
       retains more variance (`tr (Qᵀ Cov Q) ≤ Σ lam`) — C06 `pca_optimal`;
    5. the returned projection function is the one C07's generated table row of `pca.hpp` describes (same `(P, mean)` as the
       embedding, mean initialised by `compute_mean` of the training data), applied to training sample `i` it reproduces
       row `i` of the embedding, it is affine (commutes with affine combinations; `x ↦ Pᵀx − Pᵀmean`), and it sends the
       training mean to the origin — C07. -/
theorem pca_end_to_end {D : Nat} (feat : Nat → Vec D K) {N : Nat} (hN : 0 < N) (d : Nat)
    (solver : Mat D D K → Mat D d K × Vec d K) :
    let o := pcaEmbedModel feat N d solver
    -- 1. data and mean
    ((∀ i : Fin N, o.X i = feat i.1) ∧ o.mean = computeMean o.X ∧ ∀ a, o.mean a = (∑ i, o.X i a) / (N : K)) ∧
    -- 2. the solver is handed the sample covariance
    (o.C = cov o.X ∧ denseSym o.C = cov o.X ∧ upperView o.C = cov o.X) ∧
    -- 3. the embedding rows
    ((o.P, o.lam) = solver o.C ∧ o.Y = embedRows o.P o.mean o.X ∧ ∀ i, o.Y i = project o.P o.mean (o.X i)) ∧
    -- 4. C06 under the solver contract
    (IsTopEig (Mat.toM o.C) (Mat.toM o.P) o.lam →
      (Mat.toM o.P)ᵀ * Mat.toM o.P = 1 ∧
      (∀ j, ∑ i, o.Y i j = 0) ∧
      (1 / (N : K)) • ((Mat.toM o.Y)ᵀ * Mat.toM o.Y) = diagonal o.lam ∧
      ∀ Q : Matrix (Fin D) (Fin d) K, Qᵀ * Q = 1 → trace (Qᵀ * Mat.toM o.C * Q) ≤ ∑ j, o.lam j) ∧
    -- 5. C07: the returned projection function
    ((∀ env : C07.Env D d K, env.mat "projection_result.first" = o.P → env.vec "mean_vector" = o.mean →
        C07.returnedProjection env pcaRow.2.2 = some o.proj ∧ C07.returnedEmbedding env o.X pcaRow.2.2 = some o.Y ∧
        C07.meanOfInit o.X "compute_mean(begin,end,features,current_dimension)" = some o.mean) ∧
      (∀ i : Fin N, o.proj (feat i.1) = o.Y i) ∧
      (∀ (x y : Vec D K) (a : K), o.proj (fun k => a * x k + (1 - a) * y k) =
        fun j => a * o.proj x j + (1 - a) * o.proj y j) ∧
      (∀ x : Vec D K, o.proj x = fun j => (∑ k, o.P k j * x k) - ∑ k, o.P k j * o.mean k) ∧
      o.proj o.mean = fun _ => 0) := by
  intro o
  have hC : o.C = cov o.X := C06.covarianceMatrix_eq_cov o.X
  refine ⟨⟨fun _ => rfl, rfl, fun a => ?_⟩, ⟨hC, C06.dense_sees_cov o.X, C06.randomized_sees_cov o.X⟩,
    ⟨rfl, rfl, fun _ => rfl⟩, ?_, ?_, fun _ => rfl, ?_, ?_, ?_⟩
  · exact (C07.mean_is_training_mean o.X pcaRow pcaRow_mem _ _ _ _ _ rfl).2 a
  · intro h
    rw [hC] at h ⊢
    exact C06.pca_optimal o.X hN o.P o.lam h
  · intro env hmat hvec
    have hproj : C07.returnedProjection env pcaRow.2.2 = some o.proj := by
      show some (project (env.mat "projection_result.first") (env.vec "mean_vector")) = some o.proj
      rw [hmat, hvec]; rfl
    -- C07's theorem on the generated row: the embedding it describes is row-wise the projection
    obtain ⟨Y, hY, hrow⟩ := C07.embedding_row_eq_projection pcaRow pcaRow_mem env o.X o.proj hproj
    refine ⟨hproj, ?_, (C07.mean_is_training_mean o.X pcaRow pcaRow_mem _ _ _ _ _ rfl).1⟩
    rw [hY]
    congr 1
    funext i
    exact hrow i
  · intro x y a
    exact C07.projection_affine o.P o.mean x y a
  · intro x
    exact C07.projection_linear_plus_const o.P o.mean x
  · exact C07.projection_of_mean_zero o.P o.mean

/-! ### Non-vacuity: a concrete instance meets the solver contract of conjunct 4

C06's instance: three samples `(0,5), (1,5), (2,5)` on a line in the plane, `d = 1`; covariance `diag(2/3, 0)`, the
solver returns `P = e₁`, `lam = 2/3`.  The contract `IsTopEig` is obtained from the exact certificate
(`Cert.certTopEig_sound_zero` + `decide`). -/

def exFeat : Nat → Vec 2 ℚ := fun i a => if a = 0 then (i : ℚ) else 5
def exP : Mat 2 1 ℚ := fun a _ => if a = 0 then 1 else 0
def exLam : Vec 1 ℚ := fun _ => 2 / 3
def exSolver : Mat 2 2 ℚ → Mat 2 1 ℚ × Vec 1 ℚ := fun _ => (exP, exLam)

theorem ex_isTopEig : IsTopEig (Mat.toM (pcaEmbedModel exFeat 3 1 exSolver).C)
    (Mat.toM (pcaEmbedModel exFeat 3 1 exSolver).P) (pcaEmbedModel exFeat 3 1 exSolver).lam :=
  Cert.certTopEig_sound_zero (pcaEmbedModel exFeat 3 1 exSolver).C (by decide +kernel) exP exLam (by decide +kernel)

/-- the instance goes through `pca_end_to_end`: the embedding is `(−1, 0, 1)` with variance `2/3`, and the returned
    projection maps the new point `(7, 9)` to `6` -/
example : (1 / ((3 : Nat) : ℚ)) • ((Mat.toM (pcaEmbedModel exFeat 3 1 exSolver).Y)ᵀ *
      Mat.toM (pcaEmbedModel exFeat 3 1 exSolver).Y) = diagonal exLam ∧
    (∀ i : Fin 3, (pcaEmbedModel exFeat 3 1 exSolver).proj (exFeat i.1) = (pcaEmbedModel exFeat 3 1 exSolver).Y i) ∧
    (pcaEmbedModel exFeat 3 1 exSolver).Y 0 0 = -1 ∧
    (pcaEmbedModel exFeat 3 1 exSolver).proj (fun a => if a = 0 then 7 else 9) 0 = 6 := by
  obtain ⟨-, -, -, h4, -, h5, -⟩ := pca_end_to_end exFeat (N := 3) (by decide) 1 exSolver
  exact ⟨(h4 ex_isTopEig).2.2.1, h5, by decide +kernel, by decide +kernel⟩

end TapkeeVerif.PcaCompose
