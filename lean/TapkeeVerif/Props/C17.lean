import TapkeeVerif.Model.Tsne
/-! C17 — property theorems (being filled in; see Proofs/Tsne*.lean). -/
namespace TapkeeVerif.Tsne

theorem bisectInit_not_found {K : Type} [One K] : (bisectInit : BisState K).found = false := rfl

end TapkeeVerif.Tsne
