import Mathlib.Algebra.Order.Field.Rat
import TapkeeVerif.Proofs.TsneBasic
import TapkeeVerif.Proofs.TsneVp
import TapkeeVerif.Proofs.TsneCsrTotal
import TapkeeVerif.Proofs.TsneKL
import TapkeeVerif.Proofs.TsneBisect
import TapkeeVerif.Proofs.TsneVpBuild
import TapkeeVerif.Proofs.TsneVpBuildNth
import TapkeeVerif.Model.TsneRun
import TapkeeVerif.Proofs.QuadTreeForces
import TapkeeVerif.Proofs.TsneBhExact
/-!
# C17 — t-SNE: calibrated similarities from true neighbours, true KL gradient

Subject: the executable model `Model/Tsne.lean` of `tsne::TSNE` / `tsne::VpTree` (tied to the C++ by `checks/c17.py`;
`Gen/TsneOps.lean` is regenerated from the source on every run, so editing the operator of the distance routine
re-states `sqEuclid_refuted`).

History (each defect was first established here as a checked refutation with a witness, reproduced on the real code, and
repaired; the witnesses stay as regression statements and as corpus/C17/findings.case):
  * F-TSNE-DD (fixed c675e62)      `DD_map.noalias() = -2 XᵀX` overwrote the norm terms — `sqEuclid_operator_matters`;
  * F-TSNE-SQDIST (fixed 7e078b7)  the VP-tree pruned with the triangle inequality on *squared* distances —
    `sqDistance_not_metric`, `bh_neighbours_witness`.
-/
namespace TapkeeVerif.Tsne
open TapkeeVerif

/-! ### the squared-distance routine -/

/-- **`DD n m = ‖x_n − x_m‖²`** for every matrix over every field (the operator of the routine's last statement is
    regenerated from the source: with `=` instead of `+=` this theorem stops compiling) -/
theorem sqEuclid_correct {K : Type} [Field K] {N D : Nat} (X : Mat N D K) (n m : Fin N) :
    sqDist X n m = sqEuclid X n m := by
  have : Gen.TsneOps.ddAccumulate = true := by decide
  simp only [sqDist, this]
  exact sqDistWith_true_eq X n m

/-- the old defect as a statement about the operator: with `=` the routine returns 0 for the points 0 and 1 of a line -/
theorem sqEuclid_operator_matters :
    ¬ (∀ (N D : Nat) (X : Mat N D Rat) (n m : Fin N), sqDistWith false X n m = sqEuclid X n m) := by
  intro h
  have := h 2 1 (fun n _ => if n = 0 then 0 else 1) 0 1
  revert this
  decide +kernel

/-! ### the perplexity bisection (over an abstract, strictly decreasing entropy oracle) -/
section
variable {K : Type} [Field K] [LinearOrder K] [IsStrictOrderedRing K]

/-- **bracket invariant**: if the entropy `H` is strictly decreasing in `β` and `H b = log perplexity`, then after any
    number of passes `min_β < b < max_β` (whenever a bound is set), `min_β < β < max_β`, and `β > 0` -/
theorem bisect_bracket (H : K → K) (hH : StrictAnti H) (b logPerp tol : K) (hb : H b = logPerp) (htol : 0 < tol)
    (n : Nat) : Bracket b (bisectIter H logPerp tol n bisectInit) :=
  bisectIter_invariant (Bracket b) H logPerp tol (bracket_step H hH b logPerp tol hb htol) n _ (bracket_init b)

/-- **found ⇒ calibrated**: when the loop reports `found`, the entropy at the returned `β` is within `tol` (1e-5 < 1e-4)
    of `log perplexity` — for every oracle `H` -/
theorem bisect_found (H : K → K) (logPerp tol : K) (n : Nat)
    (h : (bisectIter H logPerp tol n bisectInit).found = true) :
    |H (bisectIter H logPerp tol n bisectInit).beta - logPerp| < tol := by
  have := bisectIter_invariant (FoundOK H logPerp tol) H logPerp tol (foundOK_step H logPerp tol) n _
    (foundOK_init H logPerp tol) h
  rw [abs_lt]; constructor <;> linarith [this.1, this.2]

/-- **`bisect_converges`**: for a strictly decreasing entropy oracle that takes the target value at some `b > 0` and is
    continuous there (ε–δ form; any Archimedean ordered field), the loop `while (!found)` does set `found` after
    finitely many passes, and the `β` it stops at is calibrated.  (The doubling phase ends because `2ⁿ` passes `b`, the
    halving phase because `2⁻ⁿ` falls below it; from then on `β` is the midpoint of a bracket around `b` whose width
    halves with every pass.)  The source additionally gives up after `bisectIters = 200` passes: whether the finite
    number of passes is below that cap depends on `H` quantitatively and is not claimed. -/
theorem bisect_converges [Archimedean K] (H : K → K) (hH : StrictAnti H) (b logPerp tol : K) (hb : H b = logPerp)
    (hbpos : 0 < b) (htol : 0 < tol)
    (hcont : ∃ δ, 0 < δ ∧ ∀ β, |β - b| < δ → H β - logPerp < tol ∧ -(H β - logPerp) < tol) :
    ∃ n, (bisectIter H logPerp tol n bisectInit).found = true ∧
      |H (bisectIter H logPerp tol n bisectInit).beta - logPerp| < tol := by
  obtain ⟨n, hn⟩ := bisect_terminates H hH b logPerp tol hb hbpos htol hcont
  exact ⟨n, hn, bisect_found H logPerp tol n hn⟩
end

/-- … over ℝ with `ContinuousAt` -/
theorem bisect_converges_real (H : ℝ → ℝ) (hH : StrictAnti H) (b logPerp tol : ℝ) (hb : H b = logPerp)
    (hbpos : 0 < b) (htol : 0 < tol) (hc : ContinuousAt H b) :
    ∃ n, (bisectIter H logPerp tol n bisectInit).found = true ∧
      |H (bisectIter H logPerp tol n bisectInit).beta - logPerp| < tol := by
  obtain ⟨n, hn⟩ := bisect_terminates_real H hH b logPerp tol hb hbpos htol hc
  exact ⟨n, hn, bisect_found H logPerp tol n hn⟩

/-- non-vacuity: `H β = -β`, target `-3`: found after finitely many passes (1, 2, 4, 3) -/
example : ∃ n, (bisectIter (fun β : ℝ => -β) (-3) (1 / 10) n bisectInit).found = true ∧
    |(fun β : ℝ => -β) (bisectIter (fun β : ℝ => -β) (-3) (1 / 10) n bisectInit).beta - (-3)| < 1 / 10 :=
  bisect_converges_real (fun β => -β) (fun _ _ h => neg_lt_neg h) 3 (-3) (1 / 10) rfl (by norm_num) (by norm_num)
    continuous_neg.continuousAt

/-! ### dense joint similarities -/
section
variable {K : Type} [Field K] {N : Nat}

/-- the joint distribution of the exact branch is symmetric -/
theorem P_dense_symm (P : Mat N N K) (n m : Fin N) : jointDense P n m = jointDense P m n :=
  normalise_symm _ (symDense_symm P) n m

/-- … and sums to one (whenever the conditional similarities do not sum to zero) -/
theorem P_dense_sum_one (P : Mat N N K) (h : total (symDense P) ≠ 0) : total (jointDense P) = 1 :=
  total_normalise _ h

/-- the returned map is centred: `zeroMean` leaves every column sum zero -/
theorem zeroMean_centres [CharZero K] {D : Nat} (hN : N ≠ 0) (Y : Mat N D K) (d : Fin D) :
    sumFin N (fun n => zeroMean Y n d) = 0 := zeroMean_colsum hN Y d
end

/-! ### the CSR symmetriser -/

/-- **in bounds, every cell written** — for EVERY `N` and every well-formed CSR input (`Csr.wellFormed`: the shape
    `computeGaussianPerplexity` produces) whose rows have pairwise different columns, `symmetrizeMatrix` returns: no
    write leaves `sym_col_P`/`sym_val_P[0, no_elem)` (the model's `Err.oob`), no cell is read unwritten by the final
    halving loop (`Err.uninit`).  The reason (`Proofs/TsneCsrCount.lean: rc_eq_emitted`): `row_counts[r]`, computed by the
    first pass, is exactly the number of writes the second pass makes into row `r`. -/
theorem symmetrizeCsr_inbounds {K : Type} [Field K] (N : Nat) (c : Csr K) (hw : c.wellFormed N = true)
    (hd : DistinctCols N c) : ∃ out, symmetrizeCsr N c = .ok out := by
  obtain ⟨out, h, -⟩ := symmetrizeCsr_ok N c hw hd
  exact ⟨out, h⟩

/-- **half sum**: every entry of the result is `(p_nm + p_mn) / 2` (`symDivisor` is regenerated from the source) -/
theorem symmetrizeCsr_half_sum {K : Type} [Field K] (N : Nat) (c : Csr K) (hw : c.wellFormed N = true)
    (hd : DistinctCols N c) (out : Csr K) (hout : symmetrizeCsr N c = .ok out) (n m : Nat) (hn : n < N) (hm : m < N) :
    out.entry n m = (c.entry n m + c.entry m n) / ((Gen.TsneOps.symDivisor : Nat) : K) :=
  out_half_sum N c hw hd out hout n m hn hm

/-- **symmetry** of the result -/
theorem symmetrizeCsr_symm {K : Type} [Field K] (N : Nat) (c : Csr K) (hw : c.wellFormed N = true)
    (hd : DistinctCols N c) (out : Csr K) (hout : symmetrizeCsr N c = .ok out) (n m : Nat) (hn : n < N) (hm : m < N) :
    out.entry n m = out.entry m n := by
  rw [out_half_sum N c hw hd out hout n m hn hm, out_half_sum N c hw hd out hout m n hm hn, add_comm]

/-- the result is a well-formed CSR matrix again (row pointers monotone from 0 to the array size, columns below `N`) -/
theorem symmetrizeCsr_wellformed {K : Type} [Field K] (N : Nat) (c : Csr K) (hw : c.wellFormed N = true)
    (hd : DistinctCols N c) (out : Csr K) (hout : symmetrizeCsr N c = .ok out) : WFc N out :=
  wfc_out N c hw hd out hout

/-- **total preserved**: `Σ sym_val_P = Σ val_P` (in a field where `2 ≠ 0`; the divisor is the regenerated one, so a
    source that halves by anything but 2 breaks this proof) -/
theorem symmetrizeCsr_total {K : Type} [Field K] (h2 : (2 : K) ≠ 0) (N : Nat) (c : Csr K)
    (hw : c.wellFormed N = true) (hd : DistinctCols N c) (out : Csr K) (hout : symmetrizeCsr N c = .ok out) :
    out.valP.foldl (· + ·) 0 = c.valP.foldl (· + ·) 0 := by
  rw [out_total N c hw hd out hout]
  have : ((Gen.TsneOps.symDivisor : Nat) : K) = 2 := by
    have : Gen.TsneOps.symDivisor = 2 := by decide
    rw [this]; norm_num
  rw [this]
  field_simp
  ring

/-- **the joint distribution of the Barnes–Hut branch of `run`** (`symmetrizeMatrix`, then `val_P /= Σ val_P`, both as
    the translator found them in `run`): for every well-formed K-NN similarity matrix with non-zero total the stage
    returns; the result sums to one, is symmetric, and its entry `(n, m)` is `(p_nm + p_mn) / (2 Σ p)` -/
theorem run_joint_csr {K : Type} [Field K] (h2 : (2 : K) ≠ 0) (N : Nat) (c : Csr K) (hw : c.wellFormed N = true)
    (hd : DistinctCols N c) (hs : c.valP.foldl (· + ·) 0 ≠ 0) :
    ∃ J, jointCsrAsWritten N c = .ok J ∧ J.valP.foldl (· + ·) 0 = 1 ∧
      (∀ n < N, ∀ m < N, J.entry n m = J.entry m n) ∧
      ∀ n < N, ∀ m < N, J.entry n m = (c.entry n m + c.entry m n) / (2 * c.valP.foldl (· + ·) 0) := by
  obtain ⟨out, hout⟩ := symmetrizeCsr_inbounds N c hw hd
  have ht := symmetrizeCsr_total h2 N c hw hd out hout
  have hn : Gen.TsneRun.sparseNormalise = true := by decide
  refine ⟨out.normalise, ?_, ?_, ?_, ?_⟩
  · unfold jointCsrAsWritten; rw [hout]; simp only [hn, if_true]
  · exact normalise_total out (by rw [ht]; exact hs)
  · intro n hn' m hm
    rw [normalise_entry, normalise_entry, symmetrizeCsr_symm N c hw hd out hout n m hn' hm]
  · intro n hn' m hm
    have hd2 : ((Gen.TsneOps.symDivisor : Nat) : K) = 2 := by
      have : Gen.TsneOps.symDivisor = 2 := by decide
      rw [this]; norm_num
    rw [normalise_entry, ht, symmetrizeCsr_half_sum N c hw hd out hout n m hn' hm, hd2, div_div]

/- The small-pattern statements below are kept as non-vacuity examples of the hypotheses and as a regression net for the
   array plumbing. -/

/-- the CSR matrix with sparsity pattern `mask` (bit `n*N+m` ⇔ entry `(n, m)` present), `k`-th stored value `2^k` -/
def patternCsr (N mask : Nat) : Csr Rat :=
  let cells := (List.range N).map fun n => (List.range N).filter fun m => mask.testBit (n * N + m)
  let rowP := cells.foldl (fun (a : List Nat) r => a ++ [a.getLast! + r.length]) [0]
  let cols := cells.flatten
  ⟨rowP.toArray, cols.toArray, ((List.range cols.length).map fun k => ((2 ^ k : Nat) : Rat)).toArray⟩

def symChecks (N mask : Nat) : Bool :=
  let c := patternCsr N mask
  match symmetrizeCsr N c with
  | .error _ => false
  | .ok out =>
    ((List.range N).all fun n => (List.range N).all fun m =>
      decide (out.entry n m = out.entry m n) && decide (out.entry n m * 2 = c.entry n m + c.entry m n)) &&
    decide (out.valP.foldl (· + ·) 0 = c.valP.foldl (· + ·) 0) &&
    decide (out.rowP.size = N + 1) && decide (out.colP.size = out.rowP.getD N 0) && decide (out.valP.size = out.colP.size)

/-! non-vacuity of the hypotheses of the three theorems above: the 3 × 3 pattern with entries (0,1), (1,0), (1,2), (2,2) -/
example : (patternCsr 3 0b100100010).wellFormed 3 = true := by decide +kernel
example : DistinctCols 3 (patternCsr 3 0b100100010) := by
  intro n hn
  have : n = 0 ∨ n = 1 ∨ n = 2 := by omega
  rcases this with rfl | rfl | rfl <;> decide +kernel

example : (patternCsr 3 0b100100010).valP.foldl (· + ·) 0 ≠ 0 := by decide +kernel
example : (2 : Rat) ≠ 0 := by decide

/-! TESTS (not obligations).  Both statements are instances of the ∀`N` theorems above — `symmetrizeCsr_inbounds`,
    `symmetrizeCsr_symm`, `symmetrizeCsr_half_sum`, `symmetrizeCsr_total`, `symmetrizeCsr_wellformed` applied to
    `patternCsr N mask` (well formed with distinct columns per row by construction; shown for one pattern in the
    examples above) — and were the round-0
    partial results (`symmetrizeCsr_small_partial`, `symmetrizeCsr_small3_partial`).  They are kept as kernel-evaluated
    regression tests of the array plumbing of the executable model only. -/

/-- test: in bounds, every cell written, symmetric, halves of the pair sums, total preserved — all patterns up to 2 × 2 -/
example : ∀ N < 3, ∀ mask < 2 ^ (N * N), symChecks N mask = true := by
  decide +kernel

/-- test: … and 64 of the 512 patterns of size 3 × 3 (every eighth) -/
example : ∀ k < 64, symChecks 3 (8 * k + 5) = true := by
  decide +kernel

/-! ### Barnes–Hut neighbours: the distance handed to the VP-tree -/

/-- the squared distance violates the triangle inequality (0, 1, 3 on a line) — why the tree must not prune with it -/
theorem sqDistance_not_metric :
    ¬ (∀ a b c : List Rat, sqDistance a c ≤ sqDistance a b + sqDistance b c) := by
  intro h
  have := h [0] [1] [3]
  revert this
  decide +kernel

/-- **`bh_neighbours_true`** — for every (pseudo-)metric on the items (coincident samples allowed), every tree with the
    ball invariant (`TInv`: inner subtree within `threshold` of the vantage point, outer subtree at least `threshold`
    away — what `buildFromPoints` produces for any vantage stream and any `nth_element` outcome, and what the
    correspondence run checks on every dumped tree), every `K` with `K + 1 ≤ N` and every query that is one of the
    items, the `K + 1` search of `computeGaussianPerplexity` leaves in the heap `K + 1` nearest items of the query:
    pairwise different positions of the tree, none of the other items nearer than any of them.
    `tsne::VpTree::search` is shown to coincide with the search C02 proves exact (`Proofs/TsneVp.lean: vpSearch_eq`;
    the classes differ only in a guard that is vacuous for non-negative distances). -/
theorem bh_neighbours_true {K : Type} [Field K] [LinearOrder K] [IsStrictOrderedRing K]
    (distf : List K → List K → K) (items : Nat → List K)
    (hm : VpTree.IsMetric (posDist distf items)) (hd : ∀ a b, 0 ≤ distf a b)
    (t : VpNode K) (hT : VpTree.TInv (posDist distf items) (toTree t)) (hnd : (toTree t).points.Nodup)
    (Kn : Nat) (hkN : Kn + 1 ≤ (toTree t).points.length) (q : Nat) :
    Knn.IsKNearest (posDist distf items) q (toTree t).points (Kn + 1)
      ((vpSearch distf items (items q) (Kn + 1) t ⟨none, []⟩).heap.map (·.1)) :=
  vpSearch_nearest distf items hm hd t hT hnd (Kn + 1) (by omega) hkN q

/-- **the build establishes the hypotheses of `bh_neighbours_true`**: for every distance function, every vantage
    stream `pick` and every item list, the model of `buildFromPoints` (`nth_element` modelled by a stable sort of the
    tail — one admissible outcome; the real one is checked against the same contract on every dumped tree) returns a
    reordering of the items and a tree over the positions `0 … N-1`, each exactly once, with the ball invariant for
    the distances between the reordered items -/
theorem vptree_build_inv {K : Type} [Field K] [LinearOrder K] [IsStrictOrderedRing K]
    (distf : List K → List K → K) (pick : Nat → Nat → Nat) (seg : List (Nat × List K)) :
    (vpBuild distf pick seg.length 0 0 seg).2.1.Perm seg ∧
    (toTree (vpBuild distf pick seg.length 0 0 seg).1).points.Perm (List.range seg.length) ∧
    (toTree (vpBuild distf pick seg.length 0 0 seg).1).points.Nodup ∧
    VpTree.TInv (posDist distf fun p => (((vpBuild distf pick seg.length 0 0 seg).2.1[p]?).map (·.2)).getD [])
      (toTree (vpBuild distf pick seg.length 0 0 seg).1) := by
  have ok := vpBuild_ok distf pick seg.length 0 0 seg (Nat.le_refl _)
  have hp : (toTree (vpBuild distf pick seg.length 0 0 seg).1).points.Perm (List.range seg.length) := by
    rw [List.range_eq_range']; exact ok.points
  refine ⟨ok.perm, hp, hp.nodup_iff.2 List.nodup_range, ok.inv _ ?_⟩
  intro j hj
  simp [List.getElem?_eq_getElem hj]

/-- … hence the `K + 1` search on the built tree returns `K + 1` nearest items, for every metric, vantage stream and
    item list (the chain "true neighbours" without a hypothesis on the tree) -/
theorem bh_neighbours_of_build {K : Type} [Field K] [LinearOrder K] [IsStrictOrderedRing K]
    (distf : List K → List K → K) (pick : Nat → Nat → Nat) (seg : List (Nat × List K))
    (hm : VpTree.IsMetric (posDist distf fun p => (((vpBuild distf pick seg.length 0 0 seg).2.1[p]?).map (·.2)).getD []))
    (hd : ∀ a b, 0 ≤ distf a b) (Kn : Nat) (hkN : Kn + 1 ≤ seg.length) (q : Nat) :
    Knn.IsKNearest (posDist distf fun p => (((vpBuild distf pick seg.length 0 0 seg).2.1[p]?).map (·.2)).getD []) q
      (toTree (vpBuild distf pick seg.length 0 0 seg).1).points (Kn + 1)
      ((vpSearch distf (fun p => (((vpBuild distf pick seg.length 0 0 seg).2.1[p]?).map (·.2)).getD [])
        ((fun p => (((vpBuild distf pick seg.length 0 0 seg).2.1[p]?).map (·.2)).getD []) q) (Kn + 1)
        (vpBuild distf pick seg.length 0 0 seg).1 ⟨none, []⟩).heap.map (·.1)) := by
  obtain ⟨-, hp, hnd, hT⟩ := vptree_build_inv distf pick seg
  exact bh_neighbours_true distf _ hm hd _ hT hnd Kn (by rw [hp.length_eq, List.length_range]; exact hkN) q

/-- **`vpBuild ⇒ TInv` for EVERY admissible outcome of `std::nth_element`**: `vpBuildWith distf pick nth` is
    `buildFromPoints` with the arrangement each `nth_element` call leaves as a parameter; for every distance function,
    every vantage stream `pick`, every `nth` meeting the library contract `NthOK` (a permutation of the range whose
    median position holds an element not nearer to the vantage point than those before it and not farther than those
    after it) and every item list, the build returns a reordering of the items and a tree over the positions
    `0 … N-1`, each exactly once, with the ball invariant `TInv` that `bh_neighbours_true` assumes -/
theorem vptree_build_inv_any_nth {K : Type} [Field K] [LinearOrder K] [IsStrictOrderedRing K]
    (distf : List K → List K → K) (pick : Nat → Nat → Nat)
    (nth : Nat → Nat × List K → List (Nat × List K) → Nat → List (Nat × List K)) (hn : NthOK distf nth)
    (seg : List (Nat × List K)) :
    (vpBuildWith distf pick nth seg.length 0 0 seg).2.1.Perm seg ∧
    (toTree (vpBuildWith distf pick nth seg.length 0 0 seg).1).points.Perm (List.range seg.length) ∧
    (toTree (vpBuildWith distf pick nth seg.length 0 0 seg).1).points.Nodup ∧
    VpTree.TInv (posDist distf fun p => (((vpBuildWith distf pick nth seg.length 0 0 seg).2.1[p]?).map (·.2)).getD [])
      (toTree (vpBuildWith distf pick nth seg.length 0 0 seg).1) := by
  have ok := vpBuildWith_ok distf pick nth hn seg.length 0 0 seg (Nat.le_refl _)
  have hp : (toTree (vpBuildWith distf pick nth seg.length 0 0 seg).1).points.Perm (List.range seg.length) := by
    rw [List.range_eq_range']; exact ok.points
  refine ⟨ok.perm, hp, hp.nodup_iff.2 List.nodup_range, ok.inv _ ?_⟩
  intro j hj
  simp [List.getElem?_eq_getElem hj]

/-- … hence the `K + 1` search is exact on every tree `buildFromPoints` can build, whatever `nth_element` does within
    its contract -/
theorem bh_neighbours_of_build_any_nth {K : Type} [Field K] [LinearOrder K] [IsStrictOrderedRing K]
    (distf : List K → List K → K) (pick : Nat → Nat → Nat)
    (nth : Nat → Nat × List K → List (Nat × List K) → Nat → List (Nat × List K)) (hn : NthOK distf nth)
    (seg : List (Nat × List K))
    (hm : VpTree.IsMetric
      (posDist distf fun p => (((vpBuildWith distf pick nth seg.length 0 0 seg).2.1[p]?).map (·.2)).getD []))
    (hd : ∀ a b, 0 ≤ distf a b) (Kn : Nat) (hkN : Kn + 1 ≤ seg.length) (q : Nat) :
    Knn.IsKNearest
      (posDist distf fun p => (((vpBuildWith distf pick nth seg.length 0 0 seg).2.1[p]?).map (·.2)).getD []) q
      (toTree (vpBuildWith distf pick nth seg.length 0 0 seg).1).points (Kn + 1)
      ((vpSearch distf (fun p => (((vpBuildWith distf pick nth seg.length 0 0 seg).2.1[p]?).map (·.2)).getD [])
        ((fun p => (((vpBuildWith distf pick nth seg.length 0 0 seg).2.1[p]?).map (·.2)).getD []) q) (Kn + 1)
        (vpBuildWith distf pick nth seg.length 0 0 seg).1 ⟨none, []⟩).heap.map (·.1)) := by
  obtain ⟨-, hp, hnd, hT⟩ := vptree_build_inv_any_nth distf pick nth hn seg
  exact bh_neighbours_true distf _ hm hd _ hT hnd Kn (by rw [hp.length_eq, List.length_range]; exact hkN) q

/-- the executable `vpBuild` (what the driver runs and `vptree_build_inv` is about) is the instance `nth = sortNth`,
    a stable sort of the tail — which meets the contract (non-vacuity of `NthOK`) -/
theorem vpBuild_is_sortNth {K : Type} [Field K] [LinearOrder K] [IsStrictOrderedRing K]
    (distf : List K → List K → K) (pick : Nat → Nat → Nat) (fuel : Nat) :
    vpBuild distf pick fuel = vpBuildWith distf pick (sortNth distf) fuel ∧ NthOK distf (sortNth distf) :=
  ⟨vpBuild_eq_with distf pick fuel, sortNth_ok distf⟩

/-! non-vacuity: two items on a line under `|a − b|` -/
def dist1 (a b : List Rat) : Rat := |a.headD 0 - b.headD 0|
def items1 : Nat → List Rat := fun p => [(p : Rat)]
def tree1 : VpNode Rat := .node 0 1 .nil (.node 1 0 .nil .nil)

example : VpTree.IsMetric (posDist dist1 items1) :=
  ⟨fun x => by simp [posDist, dist1], fun x y => by simp only [posDist, dist1]; exact abs_sub_comm _ _,
   fun x y z => by simp only [posDist, dist1]; exact abs_sub_le _ _ _⟩
example : ∀ a b, 0 ≤ dist1 a b := fun a b => abs_nonneg _
example : VpTree.TInv (posDist dist1 items1) (toTree tree1) := by
  simp [tree1, toTree, VpTree.TInv, VpTree.Tree.points, posDist, dist1, items1]
example : (toTree tree1).points.Nodup := by simp [tree1, toTree, VpTree.Tree.points]
example : 1 + 1 ≤ (toTree tree1).points.length := by simp [tree1, toTree, VpTree.Tree.points]

/-- **the two pruning rules of `search` are sound for every metric** (the step the full theorem rests on): an item `x`
    of the right subtree (`threshold ≤ d(vp,x)`) that is skipped because `d(vp,q) + τ < threshold`, and an item of the
    left subtree (`d(vp,x) ≤ threshold`) that is skipped because `threshold < d(vp,q) − τ`, are farther from the query
    than `τ`, the largest distance in the (full) result heap — so skipping them loses no neighbour. -/
theorem prune_sound {α K : Type} [Field K] [LinearOrder K] [IsStrictOrderedRing K] (d : α → α → K)
    (tri : ∀ a b c, d a c ≤ d a b + d b c) (symm : ∀ a b, d a b = d b a) (vp q x : α) (thr τ : K) :
    (thr ≤ d vp x → d vp q + τ < thr → τ < d x q) ∧ (d vp x ≤ thr → thr < d vp q - τ → τ < d x q) := by
  constructor
  · intro h1 h2
    have := tri vp q x
    rw [symm q x] at this
    linarith
  · intro h1 h2
    have := tri vp x q
    linarith

/-- the witness tree: items 0, 2, 3, 4 on a line, vantage point = first item of each range (`uniform_random() = 0`) -/
def witnessItems : List (Nat × List Rat) := [(0, [0]), (1, [2]), (2, [3]), (3, [4])]

/-- a square root that is exact on the perfect squares this witness meets -/
def sqrtW (x : Rat) : Rat :=
  if x = 1 then 1 else if x = 4 then 2 else if x = 9 then 3 else if x = 16 then 4 else 0

/-- searching the 2 nearest items of the point `2`: with the distance the code uses now (the metric) the search
    returns the item at `3`; with the squared distance it used before, the branch holding `3` is pruned
    (`dist + τ = 4 + 4 < 9 = threshold`) and the item at `0` (squared distance 4) comes back instead of the one at
    squared distance 1 -/
theorem bh_neighbours_witness :
    (let built := vpBuild (vpDistance sqrtW) (fun _ _ => 0) 5 0 0 witnessItems
     let items : Nat → List Rat := fun pos => (built.2.1.getD pos (0, [])).2
     (vpSearchTop (vpDistance sqrtW) items built.1 [2] 2).map (fun e => sqDistance (items e.1) [2]) = [0, 1]) ∧
    (let built := vpBuild sqDistance (fun _ _ => 0) 5 0 0 witnessItems
     let items : Nat → List Rat := fun pos => (built.2.1.getD pos (0, [])).2
     (vpSearchTop sqDistance items built.1 [2] 2).map (·.2) = [0, 4]) := by
  decide +kernel

/-! ### gradients -/
section
variable {K : Type} [Field K]

/-- **gradient identity** (what `computeGradient` assembles from the tree's exact sums is the exact-gradient summand):
    `pos_f − neg_f/ΣQ = Σ_m (y − y_m)·((p_m − q_m/ΣQ)·q_m)` -/
theorem gradient_identity {ι : Type} (s : Finset ι) (p q dy : ι → K) (S : K) :
    (∑ m ∈ s, p m * q m * dy m) - (∑ m ∈ s, q m * q m * dy m) / S =
      ∑ m ∈ s, dy m * ((p m - q m / S) * q m) := gradient_identity_sum s p q dy S

/-- `computeExactGradient` over the true distances is that sum, coordinate by coordinate -/
theorem exactGradientSpec_apply {N D : Nat} (P : Mat N N K) (Y : Mat N D K) (n : Fin N) (d : Fin D) :
    exactGradientSpec P Y n d =
      ∑ m, if n = m then 0 else
        (Y n d - Y m d) * ((P n m - (1 / (1 + sqEuclid Y n m)) /
            (∑ a, ∑ c, if a = c then 0 else 1 / (1 + sqEuclid Y a c))) * (1 / (1 + sqEuclid Y n m))) := by
  simp only [exactGradientSpec, exactGradientOf, sumFin_eq_sum]

end

/-! ### the Barnes–Hut gradient `computeGradient` (flat buffers, `QT_NO_DIMS = 2`) against the exact gradient

`mapOf N Y` is the flat map buffer `Y[n*2+d]` read as a matrix, `csrMat N c` the CSR similarities read as a dense matrix
(`Proofs/TsneBhExact.lean`).  The model's only other outcome is the explicit "out of quadtree fuel" state;
`bh_theta0_eq_exact_total` removes it.  Coincident map points are allowed everywhere: the tree's per-point `sum_Q` is
then NOT the exact one (C18 `forces_theta0_coincident`: a resident skips the twins it absorbed, a twin counts itself),
but the force components are, and the deviations of `sum_Q` cancel in the running total `computeGradient` divides by
(`QuadTree.corr_total`). -/
section
variable {K : Type} [Field K] [LinearOrder K] [IsStrictOrderedRing K]

/-- **in bounds** — for every `θ`, every well-formed CSR matrix and every map buffer of `N·2` cells, no read or write of
    `computeGradient` / `computeEdgeForces` / the per-point `computeNonEdgeForces` calls leaves `Y`, `pos_f`, `neg_f`,
    `dC`, `row_P`, `col_P`, `val_P` (the model's `Err.oob`); the result has `N·2` cells -/
theorem bhGradient_inbounds (fuel N : Nat) (eps θ : K) (c : Csr K) (hw : c.wellFormed N = true) (Y : Array K)
    (hY : Y.size = N * 2) :
    bhGradient fuel eps θ N 2 c Y = .error (.oob "quadtree: out of fuel") ∨
    ∃ g, bhGradient fuel eps θ N 2 c Y = .ok g ∧ g.size = N * 2 := by
  rw [bhGradient_eq fuel N eps θ c hw Y hY]
  cases QuadTree.buildIn (dataOf N Y) fuel (rootOf eps N Y) (List.range N) with
  | none => exact Or.inl rfl
  | some tree => exact Or.inr ⟨_, rfl, bhResult_size N θ c (wfc_of_wellFormed N c hw) Y tree⟩

/-- **`bh_theta0_eq_exact`** — for every `N`, every well-formed CSR similarity matrix `P` and EVERY map (coincident
    points included), `computeGradient` at `θ = 0` returns, cell by cell, the exact gradient formula over the true
    squared distances with the same `P`:  `dC[n*2+d] = Σ_{m≠n} (y_n − y_m)_d (p_nm − q_nm/ΣQ) q_nm`.
    (With `θ = 0` the summary criterion holds on no internal cell; every leaf contributes the terms of all points it
    holds, `QuadTree.forces_zero_general`; `pos_f − neg_f/ΣQ` is the exact summand, `gradient_identity`.) -/
theorem bh_theta0_eq_exact (fuel N : Nat) (eps : K) (heps : 0 ≤ eps) (c : Csr K) (hw : c.wellFormed N = true)
    (Y : Array K) (hY : Y.size = N * 2) :
    bhGradient fuel eps 0 N 2 c Y = .error (.oob "quadtree: out of fuel") ∨
    ∃ g, bhGradient fuel eps 0 N 2 c Y = .ok g ∧ g.size = N * 2 ∧
      ∀ (n : Fin N) (d : Fin 2), g.getD (n.1 * 2 + d.1) 0 = exactGradientSpec (csrMat N c) (mapOf N Y) n d := by
  rw [bhGradient_eq fuel N eps 0 c hw Y hY]
  cases hb : QuadTree.buildIn (dataOf N Y) fuel (rootOf eps N Y) (List.range N) with
  | none => exact Or.inl rfl
  | some tree =>
    exact Or.inr ⟨_, rfl, bhResult_size N 0 c (wfc_of_wellFormed N c hw) Y tree,
      bhResult_zero_getD_all fuel N eps heps c (wfc_of_wellFormed N c hw) Y tree hb⟩

/-- **θ → 0** — for every map (coincident points allowed) there is a threshold `θ₀ > 0` below which `computeGradient`
    returns exactly what it returns at `θ = 0` (the padding `eps` of the root cell is positive: `1e-5` in the code) -/
theorem bh_small_theta_eq_theta0 (fuel N : Nat) (eps : K) (heps : 0 < eps) (c : Csr K) (hw : c.wellFormed N = true)
    (Y : Array K) (hY : Y.size = N * 2) :
    ∃ θ₀ : K, 0 < θ₀ ∧ ∀ θ, θ < θ₀ → bhGradient fuel eps θ N 2 c Y = bhGradient fuel eps 0 N 2 c Y := by
  cases hb : QuadTree.buildIn (dataOf N Y) fuel (rootOf eps N Y) (List.range N) with
  | none =>
    exact ⟨1, one_pos, fun θ _ => by
      rw [bhGradient_eq fuel N eps θ c hw Y hY, bhGradient_eq fuel N eps 0 c hw Y hY, hb]⟩
  | some tree =>
    obtain ⟨θ₀, hpos, h⟩ := bhResult_small_theta fuel N eps heps c Y tree hb
    exact ⟨θ₀, hpos, fun θ hθ => by
      rw [bhGradient_eq fuel N eps θ c hw Y hY, bhGradient_eq fuel N eps 0 c hw Y hY, hb]
      simp only [h θ hθ]⟩

/-- **the chain without the fuel case** (ℚ, ℝ, any Archimedean ordered field): for every map there are a fuel bound and
    a threshold `θ₀ > 0` such that for every larger fuel and every `θ < θ₀` the Barnes–Hut gradient IS the exact
    gradient -/
theorem bh_theta0_eq_exact_total [Archimedean K] (N : Nat) (eps : K) (heps : 0 < eps) (c : Csr K)
    (hw : c.wellFormed N = true) (Y : Array K) (hY : Y.size = N * 2) :
    ∃ fuel0, ∀ fuel, fuel0 ≤ fuel → ∃ θ₀ : K, 0 < θ₀ ∧ ∀ θ, θ < θ₀ →
      ∃ g, bhGradient fuel eps θ N 2 c Y = .ok g ∧ g.size = N * 2 ∧
        ∀ (n : Fin N) (d : Fin 2), g.getD (n.1 * 2 + d.1) 0 = exactGradientSpec (csrMat N c) (mapOf N Y) n d := by
  obtain ⟨fuel0, hf⟩ := build_fuel_exists N eps Y
  refine ⟨fuel0, fun fuel hfl => ?_⟩
  obtain ⟨tree, hb⟩ := Option.isSome_iff_exists.1 (hf fuel hfl)
  obtain ⟨θ₀, hpos, h⟩ := bh_small_theta_eq_theta0 fuel N eps heps c hw Y hY
  refine ⟨θ₀, hpos, fun θ hθ => ?_⟩
  rw [h θ hθ]
  rcases bh_theta0_eq_exact fuel N eps (le_of_lt heps) c hw Y hY with he | hg
  · rw [bhGradient_eq fuel N eps 0 c hw Y hY, hb] at he
    exact absurd he (by simp)
  · exact hg
end

/-! non-vacuity: three map points (0,0), (1,0), (0,1), and the map (0,0), (0,0), (1,0) with a coincident pair; the
    3 × 3 similarity pattern used above, `eps = 1e-5`: the hypotheses hold and the model returns a gradient (fuel 8 is
    enough) -/
def mapW : Array Rat := #[0, 0, 1, 0, 0, 1]
def mapTwin : Array Rat := #[0, 0, 0, 0, 1, 0]

example : (patternCsr 3 0b100100010).wellFormed 3 = true := by decide +kernel
example : mapW.size = 3 * 2 ∧ mapTwin.size = 3 * 2 := by decide
example : (0 : Rat) < 1 / 100000 := by decide +kernel
example : (match bhGradient 8 (1 / 100000 : Rat) 0 3 2 (patternCsr 3 0b100100010) mapW with
    | .ok g => g.size == 6
    | .error _ => false) = true := by decide +kernel
example : (match bhGradient 8 (1 / 100000 : Rat) 0 3 2 (patternCsr 3 0b100100010) mapTwin with
    | .ok g => g.size == 6
    | .error _ => false) = true := by decide +kernel

/-- **`exactGradient_is_grad_KL`** — over ℝ: for every symmetric `P` whose off-diagonal entries sum to one and every map
    `Y`, the Kullback–Leibler divergence `Y ↦ Σ_{a≠c} P_ac log (P_ac / Q_ac(Y))` (`Q` the Student-t similarities
    normalised over the off-diagonal pairs) is Fréchet differentiable at `Y`, and its derivative is
    `H ↦ Σ_{n,d} 4 · exactGradientSpec P Y n d · H n d`: the routine's formula over true distances is exactly a quarter
    of the gradient (the factor 4 is absorbed in the learning rate, as in the reference implementation).
    (`KL`, `gradL`: `Proofs/TsneKL.lean`.) -/
theorem exactGradient_is_grad_KL {N D : Nat} (P : Mat N N ℝ) (hsym : ∀ n m, P n m = P m n)
    (hsum : (∑ a, ∑ c, if a = c then 0 else P a c) = 1) (Y : Fin N → Fin D → ℝ) :
    HasFDerivAt (fun Y : Fin N → Fin D → ℝ => KL P Y) (gradL fun n d => 4 * exactGradientSpec P Y n d) Y :=
  hasFDerivAt_KL P hsym hsum Y

/-- … read along a line: the derivative of `t ↦ KL(Y + t H)` at `0` is `Σ 4 · dC_nd · H_nd` for every direction `H` -/
theorem exactGradient_directional {N D : Nat} (P : Mat N N ℝ) (hsym : ∀ n m, P n m = P m n)
    (hsum : (∑ a, ∑ c, if a = c then 0 else P a c) = 1) (Y H : Fin N → Fin D → ℝ) :
    HasDerivAt (fun t : ℝ => KL P (Y + t • H)) (∑ n, ∑ d, 4 * exactGradientSpec P Y n d * H n d) 0 := by
  have hg : HasDerivAt (fun t : ℝ => Y + t • H) H 0 := by
    simpa using ((hasDerivAt_id (0 : ℝ)).smul_const H).const_add Y
  have hf : HasFDerivAt (fun Y : Fin N → Fin D → ℝ => KL P Y) (gradL fun n d => 4 * exactGradientSpec P Y n d)
      ((fun t : ℝ => Y + t • H) 0) := by
    simpa using hasFDerivAt_KL P hsym hsum Y
  have := hf.comp_hasDerivAt 0 hg
  rw [gradL_apply] at this
  exact this

/-- non-vacuity of the hypotheses: two points, `P = [[0, 1/2], [1/2, 0]]` -/
example : ∃ P : Mat 2 2 ℝ, (∀ n m, P n m = P m n) ∧ (∑ a, ∑ c, if a = c then 0 else P a c) = 1 :=
  ⟨fun a c => if a = c then 0 else 1 / 2, fun n m => by by_cases h : n = m <;> simp [h, eq_comm],
    by simp [Fin.sum_univ_two]; norm_num⟩

/-! ### `TSNE::run`: the generated statement list against the specification

`Gen/TsneRun.lean` and `Gen/TsneOps.lean` are regenerated from the body of `run` (token-level) on every check run.  The
theorems below are the obligations attached to every generated constant: what the property text (`floor(3·perplexity)`
neighbours, a *symmetrised* joint distribution that *sums to one*, a centred map) and the schedule of Barnes–Hut-SNE
(van der Maaten 2014, §5: early exaggeration 12 for the first 250 iterations, momentum 0.5 → 0.8 at iteration 250,
step size 200, 1000 iterations; gains +0.2 / ×0.8, floor 0.01 — Jacobs 1988) prescribe.  A source edit that changes any
of them stops the corresponding theorem from compiling.  The model of `run` (`Model/TsneRun.lean`) uses the generated
values, and the correspondence run compares it with the real `run` through the error values `run` logs. -/

/-- the K-NN branch uses `K = floor(3·perplexity)` neighbours and asks the tree for `K + 1` results (the query itself
    comes back first) -/
theorem run_neighbour_count :
    Gen.TsneRun.kMult = (3, 1) ∧ Gen.TsneOps.kMult = 3 ∧ Gen.TsneOps.kPlus = 1 := by decide

/-- both branches symmetrise and normalise: the dense loop body is `P[n][m] += P[m][n]; P[m][n] = P[n][m]` over `n < m`
    followed by `P /= ΣP`; the sparse branch calls `symmetrizeMatrix` and divides by `Σ val_P`; halves in the CSR routine -/
theorem run_joint_distribution :
    Gen.TsneRun.denseSymmetriseBody = true ∧ Gen.TsneRun.denseNormalise = true ∧
    Gen.TsneRun.sparseNormalise = true ∧ Gen.TsneOps.symDivisor = 2 := by decide

/-- early exaggeration: multiplied by 12 before the loop, divided by the same factor exactly when `iter == 250` -/
theorem run_exaggeration :
    Gen.TsneRun.exaggeration = (12, 1) ∧ Gen.TsneRun.unExaggeration = Gen.TsneRun.exaggeration ∧
    Gen.TsneRun.stopLyingSimple = true ∧ Gen.TsneRun.stopLyingIter = 250 := by decide

/-- the learning schedule -/
theorem run_schedule :
    Gen.TsneRun.maxIter = (1000, 1) ∧ Gen.TsneRun.momentum = (1, 2) ∧ Gen.TsneRun.finalMomentum = (4, 5) ∧
    Gen.TsneRun.momSwitchSimple = true ∧ Gen.TsneRun.momSwitchIter = 250 ∧ Gen.TsneRun.eta = (200, 1) ∧
    Gen.TsneRun.gainAdd = (1, 5) ∧ Gen.TsneRun.gainMul = (4, 5) ∧ Gen.TsneRun.gainMin = (1, 100) ∧
    Gen.TsneRun.initScale = (1, 10000) := by decide

/-- the update rule of `run` as written is the specified one (the rule against which the correspondence run checks
    every observed iteration of the real `run`) -/
theorem run_update_rule_is_spec {K : Type} [Field K] [LinearOrder K] (N D : Nat) (dC : Array K) (s : OptState K) :
    updateStep N D dC s = updateStepWith Sched.spec N D dC s := rfl

/-- the stages of `run`, in source order: input stage (centre, normalise, similarities, symmetrise, normalise —
    dense and sparse —, exaggerate, initialise), then per iteration gradient → gains → floor → velocity → position →
    centring → end of exaggeration → momentum switch -/
theorem run_stage_order :
    Gen.TsneRun.stages = ["zeroMeanX", "maxNormalise", "perplexityDense", "symmetriseDense", "normaliseDense",
      "perplexityKnn", "symmetriseCsr", "normaliseCsr", "exaggerate", "initY", "loop", "gradient", "gains",
      "gainsFloor", "velocity", "position", "zeroMeanY", "stopLying", "momentumSwitch"] := by decide

/-- the bisection tolerance is positive and at most the `1e-4` the property allows (a tighter one is fine) -/
theorem run_bisection_tolerance :
    0 < Gen.TsneOps.bisectTol.1 ∧ Gen.TsneOps.bisectTol.1 * 10000 ≤ Gen.TsneOps.bisectTol.2 := by decide

/-- the quadtree of the Barnes–Hut branch is two-dimensional with leaf capacity one (what `Model/QuadTree.lean` models) -/
theorem run_quadtree_constants : Gen.TsneOps.qtNoDims = 2 ∧ Gen.TsneOps.qtNodeCapacity = 1 := by decide

/-- with these constants the model's `run` glue is the proved pieces: the dense joint distribution is
    `normalise (symDense P)` (symmetric, sums to one: `P_dense_symm`, `P_dense_sum_one`) -/
theorem jointDenseAsWritten_eq {K : Type} [Field K] {N : Nat} (P : Mat N N K) :
    jointDenseAsWritten P = jointDense P := by
  have h1 : Gen.TsneRun.denseSymmetriseBody = true := by decide
  have h2 : Gen.TsneRun.denseNormalise = true := by decide
  simp [jointDenseAsWritten, jointDense, h1, h2]

/-! ### non-vacuity of the bisection hypotheses: `H β = 1 − β` is strictly decreasing and meets `log perplexity = −1` at `β = 2` -/
example : StrictAnti (fun b : Rat => 1 - b) := fun a b h => by simp only; linarith
example : (fun b : Rat => 1 - b) 2 = -1 := by norm_num
example : (bisectIter (fun b : Rat => 1 - b) (-1) (1 / 100000) 3 bisectInit).found = true := by decide +kernel

end TapkeeVerif.Tsne
