import TapkeeVerif.Proofs.Spectral
import TapkeeVerif.Proofs.Covariance
/-!
# C06 — PCA projects onto the leading principal subspace of the sample covariance

Model (`Model/Pca.lean`, `Model/Project.lean`): `computeMean`, `covarianceUpper X μ` (one `rankUpdate` per CENTRED sample
`x − μ` into the upper triangle, then `/= N` — the two-pass form of fix F-PCA-CANCEL, /repo 307bc32), `mirrorLower` (the
mirror line added by fix F-PCA-TRI), `covarianceMatrix`, `denseSym` / `upperView` (what the Dense / Randomized solver
reads), `embedRows P μ X` (row `i` = `Pᵀ (x_i − μ)`).
Because the model centres first exactly as the code does, `covarianceUpper_upper` is now a definitional unfolding; the
algebraic content is in `centred_moment_shift` (second moment about ANY point = Cov + rank-one offset term; `μ = 0` gives the
former one-pass form `E[xxᵀ] − m mᵀ`, `one_pass_form_eq_cov` — the defect F-PCA-CANCEL was rounding, not algebra),
`centred_sum_zero`, `covarianceMatrix_eq_cov` (mirror + symmetry), `dense_sees_cov`, `randomized_sees_cov`, `pca_optimal`.
The eigensolver enters as the contract `IsTopEig (cov X) P lam` (certificate-checked on every run by `model_c06`).
All theorems hold over every linearly ordered field (`ℝ`, `ℚ`), every `N`, `D`, `d`.
-/
namespace TapkeeVerif.C06
open TapkeeVerif TapkeeVerif.Spectral Matrix Finset

variable {K : Type} [Field K] [LinearOrder K] [IsStrictOrderedRing K]
variable {N D d : Nat}

/-- the upper triangle accumulated from the centred samples is the sample covariance `(1/N) Σ (x−m)(x−m)ᵀ` — definitional
    now that the model (like the code since 307bc32) centres first; kept as the anchor of the triangle bookkeeping -/
theorem covarianceUpper_upper (X : Mat N D K) (a b : Fin D) (hab : a ≤ b) :
    covarianceUpper X (computeMean X) a b = cov X a b :=
  TapkeeVerif.covarianceUpper_upper X a b hab

/-- **what `compute_covariance_matrix(…, mean, …)` accumulates for an ARBITRARY `mean` argument**: the covariance plus the
    rank-one term of the offset between the true mean and the argument — so the routine returns the covariance exactly when
    it is handed the training mean, and a wrong mean (a stale or differently computed vector) shows up as a rank-one error -/
theorem covarianceUpper_shift (X : Mat N D K) (μ : Vec D K) (hN : 0 < N) (a b : Fin D) (hab : a ≤ b) :
    covarianceUpper X μ a b = cov X a b + (computeMean X a - μ a) * (computeMean X b - μ b) := by
  simp only [covarianceUpper, if_pos hab, sumFin_eq_sum]
  exact centred_moment_shift X μ hN a b

/-- the former one-pass form is the same matrix in exact arithmetic: `E[x xᵀ] − m mᵀ = Cov` (the defect F-PCA-CANCEL,
    fixed in /repo 307bc32, was catastrophic cancellation in `double`, not a wrong formula) -/
theorem one_pass_form_eq_cov (X : Mat N D K) (a b : Fin D) :
    (∑ i, X i a * X i b) / (N : K) - computeMean X a * computeMean X b = cov X a b :=
  second_moment_sub_eq_cov X a b

/-- the centred samples sum to zero -/
theorem centred_sum_zero (X : Mat N D K) (hN : 0 < N) (a : Fin D) : ∑ i, centred X i a = 0 :=
  TapkeeVerif.centred_sum_zero X hN a

/-- `compute_covariance_matrix` returns the sample covariance, both triangles -/
theorem covarianceMatrix_eq_cov (X : Mat N D K) : covarianceMatrix X (computeMean X) = cov X :=
  TapkeeVerif.covarianceMatrix_eq_cov X

/-- **the Dense solver (`(M + Mᵀ)/2`) sees the sample covariance** -/
theorem dense_sees_cov (X : Mat N D K) : denseSym (pcaPre X) = cov X := TapkeeVerif.dense_sees_cov X

/-- **the Randomized solver (`selfadjointView<Upper>`) sees the sample covariance** -/
theorem randomized_sees_cov (X : Mat N D K) : upperView (pcaPre X) = cov X := TapkeeVerif.randomized_sees_cov X

/-- Why the mirror line matters (the defect F-PCA-TRI, repaired in /repo 8822822): on the upper-triangular matrix the
    Dense solver's symmetrisation halves every off-diagonal covariance, so `dense_sees_cov` is FALSE without it — it
    holds exactly for data whose features are pairwise uncorrelated. -/
theorem dense_sees_cov_without_mirror_iff (X : Mat N D K) :
    denseSym (covarianceUpper X (computeMean X)) = cov X ↔ ∀ a b, a ≠ b → cov X a b = 0 := by
  constructor
  · intro h a b hab
    have := congrFun (congrFun h a) b
    rw [denseSym_upper_half, if_neg hab] at this
    have h2 : (2 : K) ≠ 0 := two_ne_zero
    field_simp at this
    linarith
  · intro h
    funext a b
    rw [denseSym_upper_half]
    split_ifs with hab
    · rfl
    · rw [h a b hab]; simp

/-- the concrete 2 × 2 witness: samples `(0,0)`, `(2,2)` have covariance `[[1,1],[1,1]]`; without the mirror the Dense
    solver would decompose `[[1,½],[½,1]]` -/
def witnessX : Mat 2 2 Rat := fun i _ => if i = 0 then 0 else 2

theorem dense_sees_cov_without_mirror_refuted :
    ¬ ∀ X : Mat 2 2 Rat, denseSym (covarianceUpper X (computeMean X)) = cov X := by
  intro h
  have := congrFun (congrFun (h witnessX) 0) 1
  revert this
  decide +kernel

/-! ### Optimality -/

omit [LinearOrder K] [IsStrictOrderedRing K] in
/-- the embedding is (centred samples) × (projection matrix) -/
theorem embedding_eq_centred_mul (X : Mat N D K) (P : Mat D d K) :
    Mat.toM (embedRows P (computeMean X) X) = Mat.toM (centred X) * Mat.toM P := by
  ext i j
  simp only [Mat.toM_apply, embedRows, project, sumFin_eq_sum, Matrix.mul_apply, centred]
  exact Finset.sum_congr rfl fun a _ => mul_comm _ _

omit [LinearOrder K] [IsStrictOrderedRing K] in
/-- `Cov X = (1/N) · Xcᵀ Xc` -/
theorem cov_eq_gram (X : Mat N D K) :
    Mat.toM (cov X) = (1 / (N : K)) • ((Mat.toM (centred X))ᵀ * Mat.toM (centred X)) := by
  ext a b
  simp only [Mat.toM_apply, cov, sumFin_eq_sum, Matrix.smul_apply, Matrix.mul_apply, transpose_apply, centred,
    smul_eq_mul]
  rw [div_eq_mul_inv, mul_comm, one_div]

omit [LinearOrder K] [IsStrictOrderedRing K] in
theorem cov_transpose (X : Mat N D K) : (Mat.toM (cov X))ᵀ = Mat.toM (cov X) := by
  ext a b
  simp only [transpose_apply, Mat.toM_apply]
  exact cov_symm X b a

/-- **PCA is optimal.**  If the eigensolver returns a top-`d` eigensystem `(P, lam)` of the sample covariance, then
    * `P` has orthonormal columns,
    * the embedding `Y = Xc·P` has centred, uncorrelated columns whose variances are the returned eigenvalues
      (`(1/N)·YᵀY = diag lam`),
    * no other `d`-column orthonormal projection retains more variance: `tr (Qᵀ Cov Q) ≤ Σ lam` (Ky Fan). -/
theorem pca_optimal (X : Mat N D K) (hN : 0 < N) (P : Mat D d K) (lam : Vec d K)
    (h : IsTopEig (Mat.toM (cov X)) (Mat.toM P) lam) :
    (Mat.toM P)ᵀ * Mat.toM P = 1 ∧
    (∀ j, ∑ i, embedRows P (computeMean X) X i j = 0) ∧
    (1 / (N : K)) • ((Mat.toM (embedRows P (computeMean X) X))ᵀ * Mat.toM (embedRows P (computeMean X) X))
      = diagonal lam ∧
    ∀ Q : Matrix (Fin D) (Fin d) K, Qᵀ * Q = 1 → trace (Qᵀ * Mat.toM (cov X) * Q) ≤ ∑ j, lam j := by
  have hN' : (N : K) ≠ 0 := Nat.cast_ne_zero.2 hN.ne'
  refine ⟨h.ortho, ?_, ?_, fun Q hQ => h.kyFan (cov_transpose X) Q hQ⟩
  · intro j
    simp only [embedRows, project, sumFin_eq_sum]
    rw [Finset.sum_comm]
    refine Finset.sum_eq_zero fun a _ => ?_
    rw [← Finset.mul_sum, Finset.sum_sub_distrib, computeMean_eq]
    simp only [Finset.sum_const, Finset.card_univ, Fintype.card_fin, nsmul_eq_mul]
    field_simp
    ring
  · rw [embedding_eq_centred_mul, transpose_mul, Matrix.mul_assoc, ← Matrix.mul_assoc _ (Mat.toM (centred X)),
      ← Matrix.mul_smul, ← Matrix.smul_mul, ← cov_eq_gram, h.eig, ← Matrix.mul_assoc, h.ortho, Matrix.one_mul]

/-! ### PCA, linear-kernel Kernel PCA and Euclidean MDS agree -/

/-- with the linear kernel, Kernel PCA hands the Gram matrix of the centred samples to the eigensolver -/
theorem kpcaPre_linear_eq_gram (X : Mat N D K) (κ : Fin N → Fin N → K) (hκ : ∀ i j, κ i j = ∑ a, X i a * X j a) :
    Mat.toM (kpcaPre κ) = Mat.toM (centred X) * (Mat.toM (centred X))ᵀ := by
  have hK : kernelMatrix κ = fun i j => ∑ a, X i a * X j a := by
    funext i j
    unfold kernelMatrix
    split_ifs
    · exact hκ i j
    · rw [hκ j i]; exact Finset.sum_congr rfl fun a _ => mul_comm _ _
  have hsymm : ∀ i j, kernelMatrix κ i j = kernelMatrix κ j i := by
    intro i j; rw [hK]; exact Finset.sum_congr rfl fun a _ => mul_comm _ _
  have hG : Mat.toM (kernelMatrix κ) = Mat.toM X * (Mat.toM X)ᵀ := by
    ext i j; simp [hK, Matrix.mul_apply]
  unfold kpcaPre
  rw [center_eq_JAJ _ hsymm, hG, ← centering_mul_data, transpose_mul, centering_transpose]
  simp only [Matrix.mul_assoc]

/-- **Agreement of the three methods on feature data.**  With Euclidean distances and the linear kernel, MDS and
    Kernel PCA decompose the *same* matrix `G = Xc·Xcᵀ`; and the PCA embedding `Y = Xc·P` built from ANY eigensystem
    `(P, lam)` of the covariance satisfies exactly the relations that define the MDS / Kernel PCA output for the
    eigenvalues `N·lam` (`G·Y = Y·diag(N·lam)`, `YᵀY = diag(N·lam)`): the three embeddings are the same scaled eigenvector
    block of `G` — equal up to the sign of each column whenever the retained eigenvalues are simple; the covariance
    eigenvalues and the Gram eigenvalues differ by the factor `N`. -/
theorem pca_kpca_mds_agree (X : Mat N D K) (hN : 0 < N)
    (δ : Fin N → Fin N → K) (hδ : ∀ i j, δ i j * δ i j = ∑ a, (X i a - X j a) * (X i a - X j a))
    (κ : Fin N → Fin N → K) (hκ : ∀ i j, κ i j = ∑ a, X i a * X j a)
    (P : Mat D d K) (lam : Vec d K) (h : IsEigSystem (Mat.toM (cov X)) (Mat.toM P) lam) :
    Mat.toM (mdsPre δ) = Mat.toM (kpcaPre κ) ∧
    Mat.toM (mdsPre δ) * Mat.toM (embedRows P (computeMean X) X)
      = Mat.toM (embedRows P (computeMean X) X) * diagonal (fun j => (N : K) * lam j) ∧
    (Mat.toM (embedRows P (computeMean X) X))ᵀ * Mat.toM (embedRows P (computeMean X) X)
      = diagonal (fun j => (N : K) * lam j) := by
  have hN' : (N : K) ≠ 0 := Nat.cast_ne_zero.2 hN.ne'
  set Xc := Mat.toM (centred X) with hXc
  have hcov : Xcᵀ * Xc = (N : K) • Mat.toM (cov X) := by
    rw [cov_eq_gram, smul_smul, mul_one_div_cancel hN', one_smul]
  have hdiag : (N : K) • diagonal lam = diagonal (fun j => (N : K) * lam j) := by
    ext i j; simp [diagonal_apply]
  refine ⟨by rw [mdsPre_eq_gram X δ hδ, kpcaPre_linear_eq_gram X κ hκ], ?_, ?_⟩
  · rw [mdsPre_eq_gram X δ hδ, embedding_eq_centred_mul, ← hXc, Matrix.mul_assoc, ← Matrix.mul_assoc Xcᵀ, hcov,
      Matrix.smul_mul, h.eig, Matrix.mul_smul, ← Matrix.mul_assoc, ← hdiag, Matrix.mul_smul]
  · rw [embedding_eq_centred_mul, ← hXc, transpose_mul, Matrix.mul_assoc, ← Matrix.mul_assoc Xcᵀ, hcov,
      Matrix.smul_mul, h.eig, Matrix.mul_smul, ← Matrix.mul_assoc, h.ortho, Matrix.one_mul, hdiag]

/-! Non-vacuity: the hypotheses of `pca_optimal` are met by a concrete non-trivial instance
    (three samples on a line in the plane, `d = 1`, `P = e₁`). -/
example : ∃ (X : Mat 3 2 Rat) (P : Mat 2 1 Rat) (lam : Vec 1 Rat),
    IsTopEig (Mat.toM (cov X)) (Mat.toM P) lam ∧ lam 0 ≠ 0 := by
  refine ⟨fun i a => if a = 0 then (i.1 : Rat) else 5, fun a _ => if a = 0 then 1 else 0, fun _ => 2 / 3, ?_, by norm_num⟩
  refine ⟨⟨?_, ?_⟩, ?_⟩
  · ext a j
    fin_cases a <;> fin_cases j <;>
      simp [Matrix.mul_apply, Fin.sum_univ_succ, cov, computeMean, sumFin, List.finRange_succ, diagonal_apply] <;> norm_num
  · ext a j
    fin_cases a; fin_cases j
    simp [Matrix.mul_apply, Fin.sum_univ_succ]
  · intro x hx j
    have hx0 : x 0 = 0 := by
      have := congrFun hx 0
      simpa [Matrix.mulVec, dotProduct, Fin.sum_univ_succ] using this
    simp [Matrix.mulVec, dotProduct, Fin.sum_univ_succ, hx0, cov, computeMean, sumFin, List.finRange_succ]
    norm_num
    nlinarith [mul_self_nonneg (x 1)]

end TapkeeVerif.C06
