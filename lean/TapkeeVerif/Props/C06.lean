import TapkeeVerif.Model.Pca
/-! C06 property theorems (under construction; see Proofs/Spectral.lean). -/
namespace TapkeeVerif.C06

/-- the staged evaluation run by the driver is the model term -/
theorem driver_runs_cov {N D : Nat} (X : DMat N D Rat) : (covD X).get = cov X.get := covD_eq X

end TapkeeVerif.C06
