import Mathlib.Algebra.Order.Field.Rat
import TapkeeVerif.Proofs.QuadTreeForces
import TapkeeVerif.Proofs.QuadTreeFuel
import TapkeeVerif.Proofs.QuadTreeRoot
import TapkeeVerif.Proofs.QuadTreeErr
import TapkeeVerif.Proofs.QuadTreeTwins
/-!
# C18 — the Barnes–Hut quadtree stores each point once; masses and centres of mass; force sums

Subject: the executable model `Model/QuadTree.lean` of `tsne::QuadTree` (tied to the C++ by `checks/c18.py`).
Quantifiers are real: every coordinate function `data`, every root cell, **every insertion order** (any list `is` of
indices, repetitions allowed), every fuel for which the build returns, any linearly ordered field `K` (ℚ, ℝ, …).

`accepted data root is` are the indices the root's containment test lets in (all of them for the default root cell),
`acceptedPts data root is` their coordinates.

History: `mass_and_com` was false of the code until fix 348cc3a (F-QT-DUPMASS: a subdivided leaf handed only its one
resident down, not the coincident points it had absorbed); the witness a, a, b is kept as the non-vacuity example
`mass_witness` below and as the first line of corpus/C18/findings.case, so a regression is re-found by both.
-/
namespace TapkeeVerif.QuadTree

variable {K : Type} [Field K] [LinearOrder K] [IsStrictOrderedRing K]
set_option linter.unusedSectionVars false

/-- **each point exactly once; coincident points share a cell.**
    No index is stored twice, stored points have pairwise different coordinates, only inserted in-cell indices are
    stored, and every inserted in-cell index `i` is represented: the geometric route of its coordinates ends in a leaf
    whose resident has the same coordinates (it is `i` itself or the point `i` coincides with). -/
theorem each_point_once (data : Nat → K × K) (fuel : Nat) (root : Cell K) (is : List Nat) (t : Tree K)
    (h : buildIn data fuel root is = some t) :
    (allIndices t).Nodup ∧
    (allIndices t).Pairwise (fun a c => data a ≠ data c) ∧
    (∀ j ∈ allIndices t, j ∈ is ∧ root.containsPoint (data j) = true) ∧
    (∀ i ∈ is, root.containsPoint (data i) = true →
      ∃ r ∈ allIndices t, data r = data i ∧ locate (data i) t = some r) := by
  obtain ⟨hwf, -⟩ := buildIn_WF data fuel root is t h
  refine ⟨allIndices_nodup data t _ hwf, allIndices_pairwise data t _ hwf, ?_, ?_⟩
  · intro j hj
    have := stored_accepted data fuel root is t h j hj
    exact ⟨(List.mem_filter.1 this).1, (List.mem_filter.1 this).2⟩
  · intro i hi hc
    have hp : data i ∈ acceptedPts data root is := by
      rw [acceptedPts_eq]; exact List.mem_map_of_mem (List.mem_filter.2 ⟨hi, hc⟩)
    exact represented data t _ hwf (data i) hp

/-- **the default constructor `QuadTree(data, N)` accepts every point**: its root cell (mean ± largest deviation + a
    padding `eps ≥ 0`, `1e-5` in the code) contains all `N` points, so every index `i < N` is represented in the tree -/
theorem default_root_accepts_all (data : Nat → K × K) (eps : K) (heps : 0 ≤ eps) (n i : Nat) (hi : i < n) :
    (rootCell eps ((List.range n).map data)).containsPoint (data i) = true :=
  rootCell_contains_all eps heps _ _ (List.mem_map_of_mem (List.mem_range.2 hi))

theorem each_point_once_default (data : Nat → K × K) (fuel : Nat) (eps : K) (heps : 0 ≤ eps) (n : Nat) (t : Tree K)
    (h : buildDefault data fuel eps n = some t) :
    (allIndices t).Nodup ∧ ∀ i < n, ∃ r ∈ allIndices t, data r = data i ∧ locate (data i) t = some r := by
  obtain ⟨h1, -, -, h4⟩ := each_point_once data fuel _ (List.range n) t h
  exact ⟨h1, fun i hi => h4 i (List.mem_range.2 hi) (default_root_accepts_all data eps heps n i hi)⟩

/-- `isCorrect()` returns true on every tree the constructor can build -/
theorem isCorrect_true (data : Nat → K × K) (fuel : Nat) (root : Cell K) (is : List Nat) (t : Tree K)
    (h : buildIn data fuel root is = some t) : isCorrect data t = true :=
  isCorrect_of_WF data t _ (buildIn_WF data fuel root is t h).1

/-- **mass and centre of mass of every cell**, for every point list (coincident points included) and every insertion
    order.  `WF data t ps` says, recursively for the cell of `t` and the list `ps` of the accepted points routed into it:
    `cum_size = |ps|`, `cum_size • com = Σ ps` (the online-mean identity), every point of `ps` lies in the closed box, a
    leaf's points all coincide with its resident, and the four children carry exactly the geometric routes of `ps`
    (first child in NW, NE, SW, SE order whose closed cell contains the point). -/
theorem mass_and_com (data : Nat → K × K) (fuel : Nat) (root : Cell K) (is : List Nat) (t : Tree K)
    (h : buildIn data fuel root is = some t) : WF data t (acceptedPts data root is) :=
  (buildIn_WF data fuel root is t h).1

/-- … in particular at the root: mass = number of accepted points, `mass • com` = their sum -/
theorem root_mass_and_com (data : Nat → K × K) (fuel : Nat) (root : Cell K) (is : List Nat) (t : Tree K)
    (h : buildIn data fuel root is = some t) :
    t.cum = (accepted data root is).length ∧
    (t.cum : K) * t.com.1 = ((accepted data root is).map fun i => (data i).1).sum ∧
    (t.cum : K) * t.com.2 = ((accepted data root is).map fun i => (data i).2).sum := by
  have hwf := mass_and_com data fuel root is t h
  have hlen : (acceptedPts data root is).length = (accepted data root is).length := by
    rw [acceptedPts_eq, List.length_map]
  have hm : MassOK t.cum t.com (acceptedPts data root is) := by
    cases t with
    | leaf b cum com res =>
      cases res with
      | none => simp only [WF] at hwf; simp [hwf.1, hwf.2, Tree.cum, Tree.com, MassOK]
      | some r => exact hwf.2.2.1
    | node => exact hwf.2.1
  refine ⟨hwf.cum_eq.trans hlen, ?_, ?_⟩
  · rw [hm.1, acceptedPts_eq, List.map_map]; rfl
  · rw [hm.2, acceptedPts_eq, List.map_map]; rfl

/-- … and the four children's masses add up to the parent's -/
theorem children_masses_add (data : Nat → K × K) (b : Cell K) (cum : Nat) (com : K × K) (nw ne sw se : Tree K)
    (ps : List (K × K)) (h : WF data (.node b cum com nw ne sw se) ps) :
    nw.cum + ne.cum + sw.cum + se.cum = cum := children_mass_add data b cum com nw ne sw se ps h

/-- **θ = 0**: for every point list without coincident points and every insertion order, `computeNonEdgeForces(i, 0)`
    returns exactly `(Σ_{j≠i} q²(y_i − y_j), Σ_{j≠i} q)`, `q = 1/(1+‖y_i − y_j‖²)`, over the accepted points -/
theorem forces_theta0_exact (data : Nat → K × K) (fuel : Nat) (root : Cell K) (is : List Nat) (t : Tree K)
    (h : buildIn data fuel root is = some t) (hd : DistinctIdx data (accepted data root is)) (pi : Nat) :
    forces data 0 pi t ((0, 0), 0) = exactForces data (accepted data root is) pi :=
  forces_zero_exact data fuel root is t h hd pi

/-- **θ = 0 with coincident points** — what the code does when the hypothesis of `forces_theta0_exact` fails.  For
    every point list (coincident points, repeated indices allowed), every insertion order and every query index `pi`:
    the force components returned by `computeNonEdgeForces(pi, 0)` ARE the exact all-pairs sums; `sum_Q` deviates from
    the exact sum by `count − corr`, `count` = how often `pi` itself was accepted, `corr pi t` = the mass of the leaf
    whose resident is `pi` (0 if `pi` is not stored): a stored point skips the twins its leaf absorbed (`1 − k`), an
    absorbed twin counts itself (`+1`).  Without coincident points `count = corr = 1` for accepted `pi`. -/
theorem forces_theta0_coincident (data : Nat → K × K) (fuel : Nat) (root : Cell K) (is : List Nat) (t : Tree K)
    (h : buildIn data fuel root is = some t) (pi : Nat) :
    forces data 0 pi t ((0, 0), 0) =
      exactForces data (accepted data root is) pi +
        ((0, 0), (((accepted data root is).count pi : Nat) : K) - ((corr pi t : Nat) : K)) :=
  forces_zero_coincident data fuel root is t h pi

/-- … and over all query points the deviations cancel: the leaf masses of the stored points add up to the number of
    accepted points (so `Σ_pi sum_Q(pi)`, the normaliser `computeGradient` divides by, is exact for every point set —
    C17 `bh_theta0_eq_exact`) -/
theorem self_skip_total (data : Nat → K × K) (fuel : Nat) (root : Cell K) (is : List Nat) (t : Tree K)
    (h : buildIn data fuel root is = some t) (l : List Nat) (hl : l.Nodup) (hsub : ∀ r ∈ allIndices t, r ∈ l) :
    (l.map fun pi => corr pi t).sum = (accepted data root is).length := by
  have := corr_total data t _ (buildIn_WF data fuel root is t h).1 l hl hsub
  rwa [acceptedPts_eq, List.length_map] at this

/-- **θ → 0**: there is a threshold `θ₀ > 0` below which the returned pair *is* the exact all-pairs pair
    (the strongest form of "the error vanishes as θ tends to zero") -/
theorem forces_exact_below_threshold (data : Nat → K × K) (fuel : Nat) (root : Cell K) (is : List Nat) (t : Tree K)
    (h : buildIn data fuel root is = some t) (hd : DistinctIdx data (accepted data root is)) (hroot : 0 < root.hw)
    (pi : Nat) :
    ∃ θ₀ : K, 0 < θ₀ ∧ ∀ θ, θ < θ₀ →
      forces data θ pi t ((0, 0), 0) = exactForces data (accepted data root is) pi := by
  obtain ⟨hwf, hcell⟩ := buildIn_WF data fuel root is t h
  obtain ⟨θ₀, hpos, hf⟩ := forces_below_threshold data pi t (allPos_of_WF data t _ hwf (hcell ▸ hroot))
  exact ⟨θ₀, hpos, fun θ hθ => by rw [hf θ hθ, forces_zero_exact data fuel root is t h hd pi]⟩

/-- **`force_error_bound`** — the error at `θ > 0` is `O(θ²)` relative to `sum_Q`: for every point set without
    coincident points, every root cell and insertion order, every query index and every `θ` with `θ² ≤ 1/64`,
    `computeNonEdgeForces(i, θ)` returns `(neg_f, sum_Q)` with

      `|sum_Q − Σ_j q_ij| ≤ 296 θ² · sum_Q`,   `|neg_f[k] − Σ_j q_ij² (y_i − y_j)_k| ≤ 2096 θ² · sum_Q`   (`k = 0, 1`).

    (Per summarised cell the terms linear in the offsets from the centre of mass cancel; the second-order remainders are
    bounded point by point in `Proofs/QuadTreeErrPoint.lean` using `‖y_j − com‖² ≤ 8 max(hw,hh)² < 8θ²‖y_i − com‖²`.
    The constants are what that argument yields, not optimal; the check additionally TESTS the bound with `C = 16`.) -/
theorem force_error_bound (data : Nat → K × K) (fuel : Nat) (root : Cell K) (is : List Nat) (t : Tree K)
    (h : buildIn data fuel root is = some t) (hd : DistinctIdx data (accepted data root is)) (pi : Nat) (θ : K)
    (hθ : θ * θ ≤ 1 / 64) :
    0 ≤ (forces data θ pi t ((0, 0), 0)).2 ∧
    |(forces data θ pi t ((0, 0), 0)).2 - (exactForces data (accepted data root is) pi).2| ≤
      296 * (θ * θ) * (forces data θ pi t ((0, 0), 0)).2 ∧
    |(forces data θ pi t ((0, 0), 0)).1.1 - (exactForces data (accepted data root is) pi).1.1| ≤
      2096 * (θ * θ) * (forces data θ pi t ((0, 0), 0)).2 ∧
    |(forces data θ pi t ((0, 0), 0)).1.2 - (exactForces data (accepted data root is) pi).1.2| ≤
      2096 * (θ * θ) * (forces data θ pi t ((0, 0), 0)).2 := by
  obtain ⟨h0, h1, h2, h3⟩ := forces_error_exact data fuel root is t h hd pi θ (by linarith)
  have e1 : 37 * (8 * (θ * θ)) = 296 * (θ * θ) := by ring
  have e2 : 262 * (8 * (θ * θ)) = 2096 * (θ * θ) := by ring
  rw [e1] at h1; rw [e2] at h2 h3
  exact ⟨h0, h1, h2, h3⟩

/-- the square-free summary criterion of the model is the C++ test `std::max(hh, hw) / sqrt(D) < theta` for every
    value `s` a correct `sqrt` can return on `D > 0` (`D = 0` is the explicit IEEE branch of `useSummary`) -/
theorem summary_criterion_sqrt (θ D s : K) (b : Cell K) (hs : 0 < s) (hsD : s * s = D) (h1 : 0 ≤ b.hw) (h2 : 0 ≤ b.hh) :
    useSummary θ b D = true ↔ stdMax b.hh b.hw / s < θ := useSummary_iff_sqrt θ D s b hs hsD h1 h2

/-- **order independence**: for two insertion orders of the same points (`is ~ is'`) the root mass, the root centre of
    mass, the multiset of stored coordinates, and — without coincident points — the multiset of stored indices and the
    θ = 0 forces coincide -/
theorem order_independent_observables (data : Nat → K × K) (fuel fuel' : Nat) (root : Cell K) (is is' : List Nat)
    (t t' : Tree K) (hp : is.Perm is') (h : buildIn data fuel root is = some t)
    (h' : buildIn data fuel' root is' = some t') :
    t.cum = t'.cum ∧ (t.cum ≠ 0 → t.com = t'.com) ∧
    ((allIndices t).map data).Perm ((allIndices t').map data) ∧
    (DistinctIdx data (accepted data root is) →
      (allIndices t).Perm (allIndices t') ∧
      ∀ pi, forces data 0 pi t ((0, 0), 0) = forces data 0 pi t' ((0, 0), 0)) := by
  have hacc : (accepted data root is).Perm (accepted data root is') := hp.filter _
  obtain ⟨c1, a1, a2⟩ := root_mass_and_com data fuel root is t h
  obtain ⟨c2, b1, b2⟩ := root_mass_and_com data fuel' root is' t' h'
  obtain ⟨hwf, -⟩ := buildIn_WF data fuel root is t h
  obtain ⟨hwf', -⟩ := buildIn_WF data fuel' root is' t' h'
  have hcum : t.cum = t'.cum := by rw [c1, c2, hacc.length_eq]
  refine ⟨hcum, ?_, ?_, ?_⟩
  · intro hne
    have hk : (t.cum : K) ≠ 0 := by exact_mod_cast hne
    rw [← hcum] at b1 b2
    have s1 := (hacc.map fun i => (data i).1).sum_eq
    have s2 := (hacc.map fun i => (data i).2).sum_eq
    apply Prod.ext
    · exact mul_left_cancel₀ hk (by rw [a1, b1, s1])
    · exact mul_left_cancel₀ hk (by rw [a2, b2, s2])
  · have n1 : ((allIndices t).map data).Nodup :=
      (List.pairwise_map.2 (allIndices_pairwise data t _ hwf))
    have n2 : ((allIndices t').map data).Nodup :=
      (List.pairwise_map.2 (allIndices_pairwise data t' _ hwf'))
    have hpts : ∀ p, p ∈ acceptedPts data root is ↔ p ∈ acceptedPts data root is' := by
      intro p; rw [acceptedPts_eq, acceptedPts_eq]; exact (hacc.map data).mem_iff
    rw [List.perm_ext_iff_of_nodup n1 n2]
    intro p
    simp only [List.mem_map]
    constructor
    · rintro ⟨j, hj, rfl⟩
      have hin := stored_mem data t _ hwf j hj
      obtain ⟨r, hr, hd, -⟩ := represented data t' _ hwf' (data j) ((hpts _).1 hin)
      exact ⟨r, hr, hd⟩
    · rintro ⟨j, hj, rfl⟩
      have hin := stored_mem data t' _ hwf' j hj
      obtain ⟨r, hr, hd, -⟩ := represented data t _ hwf (data j) ((hpts _).2 hin)
      exact ⟨r, hr, hd⟩
  · intro hd
    have hd' : DistinctIdx data (accepted data root is') := by
      unfold DistinctIdx at hd ⊢
      exact (hacc.pairwise_iff (fun {a c} (hh : data a ≠ data c) => fun e => hh e.symm)).1 hd
    have p1 := allIndices_perm data fuel root is t h hd
    have p2 := allIndices_perm data fuel' root is' t' h' hd'
    refine ⟨p1.trans (hacc.trans p2.symm), fun pi => ?_⟩
    rw [forces_zero_exact data fuel root is t h hd pi, forces_zero_exact data fuel' root is' t' h' hd' pi]
    exact exactForces_perm data pi hacc

/-- **termination**: `insert` never runs out of fuel once `2·max(hw,hh) < g·2^fuel`, `g` a lower bound for the coordinate
    gap of non-coincident points (the driver passes `fuelBound + 2`, the least such exponent plus two) -/
theorem fuel_suffices (data : Nat → K × K) (g : K) (n fuel : Nat) (root : Cell K) (is : List Nat)
    (hgap : Gap (is.map data) g) (hlev : 2 * max root.hw root.hh < g * 2 ^ n) (hn : n ≤ fuel) :
    (buildIn data fuel root is).isSome :=
  fillList_isSome data g n fuel hn is (emptyLeaf root) [] (WF_emptyLeaf data root) (by simpa using hgap)
    (by simpa using hlev)

/-- … and the fuel is only a bound: a larger one returns the same tree -/
theorem fuel_irrelevant (data : Nat → K × K) (fuel extra : Nat) (root : Cell K) (is : List Nat) (t : Tree K)
    (h : buildIn data fuel root is = some t) : buildIn data (fuel + extra) root is = some t := by
  induction extra with
  | zero => exact h
  | succ e ih => exact fillList_mono data (fuel + e) is _ t ih

/-- over ℚ, ℝ (any Archimedean ordered field) such a fuel exists for every positive gap -/
theorem fuel_exists [Archimedean K] (data : Nat → K × K) (g : K) (hg : 0 < g) (root : Cell K) (is : List Nat)
    (hgap : Gap (is.map data) g) : ∃ fuel, ∀ fuel' ≥ fuel, (buildIn data fuel' root is).isSome := by
  obtain ⟨n, hn⟩ := exists_level (2 * max root.hw root.hh) g hg
  exact ⟨n, fun fuel' hf => fuel_suffices data g n fuel' root is hgap hn hf⟩

/-! ### non-vacuity and the old witness -/
def rootW : Cell Rat := ⟨0, 0, 1, 1⟩

/-- the points a, a, b (F-QT-DUPMASS) -/
def dataW : Nat → Rat × Rat := fun i => if i = 2 then (-1 / 2, -1 / 2) else (1 / 2, 1 / 2)

/-- `cum_size` of the south-east child -/
def seCum : Tree Rat → Option Nat
  | .node _ _ _ _ _ _ se => some se.cum
  | .leaf .. => none

/-- after inserting a, a, b the cell holding the two coincident points has mass 2 (it was 1 before the fix) -/
theorem mass_witness : (buildIn dataW 3 rootW [0, 1, 2]).bind seCum = some 2 := by decide +kernel

/-- `DistinctIdx` is needed in `forces_theta0_exact`: for a, a, b the twin `1` gets `sum_Q = exact + 1`, the resident
    `0` gets `exact − 1` (the force components agree) -/
theorem forces_theta0_twins_witness :
    ((buildIn dataW 3 rootW [0, 1, 2]).map fun t =>
      decide ((forces dataW 0 1 t ((0, 0), 0)).2 = (exactForces dataW [0, 1, 2] 1).2 + 1 ∧
        (forces dataW 0 0 t ((0, 0), 0)).2 = (exactForces dataW [0, 1, 2] 0).2 - 1 ∧
        (forces dataW 0 1 t ((0, 0), 0)).1 = (exactForces dataW [0, 1, 2] 1).1)) = some true := by decide +kernel

/-- three distinct points, one on a cell boundary, inserted in the order 2, 0, 1 -/
def dataE : Nat → Rat × Rat := fun i => if i = 0 then (0, 0) else if i = 1 then (1 / 2, 1 / 4) else (-3 / 4, 1)

example : (buildIn dataE 4 rootW [2, 0, 1]).isSome = true := by decide +kernel
example : DistinctIdx dataE (accepted dataE rootW [2, 0, 1]) := by
  unfold DistinctIdx; decide +kernel
example : (0 : Rat) < rootW.hw := by decide +kernel
example : Gap ([2, 0, 1].map dataE) (1 / 4) := by
  intro p hp q hq hne
  simp only [List.map_cons, List.map_nil, List.mem_cons, List.mem_nil_iff, or_false] at hp hq
  rcases hp with rfl | rfl | rfl <;> rcases hq with rfl | rfl | rfl <;>
    first
      | exact absurd rfl hne
      | (left; decide +kernel)
example : 2 * max rootW.hw rootW.hh < (1 / 4 : Rat) * 2 ^ 4 := by decide +kernel

/-- `force_error_bound` is not vacuous and not trivial: a query far from a pair of points, `θ = 1/8` — the tree
    summarises the pair's cell (the result differs from the `θ = 0` one) -/
def dataS : Nat → Rat × Rat := fun i => if i = 0 then (-7 / 8, -7 / 8) else if i = 1 then (3 / 4, 3 / 4) else (7 / 8, 7 / 8)

example : ((buildIn dataS 5 rootW [0, 1, 2]).map fun t =>
    decide (forces dataS (1 / 8) 0 t ((0, 0), 0) ≠ forces dataS 0 0 t ((0, 0), 0))) = some true := by decide +kernel
example : DistinctIdx dataS (accepted dataS rootW [0, 1, 2]) := by
  unfold DistinctIdx; decide +kernel
example : ((1 : Rat) / 8) * (1 / 8) ≤ 1 / 64 := by decide +kernel

end TapkeeVerif.QuadTree
