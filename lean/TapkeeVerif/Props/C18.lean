import Mathlib.Algebra.Order.Field.Rat
import TapkeeVerif.Proofs.QuadTreeForces
import TapkeeVerif.Proofs.QuadTreeFuel
/-!
# C18 — the Barnes–Hut quadtree stores each point once; masses and centres of mass; force sums

Subject: the executable model `Model/QuadTree.lean` of `tsne::QuadTree` (tied to the C++ by `checks/c18.py`).
Quantifiers are real: every coordinate function `data`, every root cell, **every insertion order** (any list `is` of
indices, repetitions allowed), every fuel for which the build returns, any linearly ordered field `K` (ℚ, ℝ, …).

`accepted data root is` are the indices the root's containment test lets in (all of them for the default root cell).

Finding kept here as a checked refutation: `mass_and_com_refuted` (F-QT-DUPMASS) — a leaf that absorbed coincident
points hands only its one resident down when it is subdivided, so a child cell's `cum_size` undercounts the points inside
its box.  The full statement is therefore false of the code; `mass_and_com_partial` is what holds (no coincident points),
`root_mass_and_com` what holds always.
-/
namespace TapkeeVerif.QuadTree

variable {K : Type} [Field K] [LinearOrder K] [IsStrictOrderedRing K]
set_option linter.unusedSectionVars false

/-- the indices that pass the root's containment test, in insertion order -/
def accepted (data : Nat → K × K) (root : Cell K) (is : List Nat) : List Nat :=
  is.filter fun j => root.containsPoint (data j)

/-- **each point exactly once; coincident points share a cell.**
    No index is stored twice, stored points have pairwise different coordinates, only inserted in-cell indices are
    stored, and every inserted in-cell index `i` is represented: the geometric route of its coordinates ends in a leaf
    whose resident has the same coordinates (it is `i` itself or the point `i` coincides with). -/
theorem each_point_once (data : Nat → K × K) (fuel : Nat) (root : Cell K) (is : List Nat) (t : Tree K)
    (h : buildIn data fuel root is = some t) :
    (allIndices t).Nodup ∧
    (allIndices t).Pairwise (fun a c => data a ≠ data c) ∧
    (∀ j ∈ allIndices t, j ∈ is ∧ root.containsPoint (data j) = true) ∧
    (∀ i ∈ is, root.containsPoint (data i) = true →
      ∃ r ∈ allIndices t, data r = data i ∧ locate (data i) t = some r) := by
  obtain ⟨hwf, -⟩ := buildIn_WF data fuel root is t h
  refine ⟨allIndices_nodup data t _ hwf, allIndices_pairwise data t _ hwf, ?_, ?_⟩
  · intro j hj
    have := allIndices_sub data t _ hwf j hj
    exact ⟨(List.mem_filter.1 this).1, (List.mem_filter.1 this).2⟩
  · intro i hi hc
    exact represented data t _ hwf i (List.mem_filter.2 ⟨hi, hc⟩)

/-- `isCorrect()` returns true on every tree the constructor can build -/
theorem isCorrect_true (data : Nat → K × K) (fuel : Nat) (root : Cell K) (is : List Nat) (t : Tree K)
    (h : buildIn data fuel root is = some t) : isCorrect data t = true :=
  isCorrect_of_WF data t _ (buildIn_WF data fuel root is t h).1

/-- the root's mass and centre of mass are the count and the mean of all accepted points — coincident ones included,
    whatever the order (`cum_size • com = Σ`) -/
theorem root_mass_and_com (data : Nat → K × K) (fuel : Nat) (root : Cell K) (is : List Nat) (t : Tree K)
    (h : buildIn data fuel root is = some t) :
    t.cum = (accepted data root is).length ∧ MassOK data t.cum t.com (accepted data root is) := by
  obtain ⟨hwf, -⟩ := buildIn_WF data fuel root is t h
  cases t with
  | leaf b cum com res =>
    cases res with
    | none =>
      simp only [WF] at hwf
      simp [accepted, hwf.1, hwf.2, Tree.cum, Tree.com, MassOK]
    | some r =>
      simp only [WF] at hwf
      obtain ⟨dups, he, hcum, hmass, -⟩ := hwf
      exact ⟨hcum, hmass⟩
  | node b cum com nw ne sw se =>
    simp only [WF] at hwf
    obtain ⟨r, dups, rest, he, hcum, hmass, -⟩ := hwf
    exact ⟨hcum, hmass⟩

/- FULL STATEMENT (false of the code, see `mass_and_com_refuted`):
     ∀ data fuel root is t, buildIn data fuel root is = some t → ExactMass data t (accepted data root is)
   i.e. for EVERY cell: cum_size = number of accepted points routed into it ∧ cum_size • com = their sum ∧ they lie in
   its closed box ∧ the children's lists are the routes of the parent's list (so the children's masses add up). -/

/-- **mass and centre of mass of every cell** (`ExactMass`: `cum_size` = number of points routed into the cell,
    `cum_size • com` = their sum — the online-mean identity —, all of them inside the closed box, children = routes of
    the parent) — for every point list without coincident points and every insertion order -/
theorem mass_and_com_partial (data : Nat → K × K) (fuel : Nat) (root : Cell K) (is : List Nat) (t : Tree K)
    (h : buildIn data fuel root is = some t) (hd : Distinct data (accepted data root is)) :
    ExactMass data t (accepted data root is) :=
  exactMass_of_distinct data t _ (buildIn_WF data fuel root is t h).1 hd

/-- … and then the four children's masses add up to the parent's -/
theorem children_masses_add (data : Nat → K × K) (b : Cell K) (cum : Nat) (com : K × K) (nw ne sw se : Tree K)
    (is : List Nat) (h : ExactMass data (.node b cum com nw ne sw se) is) :
    nw.cum + ne.cum + sw.cum + se.cum = cum := children_mass_add data b cum com nw ne sw se is h

/-! #### the refutation witness (F-QT-DUPMASS): the points a, a, b in this order -/
def dataW : Nat → Rat × Rat := fun i => if i = 2 then (-1 / 2, -1 / 2) else (1 / 2, 1 / 2)
def rootW : Cell Rat := ⟨0, 0, 1, 1⟩

/-- `cum_size` of the south-east child -/
def seCum : Tree K → Option Nat
  | .node _ _ _ _ _ _ se => some se.cum
  | .leaf .. => none

theorem seCum_of_exactMass (data : Nat → K × K) (t : Tree K) (is : List Nat) (h : ExactMass data t is) (c : Nat)
    (hc : seCum t = some c) : c = (is.filter fun i => rSE t.cell (data i)).length := by
  cases t with
  | leaf => simp [seCum] at hc
  | node b cum com nw ne sw se =>
    simp only [seCum, Option.some.injEq] at hc
    obtain ⟨-, -, -, -, -, -, -, -, -, -, m4⟩ := h
    rw [← hc]; exact m4.cum_eq

/-- the full mass statement is false of the code as it stands: after inserting a, a, b the cell that contains the two
    coincident points has `cum_size = 1` -/
theorem mass_and_com_refuted :
    ¬ (∀ (data : Nat → Rat × Rat) (fuel : Nat) (root : Cell Rat) (is : List Nat) (t : Tree Rat),
        buildIn data fuel root is = some t → ExactMass data t (accepted data root is)) := by
  intro hall
  have hsome : (buildIn dataW 3 rootW [0, 1, 2]).isSome = true := by decide +kernel
  obtain ⟨t, ht⟩ := Option.isSome_iff_exists.1 hsome
  have hm := hall dataW 3 rootW [0, 1, 2] t ht
  have hse : (buildIn dataW 3 rootW [0, 1, 2]).bind seCum = some 1 := by decide +kernel
  have hcell : (buildIn dataW 3 rootW [0, 1, 2]).map Tree.cell = some rootW := by
    rw [ht]; simp [(buildIn_WF dataW 3 rootW [0, 1, 2] t ht).2]
  rw [ht] at hse hcell
  simp only [Option.bind_some, Option.map_some, Option.some.injEq] at hse hcell
  have := seCum_of_exactMass dataW t _ hm 1 hse
  rw [hcell] at this
  have hlen : ((accepted dataW rootW [0, 1, 2]).filter fun i => rSE rootW (dataW i)).length = 2 := by
    decide +kernel
  omega

/-- **θ = 0**: for every point list without coincident points and every insertion order, `computeNonEdgeForces(i, 0)`
    returns exactly `(Σ_{j≠i} q²(y_i − y_j), Σ_{j≠i} q)`, `q = 1/(1+‖y_i − y_j‖²)`, over the accepted points -/
theorem forces_theta0_exact (data : Nat → K × K) (fuel : Nat) (root : Cell K) (is : List Nat) (t : Tree K)
    (h : buildIn data fuel root is = some t) (hd : Distinct data (accepted data root is)) (pi : Nat) :
    forces data 0 pi t ((0, 0), 0) = exactForces data (accepted data root is) pi :=
  forces_zero_exact data pi t _ (buildIn_WF data fuel root is t h).1 hd

/-- **θ → 0**: there is a threshold `θ₀ > 0` below which the returned pair *is* the exact all-pairs pair
    (the strongest form of "the error vanishes as θ tends to zero") -/
theorem forces_exact_below_threshold (data : Nat → K × K) (fuel : Nat) (root : Cell K) (is : List Nat) (t : Tree K)
    (h : buildIn data fuel root is = some t) (hd : Distinct data (accepted data root is)) (hroot : 0 < root.hw)
    (pi : Nat) :
    ∃ θ₀ : K, 0 < θ₀ ∧ ∀ θ, θ < θ₀ →
      forces data θ pi t ((0, 0), 0) = exactForces data (accepted data root is) pi := by
  obtain ⟨hwf, hcell⟩ := buildIn_WF data fuel root is t h
  obtain ⟨θ₀, hpos, hf⟩ := forces_below_threshold data pi t (allPos_of_WF data t _ hwf (hcell ▸ hroot))
  exact ⟨θ₀, hpos, fun θ hθ => by rw [hf θ hθ, forces_zero_exact data pi t _ hwf hd]; rfl⟩

/-- the square-free summary criterion of the model is the C++ test `std::max(hh, hw) / sqrt(D) < theta` for every
    value `s` a correct `sqrt` can return on `D > 0` (`D = 0` is the explicit IEEE branch of `useSummary`) -/
theorem summary_criterion_sqrt (θ D s : K) (b : Cell K) (hs : 0 < s) (hsD : s * s = D) (h1 : 0 ≤ b.hw) (h2 : 0 ≤ b.hh) :
    useSummary θ b D = true ↔ stdMax b.hh b.hw / s < θ := useSummary_iff_sqrt θ D s b hs hsD h1 h2

/-- **order independence**: for two insertion orders of the same points (`is ~ is'`) the root mass, the root centre of
    mass, the multiset of stored coordinates, and — without coincident points — the multiset of stored indices and the
    θ = 0 forces coincide -/
theorem order_independent_observables (data : Nat → K × K) (fuel fuel' : Nat) (root : Cell K) (is is' : List Nat)
    (t t' : Tree K) (hp : is.Perm is') (h : buildIn data fuel root is = some t)
    (h' : buildIn data fuel' root is' = some t') :
    t.cum = t'.cum ∧ (t.cum ≠ 0 → t.com = t'.com) ∧
    ((allIndices t).map data).Perm ((allIndices t').map data) ∧
    (Distinct data (accepted data root is) →
      (allIndices t).Perm (allIndices t') ∧
      ∀ pi, forces data 0 pi t ((0, 0), 0) = forces data 0 pi t' ((0, 0), 0)) := by
  have hacc : (accepted data root is).Perm (accepted data root is') := hp.filter _
  obtain ⟨c1, m1⟩ := root_mass_and_com data fuel root is t h
  obtain ⟨c2, m2⟩ := root_mass_and_com data fuel' root is' t' h'
  obtain ⟨hwf, -⟩ := buildIn_WF data fuel root is t h
  obtain ⟨hwf', -⟩ := buildIn_WF data fuel' root is' t' h'
  have hcum : t.cum = t'.cum := by rw [c1, c2, hacc.length_eq]
  refine ⟨hcum, ?_, ?_, ?_⟩
  · intro hne
    have hk : (t.cum : K) ≠ 0 := by exact_mod_cast hne
    obtain ⟨a1, a2⟩ := m1
    obtain ⟨b1, b2⟩ := m2
    rw [← hcum] at b1 b2
    have s1 := (hacc.map fun i => (data i).1).sum_eq
    have s2 := (hacc.map fun i => (data i).2).sum_eq
    apply Prod.ext
    · exact mul_left_cancel₀ hk (by rw [a1, b1, s1])
    · exact mul_left_cancel₀ hk (by rw [a2, b2, s2])
  · have n1 : ((allIndices t).map data).Nodup :=
      (List.pairwise_map.2 (allIndices_pairwise data t _ hwf))
    have n2 : ((allIndices t').map data).Nodup :=
      (List.pairwise_map.2 (allIndices_pairwise data t' _ hwf'))
    rw [List.perm_ext_iff_of_nodup n1 n2]
    intro p
    simp only [List.mem_map]
    constructor
    · rintro ⟨j, hj, rfl⟩
      have hin := allIndices_sub data t _ hwf j hj
      obtain ⟨r, hr, hd, -⟩ := represented data t' _ hwf' j (hacc.subset hin)
      exact ⟨r, hr, hd⟩
    · rintro ⟨j, hj, rfl⟩
      have hin := allIndices_sub data t' _ hwf' j hj
      obtain ⟨r, hr, hd, -⟩ := represented data t _ hwf j (hacc.symm.subset hin)
      exact ⟨r, hr, hd⟩
  · intro hd
    have hd' : Distinct data (accepted data root is') := by
      unfold Distinct at hd ⊢
      exact (hacc.pairwise_iff (fun {a c} (hh : data a ≠ data c) => fun e => hh e.symm)).1 hd
    have p1 := allIndices_perm data t _ hwf hd
    have p2 := allIndices_perm data t' _ hwf' hd'
    refine ⟨p1.trans (hacc.trans p2.symm), fun pi => ?_⟩
    rw [forces_zero_exact data pi t _ hwf hd, forces_zero_exact data pi t' _ hwf' hd']
    exact exactForces_perm data pi hacc

/-- **termination**: `insert` never runs out of fuel once `2·max(hw,hh) < g·2^fuel`, `g` a lower bound for the coordinate
    gap of non-coincident points (the driver passes `fuelBound + 2`, the least such exponent plus two) -/
theorem fuel_suffices (data : Nat → K × K) (g : K) (n fuel : Nat) (root : Cell K) (is : List Nat)
    (hgap : Gap data is g) (hlev : 2 * max root.hw root.hh < g * 2 ^ n) (hn : n ≤ fuel) :
    (buildIn data fuel root is).isSome :=
  fillList_isSome data g n fuel hn is (emptyLeaf root) [] (WF_emptyLeaf data root) (by simpa using hgap)
    (by simpa using hlev)

/-- … and the fuel is only a bound: a larger one returns the same tree -/
theorem fuel_irrelevant (data : Nat → K × K) (fuel extra : Nat) (root : Cell K) (is : List Nat) (t : Tree K)
    (h : buildIn data fuel root is = some t) : buildIn data (fuel + extra) root is = some t := by
  induction extra with
  | zero => exact h
  | succ e ih => exact fillList_mono data (fuel + e) is _ t ih

/-- over ℚ, ℝ (any Archimedean ordered field) such a fuel exists for every positive gap -/
theorem fuel_exists [Archimedean K] (data : Nat → K × K) (g : K) (hg : 0 < g) (root : Cell K) (is : List Nat)
    (hgap : Gap data is g) : ∃ fuel, ∀ fuel' ≥ fuel, (buildIn data fuel' root is).isSome := by
  obtain ⟨n, hn⟩ := exists_level (2 * max root.hw root.hh) g hg
  exact ⟨n, fun fuel' hf => fuel_suffices data g n fuel' root is hgap hn hf⟩

/-! ### non-vacuity: the hypotheses are met by a concrete non-trivial instance (three distinct points, one on a cell
    boundary, inserted in the order 2, 0, 1) -/
def dataE : Nat → Rat × Rat := fun i => if i = 0 then (0, 0) else if i = 1 then (1 / 2, 1 / 4) else (-3 / 4, 1)

example : (buildIn dataE 4 rootW [2, 0, 1]).isSome = true := by decide +kernel
example : Distinct dataE (accepted dataE rootW [2, 0, 1]) := by
  unfold Distinct; decide +kernel
example : (0 : Rat) < rootW.hw := by decide +kernel
example : Gap dataE [2, 0, 1] (1 / 4) := by
  intro a ha c hc hne
  simp only [List.mem_cons, List.mem_nil_iff, or_false] at ha hc
  rcases ha with rfl | rfl | rfl <;> rcases hc with rfl | rfl | rfl <;>
    first
      | exact absurd rfl hne
      | (left; decide +kernel)
example : 2 * max rootW.hw rootW.hh < (1 / 4 : Rat) * 2 ^ 4 := by decide +kernel

end TapkeeVerif.QuadTree
