import TapkeeVerif.Model.QuadTree
/-! C18 — property theorems (being filled in; see Proofs/QuadTree*.lean). -/
namespace TapkeeVerif.QuadTree

theorem allIndices_emptyLeaf {K : Type} [Zero K] (b : Cell K) : allIndices (emptyLeaf b) = [] := rfl

end TapkeeVerif.QuadTree
