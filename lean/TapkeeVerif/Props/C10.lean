import TapkeeVerif.Model.LinearGraph
import TapkeeVerif.Proofs.LinearGraph
/-!
C10 property theorems: the feature-space generalised eigenproblem `(lhs, rhs)` built by NPE / LLTSA / LPP
(`construct_neighborhood_preserving_eigenproblem`, `construct_lltsa_eigenproblem`,
`construct_locality_preserving_eigenproblem`) and what `Eigen::GeneralizedSelfAdjointEigenSolver` reads of it.

`F : Mat N D K` holds the samples as ROWS, so the property's `X M Xᵀ` is `Fᵀ M F = fullForm M F` and
`X diag(w) Xᵀ` is `fullDiagForm w F`.  The code accumulates into the UPPER triangles, the solver reads the LOWER
ones (`genSolveLower`): the needed statement `SolverSeesFull` is false of the code as it is (finding F-LIN-TRI,
`solver_sees_XMXt_refuted`); the partial twins `solver_sees_diag*` say what the solver does see; `*_fixed` prove that
the proposed patch (`fixes/F-LIN-TRI.diff` + `fixes/F-LLTSA-CENTRE.diff`) makes the full statement true.
Helper lemmas: `Proofs/LinearGraph.lean`, `Proofs/LinearGraphFixed.lean`.
-/
namespace TapkeeVerif.C10
open TapkeeVerif TapkeeVerif.LinearGraph

variable {K : Type} [Field K] {N D : Nat}

/-! ## 1. the accumulation loops (any `W`, any weights) -/

/-- `rhs` after `for iter: rhs.selfadjointView<Upper>().rankUpdate(x_iter, wt(iter))`: upper triangle only -/
theorem sample_loop_get (F : Mat N D K) (wt : Vec N K) (i j : Fin D) :
    (sampleSumD F wt).get i j = if i ≤ j then ∑ r, wt r * (F r i * F r j) else 0 :=
  sampleSumD_get F wt i j

/-- `lhs` after the loop over the stored entries of the sparse matrix (no symmetry assumed): upper triangle only -/
theorem weight_loop_get (W : Mat N N K) (F : Mat N D K) (i j : Fin D) :
    (weightSumD W F).get i j
      = if i ≤ j then ∑ c, ∑ r, W r c * (F r i * F c j + F c i * F r j) else 0 :=
  weightSumD_get W F i j

/-! ## 2. what the three routines return -/

/-- NPE: on and above the diagonal `lhs = 2 · Fᵀ W F` (each stored entry contributes `v (x_r x_cᵀ + x_c x_rᵀ)`) -/
theorem lhs_upper_eq {W : Mat N N K} (hW : ∀ r c, W r c = W c r) (F : Mat N D K) :
    ∀ i j, i ≤ j → (npeProblem W F).1 i j = 2 * fullForm W F i j := by
  intro i j h
  rw [npe_lhs_get hW]
  exact if_pos h

/-- NPE: `lhs` is returned with its strictly lower triangle still zero -/
theorem lhs_strict_lower_zero (W : Mat N N K) (F : Mat N D K) :
    ∀ i j, j < i → (npeProblem W F).1 i j = 0 := by
  intro i j h
  rw [npeProblem_fst, weightSumD_get, if_neg (not_le.mpr h)]

example : ∀ r c : Fin 2, refuteW r c = refuteW c r := refuteW_symm

/-- NPE: the `rhs += rhsᵀ; rhs /= 2` lines HALVE the off-diagonal of `Fᵀ F`, because `rhs` was upper-only -/
theorem npe_rhs_eq (W : Mat N N K) (F : Mat N D K) (h2 : (2 : K) ≠ 0) (i j : Fin D) :
    (npeProblem W F).2 i j
      = if i = j then fullDiagForm (fun _ => 1) F i i else fullDiagForm (fun _ => 1) F i j / 2 :=
  npe_rhs_get W F h2 i j

example : (2 : ℚ) ≠ 0 := by decide

/-- LPP: `lhs = 2 · Fᵀ L F` on and above the diagonal -/
theorem lpp_lhs_upper_eq {L : Mat N N K} (hL : ∀ r c, L r c = L c r) (Dg : Vec N K) (F : Mat N D K) :
    ∀ i j, i ≤ j → (lppProblem L Dg F).1 i j = 2 * fullForm L F i j := by
  intro i j h
  rw [lpp_lhs_get hL]
  exact if_pos h

theorem lpp_lhs_strict_lower_zero (L : Mat N N K) (Dg : Vec N K) (F : Mat N D K) :
    ∀ i j, j < i → (lppProblem L Dg F).1 i j = 0 := by
  intro i j h
  rw [lppProblem_fst, weightSumD_get, if_neg (not_le.mpr h)]

/-- LPP: `rhs = Fᵀ diag(Dg) F` on and above the diagonal -/
theorem lpp_rhs_upper_eq (L : Mat N N K) (Dg : Vec N K) (F : Mat N D K) :
    ∀ i j, i ≤ j → (lppProblem L Dg F).2 i j = fullDiagForm Dg F i j := by
  intro i j h
  rw [lpp_rhs_get]
  exact if_pos h

theorem lpp_rhs_strict_lower_zero (L : Mat N N K) (Dg : Vec N K) (F : Mat N D K) :
    ∀ i j, j < i → (lppProblem L Dg F).2 i j = 0 := by
  intro i j h
  rw [lpp_rhs_get]
  exact if_neg (not_le.mpr h)

/-- LLTSA: what the code computes on and above the diagonal is `2 Fᵀ W F − s sᵀ / N` (`s` = sum of the samples);
    the extra `− s sᵀ / N` term is finding F-LLTSA-CENTRE -/
theorem lltsa_lhs_upper_eq {W : Mat N N K} (hW : ∀ r c, W r c = W c r) (F : Mat N D K) :
    ∀ i j, i ≤ j →
      (lltsaProblem W F).1 i j = 2 * fullForm W F i j - featureSum F i * featureSum F j / (N : K) := by
  intro i j h
  rw [lltsa_lhs_get hW]
  exact if_pos h

theorem lltsa_lhs_strict_lower_zero {W : Mat N N K} (hW : ∀ r c, W r c = W c r) (F : Mat N D K) :
    ∀ i j, j < i → (lltsaProblem W F).1 i j = 0 := by
  intro i j h
  rw [lltsa_lhs_get hW]
  exact if_neg (not_le.mpr h)

/-- `Fᵀ (1 − 11ᵀ/N) F = Fᵀ F − s sᵀ / N` (no hypothesis on `N`: for `N = 0` both sides are `0`) -/
theorem fullForm_centering (F : Mat N D K) (i j : Fin D) :
    fullForm centering F i j
      = fullDiagForm (fun _ => 1) F i j - featureSum F i * featureSum F j / (N : K) :=
  LinearGraph.fullForm_centering F i j

/-- LLTSA: `rhs` is the centred second-moment matrix `Fᵀ H F` with its off-diagonal HALVED -/
theorem lltsa_rhs_eq (W : Mat N N K) (F : Mat N D K) (h2 : (2 : K) ≠ 0) (i j : Fin D) :
    (lltsaProblem W F).2 i j
      = if i = j then fullForm centering F i i else fullForm centering F i j / 2 := by
  rw [fullForm_centering, fullForm_centering]
  exact lltsa_rhs_get W F h2 i j

/-! ## 3. the needed statement, its refutation, and its partial twins -/

/-- THE NEEDED STATEMENT (full strength): the generalised solver works with `c · X M Xᵀ` and `c' · X Xᵀ`. -/
def SolverSeesFull : Prop :=
  ∀ (N D : Nat) (W : Mat N N ℚ) (F : Mat N D ℚ), (∀ r c, W r c = W c r) →
    ∃ c c' : ℚ, c ≠ 0 ∧ c' ≠ 0 ∧
      (genSolveLower (npeProblem W F)).1 = (fun i j => c * fullForm W F i j) ∧
      (genSolveLower (npeProblem W F)).2 = fun i j => c' * fullDiagForm (fun _ => 1) F i j

/-- PARTIAL twin of `SolverSeesFull` (what is true of the code as it is), left-hand side: the solver sees only the
    DIAGONAL of `2 · Fᵀ W F`. -/
theorem solver_sees_diag {W : Mat N N K} (hW : ∀ r c, W r c = W c r) (F : Mat N D K) (i j : Fin D) :
    (genSolveLower (npeProblem W F)).1 i j = if i = j then 2 * fullForm W F i i else 0 := by
  show Mat.lowerView (npeProblem W F).1 i j = _
  rw [npe_lhs_get hW]
  exact lowerView_upperOnly _ i j

/-- PARTIAL twin of `SolverSeesFull`, right-hand side: `Fᵀ F` with its off-diagonal halved. -/
theorem solver_sees_diag_rhs (W : Mat N N K) (F : Mat N D K) (h2 : (2 : K) ≠ 0) (i j : Fin D) :
    (genSolveLower (npeProblem W F)).2 i j
      = if i = j then fullDiagForm (fun _ => 1) F i i else fullDiagForm (fun _ => 1) F i j / 2 := by
  show Mat.lowerView (npeProblem W F).2 i j = _
  rw [lowerView_of_symm _ (npe_rhs_symm W F)]
  exact npe_rhs_get W F h2 i j

/-- LPP, partial twin: BOTH matrices the solver sees are diagonal. -/
theorem lpp_solver_sees_diag {L : Mat N N K} (hL : ∀ r c, L r c = L c r) (Dg : Vec N K) (F : Mat N D K)
    (i j : Fin D) :
    (genSolveLower (lppProblem L Dg F)).1 i j = (if i = j then 2 * fullForm L F i i else 0) ∧
    (genSolveLower (lppProblem L Dg F)).2 i j = (if i = j then fullDiagForm Dg F i i else 0) := by
  constructor
  · show Mat.lowerView (lppProblem L Dg F).1 i j = _
    rw [lpp_lhs_get hL]
    exact lowerView_upperOnly _ i j
  · show Mat.lowerView (lppProblem L Dg F).2 i j = _
    rw [lpp_rhs_get]
    exact lowerView_upperOnly _ i j

/-- LLTSA, partial twin: the diagonal of `2 Fᵀ W F − s sᵀ/N` against `Fᵀ H F` with halved off-diagonal. -/
theorem lltsa_solver_sees {W : Mat N N K} (hW : ∀ r c, W r c = W c r) (F : Mat N D K) (h2 : (2 : K) ≠ 0)
    (i j : Fin D) :
    (genSolveLower (lltsaProblem W F)).1 i j
        = (if i = j then 2 * fullForm W F i i - featureSum F i * featureSum F i / (N : K) else 0) ∧
    (genSolveLower (lltsaProblem W F)).2 i j
        = (if i = j then fullForm centering F i i else fullForm centering F i j / 2) := by
  constructor
  · show Mat.lowerView (lltsaProblem W F).1 i j = _
    rw [lltsa_lhs_get hW]
    exact lowerView_upperOnly _ i j
  · show Mat.lowerView (lltsaProblem W F).2 i j = _
    rw [lowerView_of_symm _ (lltsa_rhs_symm W F)]
    exact lltsa_rhs_eq W F h2 i j

/-- F-LIN-TRI: the needed statement is FALSE of the code as it is.  Witness: the two samples `(1,0)`, `(1,1)`,
    `W = 1`: `Fᵀ W F = [[2,1],[1,1]]` but the solver sees `diag(4, 2)`. -/
theorem solver_sees_XMXt_refuted : ¬ SolverSeesFull := by
  intro h
  obtain ⟨c, c', hc, -, h1, -⟩ := h 2 2 refuteW refuteF refuteW_symm
  have e := congrFun (congrFun h1 0) 1
  rw [solver_sees_diag refuteW_symm, if_neg (by decide), refute_fullForm_01, mul_one] at e
  exact hc e.symm

-- SPECTRAL THEOREMS (appended by the spectral owner)

end TapkeeVerif.C10
