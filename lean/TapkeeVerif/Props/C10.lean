import TapkeeVerif.Model.LinearGraph
import TapkeeVerif.Proofs.LinearGraph
import TapkeeVerif.Proofs.LinearGraphFixed
/-!
C10 property theorems: the feature-space generalised eigenproblem `(lhs, rhs)` built by NPE / LLTSA / LPP
(`construct_neighborhood_preserving_eigenproblem`, `construct_lltsa_eigenproblem`,
`construct_locality_preserving_eigenproblem`) and what `Eigen::GeneralizedSelfAdjointEigenSolver` reads of it.

`F : Mat N D K` holds the samples as ROWS, so the property's `X M Xᵀ` is `Fᵀ M F = fullForm M F` and
`X diag(w) Xᵀ` is `fullDiagForm w F`.  The code accumulates into the UPPER triangles, the solver reads the LOWER
ones (`genSolveLower`): the needed statement `SolverSeesFull` is false of the code as it is (finding F-LIN-TRI,
`solver_sees_XMXt_refuted`); the partial twins `solver_sees_diag*` say what the solver does see; `*_fixed` prove that
the proposed patch (`fixes/F-LIN-TRI.diff` + `fixes/F-LLTSA-CENTRE.diff`) makes the full statement true.
Helper lemmas: `Proofs/LinearGraph.lean`, `Proofs/LinearGraphFixed.lean`.
-/
namespace TapkeeVerif.C10
open TapkeeVerif TapkeeVerif.LinearGraph Matrix

variable {K : Type} [Field K] {N D : Nat}

/-! ## 1. the accumulation loops (any `W`, any weights) -/

/-- `rhs` after `for iter: rhs.selfadjointView<Upper>().rankUpdate(x_iter, wt(iter))`: upper triangle only -/
theorem sample_loop_get (F : Mat N D K) (wt : Vec N K) (i j : Fin D) :
    (sampleSumD F wt).get i j = if i ≤ j then ∑ r, wt r * (F r i * F r j) else 0 :=
  sampleSumD_get F wt i j

/-- `lhs` after the loop over the stored entries of the sparse matrix (no symmetry assumed): upper triangle only -/
theorem weight_loop_get (W : Mat N N K) (F : Mat N D K) (i j : Fin D) :
    (weightSumD W F).get i j
      = if i ≤ j then ∑ c, ∑ r, W r c * (F r i * F c j + F c i * F r j) else 0 :=
  weightSumD_get W F i j

/-! ## 2. what the three routines return -/

/-- NPE: on and above the diagonal `lhs = 2 · Fᵀ W F` (each stored entry contributes `v (x_r x_cᵀ + x_c x_rᵀ)`) -/
theorem lhs_upper_eq {W : Mat N N K} (hW : ∀ r c, W r c = W c r) (F : Mat N D K) :
    ∀ i j, i ≤ j → (npeProblem W F).1 i j = 2 * fullForm W F i j := by
  intro i j h
  rw [npe_lhs_get hW]
  exact if_pos h

/-- NPE: `lhs` is returned with its strictly lower triangle still zero -/
theorem lhs_strict_lower_zero (W : Mat N N K) (F : Mat N D K) :
    ∀ i j, j < i → (npeProblem W F).1 i j = 0 := by
  intro i j h
  rw [npeProblem_fst, weightSumD_get, if_neg (not_le.mpr h)]

example : ∀ r c : Fin 2, refuteW r c = refuteW c r := refuteW_symm

/-- NPE: the `rhs += rhsᵀ; rhs /= 2` lines HALVE the off-diagonal of `Fᵀ F`, because `rhs` was upper-only -/
theorem npe_rhs_eq (W : Mat N N K) (F : Mat N D K) (h2 : (2 : K) ≠ 0) (i j : Fin D) :
    (npeProblem W F).2 i j
      = if i = j then fullDiagForm (fun _ => 1) F i i else fullDiagForm (fun _ => 1) F i j / 2 :=
  npe_rhs_get W F h2 i j

example : (2 : ℚ) ≠ 0 := by decide

/-- LPP: `lhs = 2 · Fᵀ L F` on and above the diagonal -/
theorem lpp_lhs_upper_eq {L : Mat N N K} (hL : ∀ r c, L r c = L c r) (Dg : Vec N K) (F : Mat N D K) :
    ∀ i j, i ≤ j → (lppProblem L Dg F).1 i j = 2 * fullForm L F i j := by
  intro i j h
  rw [lpp_lhs_get hL]
  exact if_pos h

theorem lpp_lhs_strict_lower_zero (L : Mat N N K) (Dg : Vec N K) (F : Mat N D K) :
    ∀ i j, j < i → (lppProblem L Dg F).1 i j = 0 := by
  intro i j h
  rw [lppProblem_fst, weightSumD_get, if_neg (not_le.mpr h)]

/-- LPP: `rhs = Fᵀ diag(Dg) F` on and above the diagonal -/
theorem lpp_rhs_upper_eq (L : Mat N N K) (Dg : Vec N K) (F : Mat N D K) :
    ∀ i j, i ≤ j → (lppProblem L Dg F).2 i j = fullDiagForm Dg F i j := by
  intro i j h
  rw [lpp_rhs_get]
  exact if_pos h

theorem lpp_rhs_strict_lower_zero (L : Mat N N K) (Dg : Vec N K) (F : Mat N D K) :
    ∀ i j, j < i → (lppProblem L Dg F).2 i j = 0 := by
  intro i j h
  rw [lpp_rhs_get]
  exact if_neg (not_le.mpr h)

/-- LLTSA: what the code computes on and above the diagonal is `2 Fᵀ W F − s sᵀ / N` (`s` = sum of the samples);
    the extra `− s sᵀ / N` term is finding F-LLTSA-CENTRE -/
theorem lltsa_lhs_upper_eq {W : Mat N N K} (hW : ∀ r c, W r c = W c r) (F : Mat N D K) :
    ∀ i j, i ≤ j →
      (lltsaProblem W F).1 i j = 2 * fullForm W F i j - featureSum F i * featureSum F j / (N : K) := by
  intro i j h
  rw [lltsa_lhs_get hW]
  exact if_pos h

theorem lltsa_lhs_strict_lower_zero {W : Mat N N K} (hW : ∀ r c, W r c = W c r) (F : Mat N D K) :
    ∀ i j, j < i → (lltsaProblem W F).1 i j = 0 := by
  intro i j h
  rw [lltsa_lhs_get hW]
  exact if_neg (not_le.mpr h)

/-- `Fᵀ (1 − 11ᵀ/N) F = Fᵀ F − s sᵀ / N` (no hypothesis on `N`: for `N = 0` both sides are `0`) -/
theorem fullForm_centering (F : Mat N D K) (i j : Fin D) :
    fullForm centering F i j
      = fullDiagForm (fun _ => 1) F i j - featureSum F i * featureSum F j / (N : K) :=
  LinearGraph.fullForm_centering F i j

/-- LLTSA: `rhs` is the centred second-moment matrix `Fᵀ H F` with its off-diagonal HALVED -/
theorem lltsa_rhs_eq (W : Mat N N K) (F : Mat N D K) (h2 : (2 : K) ≠ 0) (i j : Fin D) :
    (lltsaProblem W F).2 i j
      = if i = j then fullForm centering F i i else fullForm centering F i j / 2 := by
  rw [fullForm_centering, fullForm_centering]
  exact lltsa_rhs_get W F h2 i j

/-! ## 3. the needed statement, its refutation, and its partial twins -/

/-- THE NEEDED STATEMENT (full strength): the generalised solver works with `c · X M Xᵀ` and `c' · X Xᵀ`. -/
def SolverSeesFull : Prop :=
  ∀ (N D : Nat) (W : Mat N N ℚ) (F : Mat N D ℚ), (∀ r c, W r c = W c r) →
    ∃ c c' : ℚ, c ≠ 0 ∧ c' ≠ 0 ∧
      (genSolveLower (npeProblem W F)).1 = (fun i j => c * fullForm W F i j) ∧
      (genSolveLower (npeProblem W F)).2 = fun i j => c' * fullDiagForm (fun _ => 1) F i j

/-- PARTIAL twin of `SolverSeesFull` (what is true of the code as it is), left-hand side: the solver sees only the
    DIAGONAL of `2 · Fᵀ W F`. -/
theorem solver_sees_diag {W : Mat N N K} (hW : ∀ r c, W r c = W c r) (F : Mat N D K) (i j : Fin D) :
    (genSolveLower (npeProblem W F)).1 i j = if i = j then 2 * fullForm W F i i else 0 := by
  show Mat.lowerView (npeProblem W F).1 i j = _
  rw [npe_lhs_get hW]
  exact lowerView_upperOnly _ i j

/-- PARTIAL twin of `SolverSeesFull`, right-hand side: `Fᵀ F` with its off-diagonal halved. -/
theorem solver_sees_diag_rhs (W : Mat N N K) (F : Mat N D K) (h2 : (2 : K) ≠ 0) (i j : Fin D) :
    (genSolveLower (npeProblem W F)).2 i j
      = if i = j then fullDiagForm (fun _ => 1) F i i else fullDiagForm (fun _ => 1) F i j / 2 := by
  show Mat.lowerView (npeProblem W F).2 i j = _
  rw [lowerView_of_symm _ (npe_rhs_symm W F)]
  exact npe_rhs_get W F h2 i j

/-- LPP, partial twin: BOTH matrices the solver sees are diagonal. -/
theorem lpp_solver_sees_diag {L : Mat N N K} (hL : ∀ r c, L r c = L c r) (Dg : Vec N K) (F : Mat N D K)
    (i j : Fin D) :
    (genSolveLower (lppProblem L Dg F)).1 i j = (if i = j then 2 * fullForm L F i i else 0) ∧
    (genSolveLower (lppProblem L Dg F)).2 i j = (if i = j then fullDiagForm Dg F i i else 0) := by
  constructor
  · show Mat.lowerView (lppProblem L Dg F).1 i j = _
    rw [lpp_lhs_get hL]
    exact lowerView_upperOnly _ i j
  · show Mat.lowerView (lppProblem L Dg F).2 i j = _
    rw [lpp_rhs_get]
    exact lowerView_upperOnly _ i j

/-- LLTSA, partial twin: the diagonal of `2 Fᵀ W F − s sᵀ/N` against `Fᵀ H F` with halved off-diagonal. -/
theorem lltsa_solver_sees {W : Mat N N K} (hW : ∀ r c, W r c = W c r) (F : Mat N D K) (h2 : (2 : K) ≠ 0)
    (i j : Fin D) :
    (genSolveLower (lltsaProblem W F)).1 i j
        = (if i = j then 2 * fullForm W F i i - featureSum F i * featureSum F i / (N : K) else 0) ∧
    (genSolveLower (lltsaProblem W F)).2 i j
        = (if i = j then fullForm centering F i i else fullForm centering F i j / 2) := by
  constructor
  · show Mat.lowerView (lltsaProblem W F).1 i j = _
    rw [lltsa_lhs_get hW]
    exact lowerView_upperOnly _ i j
  · show Mat.lowerView (lltsaProblem W F).2 i j = _
    rw [lowerView_of_symm _ (lltsa_rhs_symm W F)]
    exact lltsa_rhs_eq W F h2 i j

/-- F-LIN-TRI: the needed statement is FALSE of the code as it is.  Witness: the two samples `(1,0)`, `(1,1)`,
    `W = 1`: `Fᵀ W F = [[2,1],[1,1]]` but the solver sees `diag(4, 2)`. -/
theorem solver_sees_XMXt_refuted : ¬ SolverSeesFull := by
  intro h
  obtain ⟨c, c', hc, -, h1, -⟩ := h 2 2 refuteW refuteF refuteW_symm
  have e := congrFun (congrFun h1 0) 1
  rw [solver_sees_diag refuteW_symm, if_neg (by decide), refute_fullForm_01, mul_one] at e
  exact hc e.symm

/-! ## 4. the patched routines (`fixes/F-LIN-TRI.diff` + `fixes/F-LLTSA-CENTRE.diff`): the full statement holds -/

/-- NPE after the patch: the solver sees `2 · Fᵀ W F` and `Fᵀ F`, all entries (`c = 2`, `c' = 1`). -/
theorem solver_sees_XMXt_fixed {W : Mat N N K} (hW : ∀ r c, W r c = W c r) (F : Mat N D K) :
    Mat.lowerView (npeProblemFixedD W F).1.get = (fun i j => 2 * fullForm W F i j) ∧
    Mat.lowerView (npeProblemFixedD W F).2.get = fullDiagForm (fun _ => 1) F := by
  obtain ⟨h1, h2⟩ := npeFixed_get hW F
  rw [h1, h2]
  exact ⟨lowerView_of_symm _ (two_fullForm_symm hW F), lowerView_of_symm _ (fullDiagForm_symm _ F)⟩

/-- NPE after the patch: the returned matrices ARE the full forms (both triangles), whatever triangle is read. -/
theorem npe_fixed_returns {W : Mat N N K} (hW : ∀ r c, W r c = W c r) (F : Mat N D K) :
    (npeProblemFixedD W F).1.get = (fun i j => 2 * fullForm W F i j) ∧
    (npeProblemFixedD W F).2.get = fullDiagForm (fun _ => 1) F :=
  npeFixed_get hW F

/-- `SolverSeesFull` with the patched routine in place of `npeProblem`. -/
def SolverSeesFullFixed : Prop :=
  ∀ (N D : Nat) (W : Mat N N ℚ) (F : Mat N D ℚ), (∀ r c, W r c = W c r) →
    ∃ c c' : ℚ, c ≠ 0 ∧ c' ≠ 0 ∧
      (genSolveLower ((npeProblemFixedD W F).1.get, (npeProblemFixedD W F).2.get)).1
        = (fun i j => c * fullForm W F i j) ∧
      (genSolveLower ((npeProblemFixedD W F).1.get, (npeProblemFixedD W F).2.get)).2
        = fun i j => c' * fullDiagForm (fun _ => 1) F i j

/-- the proposed patch makes the needed statement TRUE (`c = 2`, `c' = 1`) -/
theorem solver_sees_full_fixed : SolverSeesFullFixed := by
  intro N D W F hW
  obtain ⟨h1, h2⟩ := solver_sees_XMXt_fixed hW F
  refine ⟨2, 1, by decide, by decide, h1, ?_⟩
  show Mat.lowerView (npeProblemFixedD W F).2.get = _
  rw [h2]
  funext i j
  rw [one_mul]

/-- LLTSA after both patches: the solver sees `2 · Fᵀ W F` and the centred `Fᵀ H F`
    (no hypothesis on `N` is needed: for `N = 0` everything is `0`). -/
theorem lltsa_solver_sees_fixed {W : Mat N N K} (hW : ∀ r c, W r c = W c r) (F : Mat N D K) :
    Mat.lowerView (lltsaProblemFixedD W F).1.get = (fun i j => 2 * fullForm W F i j) ∧
    Mat.lowerView (lltsaProblemFixedD W F).2.get = fullForm centering F := by
  obtain ⟨h1, h2⟩ := lltsaFixed_get hW F
  rw [h1, h2]
  exact ⟨lowerView_of_symm _ (two_fullForm_symm hW F), lowerView_of_symm _ (fullForm_centering_symm F)⟩

theorem lltsa_fixed_returns {W : Mat N N K} (hW : ∀ r c, W r c = W c r) (F : Mat N D K) :
    (lltsaProblemFixedD W F).1.get = (fun i j => 2 * fullForm W F i j) ∧
    (lltsaProblemFixedD W F).2.get = fullForm centering F :=
  lltsaFixed_get hW F

/-- LPP after the patch: the solver sees `2 · Fᵀ L F` and `Fᵀ diag(Dg) F`. -/
theorem lpp_solver_sees_fixed {L : Mat N N K} (hL : ∀ r c, L r c = L c r) (Dg : Vec N K) (F : Mat N D K) :
    Mat.lowerView (lppProblemFixedD L Dg F).1.get = (fun i j => 2 * fullForm L F i j) ∧
    Mat.lowerView (lppProblemFixedD L Dg F).2.get = fullDiagForm Dg F := by
  obtain ⟨h1, h2⟩ := lppFixed_get hL Dg F
  rw [h1, h2]
  exact ⟨lowerView_of_symm _ (two_fullForm_symm hL F), lowerView_of_symm _ (fullDiagForm_symm _ F)⟩

theorem lpp_fixed_returns {L : Mat N N K} (hL : ∀ r c, L r c = L c r) (Dg : Vec N K) (F : Mat N D K) :
    (lppProblemFixedD L Dg F).1.get = (fun i j => 2 * fullForm L F i j) ∧
    (lppProblemFixedD L Dg F).2.get = fullDiagForm Dg F :=
  lppFixed_get hL Dg F

/-! ## 5. rotation algebra.  `rotateRows R F = F Rᵀ` (model-level `Mat.mul F (Mat.transpose R)`) is the sample
matrix after `x ↦ R x`; `Mat.toM` views a model matrix as a Mathlib `Matrix` (the identity). -/

/-- `rotateRows R F` applies `x ↦ R x` to every sample -/
theorem rotateRows_row (R : Mat D D K) (F : Mat N D K) (r : Fin N) :
    rotateRows R F r = Mat.mulVec R (F r) :=
  rotateRows_apply R F r

/-- `X M Xᵀ ↦ R (X M Xᵀ) Rᵀ` under `x ↦ R x` (any `R`, any `M`) -/
theorem fullForm_rotate (M : Mat N N K) (F : Mat N D K) (R : Mat D D K) :
    Mat.toM (fullForm M (rotateRows R F)) = Mat.toM R * Mat.toM (fullForm M F) * (Mat.toM R)ᵀ :=
  fullForm_rotate_toM M F R

theorem fullDiagForm_rotate (w : Vec N K) (F : Mat N D K) (R : Mat D D K) :
    Mat.toM (fullDiagForm w (rotateRows R F)) = Mat.toM R * Mat.toM (fullDiagForm w F) * (Mat.toM R)ᵀ :=
  fullDiagForm_rotate_toM w F R

/-- the linear kernel `F Fᵀ` (hence the neighbour graph and the weight matrix built from it) does not change under an
    orthogonal `R` -/
theorem linear_kernel_rotation_invariant (F : Mat N D K) (R : Mat D D K)
    (hR : (Mat.toM R)ᵀ * Mat.toM R = 1) :
    Mat.mul (rotateRows R F) (Mat.transpose (rotateRows R F)) = Mat.mul F (Mat.transpose F) :=
  Matrix.of.injective (gram_rotate_toM F R hR)

example : (Mat.toM rot345)ᵀ * Mat.toM rot345 = 1 := rot345_orth

/-- the mean rotates along -/
theorem meanVec_rotate (F : Mat N D K) (R : Mat D D K) :
    meanVec (rotateRows R F) = Mat.mulVec R (meanVec F) :=
  meanVec_rotate_eq F R

/-- the embedding `Pᵀ (x − mean)` is unchanged when the projection matrix rotates along (`P ↦ R P`) -/
theorem project_rotate {d : Nat} (P : Mat D d K) (F : Mat N D K) (R : Mat D D K)
    (hR : (Mat.toM R)ᵀ * Mat.toM R = 1) :
    project (Mat.mul R P) (rotateRows R F) = project P F :=
  project_rotate_eq P F R hR

/-- the NEGATIVE fact behind the metamorphic failure on the current tree: taking the diagonal (what the solver sees of
    `lhs`, `solver_sees_diag`) does not commute with rotation.  Witness: the 3-4-5 rotation and `diag(1, 2)`. -/
theorem diag_solver_not_rotation_equivariant :
    ∃ (A R : Matrix (Fin 2) (Fin 2) ℚ), Rᵀ * R = 1 ∧
      Matrix.diagonal (fun i => (R * A * Rᵀ) i i) ≠ R * Matrix.diagonal (fun i => A i i) * Rᵀ :=
  ⟨Mat.toM diag12, Mat.toM rot345, rot345_orth, rot345_diag_ne⟩

/-- model-level form of the metamorphic failure (code as it is): there are symmetric `W`, samples `F` and an orthogonal
    `R` for which what the solver sees of `lhs` after `x ↦ R x` is NOT `R (what it saw before) Rᵀ`.
    Witness: samples `(1,0)`, `(0,2)`, `W = 1`, the 3-4-5 rotation. -/
theorem npe_solver_view_not_rotation_equivariant :
    ∃ (W F R : Mat 2 2 ℚ), (∀ r c, W r c = W c r) ∧ (Mat.toM R)ᵀ * Mat.toM R = 1 ∧
      Mat.toM (genSolveLower (npeProblem W (rotateRows R F))).1
        ≠ Mat.toM R * Mat.toM (genSolveLower (npeProblem W F)).1 * (Mat.toM R)ᵀ :=
  ⟨refuteW, diag12, rot345, refuteW_symm, rot345_orth, npe_view_not_equivariant_witness⟩

/-- after the patch the solver's view IS rotation-equivariant (any `R`, any symmetric `W`): both matrices transform as
    `A ↦ R A Rᵀ` under `x ↦ R x`. -/
theorem npe_fixed_view_rotation_equivariant {W : Mat N N K} (hW : ∀ r c, W r c = W c r) (F : Mat N D K)
    (R : Mat D D K) :
    Mat.toM (Mat.lowerView (npeProblemFixedD W (rotateRows R F)).1.get)
        = Mat.toM R * Mat.toM (Mat.lowerView (npeProblemFixedD W F).1.get) * (Mat.toM R)ᵀ ∧
    Mat.toM (Mat.lowerView (npeProblemFixedD W (rotateRows R F)).2.get)
        = Mat.toM R * Mat.toM (Mat.lowerView (npeProblemFixedD W F).2.get) * (Mat.toM R)ᵀ := by
  obtain ⟨h1, h2⟩ := solver_sees_XMXt_fixed hW F
  obtain ⟨h1', h2'⟩ := solver_sees_XMXt_fixed hW (rotateRows R F)
  rw [h1, h2, h1', h2']
  exact ⟨two_fullForm_rotate_toM W F R, fullDiagForm_rotate_toM _ F R⟩

/-! ## 6. non-vacuity: concrete instances of the hypotheses, and both routines on the refutation witness -/

/-- a symmetric, non-diagonal weight matrix (`W r c = r + c`) -/
example : ∀ r c : Fin 3, (fun r c : Fin 3 => ((r.1 + c.1 : Nat) : ℚ)) r c
    = (fun r c : Fin 3 => ((r.1 + c.1 : Nat) : ℚ)) c r := by
  intro r c
  simp only [Nat.add_comm]

/-- the 3-4-5 rotation is orthogonal and is not a signed permutation -/
example : (Mat.toM rot345)ᵀ * Mat.toM rot345 = 1 ∧ rot345 0 0 = 3 / 5 := ⟨rot345_orth, rfl⟩

/-- on the witness of `solver_sees_XMXt_refuted` (`Fᵀ W F = [[2,1],[1,1]]`) the current routine shows the solver `0` at
    `(0,1)`, the patched one `2 = 2 · 1` -/
example : (genSolveLower (npeProblem refuteW refuteF)).1 0 1 = 0 ∧
    Mat.lowerView (npeProblemFixedD refuteW refuteF).1.get 0 1 = 2 := by
  constructor
  · rw [solver_sees_diag refuteW_symm, if_neg (by decide)]
  · rw [(solver_sees_XMXt_fixed refuteW_symm refuteF).1]
    show 2 * fullForm refuteW refuteF 0 1 = 2
    rw [refute_fullForm_01, mul_one]

-- SPECTRAL THEOREMS (appended by the spectral owner)

end TapkeeVerif.C10
