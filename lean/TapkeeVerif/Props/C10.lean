import TapkeeVerif.Model.LinearGraph
import TapkeeVerif.Proofs.LinearGraph
import TapkeeVerif.Proofs.LinearGraphFixed
import TapkeeVerif.Proofs.LinearGraphPreFix
import Mathlib.Tactic.NormNum
import Mathlib.Tactic.FinCases
import Mathlib.LinearAlgebra.Matrix.Notation
import TapkeeVerif.Proofs.SpectralLocal
import TapkeeVerif.Proofs.CertGenSound
/-!
C10 property theorems: the feature-space generalised eigenproblem `(lhs, rhs)` built by NPE / LLTSA / LPP
(`construct_neighborhood_preserving_eigenproblem`, `construct_lltsa_eigenproblem`,
`construct_locality_preserving_eigenproblem`) and what `Eigen::GeneralizedSelfAdjointEigenSolver` reads of it.

`F : Mat N D K` holds the samples as ROWS, so the property's `X M Xᵀ` is `Fᵀ M F = fullForm M F` and
`X diag(w) Xᵀ` is `fullDiagForm w F`.  The code accumulates into the UPPER triangles and (since the fix commits
F-LIN-TRI, F-LLTSA-CENTRE) mirrors them before returning; the solver reads the LOWER triangles (`genSolveLower`).
Since the fix commit F-LLTSA-SHIFT the LLTSA left-hand side is `2 · Fᵀ (H W H) F` (`centredForm W = H W H`, `H` the
centring matrix): the alignment matrix acts on the centred features and the problem is translation invariant.
The needed statement `SolverSeesFull` is a theorem of the code as it is (`solver_sees_XMXt`).  The last section restates,
for the routines as they were BEFORE the fixes (`LinearGraph.PreFix.*`, historical definitions kept in
`Proofs/LinearGraphPreFix.lean`), the refutation of the same statement and what the solver saw then: regression
witnesses, not statements about the tree; likewise `LinearGraph.PreShift.lltsaProblem` (LLTSA before F-LLTSA-SHIFT).
Helper lemmas: `Proofs/LinearGraph.lean`, `Proofs/LinearGraphFixed.lean` (rotation), `Proofs/LinearGraphPreFix.lean`.
-/
namespace TapkeeVerif.C10
open TapkeeVerif TapkeeVerif.LinearGraph Matrix

variable {K : Type} [Field K] {N D : Nat}

/-! ## 1. the accumulation loops (any `W`, any weights) -/

/-- `rhs` after `for iter: rhs.selfadjointView<Upper>().rankUpdate(x_iter, wt(iter))`: upper triangle only -/
theorem sample_loop_get (F : Mat N D K) (wt : Vec N K) (i j : Fin D) :
    (sampleSumD F wt).get i j = if i ≤ j then ∑ r, wt r * (F r i * F r j) else 0 :=
  sampleSumD_get F wt i j

/-- `lhs` after the loop over the stored entries of the sparse matrix (no symmetry assumed): upper triangle only -/
theorem weight_loop_get (W : Mat N N K) (F : Mat N D K) (i j : Fin D) :
    (weightSumD W F).get i j
      = if i ≤ j then ∑ c, ∑ r, W r c * (F r i * F c j + F c i * F r j) else 0 :=
  weightSumD_get W F i j

/-! ## 2. what the three routines return: the full forms, both triangles -/

/-- NPE returns `(2 · Fᵀ W F, Fᵀ F)` (each stored entry contributes `v (x_r x_cᵀ + x_c x_rᵀ)`; upper triangle
    accumulated, then mirrored) -/
theorem npe_returns {W : Mat N N K} (hW : ∀ r c, W r c = W c r) (F : Mat N D K) :
    npeProblem W F = (fun i j => 2 * fullForm W F i j, fullDiagForm (fun _ => 1) F) :=
  LinearGraph.npe_returns hW F

example : ∀ r c : Fin 2, refuteW r c = refuteW c r := refuteW_symm

/-- NPE: on and above the diagonal `lhs = 2 · Fᵀ W F` -/
theorem lhs_upper_eq {W : Mat N N K} (hW : ∀ r c, W r c = W c r) (F : Mat N D K) :
    ∀ i j, i ≤ j → (npeProblem W F).1 i j = 2 * fullForm W F i j := by
  intro i j _
  rw [LinearGraph.npe_returns hW]

/-- NPE: and the same value on and below the diagonal (the part the solver reads) -/
theorem lhs_lower_eq {W : Mat N N K} (hW : ∀ r c, W r c = W c r) (F : Mat N D K) :
    ∀ i j, j ≤ i → (npeProblem W F).1 i j = 2 * fullForm W F i j := by
  intro i j _
  rw [LinearGraph.npe_returns hW]

/-- NPE: `rhs = Fᵀ F` on and above the diagonal (any `W`) -/
theorem rhs_upper_eq (W : Mat N N K) (F : Mat N D K) :
    ∀ i j, i ≤ j → (npeProblem W F).2 i j = fullDiagForm (fun _ => 1) F i j := by
  intro i j _
  show (mirrorUpperD (sampleSumD F fun _ => 1)).get i j = _
  rw [mirror_sampleSum]

/-- NPE: and on and below the diagonal — no halving any more -/
theorem rhs_lower_eq (W : Mat N N K) (F : Mat N D K) :
    ∀ i j, j ≤ i → (npeProblem W F).2 i j = fullDiagForm (fun _ => 1) F i j := by
  intro i j _
  show (mirrorUpperD (sampleSumD F fun _ => 1)).get i j = _
  rw [mirror_sampleSum]

/-- `Fᵀ (1 − 11ᵀ/N) F = Fᵀ F − s sᵀ / N` (no hypothesis on `N`: for `N = 0` both sides are `0`) -/
theorem fullForm_centering (F : Mat N D K) (i j : Fin D) :
    fullForm centering F i j
      = fullDiagForm (fun _ => 1) F i j - featureSum F i * featureSum F j / (N : K) :=
  LinearGraph.fullForm_centering F i j

/-- `centredForm W` is `H W H`, `H = 1 − 11ᵀ/N` the centring matrix -/
theorem centredForm_eq_HWH (W : Mat N N K) :
    Mat.toM (centredForm W) = Mat.toM (centering : Mat N N K) * Mat.toM W * Mat.toM (centering : Mat N N K) :=
  centredForm_toM W

/-- LLTSA returns `(2 · Fᵀ (H W H) F, Fᵀ H F)`: the alignment matrix acts on the CENTRED features (fix F-LLTSA-SHIFT).
    No hypothesis on `N` is needed (the identity also holds when `(N : K) = 0`, where `H = 1`). -/
theorem lltsa_returns {W : Mat N N K} (hW : ∀ r c, W r c = W c r) (F : Mat N D K) :
    lltsaProblem W F = (fun i j => 2 * fullForm (centredForm W) F i j, fullForm centering F) :=
  LinearGraph.lltsa_returns hW F

/-- the LLTSA `lhs` is the mirror of the accumulated upper triangle `lltsaLhsUpper W F` = the sparse loop followed by
    `rankUpdate(weighted_sum, sum, -2/N)` and `rankUpdate(sum, 2 * w_ones.sum() / (N*N))` -/
theorem lltsa_lhs_is_mirror (W : Mat N N K) (F : Mat N D K) :
    (lltsaProblem W F).1 = Mat.upperView (lltsaLhsUpper W F) :=
  lltsaProblem_fst W F

/-- what those statements literally accumulate (NO symmetry assumed, any `N`): with `s = featureSum F = Σ x_r`,
    `u = weightedFeatureSum W F = Σ (W1)_r x_r` -/
theorem lltsa_lhs_expanded (W : Mat N N K) (F : Mat N D K) :
    ∀ i j, i ≤ j →
      lltsaLhsUpper W F i j
        = fullForm W F i j + fullForm W F j i
          - 2 / (N : K) * (weightedFeatureSum W F i * featureSum F j + featureSum F i * weightedFeatureSum W F j)
          + 2 * (∑ r, rowSums W r) / ((N : K) * (N : K)) * (featureSum F i * featureSum F j) := by
  intro i j h
  rw [lltsaLhsUpper_get, if_pos h]

/-- the same for symmetric `W`: `2 Fᵀ W F − (2/N)(u sᵀ + s uᵀ) + (2 · 1ᵀW1 / N²) s sᵀ` -/
theorem lltsa_lhs_expanded_symm {W : Mat N N K} (hW : ∀ r c, W r c = W c r) (F : Mat N D K) :
    ∀ i j, i ≤ j →
      lltsaLhsUpper W F i j
        = 2 * fullForm W F i j
          - 2 / (N : K) * (weightedFeatureSum W F i * featureSum F j + featureSum F i * weightedFeatureSum W F j)
          + 2 * (∑ r, rowSums W r) / ((N : K) * (N : K)) * (featureSum F i * featureSum F j) := by
  intro i j h
  rw [lltsa_lhs_expanded W F i j h, fullForm_symm hW F j i]
  ring

/-- `Fᵀ (H W H) F = Fᵀ W F − (u sᵀ + s u'ᵀ)/N + (1ᵀW1/N²) s sᵀ`, `u' = Σ (Wᵀ1)_r x_r` (`= u` for symmetric `W`);
    any `W`, any `N`: the identity that connects `lltsa_lhs_expanded` with `lltsa_returns` -/
theorem fullForm_centredForm (W : Mat N N K) (F : Mat N D K) (i j : Fin D) :
    fullForm (centredForm W) F i j
      = fullForm W F i j
        - (weightedFeatureSum W F i * featureSum F j
            + featureSum F i * weightedFeatureSum (Mat.transpose W) F j) / (N : K)
        + (∑ a, rowSums W a) / ((N : K) * (N : K)) * (featureSum F i * featureSum F j) :=
  LinearGraph.fullForm_centredForm W F i j

/-- if `W 1 = σ 1` and `W` is symmetric then `H W H = W − (σ/N) 11ᵀ`: with the alignment matrix (`W 1 = shift · 1`)
    `H W H = alignment + shift · H` (any `N`) -/
theorem centredForm_of_const_eigvec {W : Mat N N K} {σ : K} (hσ : ∀ r, rowSums W r = σ)
    (hW : ∀ r c, W r c = W c r) :
    centredForm W = fun r c => W r c - σ / (N : K) :=
  LinearGraph.centredForm_of_const_eigvec hσ hW

example : (∀ r, rowSums refuteW r = 1) ∧ ∀ r c, refuteW r c = refuteW c r := ⟨refuteW_rowSums, refuteW_symm⟩

/-- LLTSA no longer depends on the origin of the feature space (the C12 relation that found F-LLTSA-SHIFT):
    both forms are unchanged by a translation `x ↦ x + t` of all samples -/
theorem lltsa_translation_invariant (hN : (N : K) ≠ 0) (W : Mat N N K) (F : Mat N D K) (t : Vec D K) :
    fullForm (centredForm W) (fun r j => F r j + t j) = fullForm (centredForm W) F ∧
    fullForm centering (fun r j => F r j + t j) = fullForm centering F :=
  ⟨fullForm_centredForm_translate hN W F t, fullForm_centering_translate hN F t⟩

/-- hence the pair `construct_lltsa_eigenproblem` returns is translation invariant -/
theorem lltsa_problem_translation_invariant (hN : (N : K) ≠ 0) {W : Mat N N K} (hW : ∀ r c, W r c = W c r)
    (F : Mat N D K) (t : Vec D K) :
    lltsaProblem W (fun r j => F r j + t j) = lltsaProblem W F :=
  lltsaProblem_translate hN hW F t

example : ((2 : Nat) : ℚ) ≠ 0 := by decide

/-- LPP returns `(2 · Fᵀ L F, Fᵀ diag(Dg) F)` -/
theorem lpp_returns {L : Mat N N K} (hL : ∀ r c, L r c = L c r) (Dg : Vec N K) (F : Mat N D K) :
    lppProblem L Dg F = (fun i j => 2 * fullForm L F i j, fullDiagForm Dg F) :=
  LinearGraph.lpp_returns hL Dg F

/-! ## 3. the needed statement: the solver works with `c · X M Xᵀ` and `c' · X B Xᵀ` -/

/-- THE NEEDED STATEMENT (full strength): the generalised solver works with `c · X M Xᵀ` and `c' · X Xᵀ`. -/
def SolverSeesFull : Prop :=
  ∀ (N D : Nat) (W : Mat N N ℚ) (F : Mat N D ℚ), (∀ r c, W r c = W c r) →
    ∃ c c' : ℚ, c ≠ 0 ∧ c' ≠ 0 ∧
      (genSolveLower (npeProblem W F)).1 = (fun i j => c * fullForm W F i j) ∧
      (genSolveLower (npeProblem W F)).2 = fun i j => c' * fullDiagForm (fun _ => 1) F i j

/-- NPE, any field: the solver sees `2 · Fᵀ W F` and `Fᵀ F`, all entries -/
theorem solver_sees_XMXt_npe {W : Mat N N K} (hW : ∀ r c, W r c = W c r) (F : Mat N D K) :
    genSolveLower (npeProblem W F) = (fun i j => 2 * fullForm W F i j, fullDiagForm (fun _ => 1) F) :=
  genSolveLower_npe hW F

/-- LLTSA, any field: the solver sees `2 · Fᵀ (H W H) F` and the centred `Fᵀ H F` -/
theorem solver_sees_XMXt_lltsa {W : Mat N N K} (hW : ∀ r c, W r c = W c r) (F : Mat N D K) :
    genSolveLower (lltsaProblem W F)
      = (fun i j => 2 * fullForm (centredForm W) F i j, fullForm centering F) :=
  genSolveLower_lltsa hW F

/-- LPP, any field: the solver sees `2 · Fᵀ L F` and `Fᵀ diag(Dg) F` -/
theorem solver_sees_XMXt_lpp {L : Mat N N K} (hL : ∀ r c, L r c = L c r) (Dg : Vec N K) (F : Mat N D K) :
    genSolveLower (lppProblem L Dg F) = (fun i j => 2 * fullForm L F i j, fullDiagForm Dg F) :=
  genSolveLower_lpp hL Dg F

/-- the needed statement holds of the code as it is (`c = 2`, `c' = 1`) -/
theorem solver_sees_XMXt : SolverSeesFull := by
  intro N D W F hW
  refine ⟨2, 1, by decide, by decide, ?_, ?_⟩
  · rw [solver_sees_XMXt_npe hW]
  · rw [solver_sees_XMXt_npe hW]
    funext i j
    exact (one_mul _).symm

/-! ## 4. rotation algebra.  `rotateRows R F = F Rᵀ` (model-level `Mat.mul F (Mat.transpose R)`) is the sample
matrix after `x ↦ R x`; `Mat.toM` views a model matrix as a Mathlib `Matrix` (the identity). -/

/-- `rotateRows R F` applies `x ↦ R x` to every sample -/
theorem rotateRows_row (R : Mat D D K) (F : Mat N D K) (r : Fin N) :
    rotateRows R F r = Mat.mulVec R (F r) :=
  rotateRows_apply R F r

/-- `X M Xᵀ ↦ R (X M Xᵀ) Rᵀ` under `x ↦ R x` (any `R`, any `M`) -/
theorem fullForm_rotate (M : Mat N N K) (F : Mat N D K) (R : Mat D D K) :
    Mat.toM (fullForm M (rotateRows R F)) = Mat.toM R * Mat.toM (fullForm M F) * (Mat.toM R)ᵀ :=
  fullForm_rotate_toM M F R

theorem fullDiagForm_rotate (w : Vec N K) (F : Mat N D K) (R : Mat D D K) :
    Mat.toM (fullDiagForm w (rotateRows R F)) = Mat.toM R * Mat.toM (fullDiagForm w F) * (Mat.toM R)ᵀ :=
  fullDiagForm_rotate_toM w F R

/-- the linear kernel `F Fᵀ` (hence the neighbour graph and the weight matrix built from it) does not change under an
    orthogonal `R` -/
theorem linear_kernel_rotation_invariant (F : Mat N D K) (R : Mat D D K)
    (hR : (Mat.toM R)ᵀ * Mat.toM R = 1) :
    Mat.mul (rotateRows R F) (Mat.transpose (rotateRows R F)) = Mat.mul F (Mat.transpose F) :=
  Matrix.of.injective (gram_rotate_toM F R hR)

example : (Mat.toM rot345)ᵀ * Mat.toM rot345 = 1 := rot345_orth

/-- the mean rotates along -/
theorem meanVec_rotate (F : Mat N D K) (R : Mat D D K) :
    meanVec (rotateRows R F) = Mat.mulVec R (meanVec F) :=
  meanVec_rotate_eq F R

/-- the embedding `Pᵀ (x − mean)` is unchanged when the projection matrix rotates along (`P ↦ R P`) -/
theorem project_rotate {d : Nat} (P : Mat D d K) (F : Mat N D K) (R : Mat D D K)
    (hR : (Mat.toM R)ᵀ * Mat.toM R = 1) :
    project (Mat.mul R P) (rotateRows R F) = project P F :=
  project_rotate_eq P F R hR

/-- the solver's view IS rotation-equivariant (any `R`, any symmetric `W`): both matrices transform as
    `A ↦ R A Rᵀ` under `x ↦ R x`. -/
theorem npe_view_rotation_equivariant {W : Mat N N K} (hW : ∀ r c, W r c = W c r) (F : Mat N D K)
    (R : Mat D D K) :
    Mat.toM (genSolveLower (npeProblem W (rotateRows R F))).1
        = Mat.toM R * Mat.toM (genSolveLower (npeProblem W F)).1 * (Mat.toM R)ᵀ ∧
    Mat.toM (genSolveLower (npeProblem W (rotateRows R F))).2
        = Mat.toM R * Mat.toM (genSolveLower (npeProblem W F)).2 * (Mat.toM R)ᵀ := by
  rw [solver_sees_XMXt_npe hW, solver_sees_XMXt_npe hW]
  exact ⟨two_fullForm_rotate_toM W F R, fullDiagForm_rotate_toM _ F R⟩

/-- why a solver that sees only the diagonal of `lhs` (the pre-fix state, `prefix_solver_sees_diag`) failed the rotation
    metamorphism: taking the diagonal does not commute with rotation.  Witness: the 3-4-5 rotation and `diag(1, 2)`. -/
theorem diag_solver_not_rotation_equivariant :
    ∃ (A R : Matrix (Fin 2) (Fin 2) ℚ), Rᵀ * R = 1 ∧
      Matrix.diagonal (fun i => (R * A * Rᵀ) i i) ≠ R * Matrix.diagonal (fun i => A i i) * Rᵀ :=
  ⟨Mat.toM diag12, Mat.toM rot345, rot345_orth, rot345_diag_ne⟩

/-! ## 5. non-vacuity: concrete instances of the hypotheses -/

/-- a symmetric, non-diagonal weight matrix (`W r c = r + c`) -/
example : ∀ r c : Fin 3, (fun r c : Fin 3 => ((r.1 + c.1 : Nat) : ℚ)) r c
    = (fun r c : Fin 3 => ((r.1 + c.1 : Nat) : ℚ)) c r := by
  intro r c
  simp only [Nat.add_comm]

/-- the 3-4-5 rotation is orthogonal and is not a signed permutation -/
example : (Mat.toM rot345)ᵀ * Mat.toM rot345 = 1 ∧ rot345 0 0 = 3 / 5 := ⟨rot345_orth, rfl⟩

/-! ## 5b. LLTSA: from `H W H` to the property's "M = the alignment matrix"

`tangent_weight_matrix` hands LLTSA the REGULARISED alignment matrix `W = Align + shift · 1` (`Align` symmetric with
`Align 1 = 0`, `shift = nullspace_shift`).  The routine's left-hand form `Fᵀ (H W H) F` is `Fᵀ Align F + shift · Fᵀ H F`:
the pencil it solves has the eigenvectors of the property's `(X M Xᵀ) p = λ (X H Xᵀ) p` with `M = Align` and the
eigenvalues `λ + shift`, so the order (the `d` smallest) is the same. -/

/-- `H (Align + shift · 1) H = Align + shift · H` (any `N`) -/
theorem centredForm_align {Al : Mat N N K} (shift : K) (hAl : ∀ r c, Al r c = Al c r)
    (h0 : ∀ r, rowSums Al r = 0) :
    centredForm (fun r c => Al r c + (if r = c then shift else 0))
      = fun r c => Al r c + shift * centering r c :=
  LinearGraph.centredForm_align shift hAl h0

/-- a symmetric `Align ≠ 0` with zero row sums, `shift = 1/1000` -/
example : (∀ r c, alignEx r c = alignEx c r) ∧ (∀ r, rowSums alignEx r = 0) ∧ alignEx 0 1 = -1 ∧
    ((1 : ℚ) / 1000) ≠ 0 :=
  ⟨alignEx_symm, alignEx_rowSums, rfl, by norm_num⟩

/-- the LLTSA left-hand form is `Fᵀ Align F + shift · Fᵀ H F` -/
theorem lltsa_pencil_align {Al : Mat N N K} (shift : K) (hAl : ∀ r c, Al r c = Al c r)
    (h0 : ∀ r, rowSums Al r = 0) (F : Mat N D K) (i j : Fin D) :
    fullForm (centredForm (fun r c => Al r c + (if r = c then shift else 0))) F i j
      = fullForm Al F i j + shift * fullForm centering F i j :=
  lltsa_pencil_align_eq shift hAl h0 F i j

/-- an eigenpair `(μ, p)` of the pencil the routine builds is an eigenpair `(μ − shift, p)` of the property's problem
    `(X Align Xᵀ) p = λ (X H Xᵀ) p` with the alignment matrix proper: same eigenvectors, eigenvalues shifted by the
    constant `shift`, hence the same order -/
theorem lltsa_solves_alignment_problem {Al : Mat N N K} (shift : K) (hAl : ∀ r c, Al r c = Al c r)
    (h0 : ∀ r, rowSums Al r = 0) (F : Mat N D K) (p : Vec D K) (μ : K)
    (hp : (Mat.toM (fullForm (centredForm (fun r c => Al r c + (if r = c then shift else 0))) F)).mulVec p
      = μ • (Mat.toM (fullForm centering F)).mulVec p) :
    (Mat.toM (fullForm Al F)).mulVec p = (μ - shift) • (Mat.toM (fullForm centering F)).mulVec p :=
  lltsa_solves_alignment_eq shift hAl h0 F p μ hp

/-- the eigen-hypothesis is satisfiable non-trivially: one sample pair `0`, `1` on the line, `Align = [[1,−1],[−1,1]]`,
    `shift = 1/1000`: `Fᵀ (H W H) F = 1 + shift/2`, `Fᵀ H F = 1/2`, eigenvalue `μ = 2 + shift` for `p = 1` -/
example : (Mat.toM (fullForm (centredForm
      (fun r c => alignEx r c + (if r = c then (1 / 1000 : ℚ) else 0))) PreShift.shiftF)).mulVec (fun _ => 1)
    = (2 + 1 / 1000 : ℚ) • (Mat.toM (fullForm centering PreShift.shiftF)).mulVec (fun _ => 1) := by
  funext i
  simp only [Matrix.mulVec, dotProduct, Finset.univ_unique, Finset.sum_singleton, Mat.toM_apply, Pi.smul_apply,
    smul_eq_mul, mul_one]
  rw [lltsa_pencil_align _ alignEx_symm alignEx_rowSums]
  simp only [fullForm_apply]
  simp [Fin.sum_univ_two, alignEx, centering, PreShift.shiftF]
  norm_num

/-! ## 6. regression witnesses (pre-fix code, `Proofs/LinearGraphPreFix.lean`)

`PreFix.npeProblem`, `PreFix.lltsaProblem`, `PreFix.lppProblem` are the three routines as they read before the fix
commits F-LIN-TRI / F-LLTSA-CENTRE (historical definitions, verbatim).  What follows is what the code computed THEN. -/

/-- `SolverSeesFull` for the pre-fix routine was FALSE.  Witness (`D = 2`): the two samples `(1,0)`, `(1,1)`, `W = 1`:
    `Fᵀ W F = [[2,1],[1,1]]` but the solver saw `diag(4, 2)`. -/
theorem prefix_solver_sees_XMXt_refuted : ¬ PreFix.SolverSeesFull :=
  PreFix.solverSeesFull_refuted

/-- pre-fix NPE: `lhs` was returned with its strictly lower triangle zero -/
theorem prefix_lhs_strict_lower_zero (W : Mat N N K) (F : Mat N D K) :
    ∀ i j, j < i → (PreFix.npeProblem W F).1 i j = 0 :=
  fun i j h => PreFix.npe_lhs_strict_lower_zero W F i j h

/-- pre-fix NPE: the solver saw only the DIAGONAL of `2 · Fᵀ W F` -/
theorem prefix_solver_sees_diag {W : Mat N N K} (hW : ∀ r c, W r c = W c r) (F : Mat N D K) (i j : Fin D) :
    (genSolveLower (PreFix.npeProblem W F)).1 i j = if i = j then 2 * fullForm W F i i else 0 := by
  rw [PreFix.genSolveLower_npe_fst hW]

/-- pre-fix NPE: the `rhs += rhsᵀ; rhs /= 2` lines HALVED the off-diagonal of `Fᵀ F` (`rhs` was upper-only) -/
theorem prefix_solver_sees_diag_rhs (W : Mat N N K) (F : Mat N D K) (h2 : (2 : K) ≠ 0) (i j : Fin D) :
    (genSolveLower (PreFix.npeProblem W F)).2 i j
      = if i = j then fullDiagForm (fun _ => 1) F i i else fullDiagForm (fun _ => 1) F i j / 2 :=
  PreFix.genSolveLower_npe_snd W F h2 i j

example : (2 : ℚ) ≠ 0 := by decide

/-- pre-fix LPP: BOTH matrices the solver saw were diagonal -/
theorem prefix_lpp_solver_sees_diag {L : Mat N N K} (hL : ∀ r c, L r c = L c r) (Dg : Vec N K) (F : Mat N D K)
    (i j : Fin D) :
    (genSolveLower (PreFix.lppProblem L Dg F)).1 i j = (if i = j then 2 * fullForm L F i i else 0) ∧
    (genSolveLower (PreFix.lppProblem L Dg F)).2 i j = (if i = j then fullDiagForm Dg F i i else 0) :=
  PreFix.genSolveLower_lpp hL Dg F i j

/-- pre-fix LLTSA (F-LLTSA-CENTRE): on and above the diagonal `lhs` was `2 Fᵀ W F − s sᵀ / N` (`s` = sum of the samples),
    not `2 Fᵀ W F` -/
theorem prefix_lltsa_lhs_upper_eq {W : Mat N N K} (hW : ∀ r c, W r c = W c r) (F : Mat N D K) :
    ∀ i j, i ≤ j →
      (PreFix.lltsaProblem W F).1 i j = 2 * fullForm W F i j - featureSum F i * featureSum F j / (N : K) := by
  intro i j h
  rw [PreFix.lltsa_lhs_get hW]
  exact if_pos h

/-- pre-fix LLTSA: the diagonal of `2 Fᵀ W F − s sᵀ/N` against `Fᵀ H F` with halved off-diagonal -/
theorem prefix_lltsa_solver_sees {W : Mat N N K} (hW : ∀ r c, W r c = W c r) (F : Mat N D K) (h2 : (2 : K) ≠ 0)
    (i j : Fin D) :
    (genSolveLower (PreFix.lltsaProblem W F)).1 i j
        = (if i = j then 2 * fullForm W F i i - featureSum F i * featureSum F i / (N : K) else 0) ∧
    (genSolveLower (PreFix.lltsaProblem W F)).2 i j
        = (if i = j then fullForm centering F i i else fullForm centering F i j / 2) :=
  PreFix.genSolveLower_lltsa hW F h2 i j

/-- model-level form of the metamorphic failure of the pre-fix code: there are symmetric `W`, samples `F` and an
    orthogonal `R` for which what the solver saw of `lhs` after `x ↦ R x` was NOT `R (what it saw before) Rᵀ`
    (contrast `npe_view_rotation_equivariant`).  Witness: samples `(1,0)`, `(0,2)`, `W = 1`, the 3-4-5 rotation. -/
theorem prefix_npe_solver_view_not_rotation_equivariant :
    ∃ (W F R : Mat 2 2 ℚ), (∀ r c, W r c = W c r) ∧ (Mat.toM R)ᵀ * Mat.toM R = 1 ∧
      Mat.toM (genSolveLower (PreFix.npeProblem W (rotateRows R F))).1
        ≠ Mat.toM R * Mat.toM (genSolveLower (PreFix.npeProblem W F)).1 * (Mat.toM R)ᵀ :=
  ⟨refuteW, diag12, rot345, refuteW_symm, rot345_orth, PreFix.npe_view_not_equivariant_witness⟩

/-- on the witness of `prefix_solver_sees_XMXt_refuted` (`Fᵀ W F = [[2,1],[1,1]]`) the current routine shows the solver
    `2 = 2 · 1` at `(0,1)`, the pre-fix one showed `0` -/
example : (genSolveLower (npeProblem refuteW refuteF)).1 0 1 = 2 ∧
    (genSolveLower (PreFix.npeProblem refuteW refuteF)).1 0 1 = 0 := by
  constructor
  · rw [solver_sees_XMXt_npe refuteW_symm]
    show 2 * fullForm refuteW refuteF 0 1 = 2
    rw [refute_fullForm_01, mul_one]
  · rw [prefix_solver_sees_diag refuteW_symm, if_neg (by decide)]

/-- LLTSA between F-LLTSA-CENTRE and F-LLTSA-SHIFT (`PreShift.lltsaProblem`, historical definition) returned
    `(2 · Fᵀ W F, Fᵀ H F)`: the left-hand side used the UNCENTRED features -/
theorem preshift_lltsa_returns {W : Mat N N K} (hW : ∀ r c, W r c = W c r) (F : Mat N D K) :
    PreShift.lltsaProblem W F = (fun i j => 2 * fullForm W F i j, fullForm centering F) :=
  PreShift.lltsa_returns hW F

/-- and therefore depended on the origin of the feature space (contrast `lltsa_problem_translation_invariant`).
    Witness (`N = 2`, `D = 1`): samples `0`, `1`, `W = 1` (row sums `1 ≠ 0`), `t = 1`: `lhs` was `2` before and `10`
    after the translation. -/
theorem preshift_lltsa_not_translation_invariant :
    ∃ (W : Mat 2 2 ℚ) (F : Mat 2 1 ℚ) (t : Vec 1 ℚ), (∀ r c, W r c = W c r) ∧
      (PreShift.lltsaProblem W (fun r j => F r j + t j)).1 ≠ (PreShift.lltsaProblem W F).1 :=
  ⟨refuteW, PreShift.shiftF, PreShift.shiftT, refuteW_symm, PreShift.lltsa_not_translation_invariant_witness⟩

/-- on the same witness the current routine is unaffected by the translation -/
example : lltsaProblem refuteW (fun r j => PreShift.shiftF r j + PreShift.shiftT j)
    = lltsaProblem refuteW PreShift.shiftF :=
  lltsa_problem_translation_invariant (by decide) refuteW_symm _ _

/-! ## Spectral part (eigensolver contract `GenEigSystem` as hypothesis; `Proofs/SpectralLocal.lean`) -/

section Spectral
open TapkeeVerif.SpectralLocal
variable {K : Type} [Field K] [LinearOrder K] [IsStrictOrderedRing K]


/-- **NPE / LLTSA / LPP solve the full feature-space problem — provided the solver sees it.**
    `(As, Bs)` is what the generalised solver reads (`genSolveLower` of the constructed pair), `(V, lam)` its full
    `Bs`-orthonormal eigensystem with ascending eigenvalues (solver contract), `P` the first `d` columns (skip = 0).
    If `As = c • A` and `Bs = c' • B` with `c, c' > 0` for the property's `A = X M Xᵀ`, `B = X B Xᵀ`
    (`solver_sees_XMXt`: proved for the current routines with `c = 2`, `c' = 1`; false before fix F-LIN-TRI), then every
    column solves `A p = (c'/c · lam) B p` and `P` minimises `tr(Zᵀ A Z)` over `Zᵀ B Z = 1/c'`-normalised `Z`
    (stated for the seen pencil: `tr(Pᵀ As P) ≤ tr(Zᵀ As Z)` for all `Zᵀ Bs Z = 1`): the `d` smallest eigenvalues. -/
theorem lin_solution {n d : Nat} (A B As Bs V : Matrix (Fin n) (Fin n) K) (lam : Fin n → K) (c c' : K)
    (h : GenEigSystem As Bs V lam) (hA : As = c • A) (hB : Bs = c' • B) (hc : 0 < c) (hc' : 0 < c') (hd : 0 + d ≤ n) :
    (∀ j : Fin d, A.mulVec (fun i => cols V (shiftIdx 0 hd) i j)
        = (c' / c * lam (shiftIdx 0 hd j)) • B.mulVec (fun i => cols V (shiftIdx 0 hd) i j)) ∧
    (cols V (shiftIdx 0 hd))ᵀ * B * cols V (shiftIdx 0 hd) = c'⁻¹ • (1 : Matrix (Fin d) (Fin d) K) ∧
    (∀ j j' : Fin d, j ≤ j' → c' / c * lam (shiftIdx 0 hd j) ≤ c' / c * lam (shiftIdx 0 hd j')) ∧
    ∀ Z : Matrix (Fin n) (Fin d) K, Zᵀ * B * Z = c'⁻¹ • (1 : Matrix (Fin d) (Fin d) K) →
      Matrix.trace ((cols V (shiftIdx 0 hd))ᵀ * A * cols V (shiftIdx 0 hd)) ≤ Matrix.trace (Zᵀ * A * Z) := by
  have hinj := shiftIdx_injective (d := d) (n := n) 0 hd
  have hc0 : c ≠ 0 := ne_of_gt hc
  have hc'0 : c' ≠ 0 := ne_of_gt hc'
  have hBs : ∀ Z : Matrix (Fin n) (Fin d) K, Zᵀ * Bs * Z = c' • (Zᵀ * B * Z) := by
    intro Z
    rw [hB, Matrix.mul_smul, Matrix.smul_mul]
  have hAs : ∀ Z : Matrix (Fin n) (Fin d) K, Zᵀ * As * Z = c • (Zᵀ * A * Z) := by
    intro Z
    rw [hA, Matrix.mul_smul, Matrix.smul_mul]
  refine ⟨fun j => eigen_equation_scaled h hA hB hc0 _, ?_, ?_, ?_⟩
  · have := cols_orthonormal h _ hinj
    rw [hBs] at this
    rw [← this, smul_smul, inv_mul_cancel₀ hc'0, one_smul]
  · intro j j' hjj'
    apply mul_le_mul_of_nonneg_left _ (le_of_lt (div_pos hc' hc))
    apply h.sorted
    show 0 + j.1 ≤ 0 + j'.1
    have : j.1 ≤ j'.1 := hjj'
    omega
  · intro Z hZ
    have hZs : Zᵀ * Bs * Z = 1 := by
      rw [hBs, hZ, smul_smul, mul_inv_cancel₀ hc'0, one_smul]
    have key := bottom_after_skip h 0 hd Z hZs (fun j hj => absurd hj (Nat.not_lt_zero _))
    rw [hAs, hAs, Matrix.trace_smul, Matrix.trace_smul, smul_eq_mul, smul_eq_mul] at key
    exact le_of_mul_le_mul_left key hc

/-- **Rotation equivariance of the solution**: if the solver sees the full pencil, rotating the feature space
    (`A ↦ R A Rᵀ`, `B ↦ R B Rᵀ`, which is what `X ↦ R X` does to `X M Xᵀ`, `X B Xᵀ`: `fullForm_rotate`) maps the
    eigensystem `(V, lam)` to `(R V, lam)`: same eigenvalues, projection matrix rotated along — and then the embedding
    `(x − mean)ᵀ P` is unchanged (`project_rotate`). -/
theorem rotation_equivariance {n : Nat} (A B V R : Matrix (Fin n) (Fin n) K) (lam : Fin n → K)
    (h : GenEigSystem A B V lam) (hR : Rᵀ * R = 1) :
    GenEigSystem (R * A * Rᵀ) (R * B * Rᵀ) (R * V) lam ∧
    ∀ (d : Nat) (e : Fin d → Fin n), cols (R * V) e = R * cols V e := by
  refine ⟨h.rotate R hR, ?_⟩
  intro d e
  ext i c
  simp [cols, Matrix.mul_apply]

/-- non-vacuity of `lin_solution`: `A = ½ !![1,-1;-1,1]`, `B = diag(2,2)`, the solver sees `As = 2 • A`, `Bs = 1 • B`
    with the `Bs`-orthonormal eigensystem `V = ½ !![1,1;1,-1]`, `lam = (0, 1)` -/
example : GenEigSystem ((2 : ℚ) • ((1 / 2 : ℚ) • (!![1, -1; -1, 1] : Matrix (Fin 2) (Fin 2) ℚ)))
      ((1 : ℚ) • (Matrix.diagonal ![2, 2] : Matrix (Fin 2) (Fin 2) ℚ)) ((1 / 2 : ℚ) • !![1, 1; 1, -1]) ![0, 1] := by
  refine ⟨?_, ?_, ?_⟩
  · ext i j
    fin_cases i <;> fin_cases j <;> simp [Matrix.mul_apply, Fin.sum_univ_two] <;> norm_num
  · ext i j
    fin_cases i <;> fin_cases j <;> simp [Matrix.mul_apply, Fin.sum_univ_two] <;> norm_num
  · intro a b hab
    fin_cases a <;> fin_cases b <;> simp_all

/-! ### soundness of the inertia count every spectral verdict of the run-time certificate rests on
(`Model/CertGen.lean: belowCount` = the exact rational LDLᵀ `Cert.inertiaPos` of `Model/Cert.lean` on `σ·B − A`;
proofs: `Proofs/CertGenSound.lean` on top of `Proofs/Inertia.inertiaPos_sound`) -/

/-- if the elimination of `S` closes with `p` positive pivots, `S` is positive definite on no family of more than `p`
    independent directions -/
theorem belowCount_sound {n : Nat} (S : Mat n n ℚ) (p : Nat) (h : TapkeeVerif.Cert.belowCount S = some p)
    {m : Type} [Fintype m] (W : Matrix (Fin n) m ℚ)
    (hpos : ∀ c : m → ℚ, c ≠ 0 → 0 < (W *ᵥ c) ⬝ᵥ (Mat.toM S *ᵥ (W *ᵥ c))) :
    Fintype.card m ≤ p :=
  TapkeeVerif.Cert.belowCount_sound S p h W hpos

/-- `belowCount (σ·B − A) = some p` ⇒ the pencil `(A, B)` has at most `p` eigenvalues below `σ` -/
theorem belowCount_bounds_eigenvalues {n : Nat} {A B V : Matrix (Fin n) (Fin n) ℚ} {lam : Fin n → ℚ}
    (h : GenEigSystem A B V lam) (σ : ℚ) (p : Nat)
    (hc : TapkeeVerif.Cert.belowCount (fun i j => σ * B i j - A i j) = some p) :
    (Finset.univ.filter fun j => lam j < σ).card ≤ p :=
  TapkeeVerif.Cert.belowCount_bounds_eigenvalues h σ p hc

/-- the form the certificate uses: with `p ≤ m`, every eigenvalue of index `≥ m` is `≥ σ` — so `m` approximate
    eigenvectors with Rayleigh quotients below `σ` account for ALL eigenvalues below `σ`: they are the `m` smallest -/
theorem bottom_certified {n : Nat} {A B V : Matrix (Fin n) (Fin n) ℚ} {lam : Fin n → ℚ}
    (h : GenEigSystem A B V lam) (σ : ℚ) (p m : Nat)
    (hc : TapkeeVerif.Cert.belowCount (fun i j => σ * B i j - A i j) = some p) (hpm : p ≤ m) :
    ∀ j : Fin n, m ≤ j.1 → σ ≤ lam j :=
  TapkeeVerif.Cert.bottom_certified h σ p m hc hpm

end Spectral


end TapkeeVerif.C10
