import TapkeeVerif.Model.LinearGraph
/-! C10 property theorems (skeleton; filled in as the proofs land). -/
namespace TapkeeVerif.C10
open TapkeeVerif TapkeeVerif.LinearGraph

theorem lowerView_diag {D : Nat} (A : Mat D D Int) (i : Fin D) : Mat.lowerView A i i = A i i := by
  simp [Mat.lowerView]

end TapkeeVerif.C10
