import TapkeeVerif.Model.Connected
/-! Property C03 — theorems (work in progress; see Proofs/Connected*.lean). -/
namespace TapkeeVerif.Connected

/-- regression witness of F-CONN-DIR (fixed in 821c976): the 2-out-regular graph "outlier first", which the
    old reach-from-0 test accepted although it is not strongly connected, is rejected. -/
theorem isConnected_rejects_outlier_first :
    isConnected 4 [[1, 2], [2, 3], [1, 3], [1, 2]] = .ok false ∧
      stronglyConnected [[1, 2], [2, 3], [1, 3], [1, 2]] 4 = false := by decide

end TapkeeVerif.Connected
