import TapkeeVerif.Proofs.ConnectedPerm
import TapkeeVerif.Proofs.ConnectedOracle
import TapkeeVerif.Proofs.ConnectedBridge
import TapkeeVerif.Props.C02
import TapkeeVerif.Model.Knn
/-!
# Property C03 — check_connectivity guarantees a graph on which all geodesics are finite

Subjects: the models of `include/tapkee/neighbors/connected.hpp` (`is_connected`, as of the fix F-CONN-DIR
821c976: depth-first search from sample 0 along the edges and along the reversed edges) and of the recursion of
`neighbors.hpp::find_neighbors` in `Model/Connected.lean`.  `N`, `k`, the graphs and the search are
universally quantified; the search is *any* function from k to neighbour lists (C02 is its specification).

`StronglyConnected g N` : every sample `u < N` reaches every sample `v < N` along the edges the code follows
(`w ∈ (g[u]).take (g[0].size())`), i.e. in the direction in which the Dijkstra of `routines/isomap.hpp`
relaxes edges — exactly the condition under which every shortest-path distance is finite.
-/
namespace TapkeeVerif.Connected
open TapkeeVerif.Knn

/-- **`isConnected_iff`** : whenever the lists can be read in bounds, `is_connected` answers (the loops
    terminate: `dfs_total` / `reachesAll_total` is part of the proof) and the answer is strong connectivity of the
    followed edges. -/
theorem isConnected_iff {N : Nat} {g : Graph} (hN : 0 < N) (hoob : isConnected N g ≠ .oob) :
    ∃ b, isConnected N g = .ok b ∧ (b = true ↔ StronglyConnected g N) :=
  isConnected_spec hN hoob

/-- the depth-first search alone decides reachability of every vertex from vertex 0 (and always answers) -/
theorem reachesAll_iff_reach {N : Nat} {h : Graph} (hwf : WFG N h) (hN : 0 < N) :
    ∃ b, reachesAll N h = .ok b ∧ (b = true ↔ ∀ v, v < N → Reach h 0 v) :=
  reachesAll_iff hwf hN

/-- **`C03_geodesics_finite`** : a graph returned by `find_neighbors(.., check_connectivity = true)` lets every
    sample reach every other sample along the followed edges — for any search whatsoever. -/
theorem C03_geodesics_finite (search : Nat → Graph) {N : Nat} (hN : 0 < N) (fuel k : Nat) (f : Found)
    (h : findNeighbors search N true fuel k [] = .ok f) : StronglyConnected f.graph N := by
  obtain ⟨_, _, _, h3, _, _⟩ := findNeighbors_spec search N fuel k [] f h
  exact isConnected_true_iff hN h3

/-- **`k_raised_only_if_needed`** : the final k is `min (k₀·2^j) (N-1)` for the *least* `j` whose graph is
    strongly connected; every smaller level was searched and its graph lacked that reachability. -/
theorem k_raised_only_if_needed (search : Nat → Graph) {N : Nat} (hN : 0 < N) (fuel k0 : Nat) (f : Found)
    (h : findNeighbors search N true fuel k0 [] = .ok f) :
    ∃ j, f.k = min (k0 * 2 ^ j) (N - 1) ∧ f.graph = search f.k ∧ StronglyConnected f.graph N ∧
      (∀ j', j' < j → ¬ StronglyConnected (search (min (k0 * 2 ^ j') (N - 1))) N) ∧
      f.tried = (List.range (j + 1)).map fun j' => min (k0 * 2 ^ j') (N - 1) := by
  obtain ⟨j, h1, h2, h3, h4, h5⟩ := findNeighbors_spec search N fuel k0 [] f h
  refine ⟨j, by rw [h1, kseq_closed], by rw [h2, h1], isConnected_true_iff hN h3, ?_, ?_⟩
  · intro j' hj' hsc
    have hf := h4 j' hj'
    obtain ⟨b, hb, hiff⟩ := isConnected_spec hN (g := search (kseq N k0 j')) (by rw [hf]; simp)
    rw [hf] at hb
    cases hb
    rw [kseq_closed] at hiff
    exact absurd (hiff.2 hsc) (by simp)
  · rw [h5, List.nil_append]
    apply List.map_congr_left
    intro a _
    exact kseq_closed N k0 a

/-- without the check the first search is returned as it is (k only clamped to N-1) -/
theorem findNeighbors_unchecked (search : Nat → Graph) (N fuel k : Nat) :
    findNeighbors search N false (fuel + 1) k [] = .ok ⟨search (min k (N - 1)), min k (N - 1), [min k (N - 1)]⟩ := by
  rw [findNeighbors_unfold]
  simp [clamp_eq_min]

/-- **`findNeighbors_terminates`** : for every requested `k ≥ 1` and every search whose lists are exact k-NN
    lists (C02: `k` distinct other samples, here only that much of `IsExactKnn` is used), the recursion ends
    with a result within the fuel the model passes; in particular it never hangs and never reads out of bounds. -/
theorem findNeighbors_terminates {K : Type} [LE K] [DecidableLE K] (δ : Nat → Nat → K) (search : Nat → Graph)
    {N : Nat} (hN : 0 < N) {k0 : Nat} (hk : 1 ≤ k0)
    (hlen : ∀ k, (search k).length = N)
    (hexact : ∀ k, k ≤ N - 1 → ∀ u (hu : u < (search k).length),
      IsExactKnn δ (List.range N) k u (search k)[u]) :
    ∃ f, findNeighbors search N true (findFuel N) k0 [] = .ok f := by
  have huni : ∀ k, k ≤ N - 1 → Uniform (search k) N k := by
    intro k hk'
    refine ⟨hlen k, ?_⟩
    intro l hl
    obtain ⟨u, hu, rfl⟩ := List.getElem_of_mem hl
    obtain ⟨h1, _, _, h4, _⟩ := hexact k hk' u hu
    exact ⟨h1, fun w hw => List.mem_range.1 (h4 w hw)⟩
  apply findNeighbors_total search N hN (fun k hk' => (huni k hk').not_oob hN)
  · apply complete_connected hN (hlen _)
    intro u hu
    obtain ⟨h1, h2, h3, h4, _⟩ := hexact (N - 1) (Nat.le_refl _) u hu
    exact ⟨h1, h2, h3, fun w hw => List.mem_range.1 (h4 w hw)⟩
  · exact ⟨N - 1, by unfold findFuel; omega, kseq_reaches N k0 hk⟩

/-- **`decision_order_independent`** : for inverse permutations `π` (new ↦ old index), `inv` (old ↦ new) of the
    sample order, the verdict of `is_connected` on the relabelled graph (the graph the same data produce when
    supplied in the order `π`) is the verdict on the original graph. -/
theorem decision_order_independent {g : Graph} {N k : Nat} {π inv : List Nat} (hu : Uniform g N k)
    (hp : IsPermPair π inv N) (hN : 0 < N) :
    isConnected N (relabel g π inv) = isConnected N g :=
  isConnected_relabel hu hp hN

/-- strong connectivity itself is invariant under relabelling -/
theorem stronglyConnected_order_independent {g : Graph} {N k : Nat} {π inv : List Nat} (hu : Uniform g N k)
    (hp : IsPermPair π inv N) (hN : 0 < N) :
    StronglyConnected (relabel g π inv) N ↔ StronglyConnected g N :=
  stronglyConnected_relabel hu hp hN

/-- **all geodesics are finite** (join with C04): on a strongly connected graph with uniform lists and non-negative
    weights, for both queue disciplines and every tie-breaking stream, the row that the model of
    `compute_shortest_distances_matrix` (C04, `dijkstra_exact`: `none` iff unreachable) computes for any source has no
    `dblmax` entry. -/
theorem C03_geodesic_matrix_finite {K : Type} [AddCommMonoid K] [LinearOrder K] [IsOrderedAddMonoid K]
    {g : Graph} {N k : Nat} (hu : Uniform g N k) (hN : 0 < N) (hsc : StronglyConnected g N)
    (w : Nat → Nat → K) (hw : ∀ a b, 0 ≤ w a b) (disc : Dijkstra.Disc) (ch : Nat → Nat) {s : Nat} (hs : s < N) :
    ∃ r, Dijkstra.row (problemOf g N w) disc k ch s s = .ok r ∧ ∀ v (hv : v < N), r[v] ≠ none :=
  geodesics_finite hu hN hsc w hw disc ch hs

/-- **the result is order independent as far as the data determine it**: if, for every k, the search on the
    re-ordered samples returns — up to the order inside each list — the relabelled lists of the search on the
    original order (the case of every exact search on tie-free data: `exactKnn_unique_of_tieFree`), then
    `find_neighbors(.., true)` tries the same k sequence in both orders, stops at the same final k and returns the
    graphs of that k (`SameRun`).  With ties the k-NN graph itself is not determined by the data, and neither is the
    result. -/
theorem result_order_independent (search search' : Nat → Graph) {N : Nat} (hN : 0 < N) {π inv : List Nat}
    (hp : IsPermPair π inv N)
    (hu : ∀ k, k ≤ N - 1 → Uniform (search k) N k) (hu' : ∀ k, k ≤ N - 1 → Uniform (search' k) N k)
    (heq : ∀ k, k ≤ N - 1 → SameEdges (relabel (search k) π inv) (search' k) N) (fuel k : Nat) :
    SameRun search search' (findNeighbors search N true fuel k []) (findNeighbors search' N true fuel k []) :=
  findNeighbors_order_independent search search' hN hp hu hu' heq fuel k []

/-- on tie-free data the exact k-NN set of a sample is unique: two exact lists are permutations of each other -/
theorem exactKnn_unique_of_tieFree {α K : Type} [DecidableEq α] [LinearOrder K] {δ : α → α → K} {pts : List α}
    {k : Nat} {i : α} {l l' : List α} (h : IsExactKnn δ pts k i l) (h' : IsExactKnn δ pts k i l')
    (htf : ∀ a ∈ pts, ∀ b ∈ pts, δ i a = δ i b → a = b) : l.Perm l' := by
  obtain ⟨_, hnd, _, hsub, hs⟩ := h
  obtain ⟨_, hnd', _, hsub', hs'⟩ := h'
  have hm : (l.map (δ i)).Perm (l'.map (δ i)) :=
    (sortK_perm _).symm.trans ((hs.trans hs'.symm) ▸ sortK_perm _)
  rw [List.perm_ext_iff_of_nodup hnd hnd']
  intro a
  constructor
  · intro ha
    obtain ⟨b, hb, hfb⟩ := List.mem_map.1 (hm.mem_iff.1 (List.mem_map.2 ⟨a, ha, rfl⟩))
    rw [← htf b (hsub' b hb) a (hsub a ha) hfb]
    exact hb
  · intro ha
    obtain ⟨b, hb, hfb⟩ := List.mem_map.1 (hm.mem_iff.2 (List.mem_map.2 ⟨a, ha, rfl⟩))
    rw [← htf b (hsub b hb) a (hsub' a ha) hfb]
    exact hb

/-- the executable oracle the driver runs on the implementation's lists (closure from every vertex — an
    algorithm independent of `is_connected`) is sound: `true` means strongly connected -/
theorem stronglyConnected_sound {g : Graph} {N : Nat} (hlen : g.length = N) (h : stronglyConnected g N = true) :
    StronglyConnected g N :=
  stronglyConnected_sound' hlen h

/-! ### why the repair F-CONN-DIR was needed (Lean-checked witnesses about the *old* test = forward search only) -/

/-- outlier first (`0 → 1 ⇄ 2`): the forward search from sample 0 alone reaches everything, although sample 0
    is unreachable — and after moving the outlier to the end (`π = [1,2,0]`) the same test says "no":
    reach-from-0 is neither sufficient for finite geodesics nor order independent.  The repaired test rejects
    the graph in both orders. -/
theorem reach_from_first_alone_refuted :
    reachesAll 3 [[1], [2], [1]] = .ok true ∧ stronglyConnected [[1], [2], [1]] 3 = false ∧
      reachesAll 3 (relabel [[1], [2], [1]] [1, 2, 0] [2, 0, 1]) = .ok false ∧
      isConnected 3 [[1], [2], [1]] = .ok false ∧
      isConnected 3 (relabel [[1], [2], [1]] [1, 2, 0] [2, 0, 1]) = .ok false := by decide

/-! ### non-vacuity -/

example : Uniform [[1, 2], [2, 0], [0, 1]] 3 2 := by
  refine ⟨rfl, ?_⟩
  decide

example : IsPermPair [1, 2, 0] [2, 0, 1] 3 := by
  refine ⟨rfl, rfl, ?_, ?_⟩ <;> decide

example : isConnected 3 [[1, 2], [2, 0], [0, 1]] = .ok true := by decide

example : WFG 3 [[1], [2], [1]] := by
  refine ⟨rfl, ?_⟩
  decide

/-- the hypothesis `hexact` of `findNeighbors_terminates` is met by the brute-force model of C02 on five points of the
    integer line (`brute_exact`), so the termination theorem applies to it -/
example : ∃ f, findNeighbors (fun k => (List.range 5).map (bruteKnn lineDist (List.range 5) k)) 5 true (findFuel 5) 2 []
    = .ok f :=
  findNeighbors_terminates lineDist _ (by decide) (by decide) (fun k => by simp)
    (fun k hk u hu => by
      have hu5 : u < 5 := by simpa using hu
      simp only [List.getElem_map, List.getElem_range]
      exact brute_exact List.nodup_range (List.mem_range.2 hu5) (by simpa using (by omega : k < 5))
        (fun j _ => by simp [lineDist]) (bruteKnn_admissible lineDist (List.range 5) k u))

/-- a search that needs one doubling: two pairs that only see each other at k = 1 -/
example : findNeighbors (fun k => if k = 1 then [[1], [0], [3], [2]] else [[1, 2, 3], [0, 2, 3], [3, 0, 1], [2, 0, 1]])
    4 true (findFuel 4) 1 [] = .ok ⟨[[1, 2, 3], [0, 2, 3], [3, 0, 1], [2, 0, 1]], 2, [1, 2]⟩ := by decide

end TapkeeVerif.Connected
