import TapkeeVerif.Model.Connected
/-! Property C03 — theorems (work in progress; see Proofs/Connected*.lean). -/
namespace TapkeeVerif.Connected

/-- F-CONN-DIR, model level: a 2-out-regular graph (outlier first) that `is_connected` accepts
    although it is not strongly connected. -/
theorem isConnected_accepts_not_strongly_connected_witness :
    isConnected 4 [[1, 2], [2, 3], [1, 3], [1, 2]] = .ok true ∧
      stronglyConnected [[1, 2], [2, 3], [1, 3], [1, 2]] 4 = false := by decide

end TapkeeVerif.Connected
