import TapkeeVerif.Props.C19
/-!
# C19 — the statement that depends on the shape of the working tree

`Gen.spePartnersInPlace` is regenerated from `include/tapkee/routines/spe.hpp` by every run of `check.py C19`.
Since the repair of F-SPE-LOCAL (partners kept in a vector of their own) it is `false`, and `spe_indices_perm_local`
below is the FULL statement for the code as it stands; likewise `Gen.speAlphaZeroGuard` (`true` since the repair of
F-SPE-ZERODIST) and `spe_alpha_defined` / `spe_run_total_current`.  A regression to the in-place overwrite regenerates `true`;
this file then no longer compiles (broken proof obligation) while `Props/C19.lean` — with the refutation
`spe_indices_perm_local_refuted` for that shape — still does, and the corpus case `corpus/C19/f-spe-local.case`
re-finds the failing input on the real code.
-/
namespace TapkeeVerif.C19
open TapkeeVerif TapkeeVerif.Spe

/-- Local strategy of the working tree, every valid neighbour structure, every shuffle stream, every uniform stream
    (through its floor values), every `N`, every `spe_num_updates`, every iteration: the index vector is a
    permutation of `0..N-1`. -/
theorem spe_indices_perm_local : LocalPermClaim Gen.spePartnersInPlace :=
  spe_indices_perm_local_current.mpr rfl

/-- … and what the pairs of the local strategy ARE on the working tree (stated on the generated constant): pair `j` is
    (`indices[j]`, one of the first `k` neighbours of it), both `< N`, no self pair, first members pairwise distinct;
    reaching `.ok` means no vector was indexed out of range. -/
theorem spe_local_pairs :
    ∀ (nb : List (List Nat)) (N k nupReq : Nat) (shuffle : Nat → List Nat) (fv : Nat → Int),
      ValidNeighbors nb N k → (∀ t, (shuffle t).Perm (List.range N)) → (∀ c, 0 ≤ fv c ∧ fv c < k) →
      ∀ t, ∃ idx ps, stepAt Gen.spePartnersInPlace false nb k N (clampUpdates N nupReq) shuffle fv t = .ok (idx, ps) ∧
        idx.Perm (List.range N) ∧ ps.length = clampUpdates N nupReq ∧
        (∀ j, j < clampUpdates N nupReq → ∃ b, ps[j]? = some (ind1 idx j, b) ∧
          b ∈ (nb.getD (ind1 idx j) []).take k ∧ ind1 idx j < N ∧ b < N ∧ ind1 idx j ≠ b) ∧
        (∀ j j', j < clampUpdates N nupReq → j' < clampUpdates N nupReq → j ≠ j' → ind1 idx j ≠ ind1 idx j') := by
  have h : Gen.spePartnersInPlace = false := rfl
  rw [h]
  exact spe_indices_perm_local_separate.2

/-- Global strategy of the working tree (`Gen.speAlphaZeroGuard`, regenerated from the assignment to `alpha` in
    `spe.hpp`): the normaliser is defined for EVERY distance callback — coinciding samples (maximum distance 0) included
    — and in the local strategy it is the constant 1.  Compiles only on the repaired shape (F-SPE-ZERODIST, c1f47d5): a
    regression to the unguarded division breaks this obligation and `corpus/C19/f-spe-zerodist.case` re-finds the NaN
    embedding. -/
theorem spe_alpha_defined (N : Nat) (dist : Nat → Nat → Rat) (sqrtO : Rat → Rat) (g : Bool) :
    ∃ a, alphaOf Gen.speAlphaZeroGuard g N dist sqrtO = .ok a :=
  spe_alpha_zero_distances.2 N dist sqrtO g

/-- … hence, on the working tree, the hypothesis about `alpha` of `spe_run_total` is vacuous: the full model returns
    a configuration for every stream as soon as `tolerance > 0`, `sqrt ≥ 0` and (local strategy) the neighbour lists and
    floor values are valid. -/
theorem spe_run_total_current {K : Type} [Field K] [LinearOrder K] [IsStrictOrderedRing K] (inp : Input K)
    (hshape : inp.inPlace = Gen.spePartnersInPlace ∧ inp.zeroGuard = Gen.speAlphaZeroGuard)
    (hY : inp.y0.size = inp.N) (htol : 0 < inp.tol) (hsq : ∀ x, 0 ≤ inp.sqrtO x)
    (hs : ∀ t, (inp.shuffle t).Perm (List.range inp.N))
    (hlocal : inp.global = false → ∃ k, kOf false inp.nb = .ok k ∧ ValidNeighbors inp.nb inp.N k ∧
      ∀ c, 0 ≤ floorPick inp k c ∧ floorPick inp k c < k) :
    ∃ st, run inp = .ok st :=
  spe_run_total inp hY htol hsq hs (fun _ => Or.inl (by rw [hshape.2]; rfl)) hlocal

end TapkeeVerif.C19
