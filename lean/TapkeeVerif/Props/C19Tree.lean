import TapkeeVerif.Props.C19
/-!
# C19 — the statement that depends on the shape of the working tree

`Gen.spePartnersInPlace` is regenerated from `include/tapkee/routines/spe.hpp` by every run of `check.py C19`.
Since the repair of F-SPE-LOCAL (partners kept in a vector of their own) it is `false`, and `spe_indices_perm_local`
below is the FULL statement for the code as it stands.  A regression to the in-place overwrite regenerates `true`;
this file then no longer compiles (broken proof obligation) while `Props/C19.lean` — with the refutation
`spe_indices_perm_local_refuted` for that shape — still does, and the corpus case `corpus/C19/f-spe-local.case`
re-finds the failing input on the real code.
-/
namespace TapkeeVerif.C19
open TapkeeVerif TapkeeVerif.Spe

/-- Local strategy of the working tree, every valid neighbour structure, every shuffle stream, every uniform stream
    (through its floor values), every `N`, every `spe_num_updates`, every iteration: the index vector is a
    permutation of `0..N-1`. -/
theorem spe_indices_perm_local : LocalPermClaim Gen.spePartnersInPlace :=
  spe_indices_perm_local_current.mpr rfl

end TapkeeVerif.C19
