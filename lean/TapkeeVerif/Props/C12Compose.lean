import TapkeeVerif.Proofs.EquivCompose
/-!
# Property C12 (composition) — the composed Isomap model is equivariant end to end

`Props/C12.lean` / `Props/C12b.lean` prove equivariance stage by stage (`isExactKnn_transport`, `dijkstra_perm`,
`dijkstra_scale`, `isomapPre_perm`, `isomapPre_scale`, `spectralTopEig_perm`, `spectralTopEig_scale`,
`gram_embedding_perm`), `Props/C03.lean` the order independence of the k doubling (`result_order_independent`,
`exactKnn_unique_of_tieFree`).  Here they are joined through `IsomapCompose.isomapEmbedModel`
(`Props/C04Compose.lean`): two complete runs of the composed model — original data and transformed data, each with its
own queue discipline, tie-breaking streams, solver outcome and `sqrt` oracle — are related stage by stage up to the
returned embedding.  The eigensolver is not a function of its input in the field model (a contract), so the last
stage is stated as: the transported solver outcome meets the contract on the transformed side, and with it the Gram
matrix of the embedding is the transported Gram matrix ("the same embedding up to the solver's choice").
-/
namespace TapkeeVerif.EquivCompose
open TapkeeVerif TapkeeVerif.Connected TapkeeVerif.Knn TapkeeVerif.IsomapCompose TapkeeVerif.IsomapPre
open TapkeeVerif.Spectral Matrix

variable {K : Type} [Field K] [LinearOrder K] [IsStrictOrderedRing K]

/-- **isomap_scale_equivariant.**  Multiply every value of the distance callback by `c > 0` (same search function: an
    exact k-NN list stays exact, `isExactKnn_scale`): both runs succeed with the SAME `find_neighbors` result (final
    `k'`, graph, tried sequence), `G' = c·G`, `B' = c²·B`; the solver outcome `(V, c²·λ)` meets the contract for `B'`
    whenever `(V, λ)` meets it for `B`; and with that outcome (and `sqrt` contracts on both sides)
    `Y'·Y'ᵀ = c²·Y·Yᵀ` — the embedding scales by `c`. -/
theorem isomap_scale_equivariant (δ : Nat → Nat → K) {N : Nat} (hN : 0 < N) {k : Nat} (hk : 1 ≤ k) (hkN : k ≤ N - 1)
    (d : Nat) (hw : ∀ a b, 0 ≤ δ a b) {c : K} (hc : 0 < c)
    (search : Nat → Graph) (hlen : ∀ k, (search k).length = N)
    (hexact : ∀ k, k ≤ N - 1 → ∀ u (hu : u < (search k).length), IsExactKnn δ (List.range N) k u (search k)[u])
    (disc disc' : Dijkstra.Disc) (ch ch' : Nat → Nat → Nat) (solver solver' : Mat N N K → Mat N d K × Vec d K)
    (sqrtO sqrtO' : K → K) :
    ∃ o o', isomapEmbedModel δ N k true d search disc ch solver sqrtO = .ok o ∧
      isomapEmbedModel (fun a b => c * δ a b) N k true d search disc' ch' solver' sqrtO' = .ok o' ∧
      (o.V, o.lam) = solver o.B ∧ (o'.V, o'.lam) = solver' o'.B ∧
      o'.found = o.found ∧ (∀ i j, o'.G i j = c * o.G i j) ∧ (∀ i j, o'.B i j = c ^ 2 * o.B i j) ∧
      (IsTopEig (Mat.toM o.B) (Mat.toM o.V) o.lam →
        IsTopEig (Mat.toM o'.B) (Mat.toM o.V) (fun j => c ^ 2 * o.lam j)) ∧
      (IsTopEig (Mat.toM o.B) (Mat.toM o.V) o.lam → o'.V = o.V → (∀ j, o'.lam j = c ^ 2 * o.lam j) →
        (∀ j, sqrtO (clamp0 (o.lam j)) * sqrtO (clamp0 (o.lam j)) = clamp0 (o.lam j)) →
        (∀ j, sqrtO' (clamp0 (o'.lam j)) * sqrtO' (clamp0 (o'.lam j)) = clamp0 (o'.lam j)) →
        Mat.toM o'.Y * (Mat.toM o'.Y)ᵀ = c ^ 2 • (Mat.toM o.Y * (Mat.toM o.Y)ᵀ)) := by
  have hw' : ∀ a b, 0 ≤ c * δ a b := fun a b => mul_nonneg hc.le (hw a b)
  obtain ⟨o, ho, -, ⟨-, hglen, hex⟩, ⟨-, hG⟩, ⟨-, -, hB⟩, ⟨hS, hY, -⟩⟩ :=
    isomap_end_to_end δ hN hk hkN d hw search hlen hexact disc ch solver sqrtO
  obtain ⟨o', ho', -, -, ⟨-, hG'⟩, ⟨-, -, hB'⟩, ⟨hS', hY', -⟩⟩ :=
    isomap_end_to_end (fun a b => c * δ a b) hN hk hkN d hw' search hlen
      (fun k hk' u hu => isExactKnn_scale hc (hexact k hk' u hu)) disc' ch' solver' sqrtO'
  have hfound : o'.found = o.found := by
    have h1 := model_found ho
    have h2 := model_found ho'
    rw [h1] at h2
    injection h2 with h2
    exact h2.symm
  have huni : Uniform o.found.graph N o.found.k := uniform_of_exact hglen hex
  have hGG : ∀ i j, o'.G i j = c * o.G i j := by
    intro i j
    have h1 := (hG i j).2
    have h2 := (hG' i j).2
    rw [hfound] at h2
    have hs : C12b.IsScaled c (problemOf o.found.graph N δ) (problemOf o.found.graph N (fun a b => c * δ a b)) :=
      ⟨rfl, rfl, fun _ _ => rfl⟩
    have h3 := C12b.geodesic_scale hs hc.le h1
    exact Option.some.inj (h2.unique h3)
  have hBB : ∀ i j, o'.B i j = c ^ 2 * o.B i j := by
    intro i j
    rw [hB', hB, ← isomapPre_eq_isomapPreOfGeodesics, ← isomapPre_eq_isomapPreOfGeodesics,
      show o'.G = fun i j => c * o.G i j from funext fun i => funext fun j => hGG i j, C12b.isomapPre_scale]
  have hBM : Mat.toM o'.B = c ^ 2 • Mat.toM o.B := by
    ext i j
    simp only [Mat.toM_apply, Matrix.smul_apply, smul_eq_mul, hBB]
  refine ⟨o, o', ho, ho', hS, hS', hfound, hGG, hBB, ?_, ?_⟩
  · intro htop
    rw [hBM]
    exact C12b.spectralTopEig_scale (c ^ 2) (sq_nonneg c) htop
  · intro htop hV hlam hs hs'
    have htop' : IsTopEig (Mat.toM o'.B) (Mat.toM o'.V) o'.lam := by
      rw [hBM, hV, show o'.lam = fun j => c ^ 2 * o.lam j from funext hlam]
      exact C12b.spectralTopEig_scale (c ^ 2) (sq_nonneg c) htop
    rw [hY, hY', (C05.mds_gram _ _ _ _ htop.toIsEigSystem hs).2, (C05.mds_gram _ _ _ _ htop'.toIsEigSystem hs').2, hV]
    have : (fun j => clamp0 (o'.lam j)) = c ^ 2 • fun j => clamp0 (o.lam j) := by
      funext j
      rw [hlam j, clamp0_scale (sq_nonneg c)]
      rfl
    rw [this, Matrix.diagonal_smul, Matrix.mul_smul, Matrix.smul_mul]

/-- **isomap_permutation_equivariant.**  Re-order the samples by any permutation `π` (new sample `a` is old sample
    `π a`; the re-ordered callback is `δ ∘ (π × π)`), with tie-free non-negative distances (tie-freeness exactly as C03
    `exactKnn_unique_of_tieFree` needs it: from no sample are two samples equally far) and ANY two exact searches, one
    per ordering.  Both runs of the composed model succeed; they try the same k sequence and stop at the same `k'`; the
    returned graphs are the searches' graphs for `k'`, and the second is the relabelled first up to the order inside each
    list (`SameEdges (relabel …)`); `G' = Π G Πᵀ`, `B' = Π B Πᵀ` (entrywise: `G' i j = G (π i) (π j)`); if `(V, λ)`
    meets the solver contract for `B` then `(ΠV, λ)` meets it for `B'`; and with that outcome (and `sqrt` contracts on
    both sides) `Y'·Y'ᵀ = Π (Y·Yᵀ) Πᵀ`: the same embedding, relabelled.  Queue disciplines, tie-breaking streams and
    `sqrt` oracles are independent on the two sides. -/
theorem isomap_permutation_equivariant {N : Nat} (π : Equiv.Perm (Fin N)) (δ : Nat → Nat → K) (hN : 0 < N) {k : Nat}
    (hk : 1 ≤ k) (hkN : k ≤ N - 1) (d : Nat) (hw : ∀ a b, 0 ≤ δ a b)
    (htf : ∀ i, i < N → ∀ a ∈ List.range N, ∀ b ∈ List.range N, δ i a = δ i b → a = b)
    (search search' : Nat → Graph) (hlen : ∀ k, (search k).length = N)
    (hexact : ∀ k, k ≤ N - 1 → ∀ u (hu : u < (search k).length), IsExactKnn δ (List.range N) k u (search k)[u])
    (hlen' : ∀ k, (search' k).length = N)
    (hexact' : ∀ k, k ≤ N - 1 → ∀ u (hu : u < (search' k).length),
      IsExactKnn (fun a b => δ (pOf π a) (pOf π b)) (List.range N) k u (search' k)[u])
    (disc disc' : Dijkstra.Disc) (ch ch' : Nat → Nat → Nat) (solver solver' : Mat N N K → Mat N d K × Vec d K)
    (sqrtO sqrtO' : K → K) :
    ∃ o o', isomapEmbedModel δ N k true d search disc ch solver sqrtO = .ok o ∧
      isomapEmbedModel (fun a b => δ (pOf π a) (pOf π b)) N k true d search' disc' ch' solver' sqrtO' = .ok o' ∧
      (o.V, o.lam) = solver o.B ∧ (o'.V, o'.lam) = solver' o'.B ∧
      o'.found.k = o.found.k ∧ o'.found.tried = o.found.tried ∧
      o.found.graph = search o.found.k ∧ o'.found.graph = search' o.found.k ∧
      SameEdges (relabel o.found.graph (permList π) (permList π.symm)) o'.found.graph N ∧
      (∀ i j, o'.G i j = o.G (π i) (π j)) ∧ (∀ i j, o'.B i j = o.B (π i) (π j)) ∧
      (IsTopEig (Mat.toM o.B) (Mat.toM o.V) o.lam →
        IsTopEig (Mat.toM o'.B) ((Mat.toM o.V).submatrix π id) o.lam) ∧
      (IsTopEig (Mat.toM o.B) (Mat.toM o.V) o.lam → (∀ i c, o'.V i c = o.V (π i) c) → o'.lam = o.lam →
        (∀ j, sqrtO (clamp0 (o.lam j)) * sqrtO (clamp0 (o.lam j)) = clamp0 (o.lam j)) →
        (∀ j, sqrtO' (clamp0 (o'.lam j)) * sqrtO' (clamp0 (o'.lam j)) = clamp0 (o'.lam j)) →
        Mat.toM o'.Y * (Mat.toM o'.Y)ᵀ = (Mat.toM o.Y * (Mat.toM o.Y)ᵀ).submatrix π π) := by
  obtain ⟨o, ho, ⟨j, hkj, -⟩, -, ⟨-, hG⟩, ⟨-, -, hB⟩, ⟨hS, hY, -⟩⟩ :=
    isomap_end_to_end δ hN hk hkN d hw search hlen hexact disc ch solver sqrtO
  obtain ⟨o', ho', -, -, ⟨-, hG'⟩, ⟨-, -, hB'⟩, ⟨hS', hY', -⟩⟩ :=
    isomap_end_to_end (fun a b => δ (pOf π a) (pOf π b)) hN hk hkN d (fun a b => hw _ _) search' hlen' hexact'
      disc' ch' solver' sqrtO'
  have hp := isPermPair π
  have huS : ∀ k, k ≤ N - 1 → Uniform (search k) N k := fun k hk' => uniform_of_exact (hlen k) (hexact k hk')
  have huS' : ∀ k, k ≤ N - 1 → Uniform (search' k) N k := fun k hk' => uniform_of_exact (hlen' k) (hexact' k hk')
  have heq : ∀ k, k ≤ N - 1 → SameEdges (relabel (search k) (permList π) (permList π.symm)) (search' k) N :=
    fun k hk' => sameEdges_of_exact π htf (hlen k) (hexact k hk') (hlen' k) (hexact' k hk')
  have hrun := result_order_independent search search' hN hp huS huS' heq (findFuel N) k
  rw [model_found ho, model_found ho'] at hrun
  obtain ⟨hk', htr, hg, hg'⟩ := hrun
  have hk'le : o.found.k ≤ N - 1 := by rw [hkj]; exact Nat.min_le_right _ _
  have hse : SameEdges (relabel o.found.graph (permList π) (permList π.symm)) o'.found.graph N := by
    rw [hg, hg']; exact heq _ hk'le
  have hu : Uniform o.found.graph N o.found.k := by rw [hg]; exact huS _ hk'le
  have hu' : Uniform o'.found.graph N o.found.k := by rw [hg']; exact huS' _ hk'le
  have hGG : ∀ i j, o'.G i j = o.G (π i) (π j) := by
    intro i j
    have h1 := (hG (π i) (π j)).2
    have h3 := geodesic_perm_edges π hu hu' hse h1
    rw [← pOf_fin π i, ← pOf_fin π j, pOf_symm, pOf_symm] at h3
    have h2 := (hG' i j).2
    rw [hk'] at h2
    exact Option.some.inj (h2.unique h3)
  have hBB : ∀ i j, o'.B i j = o.B (π i) (π j) := by
    intro i j
    rw [hB', hB, ← isomapPre_eq_isomapPreOfGeodesics, ← isomapPre_eq_isomapPreOfGeodesics,
      show o'.G = Equivariance.relabel π o.G from funext fun i => funext fun j => hGG i j, C12b.isomapPre_perm]
    rfl
  have hBM : Mat.toM o'.B = (Mat.toM o.B).submatrix π π := by
    ext i j
    simp only [Mat.toM_apply, Matrix.submatrix_apply, hBB]
  refine ⟨o, o', ho, ho', hS, hS', hk', htr, hg, hg', hse, hGG, hBB, ?_, ?_⟩
  · intro htop
    rw [hBM]
    exact C12b.spectralTopEig_perm π htop
  · intro htop hV hlam hs hs'
    have hVM : Mat.toM o'.V = (Mat.toM o.V).submatrix π id := by
      ext i c
      simp only [Mat.toM_apply, Matrix.submatrix_apply, hV, id]
    have htop' : IsTopEig (Mat.toM o'.B) (Mat.toM o'.V) o'.lam := by
      rw [hBM, hVM, hlam]
      exact C12b.spectralTopEig_perm π htop
    rw [hY, hY', (C05.mds_gram _ _ _ _ htop.toIsEigSystem hs).2, (C05.mds_gram _ _ _ _ htop'.toIsEigSystem hs').2,
      hVM, hlam]
    ext i j
    simp [Matrix.mul_apply, Matrix.submatrix_apply]

/-! ## Laplacian Eigenmaps -/
section le
open TapkeeVerif.LeCompose TapkeeVerif.Laplacian TapkeeVerif.SpectralLocal

/-- **laplacian_eigenmaps_scale_invariant.**  Scale every distance by `c > 0` and the kernel width by `c²` (the width
    divides the SQUARED distance, C09 `heat_argument`): the composed Laplacian Eigenmaps model (`Props/C09Compose.lean`)
    returns the same `find_neighbors` result, the same `(L, D)` — every heat value is unchanged — and therefore, the solver
    being handed the identical pencil, the same eigenpairs and the same embedding. -/
theorem laplacian_eigenmaps_scale_invariant (δ : Nat → Nat → K) {N : Nat} (hN : 0 < N) {k : Nat} (hk : 1 ≤ k)
    (hkN : k ≤ N - 1) {d : Nat} (hd : 1 + d ≤ N) (width : K) (heat : K → K) (hheat : ∀ x, 0 < heat x)
    {c : K} (hc : 0 < c)
    (search : Nat → Graph) (hlen : ∀ k, (search k).length = N)
    (hexact : ∀ k, k ≤ N - 1 → ∀ u (hu : u < (search k).length), IsExactKnn δ (List.range N) k u (search k)[u])
    (solver : Mat N N K → Vec N K → Mat N N K × Vec N K) :
    ∃ o o', leEmbedModel δ N k true d hd width heat search solver = .ok o ∧
      leEmbedModel (fun a b => c * δ a b) N k true d hd (c ^ 2 * width) heat search solver = .ok o' ∧
      o'.found = o.found ∧ o'.L = o.L ∧ o'.D = o.D ∧ o'.V = o.V ∧ o'.lam = o.lam ∧ o'.Y = o.Y := by
  obtain ⟨o, ho, -, -, ⟨hu, -, hLD, -⟩, ⟨hS, hY, -⟩⟩ :=
    laplacian_eigenmaps_end_to_end δ hN hk hkN hd width heat hheat search hlen hexact solver
  obtain ⟨o', ho', -, -, ⟨hu', -, hLD', -⟩, ⟨hS', hY', -⟩⟩ :=
    laplacian_eigenmaps_end_to_end (fun a b => c * δ a b) hN hk hkN hd (c ^ 2 * width) heat hheat search hlen
      (fun k hk' u hu => isExactKnn_scale hc (hexact k hk' u hu)) solver
  have hfound : o'.found = o.found := by
    have h1 := le_model_found ho
    have h2 := le_model_found ho'
    rw [h1] at h2
    injection h2 with h2
    exact h2.symm
  have hpair : (o'.L, o'.D) = (o.L, o.D) := by
    rw [hLD', hLD]
    exact computeLaplacian_scale hc.ne' heat δ width o.found o'.found hfound hu hu'
  have hL : o'.L = o.L := congrArg Prod.fst hpair
  have hD : o'.D = o.D := congrArg Prod.snd hpair
  have hVl : (o'.V, o'.lam) = (o.V, o.lam) := by rw [hS', hS, hL, hD]
  have hV : o'.V = o.V := congrArg Prod.fst hVl
  exact ⟨o, o', ho, ho', hfound, hL, hD, hV, congrArg Prod.snd hVl, by rw [hY', hY, hV]⟩

/-- non-vacuity: the two-sample instance of `Props/C09Compose.lean`, `c = 3`, width `1 ↦ 9` -/
example : ∃ o o', leEmbedModel exδ2 2 1 true 1 (by decide) 1 exHeatLe (bruteSearch exδ2 2) exLeSolver = .ok o ∧
    leEmbedModel (fun a b => 3 * exδ2 a b) 2 1 true 1 (by decide) (3 ^ 2 * 1) exHeatLe (bruteSearch exδ2 2) exLeSolver
      = .ok o' ∧ o'.L = o.L ∧ o'.D = o.D ∧ o'.Y = o.Y := by
  obtain ⟨o, o', ho, ho', -, hL, hD, -, -, hY⟩ :=
    laplacian_eigenmaps_scale_invariant exδ2 (N := 2) (by decide) (k := 1) (by decide) (by decide) (d := 1) (by decide) 1
      exHeatLe exHeatLe_pos (c := 3) (by norm_num) (bruteSearch exδ2 2) (bruteSearch_length exδ2 2)
      (fun k hk => bruteSearch_exact (by decide)
        (fun i j _ _ => by unfold exδ2; simp only [if_true]; split_ifs <;> norm_num) k hk) exLeSolver
  exact ⟨o, o', ho, ho', hL, hD, hY⟩

/-- **laplacian_eigenmaps_permutation_equivariant.**  Re-order the samples by any permutation `π`, tie-free distances,
    any two exact searches (one per ordering), positive `exp` oracle: both runs of the composed Laplacian Eigenmaps model
    succeed with the same k sequence and final `k'`; the second graph is the relabelled first up to the order inside
    each list; the pencil handed to the solver is the relabelled pencil, `L' = Π L Πᵀ`, `D' = Π D` (the heat adjacency of
    duplicate-free lists depends on the edge SET only: `adj_of_nodup`); if `(V, λ)` meets the solver contract
    `GenEigSystem` for `(L, D)` then `(ΠV, λ)` meets it for `(L', D')`; and with that outcome the returned coordinates are
    the re-ordered rows `Y' = ΠY`. -/
theorem laplacian_eigenmaps_permutation_equivariant (π : Equiv.Perm (Fin N)) (δ : Nat → Nat → K) (hN : 0 < N)
    {k : Nat} (hk : 1 ≤ k) (hkN : k ≤ N - 1) {d : Nat} (hd : 1 + d ≤ N) (width : K) (heat : K → K)
    (hheat : ∀ x, 0 < heat x)
    (htf : ∀ i, i < N → ∀ a ∈ List.range N, ∀ b ∈ List.range N, δ i a = δ i b → a = b)
    (search search' : Nat → Graph) (hlen : ∀ k, (search k).length = N)
    (hexact : ∀ k, k ≤ N - 1 → ∀ u (hu : u < (search k).length), IsExactKnn δ (List.range N) k u (search k)[u])
    (hlen' : ∀ k, (search' k).length = N)
    (hexact' : ∀ k, k ≤ N - 1 → ∀ u (hu : u < (search' k).length),
      IsExactKnn (fun a b => δ (pOf π a) (pOf π b)) (List.range N) k u (search' k)[u])
    (solver solver' : Mat N N K → Vec N K → Mat N N K × Vec N K) :
    ∃ o o', leEmbedModel δ N k true d hd width heat search solver = .ok o ∧
      leEmbedModel (fun a b => δ (pOf π a) (pOf π b)) N k true d hd width heat search' solver' = .ok o' ∧
      (o.V, o.lam) = solver o.L o.D ∧ (o'.V, o'.lam) = solver' o'.L o'.D ∧
      o'.found.k = o.found.k ∧ o'.found.tried = o.found.tried ∧
      SameEdges (relabel o.found.graph (permList π) (permList π.symm)) o'.found.graph N ∧
      (∀ i j, o'.L i j = o.L (π i) (π j)) ∧ (∀ i, o'.D i = o.D (π i)) ∧
      (GenEigSystem (Mat.toM o.L) (Matrix.diagonal o.D) (Mat.toM o.V) o.lam →
        GenEigSystem (Mat.toM o'.L) (Matrix.diagonal o'.D) ((Mat.toM o.V).submatrix π id) o.lam) ∧
      ((∀ i c, o'.V i c = o.V (π i) c) → ∀ i c, o'.Y i c = o.Y (π i) c) := by
  obtain ⟨o, ho, ⟨j, hkj, -⟩, ⟨-, hglen, hex⟩, ⟨hu, -, hLD, -⟩, ⟨hS, hY, -⟩⟩ :=
    laplacian_eigenmaps_end_to_end δ hN hk hkN hd width heat hheat search hlen hexact solver
  obtain ⟨o', ho', -, ⟨-, hglen', hex'⟩, ⟨hu', -, hLD', -⟩, ⟨hS', hY', -⟩⟩ :=
    laplacian_eigenmaps_end_to_end (fun a b => δ (pOf π a) (pOf π b)) hN hk hkN hd width heat hheat search' hlen'
      hexact' solver'
  have hp := isPermPair π
  have huS : ∀ k, k ≤ N - 1 → Uniform (search k) N k := fun k hk' => uniform_of_exact (hlen k) (hexact k hk')
  have huS' : ∀ k, k ≤ N - 1 → Uniform (search' k) N k := fun k hk' => uniform_of_exact (hlen' k) (hexact' k hk')
  have heq : ∀ k, k ≤ N - 1 → SameEdges (relabel (search k) (permList π) (permList π.symm)) (search' k) N :=
    fun k hk' => sameEdges_of_exact π htf (hlen k) (hexact k hk') (hlen' k) (hexact' k hk')
  have hrun := result_order_independent search search' hN hp huS huS' heq (findFuel N) k
  rw [le_model_found ho, le_model_found ho'] at hrun
  obtain ⟨hk', htr, hg, hg'⟩ := hrun
  have hk'le : o.found.k ≤ N - 1 := by rw [hkj]; exact Nat.min_le_right _ _
  have hse : SameEdges (relabel o.found.graph (permList π) (permList π.symm)) o'.found.graph N := by
    rw [hg, hg']; exact heq _ hk'le
  have hnd := nodup_of_exact hex
  have hnd' := nodup_of_exact hex'
  have hpair : (∀ i j, o'.L i j = o.L (π i) (π j)) ∧ (∀ i, o'.D i = o.D (π i)) := by
    have hL : o.L = (computeLaplacian heat (fun i j : Fin N => δ i.1 j.1) width (nbOf hu)).1 := congrArg Prod.fst hLD
    have hD : o.D = (computeLaplacian heat (fun i j : Fin N => δ i.1 j.1) width (nbOf hu)).2 := congrArg Prod.snd hLD
    have hL' := congrArg Prod.fst hLD'
    have hD' := congrArg Prod.snd hLD'
    simp only at hL' hD'
    rw [hL, hD, hL', hD']
    clear hLD' hL' hD' hex'
    generalize o'.found.k = kk at hu' hk'
    subst hk'
    exact computeLaplacian_perm π hu hu' hnd hnd' hse heat δ width
  have hLM : Mat.toM o'.L = (Mat.toM o.L).submatrix π π := by
    ext i j; simp only [Mat.toM_apply, Matrix.submatrix_apply, hpair.1]
  have hDM : Matrix.diagonal o'.D = (Matrix.diagonal o.D).submatrix π π := by
    ext i j
    simp only [Matrix.diagonal_apply, Matrix.submatrix_apply, hpair.2, π.injective.eq_iff]
  refine ⟨o, o', ho, ho', hS, hS', hk', htr, hse, hpair.1, hpair.2, ?_, ?_⟩
  · intro hsys
    rw [hLM, hDM]
    exact genEigSystem_perm π hsys
  · intro hV i c
    rw [hY', hY]
    simp only [cols, Mat.toM_apply, hV]

end le

/-! ### Non-vacuity

Scale: the four samples of `Props/C04Compose.lean` (`exδN`, one k doubling), `c = 3`; the original run uses the solver
outcome `(exV, 4)`, `sqrt 4 = 2`, the scaled run the transported outcome `(exV, 36)`, `sqrt 36 = 6`: every hypothesis
including the solver and `sqrt` contracts on both sides is met, so `Y'·Y'ᵀ = 9·Y·Yᵀ`.
Permutation: four samples on a line at `0, 1, 3, 7` (tie-free), the transposition `0 ↔ 1`, brute-force search on both
orderings. -/

def exSolver9 : Mat 4 4 ℚ → Mat 4 1 ℚ × Vec 1 ℚ := fun _ => (C05.exV, fun _ => 36)

example : ∃ o o', isomapEmbedModel exδN 4 1 true 1 (bruteSearch exδN 4) .lazy (fun _ _ => 0) exSolver exSqrt = .ok o ∧
    isomapEmbedModel (fun a b => 3 * exδN a b) 4 1 true 1 (bruteSearch exδN 4) .indexed (fun _ _ => 1) exSolver9
      (fun _ => 6) = .ok o' ∧
    Mat.toM o'.Y * (Mat.toM o'.Y)ᵀ = (3 : ℚ) ^ 2 • (Mat.toM o.Y * (Mat.toM o.Y)ᵀ) := by
  obtain ⟨o, o', ho, ho', hS, hS', -, -, -, -, hgram⟩ :=
    isomap_scale_equivariant exδN (N := 4) (by decide) (k := 1) (by decide) (by decide) 1 exδN_nonneg (c := 3)
      (by norm_num) (bruteSearch exδN 4) (bruteSearch_length exδN 4)
      (fun k hk => bruteSearch_exact (by decide) exδN_self k hk) .lazy .indexed (fun _ _ => 0) (fun _ _ => 1)
      exSolver exSolver9 exSqrt (fun _ => 6)
  have hV' : o'.V = C05.exV := congrArg Prod.fst hS'
  have hlam' : o'.lam = fun _ => 36 := congrArg Prod.snd hS'
  have ho2 := ho
  unfold isomapEmbedModel at ho2
  simp only [ex_find, ex_allPairs] at ho2
  injection ho2 with ho2
  subst ho2
  have hB : Mat.toM (isomapPre (geoMat exF)) = Mat.toM (mdsPre C05.exδ) :=
    congrArg Mat.toM (funext fun i => funext fun j => ex_B i j)
  have htop : IsTopEig (Mat.toM (isomapPre (geoMat exF))) (Mat.toM C05.exV) C05.exLam := by
    rw [hB]; exact C05.ex_isTopEig
  refine ⟨_, o', ho, ho', hgram htop hV' (fun j => ?_) (by decide +kernel) (fun j => ?_)⟩
  · rw [hlam']; show (36 : ℚ) = 3 ^ 2 * C05.exLam j; revert j; decide +kernel
  · rw [hlam']; revert j; decide +kernel

/-- four samples on a line, all distances from every sample distinct -/
def exLine (a b : Nat) : ℚ :=
  ((max (([0, 1, 3, 7] : List Nat).getD a 0) (([0, 1, 3, 7] : List Nat).getD b 0)
    - min (([0, 1, 3, 7] : List Nat).getD a 0) (([0, 1, 3, 7] : List Nat).getD b 0) : Nat) : ℚ)

theorem exLine_nonneg : ∀ a b, 0 ≤ exLine a b := fun _ _ => Nat.cast_nonneg _

theorem exLine_self (f : Nat → Nat) : ∀ i j, i < 4 → j < 4 → exLine (f i) (f i) ≤ exLine (f i) (f j) := by
  intro i j _ _
  have : exLine (f i) (f i) = 0 := by simp [exLine]
  rw [this]; exact exLine_nonneg _ _

theorem exLine_tieFree : ∀ i, i < 4 → ∀ a ∈ List.range 4, ∀ b ∈ List.range 4, exLine i a = exLine i b → a = b := by
  decide +kernel

example : ∃ o o', isomapEmbedModel exLine 4 1 true 1 (bruteSearch exLine 4) .lazy (fun _ _ => 0) exSolver exSqrt = .ok o ∧
    isomapEmbedModel (fun a b => exLine (pOf (Equiv.swap (0 : Fin 4) 1) a) (pOf (Equiv.swap (0 : Fin 4) 1) b)) 4 1 true 1
      (bruteSearch (fun a b => exLine (pOf (Equiv.swap (0 : Fin 4) 1) a) (pOf (Equiv.swap (0 : Fin 4) 1) b)) 4)
      .indexed (fun _ _ => 1) exSolver exSqrt = .ok o' ∧
    o'.found.k = o.found.k ∧ (∀ i j, o'.G i j = o.G (Equiv.swap (0 : Fin 4) 1 i) (Equiv.swap (0 : Fin 4) 1 j)) ∧
    (∀ i j, o'.B i j = o.B (Equiv.swap (0 : Fin 4) 1 i) (Equiv.swap (0 : Fin 4) 1 j)) := by
  obtain ⟨o, o', ho, ho', -, -, hk, -, -, -, -, hG, hB, -⟩ :=
    isomap_permutation_equivariant (Equiv.swap (0 : Fin 4) 1) exLine (by decide) (k := 1) (by decide) (by decide) 1
      exLine_nonneg exLine_tieFree (bruteSearch exLine 4) _ (bruteSearch_length exLine 4)
      (fun k hk => bruteSearch_exact (by decide) (exLine_self id) k hk)
      (bruteSearch_length _ 4)
      (fun k hk => bruteSearch_exact (by decide) (exLine_self (pOf (Equiv.swap (0 : Fin 4) 1))) k hk)
      .lazy .indexed (fun _ _ => 0) (fun _ _ => 1) exSolver exSolver exSqrt exSqrt
  exact ⟨o, o', ho, ho', hk, hG, hB⟩

section leExample
open TapkeeVerif.LeCompose

/-- non-vacuity: the tie-free line data `exLine` (below) with the transposition `0 ↔ 1`, brute-force search on both
    orderings -/
example : ∃ o o' : LeOut 4 2 ℚ, (∀ i j, o'.L i j = o.L (Equiv.swap (0 : Fin 4) 1 i) (Equiv.swap (0 : Fin 4) 1 j)) ∧
    (∀ i, o'.D i = o.D (Equiv.swap (0 : Fin 4) 1 i)) ∧ o'.found.k = o.found.k := by
  obtain ⟨o, o', -, -, -, -, hk, -, -, hL, hD, -⟩ :=
    laplacian_eigenmaps_permutation_equivariant (Equiv.swap (0 : Fin 4) 1) exLine (by decide) (k := 1) (by decide)
      (by decide) (d := 2) (by decide) 5 exHeatLe exHeatLe_pos exLine_tieFree (bruteSearch exLine 4) _
      (bruteSearch_length exLine 4) (fun k hk => bruteSearch_exact (by decide) (exLine_self id) k hk)
      (bruteSearch_length _ 4)
      (fun k hk => bruteSearch_exact (by decide) (exLine_self (pOf (Equiv.swap (0 : Fin 4) 1))) k hk)
      (fun _ _ => (fun _ _ => 0, fun _ => 0)) (fun _ _ => (fun _ _ => 0, fun _ => 0))
  exact ⟨o, o', hL, hD, hk⟩

end leExample

end TapkeeVerif.EquivCompose
