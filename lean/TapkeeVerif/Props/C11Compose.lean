import TapkeeVerif.Proofs.LandmarkCompose
/-!
# Property C11 (composition) — Landmark MDS end to end: the stage models composed into one `embed` model

`landmarkMdsEmbedModel` is `LandmarkMultidimensionalScalingImplementation::embed`
(include/tapkee/methods/landmark_multidimensional_scaling.hpp) as ONE function, composing the stage models that are proved
(and tied to the code) separately:

    select_landmarks_random(begin, end, ratio)        selectLandmarksFl perm r   (shuffle oracle `perm`, compiled count)   C11
    compute_distance_matrix(.., landmarks, distance)  landmarkSqDist                                                        C11
    distance_matrix.colwise().mean()                  lmdsMu     (taken BEFORE centring, kept for triangulation)            C11
    centerMatrix(D); D.array() *= -0.5                lmdsB      (= C05's mdsPre of the callback restricted to landmarks)   C05
    eigendecomposition_via(LargestEigenvalues, ..)    parameter `solver` (contract Spectral.IsTopEig)                       C05
    col(i) *= sqrt(max(λ_i, 0))                       post / clamp0, parameter `sqrtO`                                      C05
    triangulate(.., landmarks, mu, embedding, d)      lmdsEmbed → triangulate (pseudo-inverse with tolerance, 2 loops)      C11

Nothing is re-defined here; the only new definitions are the glue of `Proofs/LandmarkCompose.lean` (list of landmarks ↦
`Fin nl → Fin N`, Mathlib-level solver contract ↦ C11's entrywise contracts).

Interfaces that needed an explicit statement to meet:
* the number of landmarks is only known after the selection, so the result is a dependent pair `⟨nl, Out N nl d K⟩` and the
  solver is a family `solver nl : Mat nl nl K → …`; the theorem is stated for the selected list `l` (`hsel`);
* a landmark `≥ N` cannot be turned into a position: explicit error `landmarkOutOfRange`, excluded by the shuffle contract
  `perm ~ range N`;
* C05's solver contract (`IsTopEig` on Mathlib matrices) is converted to C11's entrywise `IsEig`; C11's factorisation
  contract `IsFactored` — which `lmds_exact_recovery` had to ASSUME ("that bridge is NOT proved here") — is now DERIVED from
  the top-`d` contract and the data-side hypothesis `rank (centred landmark points) ≤ d`
  (`LandmarkCompose.isFactored_of_topEig_rank`), so conjunct 5 has hypotheses on the data, the solver contract, and the
  exact-arithmetic tolerance dichotomy `hdich` only;
* `hdich` (every returned eigenvalue is `0` or above `n_l·ε·max|λ|`) stays a hypothesis: it is false in general for
  `ε > 0` and tiny positive eigenvalues (the pseudo-inverse of fix F-LMDS-RANKDEF then zeroes a real direction).
-/
namespace TapkeeVerif.LandmarkCompose
open TapkeeVerif TapkeeVerif.Landmarks TapkeeVerif.Spectral Matrix Finset

variable {K : Type} [Field K] [LinearOrder K] [IsStrictOrderedRing K]

/-- error states of the composed model -/
inductive Err where
  /-- `select_landmarks_random`: `begin() + count` outside the vector (`ratio < 0` or `count > N`) — undefined behaviour -/
  | selection
  /-- a selected landmark is not a position of the range (never under the shuffle contract) -/
  | landmarkOutOfRange
  /-- `rightCols(d)` with `d > n_landmarks` (excluded by `validate()` since F-LANDMARK-DIM) -/
  | oob
  deriving Repr, DecidableEq

/-- everything `embed` computes on the way -/
structure Out (N nl d : Nat) (K : Type) where
  /-- `landmarks` -/
  landmarks : List Nat
  /-- the same as a function on positions -/
  lm : Fin nl → Fin N
  /-- `distance_matrix` after `compute_distance_matrix` (squared landmark distances) -/
  D : Mat nl nl K
  /-- `landmark_distances_squared` -/
  mu : Vec nl K
  /-- the matrix handed to `eigendecomposition_via` -/
  B : Mat nl nl K
  V : Mat nl d K
  lam : Vec d K
  /-- `landmarks_embedding.first` after the `sqrt` scaling: the landmark coordinates -/
  Yl : Mat nl d K
  /-- the embedding returned by `triangulate` -/
  Y : Mat N d K

/-- everything after the selection, for a given solver answer `(V, lam)` -/
def lmdsStage {N nl d : Nat} (eps : K) (δF : Mat N N K) (l : List Nat) (lm : Fin nl → Fin N) (V : Mat nl d K)
    (lam : Vec d K) (sqrtO : K → K) : Except Err (Out N nl d K) :=
  match lmdsEmbed eps δF lm V lam (fun j => sqrtO (clamp0 (lam j))) with
  | .error _ => .error .oob
  | .ok Y => .ok { landmarks := l, lm := lm, D := landmarkSqDist δF lm, mu := lmdsMu δF lm, B := lmdsB δF lm,
                   V := V, lam := lam, Yl := post V (fun j => sqrtO (clamp0 (lam j))), Y := Y }

/-- **`LandmarkMultidimensionalScalingImplementation::embed`, composed.**  `δ` distance callback on sample ids
    `0..N-1` (`N = perm.length`), `perm` the shuffle oracle's answer, `r` the exact value of the `double` `landmark_ratio`,
    `d` target dimension, `eps` machine epsilon, `solver nl` the eigensolver outcome on the `nl × nl` matrix it is handed,
    `sqrtO` the `sqrt` of libm. -/
def landmarkMdsEmbedModel (δ : Nat → Nat → K) (perm : List Nat) (r : Rat) (d : Nat) (eps : K)
    (solver : (nl : Nat) → Mat nl nl K → Mat nl d K × Vec d K) (sqrtO : K → K) :
    Except Err (Σ nl, Out perm.length nl d K) :=
  match selectLandmarksFl perm r with
  | none => .error .selection
  | some l =>
    if h : ∀ x ∈ l, x < perm.length then
      (lmdsStage eps (fun x y : Fin perm.length => δ x.1 y.1) l (lmOf l perm.length h)
        (solver l.length (lmdsB (fun x y : Fin perm.length => δ x.1 y.1) (lmOf l perm.length h))).1
        (solver l.length (lmdsB (fun x y : Fin perm.length => δ x.1 y.1) (lmOf l perm.length h))).2 sqrtO).map
        fun o => ⟨l.length, o⟩
    else .error .landmarkOutOfRange

/-- **landmark_mds_end_to_end.**  `perm` a permutation of `0..N-1` (shuffle contract), the selection defined with result
    `l` (`hsel`; for validated ratios in exact arithmetic: `selectLandmarks_defined`), `d` validated against the number of
    landmarks (`dimValidLandmark`, fix F-LANDMARK-DIM).  For every callback, solver family, `sqrt` and `eps`, the composed
    model returns `⟨l.length, o⟩` (no error state) and

    1. the landmarks are distinct positions of the range, a prefix of the shuffle, `⌊fl(N·r)⌋` many; `o.lm` reads the list
       and is injective;
    2. `o.D` is the squared landmark distance matrix, `o.mu` its column means BEFORE centring, the matrix handed to the
       solver is `−½·J·D²·J` of the landmarks = what MDS (C05 `mdsPre`) hands over for the callback restricted to the
       landmarks; it is symmetric, and (index discipline) it and `o.mu` depend on the callback only through its values on
       pairs of landmarks;
    3. `o.Yl = V·diag (sqrt (max λ 0))` for the solver's `(V, λ)` = what plain MDS returns for that subset and answer;
       `o.Y = triangulate …`, the landmark rows of `o.Y` ARE the landmark coordinates (`o.Y (lm a) = o.Yl a`);
    4. under the solver contract `IsTopEig` at `o.B` and the `sqrt` contract at the clamped eigenvalues: the landmark
       coordinates have orthogonal columns with squared norms `max λ_j 0` and `Yl·Ylᵀ` is the best PSD rank-`≤ d`
       approximation of `o.B` (C05 `mds_optimal` at the landmarks); and — triangulation is consistent — for a callback
       symmetric on the landmarks, `eps ≥ 0`, and eigenvalues either non-positive or above the tolerance, the triangulation
       FORMULA applied to a landmark returns that landmark's coordinates (C11 `triangulate_fixes_landmarks`);
    5. exact recovery: Euclidean distances of ANY points `X`, centred landmark points of rank `≤ d`, every sample in the
       affine span of the landmarks, the two contracts, `eps ≥ 0` and the tolerance dichotomy: ALL pairwise squared
       distances of `o.Y` — landmark/landmark, landmark/other, other/other — equal the input's (C11 `lmds_exact_recovery`,
       its factorisation contract discharged by `isFactored_of_topEig_rank`). -/
theorem landmark_mds_end_to_end (δ : Nat → Nat → K) (perm l : List Nat) (r : Rat) (d : Nat) (eps : K)
    (hperm : perm.Perm (List.range perm.length)) (hsel : selectLandmarksFl perm r = some l)
    (hdim : dimValidLandmark l.length d)
    (solver : (nl : Nat) → Mat nl nl K → Mat nl d K × Vec d K) (sqrtO : K → K) :
    ∃ o : Out perm.length l.length d K,
      landmarkMdsEmbedModel δ perm r d eps solver sqrtO = .ok ⟨l.length, o⟩ ∧
      -- 1. selection
      (o.landmarks = l ∧ l.Nodup ∧ l.length = landmarkCountFl perm.length r ∧ (∀ x ∈ l, x < perm.length) ∧ l <+: perm ∧
        (∀ a : Fin l.length, (o.lm a).1 = l[a.1]) ∧ (∀ h, o.lm = lmOf l perm.length h) ∧ Function.Injective o.lm) ∧
      -- 2. landmark distance matrix, means, centring
      (o.D = landmarkSqDist (fun x y : Fin perm.length => δ x.1 y.1) o.lm ∧ o.mu = colMeans o.D ∧
        o.B = scale negHalf (centerMatrix o.D) ∧
        o.B = mdsPre (subCallback (fun x y : Fin perm.length => δ x.1 y.1) o.lm) ∧
        (Mat.toM o.B)ᵀ = Mat.toM o.B ∧
        ∀ δ' : Nat → Nat → K, (∀ a b : Fin l.length, δ' l[a.1] l[b.1] = δ l[a.1] l[b.1]) →
          lmdsB (fun x y : Fin perm.length => δ' x.1 y.1) o.lm = o.B ∧
          lmdsMu (fun x y : Fin perm.length => δ' x.1 y.1) o.lm = o.mu) ∧
      -- 3. solver, scaling, triangulation
      ((o.V, o.lam) = solver l.length o.B ∧ o.Yl = post o.V (fun j => sqrtO (clamp0 (o.lam j))) ∧
        mdsEmbed o.V (fun j => sqrtO (clamp0 (o.lam j))) = .ok o.Yl ∧
        o.Y = triangulate eps (fun x y : Fin perm.length => δ x.1 y.1) o.lm o.mu o.Yl o.lam ∧
        ∀ a, o.Y (o.lm a) = o.Yl a) ∧
      -- 4. under the contracts: optimal landmark coordinates, consistent triangulation
      (IsTopEig (Mat.toM o.B) (Mat.toM o.V) o.lam →
        (∀ j, sqrtO (clamp0 (o.lam j)) * sqrtO (clamp0 (o.lam j)) = clamp0 (o.lam j)) →
        (Mat.toM o.Yl)ᵀ * Mat.toM o.Yl = diagonal (fun j => clamp0 (o.lam j)) ∧
        (∀ (Q : Matrix (Fin l.length) (Fin d) K), Qᵀ * Q = 1 → ∀ mu : Fin d → K, (∀ a, 0 ≤ mu a) →
          frobSq (Mat.toM o.B - Mat.toM o.Yl * (Mat.toM o.Yl)ᵀ) ≤ frobSq (Mat.toM o.B - Q * diagonal mu * Qᵀ)) ∧
        (0 ≤ eps → (∀ a b : Fin l.length, δ l[a.1] l[b.1] = δ l[b.1] l[a.1]) →
          (∀ i, o.lam i ≤ 0 ∨ eigTol l.length eps o.lam < o.lam i) →
          ∀ a, triangulateRow (fun x y : Fin perm.length => δ x.1 y.1) o.lm o.mu
            (pinvCols (eigTol l.length eps o.lam) o.Yl o.lam) (o.lm a) = o.Yl a)) ∧
      -- 5. exact recovery
      (∀ (m : Nat) (X : Mat perm.length m K), IsEuclidean (fun x y : Fin perm.length => δ x.1 y.1) X →
        (Mat.toM (centred (landmarkRows X o.lm))).rank ≤ d →
        (∀ x, ∃ w : Fin l.length → K, ∀ k, X x k - centroid X o.lm k = ∑ a, w a * Zc X o.lm a k) →
        0 ≤ eps → IsTopEig (Mat.toM o.B) (Mat.toM o.V) o.lam →
        (∀ j, sqrtO (clamp0 (o.lam j)) * sqrtO (clamp0 (o.lam j)) = clamp0 (o.lam j)) →
        (∀ i, o.lam i = 0 ∨ eigTol l.length eps o.lam < o.lam i) →
        ∀ x y : Fin perm.length, sqDistRows o.Y x y = δ x.1 y.1 * δ x.1 y.1) := by
  -- C11: the selection
  obtain ⟨hnd, hcount, hrange, hpre, -, -⟩ := landmarks_distinct_and_counted_compiled perm l r hperm hsel
  have hd : d ≤ l.length := by unfold dimValidLandmark at hdim; omega
  have hnl : 0 < l.length := by unfold dimValidLandmark at hdim; omega
  set δF : Mat perm.length perm.length K := fun x y => δ x.1 y.1 with hδF
  set lm := lmOf l perm.length hrange with hlm
  have hinj : Function.Injective lm := lmOf_injective l _ hrange hnd
  set V := (solver l.length (lmdsB δF lm)).1 with hV
  set lam := (solver l.length (lmdsB δF lm)).2 with hlam
  set s : Vec d K := fun j => sqrtO (clamp0 (lam j)) with hs
  have hok : lmdsEmbed eps δF lm V lam s = .ok (triangulate eps δF lm (lmdsMu δF lm) (post V s) lam) :=
    (lmdsEmbed_ok_iff eps δF lm V lam s _).mpr ⟨hd, rfl⟩
  obtain ⟨hBmds, hmds, hrows⟩ := lmds_landmarks_eq_mds_of_subset eps δF lm hinj V lam s _ hok
  have hsymB : (Mat.toM (lmdsB δF lm))ᵀ = Mat.toM (lmdsB δF lm) := by
    rw [hBmds]; exact C05.mdsPre_symm _
  refine ⟨{ landmarks := l, lm := lm, D := landmarkSqDist δF lm, mu := lmdsMu δF lm, B := lmdsB δF lm,
            V := V, lam := lam, Yl := post V s, Y := triangulate eps δF lm (lmdsMu δF lm) (post V s) lam },
    ?_, ⟨rfl, hnd, hcount, hrange, hpre, fun _ => rfl, fun _ => rfl, hinj⟩,
    ⟨rfl, rfl, rfl, hBmds, hsymB, ?_⟩, ⟨rfl, rfl, hmds, rfl, hrows⟩, ?_, ?_⟩
  · unfold landmarkMdsEmbedModel
    simp only [hsel, dif_pos hrange]
    unfold lmdsStage
    rw [hok]
    rfl
  · -- C11 index discipline, part (1), with the identity range
    intro δ' hδ'
    have := ((landmark_index_discipline (d := d) (M' := perm.length) eps δF (fun x => x) lm).1
      (fun x y : Fin perm.length => δ' x.1 y.1) (fun x => x) (fun a b => hδ' a b))
    exact ⟨this.2.1, this.2.2⟩
  · intro htop hsq
    refine ⟨(C05.mds_gram _ _ _ _ htop.toIsEigSystem hsq).1,
      fun Q hQ mu hmu => C05.factor_optimal _ hsymB _ _ _ htop hsq Q hQ mu hmu, ?_⟩
    intro heps hsym hdich a
    exact triangulate_fixes_landmarks eps heps δF lm hnl (fun a b => hsym a b) V lam s
      (isEig_of_isEigSystem _ _ _ htop.toIsEigSystem) hsq hdich a
  · intro m X hE hrk hspan heps htop hsq hdich x y
    obtain ⟨hfac, -⟩ := isFactored_of_topEig_rank δF X hE lm V lam htop hrk
    obtain ⟨Y, hY, hdist⟩ := lmds_exact_recovery eps heps δF X lm hnl hd hE V lam s
      (isEig_of_isEigSystem _ _ _ htop.toIsEigSystem) hfac hsq hdich hspan
    rw [hok] at hY
    injection hY with hY
    subst hY
    exact hdist x y

/-! ### Non-vacuity: a concrete instance meets every hypothesis of every conjunct

C11's instance: five collinear samples `1, 1, −1, −1, 3`, identity shuffle, `landmark_ratio = 4/5` (the `double` product
`5·0.8` truncates to 4 landmarks `0,1,2,3`), `d = 1`; the solver's exact answer `V = (½, ½, −½, −½)ᵀ`, `λ = 4`, `sqrt 4 = 2`,
`eps = 0`.  The solver contract is obtained from the exact certificate (`C05.certificate_sound`). -/

def exXs (a : Nat) : ℚ := if a < 2 then 1 else if a < 4 then -1 else 3
def exδN (a b : Nat) : ℚ := exXs a - exXs b
def exSolver : (nl : Nat) → Mat nl nl ℚ → Mat nl 1 ℚ × Vec 1 ℚ := fun _ _ => (fun a _ => if a.1 < 2 then 1 / 2 else -1 / 2, fun _ => 4)
def exSqrt : ℚ → ℚ := fun _ => 2

theorem ex_sel : selectLandmarksFl [0, 1, 2, 3, 4] (4 / 5) = some [0, 1, 2, 3] := by decide +kernel

theorem ex_range : ∀ x ∈ [0, 1, 2, 3], x < [0, 1, 2, 3, 4].length := by decide

theorem ex_lm : lmOf [0, 1, 2, 3] [0, 1, 2, 3, 4].length ex_range = Witness.lm := by
  funext a
  apply Fin.ext
  revert a
  decide

theorem ex_isTopEig : IsTopEig (Mat.toM (lmdsB Witness.δ Witness.lm)) (Mat.toM Witness.V1) Witness.lam1 :=
  C05.certificate_sound (lmdsB Witness.δ Witness.lm) (by decide +kernel) Witness.V1 Witness.lam1 (by decide +kernel)

example : ∃ o : Out 5 4 1 ℚ,
    landmarkMdsEmbedModel exδN [0, 1, 2, 3, 4] (4 / 5) 1 0 exSolver exSqrt = .ok ⟨4, o⟩ ∧
    IsTopEig (Mat.toM o.B) (Mat.toM o.V) o.lam ∧
    (∀ j, exSqrt (clamp0 (o.lam j)) * exSqrt (clamp0 (o.lam j)) = clamp0 (o.lam j)) ∧
    (∀ a, o.Y (o.lm a) = o.Yl a) ∧
    ∀ x y : Fin 5, sqDistRows o.Y x y = exδN x.1 y.1 * exδN x.1 y.1 := by
  obtain ⟨o, ho, ⟨-, -, -, -, -, -, hlm, -⟩, ⟨-, -, -, -, -, hidx⟩, ⟨hsol, -, -, -, hrow⟩, -, h5⟩ :=
    landmark_mds_end_to_end exδN [0, 1, 2, 3, 4] [0, 1, 2, 3] (4 / 5) 1 (0 : ℚ) (List.Perm.refl _) ex_sel
      (by unfold dimValidLandmark; decide) exSolver exSqrt
  have hlm' : o.lm = Witness.lm := (hlm ex_range).trans ex_lm
  have hB : o.B = lmdsB Witness.δ Witness.lm := by
    rw [← (hidx exδN (fun _ _ => rfl)).1, hlm']
    rfl
  have hV : o.V = Witness.V1 := (congrArg Prod.fst hsol : _)
  have hl : o.lam = Witness.lam1 := (congrArg Prod.snd hsol : _)
  have htop : IsTopEig (Mat.toM o.B) (Mat.toM o.V) o.lam := by rw [hB, hV, hl]; exact ex_isTopEig
  have hsq : ∀ j, exSqrt (clamp0 (o.lam j)) * exSqrt (clamp0 (o.lam j)) = clamp0 (o.lam j) := by
    rw [hl]; decide +kernel
  refine ⟨o, ho, htop, hsq, hrow, ?_⟩
  refine h5 1 Witness.X Witness.euclid ?_ ?_ le_rfl htop hsq ?_
  · simpa using Matrix.rank_le_width (Mat.toM (centred (landmarkRows Witness.X o.lm)))
  · rw [hlm']; exact Witness.span
  · intro i; right; rw [hl]; simp [Witness.lam1, eigTol]

end TapkeeVerif.LandmarkCompose
