/-
C01 — the pin of the index-site inventory (hand-kept, reviewed snapshot).

`Gen/IndexSites.lean` (tools/translate_sites.py, regenerated from the source on every run) lists EVERY Eigen slice /
coefficient / subscript site of routines/, methods/, neighbors/, utils/ and external/barnes_hut_sne with its coverage.
This file holds

* `accepted` — the reviewed list of the `sweepOnly` sites (file, function, normal form, number of occurrences): index
  expressions no theorem is stated over and whose in-range argument is not the plain counted-loop one; they are covered
  by the sanitizer sweep of checks/c01.py only (and by C04 / C16 / C17 / C18 where those own the routine).  The list is
  NOT regenerated: a change of the source that adds an unproved index site, adds another occurrence of one, moves one
  into another function, or turns a `loopvar` / `thm` site into a `sweepOnly` one (loop bound `<` -> `<=`, a bound that
  is no longer the extent of the indexed object, a loop variable written in the body …) makes
  `sweep_only_sites_accepted` false and the build of this module fail — a broken proof obligation; checks/c01.py then
  names the site.  To accept a reviewed new site: add its row here (rows are kept in the order of the generated table:
  file, function, normal form; `python3 tools/translate_sites.py --snapshot` prints the current rows).
* `loopvar_sites_in_range` — the in-range theorem of the `loopvar` class, by instantiation of ONE generic lemma
  (`loop_index_in_range`) at every (lower bound, bound, extent) triple of the generated table, after `decide` has
  re-checked that bound and extent are the same expression in every triple.

What the theorems do NOT say: that the translator's reading of the source is right (loop header, "not written in the
body", "sized exactly once") — that is tools/translate_sites.py, which is trusted and cross-checked by the sweep.
-/
import TapkeeVerif.Gen.IndexSites

namespace TapkeeVerif.C01Sites
open TapkeeVerif.Gen.IndexSites

/-- (file, function, normal form of the site text, accepted number of occurrences) -/
abbrev Key := String × String × String × Nat

/-- the `sweepOnly` rows of the regenerated table -/
def sweepOnlyKeys : List Key :=
  sites.filterMap fun s => match s.cov with
    | .sweepOnly => some (s.file, s.fn, s.expr, s.count)
    | _ => none

/-- one ordered pass: every key of `xs` is met, in order, by a row of `ys` with the same file / function / normal form
    and at least as many occurrences -/
def covered : List Key → List Key → Bool
  | [], _ => true
  | _ :: _, [] => false
  | x :: xs, y :: ys =>
    if x.1 == y.1 && x.2.1 == y.2.1 && x.2.2.1 == y.2.2.1 then
      decide (x.2.2.2 ≤ y.2.2.2) && covered xs ys
    else covered (x :: xs) ys

/-- what a successful pass means -/
theorem covered_sound : ∀ (ys xs : List Key), covered xs ys = true →
    ∀ x ∈ xs, ∃ y ∈ ys, x.1 = y.1 ∧ x.2.1 = y.2.1 ∧ x.2.2.1 = y.2.2.1 ∧ x.2.2.2 ≤ y.2.2.2 := by
  intro ys
  induction ys with
  | nil =>
    intro xs h x hx
    cases xs with
    | nil => cases hx
    | cons a as => simp [covered] at h
  | cons y ys ih =>
    intro xs h x hx
    cases xs with
    | nil => cases hx
    | cons a as =>
      unfold covered at h
      split at h
      · rename_i hc
        simp only [Bool.and_eq_true, beq_iff_eq, decide_eq_true_eq] at hc h
        rcases List.mem_cons.mp hx with rfl | hx'
        · exact ⟨y, List.mem_cons_self, hc.1.1, hc.1.2, hc.2, h.1⟩
        · obtain ⟨y', hy', hh⟩ := ih as h.2 x hx'
          exact ⟨y', List.mem_cons_of_mem _ hy', hh⟩
      · obtain ⟨y', hy', hh⟩ := ih (a :: as) h x hx
        exact ⟨y', List.mem_cons_of_mem _ hy', hh⟩

/-- the reviewed sweep-only sites (comment: the spellings in the source when the row was accepted) -/
def accepted : List Key := [
  ("external/barnes_hut_sne/quadtree.hpp", "Cell::containsPoint", "$1[0]", 2),  -- point[0]
  ("external/barnes_hut_sne/quadtree.hpp", "Cell::containsPoint", "$1[1]", 2),  -- point[1]
  ("external/barnes_hut_sne/quadtree.hpp", "QuadTree::QuadTree/2", "$1[0]", 5),  -- mean_Y[0] | max_Y[0] | min_Y[0]
  ("external/barnes_hut_sne/quadtree.hpp", "QuadTree::QuadTree/2", "$1[1]", 5),  -- mean_Y[1] | max_Y[1] | min_Y[1]
  ("external/barnes_hut_sne/quadtree.hpp", "QuadTree::computeEdgeForces", "$1[% + 1]", 1),  -- row_P[n + 1]
  ("external/barnes_hut_sne/quadtree.hpp", "QuadTree::computeEdgeForces", "$1[%]", 3),  -- row_P[n] | col_P[i] | val_P[i]
  ("external/barnes_hut_sne/quadtree.hpp", "QuadTree::computeEdgeForces", "buff[%]", 5),  -- buff[d]
  ("external/barnes_hut_sne/quadtree.hpp", "QuadTree::computeEdgeForces", "data[$1 + %]", 2),  -- data[ind1 + d] | data[ind2 + d]
  ("external/barnes_hut_sne/quadtree.hpp", "QuadTree::computeNonEdgeForces", "$1[%]", 1),  -- neg_f[d]
  ("external/barnes_hut_sne/quadtree.hpp", "QuadTree::computeNonEdgeForces", "buff[%]", 5),  -- buff[d]
  ("external/barnes_hut_sne/quadtree.hpp", "QuadTree::computeNonEdgeForces", "center_of_mass[%]", 1),  -- center_of_mass[d]
  ("external/barnes_hut_sne/quadtree.hpp", "QuadTree::computeNonEdgeForces", "data[($1 * QT_NO_DIMS)+ %]", 1),  -- data[ind + d]
  ("external/barnes_hut_sne/quadtree.hpp", "QuadTree::computeNonEdgeForces", "index[0]", 1),  -- index[0]
  ("external/barnes_hut_sne/quadtree.hpp", "QuadTree::getAllIndices/2", "$1[$2 + %]", 1),  -- indices[loc + i]
  ("external/barnes_hut_sne/quadtree.hpp", "QuadTree::getAllIndices/2", "index[%]", 1),  -- index[i]
  ("external/barnes_hut_sne/quadtree.hpp", "QuadTree::init", "center_of_mass[%]", 1),  -- center_of_mass[i]
  ("external/barnes_hut_sne/quadtree.hpp", "QuadTree::insert", "$1[%]", 2),  -- point[d]
  ("external/barnes_hut_sne/quadtree.hpp", "QuadTree::insert", "center_of_mass[%]", 2),  -- center_of_mass[d]
  ("external/barnes_hut_sne/quadtree.hpp", "QuadTree::insert", "data[index[%]* QT_NO_DIMS + %]", 1),  -- data[index[n]* QT_NO_DIMS + d]
  ("external/barnes_hut_sne/quadtree.hpp", "QuadTree::insert", "index[%]", 1),  -- index[n]
  ("external/barnes_hut_sne/quadtree.hpp", "QuadTree::insert", "index[size]", 1),  -- index[size]
  ("external/barnes_hut_sne/quadtree.hpp", "QuadTree::insert", "multiplicity[%]", 1),  -- multiplicity[n]
  ("external/barnes_hut_sne/quadtree.hpp", "QuadTree::insert", "multiplicity[size]", 1),  -- multiplicity[size]
  ("external/barnes_hut_sne/quadtree.hpp", "QuadTree::isCorrect", "index[%]", 1),  -- index[n]
  ("external/barnes_hut_sne/quadtree.hpp", "QuadTree::print", "$1[%]", 1),  -- point[d]
  ("external/barnes_hut_sne/quadtree.hpp", "QuadTree::print", "center_of_mass[%]", 1),  -- center_of_mass[d]
  ("external/barnes_hut_sne/quadtree.hpp", "QuadTree::print", "index[%]", 2),  -- index[i]
  ("external/barnes_hut_sne/quadtree.hpp", "QuadTree::subdivide", "index[%]", 5),  -- index[i]
  ("external/barnes_hut_sne/quadtree.hpp", "QuadTree::subdivide", "multiplicity[%]", 1),  -- multiplicity[i]
  ("external/barnes_hut_sne/tsne.hpp", "TSNE::computeExactGradient", "$1[% * $2 + %]", 9),  -- Q[n * N + m] | DD[n * N + m] | P[n * N + m] | dC[n * D + d] | Y[n * D + d] | Y[m * D + d]
  ("external/barnes_hut_sne/tsne.hpp", "TSNE::computeExactGradient", "$1[%]", 1),  -- dC[i]
  ("external/barnes_hut_sne/tsne.hpp", "TSNE::computeGaussianPerplexity/5", "$1[% * $2 + %]", 9),  -- DD[n * N + m] | P[n * N + m] | P[n * N + n]
  ("external/barnes_hut_sne/tsne.hpp", "TSNE::computeGaussianPerplexity/8", "$1[$2[%]+ %]", 2),  -- col_P[row_P[n]+ m] | val_P[row_P[n]+ m]
  ("external/barnes_hut_sne/tsne.hpp", "TSNE::computeGaussianPerplexity/8", "$1[$2]", 2),  -- col_P[count] | val_P[count]
  ("external/barnes_hut_sne/tsne.hpp", "TSNE::computeGaussianPerplexity/8", "$1[% * $2 + %]", 4),  -- X[n * D + d] | X[m * D + d]
  ("external/barnes_hut_sne/tsne.hpp", "TSNE::computeGaussianPerplexity/8", "$1[% + 1]", 3),  -- row_P[n + 1] | indices[m + 1]
  ("external/barnes_hut_sne/tsne.hpp", "TSNE::computeGaussianPerplexity/8", "$1[%]", 10),  -- row_P[n] | obj_X[n] | distances[m] | indices[m]
  ("external/barnes_hut_sne/tsne.hpp", "TSNE::computeGaussianPerplexity/8", "$1[0]", 4),  -- row_P[0] | indices[0] | distances[0]
  ("external/barnes_hut_sne/tsne.hpp", "TSNE::computeGaussianPerplexity/8", "$1[1]", 2),  -- distances[1]
  ("external/barnes_hut_sne/tsne.hpp", "TSNE::computeGradient", "$1[%]", 1),  -- dC[i]
  ("external/barnes_hut_sne/tsne.hpp", "TSNE::computeSquaredEuclideanDistance", "$1[% * $2 + %]", 1),  -- DD[n * N + m]
  ("external/barnes_hut_sne/tsne.hpp", "TSNE::evaluateError/4", "$1[% * $2 + %]", 7),  -- Q[n * N + m] | DD[n * N + m] | P[n * N + m]
  ("external/barnes_hut_sne/tsne.hpp", "TSNE::evaluateError/6", "$1[$2 + %]", 2),  -- Y[ind1 + d] | Y[ind2 + d]
  ("external/barnes_hut_sne/tsne.hpp", "TSNE::evaluateError/6", "$1[% + 1]", 1),  -- row_P[n + 1]
  ("external/barnes_hut_sne/tsne.hpp", "TSNE::evaluateError/6", "$1[%]", 4),  -- row_P[n] | col_P[i] | val_P[i]
  ("external/barnes_hut_sne/tsne.hpp", "TSNE::run", "$1.data()[% * $2 + %]", 4),  -- P.data()[n * N + m] | P.data()[m * N + n]
  ("external/barnes_hut_sne/tsne.hpp", "TSNE::run", "$1.data()[%]", 12),  -- gains.data()[i] | dY.data()[i] | uY.data()[i]
  ("external/barnes_hut_sne/tsne.hpp", "TSNE::run", "$1[$2]", 4),  -- row_P[N]
  ("external/barnes_hut_sne/tsne.hpp", "TSNE::run", "$1[%]", 7),  -- val_P[i] | Y[i]
  ("external/barnes_hut_sne/tsne.hpp", "TSNE::symmetrizeMatrix", "$1[$2[$3[%]]+ $4[$3[%]]]", 4),  -- sym_col_P[sym_row_P[col_P[i]]+ offset[col_P[i]]] | sym_val_P[sym_row_P[col_P[i]]+ offset[col_P[i]]]
  ("external/barnes_hut_sne/tsne.hpp", "TSNE::symmetrizeMatrix", "$1[$2[%]+ $3[%]]", 4),  -- sym_col_P[sym_row_P[n]+ offset[n]] | sym_val_P[sym_row_P[n]+ offset[n]]
  ("external/barnes_hut_sne/tsne.hpp", "TSNE::symmetrizeMatrix", "$1[$2[%]+ 1]", 2),  -- row_P[col_P[i]+ 1]
  ("external/barnes_hut_sne/tsne.hpp", "TSNE::symmetrizeMatrix", "$1[$2[%]]", 12),  -- row_P[col_P[i]] | row_counts[col_P[i]] | sym_row_P[col_P[i]] | offset[col_P[i]]
  ("external/barnes_hut_sne/tsne.hpp", "TSNE::symmetrizeMatrix", "$1[% + 1]", 3),  -- row_P[n + 1] | sym_row_P[n + 1]
  ("external/barnes_hut_sne/tsne.hpp", "TSNE::symmetrizeMatrix", "$1[%]", 35),  -- row_P[n] | col_P[i] | col_P[m] | sym_row_P[n] | val_P[i] | val_P[m] | sym_val_P[i]
  ("external/barnes_hut_sne/tsne.hpp", "TSNE::symmetrizeMatrix", "$1[0]", 1),  -- sym_row_P[0]
  ("external/barnes_hut_sne/tsne.hpp", "TSNE::zeroMean", "$1[% * $2 + %]", 2),  -- X[n * D + d]
  ("external/barnes_hut_sne/vptree.hpp", "DataPoint::DataPoint/1", "_x[%]", 1),  -- _x[d]
  ("external/barnes_hut_sne/vptree.hpp", "DataPoint::DataPoint/3", "$1[%]", 1),  -- xv[d]
  ("external/barnes_hut_sne/vptree.hpp", "DataPoint::DataPoint/3", "_x[%]", 1),  -- _x[d]
  ("external/barnes_hut_sne/vptree.hpp", "DataPoint::operator=", "_x[%]", 1),  -- _x[d]
  ("external/barnes_hut_sne/vptree.hpp", "DataPoint::x", "_x[$1]", 1),  -- _x[d]
  ("external/barnes_hut_sne/vptree.hpp", "VpTree::buildFromPoints", "_items[$1]", 3),  -- _items[lower]
  ("external/barnes_hut_sne/vptree.hpp", "VpTree::buildFromPoints", "_items[($1 + $2)/ 2]", 1),  -- _items[median]
  ("external/barnes_hut_sne/vptree.hpp", "VpTree::buildFromPoints", "_items[(int)(tapkee::uniform_random()*($1 - $2 - 1))+ $2]", 1),  -- _items[i]
  ("external/barnes_hut_sne/vptree.hpp", "VpTree::search/4", "_items[$1->index]", 1),  -- _items[node->index]
  ("external/barnes_hut_sne/vptree.hpp", "VpTree::search/4", "_items[$1.top().index]", 1),  -- _items[heap.top().index]
  ("methods/diffusion_map.hpp", "DiffusionMapImplementation::embed", "$1.col(%)", 2),  -- embedding.col(i)
  ("methods/isomap.hpp", "IsomapImplementation::embed", "$1.first.col(%)", 1),  -- embedding.first.col(i)
  ("methods/isomap.hpp", "IsomapImplementation::embed", "$1.second(%)", 1),  -- embedding.second(i)
  ("methods/kernel_pca.hpp", "KernelPrincipalComponentAnalysisImplementation::embed", "$1.first.col(%)", 1),  -- embedding.first.col(i)
  ("methods/kernel_pca.hpp", "KernelPrincipalComponentAnalysisImplementation::embed", "$1.second(%)", 1),  -- embedding.second(i)
  ("methods/landmark_isomap.hpp", "LandmarkIsomapImplementation::embed", "$1.col(%)", 2),  -- embedding.col(i)
  ("methods/landmark_isomap.hpp", "LandmarkIsomapImplementation::embed", "$1.second(%)", 2),  -- landmarks_embedding.second(i)
  ("methods/landmark_multidimensional_scaling.hpp", "LandmarkMultidimensionalScalingImplementation::embed", "$1.first.col(%)", 1),  -- landmarks_embedding.first.col(i)
  ("methods/landmark_multidimensional_scaling.hpp", "LandmarkMultidimensionalScalingImplementation::embed", "$1.second(%)", 1),  -- landmarks_embedding.second(i)
  ("methods/multidimensional_scaling.hpp", "MultidimensionalScalingImplementation::embed", "$1.first.col(%)", 1),  -- embedding.first.col(i)
  ("methods/multidimensional_scaling.hpp", "MultidimensionalScalingImplementation::embed", "$1.second(%)", 1),  -- embedding.second(i)
  ("neighbors/connected.hpp", "is_connected", "$1[$2[%][%]]", 1),  -- backward[neighbor]
  ("neighbors/connected.hpp", "reaches_all_from_first", "$1[$2.top()]", 3),  -- visited[current] | edges[current]
  ("neighbors/connected.hpp", "reaches_all_from_first", "$1[$2[$3.top()][%]]", 1),  -- visited[neighbor]
  ("neighbors/covertree.hpp", "add_height", "$1[$2]", 2),  -- heights[d]
  ("neighbors/covertree.hpp", "batch_create", "$1[%]", 2),  -- points[i]
  ("neighbors/covertree.hpp", "batch_create", "$1[0]", 2),  -- points[0]
  ("neighbors/covertree.hpp", "batch_insert", "$1[%]", 6),  -- new_point_set[i] | new_consumed_set[i]
  ("neighbors/covertree.hpp", "batch_nearest_neighbor", "$1[0]", 1),  -- cover_sets[0]
  ("neighbors/covertree.hpp", "batch_nearest_neighbor", "spare_cover_sets[%]", 1),  -- spare_cover_sets[i]
  ("neighbors/covertree.hpp", "breadth_dist", "$1.children[%]", 1),  -- top_node.children[i]
  ("neighbors/covertree.hpp", "brute_nearest", "$1[0]", 2),  -- upper_bound[0]
  ("neighbors/covertree.hpp", "copy_cover_sets", "$1[$2]", 4),  -- cover_sets[current_scale] | new_cover_sets[current_scale]
  ("neighbors/covertree.hpp", "copy_cover_sets", "$1[0]", 2),  -- new_upper_bound[0]
  ("neighbors/covertree.hpp", "copy_zero_set", "$1[0]", 2),  -- new_upper_bound[0]
  ("neighbors/covertree.hpp", "depth_dist", "$1.children[%]", 1),  -- top_node.children[i]
  ("neighbors/covertree.hpp", "descend", "$1[$2]", 3),  -- cover_sets[current_scale]
  ("neighbors/covertree.hpp", "descend", "$1[0]", 3),  -- upper_bound[0]
  ("neighbors/covertree.hpp", "dist_split", "$1[$2++]", 1),  -- point_set[new_index++]
  ("neighbors/covertree.hpp", "dist_split", "$1[%]", 4),  -- point_set[i]
  ("neighbors/covertree.hpp", "height_dist", "$1.children[%]", 1),  -- top_node.children[i]
  ("neighbors/covertree.hpp", "internal_batch_nearest_neighbor", "$1->children[0]", 1),  -- query->children[0]
  ("neighbors/covertree.hpp", "internal_batch_nearest_neighbor", "$1[$2++]", 1),  -- cover_sets[current_scale++]
  ("neighbors/covertree.hpp", "internal_batch_nearest_neighbor", "$1[$2]", 1),  -- cover_sets[current_scale]
  ("neighbors/covertree.hpp", "internal_batch_nearest_neighbor", "$1[0]", 1),  -- upper_bound[0]
  ("neighbors/covertree.hpp", "max_set", "$1[%]", 2),  -- v[i]
  ("neighbors/covertree.hpp", "set_leaf_scale", "$1.children[%]", 1),  -- n.children[i]
  ("neighbors/covertree.hpp", "split", "$1[$2++]", 1),  -- point_set[new_index++]
  ("neighbors/covertree.hpp", "split", "$1[%]", 3),  -- point_set[i]
  ("neighbors/covertree_point.hpp", "pop", "$1[--$1.index]", 1),  -- stack[--stack.index]
  ("neighbors/covertree_point.hpp", "push", "$1[$1.index++]", 1),  -- v[v.index++]
  ("neighbors/covertree_point.hpp", "v_array::last", "elements[index - 1]", 1),  -- elements[index - 1]
  ("neighbors/covertree_point.hpp", "v_array::operator[]", "elements[$1]", 1),  -- elements[i]
  ("neighbors/neighbors.hpp", "find_neighbors_covertree_impl", "$1[$2 - $3]", 1),  -- neighbors[query - begin]
  ("neighbors/neighbors.hpp", "find_neighbors_covertree_impl", "$1[%]", 7),  -- res[i] | candidates[j]
  ("neighbors/neighbors.hpp", "find_neighbors_covertree_impl", "$1[%][%]", 3),  -- res[i][j]
  ("neighbors/neighbors.hpp", "find_neighbors_covertree_impl", "$1[%][0]", 1),  -- res[i][0]
  ("neighbors/vptree.hpp", "VantagePointTree::buildFromPoints", "items[$1]", 3),  -- items[lower]
  ("neighbors/vptree.hpp", "VantagePointTree::buildFromPoints", "items[($1 + $2)/ 2]", 1),  -- items[median]
  ("neighbors/vptree.hpp", "VantagePointTree::buildFromPoints", "items[(int)(next_vantage_fraction()*($1 - $2 - 1))+ $2]", 1),  -- items[i]
  ("neighbors/vptree.hpp", "VantagePointTree::search/2", "items[$1.top().index]", 1),  -- items[heap.top().index]
  ("neighbors/vptree.hpp", "VantagePointTree::search/4", "items[$1->index]", 1),  -- items[node->index]
  ("routines/diffusion_maps.hpp", "compute_diffusion_matrix", "$1(%)", 4),  -- p(i) | p(j)
  ("routines/eigendecomposition.hpp", "eigendecomposition_impl_arpack", "$1.eigenvalues().tail($2)", 1),  -- arpack.eigenvalues().tail(target_dimension)
  ("routines/eigendecomposition.hpp", "eigendecomposition_impl_arpack", "$1.eigenvectors().rightCols($2)", 1),  -- arpack.eigenvectors().rightCols(target_dimension)
  ("routines/eigendecomposition.hpp", "eigendecomposition_impl_randomized", "$1.col(%)", 1),  -- O.col(i)
  ("routines/fa.hpp", "project", "$1.col(% - $2)", 1),  -- X.col(iter - begin)
  ("routines/generalized_eigendecomposition.hpp", "generalized_eigendecomposition_impl_arpack", "$1.eigenvalues().tail($2)", 1),  -- arpack.eigenvalues().tail(target_dimension)
  ("routines/generalized_eigendecomposition.hpp", "generalized_eigendecomposition_impl_arpack", "($1.eigenvectors()).rightCols($2)", 1),  -- (arpack.eigenvectors()).rightCols(target_dimension)
  ("routines/isomap.hpp", "compute_shortest_distances_matrix/4", "$1(%, $2)", 2),  -- shortest_distances(k, min_item)
  ("routines/isomap.hpp", "compute_shortest_distances_matrix/4", "$1(%, $2[$3][%])", 2),  -- shortest_distances(k, w)
  ("routines/isomap.hpp", "compute_shortest_distances_matrix/4", "$1[$2[$3][%]]", 5),  -- s[w] | begin[w] | f[w]
  ("routines/isomap.hpp", "compute_shortest_distances_matrix/4", "$1[$2]", 4),  -- s[min_item] | f[min_item] | neighbors[min_item] | begin[min_item]
  ("routines/isomap.hpp", "compute_shortest_distances_matrix/5", "$1(%, $2)", 2),  -- shortest_distances(k, min_item)
  ("routines/isomap.hpp", "compute_shortest_distances_matrix/5", "$1(%, $2[$3][%])", 2),  -- shortest_distances(k, w)
  ("routines/isomap.hpp", "compute_shortest_distances_matrix/5", "$1(%, $2[%])", 1),  -- shortest_distances(k, landmarks[k])
  ("routines/isomap.hpp", "compute_shortest_distances_matrix/5", "$1[$2[$3][%]]", 5),  -- s[w] | begin[w] | f[w]
  ("routines/isomap.hpp", "compute_shortest_distances_matrix/5", "$1[$2[%]]", 1),  -- f[landmarks[k]]
  ("routines/isomap.hpp", "compute_shortest_distances_matrix/5", "$1[$2]", 4),  -- s[min_item] | f[min_item] | neighbors[min_item] | begin[min_item]
  ("routines/landmarks.hpp", "triangulate", "$1.row($2[%])", 1),  -- embedding.row(landmarks[index_iter])
  ("routines/landmarks.hpp", "triangulate", "$1[$2[%]]", 2),  -- to_process[landmarks[index_iter]] | begin[landmarks[i]]
  ("routines/laplacian_eigenmaps.hpp", "compute_laplacian", "$1($2[% - $3][%])", 1),  -- D(current_neighbors[i])
  ("routines/laplacian_eigenmaps.hpp", "compute_laplacian", "$1(% - $2)", 1),  -- D(iter - begin)
  ("routines/laplacian_eigenmaps.hpp", "compute_laplacian", "$1.coeffRef(%->col(), %->row())", 1),  -- dynamic_weight_matrix.coeffRef(it->col(), it->row())
  ("routines/laplacian_eigenmaps.hpp", "compute_laplacian", "$1[$2[% - $1][%]]", 1),  -- begin[current_neighbors[i]]
  ("routines/laplacian_eigenmaps.hpp", "compute_laplacian", "$1[% - $2]", 1),  -- neighbors[iter - begin]
  ("routines/laplacian_eigenmaps.hpp", "construct_locality_preserving_eigenproblem", "$1[$2.col()]", 1),  -- begin[it.col()]
  ("routines/laplacian_eigenmaps.hpp", "construct_locality_preserving_eigenproblem", "$1[$2.row()]", 1),  -- begin[it.row()]
  ("routines/locally_linear.hpp", "construct_lltsa_eigenproblem", "$1(% - $2)", 1),  -- w_ones(iter - begin)
  ("routines/locally_linear.hpp", "construct_lltsa_eigenproblem", "$1[$2.col()]", 1),  -- begin[it.col()]
  ("routines/locally_linear.hpp", "construct_lltsa_eigenproblem", "$1[$2.row()]", 1),  -- begin[it.row()]
  ("routines/locally_linear.hpp", "construct_neighborhood_preserving_eigenproblem", "$1[$2.col()]", 1),  -- begin[it.col()]
  ("routines/locally_linear.hpp", "construct_neighborhood_preserving_eigenproblem", "$1[$2.row()]", 1),  -- begin[it.row()]
  ("routines/locally_linear.hpp", "hessian_weight_matrix", "$1(%, %)", 3),  -- gram_matrix(i, j) | gram_matrix(j, i)
  ("routines/locally_linear.hpp", "hessian_weight_matrix", "$1.col(0)", 1),  -- Yi.col(0)
  ("routines/locally_linear.hpp", "hessian_weight_matrix", "$1[$2[%][%]]", 2),  -- begin[current_neighbors[i]] | begin[current_neighbors[j]]
  ("routines/locally_linear.hpp", "linear_weight_matrix", "$1(%)", 2),  -- weights(i) | weights(j)
  ("routines/locally_linear.hpp", "linear_weight_matrix", "$1[$2[%][%]]", 3),  -- begin[current_neighbors[i]] | begin[current_neighbors[j]]
  ("routines/locally_linear.hpp", "linear_weight_matrix", "$1[%]", 2),  -- weights[i]
  ("routines/locally_linear.hpp", "tangent_weight_matrix", "$1(%, %)", 3),  -- gram_matrix(i, j) | gram_matrix(j, i)
  ("routines/locally_linear.hpp", "tangent_weight_matrix", "$1.col(0)", 1),  -- G.col(0)
  ("routines/locally_linear.hpp", "tangent_weight_matrix", "$1[$2[%][%]]", 2),  -- begin[current_neighbors[i]] | begin[current_neighbors[j]]
  ("routines/manifold_sculpting.hpp", "angles_matrix_and_neighbors", "$1.col($2[%][%])", 2),  -- data.col(current_neighbors[j])
  ("routines/manifold_sculpting.hpp", "angles_matrix_and_neighbors", "$1.col(($2[$2[%][%]])[%])", 1),  -- data.col(neighbors_of_neighbor[l])
  ("routines/manifold_sculpting.hpp", "angles_matrix_and_neighbors", "$1[$1[%][%]]", 1),  -- neighbors[current_neighbors[j]]
  ("routines/manifold_sculpting.hpp", "angles_matrix_and_neighbors", "$1[%]", 3),  -- neighbors[i] | most_collinear_current_neighbors[j]
  ("routines/manifold_sculpting.hpp", "average_neighbor_distance", "$1.col($2[%][%])", 1),  -- data.col(neighbors[i][j])
  ("routines/manifold_sculpting.hpp", "average_neighbor_distance", "$1[%]", 1),  -- neighbors[i]
  ("routines/manifold_sculpting.hpp", "compute_error_for_point", "$1.angle_neighbors[$2]", 1),  -- error_func_data.angle_neighbors[index]
  ("routines/manifold_sculpting.hpp", "compute_error_for_point", "$1.angle_neighbors[$2][%]", 1),  -- error_func_data.angle_neighbors[index][i]
  ("routines/manifold_sculpting.hpp", "compute_error_for_point", "$1.angles_matrix.coeff($2, $1.angle_neighbors[$2][%])", 1),  -- error_func_data.angles_matrix.coeff(index, neighbor_of_neighbor)
  ("routines/manifold_sculpting.hpp", "compute_error_for_point", "$1.col($2)", 2),  -- data.col(index)
  ("routines/manifold_sculpting.hpp", "compute_error_for_point", "$1.col($2.angle_neighbors[$3][%])", 1),  -- data.col(neighbor_of_neighbor)
  ("routines/manifold_sculpting.hpp", "compute_error_for_point", "$1.col($2.distance_neighbors[$3][%])", 3),  -- data.col(neighbor)
  ("routines/manifold_sculpting.hpp", "compute_error_for_point", "$1.distance_matrix.coeff($2, $1.distance_neighbors[$2][%])", 1),  -- error_func_data.distance_matrix.coeff(index, neighbor)
  ("routines/manifold_sculpting.hpp", "compute_error_for_point", "$1.distance_neighbors[$2]", 1),  -- error_func_data.distance_neighbors[index]
  ("routines/manifold_sculpting.hpp", "compute_error_for_point", "$1.distance_neighbors[$2][%]", 1),  -- error_func_data.distance_neighbors[index][i]
  ("routines/manifold_sculpting.hpp", "compute_error_for_point", "$1.distance_neighbors[0]", 1),  -- error_func_data.distance_neighbors[0]
  ("routines/manifold_sculpting.hpp", "manifold_sculpting_embed", "$1[$2.front()]", 2),  -- neighbors[current_point_index]
  ("routines/manifold_sculpting.hpp", "neighbors_distances_matrix", "$1[$2[%][%]]", 1),  -- begin[current_neighbors[j]]
  ("routines/manifold_sculpting.hpp", "neighbors_distances_matrix", "$1[%]", 1),  -- begin[i]
  ("routines/multidimensional_scaling.hpp", "compute_distance_matrix/4", "$1[$2[%]]", 2),  -- begin[landmarks[i_index_iter]] | begin[landmarks[j_index_iter]]
  ("routines/pca.hpp", "compute_centered_kernel_matrix", "$1(% - $2, % - $2)", 2),  -- kernel_matrix(i_iter - begin, j_iter - begin) | kernel_matrix(j_iter - begin, i_iter - begin)
  ("routines/pca.hpp", "project", "$1.row(% - $2)", 1),  -- embedding.row(iter - begin)
  ("routines/spe.hpp", "spe_embedding", "$1.col(%)", 3),  -- Yd.col(j)
  ("routines/spe.hpp", "spe_embedding", "$1.col(*$2)", 6),  -- Y.col(*ind1) | Y.col(*ind2)
  ("routines/spe.hpp", "spe_embedding", "$1[%]", 5),  -- partners[j] | D[j] | Rt[j] | scale[j]
  ("routines/spe.hpp", "spe_embedding", "$1[*$2++]", 1),  -- neighbors[*ind1++]
  ("routines/spe.hpp", "spe_embedding", "$1[*$2++][%]", 1),  -- current_neighbors[kk]
  ("utils/arpack_wrapper.hpp", "compute/6", "$1[% * $2 + %]", 1),  -- v[i * n + j]
  ("utils/arpack_wrapper.hpp", "compute/6", "$1[0]", 12),  -- eigs_sigma[0] | whch[0] | bmat[0] | iparam[0] | ipntr[0]
  ("utils/arpack_wrapper.hpp", "compute/6", "$1[1]", 9),  -- eigs_sigma[1] | whch[1] | ipntr[1]
  ("utils/arpack_wrapper.hpp", "compute/6", "$1[2]", 4),  -- iparam[2] | ipntr[2]
  ("utils/arpack_wrapper.hpp", "compute/6", "$1[4]", 1),  -- iparam[4]
  ("utils/arpack_wrapper.hpp", "compute/6", "$1[6]", 1),  -- iparam[6]
  ("utils/features.hpp", "dense_matrix_from_features", "$1.col(% - $2)", 1),  -- matrix.col(iter - begin)
  ("utils/fibonacci_heap.hpp", "fibonacci_heap::clear_node", "nodes[$1]", 8),  -- nodes[index]
  ("utils/fibonacci_heap.hpp", "fibonacci_heap::consolidate", "A[$1]", 4),  -- A[d]
  ("utils/fibonacci_heap.hpp", "fibonacci_heap::consolidate", "A[%]", 4),  -- A[i]
  ("utils/fibonacci_heap.hpp", "fibonacci_heap::decrease_key", "nodes[$1]", 8),  -- nodes[index]
  ("utils/fibonacci_heap.hpp", "fibonacci_heap::fibonacci_heap", "A[%]", 1),  -- A[i]
  ("utils/fibonacci_heap.hpp", "fibonacci_heap::fibonacci_heap", "nodes[%]", 1),  -- nodes[i]
  ("utils/fibonacci_heap.hpp", "fibonacci_heap::get_key", "nodes[$1]", 3),  -- nodes[index]
  ("utils/fibonacci_heap.hpp", "fibonacci_heap::insert", "nodes[$1]", 8),  -- nodes[index]
  ("utils/fibonacci_heap.hpp", "fibonacci_heap::~fibonacci_heap", "nodes[%]", 1),  -- nodes[i]
  ("utils/sparse.hpp", "sparse_matrix_from_triplets", "$1.coeffRef(%->col(), %->row())", 1)  -- dynamic_weight_matrix.coeffRef(it->col(), it->row())
]

/-- THE PIN: every `sweepOnly` row of the regenerated inventory is an accepted row (same file, function and normal
    form, no more occurrences than accepted) -/
theorem sweep_only_sites_accepted : covered sweepOnlyKeys accepted = true := by
  decide +kernel

/-- … spelled out over the generated table -/
theorem every_sweep_only_site_is_accepted :
    ∀ s ∈ sites, s.cov = .sweepOnly →
      ∃ a ∈ accepted, s.file = a.1 ∧ s.fn = a.2.1 ∧ s.expr = a.2.2.1 ∧ s.count ≤ a.2.2.2 := by
  intro s hs hc
  have hk : (s.file, s.fn, s.expr, s.count) ∈ sweepOnlyKeys := by
    unfold sweepOnlyKeys
    exact List.mem_filterMap.mpr ⟨s, hs, by rw [hc]⟩
  exact covered_sound accepted sweepOnlyKeys sweep_only_sites_accepted _ hk

/-! ### the `loopvar` class -/

/-- the ONE generic lemma: a counted loop `for (i = a; i < B; ++i)` with `lo ≤ a`, `lo` a natural number, keeps
    `0 ≤ i < B` -/
theorem loop_index_in_range (lo : Nat) (B i : Int) (h1 : (lo : Int) ≤ i) (h2 : i < B) : 0 ≤ i ∧ i < B := by
  omega

/-- in every (lower bound, bound, extent) triple of the generated table the bound IS the extent (same expression) -/
def loopArgsOk (s : Site) : Bool :=
  match s.cov with
  | .loopvar args => args.all fun a => a.bound == a.dim
  | _ => true

theorem loopvar_bounds_are_extents : sites.all loopArgsOk = true := by
  decide +kernel

/-- per-site obligations of the `loopvar` class, by instantiation: under ANY valuation `ρ` of the extent expressions,
    every index argument of every `loopvar` site of the regenerated table stays inside the indexed dimension -/
theorem loopvar_sites_in_range (ρ : String → Int) :
    ∀ s ∈ sites, ∀ args, s.cov = .loopvar args → ∀ a ∈ args, ∀ i : Int,
      (a.lo : Int) ≤ i → i < ρ a.bound → 0 ≤ i ∧ i < ρ a.dim := by
  intro s hs args hc a ha i h1 h2
  have hall := List.all_eq_true.mp loopvar_bounds_are_extents s hs
  unfold loopArgsOk at hall
  rw [hc] at hall
  have hb : a.bound = a.dim := by
    have := List.all_eq_true.mp hall a ha
    simpa using this
  rw [← hb]
  exact loop_index_in_range a.lo (ρ a.bound) i h1 h2

/-- non-vacuity: the table has sites of all three classes -/
example : (sites.any fun s => match s.cov with | .loopvar (_ :: _) => true | _ => false) = true := by decide +kernel
example : sweepOnlyKeys ≠ [] := by decide +kernel

end TapkeeVerif.C01Sites
