import TapkeeVerif.Props.C05
import TapkeeVerif.Props.C06
/-!
# Property C05 (composition) — MDS and Kernel PCA end to end: the stage models composed into one `embed` model each

`mdsEmbedModel` is `MultidimensionalScalingImplementation::embed` (include/tapkee/methods/multidimensional_scaling.hpp),
`kpcaEmbedModel` is `KernelPrincipalComponentAnalysisImplementation::embed` (methods/kernel_pca.hpp), each as ONE function
composing the stage models that are proved (and tied to the code) separately:

    compute_distance_matrix(begin, end, distance)     sqDistMatrix (callback on ids, `j ≥ i` only, squared, mirrored)
    centerMatrix(D); D.array() *= -0.5                scale negHalf ∘ centerMatrix           = mdsPre
    compute_centered_kernel_matrix(begin,end,kernel)  centerMatrix ∘ kernelMatrix            = kpcaPre
    eigendecomposition_via(LargestEigenvalues, ..)    parameter `solver` (contract Spectral.IsTopEig)
    col(i) *= sqrt(max(λ_i, 0))                       post / clamp0, parameter `sqrtO` (contract s² = x)

Nothing is re-defined here; every conjunct of `mds_end_to_end` / `kpca_end_to_end` is an instance of a C05 (or C06) stage
theorem at the matrix the composed model actually hands over.

Interfaces that needed an explicit statement to meet:
* the callbacks are functions on sample ids `Nat`; the stage models take `Fin N → Fin N → K` — the composed models restrict
  them (`fun i j => δ i.1 j.1`), nothing is assumed about values outside `0..N-1`;
* the eigensolver may have no exact answer in the scalar field, so its contract is a hypothesis *at the matrix actually
  handed over* (`o.B`), and the `sqrt` contract only *at the clamped returned eigenvalues* (as in `isomap_end_to_end`);
* no symmetry, non-negativity or metric property of the distance / kernel callback is needed by conjuncts 1–4 (the code
  mirrors the upper triangle); the Euclidean conjunct 5 states its hypothesis on the callback explicitly.
-/
namespace TapkeeVerif.MdsCompose
open TapkeeVerif TapkeeVerif.Spectral Matrix Finset

variable {K : Type} [Field K] [LinearOrder K] [IsStrictOrderedRing K]

/-- everything `embed` computes on the way -/
structure Out (N d : Nat) (K : Type) where
  /-- `compute_distance_matrix` (squared distances) resp. the kernel matrix before centring -/
  M : Mat N N K
  /-- the matrix handed to `eigendecomposition_via` -/
  B : Mat N N K
  /-- eigenvectors / eigenvalues returned by the solver -/
  V : Mat N d K
  lam : Vec d K
  /-- the embedding -/
  Y : Mat N d K

/-- **`MultidimensionalScalingImplementation::embed`, composed.**  `δ` distance callback on sample ids `0..N-1`, `d`
    target dimension, `solver` the eigensolver outcome on the matrix it is handed, `sqrtO` the `sqrt` of libm. -/
def mdsEmbedModel (δ : Nat → Nat → K) (N d : Nat) (solver : Mat N N K → Mat N d K × Vec d K) (sqrtO : K → K) :
    Out N d K :=
  { M := sqDistMatrix (fun i j : Fin N => δ i.1 j.1)
    B := mdsPre (fun i j : Fin N => δ i.1 j.1)
    V := (solver (mdsPre (fun i j : Fin N => δ i.1 j.1))).1
    lam := (solver (mdsPre (fun i j : Fin N => δ i.1 j.1))).2
    Y := post (solver (mdsPre (fun i j : Fin N => δ i.1 j.1))).1
      (fun j => sqrtO (clamp0 ((solver (mdsPre (fun i j : Fin N => δ i.1 j.1))).2 j))) }

/-- **`KernelPrincipalComponentAnalysisImplementation::embed`, composed.**  `κ` kernel callback on sample ids. -/
def kpcaEmbedModel (κ : Nat → Nat → K) (N d : Nat) (solver : Mat N N K → Mat N d K × Vec d K) (sqrtO : K → K) :
    Out N d K :=
  { M := kernelMatrix (fun i j : Fin N => κ i.1 j.1)
    B := kpcaPre (fun i j : Fin N => κ i.1 j.1)
    V := (solver (kpcaPre (fun i j : Fin N => κ i.1 j.1))).1
    lam := (solver (kpcaPre (fun i j : Fin N => κ i.1 j.1))).2
    Y := post (solver (kpcaPre (fun i j : Fin N => κ i.1 j.1))).1
      (fun j => sqrtO (clamp0 ((solver (kpcaPre (fun i j : Fin N => κ i.1 j.1))).2 j))) }

/-- **mds_end_to_end.**  For every `N`, `d`, every distance callback, every solver outcome and every `sqrt`, with
    `o = mdsEmbedModel δ N d solver sqrtO`:

    1. the callback is read for `j ≥ i` only, squared and mirrored (`o.M`, symmetric whatever `δ`), and the matrix handed
       to the solver is `o.M` after `centerMatrix` and `*= -0.5`;
    2. that matrix is `−½·J·D²·J` and symmetric;
    3. `Y = V·diag (sqrt (max λ 0))` for the solver's `(V, λ)`;
    4. whenever `(V, λ)` meets the solver contract `IsTopEig` on that matrix and `sqrtO` squares back on the clamped
       eigenvalues: the columns of `Y` are orthogonal with squared norms `max λ_j 0`, `Y·Yᵀ = V·diag(λ⁺)·Vᵀ` is the best
       PSD approximation of rank `≤ d` of `−½·J·D²·J` in Frobenius norm (`mds_optimal`), and no `d` orthonormal directions
       capture more of it than `Σ λ` (`mds_kyFan`);
    5. for Euclidean distances of ANY points `X` (`δ i j ² = ‖x_i − x_j‖²`) the solver is handed the Gram matrix of the
       centred points, and if these span at most `d` dimensions (`rank Xc ≤ d`) then under the same two contracts EVERY
       pairwise squared distance of the embedding equals the squared input distance, exactly (`mds_exact_recovery`). -/
theorem mds_end_to_end (δ : Nat → Nat → K) (N d : Nat) (solver : Mat N N K → Mat N d K × Vec d K) (sqrtO : K → K) :
    let o := mdsEmbedModel δ N d solver sqrtO
    -- 1. distance matrix, centring, scaling
    ((∀ i j : Fin N, o.M i j = if i ≤ j then δ i.1 j.1 * δ i.1 j.1 else δ j.1 i.1 * δ j.1 i.1) ∧
      (∀ i j, o.M i j = o.M j i) ∧ o.B = scale negHalf (centerMatrix o.M)) ∧
    -- 2. classical MDS matrix
    ((∀ i j, o.B i j = (Mat.toM (centering (K := K) N) * Mat.toM o.M * Mat.toM (centering (K := K) N)) i j * (-(1 / 2))) ∧
      (Mat.toM o.B)ᵀ = Mat.toM o.B) ∧
    -- 3. spectral post-processing
    ((o.V, o.lam) = solver o.B ∧ o.Y = post o.V (fun j => sqrtO (clamp0 (o.lam j)))) ∧
    -- 4. under the solver and sqrt contracts: optimal rank-d factor
    (IsTopEig (Mat.toM o.B) (Mat.toM o.V) o.lam →
      (∀ j, sqrtO (clamp0 (o.lam j)) * sqrtO (clamp0 (o.lam j)) = clamp0 (o.lam j)) →
      (Mat.toM o.Y)ᵀ * Mat.toM o.Y = diagonal (fun j => clamp0 (o.lam j)) ∧
      Mat.toM o.Y * (Mat.toM o.Y)ᵀ = Mat.toM o.V * diagonal (fun j => clamp0 (o.lam j)) * (Mat.toM o.V)ᵀ ∧
      (∀ (Q : Matrix (Fin N) (Fin d) K), Qᵀ * Q = 1 → ∀ mu : Fin d → K, (∀ a, 0 ≤ mu a) →
        frobSq (Mat.toM o.B - Mat.toM o.Y * (Mat.toM o.Y)ᵀ) ≤ frobSq (Mat.toM o.B - Q * diagonal mu * Qᵀ)) ∧
      ∀ (Z : Matrix (Fin N) (Fin d) K), Zᵀ * Z = 1 → trace (Zᵀ * Mat.toM o.B * Z) ≤ ∑ j, o.lam j) ∧
    -- 5. Euclidean distances: Gram matrix, exact recovery
    (∀ (D : Nat) (X : Mat N D K),
      (∀ i j : Fin N, δ i.1 j.1 * δ i.1 j.1 = ∑ a, (X i a - X j a) * (X i a - X j a)) →
      Mat.toM o.B = Mat.toM (centred X) * (Mat.toM (centred X))ᵀ ∧
      ((Mat.toM (centred X)).rank ≤ d → IsTopEig (Mat.toM o.B) (Mat.toM o.V) o.lam →
        (∀ j, sqrtO (clamp0 (o.lam j)) * sqrtO (clamp0 (o.lam j)) = clamp0 (o.lam j)) →
        ∀ i j : Fin N, rowSqDist o.Y i j = δ i.1 j.1 * δ i.1 j.1)) := by
  intro o
  refine ⟨⟨fun _ _ => rfl, C05.sqDistMatrix_symm _, rfl⟩, ⟨C05.mdsPre_eq_JDJ _, C05.mdsPre_symm _⟩, ⟨rfl, rfl⟩, ?_, ?_⟩
  · intro htop hs
    exact ⟨(C05.mds_gram _ _ _ _ htop.toIsEigSystem hs).1, (C05.mds_gram _ _ _ _ htop.toIsEigSystem hs).2,
      fun Q hQ mu hmu => C05.mds_optimal _ _ _ _ htop hs Q hQ mu hmu,
      fun Z hZ => C05.mds_kyFan _ _ _ htop Z hZ⟩
  · intro D X hδ
    exact ⟨C05.mdsPre_eq_gram X _ hδ, fun hrk htop hs => C05.mds_exact_recovery X _ hδ hrk _ _ _ htop hs⟩

/-- **kpca_end_to_end.**  For every `N`, `d`, every kernel callback, every solver outcome and every `sqrt`, with
    `o = kpcaEmbedModel κ N d solver sqrtO`:

    1. the callback is read for `j ≥ i` only and mirrored (`o.M`, symmetric whatever `κ`), and the matrix handed to the
       solver is `centerMatrix o.M`;
    2. that matrix is `J·K·J` and symmetric;
    3. `Y = V·diag (sqrt (max λ 0))` for the solver's `(V, λ)`;
    4. under the solver contract at that matrix and the `sqrt` contract at the clamped eigenvalues: orthogonal columns with
       squared norms `max λ_j 0`, `Y·Yᵀ = V·diag(λ⁺)·Vᵀ` is the best PSD approximation of rank `≤ d` of `J·K·J`
       (`kpca_optimal`), and Ky Fan;
    5. for the linear kernel of ANY points `X` (`κ i j = ⟨x_i, x_j⟩`) the solver is handed the Gram matrix of the centred
       points — the same matrix MDS is handed for the Euclidean distances of `X` (C06 `pca_kpca_mds_agree`), whatever the
       solver; so the two composed models hand their solvers the same matrix. -/
theorem kpca_end_to_end (κ : Nat → Nat → K) (N d : Nat) (solver : Mat N N K → Mat N d K × Vec d K) (sqrtO : K → K) :
    let o := kpcaEmbedModel κ N d solver sqrtO
    -- 1. kernel matrix, centring
    ((∀ i j : Fin N, o.M i j = if i ≤ j then κ i.1 j.1 else κ j.1 i.1) ∧
      (∀ i j, o.M i j = o.M j i) ∧ o.B = centerMatrix o.M) ∧
    -- 2. centred kernel matrix
    (Mat.toM o.B = Mat.toM (centering (K := K) N) * Mat.toM o.M * Mat.toM (centering (K := K) N) ∧
      (Mat.toM o.B)ᵀ = Mat.toM o.B) ∧
    -- 3. spectral post-processing
    ((o.V, o.lam) = solver o.B ∧ o.Y = post o.V (fun j => sqrtO (clamp0 (o.lam j)))) ∧
    -- 4. under the solver and sqrt contracts: optimal rank-d factor
    (IsTopEig (Mat.toM o.B) (Mat.toM o.V) o.lam →
      (∀ j, sqrtO (clamp0 (o.lam j)) * sqrtO (clamp0 (o.lam j)) = clamp0 (o.lam j)) →
      (Mat.toM o.Y)ᵀ * Mat.toM o.Y = diagonal (fun j => clamp0 (o.lam j)) ∧
      Mat.toM o.Y * (Mat.toM o.Y)ᵀ = Mat.toM o.V * diagonal (fun j => clamp0 (o.lam j)) * (Mat.toM o.V)ᵀ ∧
      (∀ (Q : Matrix (Fin N) (Fin d) K), Qᵀ * Q = 1 → ∀ mu : Fin d → K, (∀ a, 0 ≤ mu a) →
        frobSq (Mat.toM o.B - Mat.toM o.Y * (Mat.toM o.Y)ᵀ) ≤ frobSq (Mat.toM o.B - Q * diagonal mu * Qᵀ)) ∧
      ∀ (Z : Matrix (Fin N) (Fin d) K), Zᵀ * Z = 1 → trace (Zᵀ * Mat.toM o.B * Z) ≤ ∑ j, o.lam j) ∧
    -- 5. linear kernel: Gram matrix of the centred points = what MDS is handed
    (∀ (D : Nat) (X : Mat N D K), (∀ i j : Fin N, κ i.1 j.1 = ∑ a, X i a * X j a) →
      Mat.toM o.B = Mat.toM (centred X) * (Mat.toM (centred X))ᵀ ∧
      ∀ (δ : Nat → Nat → K), (∀ i j : Fin N, δ i.1 j.1 * δ i.1 j.1 = ∑ a, (X i a - X j a) * (X i a - X j a)) →
        ∀ (solver' : Mat N N K → Mat N d K × Vec d K) (sqrtO' : K → K),
          Mat.toM (mdsEmbedModel δ N d solver' sqrtO').B = Mat.toM o.B) := by
  intro o
  have hsymB : (Mat.toM o.B)ᵀ = Mat.toM o.B := C05.kpcaPre_symm _
  refine ⟨⟨fun _ _ => rfl, C05.kernelMatrix_symm _, rfl⟩, ⟨C05.kpcaPre_eq_JKJ _, hsymB⟩, ⟨rfl, rfl⟩, ?_, ?_⟩
  · intro htop hs
    exact ⟨(C05.mds_gram _ _ _ _ htop.toIsEigSystem hs).1, (C05.mds_gram _ _ _ _ htop.toIsEigSystem hs).2,
      fun Q hQ mu hmu => C05.kpca_optimal _ _ _ _ htop hs Q hQ mu hmu,
      fun Z hZ => htop.kyFan hsymB Z hZ⟩
  · intro D X hκ
    have hG := C06.kpcaPre_linear_eq_gram X (fun i j : Fin N => κ i.1 j.1) hκ
    refine ⟨hG, fun δ hδ solver' sqrtO' => ?_⟩
    exact (C05.mdsPre_eq_gram X (fun i j : Fin N => δ i.1 j.1) hδ).trans hG.symm

/-! ### Non-vacuity: concrete instances meet every hypothesis, including the solver and `sqrt` contracts

C05's instance: four points `1, 1, −1, −1` on a line, `d = 1`, over `ℚ`; distance callback `0` inside the two pairs and `2`
across, kernel callback `x_a·x_b = ±1`; both composed models hand the solver `x xᵀ`, whose top eigenpair is
`(½(1,1,−1,−1), 4)`, `sqrt 4 = 2`. -/

def exδN (a b : Nat) : ℚ := if decide (a < 2) = decide (b < 2) then 0 else 2
def exκN (a b : Nat) : ℚ := if decide (a < 2) = decide (b < 2) then 1 else -1
def exSolver : Mat 4 4 ℚ → Mat 4 1 ℚ × Vec 1 ℚ := fun _ => (C05.exV, C05.exLam)
def exSqrt : ℚ → ℚ := fun _ => 2

theorem ex_mds_isTopEig : IsTopEig (Mat.toM (mdsEmbedModel exδN 4 1 exSolver exSqrt).B)
    (Mat.toM (mdsEmbedModel exδN 4 1 exSolver exSqrt).V) (mdsEmbedModel exδN 4 1 exSolver exSqrt).lam :=
  C05.ex_isTopEig

theorem ex_kpca_isTopEig : IsTopEig (Mat.toM (kpcaEmbedModel exκN 4 1 exSolver exSqrt).B)
    (Mat.toM (kpcaEmbedModel exκN 4 1 exSolver exSqrt).V) (kpcaEmbedModel exκN 4 1 exSolver exSqrt).lam :=
  C05.certificate_sound (kpcaEmbedModel exκN 4 1 exSolver exSqrt).B (by decide +kernel) C05.exV C05.exLam
    (by decide +kernel)

theorem ex_sqrt : ∀ j : Fin 1, exSqrt (clamp0 (C05.exLam j)) * exSqrt (clamp0 (C05.exLam j)) = clamp0 (C05.exLam j) := by
  decide +kernel

/-- the MDS instance goes through conjuncts 4 and 5: every pairwise distance is reproduced -/
example : (Mat.toM (mdsEmbedModel exδN 4 1 exSolver exSqrt).Y)ᵀ * Mat.toM (mdsEmbedModel exδN 4 1 exSolver exSqrt).Y
      = diagonal (fun j => clamp0 (C05.exLam j)) ∧
    ∀ i j : Fin 4, rowSqDist (mdsEmbedModel exδN 4 1 exSolver exSqrt).Y i j = exδN i.1 j.1 * exδN i.1 j.1 := by
  obtain ⟨-, -, -, h4, h5⟩ := mds_end_to_end exδN 4 1 exSolver exSqrt
  exact ⟨(h4 ex_mds_isTopEig ex_sqrt).1, (h5 1 C05.exX C05.ex_euclidean).2 C05.ex_rank ex_mds_isTopEig ex_sqrt⟩

/-- the Kernel PCA instance goes through conjuncts 4 and 5 (linear kernel of the same points) -/
example : (Mat.toM (kpcaEmbedModel exκN 4 1 exSolver exSqrt).Y)ᵀ * Mat.toM (kpcaEmbedModel exκN 4 1 exSolver exSqrt).Y
      = diagonal (fun j => clamp0 (C05.exLam j)) ∧
    Mat.toM (mdsEmbedModel exδN 4 1 exSolver exSqrt).B = Mat.toM (kpcaEmbedModel exκN 4 1 exSolver exSqrt).B := by
  obtain ⟨-, -, -, h4, h5⟩ := kpca_end_to_end exκN 4 1 exSolver exSqrt
  exact ⟨(h4 ex_kpca_isTopEig ex_sqrt).1,
    (h5 1 C05.exX (by decide +kernel)).2 exδN C05.ex_euclidean exSolver exSqrt⟩

end TapkeeVerif.MdsCompose
