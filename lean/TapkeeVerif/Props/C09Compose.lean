import TapkeeVerif.Proofs.LeCompose
import TapkeeVerif.Props.C04Compose
/-!
# Property C09 (composition) — Laplacian Eigenmaps and Diffusion Map end to end

`leEmbedModel` is `LaplacianEigenmapsImplementation::embed` (methods/laplacian_eigenmaps.hpp) as ONE function composed
of the stage models that are proved (and tied to the code) separately:

    find_neighbors(.., k, check_connectivity)        Connected.findNeighbors (search = C02 model)        C02 / C03
    compute_laplacian(.., neighbors, distance, w)     Laplacian.computeLaplacian ∘ LeCompose.nbOf          C09
    generalized_eigendecomposition(Smallest, L, D, d) parameter `solver` (contract SpectralLocal.GenEigSystem, skip = 1)
    returned coordinates                              columns 1 … d of the solver's `V`

`dmEmbedModel` is `DiffusionMapImplementation::embed`: `Diffusion.diffusionMatrix` → `solver` (`d+1` largest pairs of
a full ascending eigensystem) → `Diffusion.dmPost`.  Nothing is re-defined; the only new definition is the reading
`nbOf` of a uniform `List (List Nat)` graph as the function `Fin N → Fin k → Fin N` that the Laplacian model takes
(`Proofs/LeCompose.lean`).  Every conjunct of the two theorems is an instance of the stage theorem of that stage.

Interfaces that needed an explicit statement to meet:
* the Laplacian model is indexed by the list length `k`: the composed model instantiates it at the FINAL `k'` of the
  doubling, through a proof that the returned graph is `Uniform` (a non-uniform graph is the error state `.knnOob`);
* the eigensolver contract (`GenEigSystem`, constant first eigenvector) is a hypothesis at the pencil actually handed
  over, as in C09 `le_solution`; `laplacian_eigenmaps_connected_kernel` shows that the graph returned with
  `check_connectivity` forces every null vector of `L` to be constant (the reason the skipped vector is the trivial one);
* `exp`, `sqrt` are the oracles of C09 with exactly the contracts written out (`0 < heat x`; `sqrtO q · sqrtO q = q ≠ 0`).
-/
namespace TapkeeVerif.LeCompose
open TapkeeVerif TapkeeVerif.Connected TapkeeVerif.Knn TapkeeVerif.Laplacian TapkeeVerif.Diffusion
open TapkeeVerif.SpectralLocal TapkeeVerif.IsomapCompose Matrix

variable {K : Type} [Field K] [LinearOrder K] [IsStrictOrderedRing K]

/-- everything `embed` computes on the way -/
structure LeOut (N d : Nat) (K : Type) where
  /-- result of `find_neighbors` -/
  found : Found
  /-- `Laplacian.first`, `Laplacian.second` -/
  L : Mat N N K
  D : Vec N K
  /-- the full generalised eigensystem of `(L, D)` (ascending) the solver works with -/
  V : Mat N N K
  lam : Vec N K
  /-- the embedding: eigenvectors `1 … d` -/
  Y : Mat N d K

/-- **`LaplacianEigenmapsImplementation::embed`, composed.** -/
def leEmbedModel (δ : Nat → Nat → K) (N k : Nat) (check : Bool) (d : Nat) (hd : 1 + d ≤ N) (width : K)
    (heat : K → K) (search : Nat → Graph) (solver : Mat N N K → Vec N K → Mat N N K × Vec N K) :
    Except Err (LeOut N d K) :=
  match findNeighbors search N check (findFuel N) k [] with
  | .oob => .error .knnOob
  | .fuelOut => .error .knnFuel
  | .ok f =>
    if hu : Uniform f.graph N f.k then
      let LD := computeLaplacian heat (fun i j : Fin N => δ i.1 j.1) width (nbOf hu)
      .ok { found := f, L := LD.1, D := LD.2, V := (solver LD.1 LD.2).1, lam := (solver LD.1 LD.2).2,
            Y := cols (solver LD.1 LD.2).1 (shiftIdx 1 hd) }
    else .error .knnOob

/-- **laplacian_eigenmaps_end_to_end.**  For every `N`, every callback `δ`, every requested `1 ≤ k ≤ N-1`,
    `check_connectivity` on, every exact search (C02), every width, every positive `exp` oracle, every `1 + d ≤ N` and
    every solver outcome, the composed model returns and
    1. the final `k'` is the least level of the doubling sequence whose graph passes `is_connected`;
    2. the lists are the exact `k'`-NN lists;
    3. with `nb = ` the returned lists and `h i a = heat (−δ(i, nb i a)² / width)`: `(L, D) = compute_laplacian`,
       `L = diag D − (A + Aᵀ)` for the directed heat adjacency `A` of THAT graph, `D` = the row sums of `A + Aᵀ`,
       every `D i > 0`, `L` symmetric, `L 1 = 0`, `L` positive semidefinite;
    4. `Y` = columns `1 … d` of the solver's `V`; and if `(V, lam)` meets the solver contract on `(L, diag D)` with a
       constant first eigenvector then `L y_c = lam_c D y_c`, `Yᵀ D Y = 1`, `Yᵀ D 1 = 0`, `tr(Yᵀ L Y) = Σ lam_c`, and `Y`
       minimises `tr(Zᵀ L Z)` over all `Z` with `Zᵀ D Z = 1`, `Zᵀ D 1 = 0` (C09 `le_solution`). -/
theorem laplacian_eigenmaps_end_to_end (δ : Nat → Nat → K) {N : Nat} (hN : 0 < N) {k : Nat} (hk : 1 ≤ k)
    (hkN : k ≤ N - 1) {d : Nat} (hd : 1 + d ≤ N) (width : K) (heat : K → K) (hheat : ∀ x, 0 < heat x)
    (search : Nat → Graph) (hlen : ∀ k, (search k).length = N)
    (hexact : ∀ k, k ≤ N - 1 → ∀ u (hu : u < (search k).length), IsExactKnn δ (List.range N) k u (search k)[u])
    (solver : Mat N N K → Vec N K → Mat N N K × Vec N K) :
    ∃ o, leEmbedModel δ N k true d hd width heat search solver = .ok o ∧
      -- 1. k doubling
      (∃ j, o.found.k = min (k * 2 ^ j) (N - 1) ∧ k ≤ o.found.k ∧ StronglyConnected o.found.graph N ∧
        (∀ j', j' < j → ¬ StronglyConnected (search (min (k * 2 ^ j') (N - 1))) N) ∧
        o.found.tried = (List.range (j + 1)).map fun j' => min (k * 2 ^ j') (N - 1)) ∧
      -- 2. exact k'-NN lists
      (o.found.graph = search o.found.k ∧ o.found.graph.length = N ∧
        ∀ u (hu : u < o.found.graph.length), IsExactKnn δ (List.range N) o.found.k u o.found.graph[u]) ∧
      -- 3. the pencil handed to the solver
      (∃ hu : Uniform o.found.graph N o.found.k,
        (∀ i a, (o.found.graph[i.1]?).bind (·[a.1]?) = some (nbOf hu i a).1) ∧
        (o.L, o.D) = computeLaplacian heat (fun i j : Fin N => δ i.1 j.1) width (nbOf hu) ∧
        Mat.toM o.L = Matrix.diagonal o.D
          - (adj (nbOf hu) (fun i a => heat (-(δ i.1 (nbOf hu i a).1) ^ 2 / width))
            + (adj (nbOf hu) (fun i a => heat (-(δ i.1 (nbOf hu i a).1) ^ 2 / width)))ᵀ) ∧
        (∀ i, o.D i = ∑ j, (adj (nbOf hu) (fun i a => heat (-(δ i.1 (nbOf hu i a).1) ^ 2 / width))
            + (adj (nbOf hu) (fun i a => heat (-(δ i.1 (nbOf hu i a).1) ^ 2 / width)))ᵀ) i j) ∧
        (∀ i, 0 < o.D i) ∧ (Mat.toM o.L)ᵀ = Mat.toM o.L ∧ (Mat.toM o.L).mulVec (fun _ => 1) = 0 ∧
        ∀ x : Fin N → K, 0 ≤ x ⬝ᵥ ((Mat.toM o.L).mulVec x)) ∧
      -- 4. the solver and the returned coordinates
      ((o.V, o.lam) = solver o.L o.D ∧ o.Y = cols (Mat.toM o.V) (shiftIdx 1 hd) ∧
        ∀ κ : K, κ ≠ 0 → GenEigSystem (Mat.toM o.L) (Matrix.diagonal o.D) (Mat.toM o.V) o.lam →
          (∀ i, o.V i ⟨0, by omega⟩ = κ) →
          (∀ c, (Mat.toM o.L).mulVec (fun i => o.Y i c)
              = o.lam (shiftIdx 1 hd c) • (Matrix.diagonal o.D).mulVec (fun i => o.Y i c)) ∧
          (Mat.toM o.Y)ᵀ * Matrix.diagonal o.D * Mat.toM o.Y = 1 ∧
          (∀ c, ∑ i, o.D i * o.Y i c = 0) ∧
          Matrix.trace ((Mat.toM o.Y)ᵀ * Mat.toM o.L * Mat.toM o.Y) = ∑ c, o.lam (shiftIdx 1 hd c) ∧
          ∀ Z : Matrix (Fin N) (Fin d) K, Zᵀ * Matrix.diagonal o.D * Z = 1 → (∀ c, ∑ i, o.D i * Z i c = 0) →
            Matrix.trace ((Mat.toM o.Y)ᵀ * Mat.toM o.L * Mat.toM o.Y) ≤ Matrix.trace (Zᵀ * Mat.toM o.L * Z)) := by
  obtain ⟨f, hf⟩ := findNeighbors_terminates δ search hN hk hlen hexact
  obtain ⟨j, hkj, hgraph, hsc, hmin, htried⟩ := k_raised_only_if_needed search hN _ k f hf
  have hk'le : f.k ≤ N - 1 := by rw [hkj]; exact Nat.min_le_right _ _
  have hex' : ∀ u (hu : u < f.graph.length), IsExactKnn δ (List.range N) f.k u f.graph[u] := by
    rw [hgraph]; exact hexact _ hk'le
  have hglen : f.graph.length = N := by rw [hgraph]; exact hlen _
  have huni : Uniform f.graph N f.k := uniform_of_exact hglen hex'
  have hkpos : 0 < f.k := by
    rw [hkj]; exact Nat.lt_min.2 ⟨Nat.mul_pos (by omega) (Nat.pow_pos (by omega)), by omega⟩
  set hfun : Mat N f.k K := fun i a => heat (-(δ i.1 (nbOf huni i a).1) ^ 2 / width) with hhfun
  have hLD := C09.computeLaplacian_eq heat (fun i j : Fin N => δ i.1 j.1) width (nbOf huni)
  refine ⟨{ found := f, L := (computeLaplacian heat (fun i j : Fin N => δ i.1 j.1) width (nbOf huni)).1,
            D := (computeLaplacian heat (fun i j : Fin N => δ i.1 j.1) width (nbOf huni)).2,
            V := (solver (computeLaplacian heat (fun i j : Fin N => δ i.1 j.1) width (nbOf huni)).1
                    (computeLaplacian heat (fun i j : Fin N => δ i.1 j.1) width (nbOf huni)).2).1,
            lam := (solver (computeLaplacian heat (fun i j : Fin N => δ i.1 j.1) width (nbOf huni)).1
                    (computeLaplacian heat (fun i j : Fin N => δ i.1 j.1) width (nbOf huni)).2).2,
            Y := cols (solver (computeLaplacian heat (fun i j : Fin N => δ i.1 j.1) width (nbOf huni)).1
                    (computeLaplacian heat (fun i j : Fin N => δ i.1 j.1) width (nbOf huni)).2).1 (shiftIdx 1 hd) },
          ?_, ?_, ?_, ?_, ?_⟩
  · unfold leEmbedModel
    simp only [hf, huni, dite_true]
  · exact ⟨j, hkj, by rw [hkj]; exact Nat.le_min.2 ⟨Nat.le_mul_of_pos_right k (Nat.pow_pos (by omega)), hkN⟩,
      hsc, hmin, htried⟩
  · exact ⟨hgraph, hglen, hex'⟩
  · refine ⟨huni, nbOf_spec huni, rfl, ?_⟩
    simp only [hLD]
    exact ⟨C09.laplacian_eq _ _, C09.degrees_eq _ _,
      C09.degrees_pos _ _ hkpos (fun i a => hheat _), C09.laplacian_symm _ _, C09.laplacian_mulVec_one _ _,
      C09.laplacian_psd _ _ (fun i a => (hheat _).le)⟩
  · refine ⟨rfl, rfl, ?_⟩
    intro κ hκ hsys hconst
    exact C09.le_solution _ _ _ _ hsys hd κ hκ hconst


/-! ## C03 ∘ C09: why `check_connectivity` makes the skipped eigenvector the trivial one -/

/-- on a strongly connected uniform graph with positive heat values every null vector of `L` is constant
    (`xᵀLx = Σ h (x_i − x_nb)² = 0` forces equality along every edge, C03's reachability carries it everywhere) -/
theorem laplacian_kernel_constant {g : Graph} {N k : Nat} (hu : Uniform g N k) (hN : 0 < N)
    (hsc : StronglyConnected g N) (h : Mat N k K) (hh : ∀ i a, 0 < h i a) (x : Fin N → K)
    (hx : (Mat.toM (laplacianL (nbOf hu) h)).mulVec x = 0) : ∀ i j, x i = x j := by
  have hq := C09.laplacian_quadratic_form (nbOf hu) h x
  rw [hx, dotProduct_zero] at hq
  have hedge : ∀ i a, x i = x (nbOf hu i a) := by
    intro i a
    have h1 := (Finset.sum_eq_zero_iff_of_nonneg (fun i _ => Finset.sum_nonneg
      (fun a _ => mul_nonneg (hh i a).le (sq_nonneg (x i - x (nbOf hu i a)))))).1 hq.symm i (Finset.mem_univ _)
    have h2 := (Finset.sum_eq_zero_iff_of_nonneg
      (fun a _ => mul_nonneg (hh i a).le (sq_nonneg (x i - x (nbOf hu i a))))).1 h1 a (Finset.mem_univ _)
    rcases mul_eq_zero.1 h2 with h3 | h3
    · exact absurd h3 (hh i a).ne'
    · exact sub_eq_zero.1 ((pow_eq_zero_iff (two_ne_zero)).1 h3)
  let x' : Nat → K := fun u => if hu' : u < N then x ⟨u, hu'⟩ else 0
  have hx' : ∀ i : Fin N, x' i.1 = x i := fun i => by simp only [x', i.2, dite_true]
  have hreach : ∀ {u v}, Reach g u v → x' u = x' v := by
    intro u v hr
    induction hr with
    | refl => rfl
    | step hr' he ih =>
      obtain ⟨i, a, hi, hw⟩ := edge_nbOf hu he
      rw [ih, ← hi, ← hw, hx', hx']
      exact hedge i a
  intro i j
  have hr := hsc i.1 i.2 j.1 j.2
  rw [hu.followed hN] at hr
  have := hreach hr
  rwa [hx', hx'] at this

/-- hence the generalised eigenvalue `0` of `(L, D)` is simple: in every full `D`-orthonormal ascending eigensystem only
    the first eigenvalue vanishes — the hypothesis `hsimple` of C09 `skipped_eigenvector_is_constant` -/
theorem le_zero_eigenvalue_simple {g : Graph} {N k : Nat} (hu : Uniform g N k) (hN : 0 < N) (hkpos : 0 < k)
    (hsc : StronglyConnected g N) (h : Mat N k K) (hh : ∀ i a, 0 < h i a)
    (V : Matrix (Fin N) (Fin N) K) (lam : Fin N → K)
    (hsys : GenEigSystem (Mat.toM (laplacianL (nbOf hu) h)) (Matrix.diagonal (degrees (nbOf hu) h)) V lam) :
    ∀ j : Fin N, j.1 ≠ 0 → lam j ≠ 0 := by
  intro j hj h0
  set dg := degrees (nbOf hu) h with hdg
  set i0 : Fin N := ⟨0, hN⟩ with hi0
  have hsand : ∀ (M : Matrix (Fin N) (Fin N) K) a b,
      (Vᵀ * M * V) a b = (fun i => V i a) ⬝ᵥ M.mulVec (fun i => V i b) := by
    intro M a b
    rw [Matrix.mul_assoc]
    simp [Matrix.mul_apply, dotProduct, mulVec]
  have hconstcol : ∀ a, lam a = 0 → ∀ i i', V i a = V i' a := by
    intro a ha
    apply laplacian_kernel_constant hu hN hsc h hh
    rw [eigen_equation_col hsys a, ha, zero_smul]
  have hdgpos := C09.degrees_pos (nbOf hu) h hkpos hh
  have h00 : lam i0 = 0 := by
    apply le_antisymm
    · rw [← h0]; exact hsys.sorted (Fin.le_def.2 (Nat.zero_le _))
    · have h1 := congrFun (congrFun hsys.diag i0) i0
      rw [hsand, Matrix.diagonal_apply_eq] at h1
      rw [← h1]; exact C09.laplacian_psd _ _ (fun i a => (hh i a).le) _
  have hc0 := hconstcol _ h00
  have hcj := hconstcol j h0
  have hne : i0 ≠ j := fun e => hj (by rw [← e])
  have ho := congrFun (congrFun hsys.orth i0) j
  rw [hsand, Matrix.one_apply_ne hne] at ho
  have hjj := congrFun (congrFun hsys.orth j) j
  rw [hsand, Matrix.one_apply_eq] at hjj
  have h0' := congrFun (congrFun hsys.orth i0) i0
  rw [hsand, Matrix.one_apply_eq] at h0'
  have e : ∀ a b, (∀ i i', V i a = V i' a) → (∀ i i', V i b = V i' b) →
      (fun i => V i a) ⬝ᵥ (Matrix.diagonal dg).mulVec (fun i => V i b) = V i0 a * V i0 b * ∑ i, dg i := by
    intro a b ha hb
    simp only [dotProduct, Matrix.mulVec_diagonal]
    rw [Finset.mul_sum]
    apply Finset.sum_congr rfl
    intro i _
    rw [ha i i0, hb i i0]; ring
  rw [e _ _ hc0 hcj] at ho
  rw [e _ _ hcj hcj] at hjj
  rw [e _ _ hc0 hc0] at h0'
  have hS : 0 < ∑ i, dg i := Finset.sum_pos (fun i _ => hdgpos i) ⟨i0, Finset.mem_univ _⟩
  rcases mul_eq_zero.1 ho with h1 | h1
  · rcases mul_eq_zero.1 h1 with h2 | h2
    · rw [h2] at h0'; simp at h0'
    · rw [h2] at hjj; simp at hjj
  · exact hS.ne' h1


/-- **laplacian_eigenmaps_connected_kernel** — the end-to-end statement WITHOUT the hypothesis "the first eigenvector is
    constant": with `check_connectivity` on, the graph handed to `compute_laplacian` is strongly connected, so every
    null vector of the `L` handed to the solver is constant; therefore any solver outcome meeting the contract
    `GenEigSystem` alone has `lam j ≠ 0` for `j ≠ 0`, its first column is a non-zero constant (the skipped, trivial
    eigenvector), and the returned `Y` satisfies the whole conclusion of C09 `le_solution`. -/
theorem laplacian_eigenmaps_connected_kernel (δ : Nat → Nat → K) {N : Nat} (hN : 0 < N) {k : Nat} (hk : 1 ≤ k)
    (hkN : k ≤ N - 1) {d : Nat} (hd : 1 + d ≤ N) (width : K) (heat : K → K) (hheat : ∀ x, 0 < heat x)
    (search : Nat → Graph) (hlen : ∀ k, (search k).length = N)
    (hexact : ∀ k, k ≤ N - 1 → ∀ u (hu : u < (search k).length), IsExactKnn δ (List.range N) k u (search k)[u])
    (solver : Mat N N K → Vec N K → Mat N N K × Vec N K) :
    ∃ o, leEmbedModel δ N k true d hd width heat search solver = .ok o ∧
      (∀ x : Fin N → K, (Mat.toM o.L).mulVec x = 0 → ∀ i j, x i = x j) ∧
      (GenEigSystem (Mat.toM o.L) (Matrix.diagonal o.D) (Mat.toM o.V) o.lam →
        (∀ j : Fin N, j.1 ≠ 0 → o.lam j ≠ 0) ∧
        (∃ κ : K, κ ≠ 0 ∧ ∀ i, o.V i ⟨0, hN⟩ = κ) ∧
        (∀ c, (Mat.toM o.L).mulVec (fun i => o.Y i c)
            = o.lam (shiftIdx 1 hd c) • (Matrix.diagonal o.D).mulVec (fun i => o.Y i c)) ∧
        (Mat.toM o.Y)ᵀ * Matrix.diagonal o.D * Mat.toM o.Y = 1 ∧
        (∀ c, ∑ i, o.D i * o.Y i c = 0) ∧
        Matrix.trace ((Mat.toM o.Y)ᵀ * Mat.toM o.L * Mat.toM o.Y) = ∑ c, o.lam (shiftIdx 1 hd c) ∧
        ∀ Z : Matrix (Fin N) (Fin d) K, Zᵀ * Matrix.diagonal o.D * Z = 1 → (∀ c, ∑ i, o.D i * Z i c = 0) →
          Matrix.trace ((Mat.toM o.Y)ᵀ * Mat.toM o.L * Mat.toM o.Y) ≤ Matrix.trace (Zᵀ * Mat.toM o.L * Z)) := by
  obtain ⟨o, ho, ⟨j, -, hkle, hsc, -⟩, -, ⟨hu, -, hLD, -, -, -, -, hL1, -⟩, ⟨-, -, h4⟩⟩ :=
    laplacian_eigenmaps_end_to_end δ hN hk hkN hd width heat hheat search hlen hexact solver
  rw [C09.computeLaplacian_eq] at hLD
  have hL : o.L = laplacianL (nbOf hu) (fun i a => heat (-(δ i.1 (nbOf hu i a).1) ^ 2 / width)) :=
    congrArg Prod.fst hLD
  have hD : o.D = degrees (nbOf hu) (fun i a => heat (-(δ i.1 (nbOf hu i a).1) ^ 2 / width)) :=
    congrArg Prod.snd hLD
  have hkpos : 0 < o.found.k := by omega
  refine ⟨o, ho, ?_, ?_⟩
  · intro x hx
    rw [hL] at hx
    exact laplacian_kernel_constant hu hN hsc _ (fun i a => hheat _) x hx
  · intro hsys
    have hsimple : ∀ j : Fin N, j.1 ≠ 0 → o.lam j ≠ 0 := by
      have hsys' := hsys
      rw [hL, hD] at hsys'
      exact le_zero_eigenvalue_simple hu hN hkpos hsc _ (fun i a => hheat _) _ _ hsys'
    obtain ⟨κ, hκ, hconst⟩ := C09.skipped_eigenvector_is_constant hN _ _ _ _ hsys hL1 hsimple
    exact ⟨hsimple, ⟨κ, hκ, hconst⟩, h4 κ hκ hsys hconst⟩

/-! ## Diffusion Map -/

/-- everything `DiffusionMapImplementation::embed` computes on the way -/
structure DmOut (N d : Nat) (K : Type) where
  /-- `compute_diffusion_matrix` -/
  T : Mat N N K
  /-- the full ascending eigensystem of `T` the solver works with -/
  Vf : Mat N N K
  lam : Vec N K
  /-- `decomposition_result`: the `d+1` pairs of the largest eigenvalues (ascending: the trivial pair is last) -/
  V : Mat N (d + 1) K
  lamV : Vec (d + 1) K
  /-- the embedding -/
  Y : Mat N d K

/-- **`DiffusionMapImplementation::embed`, composed**: `compute_diffusion_matrix` → `eigendecomposition_via(Largest,
    d+1)` → `col(c) *= λ_c^t`, `col(c) /= col(d)`. -/
def dmEmbedModel (δ : Nat → Nat → K) (N d : Nat) (hd : d + 1 ≤ N) (width : K) (t : Nat) (heat sqrtO : K → K)
    (solver : Mat N N K → Mat N N K × Vec N K) : DmOut N d K :=
  let T := diffusionMatrix heat sqrtO (fun i j : Fin N => δ i.1 j.1) width
  { T := T, Vf := (solver T).1, lam := (solver T).2,
    V := cols (solver T).1 (topIdx hd), lamV := fun c => (solver T).2 (topIdx hd c),
    Y := dmPost (cols (solver T).1 (topIdx hd)) (fun c => (solver T).2 (topIdx hd c)) t }

/-- **diffusion_map_end_to_end.**  For every `N`, callback `δ`, width, `timesteps`, `d + 1 ≤ N`, every `exp` oracle,
    every `sqrt` oracle that squares back to a non-zero value on the `q` of THIS kernel matrix, every solver outcome:
    1. the matrix handed to the solver is `Q^{-1/2} (P⁻¹ K0 P⁻¹) Q^{-1/2}` of the mirrored heat kernel `K0` of `δ`,
       it is symmetric, `√q` is an eigenvector for the eigenvalue `1`, and `Q⁻¹ K1` is row-stochastic;
    2. `(Vf, lam) = solver T`, the returned pairs are the columns `N−d−1 … N−1`, `Y = dmPost`; and if `(Vf, lam)` meets
       the solver contract on `T` (full orthonormal ascending eigensystem) with a simple top eigenvalue, then there is
       `κ ≠ 0` such that the last returned column is `κ √q` with eigenvalue `1`, `Y i c = λ_c^t ψ_c(i) / κ` with
       `ψ_c = V_c / √q` a right eigenvector of the diffusion operator for `λ_c`, the selected eigenvalues dominate all
       unselected ones, and all eigenvalues are `≤ 1` (C09 `dm_solution`). -/
theorem diffusion_map_end_to_end (δ : Nat → Nat → K) {N d : Nat} (hd : d + 1 ≤ N) (width : K) (t : Nat)
    (heat sqrtO : K → K)
    (hs : ∀ i, sqrtO (qVec heat (fun i j : Fin N => δ i.1 j.1) width i)
        * sqrtO (qVec heat (fun i j : Fin N => δ i.1 j.1) width i) = qVec heat (fun i j : Fin N => δ i.1 j.1) width i)
    (hs0 : ∀ i, sqrtO (qVec heat (fun i j : Fin N => δ i.1 j.1) width i) ≠ 0)
    (solver : Mat N N K → Mat N N K × Vec N K) :
    let dist : Mat N N K := fun i j => δ i.1 j.1
    let o := dmEmbedModel δ N d hd width t heat sqrtO solver
    -- 1. the matrix handed to the solver
    (o.T = normBy (normBy (kernel0 heat dist width) (colSums (kernel0 heat dist width)))
            (fun i => sqrtO (colSums (normBy (kernel0 heat dist width) (colSums (kernel0 heat dist width))) i)) ∧
      (∀ i j, o.T i j = o.T j i) ∧
      (Mat.toM o.T).mulVec (sVec heat sqrtO dist width) = sVec heat sqrtO dist width ∧
      (∀ i, ∑ j, markov heat dist width i j = 1)) ∧
    -- 2. the solver and the returned coordinates
    ((o.Vf, o.lam) = solver o.T ∧ o.V = cols (Mat.toM o.Vf) (topIdx hd) ∧ (∀ c, o.lamV c = o.lam (topIdx hd c)) ∧
      o.Y = dmPost o.V o.lamV t ∧
      (GenEigSystem (Mat.toM o.T) 1 (Mat.toM o.Vf) o.lam → (∀ j : Fin N, j.1 ≠ N - 1 → o.lam j ≠ 1) →
        ∃ κ : K, κ ≠ 0 ∧
          (∀ i, o.V i (Fin.last d) = κ * sVec heat sqrtO dist width i) ∧ o.lamV (Fin.last d) = 1 ∧
          (∀ (i : Fin N) (c : Fin d),
            o.Y i c = o.lamV c.castSucc ^ t * (o.V i c.castSucc / sVec heat sqrtO dist width i) / κ) ∧
          (∀ c : Fin d, (markov heat dist width).mulVec (fun i => o.V i c.castSucc / sVec heat sqrtO dist width i)
              = o.lamV c.castSucc • (fun i => o.V i c.castSucc / sVec heat sqrtO dist width i)) ∧
          (∀ j : Fin N, j.1 < N - (d + 1) → ∀ c, o.lam j ≤ o.lamV c) ∧
          (∀ j : Fin N, o.lam j ≤ 1))) := by
  intro dist o
  refine ⟨⟨C09.diffusion_is_normalised_operator heat sqrtO dist width, C09.diffusionMatrix_symm heat sqrtO dist width,
    C09.diffusion_top_eigenpair heat sqrtO dist width hs hs0, fun i => C09.diffusion_markov heat dist width i ?_⟩,
    rfl, rfl, fun _ => rfl, rfl, ?_⟩
  · intro hq
    exact hs0 i (mul_self_eq_zero.1 ((hs i).trans hq))
  · intro hsys hsimple
    exact C09.dm_solution heat sqrtO dist width hs hs0 hd _ _ hsys hsimple t

/-! ### Non-vacuity

Laplacian Eigenmaps: (a) the four samples of `Props/C04Compose.lean` (`exδN`: two coinciding pairs), requested `k = 1`,
`d = 2`, `heat x = 1/(1+3x²)`: one doubling, `k' = 2`, every outer hypothesis met; (b) two samples at distance 1,
`k = 1`, `d = 1`: `h = heat(−1) = ¼`, `D = (½, ½)`, `L = ½ [[1,−1],[−1,1]]`, and the solver outcome `V = [[1,1],[1,−1]]`,
`lam = (0, 2)` meets the solver contract with the constant first eigenvector (`κ = 1`).
Diffusion Map: the two samples of C09's own example (`exHeat2`, `exSqrt2`, `exVf`), `d = 1`, `t = 3`. -/

def exHeatLe : ℚ → ℚ := fun x => 1 / (1 + 3 * (x * x))
theorem exHeatLe_pos : ∀ x, 0 < exHeatLe x := fun x => by
  have := mul_self_nonneg x
  unfold exHeatLe
  exact div_pos one_pos (by linarith)

def exLeSolver4 : Mat 4 4 ℚ → Vec 4 ℚ → Mat 4 4 ℚ × Vec 4 ℚ := fun _ _ => (fun _ _ => 0, fun _ => 0)

/-- outer hypotheses met with one doubling -/
example : ∃ o, leEmbedModel exδN 4 1 true 2 (by decide) 4 exHeatLe (bruteSearch exδN 4) exLeSolver4 = .ok o ∧
    o.found.k = 2 ∧ o.found.tried = [1, 2] ∧ ∀ i, 0 < o.D i := by
  obtain ⟨o, ho, -, -, ⟨hu, -, -, -, -, hD, -⟩, -⟩ :=
    laplacian_eigenmaps_end_to_end exδN (N := 4) (by decide) (k := 1) (by decide) (by decide) (d := 2) (by decide) 4
      exHeatLe exHeatLe_pos (bruteSearch exδN 4) (bruteSearch_length exδN 4)
      (fun k hk => bruteSearch_exact (by decide) exδN_self k hk) exLeSolver4
  have ho' := ho
  unfold leEmbedModel at ho'
  simp only [ex_find] at ho'
  have hu4 : Uniform [[1, 2], [0, 2], [3, 0], [2, 0]] 4 2 := by decide
  simp only [hu4, dite_true] at ho'
  injection ho' with ho'
  subst ho'
  exact ⟨_, ho, rfl, rfl, hD⟩

def exδ2 (a b : Nat) : ℚ := if a = b then 0 else 1
def exLeSolver : Mat 2 2 ℚ → Vec 2 ℚ → Mat 2 2 ℚ × Vec 2 ℚ :=
  fun _ _ => (fun i j => if i = 1 ∧ j = 1 then -1 else 1, fun j => if j = 0 then 0 else 2)

theorem ex_find2 : findNeighbors (bruteSearch exδ2 2) 2 true (findFuel 2) 1 [] = .ok ⟨[[1], [0]], 1, [1]⟩ := by
  have hb : bruteSearch exδ2 2 1 = [[1], [0]] := by
    simp [bruteSearch, bruteKnn, bruteSelect, bruteLoop, popIfLonger, bruteRecords, exδ2, List.range, List.range.loop,
      nthElementExec, recLt, List.mergeSort, List.MergeSort.Internal.splitInTwo]
  have c : isConnected 2 [[1], [0]] = .ok true := by decide
  simp [findNeighbors, findFuel, hb, c]

theorem ex_uniform2 : Uniform [[1], [0]] 2 1 := by decide

example : ∃ o, leEmbedModel exδ2 2 1 true 1 (by decide) 1 exHeatLe (bruteSearch exδ2 2) exLeSolver = .ok o ∧
    (∀ i, o.D i = 1 / 2) ∧
    GenEigSystem (Mat.toM o.L) (Matrix.diagonal o.D) (Mat.toM o.V) o.lam ∧ (∀ i, o.V i ⟨0, by decide⟩ = 1) := by
  obtain ⟨o, ho, -⟩ :=
    laplacian_eigenmaps_end_to_end exδ2 (N := 2) (by decide) (k := 1) (by decide) (by decide) (d := 1) (by decide) 1
      exHeatLe exHeatLe_pos (bruteSearch exδ2 2) (bruteSearch_length exδ2 2)
      (fun k hk => bruteSearch_exact (by decide) (fun i j _ _ => by unfold exδ2; simp only [if_true]; split_ifs <;> norm_num) k hk)
      exLeSolver
  have ho' := ho
  unfold leEmbedModel at ho'
  simp only [ex_find2, ex_uniform2, dite_true] at ho'
  injection ho' with ho'
  subst ho'
  exact ⟨_, ho, by decide +kernel, ⟨by decide +kernel, by decide +kernel, by decide +kernel⟩, by decide +kernel⟩

def exδDm (a b : Nat) : ℚ := (a : ℚ) + (b : ℚ) + 1
def exDmSolver : Mat 2 2 ℚ → Mat 2 2 ℚ × Vec 2 ℚ := fun _ => (C09.exVf, ![119 / 144, 1])

theorem exDm_sqrt : ∀ i : Fin 2, C09.exSqrt2 (qVec C09.exHeat2 (fun i j : Fin 2 => exδDm i.1 j.1) 1 i)
    * C09.exSqrt2 (qVec C09.exHeat2 (fun i j : Fin 2 => exδDm i.1 j.1) 1 i)
      = qVec C09.exHeat2 (fun i j : Fin 2 => exδDm i.1 j.1) 1 i := by decide +kernel

theorem exDm_sqrt_ne : ∀ i : Fin 2, C09.exSqrt2 (qVec C09.exHeat2 (fun i j : Fin 2 => exδDm i.1 j.1) 1 i) ≠ 0 := by
  decide +kernel

example : ∃ κ : ℚ, κ ≠ 0 ∧
    ∀ (i : Fin 2) (c : Fin 1),
      (dmEmbedModel exδDm 2 1 (by decide) 1 3 C09.exHeat2 C09.exSqrt2 exDmSolver).Y i c
        = (dmEmbedModel exδDm 2 1 (by decide) 1 3 C09.exHeat2 C09.exSqrt2 exDmSolver).lamV c.castSucc ^ 3
          * ((dmEmbedModel exδDm 2 1 (by decide) 1 3 C09.exHeat2 C09.exSqrt2 exDmSolver).V i c.castSucc
              / sVec C09.exHeat2 C09.exSqrt2 (fun i j : Fin 2 => exδDm i.1 j.1) 1 i) / κ := by
  obtain ⟨κ, hκ, -, -, hY, -⟩ :=
    (diffusion_map_end_to_end exδDm (N := 2) (d := 1) (by decide) 1 3 C09.exHeat2 C09.exSqrt2 exDm_sqrt exDm_sqrt_ne
      exDmSolver).2.2.2.2.2
      ⟨by decide +kernel, by decide +kernel, by decide +kernel⟩ (by decide +kernel)
  exact ⟨κ, hκ, hY⟩
end TapkeeVerif.LeCompose
