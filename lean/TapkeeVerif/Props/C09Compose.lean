import TapkeeVerif.Proofs.LeCompose
/-!
# Property C09 (composition) — Laplacian Eigenmaps and Diffusion Map end to end

`leEmbedModel` is `LaplacianEigenmapsImplementation::embed` (methods/laplacian_eigenmaps.hpp) as ONE function composed
of the stage models that are proved (and tied to the code) separately:

    find_neighbors(.., k, check_connectivity)        Connected.findNeighbors (search = C02 model)        C02 / C03
    compute_laplacian(.., neighbors, distance, w)     Laplacian.computeLaplacian ∘ LeCompose.nbOf          C09
    generalized_eigendecomposition(Smallest, L, D, d) parameter `solver` (contract SpectralLocal.GenEigSystem, skip = 1)
    returned coordinates                              columns 1 … d of the solver's `V`

`dmEmbedModel` is `DiffusionMapImplementation::embed`: `Diffusion.diffusionMatrix` → `solver` (`d+1` largest pairs of
a full ascending eigensystem) → `Diffusion.dmPost`.  Nothing is re-defined; the only new definition is the reading
`nbOf` of a uniform `List (List Nat)` graph as the function `Fin N → Fin k → Fin N` that the Laplacian model takes
(`Proofs/LeCompose.lean`).  Every conjunct of the two theorems is an instance of the stage theorem of that stage.

Interfaces that needed an explicit statement to meet:
* the Laplacian model is indexed by the list length `k`: the composed model instantiates it at the FINAL `k'` of the
  doubling, through a proof that the returned graph is `Uniform` (a non-uniform graph is the error state `.knnOob`);
* the eigensolver contract (`GenEigSystem`, constant first eigenvector) is a hypothesis at the pencil actually handed
  over, as in C09 `le_solution`; `laplacian_eigenmaps_connected_kernel` shows that the graph returned with
  `check_connectivity` forces every null vector of `L` to be constant (the reason the skipped vector is the trivial one);
* `exp`, `sqrt` are the oracles of C09 with exactly the contracts written out (`0 < heat x`; `sqrtO q · sqrtO q = q ≠ 0`).
-/
namespace TapkeeVerif.LeCompose
open TapkeeVerif TapkeeVerif.Connected TapkeeVerif.Knn TapkeeVerif.Laplacian TapkeeVerif.Diffusion
open TapkeeVerif.SpectralLocal TapkeeVerif.IsomapCompose Matrix

variable {K : Type} [Field K] [LinearOrder K] [IsStrictOrderedRing K]

/-- everything `embed` computes on the way -/
structure LeOut (N d : Nat) (K : Type) where
  /-- result of `find_neighbors` -/
  found : Found
  /-- `Laplacian.first`, `Laplacian.second` -/
  L : Mat N N K
  D : Vec N K
  /-- the full generalised eigensystem of `(L, D)` (ascending) the solver works with -/
  V : Mat N N K
  lam : Vec N K
  /-- the embedding: eigenvectors `1 … d` -/
  Y : Mat N d K

/-- **`LaplacianEigenmapsImplementation::embed`, composed.** -/
def leEmbedModel (δ : Nat → Nat → K) (N k : Nat) (check : Bool) (d : Nat) (hd : 1 + d ≤ N) (width : K)
    (heat : K → K) (search : Nat → Graph) (solver : Mat N N K → Vec N K → Mat N N K × Vec N K) :
    Except Err (LeOut N d K) :=
  match findNeighbors search N check (findFuel N) k [] with
  | .oob => .error .knnOob
  | .fuelOut => .error .knnFuel
  | .ok f =>
    if hu : Uniform f.graph N f.k then
      let LD := computeLaplacian heat (fun i j : Fin N => δ i.1 j.1) width (nbOf hu)
      .ok { found := f, L := LD.1, D := LD.2, V := (solver LD.1 LD.2).1, lam := (solver LD.1 LD.2).2,
            Y := cols (solver LD.1 LD.2).1 (shiftIdx 1 hd) }
    else .error .knnOob

/-- **laplacian_eigenmaps_end_to_end.**  For every `N`, every callback `δ`, every requested `1 ≤ k ≤ N-1`,
    `check_connectivity` on, every exact search (C02), every width, every positive `exp` oracle, every `1 + d ≤ N` and
    every solver outcome, the composed model returns and
    1. the final `k'` is the least level of the doubling sequence whose graph passes `is_connected`;
    2. the lists are the exact `k'`-NN lists;
    3. with `nb = ` the returned lists and `h i a = heat (−δ(i, nb i a)² / width)`: `(L, D) = compute_laplacian`,
       `L = diag D − (A + Aᵀ)` for the directed heat adjacency `A` of THAT graph, `D` = the row sums of `A + Aᵀ`,
       every `D i > 0`, `L` symmetric, `L 1 = 0`, `L` positive semidefinite;
    4. `Y` = columns `1 … d` of the solver's `V`; and if `(V, lam)` meets the solver contract on `(L, diag D)` with a
       constant first eigenvector then `L y_c = lam_c D y_c`, `Yᵀ D Y = 1`, `Yᵀ D 1 = 0`, `tr(Yᵀ L Y) = Σ lam_c`, and `Y`
       minimises `tr(Zᵀ L Z)` over all `Z` with `Zᵀ D Z = 1`, `Zᵀ D 1 = 0` (C09 `le_solution`). -/
theorem laplacian_eigenmaps_end_to_end (δ : Nat → Nat → K) {N : Nat} (hN : 0 < N) {k : Nat} (hk : 1 ≤ k)
    (hkN : k ≤ N - 1) {d : Nat} (hd : 1 + d ≤ N) (width : K) (heat : K → K) (hheat : ∀ x, 0 < heat x)
    (search : Nat → Graph) (hlen : ∀ k, (search k).length = N)
    (hexact : ∀ k, k ≤ N - 1 → ∀ u (hu : u < (search k).length), IsExactKnn δ (List.range N) k u (search k)[u])
    (solver : Mat N N K → Vec N K → Mat N N K × Vec N K) :
    ∃ o, leEmbedModel δ N k true d hd width heat search solver = .ok o ∧
      -- 1. k doubling
      (∃ j, o.found.k = min (k * 2 ^ j) (N - 1) ∧ k ≤ o.found.k ∧ StronglyConnected o.found.graph N ∧
        (∀ j', j' < j → ¬ StronglyConnected (search (min (k * 2 ^ j') (N - 1))) N) ∧
        o.found.tried = (List.range (j + 1)).map fun j' => min (k * 2 ^ j') (N - 1)) ∧
      -- 2. exact k'-NN lists
      (o.found.graph = search o.found.k ∧ o.found.graph.length = N ∧
        ∀ u (hu : u < o.found.graph.length), IsExactKnn δ (List.range N) o.found.k u o.found.graph[u]) ∧
      -- 3. the pencil handed to the solver
      (∃ hu : Uniform o.found.graph N o.found.k,
        (∀ i a, (o.found.graph[i.1]?).bind (·[a.1]?) = some (nbOf hu i a).1) ∧
        (o.L, o.D) = computeLaplacian heat (fun i j : Fin N => δ i.1 j.1) width (nbOf hu) ∧
        Mat.toM o.L = Matrix.diagonal o.D
          - (adj (nbOf hu) (fun i a => heat (-(δ i.1 (nbOf hu i a).1) ^ 2 / width))
            + (adj (nbOf hu) (fun i a => heat (-(δ i.1 (nbOf hu i a).1) ^ 2 / width)))ᵀ) ∧
        (∀ i, o.D i = ∑ j, (adj (nbOf hu) (fun i a => heat (-(δ i.1 (nbOf hu i a).1) ^ 2 / width))
            + (adj (nbOf hu) (fun i a => heat (-(δ i.1 (nbOf hu i a).1) ^ 2 / width)))ᵀ) i j) ∧
        (∀ i, 0 < o.D i) ∧ (Mat.toM o.L)ᵀ = Mat.toM o.L ∧ (Mat.toM o.L).mulVec (fun _ => 1) = 0 ∧
        ∀ x : Fin N → K, 0 ≤ x ⬝ᵥ ((Mat.toM o.L).mulVec x)) ∧
      -- 4. the solver and the returned coordinates
      ((o.V, o.lam) = solver o.L o.D ∧ o.Y = cols (Mat.toM o.V) (shiftIdx 1 hd) ∧
        ∀ κ : K, κ ≠ 0 → GenEigSystem (Mat.toM o.L) (Matrix.diagonal o.D) (Mat.toM o.V) o.lam →
          (∀ i, o.V i ⟨0, by omega⟩ = κ) →
          (∀ c, (Mat.toM o.L).mulVec (fun i => o.Y i c)
              = o.lam (shiftIdx 1 hd c) • (Matrix.diagonal o.D).mulVec (fun i => o.Y i c)) ∧
          (Mat.toM o.Y)ᵀ * Matrix.diagonal o.D * Mat.toM o.Y = 1 ∧
          (∀ c, ∑ i, o.D i * o.Y i c = 0) ∧
          Matrix.trace ((Mat.toM o.Y)ᵀ * Mat.toM o.L * Mat.toM o.Y) = ∑ c, o.lam (shiftIdx 1 hd c) ∧
          ∀ Z : Matrix (Fin N) (Fin d) K, Zᵀ * Matrix.diagonal o.D * Z = 1 → (∀ c, ∑ i, o.D i * Z i c = 0) →
            Matrix.trace ((Mat.toM o.Y)ᵀ * Mat.toM o.L * Mat.toM o.Y) ≤ Matrix.trace (Zᵀ * Mat.toM o.L * Z)) := by
  obtain ⟨f, hf⟩ := findNeighbors_terminates δ search hN hk hlen hexact
  obtain ⟨j, hkj, hgraph, hsc, hmin, htried⟩ := k_raised_only_if_needed search hN _ k f hf
  have hk'le : f.k ≤ N - 1 := by rw [hkj]; exact Nat.min_le_right _ _
  have hex' : ∀ u (hu : u < f.graph.length), IsExactKnn δ (List.range N) f.k u f.graph[u] := by
    rw [hgraph]; exact hexact _ hk'le
  have hglen : f.graph.length = N := by rw [hgraph]; exact hlen _
  have huni : Uniform f.graph N f.k := uniform_of_exact hglen hex'
  have hkpos : 0 < f.k := by
    rw [hkj]; exact Nat.lt_min.2 ⟨Nat.mul_pos (by omega) (Nat.pow_pos (by omega)), by omega⟩
  set hfun : Mat N f.k K := fun i a => heat (-(δ i.1 (nbOf huni i a).1) ^ 2 / width) with hhfun
  have hLD := C09.computeLaplacian_eq heat (fun i j : Fin N => δ i.1 j.1) width (nbOf huni)
  refine ⟨{ found := f, L := (computeLaplacian heat (fun i j : Fin N => δ i.1 j.1) width (nbOf huni)).1,
            D := (computeLaplacian heat (fun i j : Fin N => δ i.1 j.1) width (nbOf huni)).2,
            V := (solver (computeLaplacian heat (fun i j : Fin N => δ i.1 j.1) width (nbOf huni)).1
                    (computeLaplacian heat (fun i j : Fin N => δ i.1 j.1) width (nbOf huni)).2).1,
            lam := (solver (computeLaplacian heat (fun i j : Fin N => δ i.1 j.1) width (nbOf huni)).1
                    (computeLaplacian heat (fun i j : Fin N => δ i.1 j.1) width (nbOf huni)).2).2,
            Y := cols (solver (computeLaplacian heat (fun i j : Fin N => δ i.1 j.1) width (nbOf huni)).1
                    (computeLaplacian heat (fun i j : Fin N => δ i.1 j.1) width (nbOf huni)).2).1 (shiftIdx 1 hd) },
          ?_, ?_, ?_, ?_, ?_⟩
  · unfold leEmbedModel
    simp only [hf, huni, dite_true]
  · exact ⟨j, hkj, by rw [hkj]; exact Nat.le_min.2 ⟨Nat.le_mul_of_pos_right k (Nat.pow_pos (by omega)), hkN⟩,
      hsc, hmin, htried⟩
  · exact ⟨hgraph, hglen, hex'⟩
  · refine ⟨huni, nbOf_spec huni, rfl, ?_⟩
    simp only [hLD]
    exact ⟨C09.laplacian_eq _ _, C09.degrees_eq _ _,
      C09.degrees_pos _ _ hkpos (fun i a => hheat _), C09.laplacian_symm _ _, C09.laplacian_mulVec_one _ _,
      C09.laplacian_psd _ _ (fun i a => (hheat _).le)⟩
  · refine ⟨rfl, rfl, ?_⟩
    intro κ hκ hsys hconst
    exact C09.le_solution _ _ _ _ hsys hd κ hκ hconst

end TapkeeVerif.LeCompose
