import TapkeeVerif.Model.Params
import TapkeeVerif.Model.Chain
/-! Property C13 (work in progress: the full theorem list follows). -/
namespace TapkeeVerif.C13
open TapkeeVerif.Front TapkeeVerif.Gen TapkeeVerif.Params

/-- Manifold Sculpting mentions the distance callback, which its traits do not declare (finding F-MS-TRAITS) -/
theorem uses_only_declared_refuted :
    ¬ ∀ m : Meth, ∀ c ∈ callbacksMentioned m, c ∈ declaredNeeds m := by
  intro h
  exact absurd (h .ManifoldSculpting .distance (by decide)) (by decide)

end TapkeeVerif.C13
