import TapkeeVerif.Proofs.ParamsBridge
import TapkeeVerif.Model.Chain
import TapkeeVerif.Proofs.ChainStored
/-!
# Property C13 — the result depends on the data only through callback values, however supplied

* the chain interface (`Model/Chain.lean`, transcribed class by class from chain_interface.hpp) hands `tapkee::embed`
  the same parameters and callbacks whatever the order of attachment;
* a chain state is a *value*: kept in a variable, copied, its original destroyed, finished or extended more than once,
  built from temporaries that are gone when the chain is finished - every finished chain hands `tapkee::embed` what the
  one-expression chain of the same parameters and attachments hands it (`stored_states_are_values`,
  `stored_result_depends_only_on_given`); that the C++ classes behave like the value model (i.e. *own* what they were
  given) is established by the stored-state forms of `c13_forms.cpp` (`-DPART=4`, and the `p*` forms of part 1);
* framing lemmas (plain function extensionality, true of any function): a call is a function of the callbacks *as
  functions*, so two call forms whose callbacks return the same values are the same call; that the code behaves so is
  established by the correspondence harnesses `c13_forms.cpp` / `c13_callbacks.cpp` only;
* declared versus used callbacks, over the regenerated tables `Gen.embedBody` / `Meth.traits`.
-/
namespace TapkeeVerif.C13
open TapkeeVerif.Front TapkeeVerif.Gen TapkeeVerif.Params TapkeeVerif.Chain TapkeeVerif.C14

/-! ## order of attachment -/

section Chain
variable {π κ δ φ : Type}

/-- two consecutive attachments commute, from every state class (by cases on the state machine) -/
theorem step_swap (s : State π κ δ φ) (a b : Op κ δ φ) (l : List (Op κ δ φ)) :
    run s (a :: b :: l) = run s (b :: a :: l) := by
  cases s <;> cases a <;> cases b <;> rfl

theorem run_perm {l l' : List (Op κ δ φ)} (h : l.Perm l') : ∀ s : State π κ δ φ, run s l = run s l' := by
  induction h with
  | nil => intro s; rfl
  | cons x _ ih =>
    intro s
    simp only [run]
    cases step s x with
    | none => rfl
    | some s' => exact ih s'
  | swap x y l => intro s; exact step_swap s y x l
  | trans _ _ ih1 ih2 => intro s; rw [ih1 s, ih2 s]

/-- **Order of attachment is irrelevant.**  For every list of `withKernel / withDistance / withFeatures` calls and every
    reordering of it, `tapkee::embed` receives the same parameters and the same three callbacks (or neither chain
    compiles).  This covers all 6 orders of three callbacks, both orders of two, and every partial chain. -/
theorem chain_order_irrelevant (p : π) (ops ops' : List (Op κ δ φ)) (h : ops.Perm ops') :
    chain p ops = chain p ops' := by
  simp only [chain, run_perm h]

/-- each callback ends up in its own slot; missing ones are dummies -/
theorem chain_slots (p : π) (k : κ) (d : δ) (f : φ) :
    chain p [.withKernel k, .withDistance d, .withFeatures f] = some ⟨p, some k, some d, some f⟩ ∧
    chain p [(.withDistance d : Op κ δ φ), .withFeatures f] = some ⟨p, none, some d, some f⟩ ∧
    chain p [(.withKernel k : Op κ δ φ), .withFeatures f] = some ⟨p, some k, none, some f⟩ ∧
    chain p [(.withKernel k : Op κ δ φ), .withDistance d] = some ⟨p, some k, some d, none⟩ ∧
    chain p [(.withKernel k : Op κ δ φ)] = some ⟨p, some k, none, none⟩ ∧
    chain p [(.withDistance d : Op κ δ φ)] = some ⟨p, none, some d, none⟩ ∧
    chain p [(.withFeatures f : Op κ δ φ)] = some ⟨p, none, none, some f⟩ :=
  ⟨rfl, rfl, rfl, rfl, rfl, rfl, rfl⟩

/-- e.g. all six orders of three callbacks -/
example (p : π) (k : κ) (d : δ) (f : φ) :
    chain p [.withFeatures f, .withDistance d, .withKernel k] = some ⟨p, some k, some d, some f⟩ := by
  rw [chain_order_irrelevant p _ [.withKernel k, .withDistance d, .withFeatures f]]
  · exact (chain_slots p k d f).1
  · exact (List.Perm.swap _ _ _).trans ((List.Perm.cons _ (List.Perm.swap _ _ _)).trans (List.Perm.swap _ _ _))

/-- which callbacks a state class already stores: 0 kernel, 1 distance, 2 features -/
def attached : State π κ δ φ → List Nat
  | .P _ => [] | .K _ _ => [0] | .D _ _ => [1] | .F _ _ => [2]
  | .KD _ _ _ => [0, 1] | .KF _ _ _ => [0, 2] | .DF _ _ _ => [1, 2] | .KDF _ _ _ _ => [0, 1, 2]

theorem step_attached (s s' : State π κ δ φ) (o : Op κ δ φ) (h : step s o = some s') :
    o.kind ∉ attached s ∧ ∀ n, n ∈ attached s → n ∈ attached s' := by
  cases s <;> cases o <;> simp [step] at h <;> subst h <;> simp [attached, Op.kind]

theorem step_attached_self (s s' : State π κ δ φ) (o : Op κ δ φ) (h : step s o = some s') :
    o.kind ∈ attached s' := by
  cases s <;> cases o <;> simp [step] at h <;> subst h <;> simp [attached, Op.kind]

theorem run_nodup (l : List (Op κ δ φ)) : ∀ (s s' : State π κ δ φ), run s l = some s' →
    (l.map Op.kind).Nodup ∧ ∀ o ∈ l, o.kind ∉ attached s := by
  induction l with
  | nil => intro s s' _; simp
  | cons o t ih =>
    intro s s' h
    simp only [run] at h
    cases hst : step s o with
    | none => simp [hst] at h
    | some s1 =>
      simp only [hst] at h
      obtain ⟨hnd, hall⟩ := ih s1 s' h
      obtain ⟨hnot, hsub⟩ := step_attached s s1 o hst
      refine ⟨?_, ?_⟩
      · simp only [List.map_cons, List.nodup_cons]
        refine ⟨?_, hnd⟩
        intro hmem
        obtain ⟨o', ho', hk⟩ := List.mem_map.mp hmem
        exact hall o' ho' (hk ▸ step_attached_self s s1 o hst)
      · intro o' ho'
        rcases List.mem_cons.mp ho' with h1 | h1
        · rw [h1]; exact hnot
        · exact fun hin => hall o' h1 (hsub _ hin)

/-- a callback cannot be attached twice (the member function does not exist in the state reached) -/
theorem chain_no_repeat (p : π) (ops : List (Op κ δ φ)) (c : Call π κ δ φ) (h : chain p ops = some c) :
    (ops.map Op.kind).Nodup := by
  cases hr : run (State.P p) ops with
  | none => simp [chain, hr] at h
  | some s => exact (run_nodup ops _ s hr).1

/-! ## states kept in variables -/

/-- **A chain state is a value.**  Run any program of `auto v = with(p)`, `auto w = v.withX(cb)`, `auto w = v`,
    destruction of a variable, unrelated code, `v.embedRange(..)` / `v.embedUsing(..)` (any number of times, from any
    variable) through the state classes; if it is well defined (no use of a destroyed variable, no missing member), then
    the bookkeeping that only records *what each variable was given* (parameters, list of attachments) is defined as well
    and every finished chain hands `tapkee::embed` exactly what the one-expression chain
    `with(p).op₁.….opₙ.embedRange(..)` of the parameters and attachments given to the finished variable hands it. -/
theorem stored_states_are_values (prog : List (Stmt π κ δ φ)) (outs : List (Call π κ δ φ)) (h : exec prog = some outs) :
    ∃ gs, given prog = some gs ∧ outs.map some = gs.map (fun g => chain g.1 g.2) := by
  simp only [exec] at h
  cases hr : execFrom stateSem Env.empty [] prog with
  | none => simp [hr] at h
  | some r =>
    obtain ⟨e', outs'⟩ := r
    simp only [hr, Option.map_some, Option.some.injEq] at h
    subst h
    obtain ⟨g', gs', hg, -, ho⟩ := execFrom_sim prog Env.empty e' Env.empty [] outs' [] envRel_empty rfl hr
    exact ⟨gs', by simp only [given, hg, Option.map_some], ho⟩

/-- **The result depends only on the parameters and the multiset of attachments**, not on when or how states were
    stored or copied, on what was destroyed in between, or on how many times a state was finished: if the `i`-th finished
    chain of one well-defined program and the `j`-th of another were given the same parameters and the same attachments
    up to order, `tapkee::embed` receives the same call in both (and does receive one). -/
theorem stored_result_depends_only_on_given (prog₁ prog₂ : List (Stmt π κ δ φ)) (outs₁ outs₂ : List (Call π κ δ φ))
    (gs₁ gs₂ : List (π × List (Op κ δ φ))) (h₁ : exec prog₁ = some outs₁) (h₂ : exec prog₂ = some outs₂)
    (hg₁ : given prog₁ = some gs₁) (hg₂ : given prog₂ = some gs₂) (i j : Nat) (p : π) (ops₁ ops₂ : List (Op κ δ φ))
    (hi : gs₁[i]? = some (p, ops₁)) (hj : gs₂[j]? = some (p, ops₂)) (hperm : ops₁.Perm ops₂) :
    outs₁[i]? = outs₂[j]? ∧ ∃ c, outs₁[i]? = some c ∧ chain p ops₁ = some c := by
  obtain ⟨gs₁', hg₁', hm₁⟩ := stored_states_are_values prog₁ outs₁ h₁
  obtain ⟨gs₂', hg₂', hm₂⟩ := stored_states_are_values prog₂ outs₂ h₂
  rw [hg₁, Option.some.injEq] at hg₁'
  rw [hg₂, Option.some.injEq] at hg₂'
  subst hg₁' hg₂'
  have e₁ : (outs₁[i]?).map some = some (chain p ops₁) := by
    have := congrArg (·[i]?) hm₁
    simpa only [List.getElem?_map, hi, Option.map_some] using this
  have e₂ : (outs₂[j]?).map some = some (chain p ops₂) := by
    have := congrArg (·[j]?) hm₂
    simpa only [List.getElem?_map, hj, Option.map_some] using this
  rw [← chain_order_irrelevant p ops₁ ops₂ hperm] at e₂
  cases ho₁ : outs₁[i]? with
  | none => simp [ho₁] at e₁
  | some c =>
    cases ho₂ : outs₂[j]? with
    | none => simp [ho₂] at e₂
    | some c' =>
      simp only [ho₁, Option.map_some, Option.some.injEq] at e₁
      simp only [ho₂, Option.map_some, Option.some.injEq] at e₂
      refine ⟨?_, c, rfl, e₁.symm⟩
      have := e₁.trans e₂.symm
      simpa only [Option.some.injEq] using this

/-- non-vacuity: the one-expression chain `with(p).withKernel(7).withFeatures(9).embedRange(..)` against a program that
    copies `with(p)`, destroys the original, attaches in the other order through a copied-and-destroyed intermediate
    state, extends that state a second time and finishes one final state twice and the other once -/
example :
    let one : List (Stmt Unit Nat Nat Nat) := [.start 0 (), .attach 0 1 (.withKernel 7), .attach 1 2 (.withFeatures 9), .finish 2]
    let multi : List (Stmt Unit Nat Nat Nat) :=
      [.start 0 (), .copy 0 5, .destroy 0, .scribble, .attach 5 1 (.withFeatures 9), .copy 1 6, .destroy 1, .scribble,
       .attach 6 2 (.withKernel 7), .attach 6 3 (.withKernel 7), .scribble, .finish 2, .finish 2, .finish 3]
    exec one = some [⟨(), some 7, none, some 9⟩] ∧
    exec multi = some [⟨(), some 7, none, some 9⟩, ⟨(), some 7, none, some 9⟩, ⟨(), some 7, none, some 9⟩] ∧
    given one = some [((), [.withKernel 7, .withFeatures 9])] ∧
    given multi = some [((), [.withFeatures 9, .withKernel 7]), ((), [.withFeatures 9, .withKernel 7]),
                        ((), [.withFeatures 9, .withKernel 7])] ∧
    -- a destroyed variable cannot be used, a callback cannot be attached twice, `with(p)` has no embedRange
    exec ([.start 0 (), .copy 0 5, .destroy 0, .attach 0 1 (.withKernel 7), .finish 1] : List (Stmt Unit Nat Nat Nat)) = none ∧
    exec ([.start 0 (), .attach 0 1 (.withKernel 7), .attach 1 2 (.withKernel 8), .finish 2] : List (Stmt Unit Nat Nat Nat)) = none ∧
    exec ([.start 0 (), .finish 0] : List (Stmt Unit Nat Nat Nat)) = none ∧
    exec ([.start 0 (), .scribble, .finishMatrix 0 1 2 3, .finishMatrix 0 1 2 3] : List (Stmt Unit Nat Nat Nat)) =
      some [embedMatrix () 1 2 3, embedMatrix () 1 2 3] := by
  intro one multi
  refine ⟨rfl, rfl, rfl, rfl, rfl, rfl, rfl, rfl⟩

end Chain

/-! ## callbacks as functions -/

/-- **Extensionality in the callbacks (a framing lemma: plain function extensionality).**  It holds of *any* Lean
    function `E` and therefore says nothing about tapkee by itself; what it records is the shape of the claim.  That the
    real `tapkee::embed` behaves like such an `E` - i.e. that matrix / index+callback / precomputed / object-sequence
    inputs with equal callback values give the same embedding - is established only by the differential run
    (harness/c13_forms.cpp, c13_callbacks.cpp), on every check run.  Whatever `tapkee::embed` computes from a call (`E` below is *any* function of
    the parameters and the three callbacks, the callbacks being functions of sample positions), two calls whose
    callbacks return the same values on all samples give the same result.  The four call forms of the property are
    instances (below): they differ only in how the values are produced. -/
theorem callbacks_extensional {π K β : Type} {N D : Nat} (E : Call π (Fin N → Fin N → K) (Fin N → Fin N → K) (Fin N → Fin D → K) → β)
    (p : π) (κ κ' δ δ' : Fin N → Fin N → K) (ϕ ϕ' : Fin N → Fin D → K)
    (hk : ∀ i j, κ i j = κ' i j) (hd : ∀ i j, δ i j = δ' i j) (hf : ∀ i a, ϕ i a = ϕ' i a) :
    E ⟨p, some κ, some δ, some ϕ⟩ = E ⟨p, some κ', some δ', some ϕ'⟩ := by
  have h1 : κ = κ' := funext fun i => funext fun j => hk i j
  have h2 : δ = δ' := funext fun i => funext fun j => hd i j
  have h3 : ϕ = ϕ' := funext fun i => funext fun a => hf i a
  rw [h1, h2, h3]

/-- (framing lemma, instance of function extensionality; content for the code = the differential run)
    a sequence of arbitrary objects with callbacks on objects induces callbacks on positions; `embedRange` over the
    objects is the call with the induced callbacks, so it equals the index form whenever the values agree -/
theorem object_sequence_form {π K β Obj : Type} {N D : Nat}
    (E : Call π (Fin N → Fin N → K) (Fin N → Fin N → K) (Fin N → Fin D → K) → β) (p : π)
    (objs : Fin N → Obj) (kO dO : Obj → Obj → K) (fO : Obj → Fin D → K)
    (κ δ : Fin N → Fin N → K) (ϕ : Fin N → Fin D → K)
    (hk : ∀ i j, kO (objs i) (objs j) = κ i j) (hd : ∀ i j, dO (objs i) (objs j) = δ i j)
    (hf : ∀ i a, fO (objs i) a = ϕ i a) :
    E ⟨p, some (fun i j => kO (objs i) (objs j)), some (fun i j => dO (objs i) (objs j)), some (fun i => fO (objs i))⟩ =
      E ⟨p, some κ, some δ, some ϕ⟩ :=
  callbacks_extensional E p _ _ _ _ _ _ hk hd hf

/-- (framing lemma, instance of function extensionality; content for the code = the differential run)
    precomputed matrices: looking the values up is the same call as computing them -/
theorem precomputed_form {π K β : Type} {N D : Nat}
    (E : Call π (Fin N → Fin N → K) (Fin N → Fin N → K) (Fin N → Fin D → K) → β) (p : π)
    (κ δ : Fin N → Fin N → K) (ϕ : Fin N → Fin D → K) (Kmat Dmat : Fin N → Fin N → K)
    (hk : ∀ i j, Kmat i j = κ i j) (hd : ∀ i j, Dmat i j = δ i j) :
    E ⟨p, some (fun i j => Kmat i j), some (fun i j => Dmat i j), some ϕ⟩ = E ⟨p, some κ, some δ, some ϕ⟩ :=
  callbacks_extensional E p _ _ _ _ _ _ hk hd (fun _ _ => rfl)

/-- `embedUsing(matrix)` is the index form with the three eigen callbacks, attached in any order -/
theorem matrix_form_eq_chain {π κ δ φ : Type} (p : π) (ek : κ) (ed : δ) (ef : φ) (ops : List (Op κ δ φ))
    (h : ops.Perm [.withKernel ek, .withDistance ed, .withFeatures ef]) :
    chain p ops = some (embedMatrix p ek ed ef) := by
  rw [chain_order_irrelevant p ops _ h]; rfl

/-! ## declared and used callbacks -/

/-- **A method's `embed()` mentions only callbacks its traits declare** (member mentions `kernel`, `kernel_distance` →
    kernel; `distance`, `plain_distance` → distance; `features`, `features.dimension()` → features), over the tables
    regenerated from methods/*.hpp and defines/methods.hpp.  Over-declaration (SPE declares features and never uses
    them) is allowed.  (Before repository commit 4cb36d9 this was false for Manifold Sculpting: finding F-MS-TRAITS,
    witness kept in corpus/C14/f-ms-traits.case.) -/
theorem uses_only_declared : ∀ m : Meth, ∀ c ∈ callbacksMentioned m, c ∈ declaredNeeds m := by
  intro m; cases m <;> decide

/-- **Supplying the declared callbacks is sufficient.**  For every method, every N, all well-typed values, both harness
    modes: with the callbacks the method declares to need supplied (the others may be dummies) the front end never
    answers `unsupported_method_error` - neither from the `needs_*` checks nor from a dummy callback inside `embed()`. -/
theorem declared_suffices (r : Request) (m : Meth) (hn : (r.kws.map Param.kw).Nodup) (ht : WellTyped r)
    (hm : (⟨.method, .method m⟩ : Param) ∈ r.kws) (hs : DeclaredSupplied m r) :
    (frontEnd r).outcome ≠ .threw (errT .unsupported_method_error) := by
  have htyped := merged_typed r (wellTyped_defaults r ht) ⟨m, lookup_method r hn m hm⟩
  have hmeth : (typedOf (merged r).pmap).meth .method = m := by
    have h := lookup_method r hn m hm
    simp [typedOf, h]
  obtain ⟨-, -, h3, h4⟩ := verdict m r (typedOf (merged r).pmap) (merged r) (typedOf_get (merged r) htyped) hmeth
  have hall : ∀ c ∈ callbacksMentioned m, r.has c = true := by
    intro c hc
    have hd := uses_only_declared m c hc
    simp only [declaredNeeds, List.mem_filter] at hd
    obtain ⟨hs1, hs2, hs3⟩ := hs
    cases c <;> simp only [Traits.needs] at hd <;> simp [Request.has, hs1, hs2, hs3, hd.2]
  have h3 := h3 hs hall
  rw [frontEnd_eq r hn (wellTyped_defaults r ht)]
  generalize afterMerge r (merged r) = x at h3 h4 ⊢
  obtain ⟨a, c⟩ := x
  cases a with
  | ok s => simp [finish]
  | error s =>
    cases s with
    | reached cb => simp [finish]
    | threw e =>
      intro hcontra
      simp only [finish, Outcome.threw.injEq] at hcontra
      rcases h4 e rfl with rfl | rfl | rfl | rfl
      · revert hcontra; decide
      · revert hcontra; decide
      · revert hcontra; decide
      · exact h3 rfl

/-- non-vacuity: Manifold Sculpting with exactly its declared callbacks (distance, features) on 10 samples -/
example : (frontEnd ⟨10, [⟨.method, .method .ManifoldSculpting⟩], false, true, true, false, 10⟩).outcome = .ok := by
  decide +kernel

/-- conversely, a missing declared callback is always answered by `unsupported_method_error` before anything is
    computed (statement shared with C14: `C14.callbacks_before_validate`) -/
theorem missing_declared_rejected (r : Request) (m : Meth) (hn : (r.kws.map Param.kw).Nodup) (ht : WellTyped r)
    (hm : (⟨.method, .method m⟩ : Param) ∈ r.kws) (h0 : r.n ≠ 0)
    (hd : 1 ≤ numOf (merged r) .target_dimension ∧ numOf (merged r) .target_dimension < r.n)
    (hc : lookup .cancel_function (merged r).pmap ≠ some (.cancelFn (some true)))
    (hs : ¬ DeclaredSupplied m r) :
    frontEnd r = ⟨.threw (errT .unsupported_method_error), Counts.zero⟩ := by
  have htyped := merged_typed r (wellTyped_defaults r ht) ⟨m, lookup_method r hn m hm⟩
  have hnum := typedOf_num (merged r) htyped .target_dimension
  simp only [TypedVals.num, Kw.ty] at hnum
  rw [← hnum] at hd
  have hm' : (typedOf (merged r).pmap).meth .method = m := by simp [typedOf, lookup_method r hn m hm]
  have hc' : (typedOf (merged r).pmap).cancel .cancel_function ≠ some true := by
    obtain ⟨v, hv, hty⟩ := htyped .cancel_function
    cases v <;> simp [Val.ty, Kw.ty] at hty
    rename_i c
    simp only [typedOf, hv]
    intro hcc; subst hcc; exact hc hv
  rw [← hm'] at hs
  rw [frontEnd_eq r hn (wellTyped_defaults r ht),
    prefix_callbacks r _ _ (typedOf_get (merged r) htyped) h0 hd hc' hs]; decide

end TapkeeVerif.C13
