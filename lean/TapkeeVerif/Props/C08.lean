import TapkeeVerif.Model.LocallyLinear
/-! C08 property theorems (skeleton; filled in below as the proofs land). -/
namespace TapkeeVerif.C08
open TapkeeVerif.LocallyLinear

/-- F-HLLE-CT, Lean witness: at `d = 3` the generated `ct` recurrence writes column 12 of a 10-column matrix. -/
theorem hlle_cols_d3_out_of_range : hlleIndexErr 3 = some (.oob 12 10) := by decide

end TapkeeVerif.C08
