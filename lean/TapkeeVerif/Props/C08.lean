import Mathlib.Tactic.NormNum.Basic
import Mathlib.Tactic.FinCases
import Mathlib.Data.Fin.VecNotation
import Mathlib.Algebra.Order.Field.Rat
import TapkeeVerif.Model.LocallyLinear
import TapkeeVerif.Proofs.LocallyLinear
import TapkeeVerif.Proofs.LocallyLinearHlle
import TapkeeVerif.Proofs.LocallyLinearHlleMat
import TapkeeVerif.Proofs.LocallyLinearPsd
import TapkeeVerif.Proofs.SpectralLocal
import Mathlib.LinearAlgebra.Matrix.Notation
import Mathlib.Tactic.NormNum
import TapkeeVerif.Proofs.CertGenSound
import TapkeeVerif.Proofs.LocallyLinearFlatExact
import TapkeeVerif.Proofs.LocallyLinearFlatHlle
import TapkeeVerif.Proofs.LocallyLinearFlatHlleExact
import TapkeeVerif.Proofs.Inertia
import TapkeeVerif.Proofs.Triplets
/-!
C08 property theorems: the sparse matrices assembled by `routines/locally_linear.hpp`
(`linear_weight_matrix`, `tangent_weight_matrix`, `hessian_weight_matrix`) in closed matrix form.
Helper lemmas: `Proofs/LocallyLinear.lean`, `Proofs/LocallyLinearHlle.lean`, `Proofs/Triplets.lean`.
Flat-manifold clause ("every LTSA and HLLE column is an affine function of the intrinsic coordinates"):
`Proofs/LocallyLinearFlat.lean` (rank bridge → local span), `…FlatLtsa.lean` (flat data, `centerMatrix` of a Gram matrix,
`hflat` / `horth` from the local eigensolver contract), `…FlatGlue.lean` (gluing over overlapping neighbourhoods, multiplicity
of the bottom eigenvalue), `…FlatExact.lean` (LTSA null space exactly affine), `…FlatHlle.lean` (Gram–Schmidt contract through
the column-sum and `rightCols` steps), `…FlatHlleExact.lean` (HLLE exactness at `k = 1 + d + dp`).
-/
namespace TapkeeVerif.C08
open TapkeeVerif TapkeeVerif.LocallyLinear Matrix

variable {K : Type} [Field K] {N k d : Nat}

/-! ## 1. `linear_weight_matrix` (KLLE / NPE) -/

/-- The assembled LLE matrix is `(I − W)ᵀ(I − W) + shift·I`, for ALL neighbour lists (duplicates and
    self-neighbours allowed) and all solver results `wraw`. -/
theorem lle_M_eq (nb : Fin N → Fin k → Fin N) (wraw : Fin N → Vec k K) (shift : K) :
    Mat.toM (lleM nb wraw shift)
      = (1 - lleW nb (fun i => lleWeights (wraw i)))ᵀ * (1 - lleW nb (fun i => lleWeights (wraw i)))
        + shift • (1 : Matrix (Fin N) (Fin N) K) :=
  lleM_toM nb wraw shift

/-- the accumulating (`+=`) form the driver runs is the same matrix -/
theorem lleMD_get (nb : Fin N → Fin k → Fin N) (wraw : Fin N → Vec k K) (shift : K) :
    (lleMD nb wraw shift).get = lleM nb wraw shift :=
  fromTripletsD_get _

/-- after `weights /= weights.sum()` every row of `W` sums to one (whenever the raw sum is non-zero) -/
theorem lle_rows_sum_one (nb : Fin N → Fin k → Fin N) (wraw : Fin N → Vec k K) (i : Fin N)
    (h : sumFin k (wraw i) ≠ 0) :
    ∑ j, lleW nb (fun i => lleWeights (wraw i)) i j = 1 := by
  simp only [lleW_apply]
  rw [lleRow_sum, lleWeights_sum _ h]

/-- non-vacuity: raw weights `(1,2,3)` over ℚ (sum 6), neighbour list with a duplicate and a self-neighbour -/
example : sumFin 3 (fun a : Fin 3 => ((a.1 : ℚ) + 1)) ≠ 0 := by
  simp [sumFin_eq_sum, Fin.sum_univ_succ]
  norm_num

example (i : Fin 2) :
    ∑ j, lleW (fun (_ : Fin 2) (a : Fin 3) => (⟨a.1 % 2, by omega⟩ : Fin 2))
      (fun i => lleWeights ((fun _ (a : Fin 3) => ((a.1 : ℚ) + 1)) i)) i j = 1 :=
  lle_rows_sum_one _ _ i (by simp [sumFin_eq_sum, Fin.sum_univ_succ]; norm_num)

/-- the constant vector is an eigenvector of the LLE matrix with eigenvalue `shift` -/
theorem lle_const_eigvec (nb : Fin N → Fin k → Fin N) (wraw : Fin N → Vec k K) (shift : K)
    (h : ∀ i, sumFin k (wraw i) ≠ 0) :
    (Mat.toM (lleM nb wraw shift)).mulVec (fun _ => 1) = fun _ => shift := by
  have hW : (1 - lleW nb (fun i => lleWeights (wraw i))).mulVec (fun _ => (1 : K)) = 0 := by
    funext i
    rw [Matrix.sub_mulVec, Matrix.one_mulVec, Pi.sub_apply, Pi.zero_apply]
    simp only [Matrix.mulVec, dotProduct, mul_one]
    rw [lle_rows_sum_one nb wraw i (h i), sub_self]
  rw [lle_M_eq, Matrix.add_mulVec, ← Matrix.mulVec_mulVec, hW, Matrix.mulVec_zero, zero_add,
    Matrix.smul_mulVec, Matrix.one_mulVec]
  funext i
  simp

example : ∀ i : Fin 2, sumFin 3 ((fun _ (a : Fin 3) => ((a.1 : ℚ) + 1)) i) ≠ 0 := by
  intro i
  simp [sumFin_eq_sum, Fin.sum_univ_succ]
  norm_num

/-- the matrix `ldlt()` factorises is symmetric (it is read through `selfadjointView<Upper>`) -/
theorem lle_system_symm (κ : Mat N N K) (i : Fin N) (nb : Fin k → Fin N) (tshift : K) (a b : Fin k) :
    lleSystem κ i nb tshift a b = lleSystem κ i nb tshift b a := by
  rw [lleSystem_apply, lleSystem_apply]
  simp only [Mat.upperView]
  by_cases h1 : a ≤ b <;> by_cases h2 : b ≤ a
  · have : a = b := Fin.ext (by omega)
    subst this
    rfl
  · simp [h1, h2]
  · simp [h1, h2]
  · omega

/-- … its upper triangle is the local Gram matrix as written, plus `trace_shift · trace` on the diagonal -/
theorem lle_system_eq (κ : Mat N N K) (i : Fin N) (nb : Fin k → Fin N) (tshift : K) (a b : Fin k) (h : a ≤ b) :
    lleSystem κ i nb tshift a b
      = κ i i - κ i (nb a) - κ i (nb b) + κ (nb a) (nb b)
        + (if a = b then tshift * ∑ c, (κ i i - κ i (nb c) - κ i (nb c) + κ (nb c) (nb c)) else 0) := by
  rw [lleSystem_apply, lleLocalGram_trace]
  simp only [Mat.upperView, if_pos h, addDiag, lleLocalGram]
  split_ifs <;> simp

example : (0 : Fin 2) ≤ 1 := by decide

/-! ## 2. `tangent_weight_matrix` (KLTSA / LLTSA) -/

/-- The assembled alignment matrix is `Σ_i S_i (I − P_i) S_iᵀ + shift·I` with `S_i` the selection matrix of the
    neighbour list of sample `i` — for ALL neighbour lists (duplicates allowed) and all local bases `U`. -/
theorem ltsa_M_eq (nb : Fin N → Fin k → Fin N) (rsk : K) (U : Fin N → Mat k d K) (shift : K) :
    Mat.toM (ltsaM nb rsk U shift)
      = (∑ i, S (nb i) * (1 - Mat.toM (ltsaProj rsk (U i))) * (S (nb i))ᵀ)
        + shift • (1 : Matrix (Fin N) (Fin N) K) :=
  ltsaM_toM nb rsk U shift

/-- the accumulating (`+=`) form the driver runs is the same matrix -/
theorem ltsaMD_get (nb : Fin N → Fin k → Fin N) (rsk : K) (U : Fin N → Mat k d K) (shift : K) :
    (ltsaMD nb rsk U shift).get = ltsaM nb rsk U shift :=
  fromTripletsD_get _

/-- `G Gᵀ` with `G = [1/√k | U]`, entry-wise -/
theorem ltsa_proj_eq (rsk : K) (U : Mat k d K) (a b : Fin k) :
    ltsaProj rsk U a b = rsk * rsk + ∑ c, U a c * U b c :=
  ltsaProj_apply rsk U a b

/-- If `rsk² · k = 1` and every column of every local basis sums to zero, the constant vector is in the null
    space of `M − shift·I`, i.e. it is an eigenvector of `M` with eigenvalue `shift`. -/
theorem ltsa_const_null (nb : Fin N → Fin k → Fin N) (rsk : K) (U : Fin N → Mat k d K) (shift : K)
    (h1 : rsk * rsk * (k : K) = 1) (hU : ∀ i c, ∑ a, U i a c = 0) :
    (Mat.toM (ltsaM nb rsk U shift) - shift • (1 : Matrix (Fin N) (Fin N) K)).mulVec (fun _ => 1) = 0 :=
  ltsa_null_of_local nb rsk U shift (fun _ => 1) fun s => ltsa_local_const rsk (U s) h1 (hU s)

/-- non-vacuity over ℚ: `k = 4`, `d = 1`, `rsk = 1/2`, `U = (1/2, −1/2, 1/2, −1/2)ᵀ` -/
example : ((1 / 2 : ℚ) * (1 / 2) * ((4 : Nat) : ℚ) = 1) ∧
    ∀ (_ : Fin 5) (c : Fin 1), ∑ a : Fin 4, (fun (a : Fin 4) (_ : Fin 1) => (![1 / 2, -1 / 2, 1 / 2, -1 / 2] a : ℚ)) a c = 0 := by
  refine ⟨by norm_num, fun _ _ => ?_⟩
  simp [Fin.sum_univ_succ]
  norm_num

/-- `utils/matrix.hpp: centerMatrix` as written -/
theorem centerMatrix_eq (A : Mat k k K) (i j : Fin k) :
    centerMatrix A i j
      = A i j + (∑ i', ∑ j', A i' j') / ((k * k : Nat) : K) - (∑ i', A i' j) / (k : K) - (∑ i', A i' i) / (k : K) :=
  centerMatrix_apply A i j

/-- for a symmetric input the rows of the centred matrix sum to zero (so eigenvectors of a non-zero eigenvalue
    have zero sum: the hypothesis `hU` of `ltsa_const_null`) -/
theorem centerMatrix_rows_sum_zero (A : Mat k k K) (hA : ∀ i j, A i j = A j i) (hk : (k : K) ≠ 0) (i : Fin k) :
    ∑ j, centerMatrix A i j = 0 :=
  centerMatrix_row_sum A hA hk i

example : (∀ i j : Fin 2, (fun (i j : Fin 2) => ((i.1 + j.1 : Nat) : ℚ)) i j = (fun (i j : Fin 2) => ((i.1 + j.1 : Nat) : ℚ)) j i)
    ∧ ((2 : Nat) : ℚ) ≠ 0 := by
  refine ⟨fun i j => ?_, by norm_num⟩
  simp [Nat.add_comm]

/- FULL STATEMENT (flat manifold, LTSA recovers the intrinsic coordinates): if the data are an affine image of
   intrinsic coordinates `T : Fin N → Fin d → K` and `U i` are the top-`d` eigenvectors of the centred local Gram
   matrix (contract `IsTopEig`, local rank exactly `d`), then the null space of `M − shift·I` is EXACTLY
   `span{1, T·₁, …, T·_d}`.
   NOW PROVED IN FULL in section "Flat manifold, LTSA" below: `flat_local_span` / `flat_local_orthonormal` derive `hflat` and
   `horth` from the local eigensolver contract on flat data (general position `AffSpan` stated explicitly),
   `ltsa_affine_in_nullspace` is the inclusion `⊇` from data-side hypotheses only, `ltsa_nullspace_exact` the equality under the
   overlap / connectivity / cover condition, `ltsa_columns_affine_on_flat` the property's sentence about the returned columns.
   The theorem below is the algebraic core (ANY field, hypotheses `hflat`, `horth` taken as given); it keeps its historical
   name `_partial` because on its own it is only the inclusion `⊇` under contract-level hypotheses. -/
theorem ltsa_affine_on_flat_partial (nb : Fin N → Fin k → Fin N) (rsk : K) (U : Fin N → Mat k d K) (shift : K)
    (T t0 : Fin N → Fin d → K) (C : Fin N → Fin d → Fin d → K)
    (hflat : ∀ i a c, T (nb i a) c = t0 i c + ∑ c', U i a c' * C i c' c)
    (horth : ∀ i, (Mat.toM (ltsaG rsk (U i)))ᵀ * Mat.toM (ltsaG rsk (U i)) = 1)
    (c : Fin d) :
    (Mat.toM (ltsaM nb rsk U shift) - shift • (1 : Matrix (Fin N) (Fin N) K)).mulVec (fun j => T j c) = 0 := by
  refine ltsa_null_of_local nb rsk U shift _ fun s => ?_
  simp only [hflat]
  exact ltsa_local_affine rsk (U s) (horth s) (t0 s c) (fun c' => C s c' c)

/-- non-vacuity over ℚ: four points on a line, every point sees all four, `T j = 3·u_j + 7` -/
example :
    let u : Fin 4 → ℚ := ![1 / 2, -1 / 2, 1 / 2, -1 / 2]
    let nb : Fin 4 → Fin 4 → Fin 4 := fun _ a => a
    let U : Fin 4 → Mat 4 1 ℚ := fun _ a _ => u a
    let T : Fin 4 → Fin 1 → ℚ := fun j _ => 3 * u j + 7
    (∀ i a c, T (nb i a) c = (fun _ _ => (7 : ℚ)) i c + ∑ c', U i a c' * (fun _ _ _ => (3 : ℚ)) i c' c)
    ∧ (∀ i, (Mat.toM (ltsaG (1 / 2 : ℚ) (U i)))ᵀ * Mat.toM (ltsaG (1 / 2 : ℚ) (U i)) = 1) := by
  intro u nb U T
  refine ⟨fun i a c => ?_, fun i => ?_⟩
  · simp only [T, U, nb, Finset.univ_unique, Finset.sum_singleton]
    ring
  · ext p q
    fin_cases p <;> fin_cases q <;>
      simp [Matrix.mul_apply, Fin.sum_univ_succ, ltsaG, U, u] <;> norm_num

/-! ## 3. `hessian_weight_matrix` (HLLE): column bookkeeping -/

/-- Regression witness for finding F-HLLE-CT (`corpus/C08/f-hlle-ct.case`), independent of the generated file:
    with the pre-fix recurrence `ct += ct + d - j` the columns written at `d = 3` are `[4,5,6,7,8,12]` — column 12 of a
    10-column matrix — so they are NOT the range `[4, 10)`. -/
theorem hlle_prefix_update_refuted :
    ¬ ((writesGoWith (fun ct d j => ct + (ct + d - j)) 3
        (Gen.HlleIndex.jHi 3 - Gen.HlleIndex.jLo).toNat Gen.HlleIndex.jLo Gen.HlleIndex.ctInit).map (·.1)).Perm
      ((List.range 6).map fun c => ((4 + c : Nat) : Int)) := by
  rw [prefix_update_writes_out_of_range]
  decide

/-- the model's write-list generator is the parametrised one at the generated `ct` update -/
theorem hlle_writes_eq_with (d : Nat) : hlleWritesGo d = writesGoWith Gen.HlleIndex.ctUpdate d :=
  hlleWritesGo_eq d

/-- with the repaired recurrence `ct += d - j` the written columns are exactly `[1+d, 1+d+d(d+1)/2)`, each once
    (in fact in increasing order), for EVERY `d` -/
theorem hlle_cols_bijective_of_update (d : Nat) :
    ((writesGoWith (fun ct d j => ct + (d - j)) d
        (Gen.HlleIndex.jHi d - Gen.HlleIndex.jLo).toNat Gen.HlleIndex.jLo Gen.HlleIndex.ctInit).map (·.1)).Perm
      ((List.range (d * (d + 1) / 2)).map fun c => ((1 + d + c : Nat) : Int)) := by
  have := writesGoWith_fixed_cols_all d
  unfold ctFixed at this
  rw [this]

/-- … hence `∀ d, ColsOK d` holds the moment the generated update is `ct + (d - j)` (one-token source fix) -/
theorem hlle_cols_bijective_fixed
    (hfix : ∀ ct d j, Gen.HlleIndex.ctUpdate ct d j = ct + (d - j)) : ∀ d, ColsOK d := by
  intro d
  have hupd : Gen.HlleIndex.ctUpdate = fun ct d j => ct + (d - j) := by
    funext ct d j
    exact hfix ct d j
  have := hlle_cols_bijective_of_update d
  rw [← hupd, ← hlleWritesGo_eq] at this
  exact this

/-- **Column bookkeeping of `hessian_weight_matrix`, full statement**: for every target dimension the product
    columns written are exactly `[1+d, 1+d+d(d+1)/2)`, each exactly once.
    History: before the fix (`ct += ct + target_dimension - j`) this statement was FALSE for every `d ≥ 3`; the witness
    `d = 3` wrote column 12 of a 10-column matrix (finding F-HLLE-CT, `corpus/C08/f-hlle-ct.case`,
    `hlle_prefix_update_refuted` above).  The source now reads `ct += target_dimension - j`. -/
theorem hlle_cols_bijective : ∀ d, ColsOK d :=
  hlle_cols_bijective_fixed (fun _ _ _ => rfl)

theorem hlleDp_eq (d : Nat) : hlleDp d = d * (d + 1) / 2 := LocallyLinear.hlleDp_eq d

theorem hlleCols_eq (d : Nat) : hlleCols d = 1 + d + d * (d + 1) / 2 := LocallyLinear.hlleCols_eq d

/-- **In-bounds obligation**: for EVERY `d` the index arithmetic reaches no `oob` / `clobber` / `uninit` state —
    every written column lies in `[1+d, hlleCols d)`, both source columns lie in `[1, d]`, and every column of
    `[1+d, hlleCols d)` is written. -/
theorem hlle_index_ok : ∀ d, hlleIndexErr d = none :=
  hlleIndexErr_none (fun _ _ _ => rfl)

/-- the three component facts, spelled out -/
theorem hlle_writes_in_range (d : Nat) : ∀ w ∈ hlleWrites d,
    (1 + (d : Int) ≤ w.1 ∧ w.1 < (hlleCols d : Int)) ∧
    (1 ≤ w.2.1 ∧ w.2.1 ≤ (d : Int) ∧ 1 ≤ w.2.2 ∧ w.2.2 ≤ (d : Int)) :=
  fun w hw => ⟨hlleWrites_col_range (fun _ _ _ => rfl) d w hw, hlleWrites_src_range (fun _ _ _ => rfl) d w hw⟩

theorem hlle_all_product_cols_written (d c : Nat) (h1 : 1 + d ≤ c) (h2 : c < hlleCols d) :
    ∃ w ∈ hlleWrites d, w.1 = (c : Int) :=
  hlleWrites_all_written (fun _ _ _ => rfl) d c h1 h2

example : 1 + 3 ≤ 9 ∧ 9 < hlleCols 3 := by decide

/-! ### which products are formed (pins `srcA`, `srcB`, `rightColsArg`, `tangentBlockCols`, `tangentRightCols`) -/

/-- `allPairs d` (hand-written, `Proofs/LocallyLinearHlle.lean`) is exactly the set of pairs `1 ≤ a ≤ b ≤ d` … -/
theorem hlle_allPairs_mem (d : Nat) (a b : Int) : (a, b) ∈ allPairs d ↔ 1 ≤ a ∧ a ≤ b ∧ b ≤ (d : Int) :=
  mem_allPairs d a b

/-- … each listed once -/
theorem hlle_allPairs_nodup (d : Nat) : (allPairs d).Nodup := allPairs_nodup d

/-- **The write list is the expected one, in program order**: the `c`-th pair `(a, b)` of `allPairs d` is written to
    column `1 + d + c` as `Yi.col(a) ∘ Yi.col(b)` (columns, sources and their pairing all pinned). -/
theorem hlle_writes_eq_expected : ∀ d, hlleWrites d = expectedWrites d :=
  hlleWrites_eq_expected (fun _ _ _ => rfl) (fun _ _ _ => rfl) (fun _ _ _ => rfl)

/-- **Pair coverage**: every product `u_a ∘ u_b` with `1 ≤ a ≤ b ≤ d` is formed exactly once (a mutation such as
    `Yi.col(j+1).cwiseProduct(Yi.col(p+1))` breaks this theorem). -/
theorem hlle_sources_cover_pairs : ∀ d, ((hlleWrites d).map (·.2)).Perm (allPairs d) := by
  intro d
  rw [hlleWrites_pairs (fun _ _ _ => rfl) (fun _ _ _ => rfl) (fun _ _ _ => rfl)]

example : allPairs 3 = [(1, 1), (1, 2), (1, 3), (2, 2), (2, 3), (3, 3)] := by decide

/-- `Yi.rightCols(dp)`: the Hessian estimator takes exactly the `dp` product columns -/
theorem hlle_rightCols_eq : ∀ d : Int, Gen.HlleIndex.rightColsArg d (Gen.HlleIndex.dpExpr d) = Gen.HlleIndex.dpExpr d :=
  fun _ => rfl

/-- `Yi.block(0, 1, k, d) = eigenvectors().rightCols(d)`: the tangent block has `d` columns on both sides -/
theorem hlle_tangent_block_eq : ∀ d : Int,
    Gen.HlleIndex.tangentBlockCols d = d ∧ Gen.HlleIndex.tangentRightCols d = d :=
  fun _ => ⟨rfl, rfl⟩

/-- **Model-level corollary**: for `1 + d ≤ c < hlleCols d` the `c`-th column of `Yi` (before orthogonalisation) is the
    entrywise product `u_a ∘ u_b` of the tangent columns for THE pair `(a, b)` = the `(c − 1 − d)`-th element of
    `allPairs d` (`colOf U a` is column `a − 1` of `U` for `1 ≤ a ≤ d`: `hlle_colOf_eq`). -/
theorem hlleYi0_products {K : Type} [Field K] {k d : Nat} (U : Mat k d K) (c : Nat)
    (h1 : 1 + d ≤ c) (h2 : c < hlleCols d) :
    ∃ pr, (allPairs d)[c - 1 - d]? = some pr ∧
      (hlleYi0 U)[c]? = some (DVec.ofFn fun r => colOf U pr.1 r * colOf U pr.2 r) :=
  hlleYi0_product_col (fun _ _ _ => rfl) (fun _ _ _ => rfl) (fun _ _ _ => rfl) U c h1 h2

theorem hlle_colOf_eq {K : Type} [Field K] {k d : Nat} (U : Mat k d K) (a : Int) (h : 1 ≤ a ∧ a.toNat ≤ d) :
    colOf U a = fun r => U r ⟨a.toNat - 1, by omega⟩ :=
  colOf_eq U a h

example : 1 + 3 ≤ 8 ∧ 8 < hlleCols 3 ∧ (allPairs 3)[8 - 1 - 3]? = some (2, 3) := by decide

section HlleOk
variable {K' : Type} [Add K'] [Sub K'] [Mul K'] [Div K'] [Zero K'] [One K'] [LT K'] [DecidableLT K']

/-- `hessian_weight_matrix` has no undefined-behaviour state in the model, for every `d` and every input -/
theorem hlleM_ok {N k d : Nat} (nb : Fin N → Fin k → Fin N) (sqrtO : K' → K') (thr : K') (U : Fin N → Mat k d K') :
    ∃ M, hlleM nb sqrtO thr U = .ok M := by
  simp only [hlleM, hlle_index_ok d]
  exact ⟨_, rfl⟩

end HlleOk

/-! ## 3b. `hessian_weight_matrix` (HLLE): the assembled matrix -/

section HlleMat
variable {K : Type} [Field K] [LT K] [DecidableLT K] {N k d : Nat}

/-- For every `d` and ALL neighbour lists, `hessian_weight_matrix` succeeds and assembles
    `Σ_i S_i (H_i H_iᵀ) S_iᵀ` with `H_i = Yi.rightCols(dp)` of sample `i`. -/
theorem hlle_M_eq (nb : Fin N → Fin k → Fin N) (sqrtO : K → K) (thr : K) (U : Fin N → Mat k d K) :
    ∃ M', hlleM nb sqrtO thr U = .ok M' ∧
      Mat.toM M' = ∑ i, S (nb i) * Mat.toM (hlleProj sqrtO thr (U i)) * (S (nb i))ᵀ :=
  ⟨_, hlleM_eq_ok (hlle_index_ok d) nb sqrtO thr U, hlleMat_toM nb sqrtO thr U⟩

/-- `Yi.rightCols(dp) * Yi.rightCols(dp)ᵀ`, entry-wise -/
theorem hlle_proj_eq (sqrtO : K → K) (thr : K) (U : Mat k d K) (a b : Fin k) :
    hlleProj sqrtO thr U a b = ((hlleH sqrtO thr U).map fun h => h.get a * h.get b).sum :=
  hlleProj_apply sqrtO thr U a b

/-- the accumulating (`+=`) form the driver runs returns the same result (same error, or the same matrix) -/
theorem hlleMD_get (nb : Fin N → Fin k → Fin N) (sqrtO : K → K) (thr : K) (U : Fin N → Mat k d K) :
    (hlleMD nb sqrtO thr U).map DMat.get = hlleM nb sqrtO thr U :=
  hlleMD_map_get nb sqrtO thr U

/-- Under the Gram–Schmidt contract `hgs` (every column of `H_i` is orthogonal to the constant and to the tangent
    columns of sample `i`) the constant vector is in the null space of the HLLE matrix. -/
theorem hlle_const_null (nb : Fin N → Fin k → Fin N) (sqrtO : K → K) (thr : K) (U : Fin N → Mat k d K)
    (hgs : ∀ i, ∀ h ∈ hlleH sqrtO thr (U i), (∑ a, h.get a = 0) ∧ ∀ c, ∑ a, h.get a * U i a c = 0) :
    ∀ M', hlleM nb sqrtO thr U = .ok M' → (Mat.toM M').mulVec (fun _ => 1) = 0 := by
  intro M' hM
  rw [hlleM_eq_ok (hlle_index_ok d)] at hM
  cases hM
  refine hlle_null_of_local nb sqrtO thr U _ fun s q hq => ?_
  simp only [mul_one]
  exact (hgs s q hq).1

/- FULL STATEMENT (flat manifold, HLLE): for data that are an affine image of intrinsic coordinates `T` (every
   neighbourhood of rank exactly `d`, `U i` the top-`d` eigenvectors of the centred local Gram matrix), with an exact
   square root and no vanishing Gram–Schmidt norm, the null space of `M` is EXACTLY `span{1, T·₁, …, T·_d}`.
   Proved: the inclusion `⊇` — here (`_partial`, any field) with the Gram–Schmidt contract `hgs` and the local-span condition
   `hflat` as hypotheses; in section "Flat manifold, HLLE" below from data-side hypotheses only (`hlle_affine_in_nullspace`):
   `hgs` is now a THEOREM about the as-written sweep (`hlle_gs_contract`: `gramSchmidt_orthogonal` pushed through the
   column-sum step, which provably never fires, and `rightCols(dp)`), and `hflat` follows from the local eigensolver contract
   (`flat_local_span`).
   NOT proved, and FALSE without a further genericity hypothesis: the reverse inclusion `⊆`.  A null vector is orthogonal, on
   every neighbourhood, to the `dp` columns of `H_i` (`hlle_null_local_partial` below) — a space of dimension `k − dp`, which is
   `span{1, U_i}` only when `k = 1 + d + dp` (the minimum `k`).  For larger `k` exactness depends on the rank of the
   `N·dp` local Hessian functionals (`= N − d − 1` for generic samples, not for all: with every neighbourhood equal to the whole
   sample the null space has dimension `N − dp > d + 1`); no overlap/connectivity condition on the graph alone implies it. -/
theorem hlle_affine_on_flat_partial (nb : Fin N → Fin k → Fin N) (sqrtO : K → K) (thr : K) (U : Fin N → Mat k d K)
    (T t0 : Fin N → Fin d → K) (C : Fin N → Fin d → Fin d → K)
    (hgs : ∀ i, ∀ h ∈ hlleH sqrtO thr (U i), (∑ a, h.get a = 0) ∧ ∀ c, ∑ a, h.get a * U i a c = 0)
    (hflat : ∀ i a c, T (nb i a) c = t0 i c + ∑ c', U i a c' * C i c' c)
    (c : Fin d) :
    ∀ M', hlleM nb sqrtO thr U = .ok M' → (Mat.toM M').mulVec (fun j => T j c) = 0 := by
  intro M' hM
  rw [hlleM_eq_ok (hlle_index_ok d)] at hM
  cases hM
  refine hlle_null_of_local nb sqrtO thr U _ fun s q hq => ?_
  simp only [hflat]
  exact hlle_local_affine q (U s) (t0 s c) (fun c' => C s c' c) (hgs s q hq).1 (hgs s q hq).2

/-- non-vacuity over ℚ (`k = 4`, `d = 1`): `U = (1,−1,7,−7)ᵀ` (norm 10), product column `(1,1,49,49)ᵀ`, a square root
    exact on the three norms that occur (4, 100, 2304); the single column of `H` is `(−½,−½,½,½)ᵀ` and meets `hgs`;
    `T j = 3·U_j + 7` meets `hflat` -/
example :
    let U : Fin 4 → Mat 4 1 ℚ := fun _ a _ => ![1, -1, 7, -7] a
    let sqrtO : ℚ → ℚ := fun x => if x = 4 then 2 else if x = 100 then 10 else if x = 2304 then 48 else 1
    let nb : Fin 4 → Fin 4 → Fin 4 := fun _ a => a
    let T : Fin 4 → Fin 1 → ℚ := fun j _ => 3 * ![1, -1, 7, -7] j + 7
    (∀ i, ∀ h ∈ hlleH sqrtO (1 / 10000) (U i), (∑ a, h.get a = 0) ∧ ∀ c, ∑ a, h.get a * U i a c = 0)
    ∧ (∀ i, (hlleH sqrtO (1 / 10000) (U i)).map (fun h => (List.finRange 4).map h.get) = [[-1/2, -1/2, 1/2, 1/2]])
    ∧ (∀ i a c, T (nb i a) c = (fun _ _ => (7 : ℚ)) i c + ∑ c', U i a c' * (fun _ _ _ => (3 : ℚ)) i c' c) := by
  intro U sqrtO nb T
  refine ⟨by decide +kernel, by decide +kernel, fun i a c => ?_⟩
  simp only [T, U, nb, Finset.univ_unique, Finset.sum_singleton]
  ring

end HlleMat

/-! ## 3c. the modified Gram–Schmidt sweep of `hessian_weight_matrix`, as written -/

section GramSchmidt
variable {K : Type} [Field K] {k : Nat}

/-- one step (`col_i -= (col_i·col_j) col_j` for every finished column in order, then `col_i *= 1/norm`) produces a
    column orthogonal to every element of an orthonormal `done` — for ANY `sqrtO` -/
theorem gsOne_orthogonal (sqrtO : K → K) (done : List (DVec k K)) (c : DVec k K) (ho : Orthonormal done) :
    ∀ q ∈ done, ddot (gsOne sqrtO done c) q = 0 :=
  gsOne_orthogonal' sqrtO done c ho

example : Orthonormal (K := ℚ) (k := 4)
    [DVec.ofFn ![1 / 2, 1 / 2, 1 / 2, 1 / 2], DVec.ofFn ![1 / 2, -1 / 2, 1 / 2, -1 / 2]] := by
  unfold Orthonormal
  decide +kernel

/-- **the whole sweep**: if `sqrtO` is exact on the squared norms that occur and no remainder vanishes (`GsExact`),
    the output of `gramSchmidt sqrtO [] cols` is orthonormal, has one column per input, and for every `m` its first `m`
    columns span the first `m` inputs (dual form: orthogonal to the first `m` outputs ⇒ orthogonal to the first `m`
    inputs).  With `cols = hlleYi0 U = [1 | U | products]` and `m = 1 + d` this is the orthogonality half of the
    contract `hgs` of `hlle_const_null` for the columns before `colsumNorm`. -/
theorem gramSchmidt_orthogonal (sqrtO : K → K) (cols : List (DVec k K)) (hE : GsExact sqrtO [] cols) :
    Orthonormal (gramSchmidt sqrtO [] cols) ∧ (gramSchmidt sqrtO [] cols).length = cols.length ∧
    ∀ m p, (∀ q ∈ (gramSchmidt sqrtO [] cols).take m, ddot q p = 0) → ∀ c ∈ cols.take m, ddot c p = 0 :=
  gramSchmidt_spec sqrtO cols hE

/-- non-vacuity: the ℚ instance of the `hgs` example above (`U = (1,−1,7,−7)ᵀ`, norms 2, 10, 48) is exact and
    non-degenerate -/
example : GsExact (K := ℚ) (k := 4)
    (fun x => if x = 4 then 2 else if x = 100 then 10 else if x = 2304 then 48 else 1) []
    (hlleYi0 (d := 1) (fun a _ => ![1, -1, 7, -7] a)) := by
  decide +kernel

end GramSchmidt

section GsContract
variable {K : Type} [Field K] [LT K] [DecidableLT K] {k d : Nat}

/-- **the Gram–Schmidt contract `hgs` is a theorem about the as-written sweep.**  With a square root exact on the norms that
    occur and no vanishing remainder (`GsExact`) and a non-negative threshold (`1e-4`): every product column has sum EXACTLY
    zero after the sweep, so `if (colsum > 1e-4) col /= colsum` never fires, `Yi.rightCols(dp)` is the tail of the swept
    columns, and each of its columns sums to zero and is orthogonal to every tangent column. -/
theorem hlle_gs_contract (sqrtO : K → K) (thr : K) (hthr : ¬ thr < 0) (U : Mat k d K)
    (hE : GsExact sqrtO [] (hlleYi0 U)) :
    hlleH sqrtO thr U = (gramSchmidt sqrtO [] (hlleYi0 U)).drop (1 + d) ∧
    ∀ h ∈ hlleH sqrtO thr U, (∑ a, h.get a = 0) ∧ ∀ c, ∑ a, h.get a * U a c = 0 :=
  ⟨hlleH_eq_drop (fun _ _ => rfl) sqrtO thr hthr U hE, hlleH_contract (fun _ _ => rfl) sqrtO thr hthr U hE⟩

/-- non-vacuity: the ℚ instance of the `hgs` example above (threshold `1e-4`) -/
example : (¬ (1 / 10000 : ℚ) < 0) ∧ GsExact (K := ℚ) (k := 4)
    (fun x => if x = 4 then 2 else if x = 100 then 10 else if x = 2304 then 48 else 1) []
    (hlleYi0 (d := 1) (fun a _ => ![1, -1, 7, -7] a)) := by
  refine ⟨by norm_num, by decide +kernel⟩

end GsContract

/-! ## Spectral part (eigensolver contract `GenEigSystem` as hypothesis; `Proofs/SpectralLocal.lean`) -/

section Spectral
open TapkeeVerif.SpectralLocal
variable {K : Type} [Field K] [LinearOrder K] [IsStrictOrderedRing K]


/-- **Skip-one optimality** (KLLE, KLTSA, HLLE: `eigendecomposition(SmallestEigenvalues, skip = 1)`).
    If `(V, lam)` is a full orthonormal eigensystem of the alignment matrix `M` with ascending eigenvalues (the dense
    solver's contract) and its first eigenvector is constant (`lle_const_eigvec`, `ltsa_const_null`), then the next `d`
    eigenvectors `Y` — what the methods return — are orthonormal, sum to zero, cost `∑ lam (1+c)`, and **minimise
    `tr(Yᵀ M Y)` over all orthonormal `Z` orthogonal to the constant vector** (`kyFan_min` on the complement of 1). -/
theorem smallest_skip_one_optimal {n d : Nat} (M V : Matrix (Fin n) (Fin n) K) (lam : Fin n → K)
    (h : GenEigSystem M 1 V lam) (hd : 1 + d ≤ n) (κ : K) (hκ : κ ≠ 0)
    (hconst : ∀ i, V i ⟨0, by omega⟩ = κ) :
    (cols V (shiftIdx 1 hd))ᵀ * cols V (shiftIdx 1 hd) = 1 ∧
    (∀ c, ∑ i, cols V (shiftIdx 1 hd) i c = 0) ∧
    Matrix.trace ((cols V (shiftIdx 1 hd))ᵀ * M * cols V (shiftIdx 1 hd)) = ∑ c, lam (shiftIdx 1 hd c) ∧
    ∀ Z : Matrix (Fin n) (Fin d) K, Zᵀ * Z = 1 → (∀ c, ∑ i, Z i c = 0) →
      Matrix.trace ((cols V (shiftIdx 1 hd))ᵀ * M * cols V (shiftIdx 1 hd)) ≤ Matrix.trace (Zᵀ * M * Z) := by
  have hinj := shiftIdx_injective (d := d) (n := n) 1 hd
  refine ⟨?_, ?_, cols_trace h _ hinj, ?_⟩
  · have := cols_orthonormal h _ hinj
    rwa [Matrix.mul_one] at this
  · intro c
    have h0 := congrFun (congrFun h.orth ⟨0, by omega⟩) (shiftIdx 1 hd c)
    rw [Matrix.mul_one, Matrix.mul_apply, Matrix.one_apply] at h0
    have hne : (⟨0, by omega⟩ : Fin n) ≠ shiftIdx 1 hd c := by
      intro hh
      have := congrArg Fin.val hh
      simp only [shiftIdx] at this
      omega
    rw [if_neg hne] at h0
    simp only [Matrix.transpose_apply, hconst] at h0
    rw [← Finset.mul_sum] at h0
    rcases mul_eq_zero.mp h0 with h1 | h1
    · exact absurd h1 hκ
    · exact h1
  · intro Z hZ hZ1
    apply bottom_after_skip h 1 hd Z (by rwa [Matrix.mul_one])
    intro j hj c
    have hj0 : j = ⟨0, by omega⟩ := Fin.ext (by show j.1 = 0; omega)
    rw [hj0, Matrix.mul_one, Matrix.mul_apply]
    simp only [Matrix.transpose_apply, hconst]
    rw [← Finset.mul_sum, hZ1 c, mul_zero]

/-- non-vacuity: the normalised 4×4 Hadamard basis (constant first column `1/2`) is a full orthonormal eigensystem
    of `M = V diag(0,1,2,3) Vᵀ` with ascending eigenvalues — all hypotheses of `smallest_skip_one_optimal` hold at d = 2 -/
def exV : Matrix (Fin 4) (Fin 4) ℚ := (1 / 2 : ℚ) • !![1, 1, 1, 1; 1, -1, 1, -1; 1, 1, -1, -1; 1, -1, -1, 1]
def exLam : Fin 4 → ℚ := ![0, 1, 2, 3]
theorem exV_orth : exVᵀ * exV = 1 := by
  ext i j
  fin_cases i <;> fin_cases j <;> simp [exV, Matrix.mul_apply, Fin.sum_univ_four] <;> norm_num
example : GenEigSystem (exV * Matrix.diagonal exLam * exVᵀ) 1 exV exLam ∧ (∀ i, exV i ⟨0, by omega⟩ = 1 / 2) := by
  refine ⟨⟨?_, ?_, ?_⟩, ?_⟩
  · rw [Matrix.mul_one, exV_orth]
  · calc exVᵀ * (exV * Matrix.diagonal exLam * exVᵀ) * exV
        = (exVᵀ * exV) * Matrix.diagonal exLam * (exVᵀ * exV) := by simp only [Matrix.mul_assoc]
      _ = Matrix.diagonal exLam := by rw [exV_orth, Matrix.one_mul, Matrix.mul_one]
  · intro a b hab
    fin_cases a <;> fin_cases b <;> first | (simp_all [exLam]; done) | (simp_all [exLam]; norm_num)
  · intro i
    fin_cases i <;> simp [exV]


/-- **The skipped eigenvector is the constant vector whenever the trivial eigenvalue is simple.**  `M 1 = s 1`
    (`lle_const_eigvec`, `ltsa_const_null`, `hlle_const_null`) and `s` occurs among the solver's eigenvalues only at
    index 0 (data that is not exactly flat) ⇒ column 0 of `V` is a non-zero constant: this discharges the hypothesis
    `hconst` of `smallest_skip_one_optimal`, i.e. the returned columns sum to zero. -/
theorem skipped_eigenvector_is_constant {n : Nat} (hn : 0 < n) (M V : Matrix (Fin n) (Fin n) K) (lam : Fin n → K)
    (h : GenEigSystem M 1 V lam) (s : K) (hM1 : M.mulVec (fun _ => (1 : K)) = fun _ => s)
    (hsimple : ∀ j : Fin n, j.1 ≠ 0 → lam j ≠ s) :
    ∃ κ : K, κ ≠ 0 ∧ ∀ i, V i ⟨0, hn⟩ = κ := by
  have hx : M.mulVec (fun _ => (1 : K)) = s • (1 : Matrix (Fin n) (Fin n) K).mulVec (fun _ => (1 : K)) := by
    rw [hM1, Matrix.one_mulVec]
    funext i
    simp
  have hx0 : (fun _ : Fin n => (1 : K)) ≠ 0 := by
    intro h0
    have := congrFun h0 ⟨0, hn⟩
    simp at this
  obtain ⟨κ, hκ, hV⟩ := col_of_simple_eigenvalue h (fun _ => (1 : K)) s hx hx0 ⟨0, hn⟩
    (fun j hj => hsimple j (fun hj0 => hj (Fin.ext hj0)))
  exact ⟨κ, hκ, fun i => by rw [hV i, mul_one]⟩

/-! ### soundness of the inertia count every spectral verdict of the run-time certificate rests on
(`Model/CertGen.lean: belowCount` = the exact rational LDLᵀ `Cert.inertiaPos` of `Model/Cert.lean` on `σ·B − A`;
proofs: `Proofs/CertGenSound.lean` on top of `Proofs/Inertia.inertiaPos_sound`) -/

/-- if the elimination of `S` closes with `p` positive pivots, `S` is positive definite on no family of more than `p`
    independent directions -/
theorem belowCount_sound {n : Nat} (S : Mat n n ℚ) (p : Nat) (h : TapkeeVerif.Cert.belowCount S = some p)
    {m : Type} [Fintype m] (W : Matrix (Fin n) m ℚ)
    (hpos : ∀ c : m → ℚ, c ≠ 0 → 0 < (W *ᵥ c) ⬝ᵥ (Mat.toM S *ᵥ (W *ᵥ c))) :
    Fintype.card m ≤ p :=
  TapkeeVerif.Cert.belowCount_sound S p h W hpos

/-- `belowCount (σ·B − A) = some p` ⇒ the pencil `(A, B)` has at most `p` eigenvalues below `σ` -/
theorem belowCount_bounds_eigenvalues {n : Nat} {A B V : Matrix (Fin n) (Fin n) ℚ} {lam : Fin n → ℚ}
    (h : GenEigSystem A B V lam) (σ : ℚ) (p : Nat)
    (hc : TapkeeVerif.Cert.belowCount (fun i j => σ * B i j - A i j) = some p) :
    (Finset.univ.filter fun j => lam j < σ).card ≤ p :=
  TapkeeVerif.Cert.belowCount_bounds_eigenvalues h σ p hc

/-- the form the certificate uses: with `p ≤ m`, every eigenvalue of index `≥ m` is `≥ σ` — so `m` approximate
    eigenvectors with Rayleigh quotients below `σ` account for ALL eigenvalues below `σ`: they are the `m` smallest -/
theorem bottom_certified {n : Nat} {A B V : Matrix (Fin n) (Fin n) ℚ} {lam : Fin n → ℚ}
    (h : GenEigSystem A B V lam) (σ : ℚ) (p m : Nat)
    (hc : TapkeeVerif.Cert.belowCount (fun i j => σ * B i j - A i j) = some p) (hpm : p ≤ m) :
    ∀ j : Fin n, m ≤ j.1 → σ ≤ lam j :=
  TapkeeVerif.Cert.bottom_certified h σ p m hc hpm

end Spectral

/-! ## End to end: the model matrices under the eigensolver contract

The `embed()` glue — which weight-matrix routine a method calls, `skip = 1`, `SmallestEigenvalues`, the dense solver —
is NOT modelled here: it is observed per run through the eigen-observer hook (`verif_eigen_observer`) by the checks. -/

section EndToEnd
open TapkeeVerif.SpectralLocal
variable {K : Type} [Field K] [LinearOrder K] [IsStrictOrderedRing K] {N k d : Nat}

/-- LLE: `xᵀ (M − shift·I) x = ‖(I − W) x‖² ≥ 0`, all neighbour lists and weights -/
theorem lle_psd (nb : Fin N → Fin k → Fin N) (wraw : Fin N → Vec k K) (shift : K) (x : Fin N → K) :
    0 ≤ x ⬝ᵥ ((Mat.toM (lleM nb wraw shift) - shift • (1 : Matrix (Fin N) (Fin N) K)) *ᵥ x) :=
  lle_psd' nb wraw shift x

/-- LTSA: with orthonormal local bases `G_i = [rsk | U i]` every `I − G_i G_iᵀ` is a projector, so `M − shift·I` is PSD -/
theorem ltsa_psd (nb : Fin N → Fin k → Fin N) (rsk : K) (U : Fin N → Mat k d K) (shift : K)
    (horth : ∀ i, (Mat.toM (ltsaG rsk (U i)))ᵀ * Mat.toM (ltsaG rsk (U i)) = 1) (x : Fin N → K) :
    0 ≤ x ⬝ᵥ ((Mat.toM (ltsaM nb rsk U shift) - shift • (1 : Matrix (Fin N) (Fin N) K)) *ᵥ x) :=
  ltsa_psd' nb rsk U shift horth x

/-- HLLE: `M = Σ_i S_i H_i H_iᵀ S_iᵀ` is PSD with no hypothesis at all -/
theorem hlle_psd (nb : Fin N → Fin k → Fin N) (sqrtO : K → K) (thr : K) (U : Fin N → Mat k d K) (x : Fin N → K) :
    ∀ M', hlleM nb sqrtO thr U = .ok M' → 0 ≤ x ⬝ᵥ (Mat.toM M' *ᵥ x) := by
  intro M' hM
  rw [hlleM_eq_ok (hlle_index_ok d)] at hM
  cases hM
  exact hlleMat_psd nb sqrtO thr U x

omit [IsStrictOrderedRing K] in
/-- Rayleigh quotient of column `j`: every eigenvalue of a full orthonormal eigensystem is at least any lower bound
    of the quadratic form -/
theorem psd_eigenvalues_ge {n : Nat} (M V : Matrix (Fin n) (Fin n) K) (lam : Fin n → K)
    (h : GenEigSystem M 1 V lam) (s : K) (hpsd : ∀ x : Fin n → K, s * (x ⬝ᵥ x) ≤ x ⬝ᵥ (M *ᵥ x)) :
    ∀ j, s ≤ lam j :=
  psd_eigenvalues_ge' M V lam h s hpsd

/-- hence `shift` is the bottom of the LLE spectrum -/
theorem lle_eigenvalues_ge_shift (nb : Fin N → Fin k → Fin N) (wraw : Fin N → Vec k K) (shift : K)
    (V : Matrix (Fin N) (Fin N) K) (lam : Fin N → K)
    (hsys : GenEigSystem (Mat.toM (lleM nb wraw shift)) 1 V lam) : ∀ j, shift ≤ lam j :=
  psd_eigenvalues_ge _ V lam hsys shift fun x => rayleigh_of_shift_psd _ shift x (lle_psd nb wraw shift x)

/-- generic composition: `M 1 = s 1`, `s` simple among the solver's eigenvalues ⇒ the `d` columns after the skipped one
    are orthonormal, sum to zero, cost `Σ lam(1+c)` and minimise `tr(Zᵀ M Z)` over orthonormal `Z ⟂ 1` -/
theorem skip_one_end_to_end {n d : Nat} (hd : 1 + d ≤ n) (M V : Matrix (Fin n) (Fin n) K) (lam : Fin n → K)
    (h : GenEigSystem M 1 V lam) (s : K) (hM1 : M.mulVec (fun _ => (1 : K)) = fun _ => s)
    (hsimple : ∀ j : Fin n, j.1 ≠ 0 → lam j ≠ s) :
    (cols V (shiftIdx 1 hd))ᵀ * cols V (shiftIdx 1 hd) = 1 ∧
    (∀ c, ∑ i, cols V (shiftIdx 1 hd) i c = 0) ∧
    Matrix.trace ((cols V (shiftIdx 1 hd))ᵀ * M * cols V (shiftIdx 1 hd)) = ∑ c, lam (shiftIdx 1 hd c) ∧
    ∀ Z : Matrix (Fin n) (Fin d) K, Zᵀ * Z = 1 → (∀ c, ∑ i, Z i c = 0) →
      Matrix.trace ((cols V (shiftIdx 1 hd))ᵀ * M * cols V (shiftIdx 1 hd)) ≤ Matrix.trace (Zᵀ * M * Z) := by
  obtain ⟨κ, hκ, hV⟩ := skipped_eigenvector_is_constant (by omega) M V lam h s hM1 hsimple
  exact smallest_skip_one_optimal M V lam h hd κ hκ hV

/-- **KLLE end to end** (model matrix + solver contract).  For `M = linear_weight_matrix` with non-zero raw weight sums,
    any full orthonormal ascending eigensystem of `M` whose eigenvalue `shift` is simple: the `d` columns returned after
    skipping the first are orthonormal, each sums to zero, and they minimise `tr(Zᵀ M Z)` over all orthonormal `Z` with
    zero column sums.  (`embed()` glue — routine, `skip = 1`, SmallestEigenvalues, Dense — observed per run, not modelled.) -/
theorem klle_end_to_end (nb : Fin N → Fin k → Fin N) (wraw : Fin N → Vec k K) (shift : K)
    (hw : ∀ i, sumFin k (wraw i) ≠ 0) (V : Matrix (Fin N) (Fin N) K) (lam : Fin N → K)
    (hsys : GenEigSystem (Mat.toM (lleM nb wraw shift)) 1 V lam) (hd : 1 + d ≤ N)
    (hsimple : ∀ j : Fin N, j.1 ≠ 0 → lam j ≠ shift) :
    (cols V (shiftIdx 1 hd))ᵀ * cols V (shiftIdx 1 hd) = 1 ∧
    (∀ c, ∑ i, cols V (shiftIdx 1 hd) i c = 0) ∧
    Matrix.trace ((cols V (shiftIdx 1 hd))ᵀ * Mat.toM (lleM nb wraw shift) * cols V (shiftIdx 1 hd))
      = ∑ c, lam (shiftIdx 1 hd c) ∧
    ∀ Z : Matrix (Fin N) (Fin d) K, Zᵀ * Z = 1 → (∀ c, ∑ i, Z i c = 0) →
      Matrix.trace ((cols V (shiftIdx 1 hd))ᵀ * Mat.toM (lleM nb wraw shift) * cols V (shiftIdx 1 hd))
        ≤ Matrix.trace (Zᵀ * Mat.toM (lleM nb wraw shift) * Z) :=
  skip_one_end_to_end hd _ V lam hsys shift (lle_const_eigvec nb wraw shift hw) hsimple

/-- non-vacuity over ℚ (`N = 4`, `k = 2`, `shift = 1/10`): neighbours `i xor 1`, `i xor 2` with raw weights `(1, 2)`;
    the model matrix is diagonalised by the normalised Hadamard basis `exV` with eigenvalues
    `shift + (0, 4/9, 16/9, 4)` — every hypothesis of `klle_end_to_end` holds (checked on the model by the kernel) -/
def exNb : Fin 4 → Fin 2 → Fin 4 := fun i a => ⟨if a.1 = 0 then i.1 ^^^ 1 else i.1 ^^^ 2, by
  have := i.2
  split <;> (apply Nat.lt_of_lt_of_le (Nat.xor_lt_two_pow (n := 2) (by omega) (by omega)); decide)⟩
def exW : Fin 4 → Vec 2 ℚ := fun _ a => if a.1 = 0 then 1 else 2
def exLamLle : Fin 4 → ℚ := ![1 / 10, 1 / 10 + 4 / 9, 1 / 10 + 16 / 9, 1 / 10 + 4]
example : (∀ i, sumFin 2 (exW i) ≠ 0) ∧ GenEigSystem (Mat.toM (lleM exNb exW (1 / 10))) 1 exV exLamLle ∧
    (∀ j : Fin 4, j.1 ≠ 0 → exLamLle j ≠ 1 / 10) := by
  refine ⟨by decide +kernel, ⟨?_, by decide +kernel, ?_⟩, by decide +kernel⟩
  · rw [Matrix.mul_one, exV_orth]
  · unfold Monotone
    decide +kernel

/-- **KLTSA end to end**: the same for `M = tangent_weight_matrix` under `rsk²·k = 1` and zero column sums of the local
    bases (hypotheses of `ltsa_const_null`).  (`embed()` glue observed per run, not modelled.) -/
theorem kltsa_end_to_end (nb : Fin N → Fin k → Fin N) (rsk : K) (U : Fin N → Mat k d K) (shift : K)
    (h1 : rsk * rsk * (k : K) = 1) (hU : ∀ i c, ∑ a, U i a c = 0)
    (V : Matrix (Fin N) (Fin N) K) (lam : Fin N → K) {t : Nat}
    (hsys : GenEigSystem (Mat.toM (ltsaM nb rsk U shift)) 1 V lam) (hd : 1 + t ≤ N)
    (hsimple : ∀ j : Fin N, j.1 ≠ 0 → lam j ≠ shift) :
    (cols V (shiftIdx 1 hd))ᵀ * cols V (shiftIdx 1 hd) = 1 ∧
    (∀ c, ∑ i, cols V (shiftIdx 1 hd) i c = 0) ∧
    Matrix.trace ((cols V (shiftIdx 1 hd))ᵀ * Mat.toM (ltsaM nb rsk U shift) * cols V (shiftIdx 1 hd))
      = ∑ c, lam (shiftIdx 1 hd c) ∧
    ∀ Z : Matrix (Fin N) (Fin t) K, Zᵀ * Z = 1 → (∀ c, ∑ i, Z i c = 0) →
      Matrix.trace ((cols V (shiftIdx 1 hd))ᵀ * Mat.toM (ltsaM nb rsk U shift) * cols V (shiftIdx 1 hd))
        ≤ Matrix.trace (Zᵀ * Mat.toM (ltsaM nb rsk U shift) * Z) :=
  skip_one_end_to_end hd _ V lam hsys shift
    (mulVec_one_of_shift_null _ shift (ltsa_const_null nb rsk U shift h1 hU)) hsimple

/-- **HLLE end to end**: the same for `M' = hessian_weight_matrix` (every `d`; trivial eigenvalue `0`) under the
    Gram–Schmidt contract `hgs` of `hlle_const_null`.  (`embed()` glue observed per run, not modelled.) -/
theorem hlle_end_to_end (nb : Fin N → Fin k → Fin N) (sqrtO : K → K) (thr : K) (U : Fin N → Mat k d K)
    (hgs : ∀ i, ∀ h ∈ hlleH sqrtO thr (U i), (∑ a, h.get a = 0) ∧ ∀ c, ∑ a, h.get a * U i a c = 0)
    (M' : Mat N N K) (hM : hlleM nb sqrtO thr U = .ok M')
    (V : Matrix (Fin N) (Fin N) K) (lam : Fin N → K) {t : Nat}
    (hsys : GenEigSystem (Mat.toM M') 1 V lam) (hd : 1 + t ≤ N)
    (hsimple : ∀ j : Fin N, j.1 ≠ 0 → lam j ≠ 0) :
    (cols V (shiftIdx 1 hd))ᵀ * cols V (shiftIdx 1 hd) = 1 ∧
    (∀ c, ∑ i, cols V (shiftIdx 1 hd) i c = 0) ∧
    Matrix.trace ((cols V (shiftIdx 1 hd))ᵀ * Mat.toM M' * cols V (shiftIdx 1 hd)) = ∑ c, lam (shiftIdx 1 hd c) ∧
    ∀ Z : Matrix (Fin N) (Fin t) K, Zᵀ * Z = 1 → (∀ c, ∑ i, Z i c = 0) →
      Matrix.trace ((cols V (shiftIdx 1 hd))ᵀ * Mat.toM M' * cols V (shiftIdx 1 hd))
        ≤ Matrix.trace (Zᵀ * Mat.toM M' * Z) :=
  skip_one_end_to_end hd _ V lam hsys 0
    (by rw [hlle_const_null nb sqrtO thr U hgs M' hM]; rfl) hsimple

end EndToEnd

/-! ## Flat manifold, LTSA: "every LTSA column is an affine function of the intrinsic coordinates"

Data side (`Proofs/LocallyLinearFlatLtsa.lean`): `N` samples `x_j = A·t_j + b` in `K^D` (`flatPoint`), `A : D × d` injective,
`T j = t_j` the intrinsic coordinates, linear kernel `flatKernel A b T i j = ⟨x_i, x_j⟩`; the local eigensolver enters through
its contract `Spectral.IsTopEig` on the centred local Gram matrix `localCentered κ (nb i)` the routine hands it.
`AffSpan (nb i) T`: the neighbourhood is in general position (its intrinsic coordinates affinely span `K^d`).
`Overlap nb T i i'`: the samples shared by two neighbourhoods affinely span `K^d`. -/

section FlatLtsa
open TapkeeVerif.SpectralLocal
variable {K : Type} [Field K] [LinearOrder K] [IsStrictOrderedRing K] {N k d D : Nat}

/-- **the local-span condition is a consequence of the local eigensolver contract** (hypothesis `hflat` of
    `ltsa_affine_on_flat_partial` / `hlle_affine_on_flat_partial`): the centred local Gram matrix of flat data is
    `(Tc Aᵀ)(Tc Aᵀ)ᵀ` of rank `≤ d`, so by the rank bridge `Spectral.kernel_of_rank_le` its top-`d` eigenvectors span the
    centred intrinsic coordinates.  No general-position hypothesis is needed for this direction. -/
theorem flat_local_span (A : Matrix (Fin D) (Fin d) K) (hA : ∀ v : Fin d → K, A *ᵥ v = 0 → v = 0)
    (b : Fin D → K) (T : Fin N → Fin d → K) (nb : Fin N → Fin k → Fin N) (hk : (k : K) ≠ 0)
    (U : Fin N → Mat k d K) (lam : Fin N → Fin d → K)
    (heig : ∀ i, Spectral.IsTopEig (Mat.toM (localCentered (flatKernel A b T) (nb i))) (Mat.toM (U i)) (lam i)) :
    ∀ i a c, T (nb i a) c
      = locMean (nb i) T c + ∑ c', U i a c' * ((Mat.toM (U i))ᵀ * locTc (nb i) T) c' c :=
  fun i a c => flat_hflat A hA b T (nb i) hk (U i) (lam i) (heig i) a c

/-- **general position ⇒ the local bases `G_i = [1/√k | U_i]` are orthonormal** (hypothesis `horth` of
    `ltsa_affine_on_flat_partial`, `ltsa_psd`; its part `hU` — zero column sums — of `ltsa_const_null`, `kltsa_end_to_end`):
    when the neighbourhood's intrinsic coordinates affinely span, all `d` returned eigenvectors belong to non-zero eigenvalues
    and lie in the span of the centred coordinates. -/
theorem flat_local_orthonormal (A : Matrix (Fin D) (Fin d) K) (hA : ∀ v : Fin d → K, A *ᵥ v = 0 → v = 0)
    (b : Fin D → K) (T : Fin N → Fin d → K) (nb : Fin N → Fin k → Fin N) (rsk : K) (h1 : rsk * rsk * (k : K) = 1)
    (hgp : ∀ i, AffSpan (nb i) T) (U : Fin N → Mat k d K) (lam : Fin N → Fin d → K)
    (heig : ∀ i, Spectral.IsTopEig (Mat.toM (localCentered (flatKernel A b T) (nb i))) (Mat.toM (U i)) (lam i)) :
    ∀ i, (Mat.toM (ltsaG rsk (U i)))ᵀ * Mat.toM (ltsaG rsk (U i)) = 1 :=
  fun i => flat_horth A hA b T (nb i) rsk h1 (hgp i) (U i) (lam i) (heig i)

/-- **LTSA on flat data, inclusion `⊇`, from data-side hypotheses only**: every affine function of the intrinsic coordinates
    is a null vector of `M − shift·1`. -/
theorem ltsa_affine_in_nullspace (nb : Fin N → Fin k → Fin N) (rsk : K) (U : Fin N → Mat k d K) (shift : K)
    (A : Matrix (Fin D) (Fin d) K) (hA : ∀ v : Fin d → K, A *ᵥ v = 0 → v = 0) (b : Fin D → K)
    (T : Fin N → Fin d → K) (h1 : rsk * rsk * (k : K) = 1) (lam : Fin N → Fin d → K)
    (heig : ∀ i, Spectral.IsTopEig (Mat.toM (localCentered (flatKernel A b T) (nb i))) (Mat.toM (U i)) (lam i))
    (hgp : ∀ i, AffSpan (nb i) T) (c0 : K) (w : Fin d → K) :
    (Mat.toM (ltsaM nb rsk U shift) - shift • (1 : Matrix (Fin N) (Fin N) K)).mulVec
      (fun j => c0 + ∑ c, T j c * w c) = 0 := by
  have hk : (k : K) ≠ 0 := by
    intro h0
    rw [h0, mul_zero] at h1
    exact zero_ne_one h1
  have hflat := flat_local_span A hA b T nb hk U lam heig
  have horth := flat_local_orthonormal A hA b T nb rsk h1 hgp U lam heig
  refine ltsa_null_of_local nb rsk U shift _ fun s => ?_
  have e : (fun a => c0 + ∑ c, T (nb s a) c * w c)
      = fun a => (c0 + ∑ c, locMean (nb s) T c * w c)
          + ∑ c', U s a c' * ∑ c, ((Mat.toM (U s))ᵀ * locTc (nb s) T) c' c * w c :=
    funext fun a => affine_of_hflat T (nb s) (U s) _ _ (hflat s) c0 w a
  rw [e]
  exact ltsa_local_affine rsk (U s) (horth s) _ _

/-- **LTSA on flat data, the null space EXACTLY**: if every neighbourhood is in general position, the neighbourhoods cover the
    samples and are connected through overlaps that affinely span (consecutive neighbourhoods share `d+1` affinely
    independent samples), then the null space of `M − shift·1` is exactly the affine functions of the intrinsic coordinates. -/
theorem ltsa_nullspace_exact (nb : Fin N → Fin k → Fin N) (rsk : K) (U : Fin N → Mat k d K) (shift : K)
    (A : Matrix (Fin D) (Fin d) K) (hA : ∀ v : Fin d → K, A *ᵥ v = 0 → v = 0) (b : Fin D → K)
    (T : Fin N → Fin d → K) (h1 : rsk * rsk * (k : K) = 1) (lam : Fin N → Fin d → K)
    (heig : ∀ i, Spectral.IsTopEig (Mat.toM (localCentered (flatKernel A b T) (nb i))) (Mat.toM (U i)) (lam i))
    (hgp : ∀ i, AffSpan (nb i) T)
    (hconn : ∀ i i', Relation.ReflTransGen (Overlap nb T) i i') (hcover : ∀ j, ∃ i a, nb i a = j)
    (v : Fin N → K) :
    (Mat.toM (ltsaM nb rsk U shift) - shift • (1 : Matrix (Fin N) (Fin N) K)).mulVec v = 0 ↔ IsAffine T v := by
  constructor
  · intro hv
    exact affine_of_locally_affine nb T v
      (ltsa_null_locally_affine nb rsk U shift A hA b T h1 lam heig hgp v hv) hconn hcover
  · rintro ⟨c0, w, hw⟩
    have : v = fun j => c0 + ∑ c, T j c * w c := funext hw
    rw [this]
    exact ltsa_affine_in_nullspace nb rsk U shift A hA b T h1 lam heig hgp c0 w

/-- **The property's last sentence for LTSA**: for samples on a `d`-dimensional affine subspace (general position, connected
    overlapping cover), with the local eigensolver contract and any full ascending orthonormal eigensystem `(V, lam')` of the
    assembled matrix (the dense solver's contract), **every column returned after skipping the first eigenvector
    (`skip = 1`, columns `1 … d`) is an affine function of the intrinsic coordinates** — and so is the skipped one.
    (The bottom eigenvalue `shift` has multiplicity exactly `d + 1` here, so the skipped column need not be the constant.) -/
theorem ltsa_columns_affine_on_flat (nb : Fin N → Fin k → Fin N) (rsk : K) (U : Fin N → Mat k d K) (shift : K)
    (A : Matrix (Fin D) (Fin d) K) (hA : ∀ v : Fin d → K, A *ᵥ v = 0 → v = 0) (b : Fin D → K)
    (T : Fin N → Fin d → K) (h1 : rsk * rsk * (k : K) = 1) (lam : Fin N → Fin d → K)
    (heig : ∀ i, Spectral.IsTopEig (Mat.toM (localCentered (flatKernel A b T) (nb i))) (Mat.toM (U i)) (lam i))
    (hgp : ∀ i, AffSpan (nb i) T)
    (hconn : ∀ i i', Relation.ReflTransGen (Overlap nb T) i i') (hcover : ∀ j, ∃ i a, nb i a = j)
    (V : Matrix (Fin N) (Fin N) K) (lam' : Fin N → K)
    (hsys : GenEigSystem (Mat.toM (ltsaM nb rsk U shift)) 1 V lam') (hd : 1 + d ≤ N) :
    (∀ j : Fin N, j.1 < d + 1 → lam' j = shift ∧ IsAffine T (fun i => V i j)) ∧
    ∀ c : Fin d, IsAffine T (fun i => cols V (shiftIdx 1 hd) i c) := by
  have hk0 : 0 < k := by
    rcases Nat.eq_zero_or_pos k with h0 | h0
    · subst h0
      simp at h1
    · exact h0
  have horth := flat_local_orthonormal A hA b T nb rsk h1 hgp U lam heig
  have hge : ∀ j, shift ≤ lam' j :=
    psd_eigenvalues_ge _ V lam' hsys shift fun x =>
      rayleigh_of_shift_psd _ shift x (ltsa_psd nb rsk U shift horth x)
  have hF : ∀ w : Fin (d + 1) → K, Mat.toM (ltsaM nb rsk U shift) *ᵥ (affBasis T *ᵥ w)
      = shift • (affBasis T *ᵥ w) := by
    intro w
    have h0 := ltsa_affine_in_nullspace nb rsk U shift A hA b T h1 lam heig hgp (w 0) (fun c => w c.succ)
    have e : (fun j => w 0 + ∑ c, T j c * w c.succ) = affBasis T *ᵥ w := funext fun j => (affBasis_mulVec T w j).symm
    rw [e, Matrix.sub_mulVec, Matrix.smul_mulVec, Matrix.one_mulVec, sub_eq_zero] at h0
    exact h0
  have hinj := affBasis_injective (nb ⟨0, by omega⟩) T hk0 (hgp ⟨0, by omega⟩)
  have hbot := bottom_eigs_of_null _ V lam' hsys shift hge (affBasis T) hF hinj
  have hall : ∀ j : Fin N, j.1 < d + 1 → lam' j = shift ∧ IsAffine T (fun i => V i j) := by
    intro j hj
    refine ⟨hbot j hj, ?_⟩
    apply (ltsa_nullspace_exact nb rsk U shift A hA b T h1 lam heig hgp hconn hcover _).1
    have := eigen_equation_col hsys j
    rw [hbot j hj, Matrix.one_mulVec] at this
    rw [Matrix.sub_mulVec, Matrix.smul_mulVec, Matrix.one_mulVec, this, sub_self]
  refine ⟨hall, fun c => ?_⟩
  have := (hall (shiftIdx 1 hd c) (by simp only [shiftIdx]; have := c.2; omega)).2
  exact this

end FlatLtsa

/-! ### non-vacuity of the flat-manifold theorems over ℚ (`d = 1`, samples `x_j = (3 t_j + 1, 4 t_j − 2)` in the plane)

* `N = 4`, `t = (1, −1, 7, −7)`, every neighbourhood the whole sample (`k = N`): ALL hypotheses of
  `ltsa_columns_affine_on_flat` hold, including the solver contract `GenEigSystem` for the model matrix itself
  (`M − shift = 4 (I − P)`, eigenvalues `shift + (0, 0, 4, 4)`, rational orthonormal eigenvectors).
* `N = 5`, `t = (1, −1, 7, −7, 17)`, two DIFFERENT neighbourhoods `{0,1,2,3}` (samples 0–2) and `{1,2,3,4}` (samples 3, 4)
  sharing the three samples `1, 2, 3`: the data-side hypotheses of `ltsa_nullspace_exact` (local contract on both
  neighbourhoods — norms 10 and 18 —, general position, overlap, cover).
The local eigensolver contract `IsTopEig` is obtained from the exact certificate (`Cert.certTopEig_sound_zero` + `decide`). -/

def flA : Matrix (Fin 2) (Fin 1) ℚ := !![3; 4]
def flb : Fin 2 → ℚ := ![1, -2]

theorem flA_inj : ∀ v : Fin 1 → ℚ, flA *ᵥ v = 0 → v = 0 := by
  intro v hv
  have h0 := congrFun hv 0
  simp [flA, Matrix.mulVec, dotProduct] at h0
  funext c
  rw [Subsingleton.elim c 0]
  simpa using h0

def flT4 : Fin 4 → Fin 1 → ℚ := fun j _ => ![1, -1, 7, -7] j
def flNb4 : Fin 4 → Fin 4 → Fin 4 := fun _ a => a
def flU4 : Fin 4 → Mat 4 1 ℚ := fun _ a _ => ![1 / 10, -1 / 10, 7 / 10, -7 / 10] a
def flLam4 : Fin 4 → Fin 1 → ℚ := fun _ _ => 2500

theorem fl4_heig : ∀ i, Spectral.IsTopEig (Mat.toM (localCentered (flatKernel flA flb flT4) (flNb4 i)))
    (Mat.toM (flU4 i)) (flLam4 i) := fun i =>
  Cert.certTopEig_sound_zero _ (by revert i; decide +kernel) (flU4 i) (flLam4 i) (by revert i; decide +kernel)

theorem fl4_hgp : ∀ i, AffSpan (flNb4 i) flT4 := fun i =>
  affSpan_of_two (flNb4 i) flT4 0 1 (by revert i; decide +kernel)

theorem fl4_hconn : ∀ i i', Relation.ReflTransGen (Overlap flNb4 flT4) i i' := fun i i' =>
  Relation.ReflTransGen.single (overlap_of_two flNb4 flT4 i i' 0 0 1 1 rfl rfl (by revert i; decide +kernel))

def flV4 : Matrix (Fin 4) (Fin 4) ℚ :=
  !![1 / 2, 1 / 10, 1 / 2, -7 / 10; 1 / 2, -1 / 10, 1 / 2, 7 / 10; 1 / 2, 7 / 10, -1 / 2, 1 / 10;
     1 / 2, -7 / 10, -1 / 2, -1 / 10]
def flLam4' : Fin 4 → ℚ := ![1 / 10, 1 / 10, 1 / 10 + 4, 1 / 10 + 4]

theorem fl4_hsys : SpectralLocal.GenEigSystem (Mat.toM (ltsaM flNb4 (1 / 2) flU4 (1 / 10))) 1 flV4 flLam4' := by
  refine ⟨by decide +kernel, by decide +kernel, ?_⟩
  unfold Monotone
  decide +kernel

/-- every hypothesis of `ltsa_columns_affine_on_flat` (hence of `ltsa_affine_in_nullspace`, `ltsa_nullspace_exact`) holds … -/
example : (∀ v : Fin 1 → ℚ, flA *ᵥ v = 0 → v = 0) ∧ ((1 / 2 : ℚ) * (1 / 2) * ((4 : Nat) : ℚ) = 1) ∧
    (∀ i, Spectral.IsTopEig (Mat.toM (localCentered (flatKernel flA flb flT4) (flNb4 i))) (Mat.toM (flU4 i)) (flLam4 i)) ∧
    (∀ i, AffSpan (flNb4 i) flT4) ∧ (∀ i i', Relation.ReflTransGen (Overlap flNb4 flT4) i i') ∧
    (∀ j, ∃ i a, flNb4 i a = j) ∧
    SpectralLocal.GenEigSystem (Mat.toM (ltsaM flNb4 (1 / 2) flU4 (1 / 10))) 1 flV4 flLam4' ∧ 1 + 1 ≤ 4 :=
  ⟨flA_inj, by norm_num, fl4_heig, fl4_hgp, fl4_hconn, by decide, fl4_hsys, by decide⟩

/-- … and the conclusion, instantiated: the returned column (column 1 of `flV4`, `t/10`) is affine in `t` -/
example : ∀ c : Fin 1, IsAffine flT4 (fun i => SpectralLocal.cols flV4 (SpectralLocal.shiftIdx 1 (by decide : 1 + 1 ≤ 4)) i c) :=
  (ltsa_columns_affine_on_flat flNb4 (1 / 2) flU4 (1 / 10) flA flA_inj flb flT4 (by norm_num) flLam4 fl4_heig fl4_hgp
    fl4_hconn (by decide) flV4 flLam4' fl4_hsys (by decide)).2

def flT5 : Fin 5 → Fin 1 → ℚ := fun j _ => ![1, -1, 7, -7, 17] j
def flNb5 : Fin 5 → Fin 4 → Fin 5 := fun i a => if i.1 < 3 then a.castSucc else a.succ
def flU5 : Fin 5 → Mat 4 1 ℚ := fun i a _ =>
  if i.1 < 3 then ![1 / 10, -1 / 10, 7 / 10, -7 / 10] a else ![-5 / 18, 3 / 18, -11 / 18, 13 / 18] a
def flLam5 : Fin 5 → Fin 1 → ℚ := fun i _ => if i.1 < 3 then 2500 else 8100
/-- local index of the shared samples `1` and `2` in the neighbourhood of `i` -/
def flIdx1 : Fin 5 → Fin 4 := fun i => if i.1 < 3 then 1 else 0
def flIdx2 : Fin 5 → Fin 4 := fun i => if i.1 < 3 then 2 else 1

example : (∀ i, Spectral.IsTopEig (Mat.toM (localCentered (flatKernel flA flb flT5) (flNb5 i))) (Mat.toM (flU5 i)) (flLam5 i)) ∧
    (∀ i, AffSpan (flNb5 i) flT5) ∧ (∀ i i', Relation.ReflTransGen (Overlap flNb5 flT5) i i') ∧
    (∀ j, ∃ i a, flNb5 i a = j) := by
  refine ⟨fun i => ?_, fun i => ?_, fun i i' => ?_, by decide⟩
  · exact Cert.certTopEig_sound_zero _ (by revert i; decide +kernel) (flU5 i) (flLam5 i) (by revert i; decide +kernel)
  · exact affSpan_of_two (flNb5 i) flT5 (flIdx1 i) (flIdx2 i) (by revert i; decide +kernel)
  · exact Relation.ReflTransGen.single (overlap_of_two flNb5 flT5 i i' (flIdx1 i) (flIdx1 i') (flIdx2 i) (flIdx2 i')
      (by revert i i'; decide) (by revert i i'; decide) (by revert i; decide +kernel))

/-! ## Flat manifold, HLLE -/

section FlatHlle
variable {K : Type} [Field K] [LinearOrder K] [IsStrictOrderedRing K] {N k d D : Nat}

/-- **HLLE on flat data, inclusion `⊇`, from data-side hypotheses only**: with the local eigensolver contract on flat data
    (`heig`), an exact square root and no vanishing Gram–Schmidt remainder (`GsExact`) and a non-negative column-sum threshold,
    every affine function of the intrinsic coordinates is a null vector of the assembled Hessian alignment matrix.
    (General position is implicit in `GsExact`: the columns `[1 | U | products]` are independent.) -/
theorem hlle_affine_in_nullspace (nb : Fin N → Fin k → Fin N) (sqrtO : K → K) (thr : K) (U : Fin N → Mat k d K)
    (A : Matrix (Fin D) (Fin d) K) (hA : ∀ v : Fin d → K, A *ᵥ v = 0 → v = 0) (b : Fin D → K)
    (T : Fin N → Fin d → K) (hk : (k : K) ≠ 0) (lam : Fin N → Fin d → K)
    (heig : ∀ i, Spectral.IsTopEig (Mat.toM (localCentered (flatKernel A b T) (nb i))) (Mat.toM (U i)) (lam i))
    (hthr : 0 ≤ thr) (hE : ∀ i, GsExact sqrtO [] (hlleYi0 (U i))) (c0 : K) (w : Fin d → K) :
    ∀ M', hlleM nb sqrtO thr U = .ok M' → (Mat.toM M').mulVec (fun j => c0 + ∑ c, T j c * w c) = 0 := by
  intro M' hM
  rw [hlleM_eq_ok (hlle_index_ok d)] at hM
  cases hM
  have hflat := flat_local_span A hA b T nb hk U lam heig
  refine hlle_null_of_local nb sqrtO thr U _ fun s q hq => ?_
  have hgs := (hlle_gs_contract sqrtO thr (not_lt.2 hthr) (U s) (hE s)).2 q hq
  simp only [affine_of_hflat T (nb s) (U s) _ _ (hflat s) c0 w]
  exact hlle_local_affine q (U s) _ _ hgs.1 hgs.2

/-- **HLLE, the first half of the reverse inclusion (`_partial`)**: a null vector of the assembled matrix is, on every
    neighbourhood, orthogonal to every column of `H_i = Yi.rightCols(dp)` (every summand `S_i H_i H_iᵀ S_iᵀ` is PSD).
    MISSING for exactness: that this forces local affinity — true when `k = 1 + d + dp` (then `H_i` completes `[1 | U_i]` to an
    orthonormal basis), a genericity (rank) condition on the sample otherwise; see the FULL STATEMENT comment above. -/
theorem hlle_null_local_partial (nb : Fin N → Fin k → Fin N) (sqrtO : K → K) (thr : K) (U : Fin N → Mat k d K)
    (v : Fin N → K) :
    ∀ M', hlleM nb sqrtO thr U = .ok M' → (Mat.toM M').mulVec v = 0 →
      ∀ s, ∀ q ∈ hlleH sqrtO thr (U s), ∑ b, q.get b * v (nb s b) = 0 := by
  intro M' hM hv
  rw [hlleM_eq_ok (hlle_index_ok d)] at hM
  cases hM
  exact hlle_null_local nb sqrtO thr U v hv

/-- the constant vector is a null vector of the HLLE matrix — `hlle_const_null` with the contract `hgs` discharged by the
    as-written sweep (no flatness needed) -/
theorem hlle_const_null_of_sweep (nb : Fin N → Fin k → Fin N) (sqrtO : K → K) (thr : K) (U : Fin N → Mat k d K)
    (hthr : 0 ≤ thr) (hE : ∀ i, GsExact sqrtO [] (hlleYi0 (U i))) :
    ∀ M', hlleM nb sqrtO thr U = .ok M' → (Mat.toM M').mulVec (fun _ => 1) = 0 :=
  hlle_const_null nb sqrtO thr U fun i => (hlle_gs_contract sqrtO thr (not_lt.2 hthr) (U i) (hE i)).2

/-- **HLLE on flat data, the null space EXACTLY, at the minimum neighbourhood size `k = 1 + d + dp`** (the smallest `k`
    the method accepts): `[1 | U_i | H_i]` is then a square matrix with (bi)orthogonal columns, so a vector orthogonal to `H_i`
    is in `span{1, U_i}`; with general position, connected overlapping cover: null space = affine functions.
    For `k > 1 + d + dp` the statement needs a genericity condition on the sample and is NOT proved (see the FULL STATEMENT
    comment in §3b).  Non-vacuity: no instance over ℚ exists (the sweep normalises the constant column by `√k`, and
    `k = 3, 6, 10, 15, 21, 28` are not squares — `GsExact` is unsatisfiable in ℚ for `d ≤ 6`); the hypotheses are jointly
    satisfiable over ℝ (generic samples), which is not machine-checked here. -/
theorem hlle_nullspace_exact_min_k (nb : Fin N → Fin k → Fin N) (sqrtO : K → K) (thr : K) (U : Fin N → Mat k d K)
    (hkmin : k = (d + 1) + hlleDp d)
    (A : Matrix (Fin D) (Fin d) K) (hA : ∀ v : Fin d → K, A *ᵥ v = 0 → v = 0) (b : Fin D → K)
    (T : Fin N → Fin d → K) (hk : (k : K) ≠ 0) (lam : Fin N → Fin d → K)
    (heig : ∀ i, Spectral.IsTopEig (Mat.toM (localCentered (flatKernel A b T) (nb i))) (Mat.toM (U i)) (lam i))
    (hgp : ∀ i, AffSpan (nb i) T)
    (hthr : 0 ≤ thr) (hE : ∀ i, GsExact sqrtO [] (hlleYi0 (U i)))
    (hconn : ∀ i i', Relation.ReflTransGen (Overlap nb T) i i') (hcover : ∀ j, ∃ i a, nb i a = j)
    (v : Fin N → K) :
    ∀ M', hlleM nb sqrtO thr U = .ok M' → ((Mat.toM M').mulVec v = 0 ↔ IsAffine T v) := by
  intro M' hM
  constructor
  · intro hv
    have hM' := hM
    rw [hlleM_eq_ok (hlle_index_ok d)] at hM'
    cases hM'
    exact affine_of_locally_affine nb T v
      (hlle_null_locally_affine (fun _ _ => rfl) nb sqrtO thr U hkmin A hA b T hk lam heig hgp hthr hE v hv)
      hconn hcover
  · rintro ⟨c0, w, hw⟩
    have : v = fun j => c0 + ∑ c, T j c * w c := funext hw
    rw [this]
    exact hlle_affine_in_nullspace nb sqrtO thr U A hA b T hk lam heig hthr hE c0 w M' hM

/-- **The property's last sentence for HLLE at `k = 1 + d + dp`**: every column returned after skipping the first eigenvector
    is an affine function of the intrinsic coordinates (and so is the skipped one; the eigenvalue `0` has multiplicity `d + 1`). -/
theorem hlle_columns_affine_on_flat_min_k (nb : Fin N → Fin k → Fin N) (sqrtO : K → K) (thr : K)
    (U : Fin N → Mat k d K) (hkmin : k = (d + 1) + hlleDp d)
    (A : Matrix (Fin D) (Fin d) K) (hA : ∀ v : Fin d → K, A *ᵥ v = 0 → v = 0) (b : Fin D → K)
    (T : Fin N → Fin d → K) (hk : (k : K) ≠ 0) (lam : Fin N → Fin d → K)
    (heig : ∀ i, Spectral.IsTopEig (Mat.toM (localCentered (flatKernel A b T) (nb i))) (Mat.toM (U i)) (lam i))
    (hgp : ∀ i, AffSpan (nb i) T)
    (hthr : 0 ≤ thr) (hE : ∀ i, GsExact sqrtO [] (hlleYi0 (U i)))
    (hconn : ∀ i i', Relation.ReflTransGen (Overlap nb T) i i') (hcover : ∀ j, ∃ i a, nb i a = j)
    (M' : Mat N N K) (hM : hlleM nb sqrtO thr U = .ok M')
    (V : Matrix (Fin N) (Fin N) K) (lam' : Fin N → K)
    (hsys : SpectralLocal.GenEigSystem (Mat.toM M') 1 V lam') (hd : 1 + d ≤ N) :
    (∀ j : Fin N, j.1 < d + 1 → lam' j = 0 ∧ IsAffine T (fun i => V i j)) ∧
    ∀ c : Fin d, IsAffine T (fun i => SpectralLocal.cols V (SpectralLocal.shiftIdx 1 hd) i c) := by
  have hk0 : 0 < k := by omega
  have hge : ∀ j, 0 ≤ lam' j :=
    psd_eigenvalues_ge _ V lam' hsys 0 fun x => by
      rw [zero_mul]
      exact hlle_psd nb sqrtO thr U x M' hM
  have hF : ∀ w : Fin (d + 1) → K, Mat.toM M' *ᵥ (affBasis T *ᵥ w) = (0 : K) • (affBasis T *ᵥ w) := by
    intro w
    have h0 := hlle_affine_in_nullspace nb sqrtO thr U A hA b T hk lam heig hthr hE (w 0) (fun c => w c.succ) M' hM
    have e : (fun j => w 0 + ∑ c, T j c * w c.succ) = affBasis T *ᵥ w := funext fun j => (affBasis_mulVec T w j).symm
    rw [e] at h0
    rw [h0, zero_smul]
  have hinj := affBasis_injective (nb ⟨0, by omega⟩) T hk0 (hgp ⟨0, by omega⟩)
  have hbot := bottom_eigs_of_null _ V lam' hsys 0 hge (affBasis T) hF hinj
  have hall : ∀ j : Fin N, j.1 < d + 1 → lam' j = 0 ∧ IsAffine T (fun i => V i j) := by
    intro j hj
    refine ⟨hbot j hj, ?_⟩
    apply (hlle_nullspace_exact_min_k nb sqrtO thr U hkmin A hA b T hk lam heig hgp hthr hE hconn hcover _ M' hM).1
    have := SpectralLocal.eigen_equation_col hsys j
    rw [hbot j hj, zero_smul] at this
    exact this
  refine ⟨hall, fun c => ?_⟩
  exact (hall (SpectralLocal.shiftIdx 1 hd c) (by simp only [SpectralLocal.shiftIdx]; have := c.2; omega)).2

end FlatHlle

/-- non-vacuity of `hlle_affine_in_nullspace` over ℚ: the `N = 4` flat data set above with the orthonormal local eigenvector
    `U = (1,−1,7,−7)ᵀ/10`; the square root is exact on the three squared norms that occur (`4`, `1`, `2304/10000`) -/
example :
    let sqrtO : ℚ → ℚ := fun x => if x = 4 then 2 else if x = 1 then 1 else if x = 2304 / 10000 then 12 / 25 else 1
    (((4 : Nat) : ℚ) ≠ 0) ∧ (0 ≤ (1 / 10000 : ℚ)) ∧ (∀ i, GsExact sqrtO [] (hlleYi0 (flU4 i))) ∧
    (∀ i, (hlleH sqrtO (1 / 10000) (flU4 i)).map (fun h => (List.finRange 4).map h.get) = [[-1/2, -1/2, 1/2, 1/2]]) := by
  intro sqrtO
  refine ⟨by norm_num, by norm_num, by decide +kernel, by decide +kernel⟩

/-- … and the conclusion instantiated on that data set (with `flA_inj`, `fl4_heig` for the remaining hypotheses): the function
    `j ↦ 5 + 3·t_j` is annihilated by the HLLE matrix the model assembles -/
example : ∀ M', hlleM flNb4
      (fun x : ℚ => if x = 4 then 2 else if x = 1 then 1 else if x = 2304 / 10000 then 12 / 25 else 1) (1 / 10000) flU4 = .ok M' →
    (Mat.toM M').mulVec (fun j => 5 + ∑ c, flT4 j c * (fun _ => (3 : ℚ)) c) = 0 :=
  hlle_affine_in_nullspace flNb4 _ (1 / 10000) flU4 flA flA_inj flb flT4 (by norm_num) flLam4 fl4_heig (by norm_num)
    (by decide +kernel) 5 (fun _ => 3)

/-! ## Assembly facts re-exported from `Proofs/Triplets.lean` (named in the MANIFEST) -/

section TripletFacts
variable {K' : Type} [AddCommMonoid K'] {n' m' : Nat}

/-- the assembled sparse matrix does not depend on the order in which the OpenMP critical section appended the
    per-sample blocks -/
theorem fromTriplets_perm {a b : List (Triplet n' m' K')} (h : a.Perm b) : fromTriplets a = fromTriplets b :=
  _root_.TapkeeVerif.fromTriplets_perm h

/-- the one-pass `+=` assembly (what `setFromTriplets` does, what the driver runs) is the sum of duplicates -/
theorem fromTripletsD_get (ts : List (Triplet n' m' K')) : (fromTripletsD ts).get = fromTriplets ts :=
  _root_.TapkeeVerif.fromTripletsD_get ts

end TripletFacts

end TapkeeVerif.C08
