import TapkeeVerif.Proofs.Params
/-!
# Property C14 — invalid requests raise the documented exception before any computation

Statements only (helper lemmas live in `Proofs/Params.lean`).  The model `frontEnd` interprets the tables that
tools/translate_front.py regenerates from the headers (`Gen.frontSteps`, `Gen.validate`, `Gen.embedBody`,
`Gen.dispatch`, `Gen.rethrow`, `Gen.defaultsList`, `Kw.default`, `Kw.documented`, `Meth.traits`), so every theorem
below is re-stated by an edit of the source and re-checked by `lake build`.
-/
namespace TapkeeVerif.C14
open TapkeeVerif.Front TapkeeVerif.Gen TapkeeVerif.Params

/-! ## duplicates, explicit values, defaults (all lists, any order, any multiplicity) -/

/-- a keyword given twice - anywhere in the list, with any multiplicity, with equal or different values, whatever
    else is wrong with the request - is answered by `tapkee::multiple_parameter_error` before any callback use -/
theorem duplicates_always_rejected (r : Request) (h : ¬ (r.kws.map Param.kw).Nodup) :
    frontEnd r = ⟨.threw (errT .multiple_parameter_error), Counts.zero⟩ := by
  have hc := check_ofList r.kws
  simp only [h, if_false] at hc
  simp [frontEnd, frontSteps, runSteps, runStep, initState, hc, M.bind, M.lift, M.throw, M.stop, mapErr, rethrow, errS, errT]

/-- … and a list without a repeated keyword is never answered by `multiple_parameter_error` -/
theorem no_duplicates_not_rejected (r : Request) (h : (r.kws.map Param.kw).Nodup) :
    (PSet.ofList r.kws).check = .ok () := by
  rw [check_ofList]; simp [h]

/-- explicitly set values are never replaced by defaults -/
theorem explicit_values_kept (r : Request) (h : (r.kws.map Param.kw).Nodup) (p : Param) (hp : p ∈ r.kws) :
    (merged r).get p.kw = .ok p.val := by
  simp [PSet.get, lookup_merged, lastVal_of_mem_nodup r.kws h p hp]

/-- the value held by every keyword of `tapkee_internal::defaults` equals the keyword's default value -/
theorem defaults_hold_default : ∀ k ∈ defaultsList, lookup k defaults.pmap = some k.default := by decide

/-- unset keywords take their defaults -/
theorem unset_take_defaults (r : Request) (k : Kw) (hk : k ∈ defaultsList) (h : ∀ p ∈ r.kws, p.kw ≠ k) :
    (merged r).get k = .ok k.default := by
  simp [PSet.get, lookup_merged, (lastVal_none_iff k r.kws).mpr h, defaults_hold_default k hk]

/-- the "Default value is …" sentence of every keyword's doc comment states the value the keyword really carries,
    and every keyword except `method` has a default in `tapkee_internal::defaults` -/
theorem documented_default_eq_actual :
    (∀ k : Kw, ∀ v, k.documented = some v → v = k.default) ∧ (∀ k : Kw, k ≠ .method → k ∈ defaultsList) := by
  constructor
  · intro k; cases k <;> simp [Kw.documented, Kw.default]
  · intro k; cases k <;> simp [defaultsList]

/-- hence: unset keywords take their *documented* defaults -/
theorem unset_take_documented_defaults (r : Request) (k : Kw) (v : Val) (hd : k.documented = some v)
    (h : ∀ p ∈ r.kws, p.kw ≠ k) : (merged r).get k = .ok v := by
  have hm : k ≠ .method := by intro hk; subst hk; simp [Kw.documented] at hd
  rw [documented_default_eq_actual.1 k v hd]
  exact unset_take_defaults r k (documented_default_eq_actual.2 k hm) h

/-- every exception class stichwort defines is caught by `tapkee::embed` and rethrown as its tapkee twin -/
theorem rethrow_map_total :
    ∀ c ∈ stichwortClasses, mapErr ⟨.stichwort, c⟩ rethrow = ⟨.tapkee, c⟩ := by decide

end TapkeeVerif.C14
