import TapkeeVerif.Proofs.ParamsBridge
/-!
# Property C14 — invalid requests raise the documented exception before any computation

Statements only (helper lemmas live in `Proofs/Params.lean`).  The model `frontEnd` interprets the tables that
tools/translate_front.py regenerates from the headers (`Gen.frontSteps`, `Gen.validate`, `Gen.embedBody`,
`Gen.dispatch`, `Gen.rethrow`, `Gen.defaultsList`, `Kw.default`, `Kw.documented`, `Meth.traits`), so every theorem
below is re-stated by an edit of the source and re-checked by `lake build`.
-/
namespace TapkeeVerif.C14
open TapkeeVerif.Front TapkeeVerif.Gen TapkeeVerif.Params

/-! ## duplicates, explicit values, defaults (all lists, any order, any multiplicity) -/

/-- a keyword given twice - anywhere in the list, with any multiplicity, with equal or different values, whatever
    else is wrong with the request - is answered by `tapkee::multiple_parameter_error` before any callback use -/
theorem duplicates_always_rejected (r : Request) (h : ¬ (r.kws.map Param.kw).Nodup) :
    frontEnd r = ⟨.threw (errT .multiple_parameter_error), Counts.zero⟩ := by
  have hc := check_ofList r.kws
  simp only [h, if_false] at hc
  simp [frontEnd, frontSteps, runSteps, runStep, initState, hc, M.bind, M.lift, M.throw, M.stop, mapErr, rethrow, errS, errT]

/-- … and a list without a repeated keyword is never answered by `multiple_parameter_error` -/
theorem no_duplicates_not_rejected (r : Request) (h : (r.kws.map Param.kw).Nodup) :
    (PSet.ofList r.kws).check = .ok () := by
  rw [check_ofList]; simp [h]

/-- `merge(defaults)` either throws `wrong_parameter_type_error` (a given keyword holds a value whose type differs from
    its default's) or returns the set `merged r` the two theorems below speak about -/
theorem merge_outcome (r : Request) (h : (r.kws.map Param.kw).Nodup) :
    (PSet.ofList r.kws).merge defaults = .ok (merged r) ∨
    (PSet.ofList r.kws).merge defaults = .error (errS .wrong_parameter_type_error) := by
  rcases merge_defaults_cases r h with h1 | h1
  · exact Or.inl h1.1
  · exact Or.inr h1.1

/-- explicitly set values are never replaced by defaults -/
theorem explicit_values_kept (r : Request) (h : (r.kws.map Param.kw).Nodup) (p : Param) (hp : p ∈ r.kws) :
    (merged r).get p.kw = .ok p.val := by
  simp [PSet.get, lookup_merged, lastVal_of_mem_nodup r.kws h p hp]

/-- non-vacuity: an explicit `num_neighbors = 7` survives the merge, an unset `target_dimension` shows its default 2 -/
example : (merged ⟨10, [⟨.method, .method .Isomap⟩, ⟨.num_neighbors, .int 7⟩], false, true, false, false, 10⟩).get .num_neighbors
    = .ok (.int 7) ∧
    (merged ⟨10, [⟨.method, .method .Isomap⟩, ⟨.num_neighbors, .int 7⟩], false, true, false, false, 10⟩).get .target_dimension
    = .ok (.int 2) := ⟨rfl, rfl⟩

/-- the value held by every keyword of `tapkee_internal::defaults` equals the keyword's default value -/
theorem defaults_hold_default : ∀ k ∈ defaultsList, lookup k defaults.pmap = some k.default := defaults_lookup

/-- unset keywords take their defaults -/
theorem unset_take_defaults (r : Request) (k : Kw) (hk : k ∈ defaultsList) (h : ∀ p ∈ r.kws, p.kw ≠ k) :
    (merged r).get k = .ok k.default := by
  simp [PSet.get, lookup_merged, (lastVal_none_iff k r.kws).mpr h, defaults_hold_default k hk]

/-- the "Default value is …" sentence of every keyword's doc comment states the value the keyword really carries,
    and every keyword except `method` has a default in `tapkee_internal::defaults` -/
theorem documented_default_eq_actual :
    (∀ k : Kw, ∀ v, k.documented = some v → v = k.default) ∧ (∀ k : Kw, k ≠ .method → k ∈ defaultsList) := by
  constructor
  · intro k; cases k <;> simp [Kw.documented, Kw.default]
  · intro k; cases k <;> simp [defaultsList]

/-- hence: unset keywords take their *documented* defaults -/
theorem unset_take_documented_defaults (r : Request) (k : Kw) (v : Val) (hd : k.documented = some v)
    (h : ∀ p ∈ r.kws, p.kw ≠ k) : (merged r).get k = .ok v := by
  have hm : k ≠ .method := by intro hk; subst hk; simp [Kw.documented] at hd
  rw [documented_default_eq_actual.1 k v hd]
  exact unset_take_defaults r k (documented_default_eq_actual.2 k hm) h

/-! ## the bound table (all methods, all N, all values) -/

/-- a request that is wrong in no other respect than, possibly, a value outside its documented range -/
structure WellFormed (r : Request) (m : Meth) : Prop where
  nodup : (r.kws.map Param.kw).Nodup                      -- no keyword given twice
  method : (⟨.method, .method m⟩ : Param) ∈ r.kws          -- `method = m` is given
  typed : WellTyped r                                      -- every value has its keyword's type
  nonempty : r.n ≠ 0                                       -- the range is not empty
  noCancel : ∀ p ∈ r.kws, p.val ≠ .cancelFn (some true)    -- no cancel function that returns true
  callbacks : DeclaredSupplied m r                         -- the callbacks `m` declares to need are supplied

/-- is `spe_global_strategy` set to `false` in a parameter set? -/
def speLocal (ps : PSet) : Bool := lookup .spe_global_strategy ps.pmap == some (.bool false)

theorem typedOf_meth (r : Request) (m : Meth) (wf : WellFormed r m) :
    (typedOf (merged r).pmap).meth .method = m := by
  have h := explicit_values_kept r wf.nodup _ wf.method
  simp only [PSet.get] at h
  cases hl : lookup Kw.method (merged r).pmap with
  | none => simp [hl] at h
  | some v => simp [hl] at h; subst h; simp [typedOf, hl]

theorem typedOf_cancel (r : Request) (m : Meth) (wf : WellFormed r m) :
    (typedOf (merged r).pmap).cancel .cancel_function ≠ some true := by
  intro hcontra
  have hl := lookup_merged r .cancel_function
  cases hv : lastVal .cancel_function r.kws with
  | some v =>
    obtain ⟨p, hp, _, hpv⟩ := lastVal_some _ _ _ hv
    rw [hv] at hl
    simp only [typedOf, hl] at hcontra
    cases v <;> simp at hcontra
    subst hcontra
    exact wf.noCancel p hp hpv
  | none =>
    rw [hv] at hl
    simp only [defaults_lookup .cancel_function (by decide)] at hl
    simp [typedOf, hl, Kw.default] at hcontra

theorem typedOf_speLocal (r : Request) (m : Meth) (wf : WellFormed r m) :
    ((typedOf (merged r).pmap).bool .spe_global_strategy == false) = speLocal (merged r) := by
  obtain ⟨v, hv, hty⟩ := merged_typed r (wellTyped_defaults r wf.typed)
    ⟨m, lookup_method r wf.nodup m wf.method⟩ .spe_global_strategy
  cases v <;> simp [Val.ty, Kw.ty] at hty
  rename_i b
  cases b <;> simp [typedOf, speLocal, hv]

/-- **The bound table.**  For every method, every N ≥ 1 and all values: a request that is wrong in no other respect is
    rejected with `tapkee::wrong_parameter_error` **iff** some documented range that applies to the method is violated
    (so values on the valid side of every bound are accepted, values on the wrong side are rejected).  The left side is
    computed from the regenerated `validate()` / constructor / `find_neighbors_with` tables, the right side is the
    hand-written specification `SpecHolds`. -/
theorem validate_matches_spec (r : Request) (m : Meth) (wf : WellFormed r m) :
    (frontEnd r).outcome = .threw (errT .wrong_parameter_error) ↔
      ¬ SpecHolds m r.n (if r.hasF then r.dim else 0) (numOf (merged r)) (speLocal (merged r)) := by
  have htyped := merged_typed r (wellTyped_defaults r wf.typed) ⟨m, lookup_method r wf.nodup m wf.method⟩
  have hget := typedOf_get (merged r) htyped
  have hv := verdict m r (typedOf (merged r).pmap) (merged r) hget (typedOf_meth r m wf)
  obtain ⟨h1, -, -, h4⟩ := hv
  have h1 := h1 wf.nonempty (typedOf_cancel r m wf) wf.callbacks
  have hnum : (typedOf (merged r).pmap).num = numOf (merged r) := funext (typedOf_num (merged r) htyped)
  rw [hnum, typedOf_speLocal r m wf] at h1
  rw [← h1, frontEnd_eq r wf.nodup (wellTyped_defaults r wf.typed)]
  generalize afterMerge r (merged r) = x at h4 ⊢
  obtain ⟨a, c⟩ := x
  cases a with
  | ok s => simp [finish, wpe]
  | error s =>
    cases s with
    | reached cb => simp [finish, wpe]
    | threw e =>
      have := mapErr_wpe_iff e (h4 e rfl)
      simp [finish, wpe, this]

/-- … in particular, with every applicable range respected the request is *not* answered by `wrong_parameter_error` -/
theorem valid_side_accepted (r : Request) (m : Meth) (wf : WellFormed r m)
    (h : SpecHolds m r.n (if r.hasF then r.dim else 0) (numOf (merged r)) (speLocal (merged r))) :
    (frontEnd r).outcome ≠ .threw (errT .wrong_parameter_error) :=
  fun hc => ((validate_matches_spec r m wf).mp hc) h

/-- **NaN is never accepted where a range is documented**: the specification is false as soon as a real keyword that
    has a documented range for the method holds NaN (IEEE: every comparison with NaN is false), hence - by
    `validate_matches_spec` - such a request is answered by `wrong_parameter_error`.  `+inf` is excluded by every
    bounded range and admitted by the one-sided ones ("non-positive width", "negative theta" do not describe it). -/
theorem nan_violates_spec (m : Meth) (n dim : Nat) (v : Kw → XReal) (b : Bool)
    (h : (m ∈ [Meth.LaplacianEigenmaps, .LocalityPreservingProjections, .DiffusionMap] ∧ v .gaussian_kernel_width = .nan) ∨
         (m = .StochasticProximityEmbedding ∧ v .spe_tolerance = .nan) ∨
         (m ∈ [Meth.LandmarkIsomap, .LandmarkMultidimensionalScaling] ∧ v .landmark_ratio = .nan) ∨
         (m = .tDistributedStochasticNeighborEmbedding ∧ (v .sne_perplexity = .nan ∨ v .sne_theta = .nan)) ∨
         (m = .FactorAnalysis ∧ v .fa_epsilon = .nan) ∨
         (m = .ManifoldSculpting ∧ v .squishing_rate = .nan)) :
    ¬ SpecHolds m n dim v b := by
  intro hs
  obtain ⟨⟨-, -, h3, -, h5, h6, h7, h8, h9⟩, -⟩ := hs
  rcases h with ⟨hm, hv⟩ | ⟨hm, hv⟩ | ⟨hm, hv⟩ | ⟨hm, hv | hv⟩ | ⟨hm, hv⟩ | ⟨hm, hv⟩
  · have := h3 hm; rw [hv] at this; exact XReal.lt_nan _ this
  · have := (h5 hm).1; rw [hv] at this; exact XReal.lt_nan _ this
  · have := (h6 hm).1; rw [hv] at this; exact XReal.le_nan _ this
  · have := (h7 hm).1.1; rw [hv] at this; exact XReal.le_nan _ this
  · have := (h7 hm).2; rw [hv] at this; exact XReal.le_nan _ this
  · have := h8 hm; rw [hv] at this; exact XReal.le_nan _ this
  · have := (h9 hm).1; rw [hv] at this; exact XReal.le_nan _ this

/-- non-vacuity / the cases of seeded change C14-t2a: NaN and ±inf at work on the model -/
example : (frontEnd ⟨10, [⟨.method, .method .ManifoldSculpting⟩, ⟨.squishing_rate, .real .nan⟩], false, true, true, false, 10⟩).outcome
    = .threw (errT .wrong_parameter_error) := by decide +kernel
example : (frontEnd ⟨10, [⟨.method, .method .LandmarkIsomap⟩, ⟨.landmark_ratio, .real .posInf⟩], false, true, false, false, 10⟩).outcome
    = .threw (errT .wrong_parameter_error) := by decide +kernel
example : (frontEnd ⟨10, [⟨.method, .method .LaplacianEigenmaps⟩, ⟨.gaussian_kernel_width, .real .posInf⟩], false, true, false, true, 10⟩).outcome
    = .reached .distance := by decide +kernel

/-- non-vacuity: a concrete well-formed Isomap request (N = 10, k = 3) meets `WellFormed` and the specification -/
example : WellFormed ⟨10, [⟨.method, .method .Isomap⟩, ⟨.num_neighbors, .int 3⟩], false, true, false, false, 10⟩ .Isomap :=
  ⟨by decide, by decide, by intro p hp; simp at hp; rcases hp with rfl | rfl <;> rfl, by decide,
   by intro p hp; simp at hp; rcases hp with rfl | rfl <;> simp, by simp [DeclaredSupplied, Meth.traits]⟩

/-! ## nothing is evaluated before an error -/

/-- the method value of the merged set, classified -/
theorem method_cases (r : Request) :
    lookup Kw.method (merged r).pmap = none ∨
    (∃ v, lookup Kw.method (merged r).pmap = some v ∧ v.ty ≠ .method) ∨
    (∃ m, lookup Kw.method (merged r).pmap = some (.method m)) := by
  cases h : lookup Kw.method (merged r).pmap with
  | none => exact Or.inl rfl
  | some v =>
    cases v with
    | method m => exact Or.inr (Or.inr ⟨m, rfl⟩)
    | _ => exact Or.inr (Or.inl ⟨_, rfl, by simp [Val.ty]⟩)

/-- **No callback before an error** (full statement of the property text).  Whatever is wrong with a request -
    duplicates in any order and multiplicity, values of the wrong type, no method, no data, values outside their ranges,
    cancel, any subset of callbacks missing, in either harness mode - the exception comes before any kernel or distance
    evaluation.  This covers the `num_neighbors` check, which sits inside `embed()`: the generated `Gen.embedBody` shows
    it in front of every kernel / distance use of every method.  (Before repository commit 6b3b662 this was false:
    finding F-TYPE-LATE, witness kept in corpus/C14/f-type-late.case.) -/
theorem no_callback_before_error (r : Request) (e : Err) (h : (frontEnd r).outcome = .threw e) :
    (frontEnd r).counts.kernel = 0 ∧ (frontEnd r).counts.distance = 0 := by
  by_cases hn : (r.kws.map Param.kw).Nodup
  · rcases merge_defaults_cases r hn with ⟨-, ht⟩ | ⟨hm, -⟩
    · rw [frontEnd_eq r hn ht] at h ⊢
      rcases method_cases r with hl | ⟨v, hl, hty⟩ | hm
      · rw [afterMerge_no_method r _ hl]; simp [finish, Counts.zero]
      · rw [afterMerge_method_wrong_type r _ v hl hty]; simp [finish, Counts.zero]
      · have htyped := merged_typed r ht hm
        have hv := verdict _ r (typedOf (merged r).pmap) (merged r) (typedOf_get (merged r) htyped) rfl
        obtain ⟨-, h2, -, -⟩ := hv
        generalize afterMerge r (merged r) = x at h h2 ⊢
        obtain ⟨a, c⟩ := x
        cases a with
        | ok s => simp [finish] at h
        | error s =>
          cases s with
          | reached cb => simp [finish] at h
          | threw e' => exact h2 e' rfl
    · rw [frontEnd_merge_error r hn hm]; simp [Counts.zero]
  · rw [duplicates_always_rejected r hn]
    simp [Counts.zero]

/-- non-vacuity: requests that end in an error -/
example : (frontEnd ⟨5, [⟨.method, .method .Isomap⟩, ⟨.num_neighbors, .int 7⟩], false, true, false, false, 10⟩).outcome =
      .threw (errT .wrong_parameter_error) := by decide +kernel
example : frontEnd ⟨10, [⟨.method, .method .Isomap⟩, ⟨.eigen_method, .int 3⟩], false, true, false, false, 10⟩ =
      ⟨.threw (errT .wrong_parameter_type_error), Counts.zero⟩ := by decide +kernel

/-- **A value of the wrong type is always reported**, before anything is computed: any keyword that has a default
    (every keyword except `method`) given with a value of another C++ type, anywhere in a duplicate-free list -/
theorem wrong_type_always_rejected (r : Request) (hn : (r.kws.map Param.kw).Nodup) (p : Param) (hp : p ∈ r.kws)
    (hk : p.kw ≠ .method) (hty : p.val.ty ≠ p.kw.ty) :
    frontEnd r = ⟨.threw (errT .wrong_parameter_type_error), Counts.zero⟩ :=
  frontEnd_merge_error r hn (merge_defaults_fails r p hp hn (documented_default_eq_actual.2 p.kw hk) hty)

/-! ## which exception, in the order the code checks (the names state the precedence) -/

/-- a request whose keyword list is free of duplicates, names a method and is well typed -/
structure Typed (r : Request) : Prop where
  nodup : (r.kws.map Param.kw).Nodup
  method : ∃ m, (⟨.method, .method m⟩ : Param) ∈ r.kws
  typed : WellTyped r

/-- non-vacuity: a concrete request meeting `Typed`, and the precedence theorems at work on it (N = 0 with a bad
    `target_dimension`, a firing cancel function and no callbacks at all is answered by `no_data_error`) -/
example : Typed ⟨0, [⟨.target_dimension, .int 0⟩, ⟨.method, .method .Isomap⟩, ⟨.cancel_function, .cancelFn (some true)⟩],
    false, false, false, false, 10⟩ :=
  ⟨by decide, ⟨.Isomap, by simp⟩, by intro p hp; simp at hp; rcases hp with rfl | rfl | rfl <;> rfl⟩
example : frontEnd ⟨0, [⟨.target_dimension, .int 0⟩, ⟨.method, .method .Isomap⟩, ⟨.cancel_function, .cancelFn (some true)⟩],
    false, false, false, false, 10⟩ = ⟨.threw (errT .no_data_error), Counts.zero⟩ := by decide +kernel

theorem Typed.merged_typed {r : Request} (h : Typed r) (k : Kw) :
    ∃ v, lookup k (merged r).pmap = some v ∧ v.ty = k.ty := by
  obtain ⟨m, hm⟩ := h.method
  exact Params.merged_typed r (wellTyped_defaults r h.typed) ⟨m, lookup_method r h.nodup m hm⟩ k

/-- duplicates come first: see `duplicates_always_rejected` (no hypothesis besides the repeated keyword). -/
theorem dups_before_everything (r : Request) (h : ¬ (r.kws.map Param.kw).Nodup) :
    (frontEnd r).outcome = .threw (errT .multiple_parameter_error) := by
  rw [duplicates_always_rejected r h]

/-- a wrong-typed value (of a keyword with a default) is reported before a missing method, an empty range, … -/
theorem wrong_type_before_missing_method (r : Request) (hn : (r.kws.map Param.kw).Nodup) (p : Param) (hp : p ∈ r.kws)
    (hk : p.kw ≠ .method) (hty : p.val.ty ≠ p.kw.ty) (_hm : ∀ q ∈ r.kws, q.kw ≠ Kw.method) (_h0 : r.n = 0) :
    (frontEnd r).outcome = .threw (errT .wrong_parameter_type_error) := by
  rw [wrong_type_always_rejected r hn p hp hk hty]

/-- a missing method is reported (`missed_parameter_error`) before the empty range, wrong values, cancel, callbacks -/
theorem missing_method_before_no_data (r : Request) (hn : (r.kws.map Param.kw).Nodup) (ht : WellTyped r)
    (hm : ∀ p ∈ r.kws, p.kw ≠ Kw.method) :
    frontEnd r = ⟨.threw (errT .missed_parameter_error), Counts.zero⟩ := by
  have hl : lookup .method (merged r).pmap = none := by
    rw [lookup_merged, (lastVal_none_iff _ _).mpr hm]; decide
  rw [frontEnd_eq r hn (wellTyped_defaults r ht), afterMerge_no_method r _ hl]; decide

/-- a `method` value of the wrong type is reported (`wrong_parameter_type_error`) before the empty range, … -/
theorem method_type_before_no_data (r : Request) (hn : (r.kws.map Param.kw).Nodup)
    (ht : ∀ p ∈ r.kws, p.kw ∈ defaultsList → p.val.ty = p.kw.ty) (p : Param) (hp : p ∈ r.kws)
    (hk : p.kw = Kw.method) (hty : p.val.ty ≠ .method) :
    frontEnd r = ⟨.threw (errT .wrong_parameter_type_error), Counts.zero⟩ := by
  have hl : lookup .method (merged r).pmap = some p.val := by
    have := lookup_merged_explicit r hn p hp
    rwa [hk] at this
  rw [frontEnd_eq r hn ht, afterMerge_method_wrong_type r _ _ hl hty]; decide

/-- an empty range is reported (`no_data_error`) before any value is looked at -/
theorem no_data_before_ranges (r : Request) (h : Typed r) (hn : r.n = 0) :
    frontEnd r = ⟨.threw (errT .no_data_error), Counts.zero⟩ := by
  rw [frontEnd_eq r h.nodup (wellTyped_defaults r h.typed),
    prefix_no_data r _ _ (typedOf_get (merged r) h.merged_typed) hn]; decide

/-- `target_dimension` outside `[1, N)` is reported (`wrong_parameter_error`) before cancel and the callback checks -/
theorem dimension_before_cancel (r : Request) (h : Typed r) (hn : r.n ≠ 0)
    (hd : ¬ (1 ≤ numOf (merged r) .target_dimension ∧ numOf (merged r) .target_dimension < r.n)) :
    frontEnd r = ⟨.threw (errT .wrong_parameter_error), Counts.zero⟩ := by
  have hnum := typedOf_num (merged r) h.merged_typed .target_dimension
  simp only [TypedVals.num, Kw.ty] at hnum
  rw [← hnum] at hd
  rw [frontEnd_eq r h.nodup (wellTyped_defaults r h.typed),
    prefix_dimension r _ _ (typedOf_get (merged r) h.merged_typed) hn hd]; decide

/-- a cancel function returning true is honoured (`cancelled_exception`) before the callback checks and `validate()` -/
theorem cancel_before_callbacks (r : Request) (h : Typed r) (hn : r.n ≠ 0)
    (hd : 1 ≤ numOf (merged r) .target_dimension ∧ numOf (merged r) .target_dimension < r.n)
    (hc : lookup .cancel_function (merged r).pmap = some (.cancelFn (some true))) :
    frontEnd r = ⟨.threw (errT .cancelled_exception), Counts.zero⟩ := by
  have hnum := typedOf_num (merged r) h.merged_typed .target_dimension
  simp only [TypedVals.num, Kw.ty] at hnum
  rw [← hnum] at hd
  have hc' : (typedOf (merged r).pmap).cancel .cancel_function = some true := by simp [typedOf, hc]
  rw [frontEnd_eq r h.nodup (wellTyped_defaults r h.typed),
    prefix_cancel r _ _ (typedOf_get (merged r) h.merged_typed) hn hd hc']; decide

/-- a missing declared callback is reported (`unsupported_method_error`) before `validate()` -/
theorem callbacks_before_validate (r : Request) (m : Meth) (h : Typed r) (hn : r.n ≠ 0)
    (hm : lookup .method (merged r).pmap = some (.method m))
    (hd : 1 ≤ numOf (merged r) .target_dimension ∧ numOf (merged r) .target_dimension < r.n)
    (hc : lookup .cancel_function (merged r).pmap ≠ some (.cancelFn (some true)))
    (hs : ¬ DeclaredSupplied m r) :
    frontEnd r = ⟨.threw (errT .unsupported_method_error), Counts.zero⟩ := by
  have htyped := h.merged_typed
  have hnum := typedOf_num (merged r) htyped .target_dimension
  simp only [TypedVals.num, Kw.ty] at hnum
  rw [← hnum] at hd
  have hm' : (typedOf (merged r).pmap).meth .method = m := by simp [typedOf, hm]
  have hc' : (typedOf (merged r).pmap).cancel .cancel_function ≠ some true := by
    obtain ⟨v, hv, hty⟩ := htyped .cancel_function
    cases v <;> simp [Val.ty, Kw.ty] at hty
    rename_i c
    simp only [typedOf, hv]
    intro hcc; subst hcc; exact hc hv
  rw [← hm'] at hs
  rw [frontEnd_eq r h.nodup (wellTyped_defaults r h.typed),
    prefix_callbacks r _ _ (typedOf_get (merged r) htyped) hn hd hc' hs]; decide

/-- every exception class stichwort defines is caught by `tapkee::embed` and rethrown as its tapkee twin -/
theorem rethrow_map_total :
    ∀ c ∈ stichwortClasses, mapErr ⟨.stichwort, c⟩ rethrow = ⟨.tapkee, c⟩ := by decide

end TapkeeVerif.C14
