import TapkeeVerif.Model.Params
/-! Property C14 (work in progress: the full theorem list follows). -/
namespace TapkeeVerif.C14
open TapkeeVerif.Front TapkeeVerif.Gen TapkeeVerif.Params

/-- every exception class stichwort defines is caught by `tapkee::embed` and rethrown as its tapkee twin -/
theorem rethrow_map_total :
    ∀ c ∈ stichwortClasses, mapErr ⟨.stichwort, c⟩ rethrow = ⟨.tapkee, c⟩ := by decide

end TapkeeVerif.C14
