import TapkeeVerif.Model.Spe
import TapkeeVerif.Model.RandProj
import TapkeeVerif.Model.Fa
/-!
# C19 — SPE, Random Projection, Factor Analysis for every random stream  (work in progress)
-/
namespace TapkeeVerif.C19
open TapkeeVerif.Spe

theorem clamp_le_half (N nup : Nat) : clampUpdates N nup ≤ N / 2 := by
  unfold clampUpdates
  split <;> omega

end TapkeeVerif.C19
