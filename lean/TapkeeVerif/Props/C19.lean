import Mathlib.Algebra.Order.Floor.Ring
import Mathlib.Algebra.Order.Field.Rat
import Mathlib.Data.Rat.Floor
import Mathlib.Tactic.NormNum
import TapkeeVerif.Proofs.SpeIndex
import TapkeeVerif.Proofs.SpeLocal
import TapkeeVerif.Proofs.SpeSeparate
import TapkeeVerif.Proofs.SpeRun
import TapkeeVerif.Proofs.SpeCentroid
import TapkeeVerif.Proofs.SpeTotal
import TapkeeVerif.Gen.SpeVariant
import TapkeeVerif.Proofs.SpeAlgebra
import TapkeeVerif.Proofs.RandProjLemmas
import TapkeeVerif.Proofs.RandomHppLemmas
/-!
# C19 — SPE, Random Projection, Factor Analysis meet their spec for every random stream

Subjects: the executable models `Model/Spe.lean`, `Model/RandProj.lean`, `Model/Fa.lean` (the same terms the
driver `model_c19` runs against the real code on every check).  The randomness is an INPUT of the models
(`shuffle : ℕ → List ℕ`, the floor values of the uniform stream, the Gaussian stream, the `Random()` matrix, the EM
map), so "for every random stream" is a universal quantifier below — over all streams, all `N`, all iteration counts.

**What is NOT a theorem here** (and is therefore a statistical TEST in `checks/c19.py`, labelled as such in the
evidence): convergence of the stochastic SPE iteration (stress → 0 for every initialisation — not a theorem in the
literature either), and the distributional claim about `gaussian_random()` (independent, zero-mean, equal-variance
Gaussian entries).  `sqrt` is an oracle with the contract `0 ≤ s ∧ s * s = x`; IEEE rounding is outside the model.

Status of the planned statements
* `spe_indices_perm_global`, `spe_global_pairs_distinct` — proved at full strength.
* `spe_indices_perm_local` — full statement `LocalPermClaim`: `∀ valid neighbours, ∀ streams, ∀ t, (indices at
  t).Perm (List.range N)`.  It was FALSE of the code at the pinned commit (finding F-SPE-LOCAL: the local strategy
  overwrote the second half of `indices` in place; repaired in /repo by bc0d15b, partners now live in a vector of
  their own).  Both shapes are modelled (`stepPairs inPlace …`); which one the working tree has is regenerated into
  `Gen.spePartnersInPlace` by every check.  For the repaired shape the full statement is proved
  (`spe_indices_perm_local_separate`, and — stated on the generated constant, so that a regression breaks it —
  `spe_indices_perm_local` in `Props/C19Tree.lean`); for the in-place shape the refutation stays checked
  (`spe_indices_perm_local_refuted` with its witness, `spe_local_duplicate_first_members` for the consequence: one
  point selected twice in one iteration, two points gone for good) next to what did hold there
  (`spe_indices_local_partial`: no out-of-range access, entries `< N`, partners are neighbours, no self pairs);
  `spe_indices_perm_local_current` ties the claim to the shape of the tree.
* `spe_run_uses_step_pairs` — the pairs the full model `Spe.run` updates are those of the index trajectory `stepAt`;
  `spe_iteration_preserves_centroid` — a whole iteration never moves the centroid.
* `spe_pair_step_contracts` — the planned form `|D' − R| ≤ |D − R|·(1 − λ·c)` is false for `tolerance > 0`
  (at `D = R` the update moves the pair: the regulariser biases the step); what holds is proved: the exact error
  recursion `D' − R = (1−λ)(D−R) − λ·R·tol/(D+tol)` and the bounds that follow from it.
* `spe_fixed_point` — an isometric pair moves by at most `λ·tol/2` per coordinate (→ 0 with `tol`), and not at all
  for `tol = 0`.
* `rp_translation_invariant`, `rp_is_linear_in_centred_data`, `fa_translation_invariant` — proved at full strength
  (every stream, every abstract EM map, every `N` including 0).
-/
set_option linter.unusedSectionVars false
namespace TapkeeVerif.C19
open TapkeeVerif TapkeeVerif.Spe

/-! ## SPE — index bookkeeping

`stepAt inPlace global nb k N nup shuffle fv t` is the index vector and the list of pairs `(ind1 j, ind2 j)` that
iteration `t` of the model (`Spe.run`, through `Spe.iterate`) uses.  `inPlace` is the shape of the local strategy:
`true` = partners overwrite `indices[nup .. 2nup)` (the pinned commit), `false` = partners in a separate vector (the
repair `fixes/F-SPE-LOCAL.diff`).  Which one the working tree has is regenerated into `Gen.spePartnersInPlace`. -/

/-- Global strategy.  For every shuffle stream (each `shuffle t` a permutation of the positions — the contract of
    `std::shuffle`), every `N`, every requested `spe_num_updates`, every iteration `t` (and either shape of the local
    branch, which is not executed): the index vector is a permutation of `0..N-1`. -/
theorem spe_indices_perm_global (ip : Bool) (nb : List (List Nat)) (k N nupReq : Nat) (shuffle : Nat → List Nat)
    (fv : Nat → Int) (hs : ∀ t, (shuffle t).Perm (List.range N)) (t : Nat) :
    ∃ idx ps, stepAt ip true nb k N (clampUpdates N nupReq) shuffle fv t = .ok (idx, ps) ∧
      idx.Perm (List.range N) := by
  have h2 := clampUpdates_two_mul_le N nupReq
  have hall : ∀ s, ∃ idx, indicesAt true nb k N (clampUpdates N nupReq) shuffle fv s = .ok idx ∧
      2 * clampUpdates N nupReq ≤ idx.length := by
    intro s
    obtain ⟨idx, h, hp⟩ := indicesAt_global_perm nb k N (clampUpdates N nupReq) shuffle fv hs s
    exact ⟨idx, h, by rw [hp.length_eq]; simpa using h2⟩
  obtain ⟨idx, ps, hst, hi, _, _⟩ := stepAt_of_indicesAt (ip := ip) (global := true) (by simp) nb k N _ shuffle fv hall t
  obtain ⟨idx', h', hp⟩ := indicesAt_global_perm nb k N (clampUpdates N nupReq) shuffle fv hs t
  rw [hi] at h'
  cases h'
  exact ⟨idx, ps, hst, hp⟩

example : ∀ t, ((fun _ => [2, 0, 1] : Nat → List Nat) t).Perm (List.range 3) :=
  fun _ => (by decide : List.Perm [2, 0, 1] (List.range 3))

/-- Consequences for the pairs updated at iteration `t` (global strategy): there are exactly `nup` of them, pair `j`
    is `(indices[j], indices[nup+j])`, every index is `< N`, `ind1 j ≠ ind2 j` (no self pairs), and the `2·nup`
    indices of an iteration are pairwise distinct (each point is moved at most once per iteration). -/
theorem spe_global_pairs_distinct (ip : Bool) (nb : List (List Nat)) (k N nupReq : Nat) (shuffle : Nat → List Nat)
    (fv : Nat → Int) (hs : ∀ t, (shuffle t).Perm (List.range N)) (t : Nat) :
    ∃ idx ps, stepAt ip true nb k N (clampUpdates N nupReq) shuffle fv t = .ok (idx, ps) ∧
      ps.length = clampUpdates N nupReq ∧
      (∀ x ∈ idx, x < N) ∧
      (∀ j, j < clampUpdates N nupReq →
        ps[j]? = some (ind1 idx j, ind2 (clampUpdates N nupReq) idx j) ∧
        ind1 idx j < N ∧ ind2 (clampUpdates N nupReq) idx j < N ∧ ind1 idx j ≠ ind2 (clampUpdates N nupReq) idx j) ∧
      (∀ p q, p < 2 * clampUpdates N nupReq → q < 2 * clampUpdates N nupReq → p ≠ q →
        idx.getD p 0 ≠ idx.getD q 0) := by
  have h2 := clampUpdates_two_mul_le N nupReq
  have hall : ∀ s, ∃ idx, indicesAt true nb k N (clampUpdates N nupReq) shuffle fv s = .ok idx ∧
      2 * clampUpdates N nupReq ≤ idx.length := by
    intro s
    obtain ⟨idx, h, hp⟩ := indicesAt_global_perm nb k N (clampUpdates N nupReq) shuffle fv hs s
    exact ⟨idx, h, by rw [hp.length_eq]; simpa using h2⟩
  obtain ⟨idx, ps, hst, hi, hps, hl⟩ :=
    stepAt_of_indicesAt (ip := ip) (global := true) (by simp) nb k N _ shuffle fv hall t
  obtain ⟨idx', h', hp⟩ := indicesAt_global_perm nb k N (clampUpdates N nupReq) shuffle fv hs t
  rw [hi] at h'
  cases h'
  have hlen : idx.length = N := by simpa using hp.length_eq
  refine ⟨idx, ps, hst, hl, perm_range_lt hp, ?_, ?_⟩
  · intro j hj
    have hg := pairsOf_get (clampUpdates N nupReq) idx (by omega) (clampUpdates N nupReq) 0 ps (by omega) hps j hj
    rw [Nat.zero_add] at hg
    refine ⟨hg, getD_lt_of_all (perm_range_lt hp) (by omega), getD_lt_of_all (perm_range_lt hp) (by omega), ?_⟩
    exact perm_getD_ne hp (by omega) (by omega) (by omega)
  · intro p q hp' hq' hpq
    exact perm_getD_ne hp (by omega) (by omega) hpq

/-- `spe_indices_perm_local` at full strength, for a given shape of the local branch: valid neighbour lists, every
    shuffle stream, every stream of floor values in range, every iteration: the index vector is a permutation of
    `0..N-1` (so each point is a first member at most once per iteration and every point keeps being selected). -/
def LocalPermClaim (ip : Bool) : Prop :=
  ∀ (nb : List (List Nat)) (N k nupReq : Nat) (shuffle : Nat → List Nat) (fv : Nat → Int),
    ValidNeighbors nb N k → (∀ t, (shuffle t).Perm (List.range N)) → (∀ c, 0 ≤ fv c ∧ fv c < k) →
    ∀ t, ∃ idx ps, stepAt ip false nb k N (clampUpdates N nupReq) shuffle fv t = .ok (idx, ps) ∧
      idx.Perm (List.range N)

/-- the witness: 3 points, 2 neighbours each -/
def witnessNb : List (List Nat) := [[2, 1], [0, 2], [0, 1]]

theorem witnessNb_valid : ValidNeighbors witnessNb 3 2 :=
  ⟨rfl, by decide, by decide, by decide⟩

/-- FALSE for the in-place shape — the code at the pinned commit (F-SPE-LOCAL): already the first iteration turns
    `[0,1,2]` into `[0,2,2]` (identity shuffle, first neighbour picked): the overwrite of `indices[nupdates + j]`
    destroys the permutation. -/
theorem spe_indices_perm_local_refuted : ¬ LocalPermClaim true := by
  intro h
  obtain ⟨idx, ps, h1, h2⟩ := h witnessNb 3 2 1 (fun _ => [0, 1, 2]) (fun _ => 0) witnessNb_valid
    (fun _ => by decide) (fun _ => by decide) 0
  have hval : stepAt true false witnessNb 2 3 (clampUpdates 3 1) (fun _ => [0, 1, 2]) (fun _ => 0) 0
      = .ok ([0, 2, 2], [(0, 2)]) := by decide
  rw [hval] at h1
  cases h1
  have : ([0, 2, 2] : List Nat).Nodup := (h2.nodup_iff).mpr List.nodup_range
  exact absurd this (by decide)

/-- the consequence that spreads: 4 points in two mutually-nearest pairs, `nupdates = 2`; after iteration 0 the
    vector is `[0,1,1,0]` — points 2 and 3 have left it for good (only neighbours of 0 and 1 can enter) — and at
    iteration 1 (shuffle `[0,3,1,2]`) point 0 is the first member of BOTH updated pairs. -/
theorem spe_local_duplicate_first_members :
    stepAt true false [[1], [0], [3], [2]] 1 4 (clampUpdates 4 2)
        (fun t => if t = 0 then [0, 1, 2, 3] else [0, 3, 1, 2]) (fun _ => 0) 1
      = .ok ([0, 0, 1, 1], [(0, 1), (0, 1)]) := by
  decide

/-- TRUE for the shape with a separate partners vector (the proposed repair): the full statement, together with
    what the pairs are — pair `j` is (`indices[j]`, one of the first `k` neighbours of it), all `< N`, no self
    pairs, first members pairwise distinct. -/
theorem spe_indices_perm_local_separate : LocalPermClaim false ∧
    ∀ (nb : List (List Nat)) (N k nupReq : Nat) (shuffle : Nat → List Nat) (fv : Nat → Int),
      ValidNeighbors nb N k → (∀ t, (shuffle t).Perm (List.range N)) → (∀ c, 0 ≤ fv c ∧ fv c < k) →
      ∀ t, ∃ idx ps, stepAt false false nb k N (clampUpdates N nupReq) shuffle fv t = .ok (idx, ps) ∧
        idx.Perm (List.range N) ∧ ps.length = clampUpdates N nupReq ∧
        (∀ j, j < clampUpdates N nupReq → ∃ b, ps[j]? = some (ind1 idx j, b) ∧
          b ∈ (nb.getD (ind1 idx j) []).take k ∧ ind1 idx j < N ∧ b < N ∧ ind1 idx j ≠ b) ∧
        (∀ j j', j < clampUpdates N nupReq → j' < clampUpdates N nupReq → j ≠ j' → ind1 idx j ≠ ind1 idx j') := by
  have main : ∀ (nb : List (List Nat)) (N k nupReq : Nat) (shuffle : Nat → List Nat) (fv : Nat → Int),
      ValidNeighbors nb N k → (∀ t, (shuffle t).Perm (List.range N)) → (∀ c, 0 ≤ fv c ∧ fv c < k) →
      ∀ t, ∃ idx ps, stepAt false false nb k N (clampUpdates N nupReq) shuffle fv t = .ok (idx, ps) ∧
        idx.Perm (List.range N) ∧ ps.length = clampUpdates N nupReq ∧
        (∀ j, j < clampUpdates N nupReq → ∃ b, ps[j]? = some (ind1 idx j, b) ∧
          b ∈ (nb.getD (ind1 idx j) []).take k ∧ ind1 idx j < N ∧ b < N ∧ ind1 idx j ≠ b) ∧
        (∀ j j', j < clampUpdates N nupReq → j' < clampUpdates N nupReq → j ≠ j' → ind1 idx j ≠ ind1 idx j') := by
    intro nb N k nupReq shuffle fv hv hs hfv t
    have h2 := clampUpdates_two_mul_le N nupReq
    obtain ⟨idx, ps, hst, hp, hl, hpairs⟩ := stepAt_separate hv h2 shuffle hs fv hfv t
    have hlen : idx.length = N := by simpa using hp.length_eq
    refine ⟨idx, ps, hst, hp, hl, ?_, ?_⟩
    · intro j hj
      obtain ⟨b, hb1, hb2⟩ := hpairs j hj
      have hjl : j < idx.length := by omega
      have hm := rowOf_mem hv (perm_range_lt hp) hjl hb2
      exact ⟨b, hb1, hb2, getD_lt_of_all (perm_range_lt hp) hjl, hm.1, fun he => hm.2 he.symm⟩
    · intro j j' hj hj' hne
      exact perm_getD_ne hp (by omega) (by omega) hne
  refine ⟨?_, main⟩
  intro nb N k nupReq shuffle fv hv hs hfv t
  obtain ⟨idx, ps, h, hp, _⟩ := main nb N k nupReq shuffle fv hv hs hfv t
  exact ⟨idx, ps, h, hp⟩

/-- The tie to the working tree: `Gen.spePartnersInPlace` is regenerated from `routines/spe.hpp` on every check, and
    the full statement holds for the tree exactly when the tree keeps the partners apart.  (Compiles for either
    value; on the pinned commit it reads `LocalPermClaim true ↔ False`.) -/
theorem spe_indices_perm_local_current :
    LocalPermClaim Gen.spePartnersInPlace ↔ Gen.spePartnersInPlace = false := by
  cases h : Gen.spePartnersInPlace with
  | true => exact ⟨fun hc => absurd hc spe_indices_perm_local_refuted, fun hc => by cases hc⟩
  | false => exact ⟨fun _ => rfl, fun _ => spe_indices_perm_local_separate.1⟩

/-- What DOES hold for the in-place shape, for every stream and every iteration (`_partial` twin of
    `spe_indices_perm_local`): the bookkeeping never reads or writes out of range (`ind1Neighbors`, `neighbors`,
    `indices`: the model's `oob` state is not reached), the vector keeps length `N` and entries `< N`, every
    partner `ind2 j` is one of the first `k` neighbours of `ind1 j`, and there are no self pairs. -/
theorem spe_indices_local_partial {N k nupReq : Nat} {nb : List (List Nat)} (hv : ValidNeighbors nb N k)
    (shuffle : Nat → List Nat) (hs : ∀ t, (shuffle t).Perm (List.range N))
    (fv : Nat → Int) (hfv : ∀ c, 0 ≤ fv c ∧ fv c < k) (t : Nat) :
    ∃ idx ps, stepAt true false nb k N (clampUpdates N nupReq) shuffle fv t = .ok (idx, ps) ∧
      ps.length = clampUpdates N nupReq ∧
      idx.length = N ∧ (∀ x ∈ idx, x < N) ∧
      ∀ j, j < clampUpdates N nupReq →
        ps[j]? = some (ind1 idx j, ind2 (clampUpdates N nupReq) idx j) ∧
        ind1 idx j < N ∧ ind2 (clampUpdates N nupReq) idx j < N ∧
        ind2 (clampUpdates N nupReq) idx j ∈ (nb.getD (ind1 idx j) []).take k ∧
        ind1 idx j ≠ ind2 (clampUpdates N nupReq) idx j := by
  have h2 := clampUpdates_two_mul_le N nupReq
  have hall : ∀ s, ∃ idx, indicesAt false nb k N (clampUpdates N nupReq) shuffle fv s = .ok idx ∧
      2 * clampUpdates N nupReq ≤ idx.length := by
    intro s
    obtain ⟨idx, h, hb, _⟩ := indicesAt_local hv h2 shuffle hs fv hfv s
    exact ⟨idx, h, by rw [hb.1]; exact h2⟩
  obtain ⟨idx, ps, hst, hi, hps, hl⟩ :=
    stepAt_of_indicesAt (ip := true) (global := false) (by simp) nb k N _ shuffle fv hall t
  obtain ⟨idx', h', hb, hp⟩ := indicesAt_local hv h2 shuffle hs fv hfv t
  rw [hi] at h'
  cases h'
  refine ⟨idx, ps, hst, hl, hb.1, hb.2, ?_⟩
  intro j hj
  have hjl : j < idx.length := by rw [hb.1]; omega
  have hm := rowOf_mem hv hb.2 hjl (hp j hj)
  have hg := pairsOf_get (clampUpdates N nupReq) idx (by rw [hb.1]; omega) (clampUpdates N nupReq) 0 ps
    (by omega) hps j hj
  rw [Nat.zero_add] at hg
  exact ⟨hg, getD_lt_of_all hb.2 hjl, hm.1, hp j hj, fun he => hm.2 he.symm⟩

example : ValidNeighbors witnessNb 3 2 := witnessNb_valid

/-- The index theorems are about what the full model updates: in every successful run of `Spe.run` (the term the
    driver executes against the real code) the pairs recorded at iteration `u` are exactly the pairs of `stepAt` at
    `u`, driven by the floor values `floorPick` of the run's uniform stream; there is one entry per iteration. -/
theorem spe_run_uses_step_pairs {K : Type} [Add K] [Sub K] [Mul K] [Div K] [Zero K] [One K] [NatCast K] [IntCast K]
    [DecidableEq K] [LT K] [DecidableLT K] (inp : Input K) (st : State K) (h : run inp = .ok st) :
    ∃ k, kOf inp.global inp.nb = .ok k ∧
      st.trace.length = maxIter inp.N inp.maxIterReq inp.global inp.fl004 ∧
      ∀ u, u < maxIter inp.N inp.maxIterReq inp.global inp.fl004 → ∃ idx ps,
        stepAt inp.inPlace inp.global inp.nb k inp.N (clampUpdates inp.N inp.nupReq) inp.shuffle (floorPick inp k) u
          = .ok (idx, ps) ∧ st.trace.reverse[u]? = some ps :=
  run_trace inp st h

/-- the hypothesis on the floor values is what `uniform_random() ∈ [0,1)` gives: `⌊u·(k−1)⌋ ∈ [0, max 1 (k−1))`
    — as written the `k`-th neighbour is never picked -/
theorem spe_floor_pick_in_range {K : Type} [Field K] [LinearOrder K] [IsStrictOrderedRing K] [FloorRing K]
    (inp : Input K) (hfl : inp.floorO = Int.floor) (k : Nat) (hk : 1 ≤ k) (c : Nat)
    (hu : 0 ≤ inp.unif c ∧ inp.unif c < 1) :
    0 ≤ floorPick inp k c ∧ floorPick inp k c < max 1 ((k : Int) - 1) ∧ floorPick inp k c < k := by
  unfold floorPick
  rw [hfl]
  have hk1 : (0 : K) ≤ (((k : Int) - 1 : Int) : K) := by
    have : (0 : Int) ≤ (k : Int) - 1 := by omega
    exact_mod_cast this
  have h0 : 0 ≤ ⌊inp.unif c * (((k : Int) - 1 : Int) : K)⌋ := Int.floor_nonneg.mpr (mul_nonneg hu.1 hk1)
  have hlt : ⌊inp.unif c * (((k : Int) - 1 : Int) : K)⌋ < max 1 ((k : Int) - 1) := by
    rw [Int.floor_lt]
    rcases Nat.eq_or_lt_of_le hk with h | h
    · subst h
      simp
    · have hmax : max (1 : Int) ((k : Int) - 1) = (k : Int) - 1 := by omega
      rw [hmax]
      have hpos : (0 : K) < (((k : Int) - 1 : Int) : K) := by
        have : (0 : Int) < (k : Int) - 1 := by omega
        exact_mod_cast this
      calc inp.unif c * (((k : Int) - 1 : Int) : K) < 1 * (((k : Int) - 1 : Int) : K) :=
            mul_lt_mul_of_pos_right hu.2 hpos
        _ = (((k : Int) - 1 : Int) : K) := one_mul _
  refine ⟨h0, hlt, ?_⟩
  have : max (1 : Int) ((k : Int) - 1) ≤ k := by omega
  omega

/-! ## SPE — one-step algebra of the pair update -/
section algebra
variable {K : Type} [Field K] [LinearOrder K] [IsStrictOrderedRing K] {d : Nat}

/-- One update of a pair `(y_i, y_j)` as the code performs it (`pairStep`), with learning rate `0 < λ ≤ 1`,
    `tolerance > 0`, target distance `R ≥ 0`; `D`, `D2` are ANY values the sqrt oracle may return for the embedded
    distance before / after (`0 ≤ D`, `D² = ‖y_i − y_j‖²`).  Then
    1. exact error recursion  `D2 − R = (1−λ)(D − R) − λ·R·tol/(D+tol)`;
    2. `|D2 − R| ≤ (1−λ)|D − R| + λ·tol·R/(D+tol)`;
    3. if `R ≤ D + tol`: `|D2 − R| ≤ (1−λ)|D − R| + λ·tol`  (contraction by `1−λ` up to the regulariser's bias);
    4. if `D + tol ≤ R`: `|D2 − R| ≤ |D − R|`  (the error does not grow);
    5. always `|D2 − R| ≤ max |D − R| tol`;
    6. the update is symmetric: the midpoint of the pair does not move. -/
theorem spe_pair_step_contracts (lam R D tol D2 : K) (yi yj : Vec d K)
    (hlam : 0 < lam ∧ lam ≤ 1) (htol : 0 < tol) (hR : 0 ≤ R)
    (hD : 0 ≤ D ∧ D * D = sqNorm (vsub yi yj))
    (hD2 : 0 ≤ D2 ∧
      D2 * D2 = sqNorm (vsub (pairStep lam R D tol yi yj).1 (pairStep lam R D tol yi yj).2)) :
    D2 - R = (1 - lam) * (D - R) - lam * R * tol / (D + tol) ∧
    |D2 - R| ≤ (1 - lam) * |D - R| + lam * tol * (R / (D + tol)) ∧
    (R ≤ D + tol → |D2 - R| ≤ (1 - lam) * |D - R| + lam * tol) ∧
    (D + tol ≤ R → |D2 - R| ≤ |D - R|) ∧
    |D2 - R| ≤ max |D - R| tol ∧
    (∀ c, (pairStep lam R D tol yi yj).1 c + (pairStep lam R D tol yi yj).2 c = yi c + yj c) := by
  have hD' : 0 < D + tol := by linarith [hD.1]
  have hnew := new_distance lam R D tol D2 yi yj hlam.1.le hlam.2 hR hD' hD.1 hD.2 hD2.1 hD2.2
  have hid : D2 - R = (1 - lam) * (D - R) - lam * R * tol / (D + tol) := by
    rw [hnew]; exact error_identity lam R D tol hD'.ne'
  -- q = R·tol/(D+tol) ≥ 0, q·(D+tol) = R·tol
  obtain ⟨q, hq⟩ : ∃ q, q = R * tol / (D + tol) := ⟨_, rfl⟩
  have hq0 : 0 ≤ q := by rw [hq]; exact div_nonneg (mul_nonneg hR htol.le) hD'.le
  have hqm : q * (D + tol) = R * tol := by rw [hq]; field_simp
  have hid' : D2 - R = (1 - lam) * (D - R) - lam * q := by rw [hid, hq]; ring
  have h1l : 0 ≤ 1 - lam := by linarith [hlam.2]
  have habs1 : |(1 - lam) * (D - R)| = (1 - lam) * |D - R| := by rw [abs_mul, abs_of_nonneg h1l]
  have hb2 : |D2 - R| ≤ (1 - lam) * |D - R| + lam * q := by
    rw [hid']
    calc |(1 - lam) * (D - R) - lam * q| ≤ |(1 - lam) * (D - R)| + |lam * q| := abs_sub _ _
      _ = (1 - lam) * |D - R| + lam * q := by
        rw [habs1, abs_of_nonneg (mul_nonneg hlam.1.le hq0)]
  have hq_le_tol : R ≤ D + tol → q ≤ tol := by
    intro h
    by_contra hc
    rw [not_le] at hc
    have : tol * (D + tol) < q * (D + tol) := mul_lt_mul_of_pos_right hc hD'
    nlinarith [mul_le_mul_of_nonneg_right h htol.le]
  have hb3 : R ≤ D + tol → |D2 - R| ≤ (1 - lam) * |D - R| + lam * tol := by
    intro h
    have := mul_le_mul_of_nonneg_left (hq_le_tol h) hlam.1.le
    linarith
  have hb4 : D + tol ≤ R → |D2 - R| ≤ |D - R| := by
    intro h
    -- D ≤ R − tol < R, and q ≤ R − D because (R − D − q)(D+tol) = D (R − D − tol) ≥ 0
    have hDR : D - R ≤ 0 := by linarith
    have hq2 : q ≤ R - D := by
      by_contra hc
      rw [not_le] at hc
      have h1 : (R - D) * (D + tol) < q * (D + tol) := mul_lt_mul_of_pos_right hc hD'
      have h2 : 0 ≤ D * (R - (D + tol)) := mul_nonneg hD.1 (by linarith)
      nlinarith
    have hneg : D2 - R ≤ 0 := by
      rw [hid']
      have := mul_nonpos_of_nonneg_of_nonpos h1l hDR
      have := mul_nonneg hlam.1.le hq0
      linarith
    rw [abs_of_nonpos hneg, abs_of_nonpos hDR, hid']
    have := mul_le_mul_of_nonneg_left hq2 hlam.1.le
    nlinarith
  have hb5 : |D2 - R| ≤ max |D - R| tol := by
    rcases le_total R (D + tol) with h | h
    · have h3 := hb3 h
      have ha : |D - R| ≤ max |D - R| tol := le_max_left _ _
      have hbm : tol ≤ max |D - R| tol := le_max_right _ _
      have : (1 - lam) * |D - R| + lam * tol ≤ (1 - lam) * max |D - R| tol + lam * max |D - R| tol :=
        add_le_add (mul_le_mul_of_nonneg_left ha h1l) (mul_le_mul_of_nonneg_left hbm hlam.1.le)
      calc |D2 - R| ≤ (1 - lam) * |D - R| + lam * tol := h3
        _ ≤ (1 - lam) * max |D - R| tol + lam * max |D - R| tol := this
        _ = max |D - R| tol := by ring
    · exact (hb4 h).trans (le_max_left _ _)
  refine ⟨hid, ?_, hb3, hb4, hb5, pairStep_midpoint lam R D tol yi yj⟩
  have : lam * tol * (R / (D + tol)) = lam * q := by rw [hq]; ring
  rw [this]
  exact hb2

/-- non-vacuity: the hypotheses are met, e.g. by two points at distance 1 on a line, target distance 2 -/
example : ∃ (yi yj : Vec 1 ℚ) (D D2 : ℚ),
    (0 ≤ D ∧ D * D = sqNorm (vsub yi yj)) ∧
    (0 ≤ D2 ∧ D2 * D2 = sqNorm (vsub (pairStep (1/2) 2 D 1 yi yj).1 (pairStep (1/2) 2 D 1 yi yj).2)) :=
  ⟨fun _ => 1, fun _ => 0, 1, 1, by norm_num [sqNorm, sumFin, vsub],
    by norm_num [sqNorm, sumFin, vsub, pairStep, moveI, moveJ, scaleOf]⟩

/-- An isometric pair (`D = R`: the embedded distance equals the target) is a fixed point up to the regulariser:
    each coordinate of either point moves by at most `λ·tol/2`, which vanishes as `tol → 0`; and for `tol = 0`
    (with `D > 0`) the pair does not move at all. -/
theorem spe_fixed_point (lam R D tol : K) (yi yj : Vec d K)
    (hlam : 0 ≤ lam) (htol : 0 ≤ tol) (hpos : 0 < D + tol)
    (hD : 0 ≤ D ∧ D * D = sqNorm (vsub yi yj)) (hiso : D = R) :
    (∀ c, |(pairStep lam R D tol yi yj).1 c - yi c| ≤ lam / 2 * tol ∧
          |(pairStep lam R D tol yi yj).2 c - yj c| ≤ lam / 2 * tol) ∧
    (tol = 0 → pairStep lam R D tol yi yj = (yi, yj)) := by
  subst hiso
  have hs : scaleOf D D tol = -(tol / (D + tol)) := by
    unfold scaleOf
    field_simp
    ring
  have hbound : ∀ c, |lam / 2 * scaleOf D D tol * vsub yi yj c| ≤ lam / 2 * tol := by
    intro c
    have hc := abs_coord_le (vsub yi yj) D hD.1 hD.2 c
    have hfrac : tol / (D + tol) * |vsub yi yj c| ≤ tol := by
      have h1 : tol / (D + tol) * |vsub yi yj c| ≤ tol / (D + tol) * (D + tol) :=
        mul_le_mul_of_nonneg_left (by linarith) (div_nonneg htol hpos.le)
      have h2 : tol / (D + tol) * (D + tol) = tol := by field_simp
      linarith
    rw [hs, abs_mul, abs_mul, abs_neg, abs_of_nonneg (div_nonneg htol hpos.le),
      abs_of_nonneg (by positivity : 0 ≤ lam / 2)]
    calc lam / 2 * (tol / (D + tol)) * |vsub yi yj c| = lam / 2 * (tol / (D + tol) * |vsub yi yj c|) := by ring
      _ ≤ lam / 2 * tol := mul_le_mul_of_nonneg_left hfrac (by positivity)
  constructor
  · intro c
    have h := hbound c
    constructor
    · have : (pairStep lam D D tol yi yj).1 c - yi c = lam / 2 * scaleOf D D tol * vsub yi yj c := by
        simp only [pairStep, moveI]; push_cast; ring
      rw [this]; exact h
    · have : (pairStep lam D D tol yi yj).2 c - yj c = -(lam / 2 * scaleOf D D tol * vsub yi yj c) := by
        simp only [pairStep, moveJ]; push_cast; ring
      rw [this, abs_neg]; exact h
  · intro h0
    subst h0
    have hs0 : scaleOf D D 0 = 0 := by rw [hs]; simp
    ext c
    · simp [pairStep, moveI, hs0]
    · simp [pairStep, moveJ, hs0]

end algebra

/-- One whole iteration of the coordinate update, for ANY list of pairs (both strategies; repeated points and self
    pairs included), any distances, any sqrt oracle: the number of points and the sum of every coordinate over all
    points are unchanged — the centroid of the embedding never moves (it stays that of the random initialisation
    inside the unit cube; the divergence criterion of the statistical tests relies on this). -/
theorem spe_iteration_preserves_centroid {K : Type} [Field K] [DecidableEq K] [LT K] [DecidableLT K] {d : Nat}
    (Y Y' : Array (Array K)) (dist : Nat → Nat → K) (sqrtO : K → K) (alpha tol lam : K) (ps : List (Nat × Nat))
    (h : coordStep d Y dist sqrtO alpha tol lam ps = .ok Y') :
    Y'.size = Y.size ∧ ∀ c : Fin d, colSum d Y' c = colSum d Y c :=
  coordStep_centroid Y Y' dist sqrtO alpha tol lam ps h

/-! ## SPE — the whole routine never leaves its arrays and never divides by zero -/

theorem mem_pairs_bound {ps : List (Nat × Nat)} {n N : Nat} (hl : ps.length = n)
    (h : ∀ j, j < n → ∃ a b, ps[j]? = some (a, b) ∧ a < N ∧ b < N) : ∀ p ∈ ps, p.1 < N ∧ p.2 < N := by
  intro p hp
  obtain ⟨j, hj⟩ := List.getElem?_of_mem hp
  have hjl : j < ps.length := by
    by_contra hc
    rw [List.getElem?_eq_none (Nat.le_of_not_lt hc)] at hj
    cases hj
  obtain ⟨a, b, hab, ha, hb⟩ := h j (hl ▸ hjl)
  rw [hab] at hj
  cases hj
  exact ⟨ha, hb⟩

/-- For EVERY shuffle stream and uniform stream, every `N`, `spe_num_updates`, iteration count, initial configuration
    and distance callback, for both strategies and either shape of the local branch: with `tolerance > 0` (what
    `validate()` enforces), a non-negative `sqrt`, valid neighbour lists and floor values in range (local strategy), and
    `alpha` defined (global strategy: the maximum input distance is positive, or the tree guards the division —
    `Gen.speAlphaZeroGuard`), the full model `Spe.run` returns a configuration: neither `Err.oob` (some vector —
    `indices`, `ind1Neighbors`, `neighbors`, `partners`, the columns of `Y` — indexed out of range) nor `Err.divzero`
    (`D + tolerance = 0`, vanishing maximum distance) is reachable. -/
theorem spe_run_total {K : Type} [Field K] [LinearOrder K] [IsStrictOrderedRing K] (inp : Input K)
    (hY : inp.y0.size = inp.N) (htol : 0 < inp.tol) (hsq : ∀ x, 0 ≤ inp.sqrtO x)
    (hs : ∀ t, (inp.shuffle t).Perm (List.range inp.N))
    (halpha : inp.global = true → inp.zeroGuard = true ∨ maxDist inp.N inp.dist ≠ 0)
    (hlocal : inp.global = false → ∃ k, kOf false inp.nb = .ok k ∧ ValidNeighbors inp.nb inp.N k ∧
      ∀ c, 0 ≤ floorPick inp k c ∧ floorPick inp k c < k) :
    ∃ st, run inp = .ok st := by
  cases hg : inp.global with
  | true =>
    have hk : kOf inp.global inp.nb = .ok 0 := by simp [kOf, hg]
    obtain ⟨alpha, ha⟩ : ∃ alpha, alphaOf inp.zeroGuard inp.global inp.N inp.dist inp.sqrtO = .ok alpha := by
      rcases halpha hg with h | h
      · by_cases hm : maxDist inp.N inp.dist = 0
        · exact ⟨0, by simp [alphaOf, hg, hm, h]⟩
        · exact ⟨1 / maxDist inp.N inp.dist * inp.sqrtO ((2 : Nat) : K), by simp only [alphaOf, hg, if_true, hm, if_false]⟩
      · exact ⟨1 / maxDist inp.N inp.dist * inp.sqrtO ((2 : Nat) : K), by simp only [alphaOf, hg, if_true, h, if_false]⟩
    refine run_ok inp 0 alpha hk ha hY htol hsq ?_
    intro t
    obtain ⟨idx, ps, hst, hl, _, hp, _⟩ :=
      spe_global_pairs_distinct inp.inPlace inp.nb 0 inp.N inp.nupReq inp.shuffle (floorPick inp 0) hs t
    rw [hg]
    exact ⟨idx, ps, hst, mem_pairs_bound hl fun j hj => ⟨_, _, (hp j hj).1, (hp j hj).2.1, (hp j hj).2.2.1⟩⟩
  | false =>
    obtain ⟨k, hk, hv, hfv⟩ := hlocal hg
    have hk' : kOf inp.global inp.nb = .ok k := by rw [hg]; exact hk
    have ha : alphaOf inp.zeroGuard inp.global inp.N inp.dist inp.sqrtO = .ok 1 := by simp [alphaOf, hg]
    refine run_ok inp k 1 hk' ha hY htol hsq ?_
    intro t
    rw [hg]
    cases hip : inp.inPlace with
    | true =>
      obtain ⟨idx, ps, hst, hl, _, _, hp⟩ :=
        spe_indices_local_partial (nupReq := inp.nupReq) hv inp.shuffle hs (floorPick inp k) hfv t
      exact ⟨idx, ps, hst, mem_pairs_bound hl fun j hj => ⟨_, _, (hp j hj).1, (hp j hj).2.1, (hp j hj).2.2.1⟩⟩
    | false =>
      obtain ⟨idx, ps, hst, _, hl, hp, _⟩ :=
        spe_indices_perm_local_separate.2 inp.nb inp.N k inp.nupReq inp.shuffle (floorPick inp k) hv hs hfv t
      refine ⟨idx, ps, hst, mem_pairs_bound hl fun j hj => ?_⟩
      obtain ⟨b, hb1, _, hb3, hb4, _⟩ := hp j hj
      exact ⟨_, b, hb1, hb3, hb4⟩

/-- non-vacuity of `spe_run_total`, local strategy (the `hlocal` bundle): 3 points with the neighbour lists `witnessNb`
    (`k = 2`), identity shuffles, uniform draws `1/2` (floor values `⌊1/2·(2−1)⌋ = 0`), `tolerance = 1`, two iterations -/
def totalExampleLocal : Input ℚ :=
  { N := 3, d := 1, inPlace := false, zeroGuard := true, global := false, nb := witnessNb, nupReq := 1, maxIterReq := 2,
    tol := 1, dist := fun _ _ => 1, y0 := #[#[0], #[1], #[3]], shuffle := fun _ => [0, 1, 2], unif := fun _ => 1 / 2,
    sqrtO := fun x => if 0 ≤ x then x else 0, floorO := Int.floor, fl004 := 0 }

example : ∃ st, run totalExampleLocal = .ok st :=
  spe_run_total totalExampleLocal rfl (by norm_num [totalExampleLocal])
    (fun x => by simp only [totalExampleLocal]; split <;> simp_all)
    (fun _ => (by decide : List.Perm [0, 1, 2] (List.range 3)))
    (fun h => by simp [totalExampleLocal] at h)
    (fun _ => ⟨2, rfl, witnessNb_valid, fun c => by
      have h : floorPick totalExampleLocal 2 c = 0 := by
        simp only [floorPick, totalExampleLocal]
        norm_num
      rw [h]; decide⟩)

/-- … and global strategy with a positive maximum distance on the unguarded shape (`halpha` through `maxDist ≠ 0`) -/
def totalExampleGlobal : Input ℚ :=
  { totalExampleLocal with global := true, zeroGuard := false, nb := [], nupReq := 5 }

example : ∃ st, run totalExampleGlobal = .ok st :=
  spe_run_total totalExampleGlobal rfl (by norm_num [totalExampleGlobal, totalExampleLocal])
    (fun x => by simp only [totalExampleGlobal, totalExampleLocal]; split <;> simp_all)
    (fun _ => (by decide : List.Perm [0, 1, 2] (List.range 3)))
    (fun _ => Or.inr (by decide))
    (fun h => by simp [totalExampleGlobal] at h)

/-- the unguarded `alpha = 1.0 / max * sqrt(2.0)` divides by zero when all samples coincide (finding F-SPE-ZERODIST):
    two coinciding points already reach `Err.divzero` (in the code: `inf`, then `inf * 0 = nan` in every coordinate);
    with the guard `alpha` is always defined -/
theorem spe_alpha_zero_distances :
    alphaOf (K := Rat) false true 2 (fun _ _ => 0) (fun _ => 0) = .error .divzero ∧
    ∀ (N : Nat) (dist : Nat → Nat → Rat) (sqrtO : Rat → Rat) (g : Bool), ∃ a, alphaOf true g N dist sqrtO = .ok a := by
  refine ⟨by decide, ?_⟩
  intro N dist sqrtO g
  cases g with
  | false => exact ⟨1, by simp [alphaOf]⟩
  | true =>
    by_cases hm : maxDist N dist = 0
    · exact ⟨0, by simp [alphaOf, hm]⟩
    · exact ⟨1 / maxDist N dist * sqrtO ((2 : Nat) : Rat), by simp only [alphaOf, if_true, hm, if_false]⟩

/-! ## `defines/random.hpp` — the default random paths, `std::rand()` as an input stream -/
section randomhpp
open TapkeeVerif.RandomHpp
variable {K : Type} [Field K] [LinearOrder K] [IsStrictOrderedRing K]

/-- `uniform_random() ∈ [0, 1)` and `uniform_random_index_bounded(upper) ∈ [0, upper)` for every value `rand()` can
    return (`0 ≤ r ≤ RAND_MAX`) — the contract the SPE index theorems assume of the uniform stream. -/
theorem uniform_random_in_unit_interval (r : Nat) (h : r ≤ randMax) :
    (0 ≤ uniformRandom (K := K) r ∧ uniformRandom (K := K) r < 1) ∧
    ∀ upper, 0 < upper → uniformIndexBounded r upper < upper :=
  ⟨uniformRandom_range r h, fun _ hu => Nat.mod_lt _ hu⟩

/-- `gaussian_random()` (polar method) for EVERY `rand()` stream, every starting position and every amount of fuel:
    whenever the rejection loop returns, the accepted radius lies in `(0, 1)`; hence — for any `log` oracle that is
    negative on `(0,1)` and any `sqrt` oracle meeting its contract — the division is by a non-zero number, `log` is
    applied inside its domain, `sqrt` to a positive number, and the returned variate `g = x·s` satisfies
    `g² = x²·(−2·log(radius)/radius)` with `x² < 1`: no stream can produce an infinite or undefined variate, so the
    Random-Projection matrix is finite for every stream.  (Boundary draws `0`, `RAND_MAX`, `2^30` are rejected or
    harmless: `radius = 0`, `radius ≥ 1` never leave the loop.) -/
theorem gaussian_random_finite (rand : Nat → Nat) (sqrtO logO : K → K)
    (hlog : ∀ r, 0 < r → r < 1 → logO r < 0)
    (hsqrt : ∀ a, 0 ≤ a → 0 ≤ sqrtO a ∧ sqrtO a * sqrtO a = a)
    (fuel c : Nat) (g : K) (c' : Nat) (h : gaussianRandom rand sqrtO logO fuel c = some (g, c')) :
    ∃ x radius : K, polarLoop rand fuel c = some (x, radius, c') ∧
      0 < radius ∧ radius < 1 ∧ 0 < -2 * logO radius / radius ∧
      g = x * sqrtO (-2 * logO radius / radius) ∧ x * x < 1 ∧
      g * g = x * x * (-2 * logO radius / radius) ∧
      (∃ i, c' = c + 2 * (i + 1)) := by
  unfold gaussianRandom at h
  split at h
  · cases h
  · rename_i x radius c'' hp
    simp only [Option.some.injEq, Prod.mk.injEq] at h
    obtain ⟨hg, hc⟩ := h
    subst hc
    obtain ⟨h0, h1, ⟨i, hi, _⟩, hx, hr⟩ := polarLoop_accept rand fuel c x radius c'' hp
    have harg : 0 < -2 * logO radius / radius :=
      div_pos (by have := hlog radius h0 h1; linarith) h0
    have hxx : x * x < 1 := by
      have : x * x ≤ radius := by rw [hr]; linarith [mul_self_nonneg (toUnit (K := K) (rand (c'' - 1)))]
      linarith
    have hcast : (-(((2 : Nat) : K))) = -2 := by push_cast; rfl
    rw [hcast] at hg
    refine ⟨x, radius, hp, h0, h1, harg, hg.symm, hxx, ?_, ⟨i, hi⟩⟩
    rw [← hg]
    have := (hsqrt _ harg.le).2
    calc x * sqrtO (-2 * logO radius / radius) * (x * sqrtO (-2 * logO radius / radius))
        = x * x * (sqrtO (-2 * logO radius / radius) * sqrtO (-2 * logO radius / radius)) := by ring
      _ = x * x * (-2 * logO radius / radius) := by rw [this]

/-- the rejection loop stops at the first acceptable pair: the fuel `i + 1` suffices when pair `i` is acceptable, so
    the only streams on which the real loop does not return are those that never offer a pair with `0 < radius < 1`
    (probability 0; e.g. the constant stream) -/
theorem gaussian_random_terminates (rand : Nat → Nat) (i c : Nat)
    (h : let x : K := toUnit (rand (c + 2 * i)); let y : K := toUnit (rand (c + 2 * i + 1));
         ¬ (1 ≤ x * x + y * y ∨ x * x + y * y = 0)) :
    ∃ r, polarLoop (K := K) rand (i + 1) c = some r :=
  polarLoop_terminates rand i c h

end randomhpp

/-! ## Random Projection and Factor Analysis -/
section projections
open TapkeeVerif.RandProj TapkeeVerif.Fa
variable {K : Type} [Field K] [CharZero K] {N D d : Nat}

/-- Same Gaussian stream (and the same oracle value for `sqrt(D)`) ⇒ translating every sample by `t` does not
    change the Random-Projection embedding.  Every stream, every `N` (including 0), every shift.
    (The model `RandProj.embed` transcribes `compute_mean` and `project` — `Pᵀ(x_i − μ)` with `μ` computed from the data —
    so the content is `mean (X+t) = mean X + t` pushed through `project`; that the code subtracts the mean is tied by the
    correspondence run and its translation oracle, which is where "mean not subtracted" is caught.) -/
theorem rp_translation_invariant (gauss : Nat → K) (sqrtD : K) (X : Mat N D K) (t : Vec D K) :
    embed (d := d) gauss sqrtD (translate X t) = embed gauss sqrtD X := by
  rw [embed_eq, embed_eq, centre_translate]

/-- The embedding is (centred samples) × (the matrix the Gaussian stream produced) — a matrix that does not depend
    on the data — and therefore linear in the centred data. -/
theorem rp_is_linear_in_centred_data (gauss : Nat → K) (sqrtD : K) (X : Mat N D K) :
    embed (d := d) gauss sqrtD X = Mat.mul (centre X) (gaussianMatrix D d gauss sqrtD) ∧
    ∀ (a b : K) (X₁ X₂ : Mat N D K), (∀ i c, centre X i c = a * centre X₁ i c + b * centre X₂ i c) →
      ∀ i j, embed (d := d) gauss sqrtD X i j
        = a * embed (d := d) gauss sqrtD X₁ i j + b * embed (d := d) gauss sqrtD X₂ i j := by
  refine ⟨embed_eq gauss sqrtD X, ?_⟩
  intro a b X₁ X₂ h i j
  rw [embed_eq, embed_eq, embed_eq]
  exact mul_linear a b (centre X₁) (centre X₂) (centre X) _ h i j

/-- Factor Analysis with ANY EM map (the code's step, with its inverses / determinant / log as arbitrary oracles,
    is one instance), any initial loading matrix (any `Random()` stream) and any iteration bound: translating every
    sample by `t` does not change the embedding.
    CAVEAT (stated so that the theorem is not over-read): this is true BY CONSTRUCTION of the model — `Fa.embedWith` is
    defined to hand `centre X` to the EM map and to multiply `centre X` with the fitted loading, so the only mathematical
    content is `centre (X + t·1ᵀ) = centre X` (`RandProj.centre_translate`: `mean (X+t) = mean X + t`, any field of
    characteristic 0, any `N`).  That the CODE centres (`compute_mean` in `methods/factor_analysis.hpp`,
    `X.col(i) = current_vector - mean_vector` in `routines/fa.hpp`) is NOT proved here; it is established by the
    differential run of every check: `embed(X)` against the model on the same `Random()` stream (exact for 0 iterations,
    2^-30 for the transcribed EM step), zero column means and the translation pair on the implementation's output — the
    mutation "FA projects uncentred data" is caught there (`fa:translation`, `fa:colmean`), not by this theorem. -/
theorem fa_translation_invariant
    (em : DMat N D K → EmState K D d → Nat → EmState K D d × Bool)
    (A0 : DMat D d K) (maxIt : Nat) (X : Mat N D K) (t : Vec D K) :
    embedWith em A0 maxIt (translate X t) = embedWith em A0 maxIt X := by
  unfold embedWith
  rw [centre_translate]

/-- and the output is (centred samples) × (fitted loading matrix).  Like `fa_translation_invariant` this restates the
    definition of `Fa.embedWith` (it is what the model is, not a fact derived about the code); its tie to the code is the
    `span` / `ycmp` comparison of the correspondence run. -/
theorem fa_is_centred_times_loading
    (em : DMat N D K → EmState K D d → Nat → EmState K D d × Bool)
    (A0 : DMat D d K) (maxIt : Nat) (X : Mat N D K) :
    ∃ A : Mat D d K, (embedWith em A0 maxIt X).get = Mat.mul (centre X) A := by
  refine ⟨(emLoop (em (DMat.ofFn (centre X))) maxIt 0 (A0, DMat.ofFn Mat.one)).1.get, ?_⟩
  simp only [embedWith, DMat.get_ofFn]

end projections
end TapkeeVerif.C19
