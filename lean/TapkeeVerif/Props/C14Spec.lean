import TapkeeVerif.Model.Params
/-!
# C14 — the specification table (trusted statement, hand-written)

Transcribed from the property text of C14 (`/verif/properties.jsonl`) and the doc comments of
`include/tapkee/defines/keywords.hpp`; it does not mention any generated table except the names of the methods and
keywords.  `v k` is the numeric value keyword `k` has in the merged parameter set, `n` the number of samples.

Values are `XReal` (a `double` as the front end sees it: a finite rational, NaN or ±inf) and `≤`, `<` below are the IEEE
comparisons: **NaN lies in no range** (every row mentioning it is false, so `wrong_parameter_error` is expected), `+inf`
lies only in ranges without an upper bound ("non-positive width", "negative theta" … do not exclude it), `-inf` in none.
`‹q›` is the finite value `q`.  A documented bound that is a quotient (3/N, (N-1)/3) is meant *as the double a user
obtains by writing it* (`3.0 / N`): `fl q` is the double nearest to the exact rational `q` (IEEE round-to-nearest-even),
so that the at-bound value `landmark_ratio = 3.0/N` is inside its closed range for every N; likewise the number of
landmarks is `⌊fl(N · landmark_ratio)⌋`, the double product truncated.
-/
namespace TapkeeVerif.C14
open TapkeeVerif.Gen TapkeeVerif.Front

local notation "‹" q "›" => XReal.fin q
local notation "fl" => XReal.rne53

/-- the methods that search nearest neighbours -/
def neighbourMethods : List Meth :=
  [.KernelLocallyLinearEmbedding, .NeighborhoodPreservingEmbedding, .KernelLocalTangentSpaceAlignment,
   .LinearLocalTangentSpaceAlignment, .HessianLocallyLinearEmbedding, .LaplacianEigenmaps,
   .LocalityPreservingProjections, .Isomap, .LandmarkIsomap, .StochasticProximityEmbedding, .ManifoldSculpting]

/-- **The ranges listed in the property text** that apply to method `m` hold (`speLocal`: `spe_global_strategy` is
    `false`) -/
def ListedRanges (m : Meth) (n : Nat) (v : Kw → XReal) (speLocal : Bool) : Prop :=
  -- target_dimension ∈ [1, N), every method
  (‹1› ≤ v .target_dimension ∧ v .target_dimension < ‹n›) ∧
  -- num_neighbors ∈ [3, N), the 11 neighbour-using methods (SPE only with its local strategy)
  (m ∈ neighbourMethods → (m = .StochasticProximityEmbedding → speLocal = true) →
      ‹3› ≤ v .num_neighbors ∧ v .num_neighbors < ‹n›) ∧
  -- positive gaussian kernel width
  (m ∈ [Meth.LaplacianEigenmaps, .LocalityPreservingProjections, .DiffusionMap] → ‹0› < v .gaussian_kernel_width) ∧
  -- positive number of timesteps
  (m = .DiffusionMap → ‹0› < v .diffusion_map_timesteps) ∧
  -- positive SPE tolerance and number of updates
  (m = .StochasticProximityEmbedding → ‹0› < v .spe_tolerance ∧ ‹0› < v .spe_num_updates) ∧
  -- landmark_ratio ∈ [3/N, 1]  (3/N as a double)
  (m ∈ [Meth.LandmarkIsomap, .LandmarkMultidimensionalScaling] → ‹fl (3 / (n : Rat))› ≤ v .landmark_ratio ∧ v .landmark_ratio ≤ ‹1›) ∧
  -- perplexity ∈ [0, (N-1)/3]  ((N-1)/3 as a double), theta ≥ 0
  (m = .tDistributedStochasticNeighborEmbedding →
      (‹0› ≤ v .sne_perplexity ∧ v .sne_perplexity ≤ ‹fl (((n : Rat) - 1) / 3)›) ∧ ‹0› ≤ v .sne_theta) ∧
  -- FA epsilon ≥ 0
  (m = .FactorAnalysis → ‹0› ≤ v .fa_epsilon) ∧
  -- squishing rate ∈ [0, 1)
  (m = .ManifoldSculpting → ‹0› ≤ v .squishing_rate ∧ v .squishing_rate < ‹1›)

/-- **Rank conditions on `target_dimension` added by the repairs.**  They are NOT in the property's list: this half of
    the specification was written after the code was repaired, from the fix commits of the repository (subject line
    quoted per row; the check each commit added carries a one-line comment saying the same).  `dim` is the feature
    dimension the method sees (`features.dimension()`, 0 without a features callback). -/
def RankConditions (m : Meth) (n dim : Nat) (v : Kw → XReal) : Prop :=
  -- 1a9ba3c "fix: KLTSA, LLTSA, HLLE and manifold sculpting reject a target dimension their local problems cannot
  --          supply" (validate(): "the tangent coordinates are the leading eigenvectors of a num_neighbors x
  --          num_neighbors local Gram matrix"):  target_dimension ≤ num_neighbors
  (m ∈ [Meth.HessianLocallyLinearEmbedding, .KernelLocalTangentSpaceAlignment, .LinearLocalTangentSpaceAlignment] →
      v .target_dimension < v .num_neighbors + ‹1›) ∧
  -- c5e886d "fix: landmark methods reject a target dimension above the number of landmarks" (validate(): "the
  --          embedding is spanned by eigenvectors of the landmark problem"):  target_dimension ≤ ⌊N · landmark_ratio⌋
  (m ∈ [Meth.LandmarkIsomap, .LandmarkMultidimensionalScaling] →
      v .target_dimension < XReal.trunc (XReal.round (‹n› * v .landmark_ratio)) + ‹1›) ∧
  -- a64904a "fix: PCA, NPE, LLTSA and LPP reject a target dimension above the feature dimension" ("rightCols(
  --          target_dimension) of the D x D eigenvector matrix read out of bounds"), and 1a9ba3c for manifold sculpting;
  --          keywords.hpp, target_dimension: "less than the minimum of the total number of vectors and the current
  --          dimension":  target_dimension ≤ current dimension
  (m ∈ [Meth.NeighborhoodPreservingEmbedding, .LinearLocalTangentSpaceAlignment, .LocalityPreservingProjections,
        .PrincipalComponentAnalysis, .ManifoldSculpting] → v .target_dimension < ‹(dim : Rat) + 1›) ∧
  -- 79e38b2 "fix: t-SNE respects target_dimension in the exact error and rejects non-2D Barnes-Hut maps" ("the
  --          Barnes-Hut path uses a quadtree (two dimensions only)"):  theta > 0 → target_dimension = 2
  (m = .tDistributedStochasticNeighborEmbedding → ‹0› < v .sne_theta → ‹2› ≤ v .target_dimension ∧ v .target_dimension < ‹3›)

/-- every documented range that applies to method `m` holds -/
def SpecHolds (m : Meth) (n dim : Nat) (v : Kw → XReal) (speLocal : Bool) : Prop :=
  ListedRanges m n v speLocal ∧ RankConditions m n dim v

end TapkeeVerif.C14
