import TapkeeVerif.Model.Params
/-!
# C14 — the specification table (trusted statement, hand-written)

Transcribed from the property text of C14 (`/verif/properties.jsonl`) and the doc comments of
`include/tapkee/defines/keywords.hpp`; it does not mention any generated table except the names of the methods and
keywords.  `v k` is the numeric value keyword `k` has in the merged parameter set, `n` the number of samples.
-/
namespace TapkeeVerif.C14
open TapkeeVerif.Gen

/-- the methods that search nearest neighbours -/
def neighbourMethods : List Meth :=
  [.KernelLocallyLinearEmbedding, .NeighborhoodPreservingEmbedding, .KernelLocalTangentSpaceAlignment,
   .LinearLocalTangentSpaceAlignment, .HessianLocallyLinearEmbedding, .LaplacianEigenmaps,
   .LocalityPreservingProjections, .Isomap, .LandmarkIsomap, .StochasticProximityEmbedding, .ManifoldSculpting]

/-- every documented range that applies to method `m` holds (`speLocal`: `spe_global_strategy` is `false`) -/
def SpecHolds (m : Meth) (n : Nat) (v : Kw → Rat) (speLocal : Bool) : Prop :=
  -- target_dimension ∈ [1, N), every method
  (1 ≤ v .target_dimension ∧ v .target_dimension < n) ∧
  -- num_neighbors ∈ [3, N), the 11 neighbour-using methods (SPE only with its local strategy)
  (m ∈ neighbourMethods → (m = .StochasticProximityEmbedding → speLocal = true) →
      3 ≤ v .num_neighbors ∧ v .num_neighbors < n) ∧
  -- positive gaussian kernel width
  (m ∈ [Meth.LaplacianEigenmaps, .LocalityPreservingProjections, .DiffusionMap] → 0 < v .gaussian_kernel_width) ∧
  -- positive number of timesteps
  (m = .DiffusionMap → 0 < v .diffusion_map_timesteps) ∧
  -- positive SPE tolerance and number of updates
  (m = .StochasticProximityEmbedding → 0 < v .spe_tolerance ∧ 0 < v .spe_num_updates) ∧
  -- landmark_ratio ∈ [3/N, 1]
  (m ∈ [Meth.LandmarkIsomap, .LandmarkMultidimensionalScaling] → 3 / (n : Rat) ≤ v .landmark_ratio ∧ v .landmark_ratio ≤ 1) ∧
  -- perplexity ∈ [0, (N-1)/3], theta ≥ 0
  (m = .tDistributedStochasticNeighborEmbedding →
      (0 ≤ v .sne_perplexity ∧ v .sne_perplexity ≤ ((n : Rat) - 1) / 3) ∧ 0 ≤ v .sne_theta) ∧
  -- FA epsilon ≥ 0
  (m = .FactorAnalysis → 0 ≤ v .fa_epsilon) ∧
  -- squishing rate ∈ [0, 1)
  (m = .ManifoldSculpting → 0 ≤ v .squishing_rate ∧ v .squishing_rate < 1)

end TapkeeVerif.C14
